#!/bin/bash
# compile one Coq file of the project (dependencies must be built)
cd /verif/coq && timeout ${2:-600} coqc -Q gen KV -Q model KV -Q proofs KV -Q props KV -Q extract KV "$1" 2>&1 | head -${3:-40}
