#!/bin/bash
# Clean-tree sweep inside a `vp run --with-repo` snapshot: every quick check under several generator seeds
# against the snapshot of /repo.   tools/sweep_clean_snapshot.sh <out-file> <tier> <seed>...
OUT=$1; T=$2; shift; shift
R=${VP_RUN_REPO:?needs --with-repo}
export VERIF_REPO=$R
sed -i "s#=> /repo#=> $R#" harness/go.mod
./check setup > setup.log 2>&1 || { echo "setup failed" > $OUT; tail -20 setup.log >> $OUT; exit 1; }
: > $OUT
for sd in "$@"; do
  for p in C01 C02 C03 C04 C05 C06 C07 C08 C09 C10 C11 C12 C13 C14 C15 C16 C17 C18 C19 C20; do
    r=$(VERIF_SEED=$sd ./check $p --tier $T 2>&1 | grep -E '^(VIOLATION|OK|problem|X |MISMATCH)' | tail -3 | tr '\n' ' ')
    echo "seed=$sd $p $r" >> $OUT
    if echo "$r" | grep -q VIOLATION; then mkdir -p /verif/replays_bg; cp replays/$p-*.json /verif/replays_bg/ 2>/dev/null; fi
  done
done
echo done >> $OUT
