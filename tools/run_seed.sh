#!/bin/bash
# run_seed.sh <seed-name> <property> [tier]: apply a seeded change to /repo, run the check, undo.
S=/verif/seeded/$1; P=$2; T=${3:-quick}
git -C /repo apply $S/patch.diff || { echo "patch does not apply"; exit 2; }
cd /verif && ./check $P --tier $T > /tmp/seedrun_$1_$P.log 2>&1; RC=$?
git -C /repo checkout -- .
tail -4 /tmp/seedrun_$1_$P.log
echo "seed=$1 property=$P rc=$RC"
