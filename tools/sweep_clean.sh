#!/bin/bash
# sweep_clean.sh <out> <seed>...: every quick check on the unchanged tree under several generator seeds
OUT=${1:-/tmp/sweep.txt}; shift; : > $OUT
cd /verif
for sd in "$@"; do
  for p in C01 C02 C03 C04 C05 C06 C07 C08 C09 C10 C11 C12 C13 C14 C15 C16 C17 C18 C19 C20; do
    r=$(VERIF_SEED=$sd ./check $p --tier quick 2>&1 | tail -1)
    echo "seed=$sd $r" >> $OUT
  done
done
echo done >> $OUT
