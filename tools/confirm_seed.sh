#!/bin/bash
# confirm_seed.sh <seed-dir> <name>: confirm a seeded change independently in a scratch worktree:
#   suite passes with the change, demo fails with it, demo passes without it.
# seed-dir contains patch.diff, demo_test.go (or demo/), notes.md. Result printed as one JSON line.
export GOFLAGS=-mod=mod GOPROXY=off GOSUMDB=off GOTOOLCHAIN=local
SD=$1; NAME=$2
WT=/tmp/confirm/$NAME
rm -rf $WT; mkdir -p /tmp/confirm
git -C /repo worktree add -q --detach $WT HEAD || exit 2
cd $WT
# the demo goes into the directory of the package its package clause names
PKG=$(grep -m1 -E '^package ' $SD/demo_test.go | awk '{print $2}')
case "$PKG" in
  xixi_kv|xixi_kv_test) PKGDIR=. ;;
  *_test) PKGDIR=${PKG%_test} ;;
  *) PKGDIR=$PKG ;;
esac
DEST=$PKGDIR/zz_seed_demo_test.go
TAGS=""
grep -q 'go:build verif' $SD/demo_test.go 2>/dev/null && TAGS="-tags verif"
grep -q 'go test -race' $SD/notes.md 2>/dev/null && TAGS="$TAGS -race"
cp $SD/demo_test.go $WT/$DEST
# demo without the change
go test $TAGS -vet=off -count=1 -run 'Seed' ./$PKGDIR > /tmp/confirm/$NAME.clean.log 2>&1; CLEAN=$?
git apply $SD/patch.diff || { echo "{\"name\":\"$NAME\",\"error\":\"patch does not apply\"}"; cd /; git -C /repo worktree remove --force $WT; exit 1; }
go test $TAGS -vet=off -count=1 -run 'Seed' ./$PKGDIR > /tmp/confirm/$NAME.mut.log 2>&1; MUT=$?
rm -f $WT/$DEST
go build ./... > /tmp/confirm/$NAME.build.log 2>&1; BUILD=$?
go test -vet=off -count=1 ./... > /tmp/confirm/$NAME.suite.log 2>&1; SUITE=$?
cd /
git -C /repo worktree remove --force $WT
echo "{\"name\":\"$NAME\",\"demo_dest\":\"$DEST\",\"demo_clean_rc\":$CLEAN,\"demo_mutant_rc\":$MUT,\"build_rc\":$BUILD,\"suite_rc\":$SUITE}"
