#!/bin/bash
# build the Coq project, show the first error with context
cd /verif/coq && make -k -j16 2>&1 | grep -E "^File|Error" -A12 | head -${1:-40}
