#!/bin/bash
# Thorough tier of the given checks inside a `vp run --with-repo` snapshot.  tools/sweep_thorough_snapshot.sh <out> <Cnn>...
OUT=$1; shift
R=${VP_RUN_REPO:?needs --with-repo}
export VERIF_REPO=$R
sed -i "s#=> /repo#=> $R#" harness/go.mod
./check setup > setup.log 2>&1 || { echo "setup failed" > $OUT; tail -20 setup.log >> $OUT; exit 1; }
: > $OUT
for p in "$@"; do
  t0=$(date +%s)
  r=$(./check $p --tier thorough 2>&1 | grep -E '^(VIOLATION|OK|problem|X |MISMATCH)' | tail -3 | tr '\n' ' ')
  echo "$p $(( $(date +%s) - t0 ))s $r" >> $OUT
done
echo done >> $OUT
