#!/usr/bin/env python3
"""Regenerate the `fixed` list of known_findings.json and MANIFEST.hooks.source_commits from /repo's history."""
import json, subprocess
log = subprocess.check_output("git -C /repo log --reverse --format='%h %s' 10c4525..HEAD", shell=True, text=True).splitlines()
propmap = {
 'Commit writes the finished-record when pieces of the batch were flushed': 'C04',
 'batch ids come from one generator per process': 'C04 C03',
 'FlushStaged drops the staged records when the write fails': 'C11 C04',
 'checkOptions rejects an unknown index type': 'C16 C09',
 'CopyDir resolves a source directory that is a symbolic link': 'C20', 'CopyDir derives the relative path with filepath.Rel': 'C20',
 'Backup removes a merge directory left beside the destination': 'C20',
 'removes the finished-marker of a left-over merge directory': 'C07 C03',
 'requested shard count below one': 'C14 C09',
 'chunk decoding never reads': 'C02 C11 C12', 'adopt merge output idempotently': 'C06 C07', 'merge rewrites live batch': 'C06 C04',
 'abandon the merge': 'C06', 'close every rewritten': 'C06 C11', 'do not rescan the last hinted': 'C17', 'read the merge-finished': 'C06',
 'batch-finished record carries': 'C02 C04 C19', 'Batch.Put on an already staged': 'C05 C15', 'Batch.Get reads the value': 'C05',
 'committed batch rejects': 'C05 C09', 'batch writes are added': 'C17', 'batch flush rotates': 'C17 C06', 'Sync batch is flushed': 'C13 C04',
 'Put and Delete update the index': 'C08 C09', 'ListKeys sizes': 'C09', 'take the shard write lock': 'C09', 'Merge and Sync read': 'C09',
 'B-tree and skip-list indexes store': 'C15 C14', 'FileIO.Close flushes': 'C13', 'Open releases the directory lock': 'C16',
 'MMap.ResetFileSize drops': 'C20', 'Backup removes data and hint files of the destination': 'C20', 'new iterator starts at the first key': 'C10', 'Batch.Get returns a copy of a staged value': 'C15 C05', 'MMap.Sync and Close work after': 'C20 C13', 'recovery treats a torn tail': 'C03', 'zero-filled extension': 'C03', 'records assembled from chunks': 'C12', 'a structure command on a key holding another type replies WRONGTYPE': 'C19', 'CopyDir cleans the source path': 'C20', 'background merge goroutine reads bytesWrite under the engine lock': 'C09', 'Merge flushes the active file (db.Sync) before it writes the finished marker': 'C04 C07 C03', 'MMap guards its mapping with a lock': 'C09 C08 C20',
}
kf = json.load(open('/verif/known_findings.json'))
fixed = []
for l in log:
    h, msg = l.split(' ', 1)
    if msg.startswith('fix:'):
        props = ''
        for k, v in propmap.items():
            if k in msg:
                props = v
        assert props, msg
        for p in props.split():
            fixed.append({"property": p, "commit": h, "what": msg[5:]})
kf["fixed"] = fixed
json.dump(kf, open('/verif/known_findings.json', 'w'), indent=1)
m = json.load(open('/verif/MANIFEST.json'))
m["hooks"]["source_commits"] = [l.split()[0] for l in log if 'verif hook' in l]
json.dump(m, open('/verif/MANIFEST.json', 'w'), indent=1)
print(len(fixed), m["hooks"]["source_commits"])
