#!/bin/bash
# intake_seed2.sh <ID>: confirm the round-2 seeded changes of a property (/tmp/seed${SEEDROUND:-2}_out/<ID>/{3,4}) and store them
ID=$1
for n in ${SEEDNS:-3 4}; do
  SD=/tmp/seed${SEEDROUND:-2}_out/$ID/$n
  [ -f $SD/patch.diff ] || { echo "$ID $n: missing"; continue; }
  line=$(/verif/tools/confirm_seed.sh $SD ${ID}_$n | tail -1)
  echo "$line"
  SEED_SRC=$SD python3 /verif/tools/store_seed.py $ID $n "$line"
done
