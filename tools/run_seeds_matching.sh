#!/bin/bash
# run_seeds_matching.sh <glob-suffix> <out>: run stored seeds whose name matches *<suffix> against their property checks
PAT=$1; OUT=${2:-/tmp/seedtable2.txt}; : > $OUT
for d in /verif/seeded/*$PAT/; do
  s=$(basename $d); p=${s%_*}
  if ! git -C /repo apply --check $d/patch.diff 2>/dev/null; then echo "$s $p patch-does-not-apply" >> $OUT; continue; fi
  t0=$(date +%s)
  r=$(/verif/tools/run_seed.sh $s $p 2>&1 | tail -3 | tr '\n' ' ')
  echo "$s $p $(( $(date +%s) - t0 ))s $r" >> $OUT
done
git -C /repo status --short >> $OUT
echo done >> $OUT
