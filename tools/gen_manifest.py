#!/usr/bin/env python3
"""Regenerate /verif/MANIFEST.json from the table below (claimed properties) and properties.jsonl."""
import json
import subprocess

BASELINE = json.load(open('/root/.vp/BASELINE.json'))['cmd']
TECH = "machine-checked proof in Coq (Rocq) 8.16 about an executable Gallina model + model/implementation correspondence check on every run"
NOTE_ENGINE = ("theorems are about the hand-written record-level Gallina model of db.go/batch.go/merge.go "
               "(coq/model/Engine.v, Script.v), closed under the global context; the model is tied to the Go code by "
               "running both on generated scripts and comparing every projected observable (testing), and by "
               "constants regenerated from the source (T1); file-system calls assumed not to fail")

CLAIMS = {
    "C01": ("Theorem C01_reads_return_latest_write: for every configuration and every finite script over Put/Get/Delete/ListKeys/Fold/Stat/Sync/batches/Merge on a fresh database, all results equal those of a plain ordered map (proved by an invariant + refinement, unbounded in script length and value sizes); the model is executed against the real engine on generated scripts (incl. records ending within 8 bytes of a block boundary) on every run, with a reference-map oracle on the implementation side",
            NOTE_ENGINE + "; index type/shard count abstracted (C10/C14)"),
    "C02": ("Theorems C02_restart_preserves_mapping / C02_close_open / C02_open_replays_log: for every history (merge-free) with restarts anywhere under arbitrary, independently chosen configurations, all results equal those of a map on which restart is the identity; Open after Close always succeeds; recovery = replay of the log with per-batch buffering (proved via a log invariant maintained by every operation, unbounded histories); correspondence run with restarts (all index types, shard counts, both I/O types, merges included) and a dump-before-close = dump-after-open oracle",
            NOTE_ENGINE + "; histories with merges are not covered by the restart theorem (see C06), only by the correspondence run"),
    "C13": ("Theorems C13_*: the sync invariant (every rotated file flushed; unflushed bytes of acknowledged Puts/Deletes <= bytesWrite) holds at every return of every call of every history incl. restarts; Always => Put/Delete return with everything flushed; Threshold => fewer than BytesPerSync unflushed Put/Delete bytes; a Sync batch is flushed including its sealing record; Sync()/Close() flush; rotation flushes first - on the durable-length component of the model, whose Sync/Write event sequence is compared with the real engine's I/O events call by call",
            NOTE_ENGINE + "; fsync/msync = durable is the OS contract"),
    "C14": ("Theorems C14_results_independent_of_configuration / _with_merges: any two runs of one operation sequence under any two configurations, reopened with independently chosen configurations, return the same results (corollary of the refinement theorems: both equal the specification run); the check runs every generated script in lock step under three configurations (index type x shard count x I/O type x file size x sync strategy) on the real engine, diffs the transcripts with each other and with the model",
            NOTE_ENGINE + "; index type and shard count are not parameters of the engine model (one ordered map); byte-identical layout is not part of the theorem"),
    "C17": ("Theorems C17_size_equation / _with_merges / C17_keynum_exact: at every step of every history (an invariant proved by induction over operations, through batches, rotations and restarts under arbitrary configurations) DiskSize = ReclaimableSize + bytes of the live records and KeyNum = number of live keys; the check compares Stat, every live position and every file size with the model after each step and checks the equation directly on the implementation",
            NOTE_ENGINE + "; the size equation across an adopting restart (hint path) and the per-file size limit are not yet theorems: they are covered by the correspondence run and the oracle only"),
    "C03": ("Theorems C03_*: the crash image of any reachable state with the active file cut at ANY length (rotated files are flushed: C13) opens under any configuration to the specification state after some prefix of the history; operations whose records survive are included; nothing is lost without a cut - proved via 'every prefix of the log denotes a prefix of the history' (unbounded histories, batches of any size); the check takes a crash image at every I/O event of generated workloads (no cut / durable cut / byte cuts), opens each twice with the real Open and with the model and applies a prefix-of-history oracle",
            NOTE_ENGINE + "; crash model of the property (suffix loss, intact prefix, atomic durable metadata ops); in-operation crash instants and MMap are covered by the correspondence run, not by the theorems"),
    "C04": ("Theorems C04_*: the log chunk of a batch (tagged records in any number of pieces + one batch-finished record) is atomic under replay - any prefix leaves the map unchanged, the whole applies the whole batch - hence no crash splits a batch; a committed batch survives every clean restart; a Sync batch is flushed including its sealing record; crash images at every I/O event inside and after Commit are checked against {before, after} on the real engine and compared with the model",
            NOTE_ENGINE + "; uniqueness of batch ids across a crash is assumed (snowflake + wall clock)"),
    "C06": ("Theorems C06_*: for every configuration and every history with any number of merges (any scan order covering the files), restarts anywhere under independent configurations - hence the adopting restart, later restarts, merges abandoned with an error, merges repeated before adoption - all results equal those of a plain map on which Merge and Restart are the identity (invariant G = log invariant + state of the merge directory, proved through rotation, the rewrite loop, the three loops of loadMergeFiles, hint load and partial replay); a successful Merge leaves rewritten files that denote exactly the current mapping with one plain record per live key; after adoption the directory is rewritten files + post-merge files and the merge directory is gone; correspondence run on merge-heavy scenarios (output needing fewer/equal/more files, several merges, batches) with file listings compared",
            NOTE_ENGINE + "; the merge scan order is observed from the implementation and checked to cover all files; concurrent writers during the scan are outside the model (see C09)"),
    "C18": ("Theorems C18_*: after every successful Merge from any reachable state the hint file has exactly one entry per record of the rewritten files, in order, with that record's key, and each entry's location holds a plain live record with that key in the rewritten file it names; loading the hint entries and scanning only the later files builds the same index (keys, positions, sizes) as scanning every file; the adopting Open (hint path) and every later Open (scan path) expose the same mapping; the check decodes hint file and rewritten files of every merge with the implementation's own readers, compares them with each other and with the model, and compares every key's position after both kinds of Open",
            NOTE_ENGINE),
    "C07": ("Theorems C07_*: (1) a crash while Merge runs - the marker is absent, the merge directory may hold anything - from any reachable database state opens to the surviving log's mapping (all of it when nothing was cut) and the merge directory is ignored; (2) a crash at any time after the marker is written opens by adopting the merge to exactly the mapping before the crash; (3) for EVERY directory state an interrupted adoption can leave (files j..n-1 still in the merge directory for any j, any subset of the originals removed before the first rename, hint moved or not) Open completes the adoption to the same mapping and the same directory layout as the uninterrupted adoption; (4) later Opens agree. The check takes a crash image at every file-system event of Merge, Close and the adopting Open of generated histories, opens each twice with the real engine and the model and applies the acknowledged-mapping oracle",
            NOTE_ENGINE + "; atomic file-system calls; process crash (no byte loss) for the adoption part"),
    "C20": ("Theorems C20_*: for every source configuration (both I/O types), every history (rotations, batches, merges, adopted merges with hint file, restarts) and every configuration used for the copy, the directory Backup produces opens as a database with exactly the mapping the source had at that time and all invariants (so its further behaviour follows from C06_step); the source keeps its mapping, its relation to a pending merge and goes on; the physical-size invariant this rests on holds in every reachable state; correspondence run with backups at random points (incl. values ending in zero bytes, a large write right after an MMap backup, refreshing one backup directory around an adopted merge of uniform-size records), every copy opened, inspected and written to",
            NOTE_ENGINE + "; directory lock not modelled here (C16); refreshing a non-empty destination is outside the theorems"),
    "C08": ("Theorems C08_*: for any number of clients, any programs over Put/Delete/Get and EVERY schedule of their atomic actions from any reachable state, every completed call returns what the sequential specification returns at the call's linearization point (one of its own actions), a Get between index lookup and file read is immune to the other clients, the live state is the specification state after all linearization points and the log replays to it - so a restart at quiescence recovers exactly the live mapping; the atomic-action decomposition is checked against db.go by a theorem over the lock/append/index-update sequence extracted on every run (T2); the check steps real goroutines through generated schedules against the model, parks writers inside their critical sections to observe blocking, and runs free stress with a per-key linearizability checker and a restart comparison",
            NOTE_ENGINE + "; theorem at lock granularity: sync.RWMutex, shard locks and the Go memory model trusted; concurrent Merge / iterators / batches covered by execution only"),
    "C09": ("Theorems C09_*: (deadlock) for any number of threads and any schedule, threads that follow the lock-ordering discipline (take a lock only above every lock held, never one already held, release what is held, end empty-handed) never reach a deadlock; the discipline composes over call sequences; EVERY branch-free path of every exported call (Put, Get, Delete, ListKeys, Fold, Stat, Sync, Merge, Backup, Close, iterator calls, a whole batch session) extracted from the current source by translator T2b follows it with DB.mu < Batch.mu < shard lock - hence no set of clients issuing these calls deadlocks on the engine's locks; (races, panics, stalls, internal errors) searched for at run time: 2-16 goroutines issuing a random mix of all calls under the Go race detector, with recover, a watchdog that aborts the process, error classification and ordering checks of ListKeys/Fold/iterator output",
            "partial: the deadlock theorem is about the lock-event paths the translator extracts (syntactic, loops once, correlated boolean flags propagated, library calls by a small effect table); data-race freedom and absence of panics are NOT proved - they are searched for by instrumented execution (a race report, panic, stall or error is the replay); accesses through the mmap region are invisible to the detector"),
    "C10": ("Theorems C10_*: for every index content, EVERY assignment of keys to shards and shard count, each of the three shard-iterator kinds, both directions, every prefix and every call sequence over Rewind/Seek/Next whose Seek targets lie at or ahead of the cursor, (Valid, Key, position of Value) at creation and after every call equal those of a cut into the ordered, prefix-filtered snapshot (refinement proof with an invariant over live and parked shard cursors); the reference yields every key once in order and Seek positions at the first key at or after the target; ListKeys is the forward snapshot; the check runs generated legal call sequences (writes interleaved after creation, several iterators, all index types and shard counts) on the real engine, the model and a reference iterator",
            "theorems are about the Gallina model of index/sharded_index.go, btree.go, skiplist.go, map.go and iterator.go (model/Index.v); container/heap and the ordered containers are abstracted by their contracts; Value is the record at the snapshot's position (C01: positions stay readable while the database is open)"),
    "C15": ("Theorems C15_*: on an explicit heap of byte cells, for every call sequence of a caller that reuses one key buffer and one value buffer, overwrites them with arbitrary bytes after every return and writes arbitrary bytes into every returned slice, an engine that copies at the boundary returns exactly the results of the value-semantic run and ends with its contents; no cell other than the caller's two buffers is ever modified after it exists (returned slices never change); the check runs every generated engine scenario with such a hostile caller (all index types, batches, merges, restarts) against the value-semantic model, with canaries on returned slices",
            "partial: the theorems concern the discipline, not the Go code; that the implementation follows it is established by hostile execution against the value-semantic model (testing), since no semantics of Go slices is available here"),
    "C16": ("Theorems C16_*: for every sequence of Open attempts (any handles - goroutines or processes -, any directories, each completing or failing during initialisation) and Closes no directory ever has two holders; a held directory rejects every Open with the in-use error and nothing changes; a failed Open leaves it free; Close releases exactly its own locks; and every exit path of func Open extracted from the current source keeps or releases the lock as the model assumes (theorem over the generated path list). The check runs rejected Opens from the same and from child processes, failing Opens followed by regular ones, and races of several processes, comparing results with the lock-table model and the directory bytes before/after",
            "theorems are about the lock-table model (model/LockTable.v) and the exit-path list regenerated from db.go by translator T3; flock semantics are the OS contract; process interleavings are exercised, not enumerated"),
    "C12": ("Theorems C12_*: on ARBITRARY bytes at any reader position the chunk decoder, the sequential reader, the scan loop of Open/Merge and the random read never panic (every slice/index expression is a checked access in the model) and terminate; a chunk is accepted only if it carries the checksum of its own length, type and payload bytes, a record only if its header lengths add up to exactly the bytes present; a damaged checksum field is always rejected, a damaged type/payload byte for every checksum that separates strings differing in one byte; the check reads every damaged file (all single-bit flips of small files; random flips, truncations, garbage on multi-block files) with the real reader and the model and compares, and flips every bit of every byte of small databases under the real Open/Get/Fold with a written-values oracle",
            "theorems are about the byte-level reader model (Chunk.v, Record.v), tied to datafile/ by differential execution on damaged files; crc is any 32-bit function; single-byte detection is a hypothesis about CRC-32; damage to a length field and the engine-level behaviour are covered by exhaustive/randomised execution, not by a theorem"),
    "C05": ("Theorems C05_*: a batch behaves as a private copy of the map installed at Commit (read-your-writes, in-order application, put-delete-put ends present), Commit succeeds and marks the batch committed, a committed batch rejects Put/Delete/Get/Commit without changing the database - for every database state, every sequence of batch operations incl. mid-batch flushes; correspondence run on batch-heavy scripts with a layered reference oracle",
            NOTE_ENGINE + "; the staging hash index is abstracted to key lookup; a fatal double unlock is observable only in the correspondence run"),
    "C11": ("Coq theorems (props/C11.v, closed under the global context) for every history of a data file, every record length and every block offset, about an executable model that is run against package datafile on generated histories on every check (bytes, positions, sizes, scans, random reads compared)",
            "theorems are about the Gallina model of datafile/data_file.go and log_record.go; crc is an arbitrary 32-bit function; the tie to the Go code is differential execution (testing) plus regenerated constants (T1); lengths below 2^32"),
}

REASONS_PENDING = "check under construction in this session (model and theorems planned in DESIGN.md section 4); not yet claimed"


def main():
    log = subprocess.check_output("git -C /repo log --reverse --format='%h %s' 10c4525..HEAD", shell=True, text=True).splitlines()
    m = {
        "version": 1,
        "setup_cmd": "./check setup",
        "hooks": {
            "guard": "verif",
            "enable": "go build -tags verif (the harness module /verif/harness replaces github.com/XiXi-2024/xixi-kv by /repo and is rebuilt by every check)",
            "baseline_off_cmd": BASELINE,
            "source_commits": [l.split()[0] for l in log if 'verif hook' in l],
            "add_only": True,
        },
        "engines": [
            {"name": "coq-model", "path": "coq/", "serves_properties": sorted(CLAIMS),
             "kind_free_text": "hand-written executable Gallina model + theorems (Coq 8.16.1), extracted to OCaml with ExtrOcamlBasic"},
            {"name": "correspondence-harness", "path": "harness/", "serves_properties": sorted(CLAIMS),
             "kind_free_text": "Go harness (-tags verif): script generators, runner on the real engine with property oracles; OCaml driver replays each trace on the extracted model"},
        ],
        "checks": [],
        "notes": "All checks: ./check <id> --tier quick|thorough; ./check replay <file>; see DESIGN.md.",
        "not_applicable": [],
    }
    props = [json.loads(l) for l in open('/verif/properties.jsonl')]
    for p in props:
        pid = p['id']
        if pid in CLAIMS:
            text, note = CLAIMS[pid]
            m["checks"].append({
                "property_id": pid, "quick_cmd": "./check %s --tier quick" % pid,
                "thorough_cmd": "./check %s --tier thorough" % pid,
                "evidence_file": "evidence/%s.json" % pid, "replay_cmd_template": "./check replay {path}",
                "engine": "coq-model",
                "level_claimed": {"category": "proof", "text": text, "design_ref": "DESIGN.md section 4 %s" % pid},
                "level_note": note, "technique": TECH})
        else:
            m["not_applicable"].append({"property_id": pid, "reason": REASONS_PENDING})
    json.dump(m, open('/verif/MANIFEST.json', 'w'), indent=1)
    print("claimed:", sorted(CLAIMS))


if __name__ == "__main__":
    main()
