#!/usr/bin/env python3
"""gen_seed_prompts.py <round> <n1> <n2> <Cnn>...: write /tmp/seed<round>_prompts/<Cnn>.txt - the instructions for a fresh
seeding sub-agent (it sees the property text and a one-line list of the changes already stored, nothing from /verif)."""
import json, os, re, sys
rnd, n1, n2, ids = sys.argv[1], sys.argv[2], sys.argv[3], sys.argv[4:]
props = {json.loads(l)['id']: json.loads(l) for l in open('/verif/properties.jsonl')}
os.makedirs('/tmp/seed%s_prompts' % rnd, exist_ok=True)
os.makedirs('/tmp/seed%s_out' % rnd, exist_ok=True)
for pid in ids:
    known = []
    for n in range(1, 40):
        f = '/verif/seeded/%s_%d/notes.md' % (pid, n)
        if os.path.exists(f):
            first = open(f).readline().strip()
            known.append(re.sub(r"^#\s*(Seed\s+)?(C\d\d\s*/?\s*)?([Ss]eeded )?[Cc]hange\s*\d*\s*[-—:]*\s*", "", first)[:230])
    p = props[pid]
    wt = '/tmp/seed%s/%s/wt' % (rnd, pid)
    out = '/tmp/seed%s_out/%s' % (rnd, pid)
    txt = f"""You are helping to test a verification framework for the Go project XiXi-2024/xixi-kv (a Bitcask-style key-value storage engine). Your job: produce TWO independent, realistic changes (mutations) to the project's source that each BREAK the property stated below, while the project still compiles and its existing test suite still passes. You work ONLY inside your own scratch git worktree; never touch /repo or /verif (do not read /verif at all).

Setup (run first):
  export GOFLAGS=-mod=mod GOPROXY=off GOSUMDB=off GOTOOLCHAIN=local
  git -C /repo worktree add --detach {wt} HEAD
  cd {wt}
(There is no network. `go build ./... && go test -vet=off -count=1 ./...` is the existing test suite; it must pass with each change applied. Build tag `verif` exists for hooks; your change must not depend on it and must not edit any *_test.go file or any verif_on.go / verif_off.go file.)

The property ({pid}: {p['title']}):
  {p['statement']}

Changes of this property that are ALREADY known (do not repeat these or close variants; touch different code or a different mechanism):
""" + "\n".join("  - " + k for k in known) + f"""

What is wanted: each change should look like a plausible refactoring, optimisation or 'bug fix' a maintainer could have made, and should need something SPECIFIC to manifest - a particular interleaving, a crash or fault at a particular point, a multi-step sequence of operations, an unusual input or configuration, or two cooperating code sites that each look fine alone - not something ordinary use would expose at once. The two changes must be independent of each other (each is a separate patch against the unchanged tree) and should touch different code.

For each change n in {{{n1}, {n2}}} write into {out}/n/ :
  patch.diff    - `git diff` of the change against the unchanged worktree (must apply with `git apply` at the worktree root)
  demo_test.go  - ONE Go test file (test function names must start with TestSeed) that FAILS with the change applied and PASSES on the unchanged tree. Its package clause must name the package whose directory it should be placed in (package xixi_kv for the repository root, otherwise the directory's package name, e.g. package datafile, package index, package fio, package datatype); it will be copied to <pkgdir>/zz_seed_demo_test.go and run with `go test -vet=off -count=1 -run Seed ./<pkgdir>` (if it needs the race detector, write the words `go test -race` somewhere in notes.md; keep it deterministic or make it loop until the failure shows, within about a minute).
  notes.md      - first line: `# {pid} seeded change n - <one-line summary of the change>`; then: what was changed, why the property breaks, what it needs in order to manifest, and what you ran.

Before you finish, verify for each change yourself: (1) unchanged tree: the demo passes; (2) with the change: `go build ./...` works, the existing suite passes, the demo fails. Reset the worktree between the two changes (`git checkout -- . && git clean -fdq`). When done, remove your worktree: `git -C /repo worktree remove --force {wt}`. If, while reading the code, you notice that the UNCHANGED tree already violates the property in some way, add a short section `## Remark about the unchanged tree` to notes.md describing it. Final answer: two lines, one per change, with the one-line summary.
"""
    open('/tmp/seed%s_prompts/%s.txt' % (rnd, pid), 'w').write(txt)
    print('/tmp/seed%s_prompts/%s.txt' % (rnd, pid))
