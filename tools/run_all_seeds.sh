#!/bin/bash
# run every stored seed against the check of its property; one line per seed in $1 (default /tmp/seedtable.txt)
OUT=${1:-/tmp/seedtable.txt}; : > $OUT
for d in /verif/seeded/*/; do
  s=$(basename $d); p=${s%_*}
  if ! git -C /repo apply --check $d/patch.diff 2>/dev/null; then echo "$s $p patch-does-not-apply" >> $OUT; continue; fi
  t0=$(date +%s)
  r=$(/verif/tools/run_seed.sh $s $p 2>&1 | tail -2 | tr '\n' ' ')
  echo "$s $p $(( $(date +%s) - t0 ))s $r" >> $OUT
done
git -C /repo status --short >> $OUT
echo done >> $OUT
