#!/bin/bash
# Seed sweep inside a `vp run --with-repo` snapshot (cwd = snapshot of /verif, $VP_RUN_REPO = snapshot of /repo):
#   tools/sweep_seeds_snapshot.sh <out-file> <regex over seed names> [tier]
# Applies each stored seed to the *snapshot* repository (never to /repo), runs the check of its property
# against it and undoes it.  Results are not evidence; they say which seeds the checks report.
OUT=$1; RE=${2:-.}; T=${3:-quick}
R=${VP_RUN_REPO:?needs --with-repo}
export VERIF_REPO=$R
sed -i "s#=> /repo#=> $R#" harness/go.mod
./check setup > setup.log 2>&1 || { echo "setup failed" > $OUT; tail -20 setup.log >> $OUT; exit 1; }
: > $OUT
for d in $PWD/seeded/*/; do
  s=$(basename $d); p=${s%_*}
  echo $s | grep -Eq "$RE" || continue
  if ! git -C $R apply --check $d/patch.diff 2>/dev/null; then echo "$s $p patch-does-not-apply" >> $OUT; continue; fi
  git -C $R apply $d/patch.diff
  t0=$(date +%s)
  ./check $p --tier $T > run_$s.log 2>&1; rc=$?
  git -C $R checkout -- .
  echo "$s $p $(( $(date +%s) - t0 ))s rc=$rc $(grep -E '^(VIOLATION|OK|KNOWN)' run_$s.log | tail -2 | tr '\n' ' ')" >> $OUT
done
echo "clean $p" >> $OUT
git -C $R status --short >> $OUT
echo done >> $OUT
