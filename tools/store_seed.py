#!/usr/bin/env python3
"""store_seed.py <prop> <n> <confirm-json-line>: copy a confirmed seeded change into /verif/seeded/."""
import json, os, shutil, sys
prop, n, line = sys.argv[1], sys.argv[2], sys.argv[3]
res = json.loads(line)
src = os.environ.get("SEED_SRC") or "/tmp/seed/%s/_seed/%s" % (prop, n)
dst = "/verif/seeded/%s_%s" % (prop, n)
os.makedirs(dst, exist_ok=True)
for f in ("patch.diff", "demo_test.go", "notes.md"):
    if os.path.exists(os.path.join(src, f)):
        shutil.copy(os.path.join(src, f), dst)
notes = open(os.path.join(src, "notes.md")).read()
meta = {"property": prop, "needs_to_manifest": "see notes.md",
        "confirmed": {"existing_suite_passes_with_change": res["suite_rc"] == 0,
                      "demo_fails_with_change": res["demo_mutant_rc"] != 0,
                      "demo_passes_without_change": res["demo_clean_rc"] == 0,
                      "how": "tools/confirm_seed.sh in a scratch worktree of /repo (demo placed at %s)" % res["demo_dest"]},
        "detected_by": None}
json.dump(meta, open(os.path.join(dst, "meta.json"), "w"), indent=1)
