#!/usr/bin/env python3
"""gen_seed_table.py [results-file]: markdown table of the seeded changes (seeded/<id>_n) with the outcome of
the check of their own property, from seeded/RESULTS_final.txt (written by tools/run_all_seeds.sh); updates
meta.json detected_by of every seed.  Prints the table and a summary line."""
import json, os, re, sys
root = os.path.dirname(os.path.dirname(os.path.abspath(__file__)))
res = sys.argv[1] if len(sys.argv) > 1 else os.path.join(root, "seeded", "RESULTS_final.txt")
out = {}
for l in open(res):
    f = l.split()
    if len(f) >= 3 and re.match(r"C\d\d_\d+$", f[0]):
        out[f[0]] = l
def key(s):
    p, n = s.split("_"); return (p, int(n))
rows, tot, rep, nofail = [], 0, 0, 0
for s in sorted(out, key=key):
    d = os.path.join(root, "seeded", s)
    gist = ""
    try:
        first = open(os.path.join(d, "notes.md")).readline().strip()
        gist = re.sub(r"^#\s*(C\d\d\s+)?[Ss]eeded change\s+\d+\s*[-:]\s*", "", first)
    except OSError:
        pass
    l = out[s]
    if "VIOLATION" in l and "no-failing-input-found" in l:
        r = "VIOLATION, model/implementation correspondence broken, `no-failing-input-found`"; det = "own check: VIOLATION no-failing-input-found"; rep += 1; nofail += 1
    elif "VIOLATION" in l:
        r = "VIOLATION with the failing scenario as replay"; det = "own check: VIOLATION with replay"; rep += 1
    elif "patch-does-not-apply" in l:
        r = "patch does not apply"; det = None
    else:
        r = "**not reported** (see below)"; det = "own check: not reported"
    tot += 1
    rows.append("| %s | %s | %s |" % (s, gist.replace("|", "\\|"), r))
    mp = os.path.join(d, "meta.json")
    if os.path.exists(mp):
        m = json.load(open(mp)); m["detected_by"] = det
        json.dump(m, open(mp, "w"), indent=1); open(mp, "a").write("\n")
print("| seed | change (one line) | result of `./check <its property>` (quick tier, final tree) |\n|---|---|---|")
print("\n".join(rows))
print("\nSUMMARY total=%d reported=%d with_replay=%d no_failing_input=%d" % (tot, rep, rep - nofail, nofail))
