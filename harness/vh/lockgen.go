package vh

import "fmt"

// GenLockScript (C16): Opens that must be rejected (same process, another process) while the
// directory is open, Opens that fail for another reason, the directory opened again afterwards,
// races of several processes on a fresh and on a used directory.
func GenLockScript(r *Rng, hist map[string]int) []string {
	var out []string
	add := func(format string, a ...interface{}) { out = append(out, "E "+fmt.Sprintf(format, a...)) }
	o := EngineGenOpts{FixedIO: -1}
	// the secondary attempts use standard I/O: a memory-mapped Open that fails, or that is made by a
	// process which does not close, leaves 512 MiB-extended files behind (physical sizes only)
	o2 := EngineGenOpts{FixedIO: 0}
	c := genCfg(r, o, hist)
	add("dir db")
	if r.Chance(1, 3) {
		add("openrace %d %s", 2+r.Intn(4), genCfg(r, o2, hist))
		hist["lock_race_fresh"]++
	}
	add("open %s", c)
	n := 3 + r.Intn(10)
	busyDone := false
	for i := 0; i < n; i++ {
		switch r.Intn(8) {
		case 0, 1:
			add("open2 %s", genCfg(r, o2, hist))
			hist["lock_open2"]++
		case 2:
			add("openchild %s", genCfg(r, o2, hist))
			hist["lock_openchild"]++
		case 3:
			add("dump")
			if r.Chance(1, 2) {
				add("probeclose")
				hist["lock_probe_close"]++
			}
			if r.Chance(1, 4) {
				// an opener caught between opening the lock file and locking it, overtaken by Close
				add("lockprobe %s", genCfg(r, o2, hist))
				hist["lock_opener_overtaken_by_close"]++
			} else if c.io == 0 && r.Chance(1, 3) {
				// a Close that reports an I/O error (one data file cannot be synced) releases the lock all the same
				add("closefail %d", r.Intn(8))
				hist["lock_close_with_io_error"]++
				add("openchild %s", genCfg(r, o2, hist))
			} else {
				add("close")
			}
			if r.Chance(1, 2) {
				add("openbad %s", genCfg(r, o2, hist))
				hist["lock_openbad"]++
			}
			if r.Chance(1, 3) {
				add("openchild %s", genCfg(r, o2, hist))
				hist["lock_openchild_free"]++
			}
			if r.Chance(1, 3) {
				add("openbg %s", genCfg(r, o2, hist))
				hist["lock_open_with_background_merge"]++
			}
			if r.Chance(1, 4) {
				add("openrace %d %s", 2+r.Intn(3), genCfg(r, o2, hist))
				hist["lock_race_used"]++
			}
			c = genCfg(r, o, hist)
			add("open %s", c)
			add("dump")
		case 4:
			// a finished merge waits in the side directory for the next Open: a rejected Open must leave it alone
			add("del %s", engKeys[r.Intn(5)])
			add("merge")
			add("files")
			add("open2 %s", genCfg(r, o2, hist))
			add("files")
			if r.Chance(1, 2) {
				add("openchild %s", genCfg(r, o2, hist))
				add("files")
			}
			hist["lock_rejected_open_with_pending_merge"]++
			if r.Chance(1, 2) {
				// stray entries in the merge directory (a lock file left by someone who opened the merge output as a
				// database, a foreign file): the adopting Open takes the rewritten files and the hint file only,
				// and the directory stays locked for everybody else
				add("straylock")
				add("close")
				c = genCfg(r, o, hist)
				add("open %s", c)
				add("open2 %s", genCfg(r, o2, hist))
				add("openchild %s", genCfg(r, o2, hist))
				add("dump")
				add("files")
				hist["lock_stray_lock_file_in_merge_directory"]++
			}
		case 6:
			// a configuration that checkOptions rejects: nothing is touched, with the directory open or not
			add("openopts %s", r.PickS("dirpath", "fsize0", "fsizeneg", "ratio", "rationeg", "bps", "thresh0", "index0", "index0", "index9"))
			hist["lock_open_with_rejected_configuration"]++
		case 5:
			if busyDone {
				add("put %s @%d:%d", engKeys[r.Intn(5)], 1+r.Intn(30), r.Intn(9999))
				break
			}
			busyDone = true
			// Merge calls that overlap: whatever they answer, none may keep the engine lock - Close must return and the
			// directory must be free for the next opener
			add("put %s @%d:%d", engKeys[r.Intn(5)], 1+r.Intn(30), r.Intn(9999))
			add("mergebusy")
			add("close")
			add("openchild %s", genCfg(r, o2, hist))
			c = genCfg(r, o, hist)
			add("open %s", c)
			add("dump")
			hist["lock_close_after_overlapping_merges"]++
		default:
			add("put %s @%d:%d", engKeys[r.Intn(5)], 1+r.Intn(30), r.Intn(9999))
		}
	}
	add("dump")
	add("files")
	if r.Chance(1, 6) {
		// Close while the engine's background merge goroutine is inside a Merge
		add("probeclose")
		add("close")
		cb := genCfg(r, o2, hist)
		cb.fsize = r.Pick(4096, 40960)
		cb.sync = 0 // the background goroutine starts a merge when bytesWrite changed since its last look
		add("closebg %s", cb)
		hist["lock_close_during_background_merge"]++
		return out
	}
	if c.io == 0 && r.Chance(1, 2) {
		add("closefail %d", r.Intn(8))
		hist["lock_close_with_io_error"]++
		add("openchild %s", genCfg(r, o2, hist))
		return out
	}
	add("probeclose")
	add("close")
	return out
}

func init() {
	extraCommands["lockgen"] = func(args []string) {
		fs := newFlagSet("lockgen")
		seed := fs.Uint64("seed", 1, "seed")
		n := fs.Int("n", 30, "scenarios")
		out := fs.String("out", "", "output")
		histp := fs.String("hist", "", "histogram output")
		kind := fs.String("kind", "quick", "tier")
		_ = fs.Parse(args)
		_ = kind
		r := NewRng(*seed)
		h := map[string]int{}
		var lines []string
		for i := 0; i < *n; i++ {
			lines = append(lines, fmt.Sprintf("S %d", i))
			lines = append(lines, GenLockScript(r, h)...)
		}
		writeLines(*out, lines)
		writeHistFile(*histp, h)
	}
}
