package vh

import (
	"bytes"
	"encoding/binary"
	"fmt"
	"strconv"
	"strings"
	"time"

	kv "github.com/XiXi-2024/xixi-kv"
	"github.com/XiXi-2024/xixi-kv/datatype"
)

// ---- C19: the Redis-style layer -------------------------------------------------------------------
// Every dt* line runs one DataTypeService command on the open engine.  The observation is
//   <reply> @ now=<ns> ver=<version of the key's metadata afterwards> exp=<expiry of a string> bid=<batch id> raw=<the key's record>
// now/ver/exp/bid are inputs of the model (clock readings and the snowflake id); reply, raw and the
// I/O events are compared.  dtRef is the property oracle: the abstract types, nothing of the encoding.

type dtVal struct {
	kind    byte // datatype.String ...
	str     []byte
	expired bool
	hash    map[string][]byte
	set     map[string]bool
	list    [][]byte
	zset    map[string]string
}

type dtRef struct{ m map[string]*dtVal }

func (d *dtRef) get(k []byte) *dtVal { return d.m[string(k)] }

// the reply classes of the reference: what a client can tell apart
const (
	dtAbsent = "absent" // (nil, nil) or ErrKeyNotFound
	dtWrong  = "wrongtype"
)

func scoreTok(s string) (float64, string) {
	f, err := strconv.ParseFloat(s, 64)
	if err != nil || strconv.FormatFloat(f, 'f', -1, 64) != s {
		panic("score token is not canonical: " + s)
	}
	return f, s
}

func dtErr(err error) string {
	switch err {
	case datatype.ErrWrongTypeOperation:
		return "wrongtype"
	}
	if err != nil && err.Error() == "value is null" {
		return "null"
	}
	return "err " + EngErr(err)
}

func (r *EngineRunner) dtFail(format string, a ...interface{}) { r.fail("C19", format, a...) }

// expectKind: nil = absent (fresh), else the live value when it has the kind; wrong=true on a type clash.
func (d *dtRef) expectKind(k []byte, kind byte) (v *dtVal, wrong bool) {
	v = d.get(k)
	if v == nil {
		return nil, false
	}
	if v.kind != kind {
		return nil, true
	}
	return v, false
}

func (r *EngineRunner) execDT(f []string) (res string) {
	if r.dt == nil {
		r.dt = &dtRef{m: map[string]*dtVal{}}
	}
	if r.svc == nil || r.svcDB != r.db { // one service per Open, as NewDataTypeService
		r.svc, r.svcDB = datatype.VerifWrap(r.db), r.db
	}
	svc := r.svc
	var bid uint64
	kv.VerifBatch = func(id uint64) { bid = id }
	defer func() { kv.VerifBatch = nil }()
	arg := func(i int) []byte { b, _ := ParseTok(f[i]); return b }
	if r.hostile {
		// the arguments of one command are adjacent sub-slices of ONE buffer with spare capacity behind each
		// (a network parser hands them out like that): whoever appends to one of them writes into the next
		var parsed [][]byte
		total := 0
		for i := 2; i < len(f); i++ {
			b, _ := ParseTok(f[i])
			parsed = append(parsed, b)
			total += len(b)
		}
		buf := make([]byte, 0, total+96)
		offs := make([]int, len(parsed))
		for i, b := range parsed {
			offs[i] = len(buf)
			buf = append(buf, b...)
		}
		pristine := append([]byte(nil), buf...)
		arg = func(i int) []byte {
			if parsed[i-2] == nil {
				return nil
			}
			return buf[offs[i-2] : offs[i-2]+len(parsed[i-2])]
		}
		defer func() {
			if !bytes.Equal(buf[:len(pristine)], pristine) {
				r.dtFail("%s: the service wrote into the caller's argument buffer (arguments packed in one buffer were changed)", strings.Join(f[1:], " "))
			}
		}()
	}
	key := arg(2)
	now := time.Now().UnixNano()
	d := r.dt
	var reply string
	// unknown: the reference does not say (cross-type command on an expired string)
	expiredString := func() bool { v := d.get(key); return v != nil && v.kind == datatype.String && v.expired }
	check := func(want string) {
		got := reply
		if got == "nil" || got == "err notfound" || got == "s -1" {
			got = dtAbsent
		}
		if want != got {
			r.dtFail("%s: the reference replies %s, the service replied %s", strings.Join(f[1:], " "), want, reply)
		}
	}
	boolS := func(b bool) string {
		if b {
			return "b1"
		}
		return "b0"
	}
	switch f[1] {
	case "dtset":
		v := arg(3)
		if v == nil {
			v = []byte{}
		}
		var ttl time.Duration
		expired := false
		switch f[4] {
		case "1":
			ttl, expired = time.Nanosecond, true
		case "2":
			ttl = time.Hour
		case "3":
			ttl, expired = -time.Hour, true
		}
		err := svc.Set(key, v, ttl)
		if err != nil {
			reply = dtErr(err)
		} else {
			reply = "ok"
		}
		if len(key) == 0 {
			check("err keyempty")
		} else {
			check("ok")
			d.m[string(key)] = &dtVal{kind: datatype.String, str: cp(v), expired: expired}
		}
	case "dtget":
		v, err := svc.Get(key)
		switch {
		case err != nil:
			reply = dtErr(err)
		case len(v) == 0: // an empty value and "no value" are the same observation (the engine returns nil for both)
			reply = "nil"
		default:
			reply = "v " + Obs(v)
		}
		x := d.get(key)
		switch {
		case len(key) == 0:
			check("err keyempty")
		case x == nil:
			check(dtAbsent)
		case x.kind != datatype.String:
			check(dtWrong)
		case x.expired:
			check(dtAbsent)
		case len(x.str) == 0:
			if reply != "nil" {
				check("v -")
			}
		default:
			check("v " + Obs(x.str))
		}
	case "dtdel":
		err := svc.Del(key)
		if err != nil {
			reply = dtErr(err)
		} else {
			reply = "ok"
		}
		if len(key) == 0 {
			check("err keyempty")
		} else {
			check("ok")
			delete(d.m, string(key))
		}
	case "dttype":
		t, err := svc.Type(key)
		if err != nil {
			reply = dtErr(err)
		} else {
			reply = fmt.Sprintf("t %d", t)
		}
		x := d.get(key)
		switch {
		case len(key) == 0:
			check("err keyempty")
		case x == nil:
			check(dtAbsent)
		case expiredString(): // the reference does not say whether an expired string still has a type
		default:
			check(fmt.Sprintf("t %d", x.kind))
		}
	case "hset":
		fld, v := arg(3), arg(4)
		if v == nil {
			v = []byte{}
		}
		ok, err := svc.HSet(key, fld, v)
		if err != nil {
			reply = dtErr(err)
		} else {
			reply = boolS(ok)
		}
		x, wrong := d.expectKind(key, datatype.Hash)
		switch {
		case expiredString():
		case wrong:
			check(dtWrong)
		default:
			if x == nil {
				x = &dtVal{kind: datatype.Hash, hash: map[string][]byte{}}
				d.m[string(key)] = x
			}
			_, had := x.hash[string(fld)]
			check(boolS(!had))
			x.hash[string(fld)] = cp(v)
		}
	case "hget":
		fld := arg(3)
		v, err := svc.HGet(key, fld)
		switch {
		case err != nil:
			reply = dtErr(err)
		case len(v) == 0: // an empty value and "no value" are the same observation (the engine returns nil for both)
			reply = "nil"
		default:
			reply = "v " + Obs(v)
		}
		x, wrong := d.expectKind(key, datatype.Hash)
		switch {
		case expiredString():
		case wrong:
			check(dtWrong)
		case x == nil:
			check(dtAbsent)
		default:
			if hv, ok := x.hash[string(fld)]; ok {
				if len(hv) == 0 { // an empty value reads back as an empty slice
					if reply != "v -" && reply != "nil" {
						check("v -")
					}
				} else {
					check("v " + Obs(hv))
				}
			} else {
				check(dtAbsent)
			}
		}
	case "hdel":
		fld := arg(3)
		ok, err := svc.HDel(key, fld)
		if err != nil {
			reply = dtErr(err)
		} else {
			reply = boolS(ok)
		}
		x, wrong := d.expectKind(key, datatype.Hash)
		switch {
		case expiredString():
		case wrong:
			check(dtWrong)
		case x == nil:
			check(boolS(false))
		default:
			_, had := x.hash[string(fld)]
			check(boolS(had))
			delete(x.hash, string(fld))
		}
	case "sadd", "srem", "sismember":
		mem := arg(3)
		var ok bool
		var err error
		switch f[1] {
		case "sadd":
			ok, err = svc.SAdd(key, mem)
		case "srem":
			ok, err = svc.SRem(key, mem)
		default:
			ok, err = svc.SIsMember(key, mem)
		}
		if err != nil {
			reply = dtErr(err)
		} else {
			reply = boolS(ok)
		}
		x, wrong := d.expectKind(key, datatype.Set)
		switch {
		case expiredString():
		case wrong:
			check(dtWrong)
		default:
			has := x != nil && x.set[string(mem)]
			switch f[1] {
			case "sadd":
				check(boolS(!has))
				if x == nil {
					x = &dtVal{kind: datatype.Set, set: map[string]bool{}}
					d.m[string(key)] = x
				}
				x.set[string(mem)] = true
			case "srem":
				check(boolS(has))
				if x != nil {
					delete(x.set, string(mem))
				}
			default:
				check(boolS(has))
			}
		}
	case "lpush", "rpush":
		e := arg(3)
		if e == nil {
			e = []byte{}
		}
		var n uint32
		var err error
		if f[1] == "lpush" {
			n, err = svc.LPush(key, e)
		} else {
			n, err = svc.RPush(key, e)
		}
		if err != nil {
			reply = dtErr(err)
		} else {
			reply = fmt.Sprintf("n %d", n)
		}
		x, wrong := d.expectKind(key, datatype.List)
		switch {
		case expiredString():
		case wrong:
			check(dtWrong)
		default:
			if x == nil {
				x = &dtVal{kind: datatype.List}
				d.m[string(key)] = x
			}
			if f[1] == "lpush" {
				x.list = append([][]byte{cp(e)}, x.list...)
			} else {
				x.list = append(x.list, cp(e))
			}
			check(fmt.Sprintf("n %d", len(x.list)))
		}
	case "lpop", "rpop":
		var v []byte
		var err error
		if f[1] == "lpop" {
			v, err = svc.LPop(key)
		} else {
			v, err = svc.RPop(key)
		}
		switch {
		case err != nil:
			reply = dtErr(err)
		case len(v) == 0: // an empty value and "no value" are the same observation (the engine returns nil for both)
			reply = "nil"
		default:
			reply = "v " + Obs(v)
		}
		x, wrong := d.expectKind(key, datatype.List)
		switch {
		case expiredString():
		case wrong:
			check(dtWrong)
		case x == nil || len(x.list) == 0:
			check(dtAbsent)
		default:
			var want []byte
			if f[1] == "lpop" {
				want, x.list = x.list[0], x.list[1:]
			} else {
				want, x.list = x.list[len(x.list)-1], x.list[:len(x.list)-1]
			}
			if len(want) == 0 {
				if reply != "v -" && reply != "nil" {
					check("v -")
				}
			} else {
				check("v " + Obs(want))
			}
		}
	case "zadd":
		sc, scs := scoreTok(f[3])
		mem := arg(4)
		ok, err := svc.ZAdd(key, sc, mem)
		if err != nil {
			reply = dtErr(err)
		} else {
			reply = boolS(ok)
		}
		x, wrong := d.expectKind(key, datatype.ZSet)
		switch {
		case expiredString():
		case wrong:
			check(dtWrong)
		default:
			if x == nil {
				x = &dtVal{kind: datatype.ZSet, zset: map[string]string{}}
				d.m[string(key)] = x
			}
			_, had := x.zset[string(mem)]
			check(boolS(!had))
			x.zset[string(mem)] = scs
		}
	case "zscore":
		mem := arg(3)
		sc, err := svc.ZScore(key, mem)
		if err != nil {
			reply = dtErr(err)
		} else {
			reply = "s " + strconv.FormatFloat(sc, 'f', -1, 64)
		}
		x, wrong := d.expectKind(key, datatype.ZSet)
		switch {
		case expiredString():
		case wrong:
			check(dtWrong)
		case x == nil:
			check(dtAbsent)
		default:
			if s, ok := x.zset[string(mem)]; ok {
				check("s " + s)
			} else {
				check(dtAbsent)
			}
		}
	default:
		return "err unknown-op"
	}
	// the key's record afterwards: version and expiry are clock readings the model takes as inputs
	var ver, exp int64
	raw, err := r.db.Get(key)
	rawS := "none"
	if err == nil {
		rawS = Obs(raw)
		if len(raw) > 0 {
			e, n := binary.Varint(raw[1:])
			if raw[0] == datatype.String {
				exp = e
			} else if n > 0 {
				ver, _ = binary.Varint(raw[1+n:])
			}
		}
	}
	r.ref.dtDirty = true // the byte-level reference map is re-seeded by the next dump
	return fmt.Sprintf("%s @ now=%d ver=%d exp=%d bid=%d raw=%s", reply, now, ver, exp, bid, rawS) + r.takeEvents(false)
}

var _ = bytes.Equal

var dtOps = map[string]bool{"dtset": true, "dtget": true, "dtdel": true, "dttype": true, "hset": true, "hget": true, "hdel": true,
	"sadd": true, "srem": true, "sismember": true, "lpush": true, "rpush": true, "lpop": true, "rpop": true, "zadd": true, "zscore": true}
