// Package vh: correspondence harness for xixi-kv (run with -tags verif).
package vh

import (
	"crypto/md5"
	"encoding/hex"
	"fmt"
	"strconv"
	"strings"
)

// Rng is the single source of randomness (splitmix64), so a seed replays exactly.
type Rng struct{ s uint64 }

func NewRng(seed uint64) *Rng { return &Rng{s: seed*0x9E3779B97F4A7C15 + 0x1234567} }
func (r *Rng) Next() uint64 {
	r.s += 0x9E3779B97F4A7C15
	z := r.s
	z = (z ^ (z >> 30)) * 0xBF58476D1CE4E5B9
	z = (z ^ (z >> 27)) * 0x94D049BB133111EB
	return z ^ (z >> 31)
}
func (r *Rng) Intn(n int) int {
	if n <= 0 {
		return 0
	}
	return int(r.Next() % uint64(n))
}
func (r *Rng) Chance(num, den int) bool  { return r.Intn(den) < num }
func (r *Rng) Pick(xs ...int) int        { return xs[r.Intn(len(xs))] }
func (r *Rng) PickS(xs ...string) string { return xs[r.Intn(len(xs))] }

// GenBytes expands "@len:seed" deterministically (same LCG in ocaml/driver.ml).
func GenBytes(n int, seed uint64) []byte {
	b := make([]byte, n)
	x := seed & 0x7fffffff
	for i := range b {
		x = (x*1103515245 + 12345) & 0x7fffffff
		b[i] = byte(x >> 16)
	}
	return b
}

// Tok renders a byte string as an input token: "-" for empty, hex, or @len:seed when it came from GenBytes.
func HexTok(b []byte) string {
	if len(b) == 0 {
		return "-"
	}
	return hex.EncodeToString(b)
}

// ParseTok parses "-", hex, or "@len:seed".
func ParseTok(t string) ([]byte, error) {
	if t == "-" {
		return nil, nil
	}
	if strings.HasPrefix(t, "@") {
		p := strings.SplitN(t[1:], ":", 2)
		if len(p) != 2 {
			return nil, fmt.Errorf("bad token %q", t)
		}
		n, err := strconv.Atoi(p[0])
		if err != nil {
			return nil, err
		}
		s, err := strconv.ParseUint(p[1], 10, 64)
		if err != nil {
			return nil, err
		}
		return GenBytes(n, s), nil
	}
	return hex.DecodeString(t)
}

// Obs renders an observed byte string: "-" empty, hex up to 48 bytes, else #md5:len.
func Obs(b []byte) string {
	if len(b) == 0 {
		return "-"
	}
	if len(b) <= 48 {
		return hex.EncodeToString(b)
	}
	s := md5.Sum(b)
	return "#" + hex.EncodeToString(s[:]) + ":" + strconv.Itoa(len(b))
}

func Md5Hex(b []byte) string {
	s := md5.Sum(b)
	return hex.EncodeToString(s[:])
}
