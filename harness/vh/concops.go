package vh

import (
	"bytes"
	"fmt"
	"path/filepath"
	"sort"
	"strings"
	"sync"
	"sync/atomic"
	"time"

	kv "github.com/XiXi-2024/xixi-kv"
	"github.com/XiXi-2024/xixi-kv/fio"
)

// C08 / C09 operations of the engine runner.
//
//   E concsched <t0>/<t1>/... <i,i,i,...>
//       clients with programs (';'-lists of p,<key>,<val> / d,<key> / g,<key>) and a schedule of
//       atomic actions: the clients are real goroutines, stepped one action at a time (Put and Delete
//       run to completion; Get runs to the schedule point between its index lookup and its file
//       read, then to completion).  Result: the completed calls in completion order.
//   E concpark <label> <op> <op2>
//       client A runs <op> and is parked at schedule point <label> (inside its critical section);
//       client B then issues <op2>: it must not complete while A is parked.
//   E concstress <clients> <opsPerClient> <keys> <seed> <withMerge>
//       free-running goroutines; call/return order and results are checked for per-key
//       linearizability; afterwards the live dump must equal the reference of the linearization.

type concCall struct {
	kind byte
	key  []byte
	val  []byte
}

func parseProg(s string) []concCall {
	var out []concCall
	if s == "-" || s == "" {
		return out
	}
	for _, o := range strings.Split(s, ";") {
		x := strings.Split(o, ",")
		k, _ := ParseTok(x[1])
		c := concCall{kind: x[0][0], key: k}
		if c.kind == 'p' {
			c.val, _ = ParseTok(x[2])
		}
		out = append(out, c)
	}
	return out
}

func callRes(err error, v []byte, isGet bool) string {
	if err != nil {
		return "err:" + EngErr(err)
	}
	if isGet {
		return "ok:" + Obs(v)
	}
	return "ok"
}

func (r *EngineRunner) execConc(f []string) string {
	switch f[1] {
	case "concsched":
		return r.concSched(f[2], f[3])
	case "concpark":
		return r.concPark(f[2], f[3], f[4])
	case "concstress":
		static := 0
		if len(f) > 7 {
			static = atoi(f[7])
		}
		return r.concStress(atoi(f[2]), atoi(f[3]), atoi(f[4]), uint64(atou(f[5])), f[6] == "1", static)
	case "concmix":
		return r.concMix(atoi(f[2]), atoi(f[3]), uint64(atou(f[4])))
	case "concbg":
		return r.concBackground(f[2:8], atoi(f[8]))
	}
	return "err unknown-op"
}

// ---- stepping clients through a given schedule ------------------------------------------------------
func (r *EngineRunner) concSched(progSpec, schedSpec string) string {
	progs := strings.Split(progSpec, "/")
	n := len(progs)
	type client struct {
		prog    []concCall
		step    chan struct{} // controller -> client: run to your next schedule point
		at      chan string   // client -> controller: "parked" / "done:<result>" / "end"
		inGet   bool
		pc      int
		pending *concCall
	}
	cs := make([]*client, n)
	var running int32 = -1
	var results []string
	var mu sync.Mutex
	for i := range cs {
		cs[i] = &client{prog: parseProg(progs[i]), step: make(chan struct{}), at: make(chan string)}
	}
	savedSched := kv.VerifSched
	kv.VerifSched = func(label string) {
		if label != "get.indexed" {
			return
		}
		id := atomic.LoadInt32(&running)
		if id < 0 {
			return
		}
		c := cs[id]
		c.at <- "parked"
		<-c.step
	}
	defer func() { kv.VerifSched = savedSched }()
	for i, c := range cs {
		go func(i int, c *client) {
			for _, call := range c.prog {
				<-c.step
				switch call.kind {
				case 'p':
					err := r.db.Put(call.key, call.val)
					c.at <- fmt.Sprintf("P%d:%s", i, callRes(err, nil, false))
				case 'd':
					err := r.db.Delete(call.key)
					c.at <- fmt.Sprintf("D%d:%s", i, callRes(err, nil, false))
				case 'g':
					v, err := r.db.Get(call.key)
					c.at <- fmt.Sprintf("G%d:%s", i, callRes(err, v, true))
				}
			}
			for {
				<-c.step
				c.at <- "end"
			}
		}(i, c)
	}
	type expect struct {
		set bool
		val []byte
		ok  bool
	}
	exp := make([]expect, n)
	for _, t := range strings.Split(schedSpec, ",") {
		id := atoi(t)
		if id < 0 || id >= n {
			continue
		}
		atomic.StoreInt32(&running, int32(id))
		c := cs[id]
		// what this action is, for the reference: the effect of Put / Delete and the value a Get must
		// return are fixed at the call's linearization point
		var cur *concCall
		if c.pc < len(c.prog) {
			cur = &c.prog[c.pc]
		}
		if cur != nil && cur.kind == 'g' && !c.inGet && len(cur.key) > 0 {
			v, ok := r.ref.m[string(cur.key)]
			exp[id] = expect{true, cp(v), ok}
		}
		c.step <- struct{}{}
		select {
		case msg := <-c.at:
			switch {
			case msg == "parked":
				c.inGet = true
			case msg == "end":
			default:
				mu.Lock()
				results = append(results, msg)
				mu.Unlock()
				if cur != nil {
					res := msg[strings.Index(msg, ":")+1:]
					switch cur.kind {
					case 'p', 'd':
						r.applyConc(*cur, res)
					case 'g':
						if exp[id].set {
							want := "err:notfound"
							if exp[id].ok {
								want = "ok:" + Obs(exp[id].val)
							}
							if res != want {
								r.fail("C08", "Get(%s) of client %d returned %s; at its linearization point (the index lookup) the state held %s", Obs(cur.key), id, res, want)
							}
							exp[id].set = false
						}
					}
				}
				c.inGet = false
				c.pc++
			}
		case <-time.After(10 * time.Second):
			r.fail("C09", "client %d did not reach its next schedule point within 10 s (deadlock?)", id)
			return "err stuck"
		}
	}
	atomic.StoreInt32(&running, -1)
	// let every client finish (a Get parked at its schedule point completes) and update the reference
	// in completion order: the model does the same for its own run, the final dumps are compared
	return strings.Join(results, ";")
}

// ---- a writer parked inside its critical section blocks every other writer --------------------------
func (r *EngineRunner) concPark(label, op1, op2 string) string {
	savedEv, savedFs := fio.VerifEvent, kv.VerifFsEvent
	fio.VerifEvent, kv.VerifFsEvent = nil, nil
	defer func() { fio.VerifEvent, kv.VerifFsEvent = savedEv, savedFs }()
	a := parseProg(op1)[0]
	b := parseProg(op2)[0]
	parked := make(chan struct{})
	resume := make(chan struct{})
	var parkedOnce int32
	var aGo int64 = -1
	savedSched := kv.VerifSched
	kv.VerifSched = func(l string) {
		if l == label && atomic.LoadInt64(&aGo) == goid() && atomic.CompareAndSwapInt32(&parkedOnce, 0, 1) {
			close(parked)
			<-resume
		}
	}
	defer func() { kv.VerifSched = savedSched }()
	run := func(c concCall) string {
		switch c.kind {
		case 'p':
			return callRes(r.db.Put(c.key, c.val), nil, false)
		case 'd':
			return callRes(r.db.Delete(c.key), nil, false)
		}
		v, err := r.db.Get(c.key)
		return callRes(err, v, true)
	}
	doneA := make(chan string, 1)
	doneB := make(chan string, 1)
	go func() { atomic.StoreInt64(&aGo, goid()); doneA <- run(a) }()
	select {
	case <-parked:
	case res := <-doneA:
		// the schedule point was not reached (e.g. Delete of an absent key): nothing to park
		resB := run(b)
		r.applyConc(a, res)
		r.applyConc(b, resB)
		return "nopark " + res + " " + resB
	case <-time.After(5 * time.Second):
		r.fail("C09", "client A neither reached %s nor returned", label)
		return "err stuck"
	}
	go func() { doneB <- run(b) }()
	blocked := true
	var resB string
	select {
	case resB = <-doneB:
		blocked = false
	case <-time.After(40 * time.Millisecond):
	}
	writer := b.kind != 'g'
	inCrit := label == "put.appended" || label == "delete.checked" || label == "delete.appended"
	if inCrit && writer && !blocked {
		r.fail("C08", "a %c call completed while another client was parked at %s inside its critical section (append and index update are not one atomic step)", b.kind, label)
	}
	close(resume)
	resA := <-doneA
	if blocked {
		select {
		case resB = <-doneB:
		case <-time.After(5 * time.Second):
			r.fail("C09", "client B is still blocked after client A returned")
			return "err stuck"
		}
	}
	// linearization order: a writer B waits for A; a reader B looked up the index before A updated it
	if b.kind == 'g' || !blocked {
		r.applyConc(b, resB)
		r.applyConc(a, resA)
	} else {
		r.applyConc(a, resA)
		r.applyConc(b, resB)
	}
	return fmt.Sprintf("parked %s %s # blocked=%v", resA, resB, blocked)
}

// applyConc applies a completed call to the reference map and checks a Get against it.
func (r *EngineRunner) applyConc(c concCall, res string) {
	switch c.kind {
	case 'p':
		if len(c.key) > 0 && res == "ok" {
			r.ref.m[string(c.key)] = cp(c.val)
		}
	case 'd':
		if res == "ok" {
			delete(r.ref.m, string(c.key))
		}
	case 'g':
		want, ok := r.ref.m[string(c.key)]
		switch {
		case len(c.key) == 0:
		case ok && res != "ok:"+Obs(want):
			r.fail("C08", "Get(%s) returned %s, the linearized state holds %s", Obs(c.key), res, Obs(want))
		case !ok && res != "err:notfound":
			r.fail("C08", "Get(%s) returned %s, the key is absent in the linearized state", Obs(c.key), res)
		}
	}
}

// ---- free-running stress with a per-key linearizability check --------------------------------------
type hop struct {
	kind     byte
	key      string
	val      string // written value / value read ("" = not found)
	inv, ret int64
}

func (r *EngineRunner) concStress(clients, opsPer, nkeys int, seed uint64, withMerge bool, static int) string {
	// the event recorders of the harness are single-threaded: off while the clients run freely
	savedEv, savedFs, savedMf := fio.VerifEvent, kv.VerifFsEvent, kv.VerifMergeFile
	fio.VerifEvent, kv.VerifFsEvent, kv.VerifMergeFile = nil, nil, nil
	defer func() { fio.VerifEvent, kv.VerifFsEvent, kv.VerifMergeFile = savedEv, savedFs, savedMf }()
	var clock int64
	hist := make([][]hop, clients)
	var wg sync.WaitGroup
	keys := make([][]byte, nkeys)
	for i := range keys {
		keys[i] = []byte(fmt.Sprintf("ck%02d", i))
	}
	// C13 under concurrency: with SyncStrategy Always every Put / Delete that has returned is flushed.  The file
	// hook (called before the operation it announces) numbers the writes; a sync announced on a file covers
	// the writes announced on that file before it.  When a client's call returns, the write it made must be covered.
	var syncMu sync.Mutex
	var wseq int64
	lastWrite := map[int64][2]interface{}{} // goroutine -> (file, seq) of the write made during its current call
	covered := map[string]int64{}           // file -> highest write number covered by a sync announced on it
	always := r.opts.SyncStrategy == kv.Always
	if always {
		fio.VerifEvent = func(kind string, path string, data []byte, n int64) {
			if kind != "write" && kind != "sync" {
				return
			}
			g := goid()
			syncMu.Lock()
			if kind == "write" {
				wseq++
				lastWrite[g] = [2]interface{}{path, wseq}
			} else {
				covered[path] = wseq
			}
			syncMu.Unlock()
		}
	}
	beginCall := func() {
		if always {
			g := goid()
			syncMu.Lock()
			delete(lastWrite, g)
			syncMu.Unlock()
		}
	}
	endCall := func(what string) {
		if always {
			g := goid()
			syncMu.Lock()
			if w, ok := lastWrite[g]; ok {
				if covered[w[0].(string)] < w[1].(int64) {
					syncMu.Unlock()
					r.failSync("C13", "SyncStrategy Always, concurrent writers: %s returned although no flush of %s was issued after its write (write %d, flushes cover up to %d)", what, filepath.Base(w[0].(string)), w[1].(int64), covered[w[0].(string)])
					return
				}
			}
			syncMu.Unlock()
		}
	}
	var panics int32
	// a population of keys that nobody writes during the run (the index holds many entries per shard): every
	// client reads them in between and must always find exactly the value they were given
	staticKey := func(i int) []byte { return []byte(fmt.Sprintf("sk%05d", i)) }
	// a few hundred bytes each: the population spreads over many blocks of a data file when the file limit allows
	staticVal := func(i int) []byte {
		return append([]byte(fmt.Sprintf("static-value-%05d", i*7+3)), bytes.Repeat([]byte{byte('a' + i%26)}, 150+i%97)...)
	}
	for i := 0; i < static; i++ {
		if err := r.db.Put(staticKey(i), staticVal(i)); err != nil {
			r.fail("C09", "Put of a static key failed: %v", err)
		}
		r.ref.m[string(staticKey(i))] = staticVal(i)
	}
	for c := 0; c < clients; c++ {
		wg.Add(1)
		go func(c int) {
			defer wg.Done()
			defer func() {
				if e := recover(); e != nil {
					atomic.AddInt32(&panics, 1)
					r.failSync("C09", "panic in client %d: %v", c, e)
				}
			}()
			rng := NewRng(seed*1000 + uint64(c))
			for i := 0; i < opsPer; i++ {
				k := keys[rng.Intn(nkeys)]
				h := hop{key: string(k)}
				switch x := rng.Intn(10); {
				case x < 4:
					h.kind = 'p'
					h.val = fmt.Sprintf("v%d.%d", c, i)
					h.inv = atomic.AddInt64(&clock, 1)
					beginCall()
					err := r.db.Put(k, []byte(h.val))
					endCall("Put")
					h.ret = atomic.AddInt64(&clock, 1)
					if err != nil {
						r.failSync("C09", "Put failed under concurrency: %v", err)
					}
				case x < 6:
					h.kind = 'd'
					h.inv = atomic.AddInt64(&clock, 1)
					beginCall()
					err := r.db.Delete(k)
					endCall("Delete")
					h.ret = atomic.AddInt64(&clock, 1)
					if err != nil {
						r.failSync("C09", "Delete of a key returned an error under concurrency: %v", err)
					}
				default:
					h.kind = 'g'
					h.inv = atomic.AddInt64(&clock, 1)
					v, err := r.db.Get(k)
					h.ret = atomic.AddInt64(&clock, 1)
					if err == nil {
						h.val = string(v)
					} else if err != kv.ErrKeyNotFound {
						r.failSync("C09", "Get returned an error under concurrency: %v", err)
					}
				}
				hist[c] = append(hist[c], h)
				if static > 0 {
					for j := 0; j < 6; j++ {
						si := rng.Intn(static)
						v, err := r.db.Get(staticKey(si))
						if err != nil || !bytes.Equal(v, staticVal(si)) {
							r.failSync("C08", "Get(%s) of a key nobody writes returned %q, %v; the key holds %q throughout", staticKey(si), v, err, staticVal(si))
						}
					}
				}
				if i%16 == 7 {
					_ = r.db.ListKeys()
					_ = r.db.Stat()
				}
			}
		}(c)
	}
	if static > 0 {
		// readers only: goroutines that do nothing but read keys nobody writes, all from the same few data files, while the
		// writers above run (whatever a reader shares with another reader - a buffer, a cursor - shows here)
		for g := 0; g < 6; g++ {
			wg.Add(1)
			go func(g int) {
				defer wg.Done()
				defer func() {
					if e := recover(); e != nil {
						r.failSync("C09", "panic in a reader: %v", e)
					}
				}()
				rng := NewRng(seed + uint64(1000+g))
				for j := 0; j < 400; j++ {
					si := rng.Intn(static)
					v, err := r.db.Get(staticKey(si))
					if err != nil || !bytes.Equal(v, staticVal(si)) {
						r.failSync("C08", "Get(%s) of a key nobody writes, among concurrent readers, returned %q, %v; the key holds %q throughout", staticKey(si), v, err, staticVal(si))
						return
					}
				}
			}(g)
		}
	}
	if withMerge {
		wg.Add(1)
		go func() {
			defer wg.Done()
			defer func() {
				if e := recover(); e != nil {
					r.failSync("C09", "panic in Merge: %v", e)
				}
			}()
			time.Sleep(200 * time.Microsecond)
			if err := r.db.Merge(); err != nil && err != kv.ErrMergeOutputTooLarge {
				r.failSync("C09", "Merge failed under concurrency: %v", err)
			}
		}()
	}
	doneCh := make(chan struct{})
	go func() { wg.Wait(); close(doneCh) }()
	select {
	case <-doneCh:
	case <-time.After(25 * time.Second):
		r.fail("C09", "the clients did not finish within 25 s (deadlock or livelock)")
		return "err stuck"
	}
	// per-key linearizability, and the final value of every key
	final := map[string]string{}
	total := 0
	for ki := range keys {
		var ops []hop
		for c := range hist {
			for _, h := range hist[c] {
				if h.key == string(keys[ki]) {
					ops = append(ops, h)
				}
			}
		}
		total += len(ops)
		v, err := r.db.Get(keys[ki])
		finalVal := ""
		if err == nil {
			finalVal = string(v)
		}
		if !linearizableRegister(ops, initialOf(r, keys[ki]), finalVal) {
			r.fail("C08", "the history of key %s (%d calls) has no linearization consistent with the final value %q", string(keys[ki]), len(ops), finalVal)
		}
		final[string(keys[ki])] = finalVal
	}
	for k, v := range final {
		if v == "" {
			delete(r.ref.m, k)
		} else {
			r.ref.m[k] = []byte(v)
		}
	}
	// quiescent now: the live mapping must be the one a restart recovers
	live, lerr := dumpDB(r.db)
	if lerr != nil {
		r.fail("C08", "dump after the concurrent run failed: %v", lerr)
	}
	if why, ok := sameMap(r.ref.m, live); !ok && lerr == nil {
		r.fail("C08", "live mapping after the concurrent run differs from the final values read: %s", why)
	}
	if err := r.db.Close(); err != nil {
		r.fail("C09", "Close after the concurrent run failed: %v", err)
	}
	db2, err := kv.Open(r.opts)
	if err != nil {
		r.fail("C08", "Open after the concurrent run failed: %v", err)
		return "err reopen"
	}
	r.db = db2
	rec, rerr := dumpDB(r.db)
	if rerr != nil {
		r.fail("C08", "dump after restart failed: %v", rerr)
	} else if why, ok := sameMap(live, rec); !ok {
		r.fail("C08", "the mapping recovered by a restart differs from the live mapping at quiescence (racing writes reached the log in another order than they won): %s", why)
	}
	return fmt.Sprintf("done # calls=%d", total)
}

func initialOf(r *EngineRunner, k []byte) string {
	if v, ok := r.ref.m[string(k)]; ok {
		return string(v)
	}
	return ""
}

// linearizableRegister: does a total order of the calls exist that respects real time (a call that
// returned before another was invoked comes first), in which every Get returns the latest Put's
// value ("" after a Delete / initially absent), and which ends with the given final value?
// Search with memoisation over (set of linearized calls, current value); histories are small per key.
func linearizableRegister(ops []hop, initial, final string) bool {
	n := len(ops)
	if n == 0 {
		return initial == final
	}
	sort.Slice(ops, func(i, j int) bool { return ops[i].inv < ops[j].inv })
	done := make([]bool, n)
	key := func(val string) string {
		b := make([]byte, (n+7)/8)
		for i, d := range done {
			if d {
				b[i/8] |= 1 << uint(i%8)
			}
		}
		return string(b) + "|" + val
	}
	seen := map[string]bool{}
	left := n
	budget := 2000000
	var rec func(val string) bool
	rec = func(val string) bool {
		if left == 0 {
			return val == final
		}
		budget--
		if budget < 0 {
			return true // search budget exhausted: no verdict (counted as not refuted)
		}
		k := key(val)
		if seen[k] {
			return false
		}
		seen[k] = true
		minRet := int64(1 << 62)
		for i := 0; i < n; i++ {
			if !done[i] && ops[i].ret < minRet {
				minRet = ops[i].ret
			}
		}
		for i := 0; i < n; i++ {
			if done[i] {
				continue
			}
			if ops[i].inv > minRet {
				break // sorted by invocation: nothing later can go next either
			}
			next, ok := val, true
			switch ops[i].kind {
			case 'p':
				next = ops[i].val
			case 'd':
				next = ""
			case 'g':
				ok = ops[i].val == val
			}
			if !ok {
				continue
			}
			done[i] = true
			left--
			if rec(next) {
				return true
			}
			done[i] = false
			left++
		}
		return false
	}
	return rec(initial)
}

var failMu sync.Mutex

func (r *EngineRunner) failSync(prop, format string, a ...interface{}) {
	failMu.Lock()
	defer failMu.Unlock()
	r.fail(prop, format, a...)
}

var _ = bytes.Equal

// ---- C09: every kind of call at once -------------------------------------------------------------------
// E concmix <clients> <opsPerClient> <seed>: free-running goroutines issuing a random mix of Put, Get,
// Delete, ListKeys, Fold, iterator walks, Stat, Sync, batches and Merge.  No panic, no stall, no error
// for calls that are individually valid; sorted, duplicate-free ListKeys / iterator output; under the
// race detector (vh-race) no report.  The final state is not compared with the model.
func (r *EngineRunner) concMix(clients, opsPer int, seed uint64) string {
	savedEv, savedFs, savedMf := fio.VerifEvent, kv.VerifFsEvent, kv.VerifMergeFile
	fio.VerifEvent, kv.VerifFsEvent, kv.VerifMergeFile = nil, nil, nil
	defer func() { fio.VerifEvent, kv.VerifFsEvent, kv.VerifMergeFile = savedEv, savedFs, savedMf }()
	var wg sync.WaitGroup
	keys := make([][]byte, 6)
	for i := range keys {
		keys[i] = []byte(fmt.Sprintf("mk%02d", i))
	}
	var calls int64
	sortedUnique := func(ks [][]byte, rev bool, what string) {
		for i := 1; i < len(ks); i++ {
			c := bytes.Compare(ks[i-1], ks[i])
			if (!rev && c >= 0) || (rev && c <= 0) {
				r.failSync("C09", "%s under concurrency is not strictly ordered: %s then %s", what, Obs(ks[i-1]), Obs(ks[i]))
				return
			}
		}
	}
	for c := 0; c < clients; c++ {
		wg.Add(1)
		go func(c int) {
			defer wg.Done()
			defer func() {
				if e := recover(); e != nil {
					r.failSync("C09", "panic in client %d: %v", c, e)
				}
			}()
			rng := NewRng(seed*7919 + uint64(c))
			for i := 0; i < opsPer; i++ {
				atomic.AddInt64(&calls, 1)
				k := keys[rng.Intn(len(keys))]
				switch x := rng.Intn(24); {
				case x < 6:
					if err := r.db.Put(k, []byte(fmt.Sprintf("v%d.%d.%s", c, i, strings.Repeat("x", rng.Intn(40))))); err != nil {
						r.failSync("C09", "Put: %v", err)
					}
				case x < 9:
					if err := r.db.Delete(k); err != nil {
						r.failSync("C09", "Delete returned an error for an individually valid call: %v", err)
					}
				case x < 14:
					if _, err := r.db.Get(k); err != nil && err != kv.ErrKeyNotFound {
						r.failSync("C09", "Get: %v", err)
					}
				case x < 16:
					sortedUnique(r.db.ListKeys(), false, "ListKeys")
				case x < 17:
					var ks [][]byte
					if err := r.db.Fold(func(key, value []byte) bool { ks = append(ks, append([]byte(nil), key...)); return true }); err != nil {
						r.failSync("C09", "Fold: %v", err)
					}
					sortedUnique(ks, false, "Fold")
				case x < 19:
					rev := rng.Intn(2) == 1
					it := r.db.NewIterator(kv.IteratorOptions{Reverse: rev})
					var ks [][]byte
					for it.Rewind(); it.Valid(); it.Next() {
						ks = append(ks, append([]byte(nil), it.Key()...))
						if _, err := it.Value(); err != nil {
							r.failSync("C09", "Iterator.Value: %v", err)
							break
						}
					}
					it.Close()
					sortedUnique(ks, rev, "iterator")
				case x < 20:
					_ = r.db.Stat()
				case x < 21:
					if err := r.db.Sync(); err != nil {
						r.failSync("C09", "Sync: %v", err)
					}
				case x < 23:
					b := r.db.NewBatch(kv.BatchOptions{Sync: rng.Intn(2) == 1})
					if rng.Intn(3) > 0 { // otherwise: a batch that is committed empty
						_ = b.Put(k, []byte(fmt.Sprintf("b%d.%d", c, i)))
						_ = b.Delete(keys[rng.Intn(len(keys))])
						_, _ = b.Get(k)
					}
					if err := b.Commit(); err != nil {
						r.failSync("C09", "Batch.Commit: %v", err)
					}
					if rng.Intn(2) == 0 {
						// a repeated Commit is refused and touches nothing (other clients hold or wait for the engine lock now)
						if err := b.Commit(); err != kv.ErrBatchCommitted {
							r.failSync("C09", "a second Commit of a batch returned %v, expected ErrBatchCommitted", err)
						}
					}
				default:
					if err := r.db.Merge(); err != nil && err != kv.ErrMergeIsProgress && err != kv.ErrMergeOutputTooLarge && err != kv.ErrMergeRatioUnreached {
						r.failSync("C09", "Merge: %v", err)
					}
				}
			}
		}(c)
	}
	doneCh := make(chan struct{})
	go func() { wg.Wait(); close(doneCh) }()
	select {
	case <-doneCh:
	case <-time.After(25 * time.Second):
		r.fail("C09", "the clients did not finish within 25 s (deadlock or livelock)")
		return "err stuck"
	}
	// quiescent: live = recovered
	live, lerr := dumpDB(r.db)
	if lerr != nil {
		r.fail("C09", "dump after the concurrent run failed: %v", lerr)
	}
	if err := r.db.Close(); err != nil {
		r.fail("C09", "Close after the concurrent run failed: %v", err)
	}
	db2, err := kv.Open(r.opts)
	if err != nil {
		r.fail("C09", "Open after the concurrent run failed: %v", err)
		return "err reopen"
	}
	r.db = db2
	if rec, rerr := dumpDB(r.db); rerr != nil {
		r.fail("C09", "dump after restart failed: %v", rerr)
	} else if why, ok := sameMap(live, rec); !ok && lerr == nil {
		r.fail("C08", "after a concurrent mix of all calls the restart recovers a different mapping: %s", why)
	} else {
		r.ref.m = rec
		r.ref.maps[r.ref.curDir] = r.ref.m
	}
	return fmt.Sprintf("done # calls=%d", atomic.LoadInt64(&calls))
}

// concBackground (C09): the directory (closed) is opened with EnableBackgroundMerge, a few clients write and
// read for the given number of milliseconds (the background goroutine looks at the database once per second),
// then the database is closed.  Findings come from the race detector, recovered panics and returned errors.
func (r *EngineRunner) concBackground(cfg []string, ms int) string {
	if r.db != nil {
		return "err open"
	}
	savedEv, savedFs, savedMf := fio.VerifEvent, kv.VerifFsEvent, kv.VerifMergeFile
	fio.VerifEvent, kv.VerifFsEvent, kv.VerifMergeFile = nil, nil, nil
	defer func() { fio.VerifEvent, kv.VerifFsEvent, kv.VerifMergeFile = savedEv, savedFs, savedMf }()
	o := parseOpts(cfg, r.dir())
	o.EnableBackgroundMerge = true
	db, err := kv.Open(o)
	if err != nil {
		return "err " + EngErr(err)
	}
	stop := time.Now().Add(time.Duration(ms) * time.Millisecond)
	var wg sync.WaitGroup
	calls := int64(0)
	for c := 0; c < 4; c++ {
		wg.Add(1)
		go func(c int) {
			defer wg.Done()
			defer func() {
				if e := recover(); e != nil {
					r.failSync("C09", "panic with the background merge enabled: %v", e)
				}
			}()
			for i := 0; time.Now().Before(stop); i++ {
				k := []byte(fmt.Sprintf("bg%d-%03d", c, i%50))
				if err := db.Put(k, []byte(fmt.Sprintf("v%d", i))); err != nil {
					r.failSync("C09", "Put failed with the background merge enabled: %v", err)
					return
				}
				if _, err := db.Get(k); err != nil {
					r.failSync("C09", "Get of a key just written failed with the background merge enabled: %v", err)
					return
				}
				if i%7 == 3 {
					_ = db.Delete(k)
				}
				atomic.AddInt64(&calls, 3)
				time.Sleep(200 * time.Microsecond)
			}
		}(c)
	}
	wg.Wait()
	if err := db.Close(); err != nil {
		r.fail("C09", "Close failed with the background merge enabled: %v", err)
	}
	return fmt.Sprintf("done # calls=%d", calls)
}
