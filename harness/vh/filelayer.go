package vh

import (
	"bufio"
	"bytes"
	"errors"
	"fmt"
	"io"
	"os"
	"path/filepath"
	"strconv"
	"strings"
	"sync"

	"github.com/XiXi-2024/xixi-kv/datafile"
	"github.com/XiXi-2024/xixi-kv/fio"
)

// ErrName maps an error of package datafile to the model's enum.
func ErrName(err error) string {
	switch err {
	case nil:
		return "nil"
	case io.EOF:
		return "eof"
	case io.ErrUnexpectedEOF:
		return "torn"
	case datafile.ErrInvalidCRC:
		return "crc"
	case datafile.ErrClosed:
		return "closed"
	}
	return "other:" + strings.ReplaceAll(err.Error(), " ", "_")
}

// FileRunner executes file-layer script lines ("F ...") on package datafile.
type FileRunner struct {
	kept    []keptVal // values returned by random reads, watched for later modification
	Dir     string
	fid     uint32
	io      fio.FileIOType
	suffix  string
	df      *datafile.DataFile
	Verbose bool
	poss    [][2]uint32 // positions returned by writes so far
	// property oracle (C11): what was written, to be compared with what is read back
	written    []writtenRec
	staged     []writtenRec
	damaged    bool
	transplant string // set by copyblock: the damage is a whole block replaced by another block of the same file
	saved      []byte
	Oracle     []string
	lastLog    int64
	// far mode (C11): the file begins with `base` blocks of nothing (a sparse region), so that everything
	// appended lies beyond 4 GiB; block ids and sizes are reported relative to the base, which makes the
	// script comparable with the model run at offset 0
	base uint32
}

type writtenRec struct {
	typ      byte
	key, val []byte
	batch    uint64
	bid, off uint32
	size     uint32
}

func (r *FileRunner) fail(format string, a ...interface{}) {
	r.Oracle = append(r.Oracle, fmt.Sprintf(format, a...))
}

// fail12 records a C12 finding (the default property of the file layer is C11).
func (r *FileRunner) fail12(format string, a ...interface{}) {
	r.Oracle = append(r.Oracle, "@C12 "+fmt.Sprintf(format, a...))
}

func (r *FileRunner) path() string { return datafile.GetFileName(r.Dir, r.fid, r.suffix) }

func (r *FileRunner) reopen() error {
	if r.df != nil {
		_ = r.df.Close()
	}
	df, err := datafile.OpenFile(r.Dir, r.fid, r.suffix, r.io)
	r.df = df
	return err
}

func (r *FileRunner) Close() {
	if r.df != nil {
		_ = r.df.Close()
		r.df = nil
	}
}

func atoi(s string) int    { n, _ := strconv.Atoi(s); return n }
func atou(s string) uint64 { n, _ := strconv.ParseUint(s, 10, 64); return n }

func recCanon(rec *datafile.LogRecord, p *datafile.DataPos) string {
	return fmt.Sprintf("%d:%s:%s:%d@%d,%d,%d;", rec.Type, Obs(rec.Key), Obs(rec.Value), rec.BatchID, p.BlockID, p.Offset, p.Size)
}

// Exec runs one script line and returns the observation (text after "=>"), "" if none.
func (r *FileRunner) Exec(f []string) (res string) {
	defer func() {
		if e := recover(); e != nil {
			res = "panic"
			r.fail12("%s panicked: %v", strings.Join(f[1:], " "), e)
			if r.Verbose {
				res = fmt.Sprintf("panic # %v", e)
			}
		}
	}()
	switch f[1] {
	case "new":
		r.Close()
		r.fid = uint32(atoi(f[2]))
		r.io = fio.FileIOType(atoi(f[3]))
		r.suffix = datafile.DataFileSuffix
		if len(f) > 4 && f[4] == "hint" {
			r.suffix = datafile.HintFileSuffix
		}
		r.poss, r.written, r.staged, r.damaged, r.transplant = nil, nil, nil, false, ""
		r.base = 0
		_ = os.Remove(r.path())
		if err := r.reopen(); err != nil {
			return "err " + ErrName(err)
		}
		return ""
	case "far":
		r.Close()
		r.base = uint32(atou(f[2]))
		if err := os.Truncate(r.path(), int64(r.base)*bs); err != nil {
			return "err truncate"
		}
		if err := r.reopen(); err != nil {
			return "err " + ErrName(err)
		}
		if got := r.df.Size(); got != int64(r.base)*bs {
			r.fail("a file of %d blocks (%d bytes) was opened with logical size %d", r.base, int64(r.base)*bs, got)
		}
		return ""
	case "put":
		k, _ := ParseTok(f[3])
		v, _ := ParseTok(f[4])
		rec := &datafile.LogRecord{Type: byte(atoi(f[2])), Key: k, Value: v, BatchID: atou(f[5])}
		p, err := r.df.WriteLogRecord(rec, make([]byte, datafile.MaxLogRecordHeaderSize))
		if err != nil {
			return "err " + ErrName(err)
		}
		p.BlockID -= r.base
		r.poss = append(r.poss, [2]uint32{p.BlockID, p.Offset})
		r.written = append(r.written, writtenRec{rec.Type, k, v, rec.BatchID, p.BlockID, p.Offset, p.Size})
		return fmt.Sprintf("%d %d %d", p.BlockID, p.Offset, p.Size)
	case "putfail":
		// F putfail <type> <key> <val> <batch>: the back-end refuses this one write (nothing reaches the file):
		// the call must report the error and the file must go on as if the call had not been made
		k, _ := ParseTok(f[3])
		v, _ := ParseTok(f[4])
		rec := &datafile.LogRecord{Type: byte(atoi(f[2])), Key: k, Value: v, BatchID: atou(f[5])}
		before := r.df.Size()
		real := r.df.ReadWriter
		r.df.ReadWriter = failingWriter{real}
		_, err := r.df.WriteLogRecord(rec, make([]byte, datafile.MaxLogRecordHeaderSize))
		r.df.ReadWriter = real
		if err == nil {
			r.fail("a write the back-end refused was reported as successful")
			return "ok"
		}
		if after := r.df.Size(); after != before {
			r.fail("a write the back-end refused moved the logical size from %d to %d", before, after)
		}
		return "err io"
	case "resetsize":
		// F resetsize: what Backup does to a memory-mapped file (the mapping is dropped, the file cut back to
		// its logical size); the file stays in use
		if m, ok := r.df.ReadWriter.(*fio.MMap); ok {
			if err := m.ResetFileSize(); err != nil {
				return "err " + ErrName(err)
			}
			if st, err := os.Stat(r.path()); err == nil && st.Size() != r.df.Size() {
				r.fail("after ResetFileSize the file has %d bytes, the logical size is %d", st.Size(), r.df.Size())
			}
		}
		return ""
	case "hint":
		k, _ := ParseTok(f[2])
		p := &datafile.DataPos{Fid: uint32(atou(f[3])), BlockID: uint32(atou(f[4])), Offset: uint32(atou(f[5])), Size: uint32(atou(f[6]))}
		if err := r.df.WriteHintRecord(k, make([]byte, datafile.MaxLogRecordPosSize), p); err != nil {
			return "err " + ErrName(err)
		}
		return "ok"
	case "stage":
		k, _ := ParseTok(f[3])
		v, _ := ParseTok(f[4])
		rec := &datafile.LogRecord{Type: byte(atoi(f[2])), Key: k, Value: v, BatchID: atou(f[5])}
		r.df.WriteStagedLogRecord(rec, make([]byte, datafile.MaxLogRecordHeaderSize))
		r.staged = append(r.staged, writtenRec{typ: rec.Type, key: k, val: v, batch: rec.BatchID})
		return ""
	case "flushfail":
		// F flushfail: the back-end refuses the one write of the staged records (nothing reaches the file): the
		// call must report the error, the staged records are gone with it, and the file goes on as if neither
		// they nor the call had been there
		before := r.df.Size()
		real := r.df.ReadWriter
		r.df.ReadWriter = failingWriter{real}
		_, err := r.df.FlushStaged()
		r.df.ReadWriter = real
		r.staged = nil
		if err == nil {
			r.fail("a flush of staged records the back-end refused was reported as successful")
			return "ok"
		}
		if after := r.df.Size(); after != before {
			r.fail("a flush the back-end refused moved the logical size from %d to %d", before, after)
		}
		return "err io"
	case "flush":
		ps, err := r.df.FlushStaged()
		if err != nil {
			return "err " + ErrName(err)
		}
		var sb strings.Builder
		fmt.Fprintf(&sb, "%d", len(ps))
		if len(ps) != len(r.staged) {
			r.fail("flush returned %d positions for %d staged records", len(ps), len(r.staged))
		}
		for i, p := range ps {
			p.BlockID -= r.base
			fmt.Fprintf(&sb, " %d %d %d", p.BlockID, p.Offset, p.Size)
			r.poss = append(r.poss, [2]uint32{p.BlockID, p.Offset})
			if i < len(r.staged) {
				w := r.staged[i]
				w.bid, w.off, w.size = p.BlockID, p.Offset, p.Size
				r.written = append(r.written, w)
			}
		}
		r.staged = nil
		return sb.String()
	case "size":
		return fmt.Sprintf("%d", r.df.Size()-int64(r.base)*bs)
	case "close":
		logical := r.df.Size()
		r.Close()
		st, err := os.Stat(r.path())
		if err != nil {
			return "err stat"
		}
		if st.Size() != logical {
			r.fail("logical size %d != physical size %d after Close", logical, st.Size())
		}
		return fmt.Sprintf("%d", st.Size()-int64(r.base)*bs)
	case "reopen":
		if len(f) > 2 {
			r.io = fio.FileIOType(atoi(f[2]))
		}
		if err := r.reopen(); err != nil {
			return "err " + ErrName(err)
		}
		return fmt.Sprintf("%d", r.df.Size()-int64(r.base)*bs)
	case "bytes":
		b, err := os.ReadFile(r.path())
		if err != nil {
			return "err read"
		}
		n := int(r.df.Size())
		if n > len(b) {
			return fmt.Sprintf("short %d %d", n, len(b))
		}
		return fmt.Sprintf("%s %d", Md5Hex(b[:n]), n)
	case "scan", "scanhint":
		rd := r.df.NewReader()
		var sb strings.Builder
		n := 0
		end := ""
		for {
			if f[1] == "scan" {
				rec, p, err := rd.NextLogRecord()
				if err != nil {
					end = ErrName(err)
					break
				}
				sb.WriteString(recCanon(rec, p))
				if r.damaged && r.suffix == datafile.DataFileSuffix {
					// C12: whatever a scan of a damaged file returns was written, at that very position
					found := false
					for _, w := range r.written {
						if w.bid == p.BlockID && w.off == p.Offset {
							found = true
							if w.typ != rec.Type || !bytes.Equal(w.key, rec.Key) || !bytes.Equal(w.val, rec.Value) || w.batch != rec.BatchID {
								r.fail12("scan of the damaged file%s returned at (%d,%d) a record that differs from the one written there (key %s, %d value bytes)", r.transplant, p.BlockID, p.Offset, Obs(rec.Key), len(rec.Value))
							}
						}
					}
					if !found && len(r.written) > 0 {
						r.fail12("scan of the damaged file returned a record at (%d,%d) where none was written (key %s)", p.BlockID, p.Offset, Obs(rec.Key))
					}
				}
				if !r.damaged && r.suffix == datafile.DataFileSuffix {
					if n >= len(r.written) {
						r.fail("scan returned more records than were written (%d)", len(r.written))
					} else if w := r.written[n]; w.typ != rec.Type || !bytes.Equal(w.key, rec.Key) || !bytes.Equal(w.val, rec.Value) ||
						w.batch != rec.BatchID || w.bid != p.BlockID || w.off != p.Offset || w.size != p.Size || p.Fid != r.fid {
						r.fail("scan record %d differs from what was written at (%d,%d,%d): got (%d,%d,%d) keylen %d vallen %d", n, w.bid, w.off, w.size, p.BlockID, p.Offset, p.Size, len(rec.Key), len(rec.Value))
					}
				}
			} else {
				k, p, err := rd.NextHintRecord()
				if err != nil {
					end = ErrName(err)
					break
				}
				fmt.Fprintf(&sb, "%s@%d,%d,%d,%d;", Obs(k), p.Fid, p.BlockID, p.Offset, p.Size)
			}
			n++
			if n > 1000000 {
				end = "runaway"
				break
			}
		}
		if !r.damaged && f[1] == "scan" && r.suffix == datafile.DataFileSuffix && len(r.staged) == 0 {
			if end != "eof" {
				r.fail("scan of an undamaged file ended with %s after %d records", end, n)
			} else if n != len(r.written) {
				r.fail("scan returned %d records, %d were written", n, len(r.written))
			}
		}
		out := fmt.Sprintf("%s %d %s", end, n, Md5Hex([]byte(sb.String())))
		if r.Verbose {
			out += " # " + sb.String()
		}
		return out
	case "get":
		p := &datafile.DataPos{Fid: r.fid, BlockID: uint32(atou(f[2])) + r.base, Offset: uint32(atou(f[3]))}
		v, err := r.df.ReadRecordValue(p)
		p.BlockID -= r.base
		if !r.damaged {
			for _, w := range r.written {
				if w.bid == p.BlockID && w.off == p.Offset {
					if err != nil {
						r.fail("random read at written position (%d,%d) failed: %v", w.bid, w.off, err)
					} else if !bytes.Equal(v, w.val) {
						r.fail("random read at (%d,%d) returned %d bytes that differ from the %d written", w.bid, w.off, len(v), len(w.val))
					}
				}
			}
		}
		if r.damaged && err == nil {
			ok := false
			for _, w := range r.written {
				if w.bid == p.BlockID && w.off == p.Offset && bytes.Equal(v, w.val) {
					ok = true
				}
			}
			if !ok && len(r.written) > 0 {
				r.fail12("random read of the damaged file%s at (%d,%d) returned %d bytes that were not written there", r.transplant, p.BlockID, p.Offset, len(v))
			}
		}
		if err != nil {
			return "err " + ErrName(err)
		}
		out := "ok " + Obs(v)
		// the bytes handed out are the record's bytes for good: a later read or write must not change them
		for _, kp := range r.kept {
			if !bytes.Equal(kp.live, kp.want) {
				r.fail("the value returned by the random read at %s changed after later operations", kp.where)
				copy(kp.want, kp.live)
			}
		}
		if len(v) > 0 && !r.damaged {
			r.kept = append(r.kept, keptVal{v, append([]byte(nil), v...), fmt.Sprintf("(%d,%d)", p.BlockID, p.Offset)})
			if len(r.kept) > 32 {
				r.kept = r.kept[len(r.kept)-32:]
			}
		}
		return out
	case "save":
		b, err := os.ReadFile(r.path())
		if err != nil {
			return "err save"
		}
		r.saved = b
		return ""
	case "restore":
		r.Close()
		if err := os.WriteFile(r.path(), r.saved, 0644); err != nil {
			return "err write"
		}
		if err := r.reopen(); err != nil {
			return "err " + ErrName(err)
		}
		r.damaged = false
		return fmt.Sprintf("%d", r.df.Size())
	case "load":
		r.damaged = true
		b, _ := ParseTok(f[2])
		r.Close()
		if err := os.WriteFile(r.path(), b, 0644); err != nil {
			return "err write"
		}
		if err := r.reopen(); err != nil {
			return "err " + ErrName(err)
		}
		return fmt.Sprintf("%d", r.df.Size())
	case "flip":
		r.damaged = true
		off, mask := atoi(f[2]), atoi(f[3])
		b, err := os.ReadFile(r.path())
		if err != nil || off >= len(b) {
			return "err flip"
		}
		r.Close()
		b[off] ^= byte(mask)
		_ = os.WriteFile(r.path(), b, 0644)
		if err := r.reopen(); err != nil {
			return "err " + ErrName(err)
		}
		return fmt.Sprintf("%d", r.df.Size())
	case "twofiles": // F twofiles <n> <seed>: two goroutines append n records each to two OTHER data files at the same time
		n, seed := atoi(f[2]), atou(f[3])
		type wrec struct {
			k, v     []byte
			bid, off uint32
		}
		var files [2]*datafile.DataFile
		var wrote [2][]wrec
		var errs [2]error
		for i := range files {
			id := r.fid + 1000 + uint32(i)
			_ = os.Remove(datafile.GetFileName(r.Dir, id, datafile.DataFileSuffix))
			df, err := datafile.OpenFile(r.Dir, id, datafile.DataFileSuffix, fio.StandardFIO) // standard I/O: unmapping two 512 MiB mappings per scenario costs seconds
			if err != nil {
				return "err open"
			}
			files[i] = df
		}
		var wg sync.WaitGroup
		for i := range files {
			wg.Add(1)
			go func(i int) {
				defer wg.Done()
				x := seed*2 + uint64(i) + 1
				hdr := make([]byte, datafile.MaxLogRecordHeaderSize)
				for j := 0; j < n; j++ {
					x = x*6364136223846793005 + 1442695040888963407
					vl := int((x >> 33) % 3000)
					if j%7 == 3 {
						vl += 33000 // a record of two chunks
					}
					k := []byte(fmt.Sprintf("k%d-%d", i, j))
					v := GenBytes(vl, x&0xffff)
					p, err := files[i].WriteLogRecord(&datafile.LogRecord{Key: k, Value: v}, hdr)
					if err != nil {
						errs[i] = err
						return
					}
					wrote[i] = append(wrote[i], wrec{k, v, p.BlockID, p.Offset})
				}
			}(i)
		}
		wg.Wait()
		for i, df := range files {
			if errs[i] != nil {
				r.fail("concurrent appends to two different data files: a write to file %d failed: %v", i, errs[i])
			}
			rd := df.NewReader()
			for j, w := range wrote[i] {
				rec, p, err := rd.NextLogRecord()
				if err != nil {
					r.fail("concurrent appends to two different data files: record %d of file %d cannot be read back: %v", j, i, err)
					break
				}
				if !bytes.Equal(rec.Key, w.k) || !bytes.Equal(rec.Value, w.v) || p.BlockID != w.bid || p.Offset != w.off {
					r.fail("concurrent appends to two different data files: record %d of file %d reads back differently from what was written", j, i)
					break
				}
			}
			_ = df.Close()
			_ = os.Remove(datafile.GetFileName(r.Dir, r.fid+1000+uint32(i), datafile.DataFileSuffix))
		}
		return "ok"
	case "copyblock": // F copyblock <src> <dst>: block <dst> of the file is overwritten by a copy of block <src> (both whole blocks)
		r.damaged = true
		src, dst := atoi(f[2]), atoi(f[3])
		const bs = 32768
		b, err := os.ReadFile(r.path())
		if err != nil || (src+1)*bs > len(b) || (dst+1)*bs > len(b) {
			return "err copyblock"
		}
		r.Close()
		copy(b[dst*bs:(dst+1)*bs], append([]byte(nil), b[src*bs:(src+1)*bs]...))
		_ = os.WriteFile(r.path(), b, 0644)
		r.transplant = fmt.Sprintf(" (block %d copied over block %d)", src, dst)
		if err := r.reopen(); err != nil {
			return "err " + ErrName(err)
		}
		return fmt.Sprintf("%d", r.df.Size())
	case "zeroblock": // F zeroblock <b>: block <b> of the file reads back as zeros (a block that never reached the disk), the rest stays
		r.damaged = true
		{
			b := atoi(f[2])
			const bs = 32768
			data, err := os.ReadFile(r.path())
			if err != nil || (b+1)*bs > len(data) {
				return "err zeroblock"
			}
			r.Close()
			copy(data[b*bs:(b+1)*bs], make([]byte, bs))
			_ = os.WriteFile(r.path(), data, 0644)
			if err := r.reopen(); err != nil {
				return "err " + ErrName(err)
			}
			return fmt.Sprintf("%d", r.df.Size())
		}
	case "trunc":
		r.damaged = true
		r.Close()
		cut := int64(atoi(f[2]))
		if st, err := os.Stat(r.path()); err == nil && cut > st.Size() {
			cut = st.Size() // a truncation never extends the file
		}
		if err := os.Truncate(r.path(), cut); err != nil {
			return "err trunc"
		}
		if err := r.reopen(); err != nil {
			return "err " + ErrName(err)
		}
		return fmt.Sprintf("%d", r.df.Size())
	}
	return "err unknown-op"
}

// failingWriter refuses every Write; everything else goes to the real back-end.
type failingWriter struct{ fio.ReadWriter }

func (failingWriter) Write(b []byte) (int, error) { return 0, errors.New("injected write failure") }

type keptVal struct {
	live, want []byte
	where      string
}

// RunFileScript executes every "F" line of a script and writes the trace (line => observation).
func RunFileScript(lines []string, w *bufio.Writer, verbose bool) error {
	dir, err := os.MkdirTemp(ScratchRoot(), "vhf")
	if err != nil {
		return err
	}
	defer os.RemoveAll(dir)
	r := &FileRunner{Dir: filepath.Join(dir), Verbose: verbose}
	defer r.Close()
	scen := "?"
	emit := func() {
		for _, o := range r.Oracle {
			if strings.HasPrefix(o, "@C12 ") {
				fmt.Fprintf(w, "X C12 scenario=%s %s\n", scen, o[5:])
			} else {
				fmt.Fprintf(w, "X C11 scenario=%s %s\n", scen, o)
			}
		}
		r.Oracle = nil
	}
	defer emit()
	for _, ln := range lines {
		f := strings.Fields(ln)
		if len(f) >= 2 && f[0] == "S" {
			scen = f[1]
		}
		if len(f) < 2 || f[0] != "F" {
			fmt.Fprintln(w, ln)
			continue
		}
		emit()
		if f[1] == "getall" {
			// first, readers of the file at the same moment (the engine's Gets of one data file run concurrently): four
			// goroutines read every written position, each must get the bytes written there
			if !r.damaged && r.df != nil && len(r.written) > 1 {
				var wg sync.WaitGroup
				bad := make([]string, 4)
				for g := 0; g < 4; g++ {
					wg.Add(1)
					go func(g int) {
						defer wg.Done()
						defer func() {
							if e := recover(); e != nil {
								bad[g] = fmt.Sprintf("panic: %v", e)
							}
						}()
						for round := 0; round < 3; round++ {
							for i := range r.written {
								w := r.written[(i+g*len(r.written)/4)%len(r.written)]
								v, err := r.df.ReadRecordValue(&datafile.DataPos{Fid: r.fid, BlockID: w.bid + r.base, Offset: w.off})
								if err != nil {
									bad[g] = fmt.Sprintf("read at (%d,%d) failed: %v", w.bid, w.off, err)
									return
								}
								if !bytes.Equal(v, w.val) {
									bad[g] = fmt.Sprintf("read at (%d,%d) returned %d bytes that differ from the %d written", w.bid, w.off, len(v), len(w.val))
									return
								}
							}
						}
					}(g)
				}
				wg.Wait()
				for _, b := range bad {
					if b != "" {
						r.fail("four concurrent readers of the file: %s", b)
						break
					}
				}
			}
			for _, p := range r.poss {
				g := fmt.Sprintf("F get %d %d", p[0], p[1])
				fmt.Fprintf(w, "%s => %s\n", g, r.Exec(strings.Fields(g)))
			}
			continue
		}
		res := r.Exec(f)
		if res == "" {
			fmt.Fprintln(w, ln)
		} else {
			fmt.Fprintf(w, "%s => %s\n", ln, res)
		}
	}
	return nil
}

// ScratchRoot is where temporary databases live (tmpfs when available).
func ScratchRoot() string {
	if d := os.Getenv("VH_SCRATCH"); d != "" {
		_ = os.MkdirAll(d, 0755)
		return d
	}
	if st, err := os.Stat("/dev/shm"); err == nil && st.IsDir() {
		return "/dev/shm"
	}
	return os.TempDir()
}
