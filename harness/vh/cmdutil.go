package vh

import (
	"encoding/json"
	"flag"
	"os"
	"strings"
)

func newFlagSet(name string) *flag.FlagSet { return flag.NewFlagSet(name, flag.ExitOnError) }

func writeLines(path string, lines []string) {
	data := strings.Join(lines, "\n") + "\n"
	if path == "" || path == "-" {
		_, _ = os.Stdout.WriteString(data)
		return
	}
	_ = os.WriteFile(path, []byte(data), 0644)
}

func writeHistFile(path string, h map[string]int) {
	if path == "" {
		return
	}
	b, _ := json.MarshalIndent(h, "", " ")
	_ = os.WriteFile(path, b, 0644)
}
