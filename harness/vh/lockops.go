package vh

import (
	"fmt"
	"os"
	"os/exec"
	"path/filepath"
	"strings"
	"sync"
	"sync/atomic"
	"syscall"
	"time"

	kv "github.com/XiXi-2024/xixi-kv"
	"github.com/XiXi-2024/xixi-kv/datafile"
	"github.com/XiXi-2024/xixi-kv/fio"
)

// C16 operations of the engine runner:
//   E open2 <cfg>            a second Open of the current directory while it is open (same process)
//   E openchild <cfg>        the same from a child process
//   E openbad <cfg>          Open of the (closed) current directory made to fail by a corrupt data file;
//                            the file is restored afterwards, so the next Open must succeed
//   E openrace <n> <cfg>     n child processes race to open the (closed) current directory
// Each checks that a rejected Open leaves the directory as it was.

func dirSnapshot(dir string) string {
	ents, err := os.ReadDir(dir)
	if err != nil {
		return "unreadable"
	}
	var sb strings.Builder
	for _, e := range ents {
		if e.Name() == "flock" || strings.HasSuffix(e.Name(), "flock") {
			continue
		}
		b, _ := os.ReadFile(filepath.Join(dir, e.Name()))
		fmt.Fprintf(&sb, "%s:%d:%s;", e.Name(), len(b), Md5Hex(b))
	}
	return sb.String()
}

// lockSnapshot: the data directory and the merge directory beside it (a finished merge waits there for
// the next Open; a rejected Open must not adopt it)
func (r *EngineRunner) lockSnapshot() string {
	return dirSnapshot(r.dir()) + "|" + dirSnapshot(r.mergeDir())
}

func (r *EngineRunner) execLock(f []string) string {
	switch f[1] {
	case "straylock":
		_ = os.WriteFile(filepath.Join(r.mergeDir(), datafile.FileLockSuffix), nil, 0644)
		_ = os.WriteFile(filepath.Join(r.mergeDir(), "README.txt"), []byte("not a data file"), 0644)
		return ""
	case "open2":
		before := r.lockSnapshot()
		db2, err := kv.Open(parseOpts(f[2:], r.dir()))
		after := r.lockSnapshot()
		if err == nil {
			r.fail("C16", "a second Open of a directory that is open succeeded")
			_ = db2.Close()
			return "ok"
		}
		if before != after {
			r.fail("C16", "a rejected Open changed the directory")
		}
		return "err " + EngErr(err)
	case "openchild":
		before := r.lockSnapshot()
		out := runChildOpen(r.dir(), f[2:], 0)
		after := r.lockSnapshot()
		if strings.HasPrefix(out, "ok") && r.db != nil {
			r.fail("C16", "another process opened a directory that is open here")
		}
		if strings.HasPrefix(out, "err") && before != after {
			r.fail("C16", "a rejected Open from another process changed the directory")
		}
		if strings.HasPrefix(out, "err inuse") && r.db == nil {
			r.fail("C16", "another process found the directory in use although no database is open on it (the lock outlived Close or a failed Open)")
		}
		return out
	case "closebg":
		// E closebg <cfg>: the (closed) directory is opened with EnableBackgroundMerge, two Puts make the background
		// goroutine start a Merge at its next tick; the merge is parked in its scan (hook H3), Close is called
		// from another goroutine, the merge is released.  Close must return and the directory must be free for
		// another process.  Implementation-side oracle; last operation of a scenario (what the background merge
		// leaves behind depends on the moment Close arrives).
		{
			if r.db != nil {
				return "err open"
			}
			saved1, saved2, saved3 := fio.VerifEvent, kv.VerifFsEvent, kv.VerifMergeFile
			fio.VerifEvent, kv.VerifFsEvent, kv.VerifMergeFile = nil, nil, nil
			defer func() { fio.VerifEvent, kv.VerifFsEvent, kv.VerifMergeFile = saved1, saved2, saved3 }()
			o := parseOpts(f[2:], r.dir())
			o.EnableBackgroundMerge = true
			parked, release := make(chan struct{}), make(chan struct{})
			var once sync.Once
			var noMorePark int32
			kv.VerifSched = func(label string) {
				if label == "merge.scan" && atomic.LoadInt32(&noMorePark) == 0 {
					once.Do(func() { close(parked); <-release })
				}
			}
			dbg, err := kv.Open(o)
			if err != nil {
				kv.VerifSched = nil
				return "err " + EngErr(err)
			}
			_ = dbg.Put([]byte("bgk"), []byte("v1"))
			_ = dbg.Put([]byte("bgk"), []byte("v2"))
			note := "merge-parked"
			select {
			case <-parked:
			case <-time.After(2500 * time.Millisecond):
				note = "no-background-merge-seen"
			}
			closed := make(chan error, 1)
			go func() { closed <- dbg.Close() }()
			time.Sleep(30 * time.Millisecond)
			atomic.StoreInt32(&noMorePark, 1) // nothing parks from now on
			close(release)
			select {
			case <-closed:
			case <-time.After(10 * time.Second):
				r.fail("C16", "Close did not return within 10 s while a background merge was running (%s): the directory stays locked", note)
				note += " close-stuck"
			}
			time.Sleep(20 * time.Millisecond)
			kv.VerifSched = nil
			if out := runChildOpen(r.dir(), f[2:], 0); !strings.HasPrefix(out, "ok") {
				r.fail("C16", "after Close of a database with a background merge (%s) another process cannot open the directory: %s", note, out)
			}
			return "done # " + note
		}
	case "lockprobe":
		// E lockprobe <cfg>: an opener that has opened the lock file but not yet locked it, overtaken by Close.
		// The lock file is opened (raw open) while the database is open here; the database is closed; the
		// probe now takes the advisory lock on its descriptor - it is the holder of the directory.  Another
		// process that opens the directory must be refused as long as the probe holds the lock, and admitted
		// once it lets go.  (Implementation-side oracle; for the model this is Close followed by an Open and
		// Close of another process.)
		{
			if r.db == nil {
				return "err closed"
			}
			fd, err := syscall.Open(filepath.Join(r.dir(), ".lock"), syscall.O_RDWR, 0)
			if err != nil {
				return "err nolockfile"
			}
			saved1, saved2 := fio.VerifEvent, kv.VerifFsEvent
			fio.VerifEvent, kv.VerifFsEvent = nil, nil
			_ = r.db.Close()
			fio.VerifEvent, kv.VerifFsEvent = saved1, saved2
			r.db = nil
			r.events = nil
			note := ""
			if err := syscall.Flock(fd, syscall.LOCK_EX|syscall.LOCK_NB); err != nil {
				r.fail("C16", "after Close the advisory lock on the directory's lock file cannot be taken: %v", err)
				note = "flock-failed"
			} else {
				if out := runChildOpen(r.dir(), f[2:], 0); strings.HasPrefix(out, "ok") {
					r.fail("C16", "another process opened the directory while an earlier opener (lock file opened before Close, locked after it) holds its lock: two holders")
					note = "second-holder-admitted"
				}
				_ = syscall.Flock(fd, syscall.LOCK_UN)
			}
			_ = syscall.Close(fd)
			out := runChildOpen(r.dir(), f[2:], 0)
			if !strings.HasPrefix(out, "ok") {
				r.fail("C16", "the directory cannot be opened after every holder has let go: %s", out)
			}
			return "ok # " + note
		}
	case "openbg":
		// the (closed) directory opened with the background merge enabled: it must be held like any other
		// open database - a second Open is rejected - and free again after Close.  The whole probe takes
		// milliseconds; the background merge looks at the database once per second.
		if r.db != nil {
			return "err open"
		}
		o := parseOpts(f[2:], r.dir())
		o.EnableBackgroundMerge = true
		dbg, err := kv.Open(o)
		if err != nil {
			return "err " + EngErr(err)
		}
		o2 := parseOpts(f[2:], r.dir())
		if db2, err2 := kv.Open(o2); err2 == nil {
			r.fail("C16", "a second Open succeeded while a database with EnableBackgroundMerge was open on the directory")
			_ = db2.Close()
		}
		if out := runChildOpen(r.dir(), f[2:], 0); strings.HasPrefix(out, "ok") {
			r.fail("C16", "another process opened the directory while a database with EnableBackgroundMerge was open on it")
		}
		if err := dbg.Close(); err != nil {
			return "err close " + EngErr(err)
		}
		return "ok"
	case "openopts":
		// E openopts <kind>: Open with a configuration that checkOptions rejects; it must fail before it touches the
		// directory or its lock - whether or not the directory is open here
		o := kv.DefaultOptions
		o.DirPath = r.dir()
		switch f[2] {
		case "dirpath":
			o.DirPath = ""
		case "fsize0":
			o.DataFileSize = 0
		case "fsizeneg":
			o.DataFileSize = -5
		case "ratio":
			o.DataFileMergeRatio = 1.5
		case "rationeg":
			o.DataFileMergeRatio = -0.1
		case "bps":
			o.BytesPerSync = 16*1024*1024 + 1
		case "thresh0":
			o.SyncStrategy, o.BytesPerSync = kv.Threshold, 0
		case "index0":
			o.IndexType = 0 // the zero value of a hand-built Options: not one of the three index types
		case "index9":
			o.IndexType = 9
		}
		before := r.lockSnapshot()
		_, statErr := os.Stat(r.dir())
		dbx, err := kv.Open(o)
		if err == nil {
			r.fail("C16", "Open accepted a configuration that checkOptions must reject (%s)", f[2])
			_ = dbx.Close()
			return "ok"
		}
		if _, e2 := os.Stat(r.dir()); (statErr == nil) != (e2 == nil) || before != r.lockSnapshot() {
			r.fail("C16", "an Open rejected for its configuration (%s) changed the directory", f[2])
		}
		if EngErr(err) == "inuse" {
			r.fail("C16", "an Open with a rejected configuration (%s) tried the directory lock before it checked the configuration", f[2])
			return "err inuse"
		}
		return "err options"
	case "openbad":
		// a garbage data file with the highest id makes the scan fail with a checksum error
		bad := filepath.Join(r.dir(), "000099999.data")
		garbage := make([]byte, 64)
		for i := range garbage {
			garbage[i] = byte(i*7 + 3)
		}
		garbage[4], garbage[5] = 3, 0 // a complete chunk of three payload bytes whose checksum is wrong
		if err := os.WriteFile(bad, garbage, 0644); err != nil {
			return "err setup"
		}
		dbx, err := kv.Open(parseOpts(f[2:], r.dir()))
		_ = os.Remove(bad)
		if err == nil {
			r.fail("C16", "Open of a directory with a corrupt data file succeeded")
			_ = dbx.Close()
			return "ok"
		}
		if EngErr(err) == "inuse" {
			return "err inuse"
		}
		return "err failed # " + EngErr(err)
	case "openrace":
		n := atoi(f[2])
		owner := filepath.Join(r.Root, "owner-"+r.cur)
		_ = os.Remove(owner)
		var wg sync.WaitGroup
		res := make([]string, n)
		for i := 0; i < n; i++ {
			wg.Add(1)
			go func(i int) {
				defer wg.Done()
				res[i] = runChildOpenOwner(r.dir(), f[3:], 30, owner)
			}(i)
		}
		wg.Wait()
		oks, inuse := 0, 0
		for _, x := range res {
			switch {
			case strings.HasPrefix(x, "ok"):
				oks++
			case strings.HasPrefix(x, "err inuse"):
				inuse++
			case strings.Contains(x, "OVERLAP"):
				r.fail("C16", "two processes had the directory open at the same time")
			default:
				r.fail("C16", "a racing Open ended with %s", x)
			}
		}
		if oks == 0 {
			r.fail("C16", "none of %d racing Opens succeeded", n)
		}
		return fmt.Sprintf("done ok=%d # inuse=%d", oks, inuse)
	}
	return "err unknown-op"
}

func runChildOpen(dir string, cfg []string, holdMs int) string {
	return runChildOpenOwner(dir, cfg, holdMs, "")
}

func runChildOpenOwner(dir string, cfg []string, holdMs int, owner string) string {
	args := append([]string{"tryopen", "-dir", dir, "-hold", fmt.Sprint(holdMs), "-owner", owner, "--"}, cfg...)
	cmd := exec.Command(os.Args[0], args...)
	done := make(chan struct{})
	var out []byte
	var err error
	go func() { out, err = cmd.CombinedOutput(); close(done) }()
	select {
	case <-done:
	case <-time.After(20 * time.Second):
		_ = cmd.Process.Kill()
		return "err child-timeout"
	}
	s := strings.TrimSpace(string(out))
	if s == "" && err != nil {
		return "err child " + err.Error()
	}
	return s
}

func init() {
	extraCommands["tryopen"] = func(args []string) {
		fs := newFlagSet("tryopen")
		dir := fs.String("dir", "", "directory")
		hold := fs.Int("hold", 0, "milliseconds to keep the database open")
		owner := fs.String("owner", "", "marker file: created while the database is open here")
		_ = fs.Parse(args)
		cfg := fs.Args()
		db, err := kv.Open(parseOpts(cfg, *dir))
		if err != nil {
			fmt.Println("err " + EngErr(err))
			return
		}
		res := "ok"
		if *owner != "" {
			f, err := os.OpenFile(*owner, os.O_CREATE|os.O_EXCL|os.O_WRONLY, 0644)
			if err != nil {
				res = "OVERLAP"
			} else {
				_ = f.Close()
			}
		}
		time.Sleep(time.Duration(*hold) * time.Millisecond)
		if *owner != "" && res == "ok" {
			_ = os.Remove(*owner)
		}
		_ = db.Close()
		fmt.Println(res)
	}
}
