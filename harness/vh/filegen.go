package vh

import (
	"fmt"
	"strings"
)

const bs = 32768

func uvlen(x uint64) int {
	n := 1
	for x >= 128 {
		x >>= 7
		n++
	}
	return n
}

// encLen is the encoded length of a log record (steering only, not an oracle).
func encLen(k, v int, batch uint64) int {
	return 1 + uvlen(uint64(2*k)) + uvlen(uint64(2*v)) + uvlen(batch) + k + v
}

// valueLenForEnd returns a value length such that a record with key length k written at
// block offset start ends (mod block size) at end; best effort.
func valueLenForEnd(start, k int, batch uint64, blocks int, end int) int {
	for v := 0; v < 4*bs; v++ {
		e := encLen(k, v, batch)
		// simulate chunking
		off := start
		if off+7 >= bs {
			off = 0
		}
		rem := e
		nb := 0
		for rem > 0 {
			room := bs - off - 7
			w := rem
			if w > room {
				w = room
			}
			rem -= w
			off += 7 + w
			if rem > 0 {
				off = 0
				nb++
			}
		}
		if nb == blocks && off%bs == end%bs {
			return v
		}
	}
	return -1
}

// fileState tracks where the generator thinks the file ends (steering only).
type fileState struct{ off int }

func (s *fileState) advance(e int) {
	off := s.off
	if off+7 >= bs {
		off = 0
	}
	rem := e
	for rem > 0 {
		room := bs - off - 7
		w := rem
		if w > room {
			w = room
		}
		rem -= w
		off += 7 + w
		if rem > 0 {
			off = 0
		}
	}
	s.off = off % bs
}

func genKeyTok(r *Rng) (string, int) {
	switch r.Intn(10) {
	case 0:
		n := 1 + r.Intn(300)
		return fmt.Sprintf("@%d:%d", n, r.Intn(1000)), n
	case 1: // bytes that look like varint continuation bytes
		return "80ff81fe", 4
	default:
		n := 1 + r.Intn(6)
		b := make([]byte, n)
		for i := range b {
			b[i] = byte('a' + r.Intn(3))
		}
		return HexTok(b), n
	}
}

// GenFileScript produces one file-layer scenario.
func GenFileScript(r *Rng, hist map[string]int) []string {
	var out []string
	io := r.Intn(2)
	fid := r.Pick(0, 1, 7, 123456)
	out = append(out, fmt.Sprintf("F new %d %d", fid, io))
	st := &fileState{}
	type rp struct{ staged bool }
	nrec := 1 + r.Intn(6)
	// steer the start offset
	switch r.Intn(4) {
	case 0: // near the end of a block
		target := bs - 1 - r.Intn(24)
		v := valueLenForEnd(0, 1, 0, 0, target)
		if v >= 0 {
			out = append(out, fmt.Sprintf("F put 0 61 @%d:%d 0", v, r.Intn(99)))
			st.advance(encLen(1, v, 0))
			hist["start_near_end"]++
		}
	case 1: // just after a boundary
		target := bs + r.Intn(16)
		v := valueLenForEnd(0, 1, 0, 1, target)
		if v >= 0 {
			out = append(out, fmt.Sprintf("F put 0 61 @%d:%d 0", v, r.Intn(99)))
			st.advance(encLen(1, v, 0))
			hist["start_after_boundary"]++
		}
	default:
		hist["start_zero_or_random"]++
		if r.Chance(1, 2) {
			v := r.Intn(2000)
			out = append(out, fmt.Sprintf("F put 0 62 @%d:%d 0", v, r.Intn(99)))
			st.advance(encLen(1, v, 0))
		}
	}
	staging := false
	for i := 0; i < nrec; i++ {
		ktok, klen := genKeyTok(r)
		batch := uint64(0)
		if r.Chance(1, 3) {
			batch = uint64(r.Next() >> uint(r.Intn(60)))
		}
		typ := r.Pick(0, 0, 0, 1, 2)
		var v int
		switch r.Intn(8) {
		case 0:
			v = 0
			hist["len_zero"]++
		case 1:
			v = 1 + r.Intn(40)
			hist["len_small"]++
		case 2, 3: // end within 8 bytes of a boundary, same block or after one or two blocks
			blocks := r.Pick(0, 0, 1, 1, 2)
			end := bs - 8 + r.Intn(17)
			v = valueLenForEnd(st.off, klen, batch, blocks, end)
			if v < 0 {
				v = r.Intn(100)
			} else {
				hist[fmt.Sprintf("end_near_boundary_blocks%d", blocks)]++
			}
		case 4:
			v = bs - 40 + r.Intn(80)
			hist["len_about_block"]++
		case 5:
			v = 2*bs - 40 + r.Intn(80)
			hist["len_about_2blocks"]++
		case 6:
			v = r.Intn(3 * bs)
			hist["len_random_multi"]++
		default:
			v = r.Intn(600)
			hist["len_sub_block"]++
		}
		vtok := "-"
		if v > 0 {
			vtok = fmt.Sprintf("@%d:%d", v, r.Intn(1000))
		}
		if !staging && r.Chance(1, 5) {
			staging = true
		}
		if !staging && r.Chance(1, 12) {
			// a write the back-end refuses, then the history goes on
			out = append(out, fmt.Sprintf("F putfail %d %s %s %d", typ, ktok, vtok, batch))
			hist["op_put_refused_by_backend"]++
		}
		if !staging && io == 1 && r.Chance(1, 10) {
			out = append(out, "F resetsize")
			hist["op_mmap_reset_file_size"]++
		}
		if staging {
			out = append(out, fmt.Sprintf("F stage %d %s %s %d", typ, ktok, vtok, batch))
			hist["op_stage"]++
			if i < nrec-1 && r.Chance(1, 10) {
				// the back-end refuses the write of the staged records; they are dropped and the history goes on
				out = append(out, "F flushfail")
				hist["op_flush_refused_by_backend"]++
				staging = false
			} else if r.Chance(1, 3) || i == nrec-1 {
				out = append(out, "F flush")
				staging = false
				if r.Chance(9, 10) {
					out = append(out, "F getall") // reads by position between the writes (whatever a reader caches must follow the writer)
					hist["op_reads_between_writes"]++
				}
			}
		} else {
			out = append(out, fmt.Sprintf("F put %d %s %s %d", typ, ktok, vtok, batch))
			hist["op_put"]++
			if r.Chance(3, 4) {
				out = append(out, "F getall")
				hist["op_reads_between_writes"]++
			}
		}
		st.advance(encLen(klen, v, batch))
	}
	if staging {
		out = append(out, "F flush")
	}
	if r.Chance(1, 3) {
		// the last record of the file ends in zero bytes (a value of zeros): nothing may take them for unwritten space
		out = append(out, fmt.Sprintf("F put 0 6b7a %s 0", strings.Repeat("00", 1+r.Intn(40))))
		hist["last_record_ends_in_zero_bytes"]++
	}
	out = append(out, "F size", "F bytes", "F scan")
	out = append(out, "F getall")
	if r.Chance(1, 4) {
		// two more data files are written by two goroutines at the same moment (Merge's output and the active file in
		// the engine): nothing of one file's framing may leak into the other
		out = append(out, fmt.Sprintf("F twofiles %d %d", 20+r.Intn(60), r.Intn(100000)))
		hist["op_two_files_written_concurrently"]++
	}
	out = append(out, "F close")
	out = append(out, fmt.Sprintf("F reopen %d", 1-io), "F scan", "F getall")
	if r.Chance(1, 2) {
		// keep appending after the reopen under the other back-end
		v := r.Intn(70000)
		out = append(out, fmt.Sprintf("F put 0 63 @%d:%d 0", v+1, r.Intn(99)), "F size", "F bytes", "F scan", "F getall")
		hist["append_after_reopen"]++
	}
	out = append(out, "F close")
	if r.Chance(1, 8) {
		// the same script on a file that begins with a sparse region of about 4 GiB (or 8, 12): every
		// position, size and read must come out as at offset 0, shifted by whole blocks (the model runs at
		// offset 0; sequential scans, which would have to cross the empty region, are left out)
		far := r.Pick(131071, 131071, 131072, 131073, 262143, 393216)
		var o2 []string
		for i, l := range out {
			if l == "F scan" || l == "F bytes" {
				continue
			}
			// standard I/O only: msync / ftruncate of a mapping of 4.5 GiB and more cost seconds of kernel time each
			if i == 0 {
				l = fmt.Sprintf("F new %d 0", fid)
			}
			if strings.HasPrefix(l, "F reopen") {
				l = "F reopen 0"
			}
			o2 = append(o2, l)
			if i == 0 {
				o2 = append(o2, fmt.Sprintf("F far %d", far))
			}
		}
		hist["file_beyond_4GiB"]++
		return o2
	}
	return out
}
