package vh

import (
	"encoding/binary"
	"encoding/hex"
	"fmt"
	"math/bits"

	"github.com/cespare/xxhash"
)

// Keys with equal XXH64 (seed 0), the hash Batch uses for its staging index.  For inputs shorter than 32
// bytes XXH64 absorbs each 8-byte lane by h = rotl(h ^ R(lane), 27)*P1 + P4 with R(k) = rotl(k*P2, 31)*P1,
// both bijections on uint64: given a 16-byte key (a1,a2) and any first lane b1 there is exactly one b2
// such that (b1,b2) reaches the same state, hence the same hash.
const (
	xxP1 = 11400714785074694791
	xxP2 = 14029467366897019727
	xxP4 = 9650029242287828579
	xxP5 = 2870177450012600261
)

func inv64(a uint64) uint64 { // inverse of an odd a modulo 2^64 (Newton)
	x := a
	for i := 0; i < 6; i++ {
		x *= 2 - a*x
	}
	return x
}

func xxRound(k uint64) uint64 { return bits.RotateLeft64(k*xxP2, 31) * xxP1 }
func xxRoundInv(y uint64) uint64 {
	return bits.RotateLeft64(y*inv64(xxP1), -31) * inv64(xxP2)
}

// CollidingKeys returns two different 16-byte keys with the same xxhash.Sum64.
func CollidingKeys(r *Rng) ([]byte, []byte) {
	a := make([]byte, 16)
	for i := range a {
		a[i] = byte(r.Intn(256))
	}
	a1, a2 := binary.LittleEndian.Uint64(a[:8]), binary.LittleEndian.Uint64(a[8:])
	b1 := a1 ^ (1 + uint64(r.Intn(1<<20)))
	h0 := uint64(xxP5) + 16
	step := func(h, lane uint64) uint64 { return bits.RotateLeft64(h^xxRound(lane), 27)*xxP1 + xxP4 }
	sa, sb := step(h0, a1), step(h0, b1)
	b2 := xxRoundInv(sa ^ xxRound(a2) ^ sb)
	b := make([]byte, 16)
	binary.LittleEndian.PutUint64(b[:8], b1)
	binary.LittleEndian.PutUint64(b[8:], b2)
	if xxhash.Sum64(a) != xxhash.Sum64(b) || string(a) == string(b) {
		panic("collision construction failed")
	}
	return a, b
}

// GenCollideScript (C05): batches that stage keys whose hashes collide - read-your-writes, deletion and
// in-order application must not depend on the hash function of the staging index.
func GenCollideScript(r *Rng, o EngineGenOpts, hist map[string]int) []string {
	var out []string
	add := func(format string, a ...interface{}) { out = append(out, "E "+fmt.Sprintf(format, a...)) }
	c := genCfg(r, o, hist)
	add("dir db")
	add("open %s", c)
	a, b := CollidingKeys(r)
	ka, kb := hex.EncodeToString(a), hex.EncodeToString(b)
	val := func() string { return fmt.Sprintf("@%d:%d", 1+r.Intn(30), r.Intn(99999)) }
	if r.Chance(1, 2) {
		add("put %s %s", ka, val())
	}
	if r.Chance(1, 3) {
		add("put %s %s", kb, val())
	}
	for round := 1 + r.Intn(3); round > 0; round-- {
		add("batch %d", r.Intn(2))
		for i := 3 + r.Intn(8); i > 0; i-- {
			k := ka
			if r.Chance(1, 2) {
				k = kb
			}
			switch r.Intn(5) {
			case 0, 1:
				add("bput %s %s", k, val())
			case 2:
				add("bdel %s", k)
			default:
				add("bget %s", k)
			}
		}
		add("commit")
		add("get %s", ka)
		add("get %s", kb)
		add("dump")
	}
	add("close")
	add("open %s", genCfg(r, o, hist))
	add("dump")
	add("close")
	hist["batch_hash_collision"]++
	return out
}
