package vh

import (
	"bytes"
	"sort"

	kv "github.com/XiXi-2024/xixi-kv"
)

// refModel is the property oracle on the implementation side: a plain map with layered
// batches.  It never looks at the Coq model; it is what "the property itself" says.
type refModel struct {
	m              map[string][]byte
	bm             map[string]*[]byte // staged batch view: nil pointer value = deleted
	border         []string
	inBatch        bool
	batchCommitted bool
	closedDump     map[string][]byte // dump taken right before Close
	backups        map[string]map[string][]byte
	crashed        bool                         // after a crash the reference map is re-seeded from the recovered state
	maps           map[string]map[string][]byte // reference map of every logical directory
	curDir         string
	pending        string // property to blame at the next dump
	opens          int
	batchStart     int
	batchWrites    []histWrite
	history        []histEntry       // acknowledged mutations of the current directory, in order
	base           map[string][]byte // mapping before the first of them
	dtDirty        bool              // data-structure commands wrote records since the last dump: the next dump re-seeds the map
}

// ack records an acknowledged mutation (a Put, a Delete that wrote, a committed batch).
func (m *refModel) ack(r *EngineRunner) {
	st := make(map[string][]byte, len(m.m))
	for k, v := range m.m {
		st[k] = v
	}
	if m.base == nil {
		m.base = map[string][]byte{}
	}
	m.history = append(m.history, histEntry{start: r.opStart, ack: r.shadow.count(), state: st, writes: r.curWrites})
}

func newRefModel() *refModel {
	m := &refModel{m: map[string][]byte{}, backups: map[string]map[string][]byte{}, maps: map[string]map[string][]byte{}, curDir: "db"}
	m.maps["db"] = m.m
	return m
}

// switchDir selects the reference map of another logical directory.
func (m *refModel) switchDir(name string) {
	m.maps[m.curDir] = m.m
	m.curDir = name
	if mm, ok := m.maps[name]; ok {
		m.m = mm
	} else {
		m.m = map[string][]byte{}
		m.maps[name] = m.m
	}
}

func cp(b []byte) []byte { return append([]byte(nil), b...) }

func (m *refModel) put(r *EngineRunner, k, v []byte, err error) {
	if len(k) == 0 {
		if err != kv.ErrKeyIsEmpty {
			r.fail("C01", "Put of an empty key returned %v", err)
		}
		return
	}
	if err != nil {
		r.fail("C01", "Put(%s) failed: %v", Obs(k), err)
		return
	}
	m.m[string(k)] = cp(v)
	m.ack(r)
}

func (m *refModel) del(r *EngineRunner, k []byte, err error) {
	if len(k) == 0 {
		return
	}
	if err != nil {
		r.fail("C01", "Delete(%s) failed: %v", Obs(k), err)
		return
	}
	delete(m.m, string(k))
	if len(r.curWrites) > 0 {
		m.ack(r)
	}
}

func (m *refModel) get(r *EngineRunner, k, v []byte, err error) {
	if len(k) == 0 {
		return
	}
	want, ok := m.m[string(k)]
	switch {
	case !ok && err != kv.ErrKeyNotFound:
		r.fail("C01", "Get(%s): key was never written or last deleted, got value %s err %v", Obs(k), Obs(v), err)
	case ok && err != nil:
		r.fail("C01", "Get(%s): latest acknowledged write is %s, got error %v", Obs(k), Obs(want), err)
	case ok && !bytes.Equal(v, want):
		r.fail("C01", "Get(%s): latest acknowledged write is %s, got %s", Obs(k), Obs(want), Obs(v))
	}
}

func (m *refModel) sortedKeys() []string {
	ks := make([]string, 0, len(m.m))
	for k := range m.m {
		ks = append(ks, k)
	}
	sort.Strings(ks)
	return ks
}

func (m *refModel) list(r *EngineRunner, keys [][]byte) {
	want := m.sortedKeys()
	if len(keys) != len(want) {
		r.fail("C10", "ListKeys returned %d keys, the map has %d", len(keys), len(want))
		return
	}
	for i := range want {
		if string(keys[i]) != want[i] {
			r.fail("C10", "ListKeys[%d] = %s, expected %s (ascending order of the live keys)", i, Obs(keys[i]), Obs([]byte(want[i])))
			return
		}
	}
}

func (m *refModel) fold(r *EngineRunner, got [][2][]byte) {
	want := m.sortedKeys()
	if len(got) != len(want) {
		r.fail("C10", "Fold visited %d keys, the map has %d", len(got), len(want))
		return
	}
	for i := range want {
		if string(got[i][0]) != want[i] || !bytes.Equal(got[i][1], m.m[want[i]]) {
			r.fail("C10", "Fold item %d = (%s,%s), expected (%s,%s)", i, Obs(got[i][0]), Obs(got[i][1]), Obs([]byte(want[i])), Obs(m.m[want[i]]))
			return
		}
	}
}

func (m *refModel) stat(r *EngineRunner, st *kv.Stat) {
	if st.KeyNum != len(m.m) {
		r.fail("C17", "Stat.KeyNum = %d, live keys = %d", st.KeyNum, len(m.m))
	}
	if st.ReclaimableSize < 0 || st.ReclaimableSize > st.DiskSize {
		r.fail("C17", "Stat sizes out of order: reclaimable %d, disk %d", st.ReclaimableSize, st.DiskSize)
	}
	// DiskSize - ReclaimableSize = bytes occupied by the live records
	var live int64
	for k := range m.m {
		if p := r.db.VerifPos([]byte(k)); p != nil {
			live += int64(p.Size)
		}
	}
	if st.DiskSize-st.ReclaimableSize != live {
		r.fail("C17", "Stat: DiskSize %d - ReclaimableSize %d = %d, live records occupy %d", st.DiskSize, st.ReclaimableSize, st.DiskSize-st.ReclaimableSize, live)
	}
	active, older := r.db.VerifFileIDs()
	_ = active
	if st.DataFileNum != len(older)+1 {
		r.fail("C17", "Stat.DataFileNum = %d, open data files = %d", st.DataFileNum, len(older)+1)
	}
}

// dump reads the whole mapping through the public API.
func dumpDB(db *kv.DB) (map[string][]byte, error) {
	out := map[string][]byte{}
	for _, k := range db.ListKeys() {
		v, err := db.Get(k)
		if err != nil {
			return nil, err
		}
		out[string(k)] = v
	}
	return out, nil
}

func sameMap(a, b map[string][]byte) (string, bool) {
	for k, v := range a {
		w, ok := b[k]
		if !ok {
			return "key " + Obs([]byte(k)) + " missing", false
		}
		if !bytes.Equal(v, w) {
			return "key " + Obs([]byte(k)) + ": " + Obs(v) + " vs " + Obs(w), false
		}
	}
	for k := range b {
		if _, ok := a[k]; !ok {
			return "extra key " + Obs([]byte(k)), false
		}
	}
	return "", true
}

func (m *refModel) beforeClose(r *EngineRunner) {}

// afterOpen only notes what the next dump has to be compared with.
func (m *refModel) afterOpen(r *EngineRunner) {
	m.opens++
	switch {
	case m.backups[r.cur] != nil:
		m.pending = "C20"
	case m.crashed:
		m.pending = "crash"
	default:
		m.pending = "C02"
	}
}

// checkDump compares a full dump (ListKeys + Get of every key, issued by the script itself so
// that the model performs the same reads) with the reference map; the property blamed is the
// one whose operation preceded the dump.
func (m *refModel) checkDump(r *EngineRunner, d map[string][]byte) {
	prop := m.pending
	m.pending = "C01"
	if m.dtDirty && prop != "C20" && prop != "crash" {
		m.dtDirty = false
		m.m = d
		m.maps[m.curDir] = m.m
		return
	}
	switch prop {
	case "C20":
		bk := m.backups[r.cur]
		if why, ok := sameMap(bk, d); !ok {
			r.fail("C20", "backup %s opens to a mapping that differs from the source at backup time: %s", r.cur, why)
		}
		m.m = map[string][]byte{}
		for k, v := range bk {
			m.m[k] = v
		}
		m.maps[m.curDir] = m.m
		delete(m.backups, r.cur)
		return
	case "crash":
		// the exposed prefix is checked by the crash oracle; continue from the recovered state
		m.m = d
		m.maps[m.curDir] = m.m
		m.crashed = false
		return
	case "":
		prop = "C01"
	}
	if why, ok := sameMap(m.m, d); !ok {
		what := map[string]string{
			"C01": "live mapping differs from the reference map",
			"C02": "mapping after Open differs from the mapping before Close",
			"C05": "database after Commit is not the batch applied in issue order",
			"C06": "Merge changed the mapping",
		}[prop]
		r.fail(prop, "%s: %s", what, why)
	}
	if prop == "C02" {
		if st := r.db.Stat(); st.KeyNum != len(m.m) {
			r.fail("C02", "Stat.KeyNum after Open = %d, expected %d", st.KeyNum, len(m.m))
		}
	}
}

func (m *refModel) batchBegin(sync bool) {
	m.batchStart = -1
	m.batchWrites = nil
	m.bm = map[string]*[]byte{}
	m.inBatch = true
	m.batchCommitted = false
	m.border = nil
}

func (m *refModel) bput(r *EngineRunner, k, v []byte, err error) {
	if len(k) == 0 {
		return
	}
	if m.batchCommitted {
		if err != kv.ErrBatchCommitted {
			r.fail("C05", "Batch.Put after Commit returned %v, expected ErrBatchCommitted", err)
		}
		return
	}
	if err != nil {
		r.fail("C05", "Batch.Put(%s) failed: %v", Obs(k), err)
		return
	}
	c := cp(v)
	m.bm[string(k)] = &c
	m.noteBatchOp(r)
}

func (m *refModel) bdel(r *EngineRunner, k []byte, err error) {
	if len(k) == 0 {
		return
	}
	if m.batchCommitted {
		if err != kv.ErrBatchCommitted {
			r.fail("C05", "Batch.Delete after Commit returned %v, expected ErrBatchCommitted", err)
		}
		return
	}
	if err != nil {
		r.fail("C05", "Batch.Delete(%s) failed: %v", Obs(k), err)
		return
	}
	m.bm[string(k)] = nil
	m.noteBatchOp(r)
}

// noteBatchOp remembers the writes a staging operation caused (a mid-batch flush)
func (m *refModel) noteBatchOp(r *EngineRunner) {
	if len(r.curWrites) > 0 {
		if m.batchStart < 0 {
			m.batchStart = r.opStart
		}
		m.batchWrites = append(m.batchWrites, r.curWrites...)
	}
}

func (m *refModel) bget(r *EngineRunner, k, v []byte, err error) {
	if len(k) == 0 {
		return
	}
	if m.batchCommitted {
		if err != kv.ErrBatchCommitted {
			r.fail("C05", "Batch.Get after Commit returned %v, expected ErrBatchCommitted", err)
		}
		return
	}
	var want []byte
	present := false
	if pv, ok := m.bm[string(k)]; ok {
		if pv != nil {
			want, present = *pv, true
		}
	} else if dv, ok := m.m[string(k)]; ok {
		want, present = dv, true
	}
	switch {
	case !present && err != kv.ErrKeyNotFound:
		r.fail("C05", "Batch.Get(%s): expected key-not-found, got %s err %v", Obs(k), Obs(v), err)
	case present && err != nil:
		r.fail("C05", "Batch.Get(%s): expected %s, got error %v", Obs(k), Obs(want), err)
	case present && !bytes.Equal(v, want):
		r.fail("C05", "Batch.Get(%s): expected %s, got %s", Obs(k), Obs(want), Obs(v))
	}
}

func (m *refModel) commit(r *EngineRunner, err error) {
	if m.batchCommitted {
		if err != kv.ErrBatchCommitted {
			r.fail("C05", "second Commit returned %v, expected ErrBatchCommitted", err)
		}
		return
	}
	m.batchCommitted = true
	m.inBatch = false
	if err != nil {
		r.fail("C05", "Commit failed: %v", err)
		return
	}
	for k, pv := range m.bm {
		if pv == nil {
			delete(m.m, k)
		} else {
			m.m[k] = *pv
		}
	}
	// the batch is one mutation; it began with its first flush, which may precede Commit
	saved := r.opStart
	if m.batchStart >= 0 && m.batchStart < r.opStart {
		r.opStart = m.batchStart
	}
	r.curWrites = append(m.batchWrites, r.curWrites...)
	m.ack(r)
	r.opStart = saved
	m.pending = "C05"
}

func (m *refModel) merge(r *EngineRunner, err error) {
	m.pending = "C06"
}

func (m *refModel) backup(r *EngineRunner, name string) {
	snap := map[string][]byte{}
	for k, v := range m.m {
		snap[k] = v
	}
	m.backups[name] = snap
}
