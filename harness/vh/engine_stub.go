package vh

import "bufio"

func RunEngineScript(lines []string, w *bufio.Writer, verbose bool) error { return nil }
