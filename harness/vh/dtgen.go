package vh

import "fmt"

// GenDTScript (C19): commands of all five types over a small key space; deletions and re-creations
// with another type; strings with expiry (already expired / far in the future); restarts with an
// independently drawn configuration and merges in between; full dumps of the underlying store.
// Members are at most 3 bytes long, which excludes the sorted-set key collision D22 (it needs a member
// ending in a 4-byte length); that collision has its own scenario (GenDTCollide).
func GenDTScript(r *Rng, hist map[string]int, nops int) []string {
	var out []string
	add := func(format string, a ...interface{}) { out = append(out, "E "+fmt.Sprintf(format, a...)) }
	o := EngineGenOpts{FixedIO: -1}
	add("dir db")
	if r.Chance(1, 3) {
		// the arguments of every command share one buffer (as a network parser delivers them)
		add("hostile 1")
		hist["dt_arguments_share_one_buffer"]++
	}
	// block-boundary sweep: before some commands the log is padded so that the command's records start a
	// drawn distance (1-90 bytes) before the end of a 32 KiB block (the second and later records of a
	// command's batch then begin within the last bytes of the block)
	sweep := r.Chance(1, 6)
	c0 := genCfg(r, o, hist)
	if sweep {
		c0.fsize = 1 << 20
		hist["dt_block_boundary_sweep"]++
	}
	add("open %s", c0)
	keys := []string{"6b", "6b6b", "71", "6b00", "a0ff"}
	nk := 1 + r.Intn(len(keys))
	small := []string{"-", "61", "62", "6162", "00", "ff0102"}
	vals := []string{"-", "76", "7631", "ffffffffffffffffffffffffff01", "80808080808080808080808001", "@20:7", "@70:3", "00"}
	// scores in the engine's canonical spelling (FormatFloat 'f', shortest): among them neighbours that differ by less
	// than any tolerance a comparison might use (0.1+0.2 against 0.3, 1e-10 apart near 0 and near 1, one ulp at 1e21)
	scores := []string{"0", "1", "1.5", "-2", "0.1", "100", "1000000000000000000000", "-0.25",
		"0.3", "0.30000000000000004", "0.0000000001", "0.0000000002", "1.0000000001", "1000000000000000100000"}
	key := func() string {
		if r.Chance(1, 60) {
			hist["dt_key_empty"]++
			return "-"
		}
		return keys[r.Intn(nk)]
	}
	val := func() string {
		v := vals[r.Intn(len(vals))]
		if v[0] == '@' && r.Chance(1, 2) {
			v = fmt.Sprintf("@%d:%d", 1+r.Intn(90), r.Intn(9999))
		}
		return v
	}
	kind := map[string]string{} // what the generator believes each key holds (steers towards same-type runs)
	for i := 0; i < nops; i++ {
		k := key()
		// mostly continue with the type the key holds; sometimes another type (wrong-type replies)
		t := kind[k]
		if t == "" || t == "xstr" || r.Chance(1, 8) {
			if t == "xstr" { // an expired string: only string commands, Del and re-creation by Set
				t = "str"
			} else {
				t = r.PickS("str", "hash", "set", "list", "zset")
			}
			if kind[k] != "" && kind[k] != t {
				hist["dt_wrongtype_attempt"]++
			}
		}
		if k == "-" {
			t = "str"
		}
		if sweep && r.Chance(1, 3) {
			add("padto %d 70616466 %d", 1+r.Intn(90), r.Intn(99999))
			hist["dt_padded_to_block_end"]++
		}
		switch x := r.Intn(30); {
		case x == 0:
			add("dtdel %s", k)
			delete(kind, k)
			hist["dt_del"]++
			continue
		case x == 1:
			if kind[k] != "xstr" {
				add("dttype %s", k)
				hist["dt_type"]++
			}
			continue
		case x == 2:
			add("dump")
			add("close")
			add("open %s", genCfg(r, o, hist))
			hist["dt_restart"]++
			if r.Chance(1, 2) {
				add("dump")
			}
			continue
		case x == 3 && r.Chance(1, 3):
			add("dump")
			add("merge")
			add("dump")
			hist["dt_merge"]++
			continue
		case x == 4 && r.Chance(1, 2):
			add("dump")
			continue
		}
		switch t {
		case "str":
			if r.Chance(1, 2) {
				ttl := r.Pick(0, 0, 0, 1, 2, 2, 3)
				add("dtset %s %s %d", k, val(), ttl)
				hist[fmt.Sprintf("dt_set_ttl%d", ttl)]++
				if k != "-" {
					if ttl == 1 || ttl == 3 {
						kind[k] = "xstr"
					} else {
						kind[k] = "str"
					}
				}
			} else {
				add("dtget %s", k)
				hist["dt_get"]++
			}
		case "hash":
			f := small[r.Intn(len(small))]
			switch r.Intn(5) {
			case 0, 1:
				add("hset %s %s %s", k, f, val())
				if kind[k] == "" {
					kind[k] = "hash"
				}
			case 2, 3:
				add("hget %s %s", k, f)
			default:
				add("hdel %s %s", k, f)
			}
			hist["dt_hash"]++
		case "set":
			m := small[r.Intn(len(small))]
			switch r.Intn(5) {
			case 0, 1:
				add("sadd %s %s", k, m)
				if kind[k] == "" {
					kind[k] = "set"
				}
			case 2, 3:
				add("sismember %s %s", k, m)
			default:
				add("srem %s %s", k, m)
			}
			hist["dt_set"]++
		case "list":
			switch r.Intn(6) {
			case 0, 1:
				add("%s %s %s", r.PickS("lpush", "rpush"), k, val())
				if kind[k] == "" {
					kind[k] = "list"
				}
			case 2:
				add("%s %s %s", r.PickS("lpush", "rpush"), k, val())
				if kind[k] == "" {
					kind[k] = "list"
				}
			default:
				add("%s %s", r.PickS("lpop", "rpop"), k)
			}
			hist["dt_list"]++
		case "zset":
			m := small[r.Intn(len(small))]
			if r.Chance(1, 2) {
				add("zadd %s %s %s", k, scores[r.Intn(len(scores))], m)
				if kind[k] == "" {
					kind[k] = "zset"
				}
			} else {
				add("zscore %s %s", k, m)
			}
			hist["dt_zset"]++
		}
	}
	add("dump")
	add("close")
	add("open %s", genCfg(r, o, hist))
	add("dump")
	for i := 0; i < nk; i++ {
		k := keys[i]
		if kind[k] != "xstr" {
			add("dttype %s", k)
		}
		switch kind[k] {
		case "str", "xstr":
			add("dtget %s", k)
		case "hash":
			for _, f := range small {
				add("hget %s %s", k, f)
			}
		case "set":
			for _, f := range small {
				add("sismember %s %s", k, f)
			}
		case "list":
			for j := 0; j < 4; j++ {
				add("lpop %s", k)
			}
		case "zset":
			for _, f := range small {
				add("zscore %s %s", k, f)
			}
		}
	}
	add("close")
	return out
}

// GenDTCollide: the sorted-set key collision D22 (known finding): the member-to-score record of member
// <score><m><le32 |m|> has the key of the score-order record of (score, m).
func GenDTCollide() []string {
	return []string{
		"E dir db", "E open 4096 0 50 0 1 16",
		"E zadd 7a 1 6d",
		"E zscore 7a 316d01000000",
		"E zadd 7a 2 316d01000000",
		"E zscore 7a 6d",
		"E close",
	}
}

func init() {
	extraCommands["dtgen"] = func(args []string) {
		fs := newFlagSet("dtgen")
		seed := fs.Uint64("seed", 1, "seed")
		n := fs.Int("n", 100, "scenarios")
		out := fs.String("out", "", "output")
		histp := fs.String("hist", "", "histogram output")
		kind := fs.String("kind", "quick", "quick | thorough | collide")
		_ = fs.Parse(args)
		r := NewRng(*seed)
		h := map[string]int{}
		var lines []string
		if *kind == "collide" {
			lines = append(lines, "S 0")
			lines = append(lines, GenDTCollide()...)
		} else {
			for i := 0; i < *n; i++ {
				lines = append(lines, fmt.Sprintf("S %d", i))
				nops := r.Pick(5, 15, 40, 40, 120)
				if *kind == "thorough" {
					nops = r.Pick(15, 40, 120, 300)
				}
				lines = append(lines, GenDTScript(r, h, nops)...)
			}
		}
		writeLines(*out, lines)
		writeHistFile(*histp, h)
	}
}
