package vh

import (
	"bufio"
	"bytes"
	"errors"
	"fmt"
	"io"
	"os"
	"path/filepath"
	"sort"
	"strings"
	"sync"
	"syscall"
	"time"

	kv "github.com/XiXi-2024/xixi-kv"
	"github.com/XiXi-2024/xixi-kv/datafile"
	"github.com/XiXi-2024/xixi-kv/datatype"
	"github.com/XiXi-2024/xixi-kv/fio"
	"github.com/XiXi-2024/xixi-kv/index"
	"github.com/XiXi-2024/xixi-kv/utils"
)

// EngErr maps an engine error to the model's enum.
func EngErr(err error) string {
	switch {
	case err == nil:
		return "nil"
	case errors.Is(err, kv.ErrKeyIsEmpty):
		return "keyempty"
	case errors.Is(err, kv.ErrKeyNotFound):
		return "notfound"
	case errors.Is(err, kv.ErrDataFileNotFound):
		return "nofile"
	case errors.Is(err, kv.ErrIndexUpdateFailed):
		return "indexfail"
	case errors.Is(err, kv.ErrBatchCommitted):
		return "committed"
	case errors.Is(err, kv.ErrMergeOutputTooLarge):
		return "mergetoolarge"
	case errors.Is(err, kv.ErrMergeIsProgress):
		return "merging"
	case errors.Is(err, kv.ErrDatabaseIsUsing):
		return "inuse"
	case errors.Is(err, datafile.ErrInvalidCRC):
		return "crc"
	case errors.Is(err, io.EOF):
		return "eof"
	case errors.Is(err, io.ErrUnexpectedEOF):
		return "torn"
	case errors.Is(err, datafile.ErrClosed):
		return "closed"
	}
	return "other:" + strings.ReplaceAll(err.Error(), " ", "_")
}

// EngineRunner executes engine-layer script lines ("E ...") on the real engine.
type EngineRunner struct {
	batchStartSize int64         // logical size of the active file when the open batch began
	stuck      bool              // a call of the engine never returned (watchdog): the handle is abandoned at the next close
	Root       string            // scratch root of this scenario
	dirs       map[string]string // logical directory name -> path
	cur        string            // current logical directory
	db         *kv.DB
	opts       kv.Options
	batch      *kv.Batch
	events     []string
	Verbose    bool
	scen       string
	Oracle     []string
	ref        *refModel
	shadow     *shadowFS
	iter       *kv.Iterator
	iterRef    *iterRef
	probeClose bool
	// hostile caller (C15): one key buffer and one value buffer are reused for every call and
	// overwritten after each return; returned values are kept, poisoned and watched
	hostile    bool
	oldBatch   *kv.Batch // the previous, committed batch (its handle must stay dead)
	probedKeys [][]byte  // keys asked for by the read probes of the last probed call
	keyBuf     []byte
	valBuf     []byte
	returned   []retSlice
	mergeSeen  []uint32
	// first data file written entirely under the current DataFileSize (files that were
	// active in an earlier session may have been filled under another limit)
	sessionFirstFile uint32
	so               *syncOracle
	batchSync        bool
	// crash machinery
	markIdx        int
	crashProp      string
	maxCrashPoints int
	byteCuts       int
	opStart        int
	curWrites      []histWrite
	skipRanges     [][2]int // event ranges (of Close / Backup) whose interior is not a crash point
	dt             *dtRef
	pathStyle      int // how DirPath is spelled: 0 clean, 1 with a trailing separator, 2 alternating between the two
	opensDone      int
	svc            *datatype.DataTypeService
	svcDB          *kv.DB
	lastBatch      time.Time // when the scenario created its latest batch (see continueImage)
}

// checkFileLimit (C17): a data file exceeds DataFileSize only when it holds a single record
// (plus, for a batch, its batch-finished record).
func (r *EngineRunner) checkFileLimit() {
	if r.db == nil {
		return
	}
	saved := fio.VerifEvent
	fio.VerifEvent = nil
	defer func() { fio.VerifEvent = saved }()
	active, older := r.db.VerifFileIDs()
	ids := append(older, active)
	for _, id := range ids {
		if id <= r.sessionFirstFile && r.sessionFirstFile != 0 {
			continue
		}
		if id == r.sessionFirstFile && r.sessionFirstFile == 0 && r.ref.opens > 1 {
			continue
		}
		path := datafile.GetFileName(r.dir(), id, datafile.DataFileSuffix)
		logical := int64(-1)
		if id == active {
			logical = r.db.VerifActiveSize()
		}
		st, err := os.Stat(path)
		if err != nil {
			continue
		}
		size := st.Size()
		if logical >= 0 {
			size = logical
		} else if r.opts.FileIOType == fio.MemoryMap {
			continue // physical size of a mapped older file is the mapping size
		}
		if size <= r.opts.DataFileSize {
			continue
		}
		// count the records of the file (a copy, read with standard I/O)
		tmp, err := os.MkdirTemp(r.Root, "lim")
		if err != nil {
			continue
		}
		data, _ := os.ReadFile(path)
		if int64(len(data)) > size {
			data = data[:size]
		}
		_ = os.WriteFile(datafile.GetFileName(tmp, id, datafile.DataFileSuffix), data, 0644)
		df, err := datafile.OpenFile(tmp, id, datafile.DataFileSuffix, fio.StandardFIO)
		n := 0
		if err == nil {
			rd := df.NewReader()
			for {
				rec, _, err := rd.NextLogRecord()
				if err != nil {
					break
				}
				if rec.Type != datafile.LogRecordBatchFinished {
					n++
				}
			}
			_ = df.Close()
		}
		_ = os.RemoveAll(tmp)
		if n > 1 {
			r.fail("C17", "data file %d has %d bytes > DataFileSize %d and holds %d records", id, size, r.opts.DataFileSize, n)
		}
	}
}

type _unused struct{}

func (r *EngineRunner) fail(prop string, format string, a ...interface{}) {
	r.Oracle = append(r.Oracle, fmt.Sprintf("X %s scenario=%s %s", prop, r.scen, fmt.Sprintf(format, a...)))
}

func (r *EngineRunner) dir() string { return r.dirs[r.cur] }

func (r *EngineRunner) mergeDir() string { return r.dir() + "-merge" }

// fileName maps a path to the model's file name (D<id>, H, M<id>, MH, MK).
func (r *EngineRunner) fileName(path string) string {
	d := filepath.Dir(path)
	base := filepath.Base(path)
	prefix := "?"
	switch d {
	case r.dir():
		prefix = "D"
	case r.mergeDir():
		prefix = "M"
	default:
		return "?" + path
	}
	var id int
	switch {
	case strings.HasSuffix(base, datafile.DataFileSuffix):
		fmt.Sscanf(base, "%d", &id)
		return fmt.Sprintf("%s%d", prefix, id)
	case strings.HasSuffix(base, datafile.HintFileSuffix):
		if prefix == "D" {
			return "H"
		}
		return "MH"
	case strings.HasSuffix(base, datafile.MergeFinishedFileSuffix):
		if prefix == "D" {
			return "K"
		}
		return "MK"
	}
	return prefix + "?" + base
}

func (r *EngineRunner) installHooks() {
	fio.VerifEvent = func(kind string, path string, data []byte, n int64) {
		name := r.fileName(path)
		var ev string
		switch kind {
		case "open":
			if st, err := os.Stat(path); err == nil {
				ev = "O " + name
				r.so.event(r, "openexisting", name, st.Size())
			} else {
				ev = "C " + name
				r.so.event(r, "create", name, 0)
			}
		case "write":
			ev = fmt.Sprintf("W %s %d", name, n)
			r.so.event(r, "write", name, n)
			if r.shadow != nil {
				r.curWrites = append(r.curWrites, histWrite{path, int64(len(r.shadow.files[path].data)) + n})
			}
		case "sync":
			ev = "S " + name
			r.so.event(r, "sync", name, 0)
		case "close":
			ev = "X " + name
		case "truncate":
			ev = fmt.Sprintf("T %s %d", name, n)
		}
		if r.shadow != nil {
			r.shadow.fileEvent(kind, path, data, n)
		}
		r.events = append(r.events, ev)
	}
	kv.VerifFsEvent = func(kind string, a string, b string) {
		var ev string
		switch kind {
		case "mkdir":
			if a == r.dir() {
				ev = "MD"
			} else {
				ev = "MM"
			}
		case "remove":
			ev = "R " + r.fileName(a)
		case "rename":
			ev = "N " + r.fileName(a) + " " + r.fileName(b)
		case "removeall":
			ev = "RA"
		}
		if r.shadow != nil {
			r.shadow.fsEvent(kind, a, b)
		}
		r.events = append(r.events, ev)
	}
}

func (r *EngineRunner) installMergeHook() {
	kv.VerifMergeFile = func(id uint32) { r.mergeSeen = append(r.mergeSeen, id) }
}

func (r *EngineRunner) uninstallHooks() {
	kv.VerifMergeFile = nil
	fio.VerifEvent = nil
	kv.VerifFsEvent = nil
	kv.VerifSched = nil
}

// takeEvents returns and clears the event log; sorted when the order is unspecified.
func (r *EngineRunner) takeEvents(sorted bool) string {
	ev := r.events
	r.events = nil
	if sorted {
		ev = sortCloseGroups(ev)
	}
	if len(ev) == 0 {
		return ""
	}
	return " ;; " + strings.Join(ev, " ; ")
}

// sortCloseGroups orders the per-file event groups of a Close / Backup by file name: the
// engine iterates a Go map of older files there, so the order of the groups is unspecified.
func sortCloseGroups(ev []string) []string {
	type grp struct {
		name string
		evs  []string
	}
	var groups []grp
	for _, e := range ev {
		f := strings.Fields(e)
		name := ""
		if len(f) > 1 {
			name = f[1]
		}
		if len(groups) > 0 && groups[len(groups)-1].name == name {
			groups[len(groups)-1].evs = append(groups[len(groups)-1].evs, e)
		} else {
			groups = append(groups, grp{name, []string{e}})
		}
	}
	sort.SliceStable(groups, func(i, j int) bool { return fileOrder(groups[i].name) < fileOrder(groups[j].name) })
	var out []string
	for _, g := range groups {
		out = append(out, g.evs...)
	}
	return out
}

func fileOrder(name string) string {
	if len(name) > 1 && (name[0] == 'D' || name[0] == 'M') && name[1] >= '0' && name[1] <= '9' {
		return fmt.Sprintf("%c%012s", name[0], name[1:])
	}
	return "~" + name
}

func parseOpts(f []string, dir string) kv.Options {
	o := kv.DefaultOptions
	o.DirPath = dir
	o.DataFileSize = int64(atou(f[0]))
	o.SyncStrategy = kv.SyncStrategy(atoi(f[1]))
	o.BytesPerSync = uint(atou(f[2]))
	o.FileIOType = fio.FileIOType(atoi(f[3]))
	o.IndexType = index.IndexType(atoi(f[4]))
	o.ShardNum = atoi(f[5])
	o.DataFileMergeRatio = 0
	return o
}

func keysDigest(keys [][]byte) string {
	var sb strings.Builder
	for _, k := range keys {
		sb.WriteString(Obs(k))
		sb.WriteByte(';')
	}
	return fmt.Sprintf("%d %s", len(keys), Md5Hex([]byte(sb.String())))
}

type retSlice struct {
	live []byte // the slice the engine handed out
	want []byte // what it must still hold
	what string
}

// hk / hv place an argument into the shared caller buffer (hostile mode) and return the slice passed on.
func (r *EngineRunner) hk(k []byte) []byte {
	if !r.hostile || k == nil {
		return k
	}
	if cap(r.keyBuf) < len(k)+8 {
		r.keyBuf = make([]byte, 0, 2*len(k)+64)
	}
	b := r.keyBuf[:len(k)]
	copy(b, k)
	return b
}
func (r *EngineRunner) hv(v []byte) []byte {
	if !r.hostile || v == nil {
		return v
	}
	if cap(r.valBuf) < len(v)+8 {
		r.valBuf = make([]byte, 0, 2*len(v)+64)
	}
	b := r.valBuf[:len(v)]
	copy(b, v)
	return b
}

// scribble overwrites the caller's buffers after a call has returned.
func (r *EngineRunner) scribble() {
	if !r.hostile {
		return
	}
	for i := range r.keyBuf[:cap(r.keyBuf)] {
		r.keyBuf[:cap(r.keyBuf)][i] = 0xEE
	}
	for i := range r.valBuf[:cap(r.valBuf)] {
		r.valBuf[:cap(r.valBuf)][i] = 0xDD
	}
}

// keep records a slice returned by the engine; the caller then writes into it (it is a private copy).
func (r *EngineRunner) keep(v []byte, what string) {
	if !r.hostile || len(v) == 0 {
		return
	}
	for i := range v {
		v[i] ^= 0xFF
	}
	r.returned = append(r.returned, retSlice{v, append([]byte(nil), v...), what})
	if len(r.returned) > 64 {
		r.returned = r.returned[len(r.returned)-64:]
	}
}

// checkReturned: no later operation may have changed a slice the engine returned earlier.
func (r *EngineRunner) checkReturned(after string) {
	// the caller owns a returned slice, its spare capacity included (what append would use): fill it
	for _, x := range r.returned {
		if spare := x.live[len(x.live):cap(x.live)]; len(spare) > 0 {
			if len(spare) > 1024 {
				spare = spare[:1024]
			}
			for i := range spare {
				spare[i] = 0xA5
			}
		}
	}
	for _, x := range r.returned {
		if !bytes.Equal(x.live, x.want) {
			r.fail("C15", "the value returned by %s was modified by a later operation (%s)", x.what, after)
			copy(x.want, x.live)
		}
	}
}

// Exec runs one engine script line; returns the observation.
func (r *EngineRunner) Exec(f []string) (res string) {
	if r.hostile {
		defer func() { r.scribble(); r.checkReturned(strings.Join(f[1:], " ")) }()
	}
	defer func() {
		if e := recover(); e != nil {
			res = "panic"
			if r.Verbose {
				res = fmt.Sprintf("panic # %v", e)
			}
			prop := "C09"
			if len(f) > 1 && dtOps[f[1]] {
				prop = "C19"
			}
			r.fail(prop, "panic in %s: %v", strings.Join(f, " "), e)
		}
	}()
	op := f[1]
	switch op {
	case "dir": // select (and create the name of) the current logical directory
		r.cur = f[2]
		r.ref.switchDir(f[2])
		if _, ok := r.dirs[r.cur]; !ok {
			r.dirs[r.cur] = filepath.Join(r.Root, r.cur)
		}
		return ""
	case "rmdir": // E rmdir: (database closed) the current data directory is deleted by its owner; a merge directory beside it stays
		if r.db != nil {
			return "skip"
		}
		_ = os.RemoveAll(r.dir())
		r.ref.m = map[string][]byte{}
		r.ref.maps[r.cur] = r.ref.m
		return ""
	case "pathstyle":
		r.pathStyle = atoi(f[2])
		return ""
	case "zerotail": // E zerotail <bytes>: (database closed) the last <bytes> bytes of the newest data file are overwritten with zeros
		if r.db != nil {
			return "skip"
		}
		ents, _ := os.ReadDir(r.dir())
		last := ""
		for _, e := range ents {
			if strings.HasSuffix(e.Name(), datafile.DataFileSuffix) {
				last = e.Name() // ReadDir sorts by name: ids ascend
			}
		}
		n := int64(atoi(f[2]))
		st, err := os.Stat(filepath.Join(r.dir(), last))
		if last == "" || err != nil || n <= 0 || n > st.Size() {
			return "skip"
		}
		fh, err := os.OpenFile(filepath.Join(r.dir(), last), os.O_WRONLY, 0)
		if err != nil {
			return "skip"
		}
		_, _ = fh.WriteAt(make([]byte, n), st.Size()-n)
		_ = fh.Close()
		r.ref.crashed = true // what the next Open exposes is judged as after a crash: the zeroed records are gone, nothing else
		return fmt.Sprintf("ok %d", st.Size()-n)
	case "linkfile": // E linkfile <n>: (database closed) an older data file is moved to another directory and linked back
		if r.db != nil {
			return ""
		}
		ents, _ := os.ReadDir(r.dir())
		var names []string
		for _, e := range ents {
			if strings.HasSuffix(e.Name(), datafile.DataFileSuffix) && e.Type().IsRegular() {
				names = append(names, e.Name())
			}
		}
		sort.Strings(names)
		if len(names) < 2 {
			return ""
		}
		victim := names[atoi(f[2])%(len(names)-1)] // never the newest file
		cold := filepath.Join(r.Root, "cold-"+r.cur)
		if err := os.MkdirAll(cold, 0755); err != nil {
			return ""
		}
		if err := os.Rename(filepath.Join(r.dir(), victim), filepath.Join(cold, victim)); err == nil {
			_ = os.Symlink(filepath.Join(cold, victim), filepath.Join(r.dir(), victim))
		}
		return ""
	case "linkdir": // the current logical directory is a symbolic link to the real directory (before its first Open)
		p := r.dir()
		if _, err := os.Lstat(p); err == nil {
			return ""
		}
		real := p + ".real"
		if err := os.MkdirAll(real, 0755); err == nil {
			_ = os.Symlink(real, p)
		}
		return ""
	case "open":
		dp := r.dir()
		if r.pathStyle == 1 || (r.pathStyle == 2 && r.opensDone%2 == 0) {
			dp += string(os.PathSeparator) // the same directory, spelled differently
		}
		if r.pathStyle == 3 {
			dp = filepath.Dir(dp) + string(os.PathSeparator) + "." + string(os.PathSeparator) + filepath.Base(dp)
		}
		if r.pathStyle == 4 {
			dp = filepath.Dir(dp) + string(os.PathSeparator) + string(os.PathSeparator) + filepath.Base(dp)
		}
		r.opensDone++
		r.opts = parseOpts(f[2:], dp)
		r.so.reset()
		r.so.opKind = "other"
		db, err := kv.Open(r.opts)
		if err != nil {
			return "err " + EngErr(err) + r.takeEvents(false)
		}
		r.db = db
		r.sessionFirstFile, _ = db.VerifFileIDs()
		if r.ref.pending == "" {
			r.sessionFirstFile = 0
		}
		r.ref.afterOpen(r)
		return "ok" + r.takeEvents(false)
	case "hostile":
		r.hostile = f[2] == "1"
		return ""
	case "probeclose": // the next Close is probed: an Open is attempted while Close is at its first file operation
		r.probeClose = true
		return ""
	case "close":
		r.ref.beforeClose(r)
		r.so.opKind = "other"
		if r.probeClose {
			r.probeClose = false
			orig := fio.VerifEvent
			probed := false
			dir := r.dir()
			fio.VerifEvent = func(kind string, path string, data []byte, n int64) {
				if !probed {
					probed = true
					cur, curFs := fio.VerifEvent, kv.VerifFsEvent
					fio.VerifEvent, kv.VerifFsEvent = nil, nil
					o := r.opts
					o.DirPath = dir
					o.FileIOType = fio.StandardFIO
					if db2, err := kv.Open(o); err == nil {
						r.fail("C16", "an Open succeeded while Close of the same directory was still closing its files")
						_ = db2.Close()
					}
					fio.VerifEvent, kv.VerifFsEvent = cur, curFs
				}
				if orig != nil {
					orig(kind, path, data, n)
				}
			}
			defer func() { fio.VerifEvent = orig }()
		}
		if r.stuck {
			// a call never returned: Close is tried under a watchdog and the database handle is given up
			cdone := make(chan error, 1)
			db := r.db
			go func() { cdone <- db.Close() }()
			select {
			case <-cdone:
			case <-time.After(10 * time.Second):
				r.fail("C16", "Close did not return within 10 s: the directory lock is never released")
			}
			r.db = nil
			r.stuck = false
			return "err stuck"
		}
		err := r.db.Close()
		r.so.afterOp(r, "close", err == nil, true, false)
		r.db = nil
		if err != nil {
			return "err " + EngErr(err) + r.takeEvents(true)
		}
		return "ok" + r.takeEvents(true)
	case "closefail":
		// Close while one data file cannot be synced: the descriptor of that file is replaced (dup2) by the
		// read end of a pipe, on which fsync / ftruncate fail.  Everything written before is in the file, so
		// for the model this is a Close; whatever Close reports, the directory lock must be gone afterwards.
		r.ref.beforeClose(r)
		r.so.opKind = "other"
		var fds []int
		if ents, err := os.ReadDir("/proc/self/fd"); err == nil {
			for _, e := range ents {
				t, err := os.Readlink("/proc/self/fd/" + e.Name())
				if err == nil && filepath.Dir(t) == r.dir() && strings.HasSuffix(t, string(datafile.DataFileSuffix)) {
					fds = append(fds, atoi(e.Name()))
				}
			}
		}
		sort.Ints(fds)
		note := "no-data-file-descriptor"
		var pr, pw *os.File
		if len(fds) > 0 {
			victim := fds[atoi(f[2])%len(fds)]
			var err error
			if pr, pw, err = os.Pipe(); err == nil {
				if err := syscall.Dup3(int(pr.Fd()), victim, 0); err != nil {
					note = "dup3-failed"
				} else {
					note = fmt.Sprintf("descriptor-%d-of-%d-replaced", atoi(f[2])%len(fds), len(fds))
				}
			}
		}
		saved1, saved2 := fio.VerifEvent, kv.VerifFsEvent
		fio.VerifEvent, kv.VerifFsEvent = nil, nil
		err := r.db.Close()
		fio.VerifEvent, kv.VerifFsEvent = saved1, saved2
		r.db = nil
		r.events = nil
		if pr != nil {
			_ = pr.Close()
			_ = pw.Close()
		}
		if err != nil {
			note += " close-error"
		} else {
			note += " close-ok"
		}
		return "ok # " + note
	case "putfail":
		// E putfail <key> <val>: a Put whose write the operating system refuses (the descriptor of the active file is
		// replaced by a read-only one for the duration of the call).  The call must report the error and leave the
		// database as it was: the history goes on, and everything acknowledged later must survive restarts.
		// Only with standard I/O and when the record fits the active file (no rotation before the write).
		k, _ := ParseTok(f[2])
		v, _ := ParseTok(f[3])
		if r.db == nil || r.opts.FileIOType != fio.StandardFIO || len(k) == 0 ||
			r.db.VerifActiveSize()+int64(datafile.GetLogRecordDiskSize(len(k), len(v))) > r.opts.DataFileSize {
			return "skip"
		}
		var perr error
		paid, _ := r.db.VerifFileIDs()
		if !r.withRefusedWrites(datafile.GetFileName(r.dir(), paid, datafile.DataFileSuffix), func() { perr = r.db.Put(r.hk(k), r.hv(v)) }) {
			return "skip"
		}
		r.scribble()
		if perr == nil {
			r.fail("C01", "a Put whose write was refused by the operating system reported success")
			return "ok"
		}
		return "err io"
	case "put":
		k, _ := ParseTok(f[2])
		v, _ := ParseTok(f[3])
		r.so.opKind = "put"
		err := r.db.Put(r.hk(k), r.hv(v))
		r.scribble()
		r.so.afterOp(r, "put", err == nil, len(r.events) > 0, false)
		r.so.opKind = "other"
		r.ref.put(r, k, v, err)
		if err != nil {
			return "err " + EngErr(err) + r.takeEvents(false)
		}
		return "ok" + r.takeEvents(false)
	case "del":
		k, _ := ParseTok(f[2])
		r.so.opKind = "del"
		err := r.db.Delete(r.hk(k))
		r.scribble()
		r.so.afterOp(r, "del", err == nil, len(r.events) > 0, false)
		r.so.opKind = "other"
		r.ref.del(r, k, err)
		if err != nil {
			return "err " + EngErr(err) + r.takeEvents(false)
		}
		return "ok" + r.takeEvents(false)
	case "get":
		k, _ := ParseTok(f[2])
		v, err := r.db.Get(r.hk(k))
		r.scribble()
		r.ref.get(r, k, v, err)
		if err != nil {
			return "err " + EngErr(err) + r.takeEvents(false)
		}
		out := "ok " + Obs(v) + r.takeEvents(false)
		r.keep(v, "Get("+f[2]+")")
		return out
	case "dump":
		keys := r.db.ListKeys()
		d := map[string][]byte{}
		var sb strings.Builder
		for _, k := range keys {
			v, err := r.db.Get(k)
			if err != nil {
				r.fail("C01", "Get(%s) of a listed key failed: %v", Obs(k), err)
				sb.WriteString(Obs(k) + "!" + EngErr(err) + ";")
				continue
			}
			d[string(k)] = v
			sb.WriteString(Obs(k) + "=" + Obs(v) + ";")
		}
		r.ref.checkDump(r, d)
		return fmt.Sprintf("%d %s", len(keys), Md5Hex([]byte(sb.String()))) + r.takeEvents(false)
	case "list":
		keys := r.db.ListKeys()
		for _, k := range keys {
			fillSpare(k) // appending to one listed key must not reach another
		}
		r.ref.list(r, keys)
		return keysDigest(keys) + r.takeEvents(false)
	case "fold":
		var sb strings.Builder
		n := 0
		var got [][2][]byte
		err := r.db.Fold(func(k, v []byte) bool {
			sb.WriteString(Obs(k) + "=" + Obs(v) + ";")
			got = append(got, [2][]byte{append([]byte(nil), k...), append([]byte(nil), v...)})
			n++
			return true
		})
		if err != nil {
			return "err " + EngErr(err) + r.takeEvents(false)
		}
		r.ref.fold(r, got)
		return fmt.Sprintf("ok %d %s", n, Md5Hex([]byte(sb.String()))) + r.takeEvents(false)
	case "foldn": // E foldn <n>: Fold whose callback returns false at its n-th invocation
		stop := atoi(f[2])
		var sb strings.Builder
		n := 0
		want := r.ref.sortedKeys()
		err := r.db.Fold(func(k, v []byte) bool {
			if n < len(want) && (string(k) != want[n] || !bytes.Equal(v, r.ref.m[want[n]])) {
				r.fail("C10", "Fold delivered %s=%s as item %d, the snapshot has %s there", Obs(k), Obs(v), n+1, Obs([]byte(want[n])))
			}
			sb.WriteString(Obs(k) + "=" + Obs(v) + ";")
			n++
			return n < stop
		})
		if err != nil {
			return "err " + EngErr(err) + r.takeEvents(false)
		}
		if exp := min(max(stop, 1), len(want)); n != exp {
			r.fail("C10", "a Fold stopped by its callback at item %d of %d delivered %d items", stop, len(want), n)
		}
		return fmt.Sprintf("ok %d %s", n, Md5Hex([]byte(sb.String()))) + r.takeEvents(false)
	case "foldw": // E foldw <at> <w>... : Fold whose callback, at its invocation number <at>, writes (p,key,val / d,key)
		at := atoi(f[2])
		want := r.ref.sortedKeys()
		wantV := map[string][]byte{}
		for _, k := range want {
			wantV[k] = r.ref.m[k]
		}
		var wres []string
		done := false
		writes := func() {
			done = true
			for _, w := range f[3:] {
				p := strings.Split(w, ",")
				k, _ := ParseTok(p[1])
				var err error
				if p[0] == "p" {
					v, _ := ParseTok(p[2])
					err = r.db.Put(k, v)
					r.ref.put(r, k, v, err)
				} else {
					err = r.db.Delete(k)
					r.ref.del(r, k, err)
				}
				if err != nil {
					wres = append(wres, "err:"+EngErr(err))
				} else {
					wres = append(wres, "ok")
				}
			}
		}
		var sb strings.Builder
		n := 0
		var got [][2][]byte
		err := r.db.Fold(func(k, v []byte) bool {
			sb.WriteString(Obs(k) + "=" + Obs(v) + ";")
			got = append(got, [2][]byte{append([]byte(nil), k...), append([]byte(nil), v...)})
			if n == at {
				writes()
			}
			n++
			return true
		})
		if !done {
			writes()
		}
		if err != nil {
			return "err " + EngErr(err) + r.takeEvents(false)
		}
		// the snapshot taken when Fold began is what must have been visited
		if len(got) != len(want) {
			r.fail("C10", "Fold (callback writes at item %d) visited %d keys, the map had %d when it began", at, len(got), len(want))
		} else {
			for i := range want {
				if string(got[i][0]) != want[i] || !bytes.Equal(got[i][1], wantV[want[i]]) {
					r.fail("C10", "Fold (callback writes at item %d) item %d = (%s,%s), expected (%s,%s)", at, i, Obs(got[i][0]), Obs(got[i][1]), Obs([]byte(want[i])), Obs(wantV[want[i]]))
					break
				}
			}
		}
		return fmt.Sprintf("ok %d %s w=%s", n, Md5Hex([]byte(sb.String())), strings.Join(wres, ",")) + r.takeEvents(false)
	case "stat":
		st := r.db.Stat()
		r.ref.stat(r, st)
		return fmt.Sprintf("%d %d %d %d", st.KeyNum, st.DataFileNum, st.ReclaimableSize, st.DiskSize) + r.takeEvents(false)
	case "sync":
		err := r.db.Sync()
		r.so.afterOp(r, "sync", err == nil, true, false)
		if err != nil {
			return "err " + EngErr(err) + r.takeEvents(false)
		}
		return "ok" + r.takeEvents(false)
	case "padto":
		// E padto <d> <key> <seed>: a Put whose value length is chosen so that the active file then ends exactly <d>
		// bytes before the next block boundary (whatever is written next starts there).  The length is computed
		// from the file's logical size and reported: an input of the model, like a batch id.
		{
			d := atoi(f[2])
			k, _ := ParseTok(f[3])
			size := int(r.db.VerifActiveSize())
			vlen := -1
			for v := 1; v < 2*bs; v++ {
				st := &fileState{off: size % bs}
				st.advance(encLen(len(k), v, 0))
				if (bs-st.off%bs)%bs == d%bs && st.off%bs != 0 {
					vlen = v
					break
				}
			}
			if vlen < 0 {
				return "err nolength"
			}
			v := GenBytes(vlen, atou(f[4]))
			err := r.db.Put(k, v)
			r.ref.put(r, k, v, err)
			if err != nil {
				return "err " + EngErr(err) + r.takeEvents(false)
			}
			return fmt.Sprintf("ok %d", vlen) + r.takeEvents(false)
		}
	case "bpadto":
		// E bpadto <d> <key> <seed>: the first Put of the open batch, its value length chosen so that - when the batch is flushed
		// into the active file as it stood when the batch began - the record ends exactly <d> bytes before the next block
		// boundary: the next record of the same flush starts in the unusable tail of a block.  The length is reported
		// (an input of the model).
		{
			d := atoi(f[2])
			k, _ := ParseTok(f[3])
			size := int(r.batchStartSize)
			vlen := -1
			for v := 1; v < 2*bs; v++ {
				st := &fileState{off: size % bs}
				st.advance(encLen(len(k), v, r.batch.VerifBatchID()))
				if (bs-st.off%bs)%bs == d%bs && st.off%bs != 0 {
					vlen = v
					break
				}
			}
			if vlen < 0 {
				return "err nolength"
			}
			v := GenBytes(vlen, atou(f[4]))
			err := r.batch.Put(k, v)
			r.ref.bput(r, k, v, err)
			if err != nil {
				return "err " + EngErr(err) + r.takeEvents(false)
			}
			return fmt.Sprintf("ok %d", vlen) + r.takeEvents(false)
		}
	case "bold":
		// E bold p|d|g|c <key> <val>: a call through the handle of the PREVIOUS (committed) batch while a newer batch
		// may be open: it must be rejected as committed and change nothing (the handle of a committed batch
		// never comes back to life, whatever the engine recycles internally)
		if r.oldBatch == nil {
			return "err committed"
		}
		k, _ := ParseTok(f[3])
		var err error
		switch f[2] {
		case "p":
			v, _ := ParseTok(f[4])
			err = r.oldBatch.Put(k, v)
		case "d":
			err = r.oldBatch.Delete(k)
		case "g":
			_, err = r.oldBatch.Get(k)
		default:
			err = r.oldBatch.Commit()
		}
		if !errors.Is(err, kv.ErrBatchCommitted) {
			r.fail("C05", "a call (%s) through the handle of an earlier, committed batch returned %v instead of the batch-committed error", f[2], err)
		}
		if err != nil {
			return "err " + EngErr(err)
		}
		return "ok"
	case "batch":
		if r.batch != nil && r.ref.batchCommitted {
			r.oldBatch = r.batch
		}
		r.batchSync = f[2] == "1"
		r.so.opKind = "batch"
		r.batchStartSize = r.db.VerifActiveSize()
		r.batch = r.db.NewBatch(kv.BatchOptions{Sync: f[2] == "1"})
		r.lastBatch = time.Now()
		r.ref.batchBegin(f[2] == "1")
		return fmt.Sprintf("%d", r.batch.VerifBatchID())
	case "bput":
		k, _ := ParseTok(f[2])
		v, _ := ParseTok(f[3])
		err := r.batch.Put(r.hk(k), r.hv(v))
		r.scribble()
		r.ref.bput(r, k, v, err)
		if err != nil {
			return "err " + EngErr(err) + r.takeEvents(false)
		}
		return "ok" + r.takeEvents(false)
	case "bracers": // E bracers <prefix> <n> <val>: for n fresh keys, two goroutines Put the same key and value into the
		// open batch at the same moment; then the key is deleted through the batch.  Sequentially: put, put, delete.
		pre, _ := ParseTok(f[2])
		n := atoi(f[3])
		v, _ := ParseTok(f[4])
		firstErr := ""
		for i := 0; i < n; i++ {
			k := append(append([]byte(nil), pre...), byte(i>>8), byte(i))
			var wg sync.WaitGroup
			start := make(chan struct{})
			errs := make([]error, 2)
			for g := 0; g < 2; g++ {
				wg.Add(1)
				go func(g int) {
					defer wg.Done()
					<-start
					errs[g] = r.batch.Put(append([]byte(nil), k...), append([]byte(nil), v...))
				}(g)
			}
			close(start)
			wg.Wait()
			r.ref.bput(r, k, v, errs[0])
			r.ref.bput(r, k, v, errs[1])
			err := r.batch.Delete(k)
			r.ref.bdel(r, k, err)
			for _, e := range []error{errs[0], errs[1], err} {
				if e != nil && firstErr == "" {
					firstErr = EngErr(e)
				}
			}
		}
		if firstErr != "" {
			return "err " + firstErr + r.takeEvents(false)
		}
		return "ok" + r.takeEvents(false)
	case "bputfail", "bputsyncfail": // E bputsyncfail <key> <val>: like bputfail, but what the operating system refuses is the first fsync
		// that follows a write of this call (the Sync of the rotation after a successful overflow flush; batches without the Sync
		// option only): the pieces are in the file and in the index, the rotation did not happen, the call reports the error.
		// E bputfail <key> <val>: a Batch.Put during which the operating system refuses the first write to a data file
		// (the write of an overflow flush; standard I/O only - otherwise, and when the call writes nothing, an ordinary Put).
		// The call reports the error; what was staged before stays staged and readable through the batch, and Commit applies it.
		{
			k, _ := ParseTok(f[2])
			v, _ := ParseTok(f[3])
			h1, h2 := fio.VerifEvent, kv.VerifFsEvent
			victim, saved := -1, -1
			var ro *os.File
			if r.opts.FileIOType == fio.StandardFIO {
				wantKind := "write"
				wrote := false
				if f[1] == "bputsyncfail" {
					wantKind = "sync"
				}
				fio.VerifEvent = func(kind, path string, data []byte, n int64) {
					if kind == "write" && strings.HasSuffix(path, string(datafile.DataFileSuffix)) {
						if wantKind == "sync" {
							wrote = true
						}
					}
					if kind != wantKind || victim >= 0 || !strings.HasSuffix(path, string(datafile.DataFileSuffix)) || (wantKind == "sync" && !wrote) {
						// everything but the refused write happens and is seen by the oracles (the Sync and the new file of a rotation)
						if h1 != nil {
							h1(kind, path, data, n)
						}
						return
					}
					ents, err := os.ReadDir("/proc/self/fd")
					if err != nil {
						return
					}
					for _, e := range ents {
						if t, err := os.Readlink("/proc/self/fd/" + e.Name()); err == nil && (t == path || t == filepath.Clean(path) || t == evalPath(path)) {
							fd := atoi(e.Name())
							s, err := syscall.Dup(fd)
							if err != nil {
								return
							}
							nul, err := os.Open(os.DevNull)
							if err != nil {
								_ = syscall.Close(s)
								return
							}
							if err := syscall.Dup3(int(nul.Fd()), fd, 0); err != nil {
								_ = nul.Close()
								_ = syscall.Close(s)
								return
							}
							victim, saved, ro = fd, s, nul
							return
						}
					}
				}
			}
			err := r.batch.Put(r.hk(k), r.hv(v))
			fio.VerifEvent, kv.VerifFsEvent = h1, h2
			if victim >= 0 {
				_ = syscall.Dup3(saved, victim, 0)
				_ = syscall.Close(saved)
				_ = ro.Close()
			}
			r.scribble()
			r.events = nil
			if victim >= 0 && f[1] == "bputsyncfail" && r.ref.batchStart < 0 {
				// pieces of the batch are in the file and in the index now: for the oracles the batch has begun to take effect
				r.ref.batchStart = r.opStart
			}
			if victim >= 0 {
				if err == nil {
					r.fail("C05", "a Batch.Put whose overflow flush was refused by the operating system reported success")
					r.ref.bput(r, k, v, nil)
					return "ok"
				}
				return "err io"
			}
			r.ref.bput(r, k, v, err)
			if err != nil {
				return "err " + EngErr(err)
			}
			return "ok"
		}
	case "bgetrace": // E bgetrace <key> <n> <len>: one goroutine Puts the key n times through the open batch, the values alternating
		// between <len> bytes 'A' and <len> bytes 'B'; a second goroutine reads the key through the batch all the while.  Every
		// value read is one of the two, whole (or what the key held before).  Sequentially: the n Puts in order.
		{
			k, _ := ParseTok(f[2])
			n, ln := atoi(f[3]), atoi(f[4])
			pat := [2][]byte{bytes.Repeat([]byte{'A'}, ln), bytes.Repeat([]byte{'B'}, ln)}
			before, berr := r.batch.Get(k)
			var wg sync.WaitGroup
			done := make(chan struct{})
			errs := make([]error, n)
			bad := ""
			wg.Add(2)
			go func() {
				defer wg.Done()
				defer close(done)
				for i := 0; i < n; i++ {
					errs[i] = r.batch.Put(append([]byte(nil), k...), append([]byte(nil), pat[i%2]...))
				}
			}()
			go func() {
				defer wg.Done()
				for {
					select {
					case <-done:
						return
					default:
					}
					v, err := r.batch.Get(k)
					if err != nil {
						if berr == nil && bad == "" {
							bad = fmt.Sprintf("Batch.Get failed (%v) although the key was readable before", err)
						}
						continue
					}
					if !bytes.Equal(v, pat[0]) && !bytes.Equal(v, pat[1]) && !(berr == nil && bytes.Equal(v, before)) && bad == "" {
						bad = fmt.Sprintf("Batch.Get returned %d bytes that are none of the values ever put (%s)", len(v), Obs(v))
					}
				}
			}()
			wg.Wait()
			if bad != "" {
				r.fail("C05", "a Batch.Get racing with Batch.Put of the same key through one batch: %s", bad)
			}
			firstErr := ""
			for i := 0; i < n; i++ {
				r.ref.bput(r, k, pat[i%2], errs[i])
				if errs[i] != nil && firstErr == "" {
					firstErr = EngErr(errs[i])
				}
			}
			if firstErr != "" {
				return "err " + firstErr + r.takeEvents(false)
			}
			return "ok" + r.takeEvents(false)
		}
	case "bdel":
		k, _ := ParseTok(f[2])
		err := r.batch.Delete(r.hk(k))
		r.scribble()
		r.ref.bdel(r, k, err)
		if err != nil {
			return "err " + EngErr(err) + r.takeEvents(false)
		}
		return "ok" + r.takeEvents(false)
	case "bget":
		k, _ := ParseTok(f[2])
		v, err := r.batch.Get(r.hk(k))
		r.scribble()
		r.ref.bget(r, k, v, err)
		if err != nil {
			return "err " + EngErr(err) + r.takeEvents(false)
		}
		out := "ok " + Obs(v) + r.takeEvents(false)
		r.keep(v, "Batch.Get("+f[2]+")")
		return out
	case "orphanbatch":
		return r.orphanBatch(atoi(f[2]))
	case "closenoflush": // E closenoflush: Close while the operating system refuses to flush the active file (its descriptor is
		// replaced for the duration of the call; fsync of it fails).  "Close flushes everything written so far": a Close that
		// could not flush must not report success.  Standard I/O; the handle is abandoned afterwards (last operation).
		{
			if r.db == nil || r.opts.FileIOType != fio.StandardFIO {
				return "skip"
			}
			aid, older := r.db.VerifFileIDs()
			var cerr error
			if !r.withRefusedWrites(datafile.GetFileName(r.dir(), aid, datafile.DataFileSuffix), func() { cerr = r.db.Close() }) {
				return "skip"
			}
			r.db = nil
			r.batch = nil
			if cerr == nil {
				r.fail("C13", "Close reported success although the flush of the active file was refused by the operating system (%d older files)", len(older))
				return "ok"
			}
			return "err io"
		}
	case "holebatch":
		return r.holeBatch(atoi(f[2]), atoi(f[3]))
	case "commitfail":
		// E commitfail: the Commit of the open batch while the operating system refuses every write to the active file.
		// The call must report the error, nothing of the batch may become visible, the batch is finished, and the
		// database goes on: later batches commit as usual.  Only with standard I/O, when the batch holds records,
		// nothing of it was flushed before and no rotation precedes its write.
		{
			if r.db == nil || r.batch == nil || r.ref.batchCommitted || r.opts.FileIOType != fio.StandardFIO || len(r.ref.bm) == 0 || r.ref.batchStart >= 0 {
				return "skip"
			}
			need := int64(128)
			puts := 0
			for k, pv := range r.ref.bm {
				n := 0
				if pv != nil {
					n = len(*pv)
					puts++ // a staged Put is certainly a record of the batch (a Delete of an absent key is not)
				}
				need += 2 * int64(datafile.GetLogRecordDiskSize(len(k), n)+32)
			}
			// the batch holds the database lock: the size of the active file is read from the file system (standard I/O
			// writes through), its id is the highest one in the directory
			var asize int64 = -1
			var amax uint32
			if ents, err := os.ReadDir(r.dir()); err == nil {
				for _, e := range ents {
					var id uint32
					if n, _ := fmt.Sscanf(e.Name(), "%d", &id); n == 1 && strings.HasSuffix(e.Name(), string(datafile.DataFileSuffix)) && (asize < 0 || id >= amax) {
						if st, err := e.Info(); err == nil {
							amax, asize = id, st.Size()
						}
					}
				}
			}
			if asize < 0 || puts == 0 || asize+need > r.opts.DataFileSize {
				return "skip"
			}
			var cerr error
			if !r.withRefusedWrites(datafile.GetFileName(r.dir(), amax, datafile.DataFileSuffix), func() { cerr = r.batch.Commit() }) {
				return "skip"
			}
			r.so.opKind = "other"
			r.ref.batchCommitted = true
			r.ref.inBatch = false
			if cerr == nil {
				r.fail("C04", "a Commit whose write was refused by the operating system reported success")
				return "ok"
			}
			return "err io"
		}
	case "commit":
		if r.ref.batchCommitted {
			// a second Commit must be rejected without touching the database lock; run it
			// only when the first one was already observed, so a buggy double unlock is a
			// recovered panic / fatal error of this scenario alone
		}
		first := !r.ref.batchCommitted
		err := r.batch.Commit()
		if first {
			r.so.afterOp(r, "commit", err == nil, len(r.events) > 0, r.batchSync)
		}
		r.so.opKind = "other"
		r.ref.commit(r, err)
		if err != nil {
			return "err " + EngErr(err) + r.takeEvents(false)
		}
		return "ok" + r.takeEvents(false)
	case "merge":
		// the order in which the engine happens to iterate its map of older files is an
		// input of the model (hook H5)
		r.mergeSeen = nil
		r.installMergeHook()
		err := r.db.Merge()
		var ids []string
		for _, id := range r.mergeSeen {
			ids = append(ids, fmt.Sprintf("%d", id))
		}
		r.ref.merge(r, err)
		s := "ok"
		if err != nil {
			s = "err " + EngErr(err)
		}
		return s + " order " + strings.Join(ids, ",") + r.takeEvents(false)
	case "mergeclose":
		// E mergeclose <n>: the database is closed while a Merge is between two records of its scan (parked after
		// <n> scan steps).  Whatever the interrupted merge reports and leaves behind, it must not become
		// adoptable: the next Open - and the one after it - recover exactly the mapping.  Judged against the
		// reference mapping; the database is left closed (last operation of a scenario).
		{
			saved1, saved2, saved3 := fio.VerifEvent, kv.VerifFsEvent, kv.VerifMergeFile
			fio.VerifEvent, kv.VerifFsEvent, kv.VerifMergeFile = nil, nil, nil
			defer func() { fio.VerifEvent, kv.VerifFsEvent, kv.VerifMergeFile = saved1, saved2, saved3 }()
			at := atoi(f[2])
			parked, release, done := make(chan struct{}), make(chan struct{}), make(chan error, 1)
			var once sync.Once
			mergeG := int64(-1)
			steps := 0
			kv.VerifSched = func(label string) {
				if label == "merge.scan" && goid() == mergeG {
					if steps == at {
						once.Do(func() { close(parked); <-release })
					}
					steps++
				}
			}
			db := r.db
			go func() { mergeG = goid(); done <- db.Merge() }()
			note := "closed-during-scan"
			select {
			case <-done:
				note = "merge-finished-before-step"
			case <-parked:
				cerr := r.db.Close()
				close(release)
				select {
				case <-done:
				case <-time.After(20 * time.Second):
					r.fail("C09", "Merge had not returned 20 s after the database was closed under it")
				}
				if cerr != nil {
					note += " close-error"
				}
			case <-time.After(20 * time.Second):
				r.fail("C09", "Merge did not reach its scan within 20 s")
				close(release)
			}
			kv.VerifSched = nil
			if note == "merge-finished-before-step" {
				_ = r.db.Close()
			}
			r.db = nil
			r.events = nil
			for round := 1; round <= 2; round++ {
				db2, err := kv.Open(r.opts)
				if err != nil {
					r.fail("C06", "Open %d after a Close that interrupted a Merge scan: %v", round, err)
					break
				}
				if n := len(db2.ListKeys()); n != len(r.ref.m) {
					r.fail("C06", "Open %d after a Close that interrupted a Merge scan (%s): %d keys, the mapping has %d (a partial merge output was adopted)", round, note, n, len(r.ref.m))
				}
				for k, want := range r.ref.m {
					if k == "" {
						continue
					}
					if v, err := db2.Get([]byte(k)); err != nil || !bytes.Equal(v, want) {
						r.fail("C06", "Open %d after a Close that interrupted a Merge scan (%s): Get(%s) = %s, %v; the mapping holds %s", round, note, Obs([]byte(k)), Obs(v), err, Obs(want))
						break
					}
				}
				_ = db2.Close()
			}
			return "done # " + note
		}
	case "mergebatchcrash":
		// E mergebatchcrash <nkeys> <vlen> <seed>: a Merge is parked at the first step of its scan; another client
		// opens a batch that overwrites live keys and is large enough to flush pieces before Commit; the merge
		// goes on.  Then "the process dies" before Commit: the directory as it is (with the merge directory) is
		// opened - the batch must be invisible and every key must still have its value (C04, C07).  After
		// that the batch commits, the merge finishes, the database is closed and opened again: the committed
		// batch is there.  Everything is judged against the reference mapping; the database is left closed
		// (last operation of a scenario; for the model this is nothing).
		{
			saved1, saved2, saved3 := fio.VerifEvent, kv.VerifFsEvent, kv.VerifMergeFile
			fio.VerifEvent, kv.VerifFsEvent, kv.VerifMergeFile = nil, nil, nil
			defer func() { fio.VerifEvent, kv.VerifFsEvent, kv.VerifMergeFile = saved1, saved2, saved3 }()
			nkeys, vlen, rng := atoi(f[2]), atoi(f[3]), NewRng(atou(f[4]))
			parked, release, done := make(chan struct{}), make(chan struct{}), make(chan error, 1)
			var once sync.Once
			mergeG := int64(-1)
			kv.VerifSched = func(label string) {
				if label == "merge.scan" && goid() == mergeG {
					once.Do(func() { close(parked); <-release })
				}
			}
			db := r.db
			go func() { mergeG = goid(); done <- db.Merge() }()
			finish := func(note string) string {
				kv.VerifSched = nil
				_ = r.db.Close()
				r.db = nil
				r.events = nil
				return "done # " + note
			}
			select {
			case err := <-done:
				r.ref.merge(r, err)
				return finish("nothing-to-scan")
			case <-parked:
			case <-time.After(20 * time.Second):
				r.fail("C09", "Merge did not reach its scan within 20 s")
				close(release)
				<-done
				return finish("stuck")
			}
			before := map[string][]byte{}
			for k, v := range r.ref.m {
				before[k] = v
			}
			liveKeys := r.ref.sortedKeys()
			b := r.db.NewBatch(kv.BatchOptions{Sync: rng.Chance(1, 2)})
			type kvp struct{ k, v []byte }
			var writes []kvp
			for i := 0; i < nkeys; i++ {
				var k []byte
				if i < len(liveKeys) && liveKeys[i] != "" {
					k = []byte(liveKeys[i]) // overwrite (or, every fourth, delete) a live key
				} else {
					k = []byte(fmt.Sprintf("mb%03d", i))
				}
				if i%4 == 3 {
					if err := b.Delete(k); err == nil {
						writes = append(writes, kvp{k, nil})
					}
					continue
				}
				v := GenBytes(vlen, uint64(rng.Intn(1<<30)))
				if err := b.Put(k, v); err != nil {
					r.fail("C05", "Batch.Put inside mergebatchcrash: %v", err)
				} else {
					writes = append(writes, kvp{k, v})
				}
			}
			close(release)
			// the merge runs on; it either finishes its output (marker) or waits for the batch
			marker := filepath.Join(r.mergeDir(), "000000000.merge-finished")
			markerSeen := false
			for i := 0; i < 40; i++ {
				if st, err := os.Stat(marker); err == nil && st.Size() >= 4 {
					markerSeen = true
					break
				}
				time.Sleep(5 * time.Millisecond)
			}
			if markerSeen {
				time.Sleep(20 * time.Millisecond)
			}
			// the process dies here, before Commit
			img, err := os.MkdirTemp(r.Root, "mbc")
			if err == nil {
				_ = utils.CopyDir(r.dir(), filepath.Join(img, "db"), []string{".lock"})
				if _, e := os.Stat(r.mergeDir()); e == nil {
					_ = utils.CopyDir(r.mergeDir(), filepath.Join(img, "db-merge"), nil)
				}
				o2 := r.opts
				o2.DirPath = filepath.Join(img, "db")
				if db2, err := kv.Open(o2); err != nil {
					r.fail("C04", "crash before Commit of a batch that was open while Merge scanned: the directory does not open: %v", err)
				} else {
					keys := db2.ListKeys()
					if len(keys) != len(before) {
						r.fail("C04", "crash before Commit of a batch that was open while Merge scanned (marker written: %v): %d keys recovered, the mapping before the batch had %d", markerSeen, len(keys), len(before))
					}
					for k, want := range before {
						if k == "" {
							continue
						}
						v, err := db2.Get([]byte(k))
						if err != nil {
							r.fail("C04", "crash before Commit of a batch that was open while Merge scanned (marker written: %v): key %s is lost (%v); neither the uncommitted batch nor the merge may take its value %s away", markerSeen, Obs([]byte(k)), err, Obs(want))
							if markerSeen {
								// the same loss, in the words of C06: the adopted merge changed what a key maps to
								r.fail("C06", "a Merge that finished while a batch was open (pieces flushed, never committed), adopted by the restart after a crash: key %s, which held %s before the batch, is gone", Obs([]byte(k)), Obs(want))
							}
							break
						} else if !bytes.Equal(v, want) {
							r.fail("C04", "crash before Commit of a batch that was open while Merge scanned: key %s = %s, before the batch it was %s", Obs([]byte(k)), Obs(v), Obs(want))
							break
						}
					}
					_ = db2.Close()
				}
				_ = os.RemoveAll(img)
			}
			// the other history: the batch commits, the merge finishes, restart
			cerr := b.Commit()
			if cerr == nil {
				for _, w := range writes {
					if w.v == nil {
						delete(r.ref.m, string(w.k))
					} else {
						r.ref.m[string(w.k)] = w.v
					}
				}
			}
			var merr error
			select {
			case merr = <-done:
			case <-time.After(20 * time.Second):
				r.fail("C09", "Merge had not returned 20 s after the batch committed")
			}
			kv.VerifSched = nil
			check := func(d *kv.DB, when string) {
				if n := len(d.ListKeys()); n != len(r.ref.m) {
					r.fail("C04", "%s: %d keys, the mapping has %d", when, n, len(r.ref.m))
				}
				for k, want := range r.ref.m {
					if k == "" {
						continue
					}
					if v, err := d.Get([]byte(k)); err != nil || !bytes.Equal(v, want) {
						r.fail("C04", "%s: Get(%s) = %s, %v; the mapping holds %s", when, Obs([]byte(k)), Obs(v), err, Obs(want))
						break
					}
				}
			}
			check(r.db, "after Commit of the batch and the end of the merge")
			_ = r.db.Close()
			r.db = nil
			r.events = nil
			o3 := r.opts
			if db3, err := kv.Open(o3); err != nil {
				r.fail("C07", "restart after a merge that ran while a batch was open: %v", err)
			} else {
				check(db3, "after the restart that adopts the merge")
				_ = db3.Close()
			}
			return fmt.Sprintf("done # marker_before_commit=%v commit_err=%v merge_err=%v writes=%d", markerSeen, cerr, merr, len(writes))
		}
	case "mergeget":
		// a Merge during which another client reads: at every file operation, directory operation and scan
		// step of the merge a Get is issued from a second goroutine.  No mutation runs, so every Get that
		// returns - during the merge or, having waited for the engine lock, after it - must answer exactly
		// what the mapping holds.  For the model this is one Merge.
		r.mergeSeen = nil
		r.installMergeHook()
		err, probes, answeredDuring := r.withReadProbes("Merge", func() error { return r.db.Merge() })
		var ids []string
		for _, id := range r.mergeSeen {
			ids = append(ids, fmt.Sprintf("%d", id))
		}
		r.ref.merge(r, err)
		s := "ok"
		if err != nil {
			s = "err " + EngErr(err)
		}
		return s + " order " + strings.Join(ids, ",") + r.takeEvents(false) + fmt.Sprintf(" # probes=%d answered_during=%d", probes, answeredDuring)
	case "backupget":
		// a Backup during which another client reads (Gets issued at every file operation of the backup from a
		// second goroutine); then the source goes on.  For the model this is one Backup.
		{
			dst := filepath.Join(r.Root, f[2])
			r.dirs[f[2]] = dst
			err, probes, answeredDuring := r.withReadProbes("Backup", func() error { return r.db.Backup(dst) })
			r.ref.backup(r, f[2])
			if err != nil {
				return "err " + EngErr(err) + r.takeEvents(true)
			}
			// the probing Gets re-establish the mappings of the files they read (memory-mapped I/O): the keys
			// they asked for are part of the observation, the model reads them after its Backup
			var ks []string
			for i := 0; i < probes && i < len(r.probedKeys); i++ {
				ks = append(ks, HexTok(r.probedKeys[i]))
			}
			r.events = nil
			return "ok keys=" + strings.Join(ks, ",") + fmt.Sprintf(" # probes=%d answered_during=%d", probes, answeredDuring)
		}
	case "mergebusy":
		// a Merge that is probed while it runs: parked at its first scan step, two more Merge calls must both
		// be refused (the running merge owns the merge directory until it returns); then it is released.
		// For the model this is one Merge.
		r.mergeSeen = nil
		r.installMergeHook()
		parked, release, done := make(chan struct{}), make(chan struct{}), make(chan error, 1)
		var once sync.Once
		mergeG := int64(-1)
		kv.VerifSched = func(label string) {
			if label == "merge.scan" && goid() == mergeG {
				once.Do(func() { close(parked); <-release })
			}
		}
		go func() { mergeG = goid(); done <- r.db.Merge() }()
		var err error
		select {
		case err = <-done: // nothing to scan: no probe
		case <-parked:
			for i := 1; i <= 2 && !r.stuck; i++ {
				probe := make(chan error, 1)
				db := r.db
				go func() { probe <- db.Merge() }()
				select {
				case e2 := <-probe:
					if !errors.Is(e2, kv.ErrMergeIsProgress) {
						r.fail("C07", "Merge call %d issued while another Merge was running returned %v instead of the merge-in-progress error (two merges share one output directory)", i, e2)
					}
				case <-time.After(10 * time.Second):
					r.fail("C16", "Merge call %d issued while another Merge was running never returned: an earlier call left the engine lock held, Close can never release the directory", i)
					r.stuck = true
				}
			}
			close(release)
			select {
			case err = <-done:
			case <-time.After(15 * time.Second):
				r.fail("C16", "the Merge that was probed by two more Merge calls never returned: the engine lock was left held, Close can never release the directory")
				r.stuck = true
				err = errors.New("stuck")
			}
		case <-time.After(20 * time.Second):
			r.fail("C09", "Merge did not reach its scan within 20 s")
			close(release)
			err = <-done
		}
		kv.VerifSched = nil
		var ids []string
		for _, id := range r.mergeSeen {
			ids = append(ids, fmt.Sprintf("%d", id))
		}
		r.ref.merge(r, err)
		s := "ok"
		if err != nil {
			s = "err " + EngErr(err)
		}
		return s + " order " + strings.Join(ids, ",") + r.takeEvents(false)
	case "mergei":
		// E mergei <pro>|<slot>|<slot>...   each a ';'-list of p,<key>,<val> / d,<key> ("-" = nothing):
		// Put / Delete calls of another client that run after Merge released the engine lock and before
		// the scan starts (pro), and right before the scan looks up its i-th record (slots)
		parts := strings.Split(f[2], "|")
		runOps := func(spec string) {
			if spec == "-" || spec == "" {
				return
			}
			for _, o := range strings.Split(spec, ";") {
				x := strings.Split(o, ",")
				k, _ := ParseTok(x[1])
				if x[0] == "p" {
					v, _ := ParseTok(x[2])
					err := r.db.Put(k, v)
					r.ref.put(r, k, v, err)
				} else {
					err := r.db.Delete(k)
					r.ref.del(r, k, err)
				}
			}
		}
		r.mergeSeen = nil
		r.installMergeHook()
		slot := 1
		savedFs := kv.VerifFsEvent
		kv.VerifFsEvent = func(kind string, a string, b string) {
			if savedFs != nil {
				savedFs(kind, a, b)
			}
			if kind == "mkdir" && a == r.mergeDir() {
				runOps(parts[0])
			}
		}
		kv.VerifSched = func(label string) {
			if label == "merge.scan" {
				if slot < len(parts) {
					runOps(parts[slot])
				}
				slot++
			}
		}
		err := r.db.Merge()
		kv.VerifSched = nil
		kv.VerifFsEvent = savedFs
		var ids []string
		for _, id := range r.mergeSeen {
			ids = append(ids, fmt.Sprintf("%d", id))
		}
		r.ref.merge(r, err)
		s := "ok"
		if err != nil {
			s = "err " + EngErr(err)
		}
		return s + " order " + strings.Join(ids, ",") + r.takeEvents(false)
	case "mergew":
		// E mergew <pro>|<w1>|<w2>...: like mergei, but the other client's calls run when Merge is about to
		// write its 1st, 2nd ... rewritten record into the merge directory - after that record was found live
		// and before its hint entry is written.  The result names the slots as they fell for the model.
		parts := strings.Split(f[2], "|")
		specOf := func(i int) string {
			if i < len(parts) && parts[i] != "" {
				return parts[i]
			}
			return "-"
		}
		runOps := func(spec string) {
			if spec == "-" || spec == "" {
				return
			}
			for _, o := range strings.Split(spec, ";") {
				x := strings.Split(o, ",")
				k, _ := ParseTok(x[1])
				if x[0] == "p" {
					v, _ := ParseTok(x[2])
					err := r.db.Put(k, v)
					r.ref.put(r, k, v, err)
				} else {
					err := r.db.Delete(k)
					r.ref.del(r, k, err)
				}
			}
		}
		r.mergeSeen = nil
		r.installMergeHook()
		scanned, writes := 0, 0
		slots := map[int][]string{} // model slot (1-based: before the i-th lookup) -> calls
		savedFs, savedEv := kv.VerifFsEvent, fio.VerifEvent
		kv.VerifFsEvent = func(kind string, a string, b string) {
			if savedFs != nil {
				savedFs(kind, a, b)
			}
			if kind == "mkdir" && a == r.mergeDir() {
				runOps(specOf(0))
			}
		}
		inRace := false
		fio.VerifEvent = func(kind string, path string, data []byte, n int64) {
			if savedEv != nil {
				savedEv(kind, path, data, n)
			}
			if kind == "write" && !inRace && filepath.Dir(path) == r.mergeDir() && strings.HasSuffix(path, string(datafile.DataFileSuffix)) {
				writes++
				if sp := specOf(writes); sp != "-" {
					inRace = true
					runOps(sp)
					inRace = false
					slots[scanned+1] = append(slots[scanned+1], sp)
				}
			}
		}
		kv.VerifSched = func(label string) {
			if label == "merge.scan" {
				scanned++
			}
		}
		err := r.db.Merge()
		kv.VerifSched = nil
		kv.VerifFsEvent, fio.VerifEvent = savedFs, savedEv
		var ids []string
		for _, id := range r.mergeSeen {
			ids = append(ids, fmt.Sprintf("%d", id))
		}
		r.ref.merge(r, err)
		eff := []string{specOf(0)}
		for i := 1; i <= scanned; i++ {
			if len(slots[i]) == 0 {
				eff = append(eff, "-")
			} else {
				eff = append(eff, strings.Join(slots[i], ";"))
			}
		}
		post := "-"
		if len(slots[scanned+1]) > 0 {
			post = strings.Join(slots[scanned+1], ";")
		}
		s := "ok"
		if err != nil {
			s = "err " + EngErr(err)
		}
		return s + " order " + strings.Join(ids, ",") + " eff " + strings.Join(eff, "|") + " post " + post + r.takeEvents(false)
	case "backup":
		dst := filepath.Join(r.Root, f[2])
		r.dirs[f[2]] = dst
		if len(f) > 3 {
			// the same directory, spelled differently by the caller of Backup
			sep := string(os.PathSeparator)
			switch atoi(f[3]) {
			case 1:
				dst += sep
			case 2:
				dst = r.Root + sep + "." + sep + f[2]
			case 3:
				dst = r.Root + sep + sep + f[2]
			}
		}
		err := r.db.Backup(dst)
		r.ref.backup(r, f[2])
		if err != nil {
			return "err " + EngErr(err) + r.takeEvents(true)
		}
		return "ok" + r.takeEvents(true)
	case "pos":
		k, _ := ParseTok(f[2])
		p := r.db.VerifPos(k)
		if p == nil {
			return "none"
		}
		return fmt.Sprintf("%d %d %d %d", p.Fid, p.BlockID, p.Offset, p.Size)
	case "files":
		r.checkFileLimit()
		return r.listing()
	case "hintcheck":
		return r.hintCheck()
	case "open2", "openchild", "openbad", "openrace", "openbg", "lockprobe", "closebg", "straylock", "openopts":
		return r.execLock(f)
	case "concsched", "concpark", "concstress", "concmix", "concbg":
		return r.execConc(f)
	case "hostileget": // E hostileget <goroutines> <rounds>: concurrent readers that scribble over whatever Get returned
		if r.db == nil {
			return "ok"
		}
		type kvp struct{ k, v []byte }
		var live []kvp
		for k, v := range r.ref.m {
			live = append(live, kvp{[]byte(k), append([]byte(nil), v...)})
		}
		sort.Slice(live, func(i, j int) bool { return bytes.Compare(live[i].k, live[j].k) < 0 })
		if len(live) == 0 {
			return "ok"
		}
		ng, rounds := atoi(f[2]), atoi(f[3])
		var wg sync.WaitGroup
		var mu sync.Mutex
		bad := ""
		for g := 0; g < ng; g++ {
			wg.Add(1)
			go func(g int) {
				defer wg.Done()
				defer func() {
					if e := recover(); e != nil {
						mu.Lock()
						bad = fmt.Sprintf("panic in a concurrent Get: %v", e)
						mu.Unlock()
					}
				}()
				x := uint64(g)*2654435761 + 12345
				for i := 0; i < rounds; i++ {
					x = x*6364136223846793005 + 1442695040888963407
					// all readers walk the same few keys at the same time
					e := live[int((x>>33)%uint64(min(len(live), 3)))]
					key := append([]byte(nil), e.k...)
					got, err := r.db.Get(key)
					if err != nil || !bytes.Equal(got, e.v) {
						mu.Lock()
						if bad == "" {
							bad = fmt.Sprintf("a concurrent Get of %s returned %s (err %v), the value is %s: a slice handed to another caller was modified", Obs(e.k), Obs(got), err, Obs(e.v))
						}
						mu.Unlock()
						return
					}
					for j := range got {
						got[j] ^= 0xa5 // the caller owns what Get returned
					}
				}
			}(g)
		}
		wg.Wait()
		if bad != "" {
			r.fail("C15", "%s", bad)
		}
		return "ok"
	case "shardcount": // E shardcount <requested>: the shard count NewShardedIndex derives from a requested ShardNum
		n := index.VerifNextPowerOfTwo(atoi(f[2]))
		if n < 1 || n&(n-1) != 0 {
			r.fail("C14", "a requested shard count of %s gives %d shards: not a positive power of two, the shard of a key (hash & (n-1)) is out of range", f[2], n)
		}
		return fmt.Sprintf("ok %d", n)
	case "shards": // E shards: the number of shards the open database runs with
		return fmt.Sprintf("ok %d", r.db.VerifShardCount())
	case "flipsweep": // E flipsweep <maxflips> <seed> <cfg 6 fields>
		return r.flipSweep(f[4:10], atoi(f[2]), NewRng(uint64(atou(f[3]))))
	}
	if strings.HasPrefix(op, "it") {
		return r.execIter(f)
	}
	if dtOps[op] {
		return r.execDT(f)
	}
	if op == "crash" || op == "crashscan" {
		return r.execCrash(f)
	}
	return "err unknown-op"
}

// listing renders the data directory and the merge directory: name:size, sorted.
func (r *EngineRunner) listing() string {
	var out []string
	for _, d := range []struct{ p, pre string }{{r.dir(), "D/"}, {r.mergeDir(), "M/"}} {
		ents, err := os.ReadDir(d.p)
		if err != nil {
			continue
		}
		for _, e := range ents {
			if e.Name() == datafile.FileLockSuffix {
				continue
			}
			st, err := os.Stat(filepath.Join(d.p, e.Name())) // through a symbolic link: the file it names
			if err != nil {
				continue
			}
			out = append(out, fmt.Sprintf("%s%s:%d", d.pre, e.Name(), st.Size()))
		}
	}
	sort.Strings(out)
	if len(out) == 0 {
		return "-"
	}
	return strings.Join(out, ",")
}

// RunEngineScript executes the "E" lines of one scenario.
func RunEngineScript(lines []string, w *bufio.Writer, verbose bool) error {
	root, err := os.MkdirTemp(ScratchRoot(), "vhe")
	if err != nil {
		return err
	}
	defer os.RemoveAll(root)
	r := &EngineRunner{Root: root, dirs: map[string]string{}, Verbose: verbose, ref: newRefModel(), so: newSyncOracle(),
		shadow: newShadowFS(), maxCrashPoints: 40, byteCuts: 2}
	if os.Getenv("VERIF_TIER") == "thorough" {
		r.maxCrashPoints, r.byteCuts = 400, 6
	}
	r.shadow.lazy = true
	for _, ln := range lines {
		if strings.HasPrefix(ln, "E crashscan") {
			r.shadow.lazy = false
		}
	}
	r.cur = "db"
	r.dirs["db"] = filepath.Join(root, "db")
	r.installHooks()
	defer r.uninstallHooks()
	defer func() {
		if r.db != nil {
			func() {
				defer func() { _ = recover() }()
				_ = r.db.Close()
			}()
		}
	}()
	emit := func() {
		for _, o := range r.Oracle {
			fmt.Fprintln(w, o)
		}
		r.Oracle = nil
	}
	for _, ln := range lines {
		f := strings.Fields(ln)
		if len(f) >= 2 && f[0] == "S" {
			r.scen = f[1]
		}
		if len(f) < 2 || f[0] != "E" {
			fmt.Fprintln(w, ln)
			continue
		}
		if f[1] == "mark" {
			r.markIdx = r.shadow.count()
			fmt.Fprintln(w, ln)
			continue
		}
		if f[1] == "crashscan" {
			r.crashLines(f, func(line, res string) { fmt.Fprintf(w, "%s => %s\n", line, res) })
			emit()
			continue
		}
		r.opStart = r.shadow.count()
		r.curWrites = nil
		// no operation of a scenario takes minutes: one that does not return is a deadlock or a livelock inside the engine
		// (the operations with clients of their own have finer watchdogs; this one catches the rest).  The finding is
		// written, the process ends with the code of a stuck scenario.
		opDone := make(chan struct{})
		go func(line, scen string) {
			limit := 240 * time.Second
			if os.Getenv("VERIF_TIER") == "thorough" {
				limit = 900 * time.Second
			}
			select {
			case <-opDone:
			case <-time.After(limit):
				fmt.Fprintf(w, "%s => err stuck\n", line)
				fmt.Fprintf(w, "X C09 scenario=%s the operation '%s' did not return within %v: clients are blocked inside the engine (deadlock)\n", scen, line, limit)
				_ = w.Flush()
				os.Exit(7)
			}
		}(ln, r.scen)
		// the events of a hook-free accessor must not leak into the next operation
		res := r.Exec(f)
		close(opDone)
		if f[1] == "close" || f[1] == "backup" {
			r.skipRanges = append(r.skipRanges, [2]int{r.opStart, r.shadow.count()})
		}
		if f[1] == "pos" || f[1] == "files" {
			r.events = nil
		}
		if res == "" {
			fmt.Fprintln(w, ln)
		} else {
			fmt.Fprintf(w, "%s => %s\n", ln, res)
		}
		emit()
		if res == "err stuck" {
			// clients are blocked inside the engine: nothing more can be run in this process
			_ = w.Flush()
			os.Exit(7)
		}
	}
	return nil
}

var _ = bytes.Equal

// withReadProbes runs one engine call (Merge, Backup) and, at every file operation, directory operation
// and scan step the call makes, issues a Get from a second goroutine.  No mutation runs meanwhile, so
// every Get - answered during the call or, having waited for the engine lock, after it - must answer
// exactly what the reference mapping holds (C08: a key present before, during and after the call).
func (r *EngineRunner) withReadProbes(what string, run func() error) (error, int, int) {
	type probeRes struct {
		k   []byte
		v   []byte
		err error
		at  string
	}
	var probeKeys [][]byte
	for _, k := range r.ref.sortedKeys() {
		if k != "" {
			probeKeys = append(probeKeys, []byte(k))
		}
	}
	probeKeys = append(probeKeys, []byte("\x00absent-key"))
	callG := goid()
	r.probedKeys = nil
	var pending []chan probeRes
	probes, answeredDuring := 0, 0
	checkProbe := func(p probeRes) {
		want, ok := r.ref.m[string(p.k)]
		switch {
		case !ok && p.err != kv.ErrKeyNotFound:
			r.fail("C08", "Get(%s) issued while %s was at %s: key absent before, during and after the call, got value %s err %v", Obs(p.k), what, p.at, Obs(p.v), p.err)
		case ok && p.err != nil:
			r.fail("C08", "Get(%s) issued while %s was at %s: the key holds %s before, during and after the call, got error %v", Obs(p.k), what, p.at, Obs(want), p.err)
		case ok && !bytes.Equal(p.v, want):
			r.fail("C08", "Get(%s) issued while %s was at %s: the key holds %s before, during and after the call, got %s", Obs(p.k), what, p.at, Obs(want), Obs(p.v))
		}
	}
	probe := func(at string) {
		if goid() != callG || probes >= 240 {
			return
		}
		k := probeKeys[probes%len(probeKeys)]
		r.probedKeys = append(r.probedKeys, k)
		probes++
		ch := make(chan probeRes, 1)
		db := r.db
		go func() {
			v, err := db.Get(k)
			ch <- probeRes{k, append([]byte(nil), v...), err, at}
		}()
		select {
		case p := <-ch:
			answeredDuring++
			checkProbe(p)
		case <-time.After(200 * time.Microsecond):
			pending = append(pending, ch)
		}
	}
	savedEv, savedFs := fio.VerifEvent, kv.VerifFsEvent
	fio.VerifEvent = func(kind string, path string, data []byte, n int64) {
		if goid() != callG {
			return
		}
		if savedEv != nil {
			savedEv(kind, path, data, n)
		}
		probe(kind + " " + filepath.Base(path))
	}
	kv.VerifFsEvent = func(kind string, a string, b string) {
		if savedFs != nil {
			savedFs(kind, a, b)
		}
		probe(kind + " " + filepath.Base(a))
	}
	kv.VerifSched = func(label string) {
		if label == "merge.scan" {
			probe(label)
		}
	}
	err := run()
	for _, ch := range pending {
		select {
		case p := <-ch:
			checkProbe(p)
		case <-time.After(20 * time.Second):
			r.fail("C09", "a Get issued during %s had not returned 20 s after the call returned", what)
		}
	}
	// (the hooks are package variables read by the probing goroutines: reset once those have finished)
	fio.VerifEvent, kv.VerifFsEvent, kv.VerifSched = savedEv, savedFs, nil
	return err, probes, answeredDuring
}

// withRefusedWrites runs f while the descriptor of the active data file is replaced by a read-only one, so that
// every write to it is refused by the operating system; false (f not run) when the descriptor cannot be found
func (r *EngineRunner) withRefusedWrites(target string, f func()) bool {
	return r.withRefusedWritesIn(r.dir(), target, f)
}

func (r *EngineRunner) withRefusedWritesIn(_ string, target string, f func()) bool {
	victim := -1
	if ents, err := os.ReadDir("/proc/self/fd"); err == nil {
		for _, e := range ents {
			if t, err := os.Readlink("/proc/self/fd/" + e.Name()); err == nil && t == target {
				victim = atoi(e.Name())
			}
		}
	}
	if victim < 0 {
		return false
	}
	saved, err := syscall.Dup(victim)
	if err != nil {
		return false
	}
	ro, err := os.Open(os.DevNull)
	if err != nil {
		_ = syscall.Close(saved)
		return false
	}
	if err := syscall.Dup3(int(ro.Fd()), victim, 0); err != nil {
		_ = ro.Close()
		_ = syscall.Close(saved)
		return false
	}
	h1, h2 := fio.VerifEvent, kv.VerifFsEvent
	fio.VerifEvent, kv.VerifFsEvent = nil, nil
	f()
	fio.VerifEvent, kv.VerifFsEvent = h1, h2
	_ = syscall.Dup3(saved, victim, 0)
	_ = syscall.Close(saved)
	_ = ro.Close()
	return true
}

func evalPath(p string) string {
	if q, err := filepath.EvalSymlinks(p); err == nil {
		return q
	}
	return p
}
