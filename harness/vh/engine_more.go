package vh

import (
	"bytes"
	"fmt"
	"sort"

	kv "github.com/XiXi-2024/xixi-kv"
)

// iterRef is the reference iterator of the C10 oracle: a cursor into the sorted, prefix-filtered
// snapshot taken from the reference map when the iterator was created.
type iterRef struct {
	keys [][]byte
	vals [][]byte
	cur  int
	rev  bool
}

func (r *EngineRunner) newIterRef(rev bool, prefix []byte) *iterRef {
	ref := &iterRef{rev: rev}
	var ks []string
	for k := range r.ref.m {
		if bytes.HasPrefix([]byte(k), prefix) {
			ks = append(ks, k)
		}
	}
	sort.Strings(ks)
	if rev {
		for i, j := 0, len(ks)-1; i < j; i, j = i+1, j-1 {
			ks[i], ks[j] = ks[j], ks[i]
		}
	}
	for _, k := range ks {
		ref.keys = append(ref.keys, []byte(k))
		ref.vals = append(ref.vals, append([]byte(nil), r.ref.m[k]...))
	}
	return ref
}

func (ref *iterRef) seek(t []byte) {
	if ref.cur >= len(ref.keys) {
		return
	}
	for i, k := range ref.keys {
		c := bytes.Compare(k, t)
		if (!ref.rev && c >= 0) || (ref.rev && c <= 0) {
			ref.cur = i
			return
		}
	}
	ref.cur = len(ref.keys)
}

// itObs renders (Valid, Key, Value) and checks them against the reference iterator.
func (r *EngineRunner) itObs(what string) string {
	it := r.iter
	ref := r.iterRef
	if !it.Valid() {
		if ref != nil && ref.cur < len(ref.keys) {
			r.fail("C10", "after %s the iterator is exhausted, the snapshot still has %s", what, Obs(ref.keys[ref.cur]))
		}
		return "v=0"
	}
	k := it.Key()
	fillSpare(k) // the caller may append to the key it was handed: that is its own memory
	v, err := it.Value()
	if ref != nil {
		if ref.cur >= len(ref.keys) {
			r.fail("C10", "after %s the iterator yields %s, the snapshot is exhausted", what, Obs(k))
		} else if !bytes.Equal(k, ref.keys[ref.cur]) {
			r.fail("C10", "after %s the iterator is at %s, expected %s", what, Obs(k), Obs(ref.keys[ref.cur]))
		} else if err != nil || !bytes.Equal(v, ref.vals[ref.cur]) {
			r.fail("C10", "after %s Value of %s is not the value at creation of the iterator", what, Obs(k))
		}
	}
	vs := "err"
	if err == nil {
		vs = Obs(v)
	}
	return fmt.Sprintf("v=1 k=%s val=%s", Obs(k), vs)
}

func (r *EngineRunner) execIter(f []string) string {
	switch f[1] {
	case "itnew":
		prefix, _ := ParseTok(f[3])
		rev := f[2] == "1"
		if r.iter != nil {
			r.iter.Close()
		}
		r.iter = r.db.NewIterator(kv.IteratorOptions{Prefix: prefix, Reverse: rev})
		r.iterRef = r.newIterRef(rev, prefix)
		return r.itObs("NewIterator") + r.takeEvents(false)
	case "itrewind":
		r.iter.Rewind()
		r.iterRef.cur = 0
		return r.itObs("Rewind") + r.takeEvents(false)
	case "itseek":
		t, _ := ParseTok(f[2])
		r.iter.Seek(t)
		r.iterRef.seek(t)
		return r.itObs("Seek "+f[2]) + r.takeEvents(false)
	case "itnext":
		r.iter.Next()
		if r.iterRef.cur < len(r.iterRef.keys) {
			r.iterRef.cur++
		}
		return r.itObs("Next") + r.takeEvents(false)
	case "itobs":
		return r.itObs("(no call)") + r.takeEvents(false)
	case "itclose":
		if r.iter != nil {
			r.iter.Close()
			r.iter = nil
		}
		return "ok"
	}
	return "err unknown-op"
}

// fillSpare writes into the spare capacity of a slice the engine handed out (what append would do): at most 64 bytes.
func fillSpare(b []byte) {
	sp := b[len(b):cap(b)]
	if len(sp) > 64 {
		sp = sp[:64]
	}
	for i := range sp {
		sp[i] = 0xA5
	}
}
