package vh

// placeholders filled in by iter.go / crash.go
type shadowFS struct{}

func (s *shadowFS) fileEvent(kind, path string, data []byte, n int64) {}
func (s *shadowFS) fsEvent(kind, a, b string)                        {}
func (r *EngineRunner) execIter(f []string) string                    { return "err unknown-op" }
func (r *EngineRunner) execCrash(f []string) string                   { return "err unknown-op" }
