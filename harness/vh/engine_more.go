package vh

// placeholder filled in by iter.go
func (r *EngineRunner) execIter(f []string) string { return "err unknown-op" }
