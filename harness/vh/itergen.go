package vh

import (
	"bytes"
	"encoding/hex"
	"fmt"
	"sort"
	"strings"
)

// GenIterScript (C10): a key set over a three-letter alphabet (many shared prefixes), an iterator
// with a direction and a prefix, and a random legal call sequence: every Seek target lies at or
// ahead of the cursor in iteration order (the generator simulates the cursor); writes and deletes
// are interleaved after creation; ListKeys and Fold are taken along.
func GenIterScript(r *Rng, hist map[string]int) []string {
	var out []string
	add := func(format string, a ...interface{}) { out = append(out, "E "+fmt.Sprintf(format, a...)) }
	o := EngineGenOpts{FixedIO: -1}
	c := genCfg(r, o, hist)
	nk := r.Pick(0, 1, 2, 5, 12, 40, 40, 160, 450)
	maxLen := 4
	if nk > 100 {
		// many keys per shard (tree nodes split, iterators cross node and buffer boundaries)
		maxLen = 6
		c.shards = r.Pick(1, 1, 2, 3)
		hist["iter_many_keys"]++
	}
	add("dir db")
	add("open %s", c)
	add("shards")
	for i := 0; i < 3; i++ {
		// requested shard counts: around the powers of two, beyond the maximum, zero, negative, huge
		e := r.Intn(12)
		n := (1 << uint(e)) + r.Intn(5) - 2
		switch r.Intn(8) {
		case 0:
			n = -n
		case 1:
			n = r.Pick(0, -1, 1<<31, 1<<40, -(1 << 40), 1<<62)
		}
		add("shardcount %d", n)
		hist["shardcount_probes"]++
	}
	live := map[string]bool{}
	// three-letter alphabets: plain letters, or the extreme byte values (prefixes ending in 0xff have no
	// successor of the same length; 0x00 is the smallest extension of a key)
	alpha := [][]byte{[]byte("abc"), []byte("abc"), {0x00, 0x7f, 0xff}, {0xfe, 0xff, 0x00}, {'a', 0xff, 'b'}}[r.Intn(5)]
	hist[fmt.Sprintf("iter_alphabet_%x", alpha)]++
	randKey := func() []byte {
		n := 1 + r.Intn(maxLen)
		b := make([]byte, n)
		for i := range b {
			b[i] = alpha[r.Intn(3)]
		}
		return b
	}
	for i := 0; i < nk; i++ {
		k := randKey()
		add("put %s @%d:%d", hex.EncodeToString(k), 1+r.Intn(12), r.Intn(9999))
		live[string(k)] = true
		if r.Chance(1, 6) {
			d := randKey()
			add("del %s", hex.EncodeToString(d))
			delete(live, string(d))
		}
	}
	if nk > 0 && r.Chance(1, 2) {
		// a batch that puts and deletes keys the index has never held (their tombstones reach the index for absent
		// keys, now and again at the next Open), beside one put that stays: the snapshot is the live keys, no more, no less
		add("batch %d", r.Intn(2))
		for j := 1 + r.Intn(4); j > 0; j-- {
			k := append(randKey(), alpha[r.Intn(3)], alpha[r.Intn(3)], alpha[r.Intn(3)])
			if live[string(k)] {
				continue
			}
			add("bput %s @%d:%d", hex.EncodeToString(k), 1+r.Intn(12), r.Intn(9999))
			add("bdel %s", hex.EncodeToString(k))
		}
		if r.Chance(1, 2) {
			k := randKey()
			add("bput %s @%d:%d", hex.EncodeToString(k), 1+r.Intn(12), r.Intn(9999))
			live[string(k)] = true
		}
		add("commit")
		hist["iter_batch_deleting_absent_keys"]++
	}
	if r.Chance(1, 4) {
		add("close")
		c = genCfg(r, o, hist)
		add("open %s", c)
	}
	add("list")
	add("fold")
	add("foldn %d", r.Pick(0, 1, 2, 7, 1000))
	rounds := 1 + r.Intn(3)
	for round := 0; round < rounds; round++ {
		rev := r.Intn(2)
		a, b, c := alpha[0], alpha[1], alpha[2]
		prefix := [][]byte{nil, nil, {a}, {a, b}, {b}, {c, a}, {a, b, c}, {b, b}, {c}, {c, c}}[r.Intn(10)]
		var snap [][]byte
		for k := range live {
			if bytes.HasPrefix([]byte(k), prefix) {
				snap = append(snap, []byte(k))
			}
		}
		sort.Slice(snap, func(i, j int) bool {
			if rev == 1 {
				return bytes.Compare(snap[i], snap[j]) > 0
			}
			return bytes.Compare(snap[i], snap[j]) < 0
		})
		add("itnew %d %s", rev, HexTok(prefix))
		hist[fmt.Sprintf("iter_rev_%d", rev)]++
		hist[fmt.Sprintf("iter_prefixlen_%d", len(prefix))]++
		hist[fmt.Sprintf("iter_snapshot_%s", sizeClass(len(snap)))]++
		cur := 0
		nops := 3 + r.Intn(28)
		if nk > 100 {
			nops = 60 + r.Intn(200)
		}
		for i := 0; i < nops; i++ {
			switch x := r.Intn(20); {
			case x < 9:
				add("itnext")
				if cur < len(snap) {
					cur++
				}
				hist["it_next"]++
			case x < 11:
				add("itrewind")
				cur = 0
				hist["it_rewind"]++
				if cur >= len(snap) {
					hist["it_rewind_after_exhaustion"]++
				}
			case x < 16:
				// a legal seek target: at or ahead of the cursor in iteration order
				var t []byte
				if cur >= len(snap) {
					t = randKey() // exhausted: Seek does nothing
					hist["it_seek_exhausted"]++
				} else {
					switch r.Intn(4) {
					case 0:
						t = snap[cur]
					case 1:
						t = snap[cur+r.Intn(len(snap)-cur)]
					case 2: // between / beyond keys: extend a later key
						t = append(append([]byte(nil), snap[cur+r.Intn(len(snap)-cur)]...), alpha[r.Intn(3)])
						if rev == 1 && bytes.Compare(t, snap[cur]) > 0 {
							t = snap[cur]
						}
					default:
						t = randKey()
						if (rev == 0 && bytes.Compare(t, snap[cur]) < 0) || (rev == 1 && bytes.Compare(t, snap[cur]) > 0) {
							t = snap[cur]
						}
					}
					hist["it_seek"]++
				}
				add("itseek %s", hex.EncodeToString(t))
				if cur < len(snap) {
					nc := len(snap)
					for j, k := range snap {
						cmp := bytes.Compare(k, t)
						if (rev == 0 && cmp >= 0) || (rev == 1 && cmp <= 0) {
							nc = j
							break
						}
					}
					cur = nc
				}
			case x < 18:
				// writes after creation do not disturb the snapshot
				k := randKey()
				if r.Chance(1, 3) {
					add("del %s", hex.EncodeToString(k))
					delete(live, string(k))
				} else {
					add("put %s @%d:%d", hex.EncodeToString(k), 1+r.Intn(12), r.Intn(9999))
					live[string(k)] = true
				}
				add("itobs")
				hist["it_write_interleaved"]++
			default:
				add("itobs")
			}
		}
		add("itclose")
	}
	add("list")
	add("fold")
	// Fold whose callback writes: overwrites and deletes of keys not yet reached, inserts before and behind
	for j := 1 + r.Intn(2); j > 0 && len(live) > 0; j-- {
		var ws []string
		for i := 1 + r.Intn(4); i > 0; i-- {
			k := randKey()
			if r.Chance(1, 2) {
				// an existing key
				var ls []string
				for e := range live {
					ls = append(ls, e)
				}
				sort.Strings(ls)
				if len(ls) > 0 {
					k = []byte(ls[r.Intn(len(ls))])
				}
			}
			if r.Chance(1, 3) {
				ws = append(ws, "d,"+hex.EncodeToString(k))
				delete(live, string(k))
			} else {
				ws = append(ws, fmt.Sprintf("p,%s,@%d:%d", hex.EncodeToString(k), 1+r.Intn(12), r.Intn(9999)))
				live[string(k)] = true
			}
		}
		add("foldw %d %s", r.Pick(0, 0, 1, 2, 5), strings.Join(ws, " "))
		hist["fold_with_writes_in_callback"]++
		add("fold")
	}
	add("close")
	return out
}

func sizeClass(n int) string {
	switch {
	case n == 0:
		return "0"
	case n == 1:
		return "1"
	case n <= 4:
		return "2-4"
	case n <= 12:
		return "5-12"
	}
	return "13+"
}

func init() {
	extraCommands["itergen"] = func(args []string) {
		fs := newFlagSet("itergen")
		seed := fs.Uint64("seed", 1, "seed")
		n := fs.Int("n", 100, "scenarios")
		out := fs.String("out", "", "output")
		histp := fs.String("hist", "", "histogram output")
		kind := fs.String("kind", "quick", "tier")
		_ = fs.Parse(args)
		_ = kind
		r := NewRng(*seed)
		h := map[string]int{}
		var lines []string
		for i := 0; i < *n; i++ {
			lines = append(lines, fmt.Sprintf("S %d", i))
			lines = append(lines, GenIterScript(r, h)...)
		}
		writeLines(*out, lines)
		writeHistFile(*histp, h)
	}
}
