package vh

import (
	"fmt"
	"strings"
)

// syncOracle (C13) watches the I/O events: per file the bytes written, the bytes covered by
// the last sync, and which unsynced writes were issued by plain Put/Delete calls.
type syncOracle struct {
	written map[string]int64
	synced  map[string]int64
	plain   map[string][]plainWrite // unsynced writes of acknowledged Puts/Deletes
	opKind  string                  // operation being executed: put, del, batch, other
}

type plainWrite struct{ end, recBytes int64 }

func newSyncOracle() *syncOracle {
	return &syncOracle{written: map[string]int64{}, synced: map[string]int64{}, plain: map[string][]plainWrite{}}
}

func (s *syncOracle) reset() {
	s.written, s.synced, s.plain = map[string]int64{}, map[string]int64{}, map[string][]plainWrite{}
}

// event is called for every I/O event of the data directory (names D<id>).
func (s *syncOracle) event(r *EngineRunner, kind, name string, n int64) {
	if !strings.HasPrefix(name, "D") {
		return
	}
	switch kind {
	case "create":
		// a file is flushed before the engine rotates away from it
		for f, w := range s.written {
			if f != name && s.synced[f] != w {
				r.fail("C13", "rotation to %s while %s has %d unflushed bytes", name, f, w-s.synced[f])
			}
		}
		s.written[name], s.synced[name] = 0, 0
	case "openexisting":
		s.written[name], s.synced[name] = n, n
	case "write":
		off := s.written[name] % bs
		pad := int64(0)
		if off+7 >= bs {
			pad = bs - off
		}
		s.written[name] += n
		if s.opKind == "put" || s.opKind == "del" {
			s.plain[name] = append(s.plain[name], plainWrite{s.written[name], n - pad})
		}
	case "sync":
		s.synced[name] = s.written[name]
		s.plain[name] = nil
	}
}

func (s *syncOracle) allFlushed() (string, int64) {
	for f, w := range s.written {
		if s.synced[f] != w {
			return f, w - s.synced[f]
		}
	}
	return "", 0
}

// afterOp checks the policy at the return of a public call.
func (s *syncOracle) afterOp(r *EngineRunner, op string, ok bool, wrote bool, batchSync bool) {
	strategy := int(r.opts.SyncStrategy)
	switch op {
	case "put", "del":
		if !ok || !wrote {
			return
		}
		if strategy == 1 { // Always
			if f, n := s.allFlushed(); f != "" {
				r.fail("C13", "SyncStrategy Always: %s returned with %d unflushed bytes in %s", op, n, f)
			}
		}
		if strategy == 2 && r.opts.BytesPerSync > 0 { // Threshold
			var unflushed int64
			for _, ws := range s.plain {
				for _, w := range ws {
					unflushed += w.recBytes
				}
			}
			if unflushed >= int64(r.opts.BytesPerSync) {
				r.fail("C13", "SyncStrategy Threshold: after %s returned, %d bytes of acknowledged Puts/Deletes are unflushed; BytesPerSync=%d", op, unflushed, r.opts.BytesPerSync)
			}
		}
	case "commit":
		if ok && wrote && batchSync {
			if f, n := s.allFlushed(); f != "" {
				r.fail("C13", "Sync batch: Commit returned with %d unflushed bytes in %s", n, f)
			}
		}
	case "sync":
		if ok {
			active, _ := r.db.VerifFileIDs()
			name := fmt.Sprintf("D%d", active)
			if s.synced[name] != s.written[name] {
				r.fail("C13", "Sync() returned with %d unflushed bytes in the active file %s", s.written[name]-s.synced[name], name)
			}
		}
	case "close":
		if f, n := s.allFlushed(); f != "" && ok {
			r.fail("C13", "Close returned with %d unflushed bytes in %s", n, f)
		}
	}
}
