package vh

import (
	"bytes"
	"encoding/binary"
	"fmt"
	"os"
	"path/filepath"
	"sort"
	"strings"
	"time"

	kv "github.com/XiXi-2024/xixi-kv"
	"github.com/XiXi-2024/xixi-kv/datafile"
	"github.com/XiXi-2024/xixi-kv/fio"
	"github.com/XiXi-2024/xixi-kv/utils"
)

// shadowFS mirrors what the engine has done to the file system, from the intercepted I/O
// events, so that the directory image at any earlier instant (a crash image) can be built.
type shadowFile struct {
	data    []byte // logical content (append-only)
	durable int64  // bytes covered by the last sync
	phys    int64  // physical size (>= len(data) for a memory-mapped file)
}

type shadowFS struct {
	files map[string]shadowFile
	dirs  map[string]bool
	// snaps[i] = state after the first i events have taken effect
	snaps []map[string]shadowFile
	sdirs []map[string]bool
	// kinds[i] = "<kind> <path>" of event number i (the event that leads from snaps[i] to the next state)
	kinds []string
	// lazy: the scenario never asks for a crash image; events are counted, states are not kept
	lazy bool
}

func newShadowFS() *shadowFS {
	return &shadowFS{files: map[string]shadowFile{}, dirs: map[string]bool{}}
}

func (s *shadowFS) snapshot() {
	if s.lazy {
		s.snaps = append(s.snaps, nil)
		s.sdirs = append(s.sdirs, nil)
		return
	}
	m := make(map[string]shadowFile, len(s.files))
	for k, v := range s.files {
		m[k] = v
	}
	d := make(map[string]bool, len(s.dirs))
	for k, v := range s.dirs {
		d[k] = v
	}
	s.snaps = append(s.snaps, m)
	s.sdirs = append(s.sdirs, d)
}

// every hook call arrives BEFORE its operation: the state now is the state after all earlier
// events, i.e. snapshot number len(snaps).
func (s *shadowFS) fileEvent(kind, path string, data []byte, n int64) {
	s.snapshot()
	s.kinds = append(s.kinds, kind+" "+path)
	f, ok := s.files[path]
	switch kind {
	case "open":
		if !ok {
			s.files[path] = shadowFile{}
		} else if f.phys > int64(len(f.data)) {
			// the logical size of a reopened file is its physical size (a zero-filled tail
			// of a mapped file that was never truncated back becomes content)
			f.data = append(append([]byte(nil), f.data...), make([]byte, f.phys-int64(len(f.data)))...)
			s.files[path] = f
		}
	case "write":
		f.data = append(f.data[:len(f.data):len(f.data)], data...)
		if int64(len(f.data)) > f.phys {
			f.phys = int64(len(f.data))
		}
		s.files[path] = f
	case "sync":
		f.durable = int64(len(f.data))
		s.files[path] = f
	case "truncate":
		f.phys = n
		if n < int64(len(f.data)) {
			f.data = f.data[:n]
		}
		s.files[path] = f
	}
}

func (s *shadowFS) fsEvent(kind, a, b string) {
	s.snapshot()
	s.kinds = append(s.kinds, kind+" "+a)
	switch kind {
	case "mkdir":
		s.dirs[a] = true
	case "remove":
		delete(s.files, a)
	case "rename":
		if f, ok := s.files[a]; ok {
			s.files[b] = f
			delete(s.files, a)
		}
	case "removeall":
		for p := range s.files {
			if strings.HasPrefix(p, a+string(filepath.Separator)) {
				delete(s.files, p)
			}
		}
		delete(s.dirs, a)
	}
}

// events so far
func (s *shadowFS) count() int { return len(s.snaps) }

// state after the first k events (k == count(): the current state)
func (s *shadowFS) at(k int) (map[string]shadowFile, map[string]bool) {
	if k >= len(s.snaps) {
		return s.files, s.dirs
	}
	return s.snaps[k], s.sdirs[k]
}

// materialize writes the image after k events below dstRoot, mapping srcDir -> dstRoot/db and
// srcDir-merge -> dstRoot/db-merge; cut says how many bytes of each data-directory file survive.
func (s *shadowFS) materialize(k int, srcDir, dstRoot string, cut func(path string, f shadowFile) int64) error {
	files, dirs := s.at(k)
	dst := filepath.Join(dstRoot, "db")
	if err := os.MkdirAll(dst, 0755); err != nil {
		return err
	}
	if dirs[srcDir+"-merge"] {
		if err := os.MkdirAll(dst+"-merge", 0755); err != nil {
			return err
		}
	}
	for p, f := range files {
		var out string
		switch filepath.Dir(p) {
		case srcDir:
			out = filepath.Join(dst, filepath.Base(p))
		case srcDir + "-merge":
			if !dirs[srcDir+"-merge"] {
				continue
			}
			out = filepath.Join(dst+"-merge", filepath.Base(p))
		default:
			continue
		}
		n := cut(p, f)
		content := f.data
		size := f.phys
		if n >= 0 && n < int64(len(content)) {
			content = content[:n]
			size = n
		}
		if size < int64(len(content)) {
			size = int64(len(content))
		}
		if err := os.WriteFile(out, content, 0644); err != nil {
			return err
		}
		if size > int64(len(content)) {
			if err := os.Truncate(out, size); err != nil {
				return err
			}
		}
	}
	return nil
}

// ---- crash operations of the engine runner ---------------------------------------------------

type histEntry struct {
	start, ack int // event indices: the mutation began after `start` events, was acknowledged after `ack`
	state      map[string][]byte
	writes     []histWrite
}
type histWrite struct {
	path string
	end  int64
}

func digestMap(m map[string][]byte) string {
	ks := make([]string, 0, len(m))
	for k := range m {
		ks = append(ks, k)
	}
	sort.Strings(ks)
	var sb strings.Builder
	for _, k := range ks {
		sb.WriteString(Obs([]byte(k)) + "=" + Obs(m[k]) + ";")
	}
	return fmt.Sprintf("%d %s", len(ks), Md5Hex([]byte(sb.String())))
}

// openImage opens the materialised image with the real Open (hooks off), dumps it, closes it,
// and does the same a second time.
func (r *EngineRunner) openImage(root string, cfg []string) (string, map[string][]byte, map[string][]byte) {
	saved1, saved2, saved3 := fio.VerifEvent, kv.VerifFsEvent, kv.VerifMergeFile
	fio.VerifEvent, kv.VerifFsEvent, kv.VerifMergeFile = nil, nil, nil
	defer func() { fio.VerifEvent, kv.VerifFsEvent, kv.VerifMergeFile = saved1, saved2, saved3 }()
	opts := parseOpts(cfg, filepath.Join(root, "db"))
	one := func() (string, map[string][]byte) {
		var res string
		var dump map[string][]byte
		func() {
			defer func() {
				if e := recover(); e != nil {
					res = "panic"
					r.fail("C03", "Open of a crash image panicked: %v", e)
				}
			}()
			db, err := kv.Open(opts)
			if err != nil {
				res = "err " + EngErr(err)
				return
			}
			d, derr := dumpDB(db)
			if derr == nil {
				// the space accounting of the recovered database (C17): DiskSize - ReclaimableSize is exactly what
				// the live records occupy, whatever the crash left behind (unfinished batches, torn tails)
				st := db.Stat()
				var live int64
				for k := range d {
					if p := db.VerifPos([]byte(k)); p != nil {
						live += int64(p.Size)
					}
				}
				if st.KeyNum != len(d) {
					r.fail("C17", "Stat after crash recovery: KeyNum = %d, live keys = %d", st.KeyNum, len(d))
				}
				if st.ReclaimableSize < 0 || st.ReclaimableSize > st.DiskSize || st.DiskSize-st.ReclaimableSize != live {
					r.fail("C17", "Stat after crash recovery: DiskSize %d, ReclaimableSize %d, the live records occupy %d", st.DiskSize, st.ReclaimableSize, live)
				}
			}
			_ = db.Close()
			if derr != nil {
				res = "err dump:" + EngErr(derr)
				return
			}
			dump = d
			res = digestMap(d)
		}()
		return res, dump
	}
	r1, d1 := one()
	if strings.HasPrefix(r1, "err") || r1 == "panic" {
		return r1, nil, nil
	}
	r2, d2 := one()
	return "ok " + r1 + " / " + r2, d1, d2
}

// crashOracle checks the recovered mapping against the acknowledged history (C03/C04/C07).
func (r *EngineRunner) crashOracle(k int, cut string, res string, d1, d2 map[string][]byte) {
	prop := "C03"
	if r.crashProp != "" {
		prop = r.crashProp
	}
	if d1 == nil {
		r.fail(prop, "crash after %d events (cut %s): Open of the image failed: %s", k, cut, res)
		return
	}
	if d2 != nil {
		if why, ok := sameMap(d1, d2); !ok {
			r.fail("C07", "crash after %d events (cut %s): reopening the recovered directory again changes the mapping: %s", k, cut, why)
		}
	}
	h := r.ref.history
	// mutations acknowledged at or before k must be there; mutations not yet started cannot be
	nmin, nmax := 0, 0
	for i, e := range h {
		if e.ack <= k {
			nmin = i + 1
		}
		if e.start < k || e.ack <= k {
			nmax = i + 1
		}
	}
	if cut == "durable" {
		// only what was flushed is guaranteed: every mutation all of whose writes lie below the
		// durable length of their files at the crash instant
		files, _ := r.shadow.at(k)
		nmin = 0
		for i, e := range h {
			if e.ack > k {
				break
			}
			dur := len(e.writes) > 0 // a mutation that wrote nothing has nothing to lose
			for _, w := range e.writes {
				f, ok := files[w.path]
				if !ok {
					// the file is gone: it was merged away (its records were rewritten)
					continue
				}
				if w.end > f.durable {
					dur = false
				}
			}
			if dur {
				nmin = i + 1
			}
		}
	}
	for n := nmin; n <= nmax; n++ {
		var st map[string][]byte
		if n == 0 {
			st = r.ref.base
		} else {
			st = h[n-1].state
		}
		if _, ok := sameMap(st, d1); ok {
			return
		}
	}
	r.fail(prop, "crash after %d events (cut %s): the recovered mapping (%s) is not the state after n acknowledged mutations for any n in [%d,%d]", k, cut, digestMap(d1), nmin, nmax)
}

// execCrash handles "E mark" and "E crashscan <cfg> [prop]"; crashscan expands into one
// "E crashat <k> <cut> <cfg>" trace line per crash point.
func (r *EngineRunner) execCrash(f []string) string {
	return "err use-RunEngineScript"
}

func (r *EngineRunner) crashLines(f []string, emit func(line, res string)) {
	cfg := f[2:8]
	r.crashProp = ""
	if len(f) > 8 {
		r.crashProp = f[8]
	}
	from, to := r.markIdx, r.shadow.count()
	// the crash points: every event boundary in (from, to], thinned out when there are many
	var ks []int
	step := 1
	if to-from > r.maxCrashPoints && r.maxCrashPoints > 0 {
		step = (to - from + r.maxCrashPoints - 1) / r.maxCrashPoints
	}
	for k := from; k <= to; k += step {
		inside := false
		for _, sr := range r.skipRanges {
			if k > sr[0] && k < sr[1] {
				inside = true
			}
		}
		if !inside {
			ks = append(ks, k)
		}
	}
	if len(ks) == 0 || ks[len(ks)-1] != to {
		ks = append(ks, to)
	}
	if step > 1 {
		// the last events are never thinned out: a merge ends with the marker being created, written,
		// synced and closed; an adoption ends with the renames and the removal of the merge directory
		have := map[int]bool{}
		for _, k := range ks {
			have[k] = true
		}
		for k := to - 10; k <= to; k++ {
			if k > from && !have[k] {
				ks = append(ks, k)
			}
		}
		sort.Ints(ks)
	}
	mmap := r.opts.FileIOType == fio.MemoryMap
	// os.RemoveAll unlinks the entries of the merge directory one by one: a process that dies inside it
	// leaves any subset behind.  At every removal of a non-empty merge directory: images in which single
	// entries, all entries but the finished-marker, and all data files but one are already gone.
	for k := from; k < to && k < len(r.shadow.kinds); k++ {
		if r.shadow.kinds[k] != "removeall "+r.mergeDir() {
			continue
		}
		files, _ := r.shadow.at(k)
		var names []string
		for p := range files {
			if filepath.Dir(p) == r.mergeDir() {
				names = append(names, p)
			}
		}
		sort.Strings(names)
		if len(names) == 0 {
			continue
		}
		var variants [][]string
		for i, p := range names {
			if i < 3 || i >= len(names)-2 {
				variants = append(variants, []string{p})
			}
		}
		var butMarker, dataButLast []string
		lastData := ""
		for _, p := range names {
			if strings.HasSuffix(p, ".data") {
				lastData = p
			}
		}
		for _, p := range names {
			if !strings.Contains(filepath.Base(p), "merge-fin") {
				butMarker = append(butMarker, p)
			}
			if strings.HasSuffix(p, ".data") && p != lastData {
				dataButLast = append(dataButLast, p)
			}
		}
		if len(butMarker) > 0 && len(butMarker) < len(names) {
			variants = append(variants, butMarker)
		}
		if len(dataButLast) > 0 {
			variants = append(variants, dataButLast)
		}
		for _, gone := range variants {
			root, err := os.MkdirTemp(r.Root, "img")
			if err != nil {
				continue
			}
			if err := r.shadow.materialize(k, r.dir(), root, func(p string, sf shadowFile) int64 { return -1 }); err != nil {
				_ = os.RemoveAll(root)
				continue
			}
			var toks []string
			for _, p := range gone {
				_ = os.Remove(filepath.Join(root, "db-merge", filepath.Base(p)))
				toks = append(toks, r.fileName(p))
			}
			res, d1, d2 := r.openImage(root, cfg)
			_ = os.RemoveAll(root)
			r.crashOracle(k, "none", res, d1, d2)
			emit(fmt.Sprintf("E crashrm %d %s %s", k, strings.Join(toks, ","), strings.Join(cfg, " ")), res)
		}
	}
	for _, k := range ks {
		cuts := []string{"none"}
		if !mmap {
			cuts = append(cuts, "durable")
			// byte-granular cuts of the unsynced tail of the file written last
			files, _ := r.shadow.at(k)
			for p, sf := range files {
				if filepath.Dir(p) != r.dir() || !strings.HasSuffix(p, ".data") {
					continue
				}
				if int64(len(sf.data)) > sf.durable && r.byteCuts > 0 {
					span := int64(len(sf.data)) - sf.durable
					for j := 1; j <= r.byteCuts; j++ {
						c := sf.durable + span*int64(j)/int64(r.byteCuts+1)
						if c > sf.durable && c < int64(len(sf.data)) {
							cuts = append(cuts, fmt.Sprintf("at:%s:%d", r.fileName(p), c))
						}
					}
					// a few bytes into a record (less than a chunk header survives): the write boundaries of
					// the unsynced tail are the sizes the file had after the earlier events
					if r.crashProp == "C03" {
						seen := map[int64]bool{}
						var bounds []int64
						for j := from; j <= k && j < len(r.shadow.snaps); j++ {
							if e, ok := r.shadow.snaps[j][p]; ok {
								b := int64(len(e.data))
								if b >= sf.durable && b < int64(len(sf.data)) && !seen[b] {
									seen[b] = true
									bounds = append(bounds, b)
								}
							}
						}
						if len(bounds) > 2 {
							bounds = bounds[len(bounds)-2:]
						}
						for _, b := range bounds {
							for _, dl := range []int64{1, 3, 6} {
								if b+dl < int64(len(sf.data)) {
									cuts = append(cuts, fmt.Sprintf("at:%s:%d:hdr", r.fileName(p), b+dl))
								}
							}
						}
					}
				}
			}
		}
		// a torn write of the merge-finished marker (written, not yet synced): 1 or 3 of its 4 bytes survive.
		// For the engine that is a marker it cannot read - the state right after the marker was created.
		if !mmap && k > 0 {
			files, _ := r.shadow.at(k)
			for p, sf := range files {
				if filepath.Dir(p) == r.mergeDir() && strings.Contains(filepath.Base(p), "merge-fin") && len(sf.data) == 4 && sf.durable < 4 {
					cuts = append(cuts, "marker:1", "marker:3")
				}
			}
		}
		for _, cut := range cuts {
			root, err := os.MkdirTemp(r.Root, "img")
			if err != nil {
				continue
			}
			cutf := func(p string, sf shadowFile) int64 { return -1 }
			switch {
			case cut == "durable":
				cutf = func(p string, sf shadowFile) int64 {
					if filepath.Dir(p) == r.dir() && strings.HasSuffix(p, ".data") {
						return sf.durable
					}
					return -1
				}
			case strings.HasPrefix(cut, "marker:"):
				n := int64(atoi(strings.TrimPrefix(cut, "marker:")))
				cutf = func(p string, sf shadowFile) int64 {
					if filepath.Dir(p) == r.mergeDir() && strings.Contains(filepath.Base(p), "merge-fin") {
						return n
					}
					return -1
				}
			case strings.HasPrefix(cut, "at:"):
				parts := strings.Split(strings.TrimSuffix(cut, ":hdr"), ":")
				cutf = func(p string, sf shadowFile) int64 {
					if r.fileName(p) == parts[1] {
						return int64(atoi(parts[2]))
					}
					return -1
				}
			}
			if err := r.shadow.materialize(k, r.dir(), root, cutf); err != nil {
				_ = os.RemoveAll(root)
				continue
			}
			res, d1, d2 := r.openImage(root, cfg)
			_ = os.RemoveAll(root)
			_ = os.MkdirAll(root, 0755)
			oc := cut
			if strings.HasPrefix(cut, "at:") {
				oc = "durable" // a byte cut guarantees what the durable cut guarantees
			}
			if strings.HasPrefix(cut, "marker:") {
				// same outcome as a crash right after the marker file was created (one event earlier)
				r.crashOracle(k-1, "none", res, d1, d2)
				emit(fmt.Sprintf("E crashat %d none %s", k-1, strings.Join(cfg, " ")), res)
				_ = os.RemoveAll(root)
				continue
			}
			r.crashOracle(k, oc, res, d1, d2)
			cutTok := strings.TrimSuffix(cut, ":hdr")
			emit(fmt.Sprintf("E crashat %d %s %s", k, cutTok, strings.Join(cfg, " ")), res)
			bigLimit := atou(cfg[0]) > 512*1024*1024
			if (strings.HasSuffix(cut, ":hdr") || (strings.HasPrefix(cut, "at:") && r.crashProp == "C03") ||
				(cut == "none" && mmap && bigLimit && r.crashProp == "C03")) && d1 != nil {
				// the recovered database goes on: one more Put, a restart, another restart
				if err := r.shadow.materialize(k, r.dir(), root, cutf); err == nil {
					res := r.continuePlain(k, root, cfg, d1)
					emit(fmt.Sprintf("E crashcontp %d %s %s %s %s", k, cutTok, strings.Join(cfg, " "), contKey, contVal), res)
				}
				_ = os.RemoveAll(root)
				_ = os.MkdirAll(root, 0755)
			}
			if cut == "none" && r.crashProp == "C07" && d1 != nil {
				// later histories: the recovered database deletes a key and merges again (a left-over
				// merge directory must be discarded), then restarts twice
				if err := r.shadow.materialize(k, r.dir(), root, cutf); err == nil {
					line, res := r.continueMerge(k, root, cfg, d1)
					emit(line, res)
				}
				_ = os.RemoveAll(root)
				_ = os.MkdirAll(root, 0755)
			}
			if cut == "none" && r.crashProp == "C04" && d1 != nil {
				// "all later histories": a new process commits one more batch on the crashed
				// image; after the next restart exactly that batch has been added
				if err := r.shadow.materialize(k, r.dir(), root, cutf); err == nil {
					res := r.continueImage(k, root, cfg, d1)
					emit(fmt.Sprintf("E crashcont %d %s %s %s %s", k, cut, strings.Join(cfg, " "), contKey, contVal), res)
				}
				_ = os.RemoveAll(root)
			}
		}
	}
}

const contKey, contVal = "636f6e74", "6e6577"

// continueImage: open the crash image, commit one more batch (one put), close, open again, dump.
// The crashed batch must stay invisible: the result is the recovered mapping plus the one key.
func (r *EngineRunner) continueImage(k int, root string, cfg []string, d1 map[string][]byte) string {
	saved1, saved2, saved3 := fio.VerifEvent, kv.VerifFsEvent, kv.VerifMergeFile
	fio.VerifEvent, kv.VerifFsEvent, kv.VerifMergeFile = nil, nil, nil
	defer func() { fio.VerifEvent, kv.VerifFsEvent, kv.VerifMergeFile = saved1, saved2, saved3 }()
	opts := parseOpts(cfg, filepath.Join(root, "db"))
	db, err := kv.Open(opts)
	if err != nil {
		return "err " + EngErr(err)
	}
	key, _ := ParseTok(contKey)
	val, _ := ParseTok(contVal)
	// Batch ids are snowflake ids from a node created per batch: unique per millisecond only.  The
	// harness replays a crash within microseconds of the original batch, which no real process
	// restart can do: the "new process" starts at least 2 ms after the scenario's latest batch.
	if dt := time.Since(r.lastBatch); dt < 2*time.Millisecond {
		time.Sleep(2*time.Millisecond - dt)
	}
	b := db.NewBatch(kv.BatchOptions{})
	id := b.VerifBatchID()
	_ = b.Put(key, val)
	if err := b.Commit(); err != nil {
		_ = db.Close()
		return "err commit " + EngErr(err)
	}
	_ = db.Close()
	db, err = kv.Open(opts)
	if err != nil {
		r.fail("C04", "crash after %d events, then one more committed batch and a clean restart: Open failed: %s", k, EngErr(err))
		return fmt.Sprintf("ok %d err %s", id, EngErr(err))
	}
	d, derr := dumpDB(db)
	_ = db.Close()
	if derr != nil {
		r.fail("C04", "crash after %d events, then one more committed batch and a clean restart: dump failed: %s", k, EngErr(derr))
		return fmt.Sprintf("ok %d err dump", id)
	}
	want := make(map[string][]byte, len(d1)+1)
	for kk, v := range d1 {
		want[kk] = v
	}
	want[string(key)] = val
	if why, ok := sameMap(want, d); !ok {
		r.fail("C04", "crash after %d events, then one more committed batch (id %d) and a clean restart: the mapping is not the recovered one plus that batch (a crashed batch became visible in part or as a whole): %s", k, id, why)
	}
	return fmt.Sprintf("ok %d %s", id, digestMap(d))
}

// continuePlain: open the crash image (a torn tail is recovered), put one more key, close, open, dump, close,
// open, dump: both dumps must be the recovered mapping plus that key.
func (r *EngineRunner) continuePlain(k int, root string, cfg []string, d1 map[string][]byte) string {
	saved1, saved2, saved3 := fio.VerifEvent, kv.VerifFsEvent, kv.VerifMergeFile
	fio.VerifEvent, kv.VerifFsEvent, kv.VerifMergeFile = nil, nil, nil
	defer func() { fio.VerifEvent, kv.VerifFsEvent, kv.VerifMergeFile = saved1, saved2, saved3 }()
	opts := parseOpts(cfg, filepath.Join(root, "db"))
	db, err := kv.Open(opts)
	if err != nil {
		return "err " + EngErr(err)
	}
	key, _ := ParseTok(contKey)
	val, _ := ParseTok(contVal)
	if err := db.Put(key, val); err != nil {
		_ = db.Close()
		return "err put " + EngErr(err)
	}
	_ = db.Close()
	want := make(map[string][]byte, len(d1)+1)
	for kk, v := range d1 {
		want[kk] = v
	}
	want[string(key)] = val
	out := "ok"
	for round := 1; round <= 2; round++ {
		db, err = kv.Open(opts)
		if err != nil {
			r.fail("C03", "crash after %d events with a tail cut inside a record, recovery, one more Put: restart %d fails: %s", k, round, EngErr(err))
			return out + " err " + EngErr(err)
		}
		d, derr := dumpDB(db)
		_ = db.Close()
		if derr != nil {
			r.fail("C03", "crash after %d events with a tail cut inside a record, recovery, one more Put: dump after restart %d failed: %s", k, round, EngErr(derr))
			return out + " err dump"
		}
		if why, ok := sameMap(want, d); !ok {
			r.fail("C03", "crash after %d events with a tail cut inside a record, recovery, one more Put: after restart %d the mapping is not the recovered one plus that Put: %s", k, round, why)
		}
		out += " " + digestMap(d)
	}
	return out
}

// continueMerge: open the crash image, delete the smallest key, Merge, close, open, dump, close,
// open, dump.  Both dumps must be the recovered mapping without that key.
func (r *EngineRunner) continueMerge(k int, root string, cfg []string, d1 map[string][]byte) (string, string) {
	saved1, saved2, saved3 := fio.VerifEvent, kv.VerifFsEvent, kv.VerifMergeFile
	fio.VerifEvent, kv.VerifFsEvent = nil, nil
	var order []string
	kv.VerifMergeFile = func(id uint32) { order = append(order, fmt.Sprintf("%d", id)) }
	defer func() { fio.VerifEvent, kv.VerifFsEvent, kv.VerifMergeFile = saved1, saved2, saved3 }()
	keys := make([]string, 0, len(d1))
	for kk := range d1 {
		keys = append(keys, kk)
	}
	sort.Strings(keys)
	keyTok := "-"
	var key []byte
	if len(keys) > 0 {
		key = []byte(keys[0])
		keyTok = Obs(key)
	}
	line := fmt.Sprintf("E crashmerge %d none %s %s", k, strings.Join(cfg, " "), keyTok)
	opts := parseOpts(cfg, filepath.Join(root, "db"))
	db, err := kv.Open(opts)
	if err != nil {
		return line, "err " + EngErr(err)
	}
	want := make(map[string][]byte, len(d1))
	for kk, v := range d1 {
		want[kk] = v
	}
	if key != nil {
		if err := db.Delete(key); err != nil {
			_ = db.Close()
			return line, "err delete " + EngErr(err)
		}
		delete(want, string(key))
	}
	merr := db.Merge()
	_ = db.Close()
	res := "ok"
	if merr != nil {
		res = "err " + EngErr(merr)
	}
	res += " order " + strings.Join(order, ",")
	for round := 1; round <= 2; round++ {
		db, err = kv.Open(opts)
		if err != nil {
			r.fail("C07", "crash after %d events, then Delete, Merge and restart %d: Open failed: %s", k, round, EngErr(err))
			return line, res + " err " + EngErr(err)
		}
		d, derr := dumpDB(db)
		_ = db.Close()
		if derr != nil {
			r.fail("C07", "crash after %d events, then Delete, Merge and restart %d: dump failed: %s", k, round, EngErr(derr))
			return line, res + " err dump"
		}
		if why, ok := sameMap(want, d); !ok {
			r.fail("C07", "crash after %d events, then Delete(%s), Merge and restart %d: the mapping is not the recovered one without that key (left-overs of the interrupted merge became visible?): %s", k, keyTok, round, why)
		}
		res += " " + digestMap(d)
	}
	return line, res
}

var _ = bytes.Equal

// holeBatch: E holebatch <nkeys> <blocks>.  A power failure loses unsynced pages in any order, not only a tail: a database
// of its own (standard I/O) holds <nkeys> synced keys and a synced prefix that ends at a block boundary; one batch without
// Sync rewrites every key with a value that makes its record occupy exactly <blocks> blocks; for every record of the batch,
// an image in which the first block of that record reads back as zeros while everything behind it - the batch-finished record
// included - reached the disk.  Every image must open, and show every key with its old value or every key with its new one.
func (r *EngineRunner) holeBatch(nKeys, blocks int) string {
	saved1, saved2, saved3 := fio.VerifEvent, kv.VerifFsEvent, kv.VerifMergeFile
	fio.VerifEvent, kv.VerifFsEvent, kv.VerifMergeFile = nil, nil, nil
	defer func() { fio.VerifEvent, kv.VerifFsEvent, kv.VerifMergeFile = saved1, saved2, saved3 }()
	const block = 32 * 1024
	base, err := os.MkdirTemp(r.Root, "hole")
	if err != nil {
		return "skip"
	}
	defer os.RemoveAll(base)
	dir := filepath.Join(base, "db")
	opts := kv.DefaultOptions
	opts.DirPath = dir
	opts.DataFileSize = 64 * 1024 * 1024
	opts.FileIOType = fio.StandardFIO
	opts.DataFileMergeRatio = 0
	db, err := kv.Open(opts)
	if err != nil {
		return "skip"
	}
	closed := false
	defer func() {
		if !closed {
			_ = db.Close()
		}
	}()
	key := func(i int) []byte { return []byte(fmt.Sprintf("key-%02d", i)) }
	oldVal := func(i int) []byte { return []byte(fmt.Sprintf("old-%02d", i)) }
	for i := 0; i < nKeys; i++ {
		if err := db.Put(key(i), oldVal(i)); err != nil {
			return "skip"
		}
	}
	// a filler record that ends the current block (3 bytes are left: padding)
	rem := block - int(db.VerifActiveSize()%block)
	fillerKey := []byte("filler")
	fillerLen := rem - (7 + 1 + 1 + 3 + 1 + len(fillerKey)) - 3
	if fillerLen < 200 {
		return "skip"
	}
	if err := db.Put(fillerKey, bytes.Repeat([]byte{'f'}, fillerLen)); err != nil {
		return "skip"
	}
	if left := block - int(db.VerifActiveSize()%block); left > 7 && left != block {
		return "skip"
	}
	if err := db.Sync(); err != nil {
		return "skip"
	}
	synced := db.VerifActiveSize()
	b := db.NewBatch(kv.BatchOptions{Sync: false})
	var idBuf [binary.MaxVarintLen64]byte
	idLen := binary.PutUvarint(idBuf[:], b.VerifBatchID())
	newLen := blocks*(block-7) - (1 + 1 + 3 + idLen + len(key(0))) - 3
	newVal := func(i int) []byte { return bytes.Repeat([]byte{byte('A' + i)}, newLen) }
	for i := 0; i < nKeys; i++ {
		if err := b.Put(key(i), newVal(i)); err != nil {
			_ = b.Commit()
			return "skip"
		}
	}
	if err := b.Commit(); err != nil {
		return "skip"
	}
	var starts []int64
	for i := 0; i < nKeys; i++ {
		p := db.VerifPos(key(i))
		if p == nil || p.Offset != 0 || int64(p.BlockID)*block < synced || p.Fid != 0 {
			return "skip" // the layout is not the one this experiment is about
		}
		starts = append(starts, int64(p.BlockID)*block)
	}
	_ = db.Close()
	closed = true
	images := 0
	for lost := 0; lost < nKeys; lost++ {
		img := filepath.Join(base, fmt.Sprintf("img%d", lost))
		if err := utils.CopyDir(dir, img, []string{datafile.FileLockSuffix}); err != nil {
			continue
		}
		name := datafile.GetFileName(img, 0, datafile.DataFileSuffix)
		f, err := os.OpenFile(name, os.O_RDWR, 0644)
		if err != nil {
			continue
		}
		_, werr := f.WriteAt(make([]byte, block), starts[lost])
		_ = f.Close()
		if werr != nil {
			continue
		}
		images++
		o2 := opts
		o2.DirPath = img
		func() {
			defer func() {
				if e := recover(); e != nil {
					r.fail("C04", "power failure that lost the block at %d of an unsynced batch (record %d of %d, %d block(s) each): Open panicked: %v", starts[lost], lost, nKeys, blocks, e)
				}
			}()
			db2, err := kv.Open(o2)
			if err != nil {
				r.fail("C03", "power failure that lost the block at %d of an unsynced batch (record %d of %d): Open failed: %s", starts[lost], lost, nKeys, EngErr(err))
				return
			}
			defer db2.Close()
			nNew, nOld := 0, 0
			var state []string
			for i := 0; i < nKeys; i++ {
				v, err := db2.Get(key(i))
				switch {
				case err == nil && bytes.Equal(v, newVal(i)):
					nNew++
					state = append(state, "new")
				case err == nil && bytes.Equal(v, oldVal(i)):
					nOld++
					state = append(state, "old")
				default:
					state = append(state, "other")
				}
			}
			if nNew != nKeys && nOld != nKeys {
				r.fail("C04", "power failure that lost the block at %d of an unsynced batch (record %d of %d, %d block(s) each) while the rest of the batch reached the disk: after the restart the batch is visible in part: %v", starts[lost], lost, nKeys, blocks, state)
			}
		}()
		_ = os.RemoveAll(img)
	}
	if images == 0 {
		return "skip"
	}
	return "ok"
}

// orphanBatch: E orphanbatch <nkeys>.  A database of its own (standard I/O, a small file limit): nkeys synced keys; then,
// up to 300 times: batch A rewrites every key (its pieces overflow and are flushed as it goes) and its Commit meets an
// operating system that refuses the write (the error is reported); batch B, begun right after, puts one more key and
// commits.  After a restart the keys of A show all old values or all new values - whatever ids the engine gave the two
// batches.  (Pieces of A that reached the disk are orphans; they may not be adopted by the finished-record of B.)
func (r *EngineRunner) orphanBatch(nKeys int) string {
	saved1, saved2, saved3 := fio.VerifEvent, kv.VerifFsEvent, kv.VerifMergeFile
	fio.VerifEvent, kv.VerifFsEvent, kv.VerifMergeFile = nil, nil, nil
	defer func() { fio.VerifEvent, kv.VerifFsEvent, kv.VerifMergeFile = saved1, saved2, saved3 }()
	base, err := os.MkdirTemp(r.Root, "orph")
	if err != nil {
		return "skip"
	}
	defer os.RemoveAll(base)
	key := func(i int) []byte { return []byte(fmt.Sprintf("key-%02d", i)) }
	oldVal := func(i int) []byte { return []byte(fmt.Sprintf("old-%02d", i)) }
	newVal := func(round, i int) []byte { return bytes.Repeat([]byte{byte('A' + i)}, 60+round%7) }
	sameID, rounds, inj := 0, 0, 0
	for round := 0; round < 300 && sameID < 3; round++ {
		rounds++
		dir := filepath.Join(base, fmt.Sprintf("db%d", round))
		opts := kv.DefaultOptions
		opts.DirPath = dir
		opts.DataFileSize = 300
		opts.FileIOType = fio.StandardFIO
		opts.DataFileMergeRatio = 0
		db, err := kv.Open(opts)
		if err != nil {
			return "skip"
		}
		for i := 0; i < nKeys; i++ {
			_ = db.Put(key(i), oldVal(i))
		}
		_ = db.Sync()
		a := db.NewBatch(kv.BatchOptions{})
		ida := a.VerifBatchID()
		for i := 0; i < nKeys; i++ {
			_ = a.Put(key(i), newVal(round, i))
		}
		// the active file is the newest one in the directory (the batch holds the engine lock: no accessor may be used)
		var amax uint32
		found := false
		if ents, err := os.ReadDir(dir); err == nil {
			for _, e := range ents {
				var id uint32
				if n, _ := fmt.Sscanf(e.Name(), "%d", &id); n == 1 && strings.HasSuffix(e.Name(), string(datafile.DataFileSuffix)) && (!found || id >= amax) {
					amax, found = id, true
				}
			}
		}
		var cerr error
		injected := found && r.withRefusedWritesIn(dir, datafile.GetFileName(dir, amax, datafile.DataFileSuffix), func() { cerr = a.Commit() })
		if !injected {
			_ = a.Commit()
			_ = db.Close()
			_ = os.RemoveAll(dir)
			continue
		}
		b := db.NewBatch(kv.BatchOptions{})
		idb := b.VerifBatchID()
		_ = b.Put([]byte("other"), []byte("x"))
		berr := b.Commit()
		_ = db.Close()
		if cerr == nil || berr != nil {
			_ = os.RemoveAll(dir)
			continue
		}
		inj++
		if ida == idb {
			sameID++
		}
		db2, err := kv.Open(opts)
		if err != nil {
			r.fail("C04", "a batch whose Commit was refused, a committed batch, a restart: Open failed: %s", EngErr(err))
			_ = os.RemoveAll(dir)
			continue
		}
		nNew, nOld := 0, 0
		var state []string
		for i := 0; i < nKeys; i++ {
			v, err := db2.Get(key(i))
			switch {
			case err == nil && bytes.Equal(v, newVal(round, i)):
				nNew++
				state = append(state, "new")
			case err == nil && bytes.Equal(v, oldVal(i)):
				nOld++
				state = append(state, "old")
			default:
				state = append(state, "other")
			}
		}
		_ = db2.Close()
		_ = os.RemoveAll(dir)
		if nNew != nKeys && nOld != nKeys {
			r.fail("C04", "a batch of %d puts flushed in pieces whose Commit failed (batch id %d), then a committed batch (batch id %d), then a restart: the failed batch is visible in part: %v", nKeys, ida, idb, state)
			break
		}
	}
	if inj == 0 {
		return "skip"
	}
	return fmt.Sprintf("ok # rounds=%d refused-commits=%d same-id=%d", rounds, inj, sameID)
}
