package vh

import (
	"flag"
	"fmt"
	"os"
	"path/filepath"

	"verifharness/translate"
)

func init() {
	extraCommands["translate"] = func(args []string) {
		fs := flag.NewFlagSet("translate", flag.ExitOnError)
		repo := fs.String("repo", "/repo", "repository root")
		out := fs.String("out", "", "coq/gen directory")
		_ = fs.Parse(args)
		if err := translate.GenConsts(*repo, filepath.Join(*out, "GenConsts.v")); err != nil {
			fmt.Fprintln(os.Stderr, "translate:", err)
			os.Exit(1)
		}
		for _, f := range translate.Extra {
			if err := f(*repo, *out); err != nil {
				fmt.Fprintln(os.Stderr, "translate:", err)
				os.Exit(1)
			}
		}
	}
}
