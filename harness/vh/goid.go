package vh

import (
	"runtime"
	"strconv"
	"strings"
)

// goid returns the id of the calling goroutine (parsed from the stack header; harness use only).
func goid() int64 {
	var buf [64]byte
	n := runtime.Stack(buf[:], false)
	f := strings.Fields(string(buf[:n]))
	if len(f) < 2 {
		return -1
	}
	id, _ := strconv.ParseInt(f[1], 10, 64)
	return id
}
