package vh

import (
	"fmt"
	"strings"
)

// GenConcScript (C08 / C09): stepped schedules of two to four clients on overlapping keys, writers
// parked inside their critical sections, and free-running stress (some with a concurrent Merge).
// GenMixScript (C09): a few records, then every kind of call at once from 2 to 16 goroutines, for a
// drawn index type and small files that force rotations.
func GenMixScript(r *Rng, hist map[string]int) []string {
	var out []string
	add := func(format string, a ...interface{}) { out = append(out, "E "+fmt.Sprintf(format, a...)) }
	o := EngineGenOpts{FixedIO: -1}
	c := genCfg(r, o, hist)
	c.fsize = r.Pick(700, 4096, 4096, 40960)
	add("dir db")
	add("open %s", c)
	for i := 0; i < 6; i++ {
		add("put %x @%d:%d", fmt.Sprintf("mk%02d", i), 1+r.Intn(40), r.Intn(99999))
	}
	add("concmix %d %d %d", r.Pick(2, 3, 4, 8, 16), 20+r.Intn(60), r.Intn(1<<30))
	hist["conc_mix"]++
	add("close")
	return out
}

// concForceAlways makes every generated configuration use SyncStrategy Always (C13's concurrent part).
var concForceAlways bool

func GenConcScript(r *Rng, stress bool, hist map[string]int) []string {
	var out []string
	add := func(format string, a ...interface{}) { out = append(out, "E "+fmt.Sprintf(format, a...)) }
	o := EngineGenOpts{FixedIO: -1}
	c := genCfg(r, o, hist)
	if r.Chance(1, 2) {
		c.fsize = r.Pick(200, 700, 4096) // rotations during the run
	}
	if stress && r.Chance(1, 2) {
		c.shards = r.Pick(1, 2, 3) // many index entries per shard
	}
	if concForceAlways {
		c.sync = 1
		c.fsize = r.Pick(200, 700, 4096, 1<<20)
	}
	static := 0
	if stress && r.Chance(1, 2) {
		static = r.Pick(300, 3000)
		hist["conc_stress_with_static_population"]++
		if r.Chance(2, 3) {
			// one data file of many blocks: readers of different blocks of one file at the same moment
			c.fsize = 1 << 20
			hist["conc_stress_static_population_in_one_file"]++
		}
	}
	add("dir db")
	add("open %s", c)
	keys := []string{"6b31", "6b32", "6b33"}
	val := func() string { return fmt.Sprintf("@%d:%d", 1+r.Intn(30), r.Intn(99999)) }
	for i := r.Intn(4); i > 0; i-- {
		add("put %s %s", keys[r.Intn(3)], val())
	}
	if stress {
		for i := 0; i < 12; i++ {
			add("put %s %s", fmt.Sprintf("%x", fmt.Sprintf("ck%02d", r.Intn(4))), val())
		}
		add("concstress %d %d %d %d %d %d", 2+r.Intn(7), 10+r.Intn(25), 2+r.Intn(3), r.Intn(1<<30), r.Intn(2), static)
		hist["conc_stress"]++
		add("close")
		return out
	}
	rounds := 2 + r.Intn(5)
	for round := 0; round < rounds; round++ {
		if r.Chance(1, 5) {
			// a Merge with another client's Put / Delete calls between its scan steps (enough of them to
			// rotate the active file when the file limit is small), then a restart
			racing := func(n int) string {
				if n == 0 {
					return "-"
				}
				var xs []string
				for j := 0; j < n; j++ {
					k := keys[r.Intn(3)]
					if r.Chance(1, 4) {
						xs = append(xs, "d,"+k)
					} else {
						xs = append(xs, "p,"+k+","+val())
					}
				}
				return strings.Join(xs, ";")
			}
			spec := racing(r.Pick(0, 1, 3, 6))
			for j := 1 + r.Intn(6); j > 0; j-- {
				spec += "|" + racing(r.Pick(0, 1, 2, 5))
			}
			add("mergei %s", spec)
			hist["conc_merge_racing"]++
			add("dump")
			add("close")
			c = genCfg(r, o, hist)
			add("open %s", c)
			add("dump")
			continue
		}
		if r.Chance(1, 8) {
			// a running Merge probed by two more Merge calls (both must be refused), then a restart
			for i := 1 + r.Intn(4); i > 0; i-- {
				add("put %s %s", keys[r.Intn(3)], val())
			}
			add("del %s", keys[r.Intn(3)])
			add("mergebusy")
			hist["conc_merge_probed_by_merges"]++
			add("put %s %s", keys[r.Intn(3)], val())
			add("dump")
			add("close")
			c = genCfg(r, o, hist)
			add("open %s", c)
			add("dump")
			continue
		}
		if r.Chance(1, 6) {
			// a Merge with another client's Gets issued at every step of it (keys written last live in the
			// file the merge rotates out)
			for i := 1 + r.Intn(4); i > 0; i-- {
				add("put %s %s", keys[r.Intn(3)], val())
			}
			if r.Chance(1, 3) {
				add("del %s", keys[r.Intn(3)])
			}
			add("mergeget")
			hist["conc_merge_with_reads"]++
			add("dump")
			continue
		}
		if r.Chance(1, 3) {
			// a writer parked inside its critical section
			label := r.PickS("put.appended", "delete.checked", "delete.appended")
			k := keys[r.Intn(3)]
			a := "p," + k + "," + val()
			if label != "put.appended" {
				a = "d," + k
			}
			k2 := keys[r.Intn(3)]
			if r.Chance(1, 2) {
				k2 = k
			}
			b := r.PickS("p,"+k2+","+val(), "d,"+k2, "g,"+k2)
			add("concpark %s %s %s", label, a, b)
			hist["conc_park_"+label]++
			add("dump")
			continue
		}
		n := 2 + r.Intn(3)
		var progs []string
		var actions []int
		for t := 0; t < n; t++ {
			var calls []string
			for j := 1 + r.Intn(4); j > 0; j-- {
				k := keys[r.Intn(3)]
				if r.Chance(1, 12) {
					k = "-"
				}
				switch x := r.Intn(10); {
				case x < 4:
					calls = append(calls, "p,"+k+","+val())
					actions = append(actions, t)
				case x < 6:
					calls = append(calls, "d,"+k)
					actions = append(actions, t)
				default:
					calls = append(calls, "g,"+k)
					actions = append(actions, t)
					if k != "-" {
						actions = append(actions, t) // index lookup, then file read
					}
				}
			}
			progs = append(progs, strings.Join(calls, ";"))
		}
		// a random interleaving that keeps every client's own order
		for i := len(actions) - 1; i > 0; i-- {
			j := r.Intn(i + 1)
			actions[i], actions[j] = actions[j], actions[i]
		}
		var sched []string
		for _, a := range actions {
			sched = append(sched, fmt.Sprint(a))
		}
		add("concsched %s %s", strings.Join(progs, "/"), strings.Join(sched, ","))
		hist["conc_sched"]++
		hist[fmt.Sprintf("conc_clients_%d", n)]++
		add("dump")
	}
	add("dump")
	add("close")
	add("open %s", genCfg(r, o, hist))
	add("dump")
	add("close")
	return out
}

func init() {
	extraCommands["concgen"] = func(args []string) {
		fs := newFlagSet("concgen")
		seed := fs.Uint64("seed", 1, "seed")
		n := fs.Int("n", 40, "scenarios")
		out := fs.String("out", "", "output")
		histp := fs.String("hist", "", "histogram output")
		kind := fs.String("kind", "quick", "tier")
		stressEvery := fs.Int("stress", 4, "every n-th scenario is a stress scenario")
		mix := fs.Bool("mix", false, "C09: only scenarios that mix every kind of call")
		always := fs.Bool("always", false, "C13: stress scenarios under SyncStrategy Always")
		_ = fs.Parse(args)
		concForceAlways = *always
		_ = kind
		r := NewRng(*seed)
		h := map[string]int{}
		var lines []string
		for i := 0; i < *n; i++ {
			lines = append(lines, fmt.Sprintf("S %d", i))
			if *mix {
				if i%12 == 5 {
					// the engine's own background goroutine (EnableBackgroundMerge) next to the clients
					o := EngineGenOpts{FixedIO: 0}
					c := genCfg(r, o, h)
					c.fsize = r.Pick(4096, 40960)
					lines = append(lines, "E dir db", fmt.Sprintf("E concbg %s %d", c, 1300+r.Intn(400)))
					h["conc_background_merge"]++
					continue
				}
				lines = append(lines, GenMixScript(r, h)...)
				continue
			}
			lines = append(lines, GenConcScript(r, *stressEvery > 0 && i%*stressEvery == *stressEvery-1, h)...)
		}
		writeLines(*out, lines)
		writeHistFile(*histp, h)
	}
}
