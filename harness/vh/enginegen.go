package vh

import (
	"fmt"
	"strings"
)

// EngineGenOpts selects which features a generated engine scenario uses.
type EngineGenOpts struct {
	Restarts      bool // close/open with an independently drawn configuration
	Batches       bool
	Merges        bool
	Backups       bool
	BigVals       bool // values around / above a block and above DataFileSize
	Ops           int  // approximate number of operations
	FixedIO       int  // -1: draw, else force this FileIOType
	HostileCaller bool
	Collide       bool // some scenarios stage keys whose XXH64 hashes collide
	HostileSome   bool // a third of the scenarios are run by the hostile caller (buffers reused and overwritten after every call)
	MergeHeavy    bool // several merges per scenario, each followed by restarts (adoption, second restart), small files
	RacingMerge   bool // with MergeHeavy: some merges run with Put / Delete calls of another client between the scan steps
	BackupCycle   bool // some scenarios refresh one backup directory around an adopted merge of uniform-size records
}

type cfgGen struct {
	fsize, sync, bps, io, idx, shards int
}

func (c cfgGen) String() string {
	return fmt.Sprintf("%d %d %d %d %d %d", c.fsize, c.sync, c.bps, c.io, c.idx, c.shards)
}

func genCfg(r *Rng, o EngineGenOpts, hist map[string]int) cfgGen {
	c := cfgGen{}
	c.fsize = r.Pick(64, 200, 700, 4096, 4096, 40960, 1<<20)
	c.sync = r.Intn(3)
	c.bps = r.Pick(1, 50, 300, 5000)
	c.io = 0
	if r.Chance(1, 4) {
		c.io = 1
	}
	if o.FixedIO >= 0 {
		c.io = o.FixedIO
	}
	c.idx = 1 + r.Intn(3)
	c.shards = r.Pick(1, 2, 3, 16, 1024, 5000, 0, -1, 1<<40)
	hist[fmt.Sprintf("cfg_fsize_%d", c.fsize)]++
	hist[fmt.Sprintf("cfg_sync_%d", c.sync)]++
	hist[fmt.Sprintf("cfg_io_%d", c.io)]++
	hist[fmt.Sprintf("cfg_idx_%d", c.idx)]++
	hist[fmt.Sprintf("cfg_shards_%d", c.shards)]++
	return c
}

var engKeys = []string{"6b31", "6b32", "6b33", "61", "6162", "616263", "80ff81", "7a"}

func genEngKey(r *Rng, hist map[string]int) string {
	switch r.Intn(40) {
	case 0:
		hist["key_empty"]++
		return "-"
	case 1:
		hist["key_long"]++
		return fmt.Sprintf("@%d:%d", 200+r.Intn(300), r.Intn(5))
	}
	return engKeys[r.Intn(len(engKeys))]
}

func genEngVal(r *Rng, o EngineGenOpts, c cfgGen, hist map[string]int) string {
	n := 0
	k := r.Intn(20)
	switch {
	case k == 0:
		hist["val_empty"]++
		return "-"
	case k <= 12:
		n = 1 + r.Intn(40)
		hist["val_small"]++
	case k <= 15:
		n = 40 + r.Intn(400)
		hist["val_medium"]++
	case k == 16 && o.BigVals:
		n = bs - 60 + r.Intn(90)
		hist["val_about_block"]++
	case k == 17 && o.BigVals:
		n = r.Pick(bs+1, 2*bs-20+r.Intn(40), 3*bs+r.Intn(100))
		hist["val_multi_block"]++
	case k == 18:
		// around the file-size limit
		n = c.fsize - 80 + r.Intn(120)
		if n < 1 {
			n = 1
		}
		if n > 70000 {
			n = 70000
		}
		hist["val_about_filesize"]++
	default:
		n = 1 + r.Intn(100)
		hist["val_small"]++
	}
	return fmt.Sprintf("@%d:%d", n, r.Intn(100000))
}

// GenEngineScript produces one engine-layer scenario.
func GenEngineScript(r *Rng, o EngineGenOpts, hist map[string]int) []string {
	var out []string
	add := func(format string, a ...interface{}) { out = append(out, "E "+fmt.Sprintf(format, a...)) }
	c := genCfg(r, o, hist)
	steer := o.BigVals && r.Chance(1, 3)
	if steer {
		c.fsize = 1 << 20
	}
	src := "db"
	if o.Backups && r.Chance(1, 6) {
		// a data directory whose name contains characters that are special in shell patterns
		src = r.PickS("db[1]", "d*b", "db?", "db]x[", "{db}")
		hist["source_dir_name_with_pattern_characters"]++
	}
	add("dir %s", src)
	if o.Backups && r.Chance(1, 6) {
		// the data directory is given as a symbolic link (say /var/lib/app/data -> /mnt/disk2/data)
		add("linkdir")
		hist["data_directory_is_a_symbolic_link"]++
	}
	if o.MergeHeavy && r.Chance(1, 4) {
		// the same directory spelled with and without a trailing separator across restarts
		add("pathstyle %d", r.Pick(1, 2, 2))
		hist["dirpath_spelling_varies"]++
	} else if o.Backups && r.Chance(1, 5) {
		// a DirPath that is not in canonical form: trailing separator, "/./", doubled separator
		add("pathstyle %d", r.Pick(1, 3, 4))
		hist["dirpath_not_canonical"]++
	}
	hostileScenario := false
	if o.HostileCaller || (o.HostileSome && r.Chance(1, 3)) {
		add("hostile 1")
		hist["hostile_caller"]++
		hostileScenario = true
	}
	add("open %s", c)
	if steer {
		// records that end within 8 bytes of a block boundary (the file offset is known: the
		// database is fresh and the file limit is far away)
		st := &fileState{}
		if r.Chance(1, 3) {
			// two versions of one key, of one length, at the SAME in-block offset of consecutive blocks of one file
			// (a filler record ends exactly on the block boundary): positions that differ in the block id only
			key := engKeys[r.Intn(3)]
			klen := len(key) / 2
			vl := 1 + r.Intn(50)
			e1 := encLen(klen, vl, 0)
			if fill := valueLenForEnd(e1+7, 2, 0, 0, bs); fill > 0 {
				add("put %s @%d:%d", key, vl, r.Intn(99999))
				st.advance(e1)
				add("put 7a7a @%d:%d", fill, r.Intn(99999))
				st.advance(encLen(2, fill, 0))
				add("put %s @%d:%d", key, vl, r.Intn(99999))
				st.advance(e1)
				add("pos %s", key)
				hist["steered_same_offset_in_next_block"]++
			}
		}
		ns := 1 + r.Intn(3)
		for i := 0; i < ns; i++ {
			key := engKeys[r.Intn(3)]
			klen := len(key) / 2
			blocks := r.Pick(0, 0, 1, 2)
			end := bs - 8 + r.Intn(17)
			v := valueLenForEnd(st.off, klen, 0, blocks, end)
			if v <= 0 {
				break
			}
			add("put %s @%d:%d", key, v, r.Intn(99999))
			st.advance(encLen(klen, v, 0))
			hist["steered_end_near_boundary"]++
			// whatever is written next starts right at / after the boundary
			k2 := engKeys[3+r.Intn(3)]
			v2 := 1 + r.Intn(50)
			add("put %s @%d:%d", k2, v2, r.Intn(99999))
			st.advance(encLen(len(k2)/2, v2, 0))
			add("get %s", key)
			add("get %s", k2)
		}
	}
	if o.MergeHeavy {
		c.fsize = r.Pick(64, 64, 200, 200, 700, 4096)
	}
	nops := o.Ops/2 + r.Intn(o.Ops)
	backupN := 0
	bigFileDone, prefixNameDone := false, false
	var backups []string
	inspect := func() {
		add("dump")
		add("list")
		add("fold")
		if r.Chance(1, 2) {
			add("foldn %d", r.Pick(0, 1, 2, 3, 5, 100))
			hist["fold_stopped_by_callback"]++
		}
		add("stat")
		for _, k := range engKeys {
			add("get %s", k)
		}
	}
	for i := 0; i < nops; i++ {
		x := r.Intn(100)
		if hostileScenario && (r.Chance(1, 10) || i == nops-1) {
			// several callers read the same few keys at the same moment and each scribbles over what it got
			add("hostileget %d %d", 4+r.Intn(5), 100+r.Intn(200))
			hist["hostile_concurrent_gets"]++
		}
		if o.MergeHeavy && r.Chance(1, 8) {
			// merge, perhaps more writes, then the adopting restart and a second restart
			hist["op_merge_cycle"]++
			if o.RacingMerge && r.Chance(2, 3) {
				// another client writes while the merge scans
				racing := func(n int) string {
					if n == 0 {
						return "-"
					}
					var xs []string
					for j := 0; j < n; j++ {
						k := engKeys[r.Intn(len(engKeys))]
						if r.Chance(1, 3) {
							xs = append(xs, "d,"+k)
						} else {
							v := genEngVal(r, o, c, hist)
							if v == "-" {
								v = "00"
							}
							xs = append(xs, "p,"+k+","+v)
						}
					}
					return strings.Join(xs, ";")
				}
				spec := racing(r.Pick(0, 0, 1, 2, 4))
				for j := r.Intn(8); j > 0; j-- {
					spec += "|" + racing(r.Pick(0, 0, 1, 1, 2))
				}
				if r.Chance(1, 3) {
					// the racing calls run when Merge writes a rewritten record (between the liveness check
					// of that record and its hint entry), and they go for live keys
					spec = racing(r.Pick(0, 0, 1))
					for j := 1 + r.Intn(6); j > 0; j-- {
						spec += "|" + racing(r.Pick(0, 1, 1, 2))
					}
					add("mergew %s", spec)
					hist["op_merge_racing_at_rewrite"]++
				} else {
					add("mergei %s", spec)
				}
				hist["op_merge_racing"]++
			} else if r.Chance(1, 4) {
				// the same merge, probed by two more Merge calls while it runs: both must be refused
				add("mergebusy")
				hist["op_merge_probed_while_running"]++
			} else {
				add("merge")
			}
			add("hintcheck")
			add("dump")
			add("files")
			for j := r.Intn(4); j > 0; j-- {
				switch r.Intn(4) {
				case 0:
					add("del %s", genEngKey(r, hist))
				case 1:
					if o.Batches {
						add("batch 0")
						add("bput %s %s", genEngKey(r, hist), genEngVal(r, o, c, hist))
						add("bdel %s", genEngKey(r, hist))
						add("commit")
						break
					}
					fallthrough
				default:
					add("put %s %s", genEngKey(r, hist), genEngVal(r, o, c, hist))
				}
			}
			if r.Chance(1, 5) {
				add("merge")
				add("files")
				hist["op_merge_twice"]++
			}
			if r.Chance(4, 5) {
				inspect()
				add("close")
				add("files")
				c = genCfg(r, o, hist)
				if r.Chance(2, 3) {
					c.fsize = r.Pick(64, 200, 700, 4096)
				}
				add("open %s", c)
				inspect()
				add("files")
				// the index built through the hint file: position and size of every key
				for _, k := range engKeys {
					add("pos %s", k)
				}
				if r.Chance(1, 2) {
					add("close")
					c = genCfg(r, o, hist)
					add("open %s", c)
					inspect()
					add("files")
					// ... and the index built by scanning the same files
					for _, k := range engKeys {
						add("pos %s", k)
					}
				}
			}
			continue
		}
		switch {
		case x < 38:
			add("put %s %s", genEngKey(r, hist), genEngVal(r, o, c, hist))
			hist["op_put"]++
		case x < 50:
			add("del %s", genEngKey(r, hist))
			hist["op_del"]++
		case x < 62:
			add("get %s", genEngKey(r, hist))
			hist["op_get"]++
		case x < 66:
			add("stat")
			hist["op_stat"]++
		case x < 69:
			add("list")
			hist["op_list"]++
		case x < 71:
			add("fold")
			hist["op_fold"]++
		case x < 74:
			add("sync")
			hist["op_sync"]++
		case x < 77:
			add("pos %s", engKeys[r.Intn(len(engKeys))])
		case x < 85 && o.Batches:
			hist["op_batch"]++
			bsync := r.Intn(2)
			add("batch %d", bsync)
			nb := 1 + r.Intn(8)
			if r.Chance(1, 6) {
				nb = 10 + r.Intn(30)
			}
			stray := r.Chance(1, 4)
			if c.fsize >= 1<<17 && r.Chance(1, 2) {
				// the first record of the batch ends 1-6 bytes before a block boundary; the next one follows in the same flush
				add("bpadto %d %s %d", 1+r.Intn(6), genEngKey(r, hist), r.Intn(99999))
				add("bput %s %s", genEngKey(r, hist), genEngVal(r, o, c, hist))
				hist["op_batch_record_ending_in_block_tail"]++
			}
			for j := 0; j < nb; j++ {
				if stray && r.Chance(1, 3) {
					// a stray call through the handle of the previous, committed batch
					add("bold %s %s %s", r.PickS("p", "p", "d", "g", "c"), engKeys[r.Intn(len(engKeys))], genEngVal(r, o, c, hist))
					hist["op_stray_call_through_committed_batch_handle"]++
				}
				if o.Collide && r.Chance(1, 5) {
					// two goroutines stage the same fresh key through one batch at the same moment (the batch has a lock
					// of its own for that), then the key is deleted through the batch: nothing of it may be left
					add("bracers %02x%02x %d @%d:%d", 0x72, j, 40+r.Intn(80), 1+r.Intn(12), r.Intn(999))
					hist["op_batch_racing_puts_of_one_key"]++
				}
				if r.Chance(1, 12) {
					// a reader of the batch races with Puts of the same key through the batch
					add("bgetrace %s %d %d", genEngKey(r, hist), 100+r.Intn(200), r.Pick(64, 700, 4096, 30000))
					hist["op_batch_get_racing_put"]++
				}
				y := r.Intn(10)
				switch {
				case y < 5 && bsync == 0 && r.Chance(1, 8):
					// a Put whose overflow flush goes through while the Sync of the rotation behind it is refused; Commit then
					// still owes the finished-record of the pieces that were flushed
					add("bputsyncfail %s %s", genEngKey(r, hist), genEngVal(r, o, c, hist))
					hist["op_batch_put_with_refused_sync_after_flush"]++
				case y < 5 && r.Chance(1, 6):
					// a Put whose overflow flush (when one is due) the operating system refuses
					add("bputfail %s %s", genEngKey(r, hist), genEngVal(r, o, c, hist))
					hist["op_batch_put_with_refused_flush"]++
				case y < 5:
					add("bput %s %s", genEngKey(r, hist), genEngVal(r, o, c, hist))
				case y < 7:
					add("bdel %s", genEngKey(r, hist))
				default:
					add("bget %s", genEngKey(r, hist))
				}
			}
			if r.Chance(1, 4) {
				// the operating system refuses the write of this Commit: nothing of the batch becomes visible, and the
				// next batch commits as if this one had never been
				add("commitfail")
				add("commit") // rejected as a second Commit - or the Commit itself when the fault could not be injected
				add("dump")
				add("batch %d", r.Intn(2))
				add("bput %s %s", genEngKey(r, hist), genEngVal(r, o, c, hist))
				if r.Chance(1, 2) {
					add("bdel %s", genEngKey(r, hist))
				}
				hist["op_commit_refused_by_os"]++
			}
			add("commit")
			add("dump")
			if r.Chance(1, 8) {
				// a batch committed empty, and committed again: the second Commit is refused and releases nothing
				add("batch %d", r.Intn(2))
				add("commit")
				add("commit")
				add("put %s %s", genEngKey(r, hist), genEngVal(r, o, c, hist))
				hist["op_empty_batch_committed_twice"]++
			}
			if r.Chance(1, 5) {
				// use after commit must be rejected
				add("bput 6b31 01")
				add("bget 6b31")
				add("bdel 6b31")
				add("commit")
				hist["op_use_after_commit"]++
			}
			add("stat")
		case x < 90 && o.Merges:
			hist["op_merge"]++
			add("merge")
			add("hintcheck")
			add("dump")
			add("files")
			add("stat")
		case x < 93 && o.Backups:
			if r.Chance(1, 3) {
				// the last record of the active file ends with zero bytes
				add("put %s %s", engKeys[r.Intn(len(engKeys))], r.PickS("00", "ab0000", "0000000000", "6100"))
				hist["val_trailing_zeros"]++
			}
			if c.fsize == 1<<20 && !bigFileDone && r.Chance(1, 2) {
				// a data file larger than 1 MiB (a record larger than the file limit gets a file of its own)
				bigFileDone = true
				add("put 6b32 @%d:%d", 1<<20+3000+r.Intn(90000), r.Intn(99999))
				hist["backup_of_file_over_1MiB"]++
			}
			backupN++
			name := fmt.Sprintf("bk%d", backupN)
			if src == "db" && !prefixNameDone && r.Chance(1, 5) {
				// the backup directory's name is a proper prefix of the data directory's name ("d" / "db")
				prefixNameDone = true
				name = "d"
				hist["backup_dir_name_prefix_of_source"]++
			}
			backups = append(backups, name)
			if r.Chance(1, 4) {
				// another client reads while the backup runs
				add("backupget %s", name)
				hist["op_backup_with_reads"]++
			} else {
				add("backup %s", name)
			}
			hist["op_backup"]++
			if c.io == 1 && r.Chance(1, 2) {
				// a large first write after a memory-mapped backup
				add("put 6b31 @%d:%d", 40000+r.Intn(30000), r.Intn(99))
			}
		case x < 97 && o.Restarts:
			hist["op_restart"]++
			inspect()
			add("files")
			add("close")
			add("files")
			if o.Backups && r.Chance(1, 3) {
				// a cold data file moved to another volume and linked back: the engine reads it through the link
				add("linkfile %d", r.Intn(8))
				hist["data_file_is_a_symbolic_link"]++
			}
			c = genCfg(r, o, hist)
			add("open %s", c)
			inspect()
		default:
			add("get %s", genEngKey(r, hist))
		}
	}
	inspect()
	add("files")
	add("close")
	add("files")
	if o.Restarts {
		c = genCfg(r, o, hist)
		add("open %s", c)
		inspect()
		add("close")
		if r.Chance(1, 2) {
			c = genCfg(r, o, hist)
			add("open %s", c)
			inspect()
			add("put 7a7a 01")
			add("close")
		}
	}
	for _, b := range backups {
		add("dir %s", b)
		c2 := genCfg(r, o, hist)
		add("open %s", c2)
		inspect()
		add("put 6b31 02")
		add("close")
	}
	if len(backups) > 0 && o.Restarts {
		// the source must be unaffected by its backups
		add("dir %s", src)
		add("open %s", genCfg(r, o, hist))
		inspect()
		add("close")
	}
	if o.Restarts && !o.MergeHeavy && r.Chance(1, 5) {
		// a Close that cannot flush the active file (several files exist: small limit, a few writes): it must say so
		cf := genCfg(r, o, hist)
		cf.io = 0
		cf.fsize = r.Pick(64, 200, 700)
		add("dir %s", src)
		add("open %s", cf)
		for i := 3 + r.Intn(8); i > 0; i-- {
			add("put %s %s", genEngKey(r, hist), genEngVal(r, o, cf, hist))
		}
		add("closenoflush")
		hist["close_with_refused_flush"]++
		return out
	}
	if (o.MergeHeavy || (o.Merges && o.Restarts)) && r.Chance(1, 3) {
		// the database is closed while a Merge is in the middle of its scan
		cm := genCfg(r, o, hist)
		cm.io = 0
		add("dir %s", src)
		add("open %s", cm)
		for i := 2 + r.Intn(10); i > 0; i-- {
			add("put %s %s", genEngKey(r, hist), genEngVal(r, o, cm, hist))
		}
		add("del %s", engKeys[r.Intn(len(engKeys))])
		add("mergeclose %d", r.Pick(0, 1, 2, 5, 20))
		hist["close_during_merge_scan"]++
	}
	return out
}

// GenBackupCycle: records of one size fill two or three files; backup; one group is deleted; merge;
// the adopting restart (rewritten files take the ids, and with uniform records the sizes, of the
// originals); a second backup into the SAME directory; the copy is opened and inspected.
func GenBackupCycle(r *Rng, o EngineGenOpts, hist map[string]int) []string {
	var out []string
	add := func(format string, a ...interface{}) { out = append(out, "E "+fmt.Sprintf(format, a...)) }
	bk := r.PickS("bk", "bk", "bk", "d")
	c := genCfg(r, o, hist)
	c.fsize = r.Pick(200, 700)
	vlen := r.Pick(10, 20, 33)
	per := c.fsize / (encLen(3, vlen, 0) + 7)
	if per < 2 {
		per = 2
	}
	groups := 2 + r.Intn(2)
	key := func(g, i int) string { return fmt.Sprintf("%02x%02x%02x", 0x6b, g, i) }
	missing := false
	if r.Chance(1, 2) {
		// the backup directory was a database before, and a finished merge of that database still waits beside it
		cf := genCfg(r, o, hist)
		cf.fsize = r.Pick(200, 700)
		add("dir %s", bk)
		add("open %s", cf)
		for i := 0; i < 2*per; i++ {
			add("put %s @%d:%d", key(9, i), vlen, r.Intn(99999))
		}
		for i := 0; i < per; i++ {
			add("del %s", key(9, i))
		}
		add("merge")
		add("close")
		if r.Chance(1, 2) {
			// that database was deleted by its owner: the destination does not exist, the finished merge beside it does
			add("rmdir")
			missing = true
			hist["backup_into_missing_directory_with_foreign_pending_merge"]++
		}
		hist["backup_into_directory_with_foreign_pending_merge"]++
	}
	add("dir db")
	add("open %s", c)
	for g := 0; g < groups; g++ {
		for i := 0; i < per; i++ {
			add("put %s @%d:%d", key(g, i), vlen, r.Intn(99999))
		}
	}
	add("files")
	// how the caller spells the destination, in both backups of the scenario: canonical, with a trailing separator,
	// with "/./", with a doubled separator
	style := r.Pick(0, 0, 1, 1, 1, 1, 2, 3)
	backup := func() {
		if style > 0 {
			add("backup %s %d", bk, style)
			hist["backup_destination_not_canonical"]++
		} else {
			add("backup %s", bk)
		}
	}
	backup()
	if missing {
		// the first backup, into the directory that did not exist, is opened at once
		add("dump")
		add("close")
		add("dir %s", bk)
		add("open %s", genCfg(r, o, hist))
		add("dump")
		add("list")
		add("close")
		add("dir db")
		add("open %s", c)
		add("dump")
	}
	victim := r.Intn(groups)
	if r.Chance(1, 4) {
		// the source is emptied completely: the refreshed backup must open to the empty mapping
		for g := 0; g < groups; g++ {
			if g != victim {
				for i := 0; i < per; i++ {
					add("del %s", key(g, i))
				}
			}
		}
		hist["backup_cycle_emptied_source"]++
	}
	for i := 0; i < per; i++ {
		add("del %s", key(victim, i))
	}
	add("merge")
	add("hintcheck")
	add("dump")
	add("close")
	c = genCfg(r, o, hist)
	c.fsize = r.Pick(200, 700)
	add("open %s", c)
	add("dump")
	add("files")
	if r.Chance(1, 2) {
		add("put %s @%d:%d", key(0, 0), vlen, r.Intn(99999))
	}
	backup()
	add("dump")
	add("close")
	add("dir %s", bk)
	add("open %s", genCfg(r, o, hist))
	add("dump")
	add("list")
	add("files")
	add("put 6b31 02")
	add("close")
	hist["backup_cycle"]++
	return out
}

// GenCrashScript: a short workload whose every I/O boundary becomes a crash point.
// kind: "plain" (Put/Delete/Sync), "batch" (crash window inside Commit), "merge" (crash during
// Merge and during the adopting Open).
func GenCrashScript(r *Rng, kind string, hist map[string]int) []string {
	var out []string
	add := func(format string, a ...interface{}) { out = append(out, "E "+fmt.Sprintf(format, a...)) }
	o := EngineGenOpts{BigVals: false, FixedIO: -1}
	c := genCfg(r, o, hist)
	if kind == "merge" {
		c.fsize = r.Pick(64, 200, 700, 4096)
	}
	// a file limit above the 512 MiB a memory-mapped file is pre-allocated with: after the process died the
	// active file keeps that size, and nothing but recovery decides where writing goes on
	bigMap := kind != "merge" && c.io == 1 && r.Chance(1, 2)
	if bigMap {
		c.fsize = 1 << 30
		hist["crash_mmap_limit_above_preallocation"]++
	}
	add("dir db")
	add("open %s", c)
	mut := func() {
		if r.Chance(1, 14) {
			// a write the operating system refuses: the call fails, the history goes on
			add("putfail %s %s", engKeys[r.Intn(5)], genEngVal(r, o, c, hist))
			hist["crash_put_with_refused_write"]++
			return
		}
		x := r.Intn(10)
		switch {
		case x < 6:
			if r.Chance(1, 14) {
				// a record of several chunks (a cut may fall behind its first complete chunks)
				add("put %s @%d:%d", engKeys[r.Intn(5)], bs+r.Intn(2*bs), r.Intn(99999))
				hist["crash_val_multi_block"]++
			} else if r.Chance(1, 5) {
				// a record whose encoding ends in zero bytes (the tail of a file is told from padding by
				// the chunk headers, never by the byte values)
				add("put %s %s", engKeys[r.Intn(5)], r.PickS("00", "07000000", "ab0000", "610000000000000000", "0000"))
				hist["crash_val_trailing_zeros"]++
			} else {
				add("put %s %s", engKeys[r.Intn(5)], genEngVal(r, o, c, hist))
			}
		case x < 8:
			add("del %s", engKeys[r.Intn(5)])
		case x < 9:
			add("sync")
		default:
			add("get %s", engKeys[r.Intn(5)])
		}
	}
	batch := func() {
		add("batch %d", r.Intn(2))
		nb := 1 + r.Intn(6)
		if r.Chance(1, 4) {
			nb = 8 + r.Intn(20)
		}
		for j := 0; j < nb; j++ {
			if r.Chance(3, 4) {
				add("bput %s %s", engKeys[r.Intn(6)], genEngVal(r, o, c, hist))
			} else {
				add("bdel %s", engKeys[r.Intn(6)])
			}
		}
		add("commit")
		hist["crash_batch"]++
	}
	for i := r.Intn(6); i > 0; i-- {
		mut()
	}
	if kind != "plain" && r.Chance(1, 2) {
		batch()
	}
	if kind == "merge" && r.Chance(1, 3) {
		// an earlier merge, adopted by a restart: its hint file stays in the data directory while the
		// merge under test runs and is adopted
		for i := 2 + r.Intn(5); i > 0; i-- {
			mut()
		}
		add("merge")
		add("close")
		c = genCfg(r, o, hist)
		c.fsize = r.Pick(64, 200, 700, 4096)
		add("open %s", c)
		add("dump")
		for i := 1 + r.Intn(4); i > 0; i-- {
			mut()
		}
		hist["crash_merge_after_adopted_merge"]++
	}
	if kind == "merge" && r.Chance(2, 5) {
		// an earlier merge that finished and was never adopted (no restart since): the merge under test
		// begins by removing that directory, finished-marker and all - entry by entry
		for i := 2 + r.Intn(5); i > 0; i-- {
			mut()
		}
		add("merge")
		for i := 1 + r.Intn(3); i > 0; i-- {
			mut()
		}
		hist["crash_merge_over_finished_unadopted_merge"]++
	}
	add("mark")
	n := 2 + r.Intn(8)
	for i := 0; i < n; i++ {
		if kind == "batch" && (i == 0 || r.Chance(1, 3)) {
			batch()
		} else {
			mut()
		}
	}
	prop := "C03"
	if kind == "batch" {
		prop = "C04"
	}
	if kind == "merge" {
		if r.Chance(1, 3) {
			add("mergebusy") // the same merge, with two more Merge calls issued while it runs
			hist["crash_merge_probed_while_running"]++
		} else {
			add("merge")
		}
		for i := r.Intn(3); i > 0; i-- {
			mut()
		}
		prop = "C07"
		hist["crash_merge"]++
	}
	c2 := genCfg(r, o, hist)
	if bigMap {
		c2.fsize = 1 << 30
	}
	add("crashscan %s %s", c2, prop)
	add("dump")
	add("close")
	if kind == "merge" {
		// the adopting Open, every step of it a crash point
		add("mark")
		c3 := genCfg(r, o, hist)
		add("open %s", c3)
		add("crashscan %s C07", genCfg(r, o, hist))
		add("dump")
		add("files")
		add("close")
		add("open %s", genCfg(r, o, hist))
		add("dump")
		add("close")
	}
	if kind != "plain" && r.Chance(1, 3) {
		// a batch that is open (pieces flushed, not committed) while a Merge scans; the process dies before Commit
		c4 := genCfg(r, o, hist)
		c4.io = 0
		c4.fsize = r.Pick(200, 700, 4096)
		add("open %s", c4)
		for i := 3 + r.Intn(12); i > 0; i-- {
			add("put %s @%d:%d", engKeys[r.Intn(len(engKeys))], 1+r.Intn(60), r.Intn(99999))
		}
		add("mergebatchcrash %d %d %d", 4+r.Intn(12), r.Pick(20, 60, 150, 400), r.Intn(1<<30))
		hist["crash_open_batch_while_merge_scans"]++
	}
	if kind == "batch" && r.Chance(1, 2) {
		// pages reach the disk in any order: a block in the middle of an unsynced batch is lost, the rest of it is not
		add("holebatch %d %d", 2+r.Intn(5), 1+r.Intn(2))
		hist["crash_batch_with_a_lost_middle_block"]++
	}
	if kind == "batch" && r.Chance(1, 2) {
		// a batch whose Commit the operating system refuses after pieces of it were flushed, then a committed batch, then a restart
		add("orphanbatch %d", 4+r.Intn(5))
		hist["crash_batch_refused_commit_then_committed_batch"]++
	}
	hist["crash_"+kind]++
	return out
}

func init() {
	extraCommands["crashgen"] = func(args []string) {
		fs := newFlagSet("crashgen")
		seed := fs.Uint64("seed", 1, "seed")
		n := fs.Int("n", 50, "scenarios")
		out := fs.String("out", "", "output")
		histp := fs.String("hist", "", "histogram output")
		kind := fs.String("kind", "quick", "tier")
		feat := fs.String("feat", "plain", "plain|batch|merge")
		_ = fs.Parse(args)
		_ = kind
		r := NewRng(*seed)
		h := map[string]int{}
		var lines []string
		for i := 0; i < *n; i++ {
			lines = append(lines, fmt.Sprintf("S %d", i))
			lines = append(lines, GenCrashScript(r, *feat, h)...)
		}
		writeLines(*out, lines)
		writeHistFile(*histp, h)
	}
	extraCommands["enginegen"] = func(args []string) {
		fs := newFlagSet("enginegen")
		seed := fs.Uint64("seed", 1, "seed")
		n := fs.Int("n", 100, "scenarios")
		out := fs.String("out", "", "output")
		histp := fs.String("hist", "", "histogram output")
		kind := fs.String("kind", "quick", "tier")
		feat := fs.String("feat", "restarts,batches,merges,backups,bigvals", "features")
		ops := fs.Int("ops", 40, "ops per scenario")
		io := fs.Int("io", -1, "force FileIOType")
		variants := fs.Int("variants", 1, "lock-step variants of every scenario under other configurations")
		_ = fs.Parse(args)
		_ = kind
		o := EngineGenOpts{Ops: *ops, FixedIO: *io}
		for _, f := range strings.Split(*feat, ",") {
			switch f {
			case "restarts":
				o.Restarts = true
			case "batches":
				o.Batches = true
			case "merges":
				o.Merges = true
			case "backups":
				o.Backups = true
			case "bigvals":
				o.BigVals = true
			case "racingmerge":
				o.RacingMerge = true
			case "backupcycle":
				o.BackupCycle = true
			case "hostile":
				o.HostileCaller = true
			case "hostilesome":
				o.HostileSome = true
			case "collide":
				o.Collide = true
			case "mergeheavy":
				o.MergeHeavy = true
				o.Merges = true
				o.Restarts = true
			}
		}
		r := NewRng(*seed)
		h := map[string]int{}
		var lines []string
		for i := 0; i < *n; i++ {
			var sc []string
			if o.BackupCycle && r.Chance(1, 4) {
				sc = GenBackupCycle(r, o, h)
			} else if o.Collide && r.Chance(1, 6) {
				sc = GenCollideScript(r, o, h)
			} else {
				sc = GenEngineScript(r, o, h)
			}
			if *variants <= 1 {
				lines = append(lines, fmt.Sprintf("S %d", i))
				lines = append(lines, sc...)
				continue
			}
			// the same operations under independently drawn configurations (C14)
			for v := 0; v < *variants; v++ {
				lines = append(lines, fmt.Sprintf("S %d.%c", i, 'a'+v))
				for _, l := range sc {
					if strings.HasPrefix(l, "E bputfail ") {
						l = "E bput " + strings.TrimPrefix(l, "E bputfail ") // the fault depends on the I/O type
					}
					if strings.HasPrefix(l, "E bputsyncfail ") {
						l = "E bput " + strings.TrimPrefix(l, "E bputsyncfail ")
					}
					if strings.HasPrefix(l, "E bpadto ") {
						// the computed length depends on where the file ends, which depends on the configuration
						ff := strings.Fields(l)
						l = fmt.Sprintf("E bput %s @%d:%s", ff[3], 10, ff[4])
					}
					if l == "E closenoflush" {
						l = "E close"
					}
					if l == "E commitfail" {
						// whether the fault can be injected depends on the I/O type: not an operation of a lock-step comparison
						continue
					}
					if v > 0 && strings.HasPrefix(l, "E open ") {
						l = "E open " + genCfg(r, o, h).String()
					}
					lines = append(lines, l)
				}
			}
		}
		writeLines(*out, lines)
		writeHistFile(*histp, h)
	}
}
