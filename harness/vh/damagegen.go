package vh

import (
	"fmt"
	"strings"
)

// GenDamageScript (C12): a data file is written, closed and then damaged; after every damage it is
// scanned and every written position is read.  mode "sweep": a small file, every bit of every byte
// flipped in turn (the file is restored in between); mode "random": a larger file (records across
// block boundaries), random flips, multi-byte overwrites, truncations and garbage.
func GenDamageScript(r *Rng, mode string, hist map[string]int) []string {
	var out []string
	fid := r.Pick(0, 1, 7)
	out = append(out, fmt.Sprintf("F new %d 0", fid))
	size := 0
	addRec := func(klen, v int, typ int, batch uint64) {
		ktok := HexTok(GenBytes(klen, uint64(r.Intn(1000))))
		vtok := "-"
		if v > 0 {
			vtok = fmt.Sprintf("@%d:%d", v, r.Intn(1000))
		}
		out = append(out, fmt.Sprintf("F put %d %s %s %d", typ, ktok, vtok, batch))
		// bytes occupied (block padding ignored: an estimate is enough)
		e := encLen(klen, v, batch)
		size += e + 7*(1+e/(bs-7))
	}
	if mode == "sweep" {
		n := 1 + r.Intn(3)
		for i := 0; i < n; i++ {
			addRec(1+r.Intn(3), r.Intn(12), r.Pick(0, 0, 1), uint64(r.Pick(0, 0, 5)))
		}
		out = append(out, "F close", "F reopen 0", "F save", "F scan", "F getall")
		for off := 0; off < size; off++ {
			for bit := 0; bit < 8; bit++ {
				out = append(out, fmt.Sprintf("F flip %d %d", off, 1<<uint(bit)), "F scan", "F getall", "F restore")
			}
		}
		hist["damage_sweep"]++
		hist["damage_sweep_bits"] += size * 8
		out = append(out, "F close")
		return out
	}
	n := 2 + r.Intn(5)
	for i := 0; i < n; i++ {
		v := r.Pick(0, 5, 40, 300, bs-30, bs+10, 2*bs+5)
		if v > 40 {
			v += r.Intn(40)
		}
		addRec(1+r.Intn(6), v, r.Pick(0, 0, 0, 1, 2), uint64(r.Pick(0, 0, 0, 9, 1<<40)))
	}
	out = append(out, "F close", "F reopen 0", "F save", "F scan", "F getall")
	// truncations exactly at block boundaries (a multi-chunk record loses its continuation chunks while
	// every chunk that is left is complete and valid)
	for b := bs; b < size && b <= 3*bs; b += bs {
		out = append(out, fmt.Sprintf("F trunc %d", b), "F scan", "F getall", "F restore")
		hist["damage_trunc_at_block_boundary"]++
	}
	// whole blocks that read back as zeros (lost in a power failure) while the blocks behind them are intact
	for b := 0; (b+1)*bs <= size && b < 3; b++ {
		out = append(out, fmt.Sprintf("F zeroblock %d", b), "F scan", "F getall", "F restore")
		hist["damage_zeroed_block"]++
	}
	nd := 6 + r.Intn(10)
	for i := 0; i < nd; i++ {
		switch r.Intn(6) {
		case 0, 1: // one or a few flips
			for j := 1 + r.Intn(3); j > 0; j-- {
				out = append(out, fmt.Sprintf("F flip %d %d", r.Intn(size+8), 1+r.Intn(255)))
			}
			hist["damage_flip"]++
		case 2: // a flip in a chunk header at a block start
			b := (1 + r.Intn(3)) * bs
			out = append(out, fmt.Sprintf("F flip %d %d", b+r.Intn(7), 1<<uint(r.Intn(8))))
			hist["damage_flip_block_start"]++
		case 3:
			out = append(out, fmt.Sprintf("F trunc %d", r.Intn(size+1)))
			hist["damage_trunc"]++
		case 4: // truncation inside the last few bytes
			cut := size - r.Intn(12)
			if cut < 0 {
				cut = 0
			}
			out = append(out, fmt.Sprintf("F trunc %d", cut))
			hist["damage_trunc_tail"]++
		default: // garbage / zeros of some length
			ln := r.Pick(1, 6, 7, 8, 100, bs, bs+9)
			if r.Chance(1, 2) {
				out = append(out, fmt.Sprintf("F load @%d:%d", ln, r.Intn(9999)))
				hist["damage_garbage"]++
			} else {
				out = append(out, "F load "+strings.Repeat("00", ln%4000+1))
				hist["damage_zeros"]++
			}
		}
		out = append(out, "F scan", "F getall", "F restore")
	}
	out = append(out, "F close")
	return out
}

func init() {
	extraCommands["damagegen"] = func(args []string) {
		fs := newFlagSet("damagegen")
		seed := fs.Uint64("seed", 1, "seed")
		n := fs.Int("n", 50, "scenarios")
		out := fs.String("out", "", "output")
		histp := fs.String("hist", "", "histogram output")
		kind := fs.String("kind", "quick", "tier")
		mode := fs.String("mode", "random", "sweep|random")
		_ = fs.Parse(args)
		_ = kind
		r := NewRng(*seed)
		h := map[string]int{}
		var lines []string
		for i := 0; i < *n; i++ {
			lines = append(lines, fmt.Sprintf("S %d", i))
			if *mode == "zerotail" {
				lines = append(lines, GenZeroTailScript(r, h)...)
				continue
			}
			lines = append(lines, GenDamageScript(r, *mode, h)...)
		}
		writeLines(*out, lines)
		writeHistFile(*histp, h)
	}
}

// GenZeroTailScript (C12, engine level): equal-sized records; the database is closed; the last records of the newest
// data file are overwritten with zeros from a record boundary on (what a file system may leave after power loss, or a
// memory-mapped file after the process died); the database is opened again with standard I/O and goes on writing
// records of the same size: every later Get must return what was written for that key, across a restart too.
func GenZeroTailScript(r *Rng, hist map[string]int) []string {
	var out []string
	add := func(format string, a ...interface{}) { out = append(out, "E "+fmt.Sprintf(format, a...)) }
	o := EngineGenOpts{FixedIO: 0}
	c := genCfg(r, o, hist)
	c.fsize = r.Pick(4096, 40960, 1<<20)
	vlen := r.Pick(10, 20, 33, 100)
	n := 4 + r.Intn(8)
	add("dir db")
	add("open %s", c)
	for i := 0; i < n; i++ {
		add("put %02x%02x @%d:%d", 0x6f, i, vlen, r.Intn(99999))
	}
	add("dump")
	add("close")
	rec := encLen(2, vlen, 0) + 7 // one chunk per record while no block boundary is crossed
	k := 1 + r.Intn(n-1)
	add("zerotail %d", k*rec)
	c2 := genCfg(r, o, hist)
	c2.fsize = c.fsize
	add("open %s", c2)
	add("dump")
	for i := 0; i < n+2; i++ {
		add("put %02x%02x @%d:%d", 0x6e, i, vlen, r.Intn(99999))
		if r.Chance(1, 3) {
			add("get %02x%02x", 0x6e, r.Intn(i+1))
		}
	}
	add("dump")
	add("fold")
	add("close")
	add("open %s", genCfg(r, o, hist))
	add("dump")
	add("close")
	hist["zeroed_tail_then_more_writes"]++
	return out
}

// GenFlipScript (C12, engine level): a small database (a few records, perhaps a batch, perhaps an
// adopted merge so that a hint file exists) is closed and handed to flipsweep.
func GenFlipScript(r *Rng, maxFlips int, hist map[string]int) []string {
	var out []string
	add := func(format string, a ...interface{}) { out = append(out, "E "+fmt.Sprintf(format, a...)) }
	o := EngineGenOpts{FixedIO: 0}
	c := genCfg(r, o, hist)
	c.fsize = r.Pick(64, 200, 4096, 1<<20)
	add("dir db")
	add("open %s", c)
	n := 2 + r.Intn(6)
	for i := 0; i < n; i++ {
		switch r.Intn(6) {
		case 0:
			add("del %s", engKeys[r.Intn(4)])
		case 1:
			add("batch 0")
			add("bput %s %s", engKeys[r.Intn(4)], genEngVal(r, o, c, hist))
			add("bput %s %s", engKeys[r.Intn(4)], genEngVal(r, o, c, hist))
			add("commit")
		default:
			add("put %s @%d:%d", engKeys[r.Intn(4)], 1+r.Intn(20), r.Intn(9999))
		}
	}
	if r.Chance(1, 3) {
		add("merge")
		add("close")
		add("open %s", c)
		add("put %s @%d:%d", engKeys[r.Intn(4)], 1+r.Intn(20), r.Intn(9999))
		hist["flip_with_hint"]++
	}
	if r.Chance(1, 3) {
		// a finished merge left in the side directory: the sweep's Open adopts it (hint path, no re-scan)
		add("del %s", engKeys[r.Intn(4)])
		add("merge")
		hist["flip_pending_merge"]++
	}
	add("dump")
	add("close")
	c2 := genCfg(r, o, hist)
	c2.fsize = c.fsize
	add("flipsweep %d %d %s", maxFlips, r.Intn(1<<30), c2)
	hist["flip_scenarios"]++
	return out
}

func init() {
	extraCommands["flipgen"] = func(args []string) {
		fs := newFlagSet("flipgen")
		seed := fs.Uint64("seed", 1, "seed")
		n := fs.Int("n", 20, "scenarios")
		out := fs.String("out", "", "output")
		histp := fs.String("hist", "", "histogram output")
		kind := fs.String("kind", "quick", "tier")
		maxf := fs.Int("maxflips", 4000, "flips per scenario (all bits when the directory is small enough)")
		_ = fs.Parse(args)
		_ = kind
		r := NewRng(*seed)
		h := map[string]int{}
		var lines []string
		for i := 0; i < *n; i++ {
			lines = append(lines, fmt.Sprintf("S %d", i))
			lines = append(lines, GenFlipScript(r, *maxf, h)...)
		}
		writeLines(*out, lines)
		writeHistFile(*histp, h)
	}
}
