package vh

import (
	"bytes"
	"fmt"
	"io"
	"os"
	"path/filepath"
	"strings"

	kv "github.com/XiXi-2024/xixi-kv"
	"github.com/XiXi-2024/xixi-kv/datafile"
	"github.com/XiXi-2024/xixi-kv/fio"
)

// flipSweep (C12, engine level): the closed data directory is copied; in the copy one bit of one
// byte of a data or hint file is flipped; the copy is opened with the real Open and every key is
// read.  Open may fail and Get may fail; what must not happen: a panic, a key that was never
// written, or a value that was never written for that key.  All bits of all bytes when the
// directory is small (limit bytes*8 <= maxFlips), otherwise a sample drawn from rng.
func (r *EngineRunner) flipSweep(cfg []string, maxFlips int, rng *Rng) string {
	if r.db != nil {
		return "err open"
	}
	saved1, saved2, saved3 := fio.VerifEvent, kv.VerifFsEvent, kv.VerifMergeFile
	fio.VerifEvent, kv.VerifFsEvent, kv.VerifMergeFile = nil, nil, nil
	defer func() { fio.VerifEvent, kv.VerifFsEvent, kv.VerifMergeFile = saved1, saved2, saved3 }()
	src := r.dir()
	ents, err := os.ReadDir(src)
	if err != nil {
		return "err readdir"
	}
	files := map[string][]byte{}
	var names []string
	total := 0
	for _, e := range ents {
		n := e.Name()
		if !strings.HasSuffix(n, string(datafile.DataFileSuffix)) && !strings.HasSuffix(n, string(datafile.HintFileSuffix)) {
			continue
		}
		b, err := os.ReadFile(filepath.Join(src, n))
		if err != nil {
			continue
		}
		files[n] = b
		names = append(names, n)
		total += len(b)
	}
	// a finished merge waiting in the side directory is copied too ("M/name"): the Open of the copy adopts
	// it and indexes the rewritten files from the hint file alone, so nothing re-scans them before Get
	others := map[string][]byte{} // files that are copied but not damaged (the merge-finished marker)
	if ments, err := os.ReadDir(r.mergeDir()); err == nil {
		for _, e := range ments {
			n := e.Name()
			b, err := os.ReadFile(filepath.Join(r.mergeDir(), n))
			if err != nil {
				continue
			}
			if strings.HasSuffix(n, string(datafile.DataFileSuffix)) || strings.HasSuffix(n, string(datafile.HintFileSuffix)) {
				files["M/"+n] = b
				names = append(names, "M/"+n)
				total += len(b)
			} else {
				others["M/"+n] = b
			}
		}
	}
	place := func(dst, n string) string {
		if strings.HasPrefix(n, "M/") {
			return filepath.Join(dst+"-merge", n[2:])
		}
		return filepath.Join(dst, n)
	}
	// everything ever written, per key (from the undamaged log itself)
	allowed := map[string][][]byte{}
	starts := map[string][]int{} // where the records of each data file begin
	for _, n := range names {
		if !strings.HasSuffix(n, string(datafile.DataFileSuffix)) || strings.HasPrefix(n, "M/") {
			continue
		}
		var id uint32
		fmt.Sscanf(n, "%d", &id)
		df, err := datafile.OpenFile(src, id, datafile.DataFileSuffix, fio.StandardFIO)
		if err != nil {
			continue
		}
		rd := df.NewReader()
		for {
			rec, rp, err := rd.NextLogRecord()
			if err == nil && rp != nil {
				starts[n] = append(starts[n], int(rp.BlockID)*32768+int(rp.Offset))
			}
			if err != nil {
				if err != io.EOF && err != io.ErrUnexpectedEOF {
					r.fail("C12", "the undamaged directory does not scan: %v", err)
				}
				break
			}
			if rec.Type == datafile.LogRecordNormal {
				allowed[string(rec.Key)] = append(allowed[string(rec.Key)], append([]byte(nil), rec.Value...))
			}
		}
		_ = df.Close()
	}
	type flip struct {
		name string
		off  int
		mask byte // 0: the file is truncated to off bytes instead
		put  bool // (truncation while open) the engine then writes one more record and is inspected again
	}
	var flips []flip
	if total*8 <= maxFlips {
		for _, n := range names {
			for off := range files[n] {
				for bit := 0; bit < 8; bit++ {
					flips = append(flips, flip{n, off, 1 << uint(bit), false})
				}
			}
		}
	} else if total > 0 {
		for i := 0; i < maxFlips; i++ {
			n := names[rng.Intn(len(names))]
			if len(files[n]) == 0 {
				continue
			}
			flips = append(flips, flip{n, rng.Intn(len(files[n])), 1 << uint(rng.Intn(8)), false})
		}
	}
	// truncations: every data file cut at a few lengths (inside the last record, at a record boundary,
	// in the middle), applied to the closed directory or while the database is open like the flips
	truncs := 0
	for _, n := range names {
		if !strings.HasSuffix(n, string(datafile.DataFileSuffix)) || len(files[n]) < 2 {
			continue
		}
		sz := len(files[n])
		for _, cut := range []int{sz - 1, sz / 2, rng.Intn(sz), rng.Intn(sz)} {
			flips = append(flips, flip{n, cut, 0, false})
			truncs++
		}
	}
	// the newest data file loses its last one to three whole records under the open database, which then appends one
	// more record (through O_APPEND it lands at the cut, while the engine's own position lies behind it)
	newest := ""
	for _, n := range names {
		if strings.HasSuffix(n, string(datafile.DataFileSuffix)) && !strings.HasPrefix(n, "M/") && n > newest {
			newest = n
		}
	}
	if st := starts[newest]; len(st) > 0 {
		for j := len(st) - 1; j >= 0 && j >= len(st)-3; j-- {
			flips = append(flips, flip{newest, st[j], 0, true})
			truncs++
		}
	}
	opened, openErr, getErr, stale, live, merged := 0, 0, 0, 0, 0, 0
	latest := r.ref.m
	inspect := func(db *kv.DB, what string) {
		for _, k := range db.ListKeys() {
			vals, known := allowed[string(k)]
			if !known {
				r.fail("C12", "%s: Open lists key %s, which was never written", what, Obs(k))
				continue
			}
			v, err := db.Get(k)
			if err != nil {
				getErr++
				continue
			}
			ok := false
			for _, w := range vals {
				if bytes.Equal(v, w) {
					ok = true
				}
			}
			if !ok {
				r.fail("C12", "%s: Get(%s) returns %d bytes that were never written for that key", what, Obs(k), len(v))
			} else if !bytes.Equal(v, latest[string(k)]) {
				stale++
			}
		}
		folded := 0
		ferr := db.Fold(func(key []byte, value []byte) bool {
			folded++
			vals, known := allowed[string(key)]
			ok := false
			for _, w := range vals {
				if bytes.Equal(value, w) {
					ok = true
				}
			}
			if !known || !ok {
				r.fail("C12", "%s: Fold yields a pair (%s, %d bytes) that was never written", what, Obs(key), len(value))
			}
			return true
		})
		if nk := len(db.ListKeys()); ferr == nil && folded != nk {
			r.fail("C12", "%s: Fold reports success but delivered %d of the %d keys (unreadable records skipped silently)", what, folded, nk)
		}
	}
	for fi, fl := range flips {
		root, err := os.MkdirTemp(r.Root, "flip")
		if err != nil {
			continue
		}
		dst := filepath.Join(root, "db")
		_ = os.MkdirAll(dst, 0755)
		if len(others) > 0 || len(files) > 0 {
			for n := range files {
				if strings.HasPrefix(n, "M/") {
					_ = os.MkdirAll(dst+"-merge", 0755)
					break
				}
			}
		}
		// every third flip is applied while the database is open (the bytes change under a running engine);
		// the others damage the closed directory before Open
		whileOpen := fi%3 == 2 || fl.put
		for _, n := range names {
			b := files[n]
			if n == fl.name && !whileOpen {
				if fl.mask == 0 {
					b = b[:fl.off]
				} else {
					b = append([]byte(nil), b...)
					b[fl.off] ^= fl.mask
				}
			}
			_ = os.WriteFile(place(dst, n), b, 0644)
		}
		for n, b := range others {
			_ = os.WriteFile(place(dst, n), b, 0644)
		}
		what := fmt.Sprintf("bit %#x of byte %d of %s flipped", fl.mask, fl.off, fl.name)
		if fl.mask == 0 {
			what = fmt.Sprintf("%s truncated to %d bytes", fl.name, fl.off)
		}
		if whileOpen {
			what += " while the database is open"
		}
		func() {
			defer func() {
				if e := recover(); e != nil {
					r.fail("C12", "panic with %s: %v", what, e)
				}
			}()
			db, err := kv.Open(parseOpts(cfg, dst))
			if err != nil {
				openErr++
				if whileOpen {
					r.fail("C12", "the undamaged copy does not open: %v", err)
				}
				return
			}
			opened++
			if whileOpen {
				live++
				// after the adopting Open the rewritten files live in the data directory under the same names
				target := place(dst, fl.name)
				if strings.HasPrefix(fl.name, "M/") {
					target = filepath.Join(dst, fl.name[2:])
				}
				if fl.mask == 0 {
					// a few reads first, so that whatever the engine caches or pools holds earlier contents
					for _, k := range db.ListKeys() {
						_, _ = db.Get(k)
					}
					_ = os.Truncate(target, int64(fl.off))
				} else if f, err := os.OpenFile(target, os.O_RDWR, 0644); err == nil {
					one := []byte{0}
					if _, err := f.ReadAt(one, int64(fl.off)); err == nil {
						one[0] ^= fl.mask
						_, _ = f.WriteAt(one, int64(fl.off))
					}
					_ = f.Close()
				}
			}
			inspect(db, what)
			if fl.put {
				nk := []byte("zz-written-after-the-cut")
				nv := bytes.Repeat([]byte{0xc3}, 1+rng.Intn(40))
				if err := db.Put(nk, nv); err == nil {
					allowed[string(nk)] = append(allowed[string(nk)], nv)
					inspect(db, what+", then one more Put")
					delete(allowed, string(nk))
				}
				_ = db.Close()
				return
			}
			if whileOpen && fi%2 == 1 {
				// the damaged database merges, is closed and opened again: a merge must not launder the damage
				// (rewrite damaged bytes under a fresh checksum); it may fail, and the Open after it may fail
				merged++
				_ = db.Merge()
				_ = db.Close()
				db2, err := kv.Open(parseOpts(cfg, dst))
				if err != nil {
					return
				}
				inspect(db2, what+", then Merge, Close and Open")
				_ = db2.Close()
				return
			}
			_ = db.Close()
		}()
		_ = os.RemoveAll(root)
	}
	return fmt.Sprintf("done # flips=%d bytes=%d opened=%d open_errors=%d get_errors=%d older_value_served=%d flipped_while_open=%d merged_after_damage=%d truncations=%d", len(flips), total, opened, openErr, getErr, stale, live, merged, truncs)
}
