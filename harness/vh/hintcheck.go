package vh

import (
	"bytes"
	"fmt"
	"io"
	"os"
	"strings"

	kv "github.com/XiXi-2024/xixi-kv"
	"github.com/XiXi-2024/xixi-kv/datafile"
	"github.com/XiXi-2024/xixi-kv/fio"
)

// hintCheck decodes the hint file of a finished merge (in the merge directory) and the rewritten
// data files next to it with the package's own readers and compares them (C18): one hint entry per
// rewritten record, in order, same key, same position and size; the record is a plain live record
// and a random read at the hinted position returns its value.  The result line (compared with the
// model's hint file) is a digest of the hint entries.
func (r *EngineRunner) hintCheck() string {
	mdir := r.mergeDir()
	if _, err := os.Stat(datafile.GetFileName(mdir, 0, datafile.MergeFinishedFileSuffix)); err != nil {
		return "none"
	}
	if _, err := os.Stat(datafile.GetFileName(mdir, 0, datafile.HintFileSuffix)); err != nil {
		r.fail("C18", "finished merge without a hint file")
		return "nohint"
	}
	saved1, saved2, saved3 := fio.VerifEvent, kv.VerifFsEvent, kv.VerifMergeFile
	fio.VerifEvent, kv.VerifFsEvent, kv.VerifMergeFile = nil, nil, nil
	defer func() { fio.VerifEvent, kv.VerifFsEvent, kv.VerifMergeFile = saved1, saved2, saved3 }()

	type ent struct {
		key []byte
		pos datafile.DataPos
	}
	var hints []ent
	hf, err := datafile.OpenFile(mdir, 0, datafile.HintFileSuffix, fio.StandardFIO)
	if err != nil {
		return "err open-hint"
	}
	rd := hf.NewReader()
	for {
		k, p, err := rd.NextHintRecord()
		if err != nil {
			if err != io.EOF {
				r.fail("C18", "hint file of a finished merge does not decode: %v", err)
			}
			break
		}
		hints = append(hints, ent{append([]byte(nil), k...), *p})
	}
	_ = hf.Close()

	// the rewritten files, record by record
	var recs []ent
	var vals [][]byte
	files := map[uint32]*datafile.DataFile{}
	for id := uint32(0); ; id++ {
		if _, err := os.Stat(datafile.GetFileName(mdir, id, datafile.DataFileSuffix)); err != nil {
			break
		}
		df, err := datafile.OpenFile(mdir, id, datafile.DataFileSuffix, fio.StandardFIO)
		if err != nil {
			break
		}
		files[id] = df
		rd := df.NewReader()
		for {
			rec, p, err := rd.NextLogRecord()
			if err != nil {
				if err != io.EOF {
					r.fail("C18", "rewritten file %d does not decode: %v", id, err)
				}
				break
			}
			if rec.Type != datafile.LogRecordNormal || rec.BatchID != 0 {
				r.fail("C18", "rewritten file %d holds a record that is not a plain live record (type %d, batch %d)", id, rec.Type, rec.BatchID)
			}
			recs = append(recs, ent{append([]byte(nil), rec.Key...), *p})
			vals = append(vals, append([]byte(nil), rec.Value...))
		}
	}
	defer func() {
		for _, df := range files {
			_ = df.Close()
		}
	}()
	if len(hints) != len(recs) {
		r.fail("C18", "hint file has %d entries, the rewritten files hold %d records", len(hints), len(recs))
	}
	for i := 0; i < len(hints) && i < len(recs); i++ {
		h, c := hints[i], recs[i]
		if !bytes.Equal(h.key, c.key) {
			r.fail("C18", "hint entry %d names key %s, record %d of the rewritten files has key %s", i, Obs(h.key), i, Obs(c.key))
			break
		}
		if h.pos != c.pos {
			r.fail("C18", "hint entry %d (key %s) points to %v, the record lies at %v", i, Obs(h.key), h.pos, c.pos)
			break
		}
		if df := files[h.pos.Fid]; df != nil {
			p := h.pos
			v, err := df.ReadRecordValue(&p)
			if err != nil || !bytes.Equal(v, vals[i]) {
				r.fail("C18", "reading at the position of hint entry %d (key %s) does not return the record's value: %v", i, Obs(h.key), err)
				break
			}
		}
	}
	var sb strings.Builder
	for _, h := range hints {
		fmt.Fprintf(&sb, "%s %d %d %d %d;", Obs(h.key), h.pos.Fid, h.pos.BlockID, h.pos.Offset, h.pos.Size)
	}
	return fmt.Sprintf("%d %s", len(hints), Md5Hex([]byte(sb.String())))
}
