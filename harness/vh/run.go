package vh

import (
	"bufio"
	"fmt"
	"strings"
)

// RunScript dispatches a script by layer: "S n" starts a scenario, "F ..." lines go to the
// file layer, "E ..." lines to the engine layer.
func RunScript(lines []string, w *bufio.Writer, verbose bool) error {
	// split into scenarios
	var cur []string
	flush := func() error {
		if len(cur) == 0 {
			return nil
		}
		defer func() { cur = nil }()
		layer := ""
		for _, l := range cur {
			f := strings.Fields(l)
			if len(f) > 0 && (f[0] == "F" || f[0] == "E") {
				layer = f[0]
				break
			}
		}
		switch layer {
		case "F":
			return RunFileScript(cur, w, verbose)
		case "E":
			return RunEngineScript(cur, w, verbose)
		}
		for _, l := range cur {
			fmt.Fprintln(w, l)
		}
		return nil
	}
	for _, l := range lines {
		if strings.HasPrefix(l, "S ") {
			if err := flush(); err != nil {
				return err
			}
			// the scenario marker reaches the trace before the scenario runs, so that a fatal
			// error of the engine (which kills this process) can be attributed to it
			fmt.Fprintln(w, "# begin "+l)
			_ = w.Flush()
		}
		cur = append(cur, l)
	}
	err := flush()
	_ = w.Flush()
	return err
}

// ExtraCommand handles the commands added by other files; returns false if unknown.
func ExtraCommand(cmd string, args []string) bool {
	if f, ok := extraCommands[cmd]; ok {
		f(args)
		return true
	}
	return false
}

var extraCommands = map[string]func(args []string){}
