package translate

import (
	"fmt"
	"go/ast"
	"go/token"
	"go/types"
	"os"
	"path/filepath"
	"sort"
	"strings"

	"golang.org/x/tools/go/packages"
)

// GenAccess (T2c) writes coq/gen/GenAccess.v: the lockset table of the engine.
//
// Every exported call of DB, Batch and Iterator (Open and Close excluded: a database is not shared
// before Open returns and must not be used while it is closed) and every goroutine the package starts
// is walked path by path - branches forked, loops unrolled twice, deferred calls run at every return,
// calls into the module inlined through DataFile down to the memory-mapped ReadWriter - and every read
// or write of a field of DB, Batch, DataFile or MMap met on the way is recorded with the set of locks
// held at that point.  Objects are told apart by provenance: the shared database, its active file,
// its older (rotated, no longer written) files, and objects that are local to one call (the temporary
// database and the files of a Merge) which are not recorded.  The flag DB.isMerging is a lock of its
// own: it is set and cleared under DB.mu and tested before it is set, so the code between the two
// assignments is exclusive among merges.
//
// The translator is conservative in the direction of raising obligations: an access whose object is
// not known counts for every object, an address taken counts as a write.
type alock struct {
	name string
	excl bool
}

type adefer struct {
	call *ast.CallExpr
}

type astate struct {
	held    []alock
	frames  [][]adefer
	known   map[string]bool
	kowner  map[string]string // for a flag that is a field of a tracked object: the owner's type
	prov    map[string]string
	ended   bool
	brk     bool
	cont    bool
	lastRet string // "nil" / "nonnil": what the last inlined callee returned as its error, if known
}

func (s astate) clone() astate {
	q := astate{ended: s.ended, brk: s.brk, cont: s.cont, known: map[string]bool{}, prov: map[string]string{},
		kowner: map[string]string{}, lastRet: s.lastRet}
	for k, v := range s.kowner {
		q.kowner[k] = v
	}
	q.held = append([]alock(nil), s.held...)
	for _, f := range s.frames {
		q.frames = append(q.frames, append([]adefer(nil), f...))
	}
	for k, v := range s.known {
		q.known[k] = v
	}
	for k, v := range s.prov {
		q.prov[k] = v
	}
	return q
}

func (s astate) key() string {
	var sb strings.Builder
	for _, l := range s.held {
		fmt.Fprintf(&sb, "%s/%v,", l.name, l.excl)
	}
	sb.WriteString("|")
	for _, f := range s.frames {
		for _, d := range f {
			fmt.Fprintf(&sb, "%d,", d.call.Pos())
		}
		sb.WriteString(";")
	}
	fmt.Fprintf(&sb, "|%v%v%v%s|", s.ended, s.brk, s.cont, s.lastRet)
	var ks []string
	for k, v := range s.known {
		ks = append(ks, fmt.Sprintf("%s=%v", k, v))
	}
	for k, v := range s.prov {
		ks = append(ks, fmt.Sprintf("%s~%s", k, v))
	}
	sort.Strings(ks)
	sb.WriteString(strings.Join(ks, ","))
	return sb.String()
}

type fctx struct {
	pkg      *packages.Package
	recvName string
	recvProv string
	depth    int
	fname    string
	// parameters of function type that were given a function literal by the caller: the literal is walked where the
	// callee calls the parameter, with the locks held there
	funcArgs map[string]litArg
}

type litArg struct {
	lit *ast.FuncLit
	ctx *fctx
}

func (c *fctx) lkey(name string) string { return fmt.Sprintf("%d:%s", c.depth, name) }

type accRec struct {
	loc    string
	inst   int // 0 the shared object, 1 active file, 2 older file, 3 unknown
	write  bool
	atomic bool
	held   []alock
	where  string
}

func (a accRec) key() string {
	var hs []string
	for _, l := range a.held {
		hs = append(hs, fmt.Sprintf("%s/%v", l.name, l.excl))
	}
	sort.Strings(hs)
	return fmt.Sprintf("%s@%d w=%v a=%v [%s]", a.loc, a.inst, a.write, a.atomic, strings.Join(hs, ","))
}

type accWalker struct {
	decls     map[types.Object]*ast.FuncDecl
	declPkg   map[*ast.FuncDecl]*packages.Package
	stack     map[*ast.FuncDecl]bool
	acc       map[string]accRec
	goLits    []goEntry
	seenGo    map[*ast.FuncLit]bool
	truncated bool
	maxStates int
	notes     []string
	entry     string
	fset      *token.FileSet
	mmapDecls map[string]*ast.FuncDecl // methods of *fio.MMap by name (ReadWriter is dispatched to them)
}

type goEntry struct {
	lit *ast.FuncLit
	ctx *fctx
}

var trackedTypes = map[string]string{ // type name suffix -> short name
	"xixi-kv.DB":         "DB",
	"xixi-kv.Batch":      "Batch",
	"datafile.DataFile":  "DataFile",
	"fio.MMap":           "MMap",
	"index.ShardedIndex": "ShardedIndex",
}

var tokenFields = map[string]bool{"DB.isMerging": true}

func namedOf(t types.Type) *types.Named {
	for {
		switch x := t.(type) {
		case *types.Pointer:
			t = x.Elem()
			continue
		case *types.Named:
			return x
		}
		return nil
	}
}

func trackedName(t types.Type) string {
	n := namedOf(t)
	if n == nil || n.Obj() == nil || n.Obj().Pkg() == nil {
		return ""
	}
	full := n.Obj().Pkg().Path() + "." + n.Obj().Name()
	for suf, short := range trackedTypes {
		if strings.HasSuffix(full, suf) {
			return short
		}
	}
	return ""
}

func isMutexType(t types.Type) bool {
	n := namedOf(t)
	if n == nil || n.Obj() == nil || n.Obj().Pkg() == nil {
		return false
	}
	return n.Obj().Pkg().Path() == "sync" && (n.Obj().Name() == "RWMutex" || n.Obj().Name() == "Mutex")
}

func isSafeLibType(t types.Type) bool {
	n := namedOf(t)
	if n == nil || n.Obj() == nil || n.Obj().Pkg() == nil {
		return false
	}
	p, nm := n.Obj().Pkg().Path(), n.Obj().Name()
	return (p == "sync" && (nm == "Pool" || nm == "Once" || nm == "WaitGroup" || nm == "Map")) || p == "sync/atomic"
}

func (w *accWalker) pos(p token.Pos) string {
	q := w.fset.Position(p)
	return fmt.Sprintf("%s:%d", filepath.Base(q.Filename), q.Line)
}

func dedupeStates(w *accWalker, ss []astate) []astate {
	seen := map[string]bool{}
	var out []astate
	for _, s := range ss {
		k := s.key()
		if !seen[k] {
			seen[k] = true
			out = append(out, s)
		}
	}
	if len(out) > w.maxStates {
		w.maxStates = len(out)
	}
	if len(out) > 16384 {
		if !w.truncated {
			w.notes = append(w.notes, fmt.Sprintf("more than 16384 path states in %s: the table is incomplete", w.entry))
		}
		w.truncated = true
		out = out[:16384]
	}
	return out
}

// ---- provenance ---------------------------------------------------------------------------------

func (w *accWalker) prov(c *fctx, s *astate, e ast.Expr) string {
	switch x := e.(type) {
	case *ast.Ident:
		if x.Name == c.recvName && c.recvName != "" {
			return c.recvProv
		}
		return s.prov[c.lkey(x.Name)]
	case *ast.ParenExpr:
		return w.prov(c, s, x.X)
	case *ast.StarExpr:
		return w.prov(c, s, x.X)
	case *ast.TypeAssertExpr:
		return w.prov(c, s, x.X)
	case *ast.UnaryExpr:
		return w.prov(c, s, x.X)
	case *ast.IndexExpr:
		return w.prov(c, s, x.X)
	case *ast.SliceExpr:
		return w.prov(c, s, x.X)
	case *ast.CompositeLit:
		return "local"
	case *ast.SelectorExpr:
		if id, ok := x.X.(*ast.Ident); ok {
			if _, isPkg := c.pkg.TypesInfo.Uses[id].(*types.PkgName); isPkg {
				return ""
			}
		}
		base := w.prov(c, s, x.X)
		owner := trackedName(c.pkg.TypesInfo.TypeOf(x.X))
		if owner == "DB" {
			if base == "" {
				base = "shared"
			}
			switch x.Sel.Name {
			case "activeFile":
				if base == "shared" {
					return "active"
				}
				return base
			case "olderFiles":
				if base == "shared" {
					return "older"
				}
				return base
			}
		}
		return base
	case *ast.CallExpr:
		if sel, ok := x.Fun.(*ast.SelectorExpr); ok {
			if _, isMethod := c.pkg.TypesInfo.Selections[sel]; isMethod {
				return w.prov(c, s, sel.X)
			}
		}
		if id, ok := x.Fun.(*ast.Ident); ok && id.Name == "append" && len(x.Args) > 0 {
			p := w.prov(c, s, x.Args[0])
			for _, a := range x.Args[1:] {
				p = joinProv(p, w.prov(c, s, a))
			}
			return p
		}
		if t := c.pkg.TypesInfo.TypeOf(x); t != nil {
			if _, ok := t.(*types.Tuple); ok {
				return "local"
			}
			if trackedName(t) != "" {
				return "local" // a constructor (datafile.OpenFile, fio.NewMMap ...)
			}
		}
	}
	return ""
}

func joinProv(a, b string) string {
	switch {
	case a == "" || a == "empty" || a == b:
		return b
	case b == "" || b == "empty":
		return a
	}
	return "unknown"
}

func instCode(owner, prov string) (int, bool) {
	switch owner {
	case "DB", "Batch":
		if prov == "local" {
			return 0, false
		}
		return 0, true
	}
	switch prov {
	case "local", "empty": // "empty": a nil pointer / an empty slice, nothing to reach through it
		return 0, false
	case "active":
		return 1, true
	case "older":
		return 2, true
	}
	return 3, true
}

// ---- recording ----------------------------------------------------------------------------------

func (w *accWalker) record(c *fctx, s *astate, sel *ast.SelectorExpr, write, atomic bool) {
	info := c.pkg.TypesInfo
	selection := info.Selections[sel]
	if selection == nil || selection.Kind() != types.FieldVal {
		return
	}
	owner := trackedName(info.TypeOf(sel.X))
	if owner == "" {
		return
	}
	ft := info.TypeOf(sel)
	if ft == nil || isMutexType(ft) || isSafeLibType(ft) {
		return
	}
	switch u := ft.Underlying().(type) {
	case *types.Slice:
		if isMutexType(u.Elem()) {
			return
		}
	case *types.Array:
		if isMutexType(u.Elem()) {
			return
		}
	}
	if _, isChan := ft.Underlying().(*types.Chan); isChan && !write {
		return
	}
	p := w.prov(c, s, sel.X)
	inst, ok := instCode(owner, p)
	if !ok {
		return
	}
	r := accRec{loc: owner + "." + sel.Sel.Name, inst: inst, write: write, atomic: atomic,
		held: heldFor(s.held, ""), where: w.pos(sel.Pos()) + " " + w.entry}
	k := r.key()
	if _, dup := w.acc[k]; !dup {
		w.acc[k] = r
	}
}

func (w *accWalker) recordGlobal(c *fctx, s *astate, id *ast.Ident, write bool) {
	v, ok := c.pkg.TypesInfo.Uses[id].(*types.Var)
	if !ok || v.Pkg() == nil || v.Parent() != v.Pkg().Scope() {
		return
	}
	if !strings.Contains(v.Pkg().Path(), "xixi-kv") {
		return
	}
	if isSafeLibType(v.Type()) || isMutexType(v.Type()) || (!write && v.Type().String() == "error") {
		return
	}
	r := accRec{loc: "var " + v.Pkg().Name() + "." + v.Name(), inst: 0, write: write,
		held: heldFor(s.held, ""), where: w.pos(id.Pos()) + " " + w.entry}
	k := r.key()
	if _, dup := w.acc[k]; !dup {
		w.acc[k] = r
	}
}

// fieldAlias: for an expression that is a slice- or map-typed field of a tracked object (or a slice of
// it), "alias:<location>#<object>": a local variable bound to it refers to the same memory.
func (w *accWalker) fieldAlias(c *fctx, s *astate, e ast.Expr) string {
	for {
		switch x := e.(type) {
		case *ast.SliceExpr:
			e = x.X
			continue
		case *ast.ParenExpr:
			e = x.X
			continue
		}
		break
	}
	if id, ok := e.(*ast.Ident); ok {
		if p := s.prov[c.lkey(id.Name)]; strings.HasPrefix(p, "alias:") {
			return p
		}
		return ""
	}
	sel, ok := e.(*ast.SelectorExpr)
	if !ok {
		return ""
	}
	info := c.pkg.TypesInfo
	if selection := info.Selections[sel]; selection == nil || selection.Kind() != types.FieldVal {
		return ""
	}
	owner := trackedName(info.TypeOf(sel.X))
	t := info.TypeOf(sel)
	if owner == "" || t == nil {
		return ""
	}
	switch t.Underlying().(type) {
	case *types.Slice, *types.Map:
	default:
		return ""
	}
	inst, ok := instCode(owner, w.prov(c, s, sel.X))
	if !ok {
		return ""
	}
	return fmt.Sprintf("alias:%s.%s#%d", owner, sel.Sel.Name, inst)
}

func (w *accWalker) recordAlias(s *astate, alias string, write bool, at token.Pos) {
	body := strings.TrimPrefix(alias, "alias:")
	i := strings.LastIndex(body, "#")
	if i < 0 {
		return
	}
	inst := int(body[i+1] - '0')
	r := accRec{loc: body[:i], inst: inst, write: write, held: heldFor(s.held, ""), where: w.pos(at) + " " + w.entry + " (through a local alias)"}
	k := r.key()
	if _, dup := w.acc[k]; !dup {
		w.acc[k] = r
	}
}

// heldFor: the locks held, as they count for an access to the shard named key ("" = not a shard): the
// lock of that very shard is "the shard's own lock", the lock of any other shard protects nothing here.
func heldFor(held []alock, key string) []alock {
	var out []alock
	for _, l := range held {
		if strings.HasPrefix(l.name, "ShardLock[") {
			if key != "" && l.name == "ShardLock["+key+"]" {
				out = append(out, alock{"ShardLock(own)", l.excl})
			} else {
				out = append(out, alock{"ShardLock(other)", l.excl})
			}
			continue
		}
		out = append(out, l)
	}
	return out
}

// the per-shard index object (interface index.index): which of its methods change it.  Creating an
// iterator counts as a change: the B-tree's Clone marks the tree copy-on-write.
var shardReadMethods = map[string]bool{"get": true, "size": true}

func isShardIface(t types.Type) bool {
	n, ok := t.(*types.Named)
	if !ok || n.Obj() == nil || n.Obj().Pkg() == nil {
		return false
	}
	_, isIface := n.Underlying().(*types.Interface)
	return isIface && n.Obj().Name() == "index" && strings.HasSuffix(n.Obj().Pkg().Path(), "/index")
}

func (w *accWalker) shardKey(c *fctx, s *astate, recv ast.Expr) string {
	switch x := recv.(type) {
	case *ast.IndexExpr:
		return types.ExprString(x.Index)
	case *ast.Ident:
		if p := s.prov[c.lkey(x.Name)]; strings.HasPrefix(p, "shard:") {
			return p[6:]
		}
	case *ast.ParenExpr:
		return w.shardKey(c, s, x.X)
	}
	return "?" + w.pos(recv.Pos())
}

func (w *accWalker) recordShard(c *fctx, s *astate, recv ast.Expr, method string, at token.Pos) {
	key := w.shardKey(c, s, recv)
	r := accRec{loc: "Shard.index", inst: 0, write: !shardReadMethods[method], held: heldFor(s.held, key),
		where: w.pos(at) + " " + w.entry}
	k := r.key()
	if _, dup := w.acc[k]; !dup {
		w.acc[k] = r
	}
}

// locatePair: does fd return (recv.index[e], &recv.indexLock[e]) - a shard together with its own lock?
func locatePair(fd *ast.FuncDecl) bool {
	ok := false
	ast.Inspect(fd.Body, func(n ast.Node) bool {
		r, isRet := n.(*ast.ReturnStmt)
		if !isRet || len(r.Results) != 2 {
			return true
		}
		a, isIdx := r.Results[0].(*ast.IndexExpr)
		u, isAddr := r.Results[1].(*ast.UnaryExpr)
		if !isIdx || !isAddr || u.Op != token.AND {
			ok = false
			return false
		}
		b, isIdx2 := u.X.(*ast.IndexExpr)
		if !isIdx2 {
			ok = false
			return false
		}
		sa, okA := a.X.(*ast.SelectorExpr)
		sb2, okB := b.X.(*ast.SelectorExpr)
		ok = okA && okB && sa.Sel.Name == "index" && sb2.Sel.Name == "indexLock" &&
			types.ExprString(sa.X) == types.ExprString(sb2.X) && types.ExprString(a.Index) == types.ExprString(b.Index)
		return false
	})
	return ok
}

// ---- expressions --------------------------------------------------------------------------------

func (w *accWalker) each(ss []astate, f func(s *astate)) []astate {
	for i := range ss {
		if !ss[i].ended && !ss[i].brk && !ss[i].cont {
			f(&ss[i])
		}
	}
	return ss
}

func (w *accWalker) expr(c *fctx, e ast.Expr, ss []astate, write bool) []astate {
	switch x := e.(type) {
	case nil:
		return ss
	case *ast.Ident:
		return w.each(ss, func(s *astate) {
			w.recordGlobal(c, s, x, write)
			if p := s.prov[c.lkey(x.Name)]; strings.HasPrefix(p, "alias:") {
				w.recordAlias(s, p, write, x.Pos())
			}
		})
	case *ast.SelectorExpr:
		if id, ok := x.X.(*ast.Ident); ok {
			if _, isPkg := c.pkg.TypesInfo.Uses[id].(*types.PkgName); isPkg {
				return w.each(ss, func(s *astate) { w.recordGlobal(c, s, x.Sel, write) })
			}
		}
		ss = w.expr(c, x.X, ss, false)
		return w.each(ss, func(s *astate) { w.record(c, s, x, write, false) })
	case *ast.IndexExpr:
		ss = w.expr(c, x.Index, ss, false)
		return w.expr(c, x.X, ss, write)
	case *ast.SliceExpr:
		ss = w.expr(c, x.Low, ss, false)
		ss = w.expr(c, x.High, ss, false)
		ss = w.expr(c, x.Max, ss, false)
		return w.expr(c, x.X, ss, write)
	case *ast.StarExpr:
		return w.expr(c, x.X, ss, write)
	case *ast.ParenExpr:
		return w.expr(c, x.X, ss, write)
	case *ast.TypeAssertExpr:
		return w.expr(c, x.X, ss, write)
	case *ast.UnaryExpr:
		if x.Op == token.AND {
			if _, isLit := x.X.(*ast.CompositeLit); !isLit {
				return w.expr(c, x.X, ss, true)
			}
		}
		return w.expr(c, x.X, ss, false)
	case *ast.BinaryExpr:
		ss = w.expr(c, x.X, ss, false)
		return w.expr(c, x.Y, ss, false)
	case *ast.KeyValueExpr:
		return w.expr(c, x.Value, ss, false)
	case *ast.CompositeLit:
		for _, el := range x.Elts {
			ss = w.expr(c, el, ss, false)
		}
		return ss
	case *ast.FuncLit:
		// a closure that is neither deferred nor started as a goroutine: its body is walked where it is
		// written, with the locks held there
		return w.body(c, x.Body, ss)
	case *ast.CallExpr:
		return w.call(c, x, ss)
	}
	return ss
}

func (w *accWalker) lockOp(c *fctx, call *ast.CallExpr) (name string, owner ast.Expr, op string, ok bool) {
	sel, isSel := call.Fun.(*ast.SelectorExpr)
	if !isSel {
		return
	}
	switch sel.Sel.Name {
	case "Lock", "RLock", "Unlock", "RUnlock":
	default:
		return
	}
	t := c.pkg.TypesInfo.TypeOf(sel.X)
	if t == nil || !isMutexType(t) {
		return
	}
	inner, isField := sel.X.(*ast.SelectorExpr)
	if !isField {
		return "", nil, sel.Sel.Name, true // a mutex that is not a field of a tracked object
	}
	on := trackedName(c.pkg.TypesInfo.TypeOf(inner.X))
	if on == "" {
		return "", nil, sel.Sel.Name, true
	}
	return on + "." + inner.Sel.Name, inner.X, sel.Sel.Name, true
}

func acquire(s *astate, name string, excl bool) { s.held = append(s.held, alock{name, excl}) }

func release(s *astate, name string) bool {
	// what was learnt about fields of the object the lock protects holds no longer
	if i := strings.Index(name, "."); i > 0 {
		for k, o := range s.kowner {
			if o == name[:i] {
				delete(s.known, k)
				delete(s.kowner, k)
			}
		}
	}
	for i := len(s.held) - 1; i >= 0; i-- {
		if s.held[i].name == name {
			s.held = append(s.held[:i:i], s.held[i+1:]...)
			return true
		}
	}
	return false
}

func (w *accWalker) call(c *fctx, call *ast.CallExpr, ss []astate) []astate {
	info := c.pkg.TypesInfo
	// lock operations
	if name, owner, op, ok := w.lockOp(c, call); ok {
		if name == "" {
			// a shard lock: s.indexLock[e].Lock() or lock.Lock() with lock obtained from locateShard
			sel := call.Fun.(*ast.SelectorExpr)
			return w.each(ss, func(s *astate) {
				nm := ""
				switch x := sel.X.(type) {
				case *ast.IndexExpr:
					if fs, ok := x.X.(*ast.SelectorExpr); ok && trackedName(info.TypeOf(fs.X)) == "ShardedIndex" {
						nm = "ShardLock[" + types.ExprString(x.Index) + "]"
					}
				case *ast.Ident:
					if p := s.prov[c.lkey(x.Name)]; strings.HasPrefix(p, "lock:") {
						nm = "ShardLock[" + p[5:] + "]"
					}
				}
				if nm == "" {
					return
				}
				switch op {
				case "Lock":
					acquire(s, nm, true)
				case "RLock":
					acquire(s, nm, false)
				default:
					if !release(s, nm) {
						w.notes = append(w.notes, fmt.Sprintf("%s: %s of %s which is not held (%s)", w.pos(call.Pos()), op, nm, w.entry))
					}
				}
			})
		}
		return w.each(ss, func(s *astate) {
			if w.prov(c, s, owner) == "local" {
				return
			}
			switch op {
			case "Lock":
				acquire(s, name, true)
			case "RLock":
				acquire(s, name, false)
			default:
				if !release(s, name) {
					w.notes = append(w.notes, fmt.Sprintf("%s: %s of %s which is not held (%s)", w.pos(call.Pos()), op, name, w.entry))
				}
			}
		})
	}
	// conversions
	if tv, ok := info.Types[call.Fun]; ok && tv.IsType() {
		for _, a := range call.Args {
			ss = w.expr(c, a, ss, false)
		}
		return ss
	}
	// builtins
	if id, ok := call.Fun.(*ast.Ident); ok {
		if _, isB := info.Uses[id].(*types.Builtin); isB {
			for i, a := range call.Args {
				wr := (id.Name == "delete" && i == 0) || (id.Name == "copy" && i == 0)
				ss = w.expr(c, a, ss, wr)
			}
			if id.Name == "panic" {
				for i := range ss {
					if !ss[i].ended && !ss[i].brk && !ss[i].cont {
						ss[i].ended = true
					}
				}
			}
			return ss
		}
	}
	var obj types.Object
	var recv ast.Expr
	switch f := call.Fun.(type) {
	case *ast.Ident:
		if la, ok := c.funcArgs[f.Name]; ok {
			for _, a := range call.Args {
				ss = w.expr(c, a, ss, false)
			}
			cc := *la.ctx
			cc.depth = c.depth + 1
			return w.body(&cc, la.lit.Body, ss)
		}
		obj = info.Uses[f]
	case *ast.SelectorExpr:
		obj = info.Uses[f.Sel]
		if _, isMethod := info.Selections[f]; isMethod {
			recv = f.X
		}
	case *ast.FuncLit:
		for _, a := range call.Args {
			ss = w.expr(c, a, ss, false)
		}
		return w.body(c, f.Body, ss)
	}
	// sync/atomic
	if fn, ok := obj.(*types.Func); ok && fn.Pkg() != nil && fn.Pkg().Path() == "sync/atomic" {
		for i, a := range call.Args {
			if u, isAddr := a.(*ast.UnaryExpr); i == 0 && isAddr && u.Op == token.AND {
				if sel, isSel := u.X.(*ast.SelectorExpr); isSel {
					ss = w.expr(c, sel.X, ss, false)
					wr := !strings.HasPrefix(fn.Name(), "Load")
					ss = w.each(ss, func(s *astate) { w.record(c, s, sel, wr, true) })
					continue
				}
			}
			ss = w.expr(c, a, ss, false)
		}
		return ss
	}
	// receiver and arguments
	if recv != nil {
		ss = w.expr(c, recv, ss, false)
	} else if sel, ok := call.Fun.(*ast.SelectorExpr); ok {
		ss = w.expr(c, sel, ss, false) // a function-typed field or a package function
	}
	var calleeDecl *ast.FuncDecl
	if obj != nil {
		calleeDecl = w.decls[obj]
	}
	for _, a := range call.Args {
		if _, isLit := a.(*ast.FuncLit); isLit && calleeDecl != nil && calleeDecl.Body != nil {
			continue // walked where the callee calls its parameter
		}
		wr := false
		root := a
		for {
			if sl, ok := root.(*ast.SliceExpr); ok {
				root = sl.X
				continue
			}
			break
		}
		switch r := root.(type) {
		case *ast.SelectorExpr:
			if t := info.TypeOf(r); t != nil {
				switch t.Underlying().(type) {
				case *types.Slice, *types.Map:
					wr = true // the callee may write into the buffer the field refers to
				}
			}
		case *ast.Ident:
			if t := info.TypeOf(r); t != nil {
				switch t.Underlying().(type) {
				case *types.Slice, *types.Map:
					wr = true // a local alias of a field's buffer (recorded only if it is one)
				}
			}
		}
		ss = w.expr(c, a, ss, wr)
	}
	if recv != nil {
		if t := info.TypeOf(recv); t != nil && isShardIface(t) {
			if sel, ok := call.Fun.(*ast.SelectorExpr); ok {
				ss = w.each(ss, func(s *astate) { w.recordShard(c, s, recv, sel.Sel.Name, call.Pos()) })
			}
			return ss
		}
	}
	// callee
	var fd *ast.FuncDecl
	if obj != nil {
		fd = w.decls[obj]
	}
	if fd == nil && recv != nil {
		// interface dispatch: fio.ReadWriter -> *fio.MMap (FileIO keeps no state of its own)
		if t := info.TypeOf(recv); t != nil {
			if n := namedOf(t); n != nil && n.Obj().Name() == "ReadWriter" {
				if sel, ok := call.Fun.(*ast.SelectorExpr); ok {
					fd = w.mmapDecls[sel.Sel.Name]
				}
			}
		}
	}
	if fd == nil || fd.Body == nil || c.depth > 12 || w.stack[fd] {
		return ss
	}
	return w.inline(c, fd, recv, call.Args, ss)
}

func (w *accWalker) inline(c *fctx, fd *ast.FuncDecl, recv ast.Expr, args []ast.Expr, ss []astate) []astate {
	w.stack[fd] = true
	defer delete(w.stack, fd)
	// group the running states by the provenance of the receiver (it selects the callee's context)
	groups := map[string][]astate{}
	var order []string
	var rest []astate
	for _, s := range ss {
		if s.ended || s.brk || s.cont {
			rest = append(rest, s)
			continue
		}
		p := ""
		if recv != nil {
			p = w.prov(c, &s, recv)
		}
		if _, ok := groups[p]; !ok {
			order = append(order, p)
		}
		groups[p] = append(groups[p], s)
	}
	out := rest
	for _, p := range order {
		cc := &fctx{pkg: w.declPkg[fd], depth: c.depth + 1, fname: fd.Name.Name, recvProv: p}
		if fd.Recv != nil && len(fd.Recv.List) > 0 && len(fd.Recv.List[0].Names) > 0 {
			cc.recvName = fd.Recv.List[0].Names[0].Name
		}
		in := groups[p]
		// provenance of pointer parameters
		if fd.Type.Params != nil {
			i := 0
			for _, f := range fd.Type.Params.List {
				for _, nm := range f.Names {
					if i < len(args) {
						if lit, ok := args[i].(*ast.FuncLit); ok {
							if cc.funcArgs == nil {
								cc.funcArgs = map[string]litArg{}
							}
							cc.funcArgs[nm.Name] = litArg{lit, c}
						}
						for k := range in {
							if pv := w.prov(c, &in[k], args[i]); pv != "" {
								in[k].prov[cc.lkey(nm.Name)] = pv
							}
						}
					}
					i++
				}
			}
		}
		res := w.funcBody(cc, fd.Body, in)
		out = append(out, res...)
	}
	return dedupeStates(w, out)
}

// funcBody walks a function body as a new frame: deferred calls run at every return and at the end.
func (w *accWalker) funcBody(c *fctx, body *ast.BlockStmt, ss []astate) []astate {
	for i := range ss {
		ss[i].frames = append(ss[i].frames, nil)
	}
	ss = w.block(c, body.List, ss)
	var out []astate
	for _, s := range ss {
		if !s.ended {
			s.lastRet = ""
			out = append(out, w.runDefers(c, s)...)
		} else {
			out = append(out, s)
		}
	}
	prefix := fmt.Sprintf("%d:", c.depth)
	for i := range out {
		out[i].ended, out[i].brk, out[i].cont = false, false, false
		if n := len(out[i].frames); n > 0 {
			out[i].frames = out[i].frames[:n-1]
		}
		for k := range out[i].known {
			if strings.HasPrefix(k, prefix) {
				delete(out[i].known, k)
			}
		}
		for k := range out[i].prov {
			if strings.HasPrefix(k, prefix) {
				delete(out[i].prov, k)
			}
		}
	}
	return dedupeStates(w, out)
}

// body: a closure walked in place (its returns end the closure only)
func (w *accWalker) body(c *fctx, b *ast.BlockStmt, ss []astate) []astate {
	var run, rest []astate
	for _, s := range ss {
		if s.ended || s.brk || s.cont {
			rest = append(rest, s)
		} else {
			run = append(run, s)
		}
	}
	cc := *c
	cc.depth = c.depth + 1
	// the closure sees the enclosing function's names: keep the receiver, copy nothing else
	res := w.funcBody(&cc, b, run)
	return append(res, rest...)
}

func (w *accWalker) runDefers(c *fctx, s astate) []astate {
	n := len(s.frames)
	if n == 0 {
		return []astate{s}
	}
	defs := s.frames[n-1]
	s.frames[n-1] = nil
	cur := []astate{s}
	for i := len(defs) - 1; i >= 0; i-- {
		for k := range cur {
			cur[k].ended = false
		}
		cur = w.call(c, defs[i].call, cur)
	}
	for k := range cur {
		cur[k].ended = true
	}
	return cur
}

// ---- statements ---------------------------------------------------------------------------------

func (w *accWalker) block(c *fctx, stmts []ast.Stmt, ss []astate) []astate {
	for _, s := range stmts {
		ss = w.stmt(c, s, ss)
	}
	return ss
}

func splitRun(ss []astate) (run, rest []astate) {
	for _, s := range ss {
		if s.ended || s.brk || s.cont {
			rest = append(rest, s)
		} else {
			run = append(run, s)
		}
	}
	return
}

func cloneStates(ss []astate) []astate {
	out := make([]astate, len(ss))
	for i, s := range ss {
		out[i] = s.clone()
	}
	return out
}

func (w *accWalker) knownName(c *fctx, e ast.Expr) (string, bool) {
	neg := false
	for {
		if u, ok := e.(*ast.UnaryExpr); ok && u.Op == token.NOT {
			neg = !neg
			e = u.X
			continue
		}
		if p, ok := e.(*ast.ParenExpr); ok {
			e = p.X
			continue
		}
		break
	}
	switch x := e.(type) {
	case *ast.Ident:
		if x.Name == "true" || x.Name == "false" {
			return "", false
		}
		return c.lkey(x.Name), neg
	case *ast.SelectorExpr:
		if n := selChain(x); n != "?" {
			return n, neg
		}
	case *ast.BinaryExpr:
		// err != nil / err == nil
		if x.Op == token.NEQ || x.Op == token.EQL {
			id, ok1 := x.X.(*ast.Ident)
			nl, ok2 := x.Y.(*ast.Ident)
			if ok1 && ok2 && nl.Name == "nil" {
				if x.Op == token.EQL {
					neg = !neg
				}
				return c.lkey(id.Name) + "!=nil", neg
			}
		}
	}
	return "", false
}

// flagOwner: for a condition that is a field of a tracked object (possibly negated), the object's type
func (w *accWalker) flagOwner(c *fctx, e ast.Expr) string {
	for {
		switch x := e.(type) {
		case *ast.UnaryExpr:
			e = x.X
			continue
		case *ast.ParenExpr:
			e = x.X
			continue
		case *ast.SelectorExpr:
			return trackedName(c.pkg.TypesInfo.TypeOf(x.X))
		}
		return ""
	}
}

func (w *accWalker) assignEffects(c *fctx, lhs, rhs ast.Expr, ss []astate) {
	// boolean constants fix a flag; pointer values carry provenance; the merge flag is a lock
	for i := range ss {
		s := &ss[i]
		if s.ended || s.brk || s.cont {
			continue
		}
		if id, ok := rhs.(*ast.Ident); ok && (id.Name == "true" || id.Name == "false") {
			tested, wasFalse := false, false
			if n, _ := w.knownName(c, lhs); n != "" {
				if v, ok := s.known[n]; ok {
					tested, wasFalse = true, !v
				}
				s.known[n] = id.Name == "true"
				if sel, ok := lhs.(*ast.SelectorExpr); ok {
					if o := trackedName(c.pkg.TypesInfo.TypeOf(sel.X)); o != "" {
						s.kowner[n] = o
					}
				}
			}
			if sel, ok := lhs.(*ast.SelectorExpr); ok {
				owner := trackedName(c.pkg.TypesInfo.TypeOf(sel.X))
				fld := owner + "." + sel.Sel.Name
				if tokenFields[fld] && id.Name == "true" && w.prov(c, s, sel.X) != "local" && !(tested && wasFalse) {
					// the flag is a lock only if it is tested and set in one critical section
					w.notes = append(w.notes, fmt.Sprintf("%s: %s is set without having been found clear in the same critical section (%s)", w.pos(lhs.Pos()), fld, w.entry))
				}
				if tokenFields[fld] && w.prov(c, s, sel.X) != "local" {
					dbExcl := false
					for _, l := range s.held {
						if l.name == "DB.mu" && l.excl {
							dbExcl = true
						}
					}
					if !dbExcl {
						w.notes = append(w.notes, fmt.Sprintf("%s: %s assigned without DB.mu held exclusively (%s)", w.pos(lhs.Pos()), fld, w.entry))
						continue
					}
					if id.Name == "true" {
						acquire(s, fld, true)
					} else {
						release(s, fld)
					}
				}
			}
			continue
		}
		if id, ok := lhs.(*ast.Ident); ok && rhs != nil {
			if al := w.fieldAlias(c, s, rhs); al != "" {
				s.prov[c.lkey(id.Name)] = al
				delete(s.known, c.lkey(id.Name))
				continue
			}
			if p := w.prov(c, s, rhs); p != "" {
				s.prov[c.lkey(id.Name)] = p
			} else {
				delete(s.prov, c.lkey(id.Name))
			}
			delete(s.known, c.lkey(id.Name))
		}
	}
}

func (w *accWalker) stmt(c *fctx, st ast.Stmt, all []astate) []astate {
	run, rest := splitRun(all)
	if len(run) == 0 {
		return all
	}
	var out []astate
	switch x := st.(type) {
	case *ast.ReturnStmt:
		for _, r := range x.Results {
			run = w.expr(c, r, run, false)
		}
		for i := range run {
			run[i].lastRet = ""
			if len(x.Results) == 0 {
				continue
			}
			switch last := x.Results[len(x.Results)-1].(type) {
			case *ast.Ident:
				switch {
				case last.Name == "nil":
					run[i].lastRet = "nil"
				case strings.HasPrefix(last.Name, "Err"):
					run[i].lastRet = "nonnil"
				default:
					if v, ok := run[i].known[c.lkey(last.Name)+"!=nil"]; ok {
						if v {
							run[i].lastRet = "nonnil"
						} else {
							run[i].lastRet = "nil"
						}
					}
				}
			case *ast.SelectorExpr:
				if strings.HasPrefix(last.Sel.Name, "Err") {
					run[i].lastRet = "nonnil"
				}
			case *ast.CallExpr:
				if sel, ok := last.Fun.(*ast.SelectorExpr); ok && (sel.Sel.Name == "Errorf" || sel.Sel.Name == "New") {
					run[i].lastRet = "nonnil"
				}
			}
		}
		for _, s := range run {
			if s.ended {
				out = append(out, s)
				continue
			}
			out = append(out, w.runDefers(c, s)...)
		}
	case *ast.DeferStmt:
		for _, a := range x.Call.Args {
			run = w.expr(c, a, run, false)
		}
		for i := range run {
			n := len(run[i].frames)
			if n == 0 {
				run[i].frames = append(run[i].frames, nil)
				n = 1
			}
			run[i].frames[n-1] = append(run[i].frames[n-1], adefer{x.Call})
		}
		out = run
	case *ast.GoStmt:
		if lit, ok := x.Call.Fun.(*ast.FuncLit); ok && !w.seenGo[lit] {
			w.seenGo[lit] = true
			cc := *c
			w.goLits = append(w.goLits, goEntry{lit, &cc})
		}
		for _, a := range x.Call.Args {
			run = w.expr(c, a, run, false)
		}
		out = run
	case *ast.BranchStmt:
		for i := range run {
			switch x.Tok {
			case token.BREAK:
				run[i].brk = true
			case token.CONTINUE:
				run[i].cont = true
			}
		}
		out = run
	case *ast.IfStmt:
		if x.Init != nil {
			run = w.stmt(c, x.Init, run)
		}
		run = w.expr(c, x.Cond, run, false)
		name, neg := w.knownName(c, x.Cond)
		var thenIn, elseIn, skip []astate
		for _, s := range run {
			if s.ended || s.brk || s.cont {
				skip = append(skip, s)
				continue
			}
			if name != "" {
				if v, ok := s.known[name]; ok {
					if v != neg {
						thenIn = append(thenIn, s.clone())
					} else {
						elseIn = append(elseIn, s.clone())
					}
					continue
				}
				t, e := s.clone(), s.clone()
				t.known[name], e.known[name] = !neg, neg
				if o := w.flagOwner(c, x.Cond); o != "" {
					t.kowner[name], e.kowner[name] = o, o
				}
				thenIn, elseIn = append(thenIn, t), append(elseIn, e)
				continue
			}
			thenIn, elseIn = append(thenIn, s.clone()), append(elseIn, s.clone())
		}
		thenOut := w.block(c, x.Body.List, thenIn)
		elseOut := elseIn
		if x.Else != nil && len(elseIn) > 0 {
			elseOut = w.stmt(c, x.Else, elseIn)
		}
		out = append(append(thenOut, elseOut...), skip...)
		if strings.HasSuffix(name, "!=nil") {
			// the outcome of the call has been consumed by this test
			for i := range out {
				delete(out[i].known, name)
			}
		}
	case *ast.AssignStmt:
		for i := range run {
			run[i].lastRet = ""
		}
		for _, r := range x.Rhs {
			run = w.expr(c, r, run, false)
		}
		if len(x.Rhs) == 1 {
			if _, isCall := x.Rhs[0].(*ast.CallExpr); isCall {
				if id, ok := x.Lhs[len(x.Lhs)-1].(*ast.Ident); ok && id.Name != "_" {
					if t := c.pkg.TypesInfo.TypeOf(id); t != nil && t.String() == "error" {
						for i := range run {
							k := c.lkey(id.Name) + "!=nil"
							switch run[i].lastRet {
							case "nil":
								run[i].known[k] = false
							case "nonnil":
								run[i].known[k] = true
							default:
								delete(run[i].known, k)
							}
						}
					}
				}
			}
		}
		for _, l := range x.Lhs {
			if id, ok := l.(*ast.Ident); ok && x.Tok == token.DEFINE {
				_ = id
				continue
			}
			run = w.expr(c, l, run, true)
		}
		if len(x.Lhs) == len(x.Rhs) {
			for i := range x.Lhs {
				w.assignEffects(c, x.Lhs[i], x.Rhs[i], run)
			}
		} else if len(x.Rhs) == 1 {
			// v, err := f(): the first result carries the provenance
			w.assignEffects(c, x.Lhs[0], x.Rhs[0], run)
			if call, ok := x.Rhs[0].(*ast.CallExpr); ok && len(x.Lhs) == 2 {
				if sel, ok := call.Fun.(*ast.SelectorExpr); ok {
					if fd := w.decls[c.pkg.TypesInfo.Uses[sel.Sel]]; fd != nil && fd.Body != nil {
						a, okA := x.Lhs[0].(*ast.Ident)
						b, okB := x.Lhs[1].(*ast.Ident)
						if t := c.pkg.TypesInfo.TypeOf(x.Lhs[0]); okA && okB && t != nil && isShardIface(t) {
							ka, kb := fmt.Sprintf("a@%s", w.pos(call.Pos())), fmt.Sprintf("b@%s", w.pos(call.Pos()))
							if locatePair(fd) {
								kb = ka
							}
							for i := range run {
								run[i].prov[c.lkey(a.Name)] = "shard:" + ka
								run[i].prov[c.lkey(b.Name)] = "lock:" + kb
							}
						}
					}
				}
			}
		}
		out = run
	case *ast.IncDecStmt:
		out = w.expr(c, x.X, run, true)
	case *ast.DeclStmt:
		if gd, ok := x.Decl.(*ast.GenDecl); ok {
			for _, sp := range gd.Specs {
				vs, ok := sp.(*ast.ValueSpec)
				if !ok {
					continue
				}
				for _, v := range vs.Values {
					run = w.expr(c, v, run, false)
				}
				for i, nm := range vs.Names {
					if i < len(vs.Values) {
						w.assignEffects(c, nm, vs.Values[i], run)
					} else if t, ok := vs.Type.(*ast.Ident); ok && t.Name == "bool" {
						for k := range run {
							run[k].known[c.lkey(nm.Name)] = false
						}
					} else if tt := c.pkg.TypesInfo.TypeOf(vs.Type); tt != nil {
						switch tt.Underlying().(type) {
						case *types.Slice, *types.Pointer, *types.Map:
							for k := range run {
								run[k].prov[c.lkey(nm.Name)] = "empty"
							}
						}
					}
				}
			}
		}
		out = run
	case *ast.ExprStmt:
		out = w.expr(c, x.X, run, false)
	case *ast.SendStmt:
		run = w.expr(c, x.Chan, run, false)
		out = w.expr(c, x.Value, run, false)
	case *ast.BlockStmt:
		out = w.block(c, x.List, run)
	case *ast.LabeledStmt:
		out = w.stmt(c, x.Stmt, run)
	case *ast.ForStmt:
		if x.Init != nil {
			run = w.stmt(c, x.Init, run)
		}
		out = w.loop(c, run, x.Cond != nil, func(in []astate) []astate {
			in = w.expr(c, x.Cond, in, false)
			return in
		}, func(in []astate) []astate {
			in = w.block(c, x.Body.List, in)
			for i := range in {
				in[i].cont = false
			}
			if x.Post != nil {
				in = w.stmt(c, x.Post, in)
			}
			return in
		})
	case *ast.RangeStmt:
		run = w.expr(c, x.X, run, false)
		var loopIn []astate
		for i := range run {
			p := w.prov(c, &run[i], x.X)
			if p == "empty" {
				out = append(out, run[i]) // nothing to range over on this path
				continue
			}
			if id, ok := x.Value.(*ast.Ident); ok && p != "" {
				run[i].prov[c.lkey(id.Name)] = p
			}
			loopIn = append(loopIn, run[i])
		}
		run = loopIn
		out = append(out, w.loop(c, run, true, func(in []astate) []astate { return in }, func(in []astate) []astate {
			in = w.block(c, x.Body.List, in)
			for i := range in {
				in[i].cont = false
			}
			return in
		})...)
	case *ast.SwitchStmt:
		if x.Init != nil {
			run = w.stmt(c, x.Init, run)
		}
		run = w.expr(c, x.Tag, run, false)
		out = w.clauses(c, x.Body, run)
	case *ast.TypeSwitchStmt:
		if x.Init != nil {
			run = w.stmt(c, x.Init, run)
		}
		out = w.clauses(c, x.Body, run)
	case *ast.SelectStmt:
		out = w.clauses(c, x.Body, run)
	default:
		out = run
	}
	return dedupeStates(w, append(out, rest...))
}

// loop: the states that leave a loop after zero (if it has a condition), one or two iterations, or by break.
func (w *accWalker) loop(c *fctx, in []astate, hasCond bool, cond func([]astate) []astate, body func([]astate) []astate) []astate {
	var exit []astate
	cur := in
	for iter := 0; iter < 3; iter++ {
		cur = cond(cloneStates(cur))
		if hasCond {
			exit = append(exit, cloneStates(cur)...)
		}
		if iter == 2 {
			break
		}
		after := body(cloneStates(cur))
		var next []astate
		for _, s := range after {
			switch {
			case s.ended:
				exit = append(exit, s)
			case s.brk:
				s.brk = false
				exit = append(exit, s)
			default:
				s.cont = false
				next = append(next, s)
			}
		}
		cur = dedupeStates(w, next)
		if len(cur) == 0 {
			break
		}
	}
	return dedupeStates(w, exit)
}

func (w *accWalker) clauses(c *fctx, body *ast.BlockStmt, run []astate) []astate {
	out := cloneStates(run) // no clause taken
	for _, cl := range body.List {
		in := cloneStates(run)
		switch cc := cl.(type) {
		case *ast.CaseClause:
			for _, e := range cc.List {
				in = w.expr(c, e, in, false)
			}
			out = append(out, w.block(c, cc.Body, in)...)
		case *ast.CommClause:
			if cc.Comm != nil {
				in = w.stmt(c, cc.Comm, in)
			}
			out = append(out, w.block(c, cc.Body, in)...)
		}
	}
	for i := range out {
		out[i].brk = false // a break inside a switch / select leaves that statement only
	}
	return out
}

// ---- driver -------------------------------------------------------------------------------------

func GenAccess(repo, outDir string) error {
	pkgs, err := Load(repo, "", "./") // the code as shipped: the verif hooks are empty without the tag
	if err != nil {
		return err
	}
	var root *packages.Package
	for _, p := range pkgs {
		if strings.HasSuffix(p.PkgPath, "xixi-kv") {
			root = p
		}
	}
	if root == nil {
		return fmt.Errorf("root package not found")
	}
	w := &accWalker{decls: map[types.Object]*ast.FuncDecl{}, declPkg: map[*ast.FuncDecl]*packages.Package{},
		stack: map[*ast.FuncDecl]bool{}, acc: map[string]accRec{}, seenGo: map[*ast.FuncLit]bool{},
		fset: root.Fset, mmapDecls: map[string]*ast.FuncDecl{}}
	mod := []*packages.Package{root}
	for path, p := range root.Imports {
		if strings.Contains(path, "xixi-kv/") {
			mod = append(mod, p)
			for path2, p2 := range p.Imports {
				if strings.Contains(path2, "xixi-kv/") {
					mod = append(mod, p2)
				}
			}
		}
	}
	type entry struct {
		name string
		fd   *ast.FuncDecl
		recv string
	}
	var entries []entry
	byName := map[string]*ast.FuncDecl{}
	seenPkg := map[*packages.Package]bool{}
	for _, p := range mod {
		if seenPkg[p] {
			continue
		}
		seenPkg[p] = true
		for _, f := range p.Syntax {
			for _, d := range f.Decls {
				fd, ok := d.(*ast.FuncDecl)
				if !ok {
					continue
				}
				if obj := p.TypesInfo.Defs[fd.Name]; obj != nil {
					w.decls[obj] = fd
					w.declPkg[fd] = p
				}
				rt := ""
				if fd.Recv != nil && len(fd.Recv.List) > 0 {
					t := fd.Recv.List[0].Type
					if st, ok := t.(*ast.StarExpr); ok {
						t = st.X
					}
					if id, ok := t.(*ast.Ident); ok {
						rt = id.Name
					}
				}
				if strings.HasSuffix(p.PkgPath, "/fio") && rt == "MMap" {
					w.mmapDecls[fd.Name.Name] = fd
				}
				if strings.HasSuffix(p.PkgPath, "/index") && rt == "ShardedIndex" && fd.Name.IsExported() && fd.Body != nil {
					entries = append(entries, entry{"ShardedIndex." + fd.Name.Name, fd, rt})
				}
				if p == root && rt != "" {
					byName[rt+"."+fd.Name.Name] = fd
					if fd.Name.IsExported() && (rt == "DB" || rt == "Iterator") && fd.Body != nil &&
						!(rt == "DB" && (fd.Name.Name == "Close" || fd.Name.Name == "NewBatch")) {
						entries = append(entries, entry{rt + "." + fd.Name.Name, fd, rt})
					}
				}
			}
		}
	}
	sort.Slice(entries, func(i, j int) bool { return entries[i].name < entries[j].name })
	start := func() astate {
		return astate{known: map[string]bool{}, prov: map[string]string{}, kowner: map[string]string{}}
	}
	runEntry := func(name string, fd *ast.FuncDecl, init astate) []astate {
		w.entry = name
		c := &fctx{pkg: w.declPkg[fd], depth: 0, fname: fd.Name.Name, recvProv: "shared"}
		if fd.Recv != nil && len(fd.Recv.List[0].Names) > 0 {
			c.recvName = fd.Recv.List[0].Names[0].Name
		}
		w.stack[fd] = true
		defer delete(w.stack, fd)
		return w.funcBody(c, fd.Body, []astate{init})
	}
	nEntries := 0
	for _, e := range entries {
		runEntry(e.name, e.fd, start())
		nEntries++
	}
	// a batch: NewBatch leaves the engine lock held until Commit; the other calls of the session start
	// with what NewBatch left.  Calls through a committed batch start with nothing.
	if nb := byName["DB.NewBatch"]; nb != nil && nb.Body != nil {
		outs := runEntry("DB.NewBatch", nb, start())
		nEntries++
		seen := map[string]bool{}
		for _, o := range outs {
			k := fmt.Sprint(o.held)
			if seen[k] {
				continue
			}
			seen[k] = true
			for _, m := range []string{"Batch.Put", "Batch.Get", "Batch.Delete", "Batch.Commit"} {
				if fd := byName[m]; fd != nil && fd.Body != nil {
					s := start()
					s.held = append([]alock(nil), o.held...)
					s.known["b.committed"] = false
					runEntry(m+" (open batch)", fd, s)
					s2 := start()
					s2.known["b.committed"] = true
					runEntry(m+" (committed batch)", fd, s2)
					nEntries++
				}
			}
		}
	}
	for i := 0; i < len(w.goLits); i++ {
		g := w.goLits[i]
		w.entry = "goroutine started at " + w.pos(g.lit.Pos())
		cc := *g.ctx
		cc.depth = 0
		w.funcBody(&cc, g.lit.Body, []astate{start()})
		nEntries++
	}
	// Open starts the background goroutine: walk Open only to find its go statements
	for _, f := range root.Syntax {
		for _, d := range f.Decls {
			if fd, ok := d.(*ast.FuncDecl); ok && fd.Recv == nil && fd.Name.Name == "Open" && fd.Body != nil {
				ast.Inspect(fd.Body, func(n ast.Node) bool {
					if g, ok := n.(*ast.GoStmt); ok {
						if lit, ok := g.Call.Fun.(*ast.FuncLit); ok && !w.seenGo[lit] {
							w.seenGo[lit] = true
							w.entry = "goroutine started by Open at " + w.pos(lit.Pos())
							c := &fctx{pkg: root, depth: 0, fname: "Open.go", recvName: "db", recvProv: "shared"}
							w.funcBody(c, lit.Body, []astate{start()})
							nEntries++
						}
					}
					return true
				})
			}
		}
	}
	return writeAccess(w, outDir, nEntries)
}

func writeAccess(w *accWalker, outDir string, nEntries int) error {
	var recs []accRec
	for _, r := range w.acc {
		recs = append(recs, r)
	}
	sort.Slice(recs, func(i, j int) bool { return recs[i].key() < recs[j].key() })
	locID, lockID := map[string]int{}, map[string]int{}
	var locs, locks []string
	for _, r := range recs {
		if _, ok := locID[r.loc]; !ok {
			locID[r.loc] = len(locs)
			locs = append(locs, r.loc)
		}
		for _, l := range r.held {
			if _, ok := lockID[l.name]; !ok {
				lockID[l.name] = len(locks)
				locks = append(locks, l.name)
			}
		}
	}
	var sb strings.Builder
	sb.WriteString("(* GENERATED by harness/translate (T2c) from the engine's source on every run - do not edit.\n")
	sb.WriteString("   One entry per distinct (location, object, mode, locks held) met on a path of an exported call.\n")
	sb.WriteString("   objects: 0 the shared database / batch, 1 the active data file, 2 an older data file, 3 not known.\n   locations:")
	for i, l := range locs {
		fmt.Fprintf(&sb, " %d=%s", i, l)
	}
	sb.WriteString("\n   locks:")
	for i, l := range locks {
		fmt.Fprintf(&sb, " %d=%s", i, l)
	}
	sb.WriteString(" *)\nFrom Coq Require Import List.\nFrom KV Require Import LockSet.\nImport ListNotations.\n")
	sb.WriteString("Definition gen_accesses : list access := [\n")
	writes := 0
	for i, r := range recs {
		var hs []string
		for _, l := range r.held {
			hs = append(hs, fmt.Sprintf("(%d, %v)", lockID[l.name], l.excl))
		}
		sep := ";"
		if i == len(recs)-1 {
			sep = ""
		}
		if r.write {
			writes++
		}
		fmt.Fprintf(&sb, "  mkAcc %d %d %v %v [%s]%s (* %s  %s *)\n", locID[r.loc], r.inst, r.write, r.atomic,
			strings.Join(hs, "; "), sep, r.loc, r.where)
	}
	sb.WriteString("].\n")
	// the locations that the atomicity of the index operations (C08) and of the file set rests on
	named := func(coq, loc string) {
		id, ok := locID[loc]
		if !ok {
			id = 1000000 // not accessed at all
		}
		fmt.Fprintf(&sb, "Definition %s : nat := %d.\n", coq, id)
	}
	named("loc_shard_index", "Shard.index")
	named("loc_db_active_file", "DB.activeFile")
	named("loc_db_older_files", "DB.olderFiles")
	named("loc_db_header_scratch", "DB.logRecordHeader")
	named("loc_db_hint_scratch", "DB.hintPos")
	// every field of the sharded index structure itself (the shard table, the lock table, the shard count)
	var sh []string
	for i, l := range locs {
		if strings.HasPrefix(l, "ShardedIndex.") {
			sh = append(sh, fmt.Sprint(i))
		}
	}
	fmt.Fprintf(&sb, "Definition locs_sharded_index_fields : list nat := [%s].\n", strings.Join(sh, "; "))
	fmt.Fprintf(&sb, "Definition gen_access_count : nat := %d.\n", len(recs))
	fmt.Fprintf(&sb, "Definition gen_write_count : nat := %d.\n", writes)
	fmt.Fprintf(&sb, "Definition gen_entry_count : nat := %d.\n", nEntries)
	fmt.Fprintf(&sb, "Definition gen_truncated : bool := %v. (* at most %d path states at a statement; the limit is 16384 *)\n", w.truncated, w.maxStates)
	fmt.Fprintf(&sb, "Definition gen_note_count : nat := %d.\n", len(w.notes))
	for _, n := range w.notes {
		fmt.Fprintf(&sb, "(* note: %s *)\n", strings.ReplaceAll(n, "*)", "* )"))
	}
	// a readable report of the unprotected pairs, for the replay file of a failing check
	var rep strings.Builder
	for i, a := range recs {
		for j, b := range recs {
			if j < i {
				continue
			}
			if a.loc != b.loc || !(a.inst == b.inst || a.inst == 3 || b.inst == 3) || !(a.write || b.write) || (a.atomic && b.atomic) {
				continue
			}
			ok := false
			for _, la := range a.held {
				for _, lb := range b.held {
					if la.name == lb.name && (la.excl || lb.excl) {
						ok = true
					}
				}
			}
			if !ok {
				fmt.Fprintf(&rep, "UNPROTECTED %s: [%s] (%s)  vs  [%s] (%s)\n", a.loc, a.key(), a.where, b.key(), b.where)
			}
		}
	}
	for _, n := range w.notes {
		fmt.Fprintf(&rep, "NOTE %s\n", n)
	}
	_ = os.WriteFile(filepath.Join(outDir, "access_report.txt"), []byte(rep.String()), 0644)
	return os.WriteFile(filepath.Join(outDir, "GenAccess.v"), []byte(sb.String()), 0644)
}

func init() { Extra = append(Extra, GenAccess) }
