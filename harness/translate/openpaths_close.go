package translate

import (
	"fmt"
	"go/ast"
	"go/token"
	"os"
	"path/filepath"
	"strings"
)

// GenClosePaths (T3, second part) appends to coq/gen/GenOpenPaths.v the exit paths of DB.Close
// relative to the directory lock: for every return statement, whether the release of the lock is
// guaranteed on it - a deferred function registered earlier (at the top level of Close) calls
// db.fileLock.Unlock, or an explicit db.fileLock.Unlock() precedes the return in a block that encloses it.
func GenClosePaths(repo, outDir string) error {
	pkgs, err := Load(repo, "verif", "./")
	if err != nil {
		return err
	}
	var fn *ast.FuncDecl
	var fset *token.FileSet
	for _, p := range pkgs {
		for _, f := range p.Syntax {
			for _, d := range f.Decls {
				fd, ok := d.(*ast.FuncDecl)
				if !ok || fd.Recv == nil || fd.Name.Name != "Close" || len(fd.Recv.List) != 1 {
					continue
				}
				if st, ok := fd.Recv.List[0].Type.(*ast.StarExpr); ok {
					if id, ok := st.X.(*ast.Ident); ok && id.Name == "DB" {
						fn, fset = fd, p.Fset
					}
				}
			}
		}
	}
	if fn == nil {
		return fmt.Errorf("func (*DB) Close not found")
	}
	isLockUnlock := func(n ast.Node) bool {
		c, ok := n.(*ast.CallExpr)
		if !ok {
			return false
		}
		s, ok := c.Fun.(*ast.SelectorExpr)
		if !ok || s.Sel.Name != "Unlock" {
			return false
		}
		x, ok := s.X.(*ast.SelectorExpr)
		return ok && x.Sel.Name == "fileLock"
	}
	// deferred functions registered at the top level of Close that release the lock
	var deferPos []token.Pos
	for _, st := range fn.Body.List {
		d, ok := st.(*ast.DeferStmt)
		if !ok {
			continue
		}
		found := false
		ast.Inspect(d.Call, func(m ast.Node) bool {
			if m != nil && isLockUnlock(m) {
				found = true
			}
			return true
		})
		if found {
			deferPos = append(deferPos, d.Pos())
		}
	}
	// explicit releases outside function literals, each with the block that encloses it
	type rng struct{ at, lo, hi token.Pos }
	var explicit []rng
	var blocks []*ast.BlockStmt
	var rets []token.Pos
	var walk func(n ast.Node)
	walk = func(n ast.Node) {
		ast.Inspect(n, func(m ast.Node) bool {
			switch x := m.(type) {
			case *ast.FuncLit:
				return false
			case *ast.DeferStmt:
				return false
			case *ast.BlockStmt:
				if x != n {
					blocks = append(blocks, x)
					walk(x)
					blocks = blocks[:len(blocks)-1]
					return false
				}
			case *ast.CallExpr:
				if isLockUnlock(x) {
					b := blocks[len(blocks)-1]
					explicit = append(explicit, rng{x.Pos(), b.Pos(), b.End()})
				}
			case *ast.ReturnStmt:
				rets = append(rets, x.Pos())
			}
			return true
		})
	}
	blocks = append(blocks, fn.Body)
	walk(fn.Body)
	var sb strings.Builder
	sb.WriteString("\n(* exit paths of DB.Close of db.go: source line of the return statement; is the release of the\n   directory lock guaranteed on it (deferred Unlock registered before, or explicit Unlock before it in an\n   enclosing block)? *)\n")
	sb.WriteString("Definition close_exits : list close_exit := [\n")
	for i, r := range rets {
		ok := false
		for _, d := range deferPos {
			if d < r {
				ok = true
			}
		}
		for _, e := range explicit {
			if e.at < r && e.lo <= r && r < e.hi {
				ok = true
			}
		}
		sep := ";"
		if i == len(rets)-1 {
			sep = ""
		}
		fmt.Fprintf(&sb, "  mkCExit %d %v%s\n", fset.Position(r).Line, ok, sep)
	}
	sb.WriteString("].\n")
	f, err := os.OpenFile(filepath.Join(outDir, "GenOpenPaths.v"), os.O_APPEND|os.O_WRONLY, 0644)
	if err != nil {
		return err
	}
	defer f.Close()
	_, err = f.WriteString(sb.String())
	return err
}

func init() { Extra = append(Extra, GenClosePaths) }
