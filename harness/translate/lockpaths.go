package translate

import (
	"fmt"
	"go/ast"
	"go/types"
	"os"
	"path/filepath"
	"sort"
	"strings"

	"golang.org/x/tools/go/packages"
)

// GenLockPaths (T2b) writes coq/gen/GenLockPaths.v: for every exported call of the engine the
// sequences of lock acquisitions and releases along its branch-free paths (if / switch: every branch;
// loops: zero or one iteration; deferred calls at every return; calls to functions of the package
// inlined; an index operation = take and release one shard lock).  Ranks: 1 = DB.mu, 2 = Batch.mu,
// 3 = index shard lock.  Read locks count as locks.
type lev struct {
	acq  bool
	rank int
}

type lpath struct {
	evs   []lev
	defs  [][]lev // deferred event groups, run in reverse order at return
	ended bool
	known map[string]bool // boolean variables / fields whose value is fixed on this path
}

func (p lpath) clone() lpath {
	q := lpath{evs: append([]lev(nil), p.evs...), ended: p.ended, known: map[string]bool{}}
	for k, v := range p.known {
		q.known[k] = v
	}
	for _, d := range p.defs {
		q.defs = append(q.defs, append([]lev(nil), d...))
	}
	return q
}

func pkey(p lpath) string {
	var sb strings.Builder
	for _, e := range p.evs {
		fmt.Fprintf(&sb, "%v%d,", e.acq, e.rank)
	}
	sb.WriteString("|")
	for _, d := range p.defs {
		for _, e := range d {
			fmt.Fprintf(&sb, "%v%d,", e.acq, e.rank)
		}
		sb.WriteString(";")
	}
	fmt.Fprintf(&sb, "|%v|", p.ended)
	var ks []string
	for k, v := range p.known {
		ks = append(ks, fmt.Sprintf("%s=%v", k, v))
	}
	sort.Strings(ks)
	sb.WriteString(strings.Join(ks, ","))
	return sb.String()
}

func dedupe(ps []lpath) []lpath {
	seen := map[string]bool{}
	var out []lpath
	for _, p := range ps {
		k := pkey(p)
		if !seen[k] {
			seen[k] = true
			out = append(out, p)
		}
	}
	if len(out) > 96 {
		out = out[:96]
	}
	return out
}

type lockWalker struct {
	pkg   *packages.Package
	decls map[types.Object]*ast.FuncDecl
	stack map[*ast.FuncDecl]bool
}

func (w *lockWalker) ownerRank(e ast.Expr) int {
	// e is the expression x in x.mu.Lock(): the type that owns the mutex
	t := w.pkg.TypesInfo.TypeOf(e)
	if t == nil {
		return 0
	}
	s := t.String()
	switch {
	case strings.HasSuffix(s, ".DB"):
		return 1
	case strings.HasSuffix(s, ".Batch"):
		return 2
	}
	return 0
}

// callEvents returns the alternative event sequences of one call expression.
func (w *lockWalker) callEvents(c *ast.CallExpr, depth int) [][]lev {
	sel, ok := c.Fun.(*ast.SelectorExpr)
	if !ok {
		if id, ok := c.Fun.(*ast.Ident); ok {
			return w.inline(w.pkg.TypesInfo.Uses[id], depth)
		}
		return [][]lev{nil}
	}
	m := sel.Sel.Name
	if inner, ok := sel.X.(*ast.SelectorExpr); ok && inner.Sel.Name == "mu" {
		r := w.ownerRank(inner.X)
		if r > 0 {
			switch m {
			case "Lock", "RLock":
				return [][]lev{{{true, r}}}
			case "Unlock", "RUnlock":
				return [][]lev{{{false, r}}}
			}
		}
	}
	if t := w.pkg.TypesInfo.TypeOf(sel.X); t != nil && strings.HasSuffix(t.String(), "index.ShardedIndex") {
		return [][]lev{{{true, 3}, {false, 3}}}
	}
	if t := w.pkg.TypesInfo.TypeOf(sel.X); t != nil && strings.HasSuffix(t.String(), "index.IndexIterator") {
		return [][]lev{nil} // a snapshot: no engine lock
	}
	return w.inline(w.pkg.TypesInfo.Uses[sel.Sel], depth)
}

func (w *lockWalker) inline(obj types.Object, depth int) [][]lev {
	fd := w.decls[obj]
	if fd == nil || fd.Body == nil || depth > 8 || w.stack[fd] {
		return [][]lev{nil}
	}
	w.stack[fd] = true
	defer delete(w.stack, fd)
	var out [][]lev
	for _, p := range w.funcPaths(fd.Body, depth+1) {
		out = append(out, p)
	}
	if len(out) == 0 {
		out = [][]lev{nil}
	}
	return out
}

// funcPaths: complete event sequences of a function body (deferred groups appended at the end).
func (w *lockWalker) funcPaths(body *ast.BlockStmt, depth int) [][]lev {
	return w.funcPathsWith(body, depth, nil)
}

func (w *lockWalker) funcPathsWith(body *ast.BlockStmt, depth int, known map[string]bool) [][]lev {
	p0 := lpath{known: map[string]bool{}}
	for k, v := range known {
		p0.known[k] = v
	}
	ps := w.block(body.List, []lpath{p0}, depth)
	seen := map[string]bool{}
	var out [][]lev
	for _, p := range ps {
		evs := append([]lev(nil), p.evs...)
		for i := len(p.defs) - 1; i >= 0; i-- {
			evs = append(evs, p.defs[i]...)
		}
		k := fmt.Sprint(evs)
		if !seen[k] {
			seen[k] = true
			out = append(out, evs)
		}
	}
	return out
}

func (w *lockWalker) exprCalls(n ast.Node, ps []lpath, depth int) []lpath {
	if n == nil {
		return ps
	}
	var calls []*ast.CallExpr
	ast.Inspect(n, func(m ast.Node) bool {
		switch x := m.(type) {
		case *ast.FuncLit:
			return false
		case *ast.CallExpr:
			calls = append(calls, x)
		}
		return true
	})
	// inner calls are evaluated before outer ones: reverse of pre-order is close enough for the
	// engine's code (arguments are plain values)
	for i := len(calls) - 1; i >= 0; i-- {
		alts := w.callEvents(calls[i], depth)
		var next []lpath
		for _, p := range ps {
			if p.ended {
				next = append(next, p)
				continue
			}
			for _, a := range alts {
				q := p.clone()
				q.evs = append(q.evs, a...)
				next = append(next, q)
			}
		}
		ps = dedupe(next)
	}
	return ps
}

func (w *lockWalker) block(stmts []ast.Stmt, ps []lpath, depth int) []lpath {
	for _, s := range stmts {
		ps = w.stmt(s, ps, depth)
	}
	return ps
}

func live(ps []lpath) (run, ended []lpath) {
	for _, p := range ps {
		if p.ended {
			ended = append(ended, p)
		} else {
			run = append(run, p)
		}
	}
	return
}

func (w *lockWalker) stmt(s ast.Stmt, ps []lpath, depth int) []lpath {
	run, ended := live(ps)
	if len(run) == 0 {
		return ps
	}
	var out []lpath
	switch x := s.(type) {
	case *ast.ReturnStmt:
		out = w.exprCalls(x, run, depth)
		for i := range out {
			out[i].ended = true
		}
	case *ast.DeferStmt:
		var alts [][]lev
		if lit, ok := x.Call.Fun.(*ast.FuncLit); ok {
			alts = w.funcPaths(lit.Body, depth+1)
		} else {
			alts = w.callEvents(x.Call, depth)
		}
		for _, p := range run {
			for _, a := range alts {
				q := p.clone()
				q.defs = append(q.defs, a)
				out = append(out, q)
			}
		}
	case *ast.GoStmt:
		out = run
	case *ast.IfStmt:
		run = w.stmt2(x.Init, run, depth)
		run = w.exprCalls(x.Cond, run, depth)
		// a condition that is a boolean variable / field (or its negation) with a value fixed on the
		// path selects one branch; taking a branch fixes the value
		name, neg := condName(x.Cond)
		var thenIn, elseIn []lpath
		for _, p := range run {
			if name != "" {
				if v, ok := p.known[name]; ok {
					if v != neg {
						thenIn = append(thenIn, p.clone())
					} else {
						elseIn = append(elseIn, p.clone())
					}
					continue
				}
				t, e := p.clone(), p.clone()
				t.known[name], e.known[name] = !neg, neg
				thenIn, elseIn = append(thenIn, t), append(elseIn, e)
				continue
			}
			thenIn, elseIn = append(thenIn, p.clone()), append(elseIn, p.clone())
		}
		thenPs := w.block(x.Body.List, thenIn, depth)
		var elsePs []lpath
		if x.Else != nil && len(elseIn) > 0 {
			elsePs = w.stmt(x.Else, elseIn, depth)
		} else {
			elsePs = elseIn
		}
		out = append(thenPs, elsePs...)
	case *ast.AssignStmt:
		out = w.exprCalls(s, run, depth)
		if len(x.Lhs) == 1 && len(x.Rhs) == 1 {
			if id, ok := x.Rhs[0].(*ast.Ident); ok && (id.Name == "true" || id.Name == "false") {
				if n := selChain(x.Lhs[0]); n != "?" {
					for i := range out {
						out[i].known[n] = id.Name == "true"
					}
				}
			}
		}
	case *ast.DeclStmt:
		out = w.exprCalls(s, run, depth)
		if gd, ok := x.Decl.(*ast.GenDecl); ok {
			for _, sp := range gd.Specs {
				if vs, ok := sp.(*ast.ValueSpec); ok && len(vs.Values) == 0 {
					if t, ok := vs.Type.(*ast.Ident); ok && t.Name == "bool" {
						for _, nm := range vs.Names {
							for i := range out {
								out[i].known[nm.Name] = false
							}
						}
					}
				}
			}
		}
	case *ast.BlockStmt:
		out = w.block(x.List, run, depth)
	case *ast.ForStmt:
		run = w.stmt2(x.Init, run, depth)
		run = w.exprCalls(x.Cond, run, depth)
		once := w.block(x.Body.List, cloneAll(run), depth)
		once = w.stmt2(x.Post, once, depth)
		for i := range once {
			// break / continue / return inside the body: a return ends the path, which is kept
			_ = i
		}
		out = append(cloneAll(run), once...)
	case *ast.RangeStmt:
		run = w.exprCalls(x.X, run, depth)
		once := w.block(x.Body.List, cloneAll(run), depth)
		out = append(cloneAll(run), once...)
	case *ast.SwitchStmt:
		run = w.stmt2(x.Init, run, depth)
		run = w.exprCalls(x.Tag, run, depth)
		out = w.clauses(x.Body, run, depth)
	case *ast.TypeSwitchStmt:
		out = w.clauses(x.Body, run, depth)
	case *ast.SelectStmt:
		out = w.clauses(x.Body, run, depth)
	case *ast.LabeledStmt:
		out = w.stmt(x.Stmt, run, depth)
	default:
		out = w.exprCalls(s, run, depth)
	}
	return dedupe(append(out, ended...))
}

func (w *lockWalker) stmt2(s ast.Stmt, ps []lpath, depth int) []lpath {
	if s == nil {
		return ps
	}
	return w.stmt(s, ps, depth)
}

func (w *lockWalker) clauses(body *ast.BlockStmt, run []lpath, depth int) []lpath {
	out := cloneAll(run) // no clause taken
	for _, c := range body.List {
		switch cc := c.(type) {
		case *ast.CaseClause:
			out = append(out, w.block(cc.Body, cloneAll(run), depth)...)
		case *ast.CommClause:
			out = append(out, w.block(cc.Body, cloneAll(run), depth)...)
		}
	}
	return out
}

// condName: "x" / "x.f" for a condition that is such a name, with neg = true for "!x".
func condName(e ast.Expr) (string, bool) {
	if u, ok := e.(*ast.UnaryExpr); ok && u.Op.String() == "!" {
		n, _ := condName(u.X)
		return n, true
	}
	switch e.(type) {
	case *ast.Ident, *ast.SelectorExpr:
		if n := selChain(e); n != "?" && n != "true" && n != "false" {
			return n, false
		}
	}
	return "", false
}

func cloneAll(ps []lpath) []lpath {
	out := make([]lpath, len(ps))
	for i, p := range ps {
		out[i] = p.clone()
	}
	return out
}

func GenLockPaths(repo, outDir string) error {
	pkgs, err := Load(repo, "verif", "./")
	if err != nil {
		return err
	}
	var pkg *packages.Package
	for _, p := range pkgs {
		if strings.HasSuffix(p.PkgPath, "xixi-kv") {
			pkg = p
		}
	}
	if pkg == nil {
		return fmt.Errorf("root package not found")
	}
	w := &lockWalker{pkg: pkg, decls: map[types.Object]*ast.FuncDecl{}, stack: map[*ast.FuncDecl]bool{}}
	byName := map[string]*ast.FuncDecl{}
	for _, f := range pkg.Syntax {
		for _, d := range f.Decls {
			if fd, ok := d.(*ast.FuncDecl); ok {
				if obj := pkg.TypesInfo.Defs[fd.Name]; obj != nil {
					w.decls[obj] = fd
				}
				name := fd.Name.Name
				if fd.Recv != nil && len(fd.Recv.List) > 0 {
					t := fd.Recv.List[0].Type
					if st, ok := t.(*ast.StarExpr); ok {
						t = st.X
					}
					if id, ok := t.(*ast.Ident); ok {
						name = id.Name + "." + name
					}
				}
				byName[name] = fd
			}
		}
	}
	pathsWith := func(name string, known map[string]bool) [][]lev {
		fd := byName[name]
		if fd == nil || fd.Body == nil {
			return nil
		}
		return w.funcPathsWith(fd.Body, 0, known)
	}
	paths := func(name string) [][]lev { return pathsWith(name, nil) }
	product := func(parts ...[][]lev) [][]lev {
		out := [][]lev{nil}
		for _, alts := range parts {
			var next [][]lev
			for _, o := range out {
				for _, a := range alts {
					next = append(next, append(append([]lev(nil), o...), a...))
					if len(next) > 400 {
						break
					}
				}
			}
			out = next
		}
		return out
	}
	type api struct {
		name  string
		paths [][]lev
	}
	var apis []api
	for _, n := range []string{"DB.Put", "DB.Get", "DB.Delete", "DB.ListKeys", "DB.Fold", "DB.Stat", "DB.Sync", "DB.Merge",
		"DB.Backup", "DB.Close", "DB.NewIterator", "Iterator.Rewind", "Iterator.Seek", "Iterator.Next", "Iterator.Valid",
		"Iterator.Key", "Iterator.Value", "Iterator.Close"} {
		if ps := paths(n); ps != nil {
			apis = append(apis, api{n, ps})
		}
	}
	// a batch holds the engine lock from NewBatch to Commit: one session is one unit (its batch is
	// not yet committed when the calls are made)
	fresh := map[string]bool{"b.committed": false}
	apis = append(apis, api{"Batch session (NewBatch; Put; Get; Delete; Commit)",
		product(paths("DB.NewBatch"), pathsWith("Batch.Put", fresh), pathsWith("Batch.Get", fresh), pathsWith("Batch.Delete", fresh),
			pathsWith("Batch.Commit", fresh))})
	var sb strings.Builder
	sb.WriteString("(* GENERATED by harness/translate (T2b) from the engine's exported calls on every run - do not edit. *)\n")
	sb.WriteString("From Coq Require Import List.\nFrom KV Require Import LockOrder.\nImport ListNotations.\n")
	sb.WriteString("Definition api_paths : list (list ev) := [\n")
	first := true
	total := 0
	for _, a := range apis {
		keys := map[string]bool{}
		var uniq [][]lev
		for _, p := range a.paths {
			k := fmt.Sprint(p)
			if !keys[k] {
				keys[k] = true
				uniq = append(uniq, p)
			}
		}
		sort.Slice(uniq, func(i, j int) bool { return fmt.Sprint(uniq[i]) < fmt.Sprint(uniq[j]) })
		fmt.Fprintf(&sb, "  (* %s: %d path(s) *)\n", a.name, len(uniq))
		for _, p := range uniq {
			var xs []string
			for _, e := range p {
				if e.acq {
					xs = append(xs, fmt.Sprintf("Acq (%d, 0)", e.rank))
				} else {
					xs = append(xs, fmt.Sprintf("Rel (%d, 0)", e.rank))
				}
			}
			if !first {
				sb.WriteString(";\n")
			}
			first = false
			fmt.Fprintf(&sb, "  [%s]", strings.Join(xs, "; "))
			total++
		}
		sb.WriteString("\n")
	}
	sb.WriteString("].\n")
	fmt.Fprintf(&sb, "Definition api_path_count : nat := %d.\n", total)
	return os.WriteFile(filepath.Join(outDir, "GenLockPaths.v"), []byte(sb.String()), 0644)
}

func init() { Extra = append(Extra, GenLockPaths) }
