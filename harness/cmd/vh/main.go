// vh: correspondence harness driver.
//   vh filegen -seed S -n N -out script     generate N file-layer scenarios
//   vh run -in script -out trace [-v]       execute a script on the real code, write the trace
package main

import (
	"bufio"
	"encoding/json"
	"flag"
	"fmt"
	"os"
	"strings"

	"verifharness/vh"
)

func readLines(path string) []string {
	b, err := os.ReadFile(path)
	if err != nil {
		fmt.Fprintln(os.Stderr, err)
		os.Exit(2)
	}
	var out []string
	for _, l := range strings.Split(string(b), "\n") {
		if strings.TrimSpace(l) != "" {
			out = append(out, l)
		}
	}
	return out
}

func main() {
	if len(os.Args) < 2 {
		fmt.Fprintln(os.Stderr, "usage: vh <cmd> ...")
		os.Exit(2)
	}
	cmd := os.Args[1]
	if vh.ExtraCommand(cmd, os.Args[2:]) {
		return
	}
	fs := flag.NewFlagSet(cmd, flag.ExitOnError)
	seed := fs.Uint64("seed", 1, "seed")
	n := fs.Int("n", 100, "number of scenarios")
	in := fs.String("in", "", "input script")
	out := fs.String("out", "", "output file")
	hist := fs.String("hist", "", "histogram json output")
	verbose := fs.Bool("v", false, "verbose observations")
	kind := fs.String("kind", "", "generator kind / tier")
	_ = fs.Parse(os.Args[2:])
	_ = kind
	switch cmd {
	case "filegen":
		r := vh.NewRng(*seed)
		h := map[string]int{}
		w := bufio.NewWriter(mustCreate(*out))
		for i := 0; i < *n; i++ {
			fmt.Fprintf(w, "S %d\n", i)
			for _, l := range vh.GenFileScript(r, h) {
				fmt.Fprintln(w, l)
			}
		}
		w.Flush()
		writeHist(*hist, h)
	case "run":
		lines := readLines(*in)
		w := bufio.NewWriter(mustCreate(*out))
		if err := vh.RunScript(lines, w, *verbose); err != nil {
			fmt.Fprintln(os.Stderr, err)
			os.Exit(2)
		}
		w.Flush()
	default:
		fmt.Fprintln(os.Stderr, "unknown command", cmd)
		os.Exit(2)
	}
}

func mustCreate(p string) *os.File {
	if p == "" || p == "-" {
		return os.Stdout
	}
	f, err := os.Create(p)
	if err != nil {
		fmt.Fprintln(os.Stderr, err)
		os.Exit(2)
	}
	return f
}

func writeHist(p string, h map[string]int) {
	if p == "" {
		return
	}
	b, _ := json.MarshalIndent(h, "", " ")
	_ = os.WriteFile(p, b, 0644)
}
