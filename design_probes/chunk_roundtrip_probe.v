From Coq Require Import List NArith ZArith Lia ZifyN ZifyNat ZifyBool Bool.
Import ListNotations.
Open Scope N_scope.
Ltac Zify.zify_post_hook ::= Z.div_mod_to_equations.

Definition BS : N := 32768.
Definition HS : N := 7.
Definition byte := N.

(* split a list at an N index without going through big nats in computation *)
Fixpoint take {A} (n : N) (l : list A) {struct l} : list A :=
  match l with [] => [] | x :: r => if n =? 0 then [] else x :: take (n - 1) r end.
Fixpoint drop {A} (n : N) (l : list A) {struct l} : list A :=
  match l with [] => [] | x :: r => if n =? 0 then l else drop (n - 1) r end.
Definition len {A} (l : list A) : N := N.of_nat (length l).

Lemma len_nil {A} : len (@nil A) = 0. Proof. reflexivity. Qed.
Lemma len_cons {A} (x : A) l : len (x :: l) = len l + 1.
Proof. unfold len. cbn [length]. lia. Qed.
Lemma take_drop {A} n (l : list A) : take n l ++ drop n l = l.
Proof. revert n; induction l as [|x r IH]; intros n; cbn [take drop]; [reflexivity|].
  destruct (n =? 0) eqn:E; cbn [app]; [reflexivity| now rewrite IH]. Qed.
Lemma len_app {A} (a b : list A) : len (a ++ b) = len a + len b.
Proof. unfold len; rewrite app_length; lia. Qed.
Lemma len_take {A} n (l : list A) : len (take n l) = if n <=? len l then n else len l.
Proof. revert n; induction l as [|x r IH]; intros n; cbn [take].
  - rewrite len_nil. destruct (n <=? 0) eqn:E; lia.
  - destruct (n =? 0) eqn:E.
    + rewrite len_nil, len_cons. destruct (n <=? len r + 1) eqn:E2; lia.
    + rewrite !len_cons, IH. destruct (n - 1 <=? len r) eqn:E1; destruct (n <=? len r + 1) eqn:E2; lia. Qed.
Lemma len_drop {A} n (l : list A) : len (drop n l) = len l - n.
Proof. revert n; induction l as [|x r IH]; intros n; cbn [drop].
  - rewrite len_nil; lia.
  - destruct (n =? 0) eqn:E.
    + lia.
    + rewrite len_cons, IH. lia. Qed.
Lemma drop_app_exact {A} (a b : list A) n : n = len a -> drop n (a ++ b) = b.
Proof. intros ->. induction a as [|x a IH]; cbn [app drop].
  - destruct b; reflexivity.
  - rewrite len_cons. destruct (len a + 1 =? 0) eqn:E; [lia|].
    replace (len a + 1 - 1) with (len a) by lia. exact IH. Qed.
Lemma take_app_exact {A} (a b : list A) n : n = len a -> take n (a ++ b) = a.
Proof. intros ->. induction a as [|x a IH]; cbn [app take].
  - destruct b; reflexivity.
  - rewrite len_cons. destruct (len a + 1 =? 0) eqn:E; [lia|].
    replace (len a + 1 - 1) with (len a) by lia. now rewrite IH. Qed.
Lemma drop_drop {A} (l : list A) a b : drop a (drop b l) = drop (a + b) l.
Proof. revert a b; induction l as [|x r IH]; intros a b; cbn [drop]; [reflexivity|].
  destruct (b =? 0) eqn:Eb.
  - assert (b = 0) by lia; subst. rewrite N.add_0_r. reflexivity.
  - destruct (a + b =? 0) eqn:Eab; [lia|]. rewrite IH. f_equal; lia. Qed.

Section Framing.
Variable crc : list byte -> N.

Definition le16 (n : N) : list byte := [n mod 256; (n / 256) mod 256].
Definition le32 (n : N) : list byte := [n mod 256; (n / 256) mod 256; (n / 65536) mod 256; (n / 16777216) mod 256].
Definition rd16 (l : list byte) : N := match l with a :: b :: _ => a + 256 * b | _ => 0 end.
Definition rd32 (l : list byte) : N := match l with a :: b :: c :: d :: _ => a + 256 * b + 65536 * c + 16777216 * d | _ => 0 end.

Inductive cty := Full | First | Middle | Last.
Definition cty_n (t : cty) : N := match t with Full => 0 | First => 1 | Middle => 2 | Last => 3 end.

Definition cbody (t : cty) (payload : list byte) : list byte := (le16 (len payload) ++ [cty_n t]) ++ payload.
Definition hdr (t : cty) (payload : list byte) : list byte :=
  le32 (crc (cbody t payload) mod 4294967296) ++ (le16 (len payload) ++ [cty_n t]).
Definition enc_chunk (t : cty) (payload : list byte) : list byte := hdr t payload ++ payload.

(* writeToBuf's loop: [room] = bytes available for payload in the current block *)
Fixpoint chunks (fuel : nat) (first : bool) (room : N) (data : list byte) : list (cty * list byte) :=
  match fuel with O => [] | S fuel' =>
    if len data =? 0 then [] else
    let w := if len data <=? room then len data else room in
    let fin := w =? len data in
    let t := if fin then (if first then Full else Last) else (if first then First else Middle) in
    (t, take w data) :: chunks fuel' false (BS - HS) (drop w data)
  end.

Definition zeros (n : N) : list byte := repeat 0 (N.to_nat n).

(* (padding, start offset in block after padding) *)
Definition pad_of (off : N) : N := if BS <=? off + HS then BS - off else 0.

Definition write_rec (off : N) (data : list byte) : list byte * N (*start abs delta*) :=
  let p := pad_of off in
  let o0 := if p =? 0 then off else 0 in
  (zeros p ++ concat (map (fun c => enc_chunk (fst c) (snd c)) (chunks (S (length data)) true (BS - o0 - HS) data)), p).

(* reader on an absolute position, bounded by file size (the repaired reader) *)
Inductive res := ROk (d : list byte) (next : N) | REof | RBadCrc | RFuel.

Definition dec_chunk (f : list byte) (abs : N) : option (N * list byte) + bool (* inr true = eof, inr false = bad crc *) :=
  if len f <? abs + HS then inr true else
  let h := take HS (drop abs f) in
  let l := rd16 (drop 4 h) in
  if len f <? abs + HS + l then inr true else
  let body := take (3 + l) (drop (abs + 4) f) in
  if rd32 h =? crc body mod 4294967296 then inl (Some (rd16 (drop 6 h ++ [0]) mod 256, take l (drop (abs + HS) f))) else inr false.

Fixpoint read_chunks (fuel : nat) (f : list byte) (abs : N) (acc : list byte) : res :=
  match fuel with O => RFuel | S fuel' =>
    match dec_chunk f abs with
    | inr true => REof | inr false => RBadCrc | inl None => RBadCrc
    | inl (Some (t, d)) =>
        let e := abs + HS + len d in
        if (t =? 0) || (t =? 3) then ROk (acc ++ d) e
        else read_chunks fuel' f ((abs / BS + 1) * BS) (acc ++ d)
    end
  end.

Lemma rd16_le16 n rest : n < 65536 -> rd16 (le16 n ++ rest) = n.
Proof. intros H. unfold rd16, le16. cbn [app]. lia. Qed.
Lemma rd32_le32 n rest : n < 4294967296 -> rd32 (le32 n ++ rest) = n.
Proof. intros H. unfold rd32, le32. cbn [app]. lia. Qed.
Lemma len_le16 n : len (le16 n) = 2. Proof. reflexivity. Qed.
Lemma len_le32 n : len (le32 n) = 4. Proof. reflexivity. Qed.
Lemma len_hdr t p : len (hdr t p) = HS.
Proof. unfold hdr. rewrite !len_app, len_le32, len_le16, len_cons, len_nil. reflexivity. Qed.
Lemma len_enc t p : len (enc_chunk t p) = HS + len p.
Proof. unfold enc_chunk. rewrite len_app, len_hdr. reflexivity. Qed.

Lemma dec_enc pre t p post :
  len p < 65536 ->
  dec_chunk (pre ++ enc_chunk t p ++ post) (len pre) = inl (Some (cty_n t, p)).
Proof.
  intros Hp. unfold dec_chunk.
  set (f := pre ++ enc_chunk t p ++ post).
  assert (Hf : len f = len pre + HS + len p + len post)
    by (unfold f; rewrite !len_app, len_enc; lia).
  destruct (len f <? len pre + HS) eqn:E1; [lia|].
  assert (Hd : drop (len pre) f = hdr t p ++ p ++ post).
  { unfold f, enc_chunk. rewrite <- app_assoc. apply drop_app_exact; reflexivity. }
  rewrite Hd.
  rewrite (take_app_exact (hdr t p)) by (rewrite len_hdr; reflexivity).
  assert (Hl : rd16 (drop 4 (hdr t p)) = len p).
  { unfold hdr. rewrite drop_app_exact by reflexivity. apply rd16_le16; exact Hp. }
  rewrite Hl.
  destruct (len f <? len pre + HS + len p) eqn:E2; [lia|].
  assert (Hb : take (3 + len p) (drop (len pre + 4) f) = cbody t p).
  { replace (len pre + 4) with (4 + len pre) by lia. rewrite <- drop_drop, Hd. unfold hdr.
    rewrite <- app_assoc, drop_app_exact by reflexivity.
    rewrite app_assoc. apply take_app_exact. unfold cbody. rewrite !len_app, len_le16, len_cons, len_nil. lia. }
  rewrite Hb. unfold hdr at 1. rewrite rd32_le32 by (apply N.mod_lt; lia).
  rewrite N.eqb_refl.
  assert (Ht : rd16 (drop 6 (hdr t p) ++ [0]) mod 256 = cty_n t).
  { unfold hdr. rewrite app_assoc. rewrite drop_app_exact by reflexivity. cbn [app rd16]. destruct t; reflexivity. }
  rewrite Ht.
  assert (Hpay : take (len p) (drop (len pre + HS) f) = p).
  { replace (len pre + HS) with (HS + len pre) by lia. rewrite <- drop_drop, Hd.
    rewrite drop_app_exact by (rewrite len_hdr; reflexivity). apply take_app_exact; reflexivity. }
  rewrite Hpay. reflexivity.
Qed.

Definition enc_all (cs : list (cty * list byte)) : list byte :=
  concat (map (fun c => enc_chunk (fst c) (snd c)) cs).

Lemma take_all {A} (l : list A) n : len l <= n -> take n l = l.
Proof. revert n; induction l as [|x r IH]; intros n H; cbn [take]; [reflexivity|].
  rewrite len_cons in H. destruct (n =? 0) eqn:E; [lia|]. rewrite IH by lia. reflexivity. Qed.
Lemma drop_all {A} (l : list A) n : len l <= n -> drop n l = [].
Proof. revert n; induction l as [|x r IH]; intros n H; cbn [drop]; [reflexivity|].
  rewrite len_cons in H. destruct (n =? 0) eqn:E; [lia|]. apply IH; lia. Qed.
Lemma len_length_lt {A} (l : list A) (n : nat) : (length l < n)%nat <-> len l < N.of_nat n.
Proof. unfold len; lia. Qed.

Lemma read_chunks_ok : forall fuel data first room pre post acc,
  (length data < fuel)%nat -> 0 < len data ->
  room = BS - HS - (len pre) mod BS -> (len pre) mod BS + HS < BS ->
  read_chunks fuel (pre ++ enc_all (chunks fuel first room data) ++ post) (len pre) acc
  = ROk (acc ++ data) (len pre + len (enc_all (chunks fuel first room data))).
Proof.
  induction fuel as [|fuel IH]; intros data first room pre post acc Hfuel Hpos Hroom Hoff; [lia|].
  cbn [chunks read_chunks].
  destruct (len data =? 0) eqn:E0; [lia|].
  set (w := if len data <=? room then len data else room).
  assert (Hw : 0 < w /\ w <= len data /\ w <= room). { unfold w; destruct (len data <=? room) eqn:E; unfold BS, HS in *; clear IH; clear w; lia. }
  set (t := if w =? len data then if first then Full else Last else if first then First else Middle).
  unfold enc_all. cbn [map concat fst snd]. fold (enc_all (chunks fuel false (BS - HS) (drop w data))).
  rewrite <- app_assoc.
  assert (Hlt : len (take w data) < 65536).
  { rewrite len_take. destruct (w <=? len data) eqn:E; unfold BS, HS in *; lia. }
  rewrite dec_enc by exact Hlt.
  assert (Htk : len (take w data) = w) by (rewrite len_take; destruct (w <=? len data) eqn:E; lia).
  destruct (w =? len data) eqn:Efin.
  - (* final chunk *)
    assert (w = len data) by lia.
    assert (Hdrop : drop w data = []) by (apply drop_all; lia).
    rewrite Hdrop.
    assert (Hnil : chunks fuel false (BS - HS) [] = []) by (destruct fuel; reflexivity).
    rewrite Hnil. cbn [enc_all map concat]. rewrite app_nil_r.
    rewrite take_all by lia.
    replace ((cty_n t =? 0) || (cty_n t =? 3)) with true by (unfold t; destruct first; reflexivity).
    rewrite len_enc. f_equal. lia.
  - (* continue in the next block *)
    replace ((cty_n t =? 0) || (cty_n t =? 3)) with false by (unfold t; destruct first; reflexivity).
    assert (Hwr : w = room) by (unfold w in *; destruct (len data <=? room) eqn:E; lia).
    set (pre' := pre ++ enc_chunk t (take w data)).
    assert (Hpre' : len pre' = (len pre / BS + 1) * BS).
    { unfold pre'. rewrite len_app, len_enc, Htk, Hwr, Hroom. unfold BS, HS in *. lia. }
    rewrite <- Hpre'.
    replace (pre ++ enc_chunk t (take w data) ++ enc_all (chunks fuel false (BS - HS) (drop w data)) ++ post)
      with (pre' ++ enc_all (chunks fuel false (BS - HS) (drop w data)) ++ post)
      by (unfold pre'; rewrite <- app_assoc; reflexivity).
    assert (Hmod : len pre' mod BS = 0) by (rewrite Hpre'; unfold BS; lia).
    rewrite IH.
    + rewrite <- app_assoc. rewrite take_drop. f_equal.
      unfold pre'. rewrite !len_app. lia.
    + apply len_length_lt. rewrite len_drop. apply len_length_lt in Hfuel. lia.
    + rewrite len_drop. lia.
    + rewrite Hmod. lia.
    + rewrite Hmod. unfold BS, HS. lia.
Qed.
End Framing.
