(* util.ml - conversions and token handling shared by the drivers; no engine logic *)
open Model

(* ---- conversions ---------------------------------------------------------- *)
let rec pos_of_int (i : int) : positive =
  if i = 1 then XH
  else if i land 1 = 0 then XO (pos_of_int (i lsr 1))
  else XI (pos_of_int (i lsr 1))
let n_of_int (i : int) : n = if i = 0 then N0 else Npos (pos_of_int i)
let rec int_of_pos (p : positive) : int =
  match p with XH -> 1 | XO q -> 2 * int_of_pos q | XI q -> 2 * int_of_pos q + 1
let int_of_n (x : n) : int = match x with N0 -> 0 | Npos p -> int_of_pos p
let z_of_int (i : int) : z = if i = 0 then Z0 else if i > 0 then Zpos (pos_of_int i) else Zneg (pos_of_int (- i))
let z_of_n (x : n) : z = match x with N0 -> Z0 | Npos p -> Zpos p
let int_of_z (x : z) : int = match x with Z0 -> 0 | Zpos p -> int_of_pos p | Zneg p -> - (int_of_pos p)

(* decimal strings beyond OCaml's int range (uint64 batch ids) *)
let n_of_string (s : string) : n =
  let ten = n_of_int 10 in
  let r = ref N0 in
  String.iter (fun c -> r := N.add (N.mul !r ten) (n_of_int (Char.code c - 48))) s;
  !r
let rec string_of_n (x : n) : string =
  match x with
  | N0 -> "0"
  | _ ->
    let ten = n_of_int 10 in
    let q = N.div x ten and r = N.modulo x ten in
    (match q with N0 -> "" | _ -> string_of_n q) ^ string_of_int (int_of_n r)

let byte_tab : n array = Array.init 256 n_of_int
let bytes_of_string (s : string) : n list =
  let r = ref [] in
  for i = String.length s - 1 downto 0 do r := byte_tab.(Char.code s.[i]) :: !r done;
  !r
let string_of_bytes (l : n list) : string =
  let b = Buffer.create 64 in
  List.iter (fun x -> Buffer.add_char b (Char.chr (int_of_n x))) l;
  Buffer.contents b

let hex_of_string (s : string) : string =
  let b = Buffer.create (2 * String.length s) in
  String.iter (fun c -> Buffer.add_string b (Printf.sprintf "%02x" (Char.code c))) s;
  Buffer.contents b
let string_of_hex (h : string) : string =
  let n = String.length h / 2 in
  String.init n (fun i -> Char.chr (int_of_string ("0x" ^ String.sub h (2 * i) 2)))

(* "@len:seed" expansion: same LCG as harness/vh/util.go *)
let gen_bytes (n : int) (seed : int) : string =
  let x = ref (seed land 0x7fffffff) in
  String.init n (fun _ ->
    x := (!x * 1103515245 + 12345) land 0x7fffffff;
    Char.chr ((!x lsr 16) land 0xff))

let parse_tok (t : string) : string =
  if t = "-" then ""
  else if t.[0] = '@' then
    (match String.split_on_char ':' (String.sub t 1 (String.length t - 1)) with
     | [a; b] -> gen_bytes (int_of_string a) (int_of_string b)
     | _ -> failwith ("bad token " ^ t))
  else string_of_hex t
let tok_bytes t = bytes_of_string (parse_tok t)

let md5hex (s : string) : string = Digest.to_hex (Digest.string s)
let obs (s : string) : string =
  if s = "" then "-"
  else if String.length s <= 48 then hex_of_string s
  else "#" ^ md5hex s ^ ":" ^ string_of_int (String.length s)
let obs_bytes l = obs (string_of_bytes l)

let err_name (e : err) : string =
  match e with EOF -> "eof" | UnexpectedEOF -> "torn" | InvalidCRC -> "crc" | ErrClosed -> "closed"


(* split s at the first occurrence of sep: (before, after); (s, "") if absent *)
let split_first (s : string) (sep : string) : string * string =
  let n = String.length s and m = String.length sep in
  let rec find i = if i + m > n then None else if String.sub s i m = sep then Some i else find (i + 1) in
  match find 0 with
  | None -> (s, "")
  | Some i -> (String.sub s 0 i, String.sub s (i + m) (n - i - m))
