(* driver.ml — reads a trace produced by the Go harness (script line => observation),
   replays every line on the extracted Coq model (Model) and reports each line whose
   observation differs.  Contains no engine logic: parsing, printing, int<->N only. *)
open Model

open Util

(* ---- file layer ------------------------------------------------------------ *)
(* The model is parametric in crc (a Section variable in Chunk.v).  For speed the driver
   instantiates it with a native CRC-32/IEEE; Model.crc32 (the Gallina one) is compared
   with it on a sample at start-up and can be selected with DRIVER_COQ_CRC=1. *)
let crc_tab = Array.init 256 (fun i ->
  let c = ref i in
  for _ = 1 to 8 do c := if !c land 1 = 1 then 0xEDB88320 lxor (!c lsr 1) else !c lsr 1 done;
  !c)
let native_crc (l : n list) : n =
  let c = ref 0xFFFFFFFF in
  List.iter (fun b -> c := crc_tab.((!c lxor int_of_n b) land 0xff) lxor (!c lsr 8)) l;
  n_of_int (!c lxor 0xFFFFFFFF)
let crc = if Sys.getenv_opt "DRIVER_COQ_CRC" <> None then crc32 else native_crc
let () =
  let sample = bytes_of_string (gen_bytes 300 7) in
  if native_crc sample <> crc32 sample || native_crc [] <> crc32 [] then
    (prerr_endline "driver: native CRC disagrees with Model.crc32"; exit 3)
let cur : dfile ref = ref (df_open N0 [])
let saved : dfile ref = ref (df_open N0 [])
let verbose = ref false

let rec_of typ k v batch =
  { r_type = n_of_int (int_of_string typ); r_key = tok_bytes k; r_value = tok_bytes v;
    r_batch = n_of_string batch }

let pos_str (p : pos) =
  Printf.sprintf "%d %d %d" (int_of_n p.p_bid) (int_of_n p.p_off) (int_of_n p.p_size)

let scan_end_name = function
  | SEof -> "eof" | STorn -> "torn" | SErr e -> err_name e | SPanic -> "panic" | SFuel -> "fuel"

let file_exec (f : string array) : string =
  match f.(1) with
  | "new" -> cur := df_open (n_of_int (int_of_string f.(2))) []; ""
  | "put" ->
    let d = encode_record (rec_of f.(2) f.(3) f.(4) f.(5)) in
    let (f', p) = df_write crc !cur d in
    cur := f'; pos_str p
  | "hint" ->
    let p = { p_fid = n_of_string f.(3); p_bid = n_of_string f.(4); p_off = n_of_string f.(5);
              p_size = n_of_string f.(6) } in
    let (f', _) = df_write crc !cur (encode_hint (tok_bytes f.(2)) p) in
    cur := f'; "ok"
  | "putfail" -> "err io"   (* the back-end refused the write: nothing happened *)
  | "resetsize" -> ""       (* the mapping of the implementation's file is dropped; the content is the same *)
  | "far" -> ""   (* the implementation's file begins with a sparse region; positions are reported relative to it *)
  | "stage" ->
    cur := df_stage !cur (encode_record (rec_of f.(2) f.(3) f.(4) f.(5))); ""
  | "flushfail" ->   (* the back-end refused the write of the staged records: they are dropped, nothing else changed *)
    cur := df_refuse !cur; "err io"
  | "flush" ->
    let (f', ps) = df_flush crc !cur in
    cur := f';
    String.concat " " (string_of_int (List.length ps) :: List.map pos_str ps)
  | "size" -> string_of_int (int_of_n (df_size !cur))
  | "close" -> string_of_int (int_of_n (len !cur.df_bytes))
  | "reopen" -> cur := df_open !cur.df_id !cur.df_bytes; string_of_int (int_of_n (df_size !cur))
  | "bytes" ->
    let s = string_of_bytes !cur.df_bytes in
    Printf.sprintf "%s %d" (md5hex s) (String.length s)
  | "scan" ->
    let (rs, e) = scan crc !cur.df_bytes !cur.df_id in
    let b = Buffer.create 256 in
    let n = ref 0 in
    let bad = ref None in
    List.iter (fun (d, p) ->
      if !bad = None then
      match decode_record d with
      | Some r ->
        incr n;
        Buffer.add_string b (Printf.sprintf "%d:%s:%s:%s@%d,%d,%d;" (int_of_n r.r_type)
          (obs_bytes r.r_key) (obs_bytes r.r_value) (string_of_n r.r_batch)
          (int_of_n p.p_bid) (int_of_n p.p_off) (int_of_n p.p_size))
      | None -> bad := Some "crc") rs;
    let e = match !bad with Some x -> x | None -> scan_end_name e in
    Printf.sprintf "%s %d %s%s" e !n (md5hex (Buffer.contents b))
      (if !verbose then " # " ^ Buffer.contents b else "")
  | "scanhint" ->
    let (rs, e) = scan crc !cur.df_bytes !cur.df_id in
    let b = Buffer.create 256 in
    let n = ref 0 in
    let bad = ref None in
    List.iter (fun (d, _) ->
      if !bad = None then
      match decode_hint d with
      | Some (k, p) ->
        incr n;
        Buffer.add_string b (Printf.sprintf "%s@%d,%d,%d,%d;" (obs_bytes k) (int_of_n p.p_fid)
          (int_of_n p.p_bid) (int_of_n p.p_off) (int_of_n p.p_size))
      | None -> bad := Some "crc") rs;
    let e = match !bad with Some x -> x | None -> scan_end_name e in
    Printf.sprintf "%s %d %s%s" e !n (md5hex (Buffer.contents b))
      (if !verbose then " # " ^ Buffer.contents b else "")
  | "get" ->
    (match read_at crc !cur (n_of_string f.(2)) (n_of_string f.(3)) with
     | Ok d -> (match decode_value d with Some v -> "ok " ^ obs_bytes v | None -> "err crc")
     | Err e -> "err " ^ err_name e
     | Panic -> "panic"
     | OutOfFuel -> "fuel")
  | "load" -> cur := df_open !cur.df_id (tok_bytes f.(2)); string_of_int (int_of_n (df_size !cur))
  | "save" -> saved := !cur; ""
  | "restore" -> cur := df_open !saved.df_id !saved.df_bytes; string_of_int (int_of_n (df_size !cur))
  | "flip" when int_of_string f.(2) >= int_of_n (len !cur.df_bytes) -> "err flip"
  | "flip" ->
    let off = int_of_string f.(2) and mask = int_of_string f.(3) in
    let s = Bytes.of_string (string_of_bytes !cur.df_bytes) in
    Bytes.set s off (Char.chr (Char.code (Bytes.get s off) lxor mask));
    cur := df_open !cur.df_id (bytes_of_string (Bytes.to_string s));
    string_of_int (int_of_n (df_size !cur))
  | "twofiles" -> "ok"   (* two other files written concurrently: judged by the harness against what each writer wrote *)
  | "copyblock" ->
    let src = int_of_string f.(2) and dst = int_of_string f.(3) in
    let s = Bytes.of_string (string_of_bytes !cur.df_bytes) in
    if (src + 1) * 32768 > Bytes.length s || (dst + 1) * 32768 > Bytes.length s then "err copyblock" else begin
      Bytes.blit (Bytes.sub s (src * 32768) 32768) 0 s (dst * 32768) 32768;
      cur := df_open !cur.df_id (bytes_of_string (Bytes.to_string s));
      string_of_int (int_of_n (df_size !cur)) end
  | "zeroblock" ->
    let b = int_of_string f.(2) in
    let s = Bytes.of_string (string_of_bytes !cur.df_bytes) in
    if (b + 1) * 32768 > Bytes.length s then "err zeroblock" else begin
      Bytes.fill s (b * 32768) 32768 '\000';
      cur := df_open !cur.df_id (bytes_of_string (Bytes.to_string s));
      string_of_int (int_of_n (df_size !cur)) end
  | "trunc" ->
    let s = string_of_bytes !cur.df_bytes in
    let k = min (int_of_string f.(2)) (String.length s) in
    cur := df_open !cur.df_id (bytes_of_string (String.sub s 0 k));
    string_of_int (int_of_n (df_size !cur))
  | op -> "err unknown-op-" ^ op

(* ---- main loop --------------------------------------------------------------- *)
let split_obs (line : string) : string * string option =
  (* "script => observation [# comment]" *)
  let marker = " => " in
  let ml = String.length marker in
  let rec find i =
    if i + ml > String.length line then None
    else if String.sub line i ml = marker then Some i else find (i + 1) in
  match find 0 with
  | None -> (line, None)
  | Some i ->
    let o = String.sub line (i + ml) (String.length line - i - ml) in
    let o = match String.index_opt o '#' with
      | Some j when j > 0 && o.[j-1] = ' ' && (j + 1 >= String.length o || o.[j+1] = ' ') -> String.trim (String.sub o 0 j)
      | _ -> o in
    (String.sub line 0 i, Some (String.trim o))

let strip_comment (o : string) : string =
  match String.index_opt o '#' with
  | Some j when j > 0 && o.[j-1] = ' ' && (j + 1 >= String.length o || o.[j+1] = ' ') -> String.trim (String.sub o 0 j)
  | _ -> o

(* projection of the comparison, chosen per property by the orchestrator:
   -noevents  : compare results only (cut the " ;; <I/O events>" part on both sides)
   -skip a,b  : execute but do not compare the operations named *)
let noevents = ref false
let skip : string list ref = ref []
let cut_events (o : string) : string =
  if !noevents then String.trim (fst (split_first o " ;; ")) else o

let () =
  let path = ref "" in
  Arg.parse [("-v", Arg.Set verbose, "verbose");
             ("-noevents", Arg.Set noevents, "do not compare I/O events");
             ("-skip", Arg.String (fun s -> skip := String.split_on_char ',' s), "ops not compared")]
    (fun s -> path := s) "driver [-v] [-noevents] [-skip ops] trace";
  let ic = if !path = "" then stdin else open_in !path in
  let lineno = ref 0 and checked = ref 0 and mism = ref 0 and scen = ref "" in
  let engine = Engine_driver.create () in
  let times : (string, int * float) Hashtbl.t = Hashtbl.create 16 in
  (try
    while true do
      let line = input_line ic in
      incr lineno;
      if String.length line > 0 then begin
        let (script, o) = split_obs line in
        let f = Array.of_list (List.filter (fun s -> s <> "") (String.split_on_char ' ' script)) in
        if Array.length f > 0 then
        match f.(0) with
        | "S" -> scen := (if Array.length f > 1 then f.(1) else "?"); Engine_driver.reset engine
        | "F" | "E" ->
          let t0 = Sys.time () in
          let got =
            try (if f.(0) = "F" then file_exec f else Engine_driver.exec engine !verbose f o)
            with e -> "exn " ^ Printexc.to_string e in
          let key = f.(0) ^ " " ^ (if Array.length f > 1 then f.(1) else "") in
          let (c, t) = try Hashtbl.find times key with Not_found -> (0, 0.0) in
          Hashtbl.replace times key (c + 1, t +. (Sys.time () -. t0));
          let got_cmp = strip_comment got in
          (match o with
           | None -> ()
           | Some _ when Array.length f > 1 && List.mem f.(1) !skip -> ()
           | Some exp ->
             incr checked;
             if cut_events exp <> cut_events got_cmp then begin
               incr mism;
               Printf.printf "MISMATCH scenario=%s line=%d: %s\n  impl : %s\n  model: %s\n"
                 !scen !lineno script exp got
             end)
        | _ -> ()
      end
    done
  with End_of_file -> ());
  if Sys.getenv_opt "DRIVER_TIMES" <> None then
    Hashtbl.iter (fun k (c, t) -> Printf.printf "TIME %s n=%d t=%.3f\n" k c t) times;
  Printf.printf "CHECKED %d MISMATCHES %d\n" !checked !mism;
  exit (if !mism = 0 then 0 else 1)
