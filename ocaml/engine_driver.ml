(* engine_driver.ml - engine-layer glue (stub until the engine model is extracted) *)
type t = unit
let create () : t = ()
let reset (_ : t) = ()
let exec (_ : t) (_ : bool) (_ : string array) : string = "err engine-layer-not-built"
