(* engine_driver.ml — replays engine-layer trace lines ("E ...") on the extracted model
   (Model.db_open, db_put, ...).  Glue only: argument parsing and printing of results and
   I/O events in the format of harness/vh/engine.go. *)
open Model
open Util

(* the directory locks (LockTable model): directory names are numbered, every Open attempt is a new handle *)
let locks : ((n * n) list) ref = ref []
let dir_ids : (string, int) Hashtbl.t = Hashtbl.create 4
let next_handle = ref 0
let cur_handle : (string, int) Hashtbl.t = Hashtbl.create 4
let dir_id (name : string) : n =
  n_of_int (match Hashtbl.find_opt dir_ids name with Some i -> i | None -> let i = Hashtbl.length dir_ids in Hashtbl.replace dir_ids name i; i)
let lock_attempt (name : string) (fails : bool) : lres * int =
  incr next_handle;
  let h = !next_handle in
  let (t, r) = lstep !locks (LOpen (n_of_int h, dir_id name, fails)) in
  locks := t; (r, h)
let lock_close (h : int) = let (t, _) = lstep !locks (LClose (n_of_int h)) in locks := t


type t = {
  mutable cfg : cfg;
  mutable db : db option;
  mutable disk : disk;                       (* disk of the current directory (files not held open) *)
  mutable batch : batch option;
  mutable cur : string;
  disks : (string, disk) Hashtbl.t;          (* other directories (backups) *)
  mutable iter : Iter_driver.t option;
  mutable all_events : event list;           (* every I/O event of the scenario so far, in order (reversed) *)
}

(* pieces of the open batch were flushed by a Put that then failed (bputsyncfail): Commit owes the finished-record *)
let flushed_pieces = ref false
let empty_disk : disk = { k_data = []; k_hint = None; k_merge = None }
let default_cfg : cfg = { c_fsize = n_of_int 1024; c_sync = N0; c_bps = N0; c_io = N0 }

let create () : t =
  { cfg = default_cfg; db = None; disk = empty_disk; batch = None; cur = "db";
    disks = Hashtbl.create 4; iter = None; all_events = [] }
let reset (s : t) =
  s.cfg <- default_cfg; s.db <- None; s.disk <- empty_disk; s.batch <- None; s.cur <- "db";
  Hashtbl.reset s.disks; s.iter <- None; s.all_events <- [];
  locks := []; Hashtbl.reset dir_ids; Hashtbl.reset cur_handle

let fname_str = function
  | FData id -> "D" ^ string_of_n id
  | FHint -> "H"
  | MData id -> "M" ^ string_of_n id
  | MHint -> "MH"
  | MMarker -> "MK"

let event_str = function
  | EvCreate f -> "C " ^ fname_str f
  | EvOpen f -> "O " ^ fname_str f
  | EvWrite (f, n, _) -> Printf.sprintf "W %s %s" (fname_str f) (string_of_n n)
  | EvSync f -> "S " ^ fname_str f
  | EvClose f -> "X " ^ fname_str f
  | EvTrunc (f, n) -> Printf.sprintf "T %s %s" (fname_str f) (string_of_n n)
  | EvMkdirData -> "MD"
  | EvMkdirMerge -> "MM"
  | EvRemove f -> "R " ^ fname_str f
  | EvRename (a, b) -> Printf.sprintf "N %s %s" (fname_str a) (fname_str b)
  | EvRemoveAllMerge -> "RA"

(* same canonicalisation as sortCloseGroups in engine.go *)
let file_order (name : string) : string =
  if String.length name > 1 && (name.[0] = 'D' || name.[0] = 'M') && name.[1] >= '0' && name.[1] <= '9'
  then Printf.sprintf "%c%012s" name.[0] (String.sub name 1 (String.length name - 1))
  else "~" ^ name
let sort_close_groups (evs : string list) : string list =
  let name_of e = match String.split_on_char ' ' e with _ :: n :: _ -> n | _ -> "" in
  let groups = List.fold_left (fun acc e ->
    match acc with
    | (n, es) :: rest when n = name_of e -> (n, e :: es) :: rest
    | _ -> (name_of e, [e]) :: acc) [] evs in
  let groups = List.rev_map (fun (n, es) -> (n, List.rev es)) groups in
  let groups = List.stable_sort (fun (a, _) (b, _) -> compare (file_order a) (file_order b)) groups in
  List.concat_map snd groups

let recorder : (event list -> unit) ref = ref (fun _ -> ())
let events_str ?(sorted = false) (evs : event list) : string =
  !recorder evs;
  let l = List.map event_str evs in
  let l = if sorted then sort_close_groups l else l in
  if l = [] then "" else " ;; " ^ String.concat " ; " l

let eerr_name = function
  | EKeyIsEmpty -> "keyempty" | EKeyNotFound -> "notfound" | EDataFileNotFound -> "nofile"
  | EIndexUpdateFailed -> "indexfail" | EBatchCommitted -> "committed"
  | EMergeOutputTooLarge -> "mergetoolarge" | EMergeInProgress -> "merging"
  | EReadErr e -> (match e with EOF -> "eof" | UnexpectedEOF -> "torn" | InvalidCRC -> "crc" | ErrClosed -> "closed")
  | EBadPos -> "badpos" | EDirCorrupted -> "dircorrupted"

let keys_digest (keys : n list list) : string =
  let b = Buffer.create 64 in
  List.iter (fun k -> Buffer.add_string b (obs_bytes k); Buffer.add_char b ';') keys;
  Printf.sprintf "%d %s" (List.length keys) (md5hex (Buffer.contents b))

let get_db s = match s.db with Some d -> d | None -> failwith "database not open"
let get_batch s = match s.batch with Some b -> b | None -> failwith "no batch"

let pad9 (id : n) : string = Printf.sprintf "%09d" (int_of_n id)

let listing (s : t) : string =
  let out = ref [] in
  let add pre name size = out := Printf.sprintf "%s%s:%s" pre name (string_of_n size) :: !out in
  let data = match s.db with Some d -> db_files d | None -> s.disk.k_data in
  List.iter (fun (id, f) -> add "D/" (pad9 id ^ ".data") f.lf_phys) data;
  (match s.disk.k_hint with Some h -> add "D/" "000000000.hint" h.hf_phys | None -> ());
  (match s.disk.k_merge with
   | Some m ->
     List.iter (fun (id, f) -> add "M/" (pad9 id ^ ".data") f.lf_phys) m.m_files;
     (match m.m_hint with Some h -> add "M/" "000000000.hint" h.hf_phys | None -> ());
     (match m.m_marker with
      | Some x -> add "M/" "000000000.merge-finished" (if x = N0 then N0 else n_of_int 4)
      | None -> ())
   | None -> ());
  let l = List.sort compare !out in
  if l = [] then "-" else String.concat "," l

(* observation text after "=>" without the events part, for inputs observed from the implementation *)
let obs_head (o : string) : string =
  match split_first o " ;; " with (h, _) -> String.trim h

let fname_of_str (x : string) : fname =
  let num () = n_of_string (String.sub x 1 (String.length x - 1)) in
  if x = "H" then FHint else if x = "MH" then MHint else if x = "MK" then MMarker
  else if x.[0] = 'D' then FData (num ()) else MData (num ())

let dump_of (d : db) : string =
  let keys = db_list_keys d in
  let b = Buffer.create 64 in
  let cur = ref d in
  List.iter (fun k ->
    let ((d', r), _) = db_get !cur k in
    cur := d';
    match r with
    | Inl v -> Buffer.add_string b (obs_bytes k ^ "=" ^ obs_bytes v ^ ";")
    | Inr e -> Buffer.add_string b (obs_bytes k ^ "!" ^ eerr_name e ^ ";")) keys;
  Printf.sprintf "%d %s" (List.length keys) (md5hex (Buffer.contents b))

let rec nat_of_int (i : int) : nat = if i <= 0 then O else S (nat_of_int (i - 1))

let exec (s : t) (verbose : bool) (f : string array) (obs : string option) : string =
  ignore verbose;
  recorder := (fun evs -> s.all_events <- List.rev_append evs s.all_events);
  match f.(1) with
  | "mark" -> ""
  | "crashat" ->
    (* E crashat <k> <cut> <cfg 6 fields>: the image after the first k events of the scenario,
       cut as requested, opened (twice) with the given configuration *)
    let k = int_of_string f.(2) in
    let mode = match String.split_on_char ':' f.(3) with
      | ["none"] -> CutNone | ["durable"] -> CutDurable
      | ["at"; nm; n] -> CutAt (fname_of_str nm, n_of_string n)
      | _ -> failwith "bad cut" in
    let c = { c_fsize = n_of_string f.(4); c_sync = n_of_string f.(5); c_bps = n_of_string f.(6);
              c_io = n_of_string f.(7) } in
    let evs = List.rev s.all_events in
    recorder := (fun _ -> ());
    (match crash_open c evs (nat_of_int k) mode with
     | (OpenOk (d, kd), _) ->
       let d1 = dump_of d in
       (* close and open again: re-running recovery / an interrupted adoption is harmless *)
       let (k2, _) = db_close d kd in
       (match db_open c k2 with
        | (OpenOk (d', _), _) -> "ok " ^ d1 ^ " / " ^ dump_of d'
        | (OpenErr (e, _), _) -> "ok " ^ d1 ^ " / err " ^ eerr_name e)
     | (OpenErr (e, _), _) -> "err " ^ eerr_name e)
  | "crashrm" ->
    (* E crashrm <k> <entries of the merge directory already unlinked> <cfg 6 fields>: the process died inside
       the RemoveAll that is event number k; the image is opened twice *)
    let k = int_of_string f.(2) in
    let gone_l = List.map fname_of_str (String.split_on_char ',' f.(3)) in
    let gone (x : fname) = List.mem x gone_l in
    let c = { c_fsize = n_of_string f.(4); c_sync = n_of_string f.(5); c_bps = n_of_string f.(6);
              c_io = n_of_string f.(7) } in
    let evs = List.rev s.all_events in
    recorder := (fun _ -> ());
    (match crash_open_rm c evs (nat_of_int k) gone with
     | (OpenOk (d, kd), _) ->
       let d1 = dump_of d in
       let (k2, _) = db_close d kd in
       (match db_open c k2 with
        | (OpenOk (d', _), _) -> "ok " ^ d1 ^ " / " ^ dump_of d'
        | (OpenErr (e, _), _) -> "ok " ^ d1 ^ " / err " ^ eerr_name e)
     | (OpenErr (e, _), _) -> "err " ^ eerr_name e)
  | "crashmerge" ->
    (* E crashmerge <k> none <cfg 6 fields> <key>: open the crash image, delete <key>, Merge (scan order
       observed), close, open, dump, close, open, dump *)
    let k = int_of_string f.(2) in
    let c = { c_fsize = n_of_string f.(4); c_sync = n_of_string f.(5); c_bps = n_of_string f.(6);
              c_io = n_of_string f.(7) } in
    let evs = List.rev s.all_events in
    recorder := (fun _ -> ());
    let o = match obs with Some o -> obs_head o | None -> "" in
    let order_s = match split_first o "order" with (_, r) ->
      (match String.split_on_char ' ' (String.trim r) with x :: _ -> x | [] -> "") in
    let order = if order_s = "" then [] else List.map n_of_string (String.split_on_char ',' order_s) in
    (match crash_open c evs (nat_of_int k) CutNone with
     | (OpenOk (d, kd), _) ->
       let d = if f.(10) = "-" then d else (let ((d, _), _) = db_delete d (tok_bytes f.(10)) in d) in
       let (((d, kd), e), _) = db_merge d kd order in
       let (k2, _) = db_close d kd in
       let res = (match e with None -> "ok" | Some e -> "err " ^ eerr_name e) ^ " order " ^ order_s in
       (match db_open c k2 with
        | (OpenOk (d1, k3), _) ->
          let r1 = dump_of d1 in
          let (k4, _) = db_close d1 k3 in
          (match db_open c k4 with
           | (OpenOk (d2, _), _) -> res ^ " " ^ r1 ^ " " ^ dump_of d2
           | (OpenErr (e, _), _) -> res ^ " " ^ r1 ^ " err " ^ eerr_name e)
        | (OpenErr (e, _), _) -> res ^ " err " ^ eerr_name e)
     | (OpenErr (e, _), _) -> "err " ^ eerr_name e)
  | "crashcont" ->
    (* E crashcont <k> <cut> <cfg 6 fields> <key> <val>: the crash image is opened, one batch
       (its id observed from the implementation) writes <key> and commits, then close, open, dump *)
    let k = int_of_string f.(2) in
    let c = { c_fsize = n_of_string f.(4); c_sync = n_of_string f.(5); c_bps = n_of_string f.(6);
              c_io = n_of_string f.(7) } in
    let evs = List.rev s.all_events in
    recorder := (fun _ -> ());
    let o = match obs with Some o -> obs_head o | None -> "" in
    let id = match String.split_on_char ' ' o with "ok" :: id :: _ -> id | _ -> "1" in
    (match crash_open c evs (nat_of_int k) CutNone with
     | (OpenOk (d, kd), _) ->
       let b = new_batch false (n_of_string id) in
       let (((d, b), _), _) = batch_put d b (tok_bytes f.(10)) (tok_bytes f.(11)) in
       let (((d, _), e), _) = batch_commit d b in
       (match e with
        | Some e -> "err commit " ^ eerr_name e
        | None ->
          let (k2, _) = db_close d kd in
          (match db_open c k2 with
           | (OpenOk (d', _), _) -> "ok " ^ id ^ " " ^ dump_of d'
           | (OpenErr (e, _), _) -> "ok " ^ id ^ " err " ^ eerr_name e))
     | (OpenErr (e, _), _) -> "err " ^ eerr_name e)
  | "crashcontp" ->
    (* E crashcontp <k> <cut> <cfg 6 fields> <key> <val>: the (cut) crash image is opened, one Put, then
       close, open, dump, close, open, dump *)
    let k = int_of_string f.(2) in
    let mode = match String.split_on_char ':' f.(3) with
      | ["none"] -> CutNone | ["durable"] -> CutDurable
      | ["at"; nm; n] -> CutAt (fname_of_str nm, n_of_string n)
      | _ -> failwith "bad cut" in
    let c = { c_fsize = n_of_string f.(4); c_sync = n_of_string f.(5); c_bps = n_of_string f.(6);
              c_io = n_of_string f.(7) } in
    let evs = List.rev s.all_events in
    recorder := (fun _ -> ());
    (match crash_open c evs (nat_of_int k) mode with
     | (OpenOk (d, kd), _) ->
       let ((d, e), _) = db_put d (tok_bytes f.(10)) (tok_bytes f.(11)) in
       (match e with
        | Some e -> "err put " ^ eerr_name e
        | None ->
          let (k2, _) = db_close d kd in
          (match db_open c k2 with
           | (OpenOk (d1, k3), _) ->
             let r1 = dump_of d1 in
             let (k4, _) = db_close d1 k3 in
             (match db_open c k4 with
              | (OpenOk (d2, _), _) -> "ok " ^ r1 ^ " " ^ dump_of d2
              | (OpenErr (e, _), _) -> "ok " ^ r1 ^ " err " ^ eerr_name e)
           | (OpenErr (e, _), _) -> "ok err " ^ eerr_name e))
     | (OpenErr (e, _), _) -> "err " ^ eerr_name e)
  | "dir" ->
    (* leave the current directory (its disk is kept), enter another one *)
    Hashtbl.replace s.disks s.cur s.disk;
    s.cur <- f.(2);
    s.disk <- (try Hashtbl.find s.disks s.cur with Not_found -> empty_disk);
    s.db <- None; s.batch <- None; ""
  | "open" ->
    let c = { c_fsize = n_of_string f.(2); c_sync = n_of_string f.(3); c_bps = n_of_string f.(4);
              c_io = n_of_string f.(5) } in
    s.cfg <- c;
    if Array.length f > 7 then begin
      Iter_driver.kind := int_of_string f.(6); Iter_driver.shards := int_of_string f.(7) end;
    (match lock_attempt s.cur false with
     | (LInUse, _) -> "err inuse"
     | (_, h) ->
       Hashtbl.replace cur_handle s.cur h;
       (match db_open c s.disk with
        | (OpenOk (d, k), evs) -> s.db <- Some d; s.disk <- k; "ok" ^ events_str evs
        | (OpenErr (e, k), evs) -> lock_close h; s.disk <- k; "err " ^ eerr_name e ^ events_str evs))
  | "open2" | "openchild" | "openbg" ->
    (match lock_attempt s.cur false with
     | (LInUse, _) -> "err inuse"
     | (_, h) ->
       (* the directory was free: the other process opens it and closes it again *)
       let c = { c_fsize = n_of_string f.(2); c_sync = n_of_string f.(3); c_bps = n_of_string f.(4);
                 c_io = n_of_string f.(5) } in
       lock_close h;
       (match db_open c s.disk with
        | (OpenOk (d, k), _) -> let (k2, _) = db_close d k in s.disk <- k2; "ok"
        | (OpenErr (e, k), _) -> s.disk <- k; "err " ^ eerr_name e))
  | "openopts" ->
    let base = { o_dir_empty = false; o_fsize_pos = true; o_ratio_ok = true; o_bps = n_of_int 1048576; o_sync = N0;
                 o_index = n_of_int 3 } in
    let o = match f.(2) with
      | "dirpath" -> { base with o_dir_empty = true }
      | "fsize0" | "fsizeneg" -> { base with o_fsize_pos = false }
      | "ratio" | "rationeg" -> { base with o_ratio_ok = false }
      | "bps" -> { base with o_bps = n_of_int (16 * 1024 * 1024 + 1) }
      | "thresh0" -> { base with o_sync = n_of_int 2; o_bps = N0 }
      | "index0" -> { base with o_index = N0 }
      | "index9" -> { base with o_index = n_of_int 9 }
      | _ -> base in
    if check_options o then "ok" else "err options"
  | "openbad" ->
    (match lock_attempt s.cur true with
     | (LInUse, _) -> "err inuse"
     | (LFailed, _) ->
       (* the Open that fails on the corrupt data file has taken the lock and adopted a finished merge
          before it reads the data files: that part of its work stays *)
       let ((k1, _), _) = load_merge_files s.disk in
       s.disk <- k1; "err failed"
     | (_, h) -> lock_close h; "ok")
  | "openrace" ->
    (* how many of the racing processes got the directory (one after the other) is observed; each of them
       opens it - adopting a finished merge that waits there - and closes it again *)
    let o = match obs with Some o -> obs_head o | None -> "done ok=0" in
    let oks = (match split_first o "ok=" with (_, r) -> (try int_of_string (String.trim r) with _ -> 0)) in
    if s.db = None then begin
      let c = { c_fsize = n_of_string f.(3); c_sync = n_of_string f.(4); c_bps = n_of_string f.(5);
                c_io = n_of_string f.(6) } in
      for _ = 1 to oks do
        (match db_open c s.disk with
         | (OpenOk (d, k), _) -> let (k2, _) = db_close d k in s.disk <- k2
         | (OpenErr (_, k), _) -> s.disk <- k)
      done
    end;
    Printf.sprintf "done ok=%d" oks
  | "concsched" ->
    let parse_prog (spec : string) : call list =
      if spec = "-" || spec = "" then [] else
      List.map (fun o -> match String.split_on_char ',' o with
        | ["p"; k; v] -> CPut (tok_bytes k, tok_bytes v)
        | ["d"; k] -> CDel (tok_bytes k)
        | ["g"; k] -> CGet (tok_bytes k)
        | _ -> failwith "bad call") (String.split_on_char ';' spec) in
    let threads = List.map (fun p -> TIdle (parse_prog p)) (String.split_on_char '/' f.(2)) in
    let sched = List.map (fun x -> nat_of_int (int_of_string x)) (String.split_on_char ',' f.(3)) in
    let st = crun { c_db = get_db s; c_threads = threads; c_hist = []; c_lins = [] } sched in
    s.db <- Some st.c_db;
    let rec int_of_nat = function O -> 0 | S n -> 1 + int_of_nat n in
    let err_s = function None -> "ok" | Some e -> "err:" ^ eerr_name e in
    String.concat ";" (List.map (function
      | DPut (tid, _, _, e, _) -> Printf.sprintf "P%d:%s" (int_of_nat tid) (err_s e)
      | DDel (tid, _, e, _) -> Printf.sprintf "D%d:%s" (int_of_nat tid) (err_s e)
      | DGet (tid, _, r, _) -> Printf.sprintf "G%d:%s" (int_of_nat tid)
                                 (match r with Inl v -> "ok:" ^ obs_bytes v | Inr e -> "err:" ^ eerr_name e)) st.c_hist)
  | "concpark" ->
    let parse1 (o : string) = match String.split_on_char ',' o with
      | ["p"; k; v] -> `P (tok_bytes k, tok_bytes v) | ["d"; k] -> `D (tok_bytes k) | ["g"; k] -> `G (tok_bytes k)
      | _ -> failwith "bad call" in
    let a = parse1 f.(3) and b = parse1 f.(4) in
    let err_s = function None -> "ok" | Some e -> "err:" ^ eerr_name e in
    let run c = match c with
      | `P (k, v) -> let ((d, e), _) = db_put (get_db s) k v in s.db <- Some d; err_s e
      | `D k -> let ((d, e), _) = db_delete (get_db s) k in s.db <- Some d; err_s e
      | `G k -> let ((d, r), _) = db_get (get_db s) k in s.db <- Some d;
                (match r with Inl v -> "ok:" ^ obs_bytes v | Inr e -> "err:" ^ eerr_name e) in
    let nonempty k = k <> [] in
    let present k = idx_get (get_db s).d_index k <> None in
    let reached = match f.(2), a with
      | "put.appended", `P (k, _) -> nonempty k
      | ("delete.checked" | "delete.appended"), `D k -> nonempty k && present k
      | _ -> false in
    if not reached then (let ra = run a in let rb = run b in "nopark " ^ ra ^ " " ^ rb)
    else (match b with
      | `G _ -> let rb = run b in let ra = run a in "parked " ^ ra ^ " " ^ rb
      | _ -> let ra = run a in let rb = run b in "parked " ^ ra ^ " " ^ rb)
  | "concstress" | "concmix" | "concbg" -> "done"
  | "dtset" | "dtget" | "dtdel" | "dttype" | "hset" | "hget" | "hdel" | "sadd" | "srem" | "sismember"
  | "lpush" | "rpush" | "lpop" | "rpop" | "zadd" | "zscore" ->
    (* clock readings and the batch id are inputs observed from the implementation *)
    let o = match obs with Some o -> obs_head o | None -> "" in
    let (_, inp) = split_first o " @ " in
    let field name =
      let (_, r) = split_first (" " ^ inp) (" " ^ name ^ "=") in
      match String.split_on_char ' ' r with x :: _ when x <> "" -> x | _ -> "0" in
    let now = n_of_string (field "now") and ver = n_of_string (field "ver")
    and exp = n_of_string (field "exp") and bid = n_of_string (field "bid") in
    let a i = tok_bytes f.(i) in
    let key = a 2 in
    let c = match f.(1) with
      | "dtset" -> KSet (key, a 3, exp)
      | "dtget" -> KGet key
      | "dtdel" -> KDel key
      | "dttype" -> KType key
      | "hset" -> KHSet (key, a 3, a 4)
      | "hget" -> KHGet (key, a 3)
      | "hdel" -> KHDel (key, a 3)
      | "sadd" -> KSAdd (key, a 3)
      | "sismember" -> KSIsMember (key, a 3)
      | "srem" -> KSRem (key, a 3)
      | "lpush" -> KPush (key, a 3, true)
      | "rpush" -> KPush (key, a 3, false)
      | "lpop" -> KPop (key, true)
      | "rpop" -> KPop (key, false)
      | "zadd" -> KZAdd (key, bytes_of_string f.(3), a 4)
      | _ -> KZScore (key, a 3) in
    let ((d, out), evs) = run_cmd (get_db s) c ver now bid in
    let reply = match out with
      | OErr e -> "err " ^ eerr_name e
      | OReply r ->
        (match r with
         | DOk -> "ok" | DNil -> "nil" | DBytes b -> if b = [] then "nil" else "v " ^ obs_bytes b
         | DBool b -> if b then "b1" else "b0"
         | DSize n -> "n " ^ string_of_n n
         | DScore sc -> "s " ^ (if sc = [] then "0" else string_of_bytes sc)
         | DNoScore -> "s -1"
         | DType t -> "t " ^ string_of_n t
         | DWrongType -> "wrongtype" | DNotFound -> "err notfound" | DNull -> "null" | DKeyEmpty -> "err keyempty") in
    let ((d, r), evs2) = db_get d key in
    s.db <- Some d;
    let raw = match r with Inl v -> obs_bytes v | Inr _ -> "none" in
    Printf.sprintf "%s @ now=%s ver=%s exp=%s bid=%s raw=%s" reply (field "now") (field "ver") (field "exp") (field "bid") raw
    ^ events_str (evs @ evs2)
  | "probeclose" -> ""
  | "hostile" -> ""
  | "pathstyle" -> ""
  | "close" ->
    let (k, evs) = db_close (get_db s) s.disk in
    (match Hashtbl.find_opt cur_handle s.cur with Some h -> lock_close h | None -> ());
    s.db <- None; s.disk <- k; s.batch <- None;
    "ok" ^ events_str ~sorted:true evs
  | "padto" ->
    (* the value length was computed by the harness from the file's logical size (an input of the model) *)
    let o = match obs with Some o -> obs_head o | None -> "err nolength" in
    (match String.split_on_char ' ' o with
     | "ok" :: vl :: _ ->
       let ((d, e), evs) = db_put (get_db s) (tok_bytes f.(3)) (tok_bytes ("@" ^ vl ^ ":" ^ f.(4))) in
       s.db <- Some d;
       (match e with None -> "ok " ^ vl | Some e -> "err " ^ eerr_name e) ^ events_str evs
     | _ -> o)
  | "bpadto" ->
    (* the value length was computed by the harness from the file's logical size and the batch id (inputs of the model) *)
    let o = match obs with Some o -> obs_head o | None -> "err nolength" in
    (match String.split_on_char ' ' o with
     | "ok" :: vl :: _ ->
       let (((d, b), e), evs) = batch_put (get_db s) (get_batch s) (tok_bytes f.(3)) (tok_bytes ("@" ^ vl ^ ":" ^ f.(4))) in
       s.db <- Some d; s.batch <- Some b;
       (match e with None -> "ok " ^ vl | Some e -> "err " ^ eerr_name e) ^ events_str evs
     | _ -> o)
  | "bold" -> "err committed"   (* the handle of an earlier, committed batch stays dead *)
  | "closenoflush" ->
    (* judged on the implementation side (a Close that cannot flush reports it); the database is left closed *)
    (match obs with
     | Some o when String.length o >= 4 && String.sub o 0 4 = "skip" -> "skip"
     | Some o -> s.db <- None; s.batch <- None; obs_head o
     | None -> s.db <- None; s.batch <- None; "err io")
  | "mergeclose" | "mergebatchcrash" | "closebg" ->
    (* judged on the implementation side only (reference mapping); the database is left closed *)
    s.db <- None; s.batch <- None; "done"
  | "lockprobe" ->
    (* Close; an outside holder of the lock comes and goes; another process opens the free directory and closes it *)
    let (k, _) = db_close (get_db s) s.disk in
    (match Hashtbl.find_opt cur_handle s.cur with Some h -> lock_close h | None -> ());
    s.db <- None; s.disk <- k; s.batch <- None;
    let c = { c_fsize = n_of_string f.(2); c_sync = n_of_string f.(3); c_bps = n_of_string f.(4);
              c_io = n_of_string f.(5) } in
    (match db_open c s.disk with
     | (OpenOk (d, k), _) -> let (k2, _) = db_close d k in s.disk <- k2
     | (OpenErr (_, k), _) -> s.disk <- k);
    "ok"
  | "closefail" ->
    (* Close with a failing file sync: everything was written before, the lock is released all the same *)
    let (k, _) = db_close (get_db s) s.disk in
    (match Hashtbl.find_opt cur_handle s.cur with Some h -> lock_close h | None -> ());
    s.db <- None; s.disk <- k; s.batch <- None;
    "ok"
  | "put" ->
    let ((d, e), evs) = db_put (get_db s) (tok_bytes f.(2)) (tok_bytes f.(3)) in
    s.db <- Some d;
    (match e with None -> "ok" | Some e -> "err " ^ eerr_name e) ^ events_str evs
  | "del" ->
    let ((d, e), evs) = db_delete (get_db s) (tok_bytes f.(2)) in
    s.db <- Some d;
    (match e with None -> "ok" | Some e -> "err " ^ eerr_name e) ^ events_str evs
  | "get" ->
    let ((d, r), evs) = db_get (get_db s) (tok_bytes f.(2)) in
    s.db <- Some d;
    (match r with Inl v -> "ok " ^ obs_bytes v | Inr e -> "err " ^ eerr_name e) ^ events_str evs
  | "dump" ->
    let keys = db_list_keys (get_db s) in
    let b = Buffer.create 64 in
    let evs = ref [] in
    List.iter (fun k ->
      let ((d, r), e) = db_get (get_db s) k in
      s.db <- Some d; evs := !evs @ e;
      match r with
      | Inl v -> Buffer.add_string b (obs_bytes k ^ "=" ^ obs_bytes v ^ ";")
      | Inr e -> Buffer.add_string b (obs_bytes k ^ "!" ^ eerr_name e ^ ";")) keys;
    Printf.sprintf "%d %s" (List.length keys) (md5hex (Buffer.contents b)) ^ events_str !evs
  | "list" -> keys_digest (db_list_keys (get_db s))
  | "fold" ->
    let ((d, r), evs) = db_fold (get_db s) in
    s.db <- Some d;
    (match r with
     | Inl l ->
       let b = Buffer.create 64 in
       List.iter (fun (k, v) -> Buffer.add_string b (obs_bytes k ^ "=" ^ obs_bytes v ^ ";")) l;
       Printf.sprintf "ok %d %s" (List.length l) (md5hex (Buffer.contents b))
     | Inr e -> "err " ^ eerr_name e) ^ events_str evs
  | "foldn" ->
    (* the callback returns false at its n-th invocation (n < 1: at the first) *)
    let n = max 1 (int_of_string f.(2)) in
    let ((d, r), evs) = db_fold_n (get_db s) (nat_of_int n) in
    s.db <- Some d;
    (match r with
     | Inl l ->
       let b = Buffer.create 64 in
       List.iter (fun (k, v) -> Buffer.add_string b (obs_bytes k ^ "=" ^ obs_bytes v ^ ";")) l;
       Printf.sprintf "ok %d %s" (List.length l) (md5hex (Buffer.contents b))
     | Inr e -> "err " ^ eerr_name e) ^ events_str evs
  | "foldw" ->
    (* Fold works on the snapshot taken when it begins: the callback's writes happen, for the model, after it *)
    let ((d, r), evs) = db_fold (get_db s) in
    s.db <- Some d;
    let head = (match r with
     | Inl l ->
       let b = Buffer.create 64 in
       List.iter (fun (k, v) -> Buffer.add_string b (obs_bytes k ^ "=" ^ obs_bytes v ^ ";")) l;
       Printf.sprintf "ok %d %s" (List.length l) (md5hex (Buffer.contents b))
     | Inr e -> "err " ^ eerr_name e) in
    let evs = ref evs in
    let wres = ref [] in
    for i = 3 to Array.length f - 1 do
      let p = Array.of_list (String.split_on_char ',' f.(i)) in
      let (d, e) =
        if p.(0) = "p" then
          let ((d, e), ev) = db_put (get_db s) (tok_bytes p.(1)) (tok_bytes p.(2)) in evs := !evs @ ev; (d, e)
        else
          let ((d, e), ev) = db_delete (get_db s) (tok_bytes p.(1)) in evs := !evs @ ev; (d, e) in
      s.db <- Some d;
      wres := (match e with None -> "ok" | Some e -> "err:" ^ eerr_name e) :: !wres
    done;
    (match r with Inl _ -> head ^ " w=" ^ String.concat "," (List.rev !wres) | Inr _ -> head) ^ events_str !evs
  | "stat" ->
    let (((k, fn), r), t) = db_stat (get_db s) in
    Printf.sprintf "%s %s %s %s" (string_of_n k) (string_of_n fn) (string_of_n r) (string_of_n t)
  | "sync" ->
    let (d, evs) = db_sync (get_db s) in
    s.db <- Some d; "ok" ^ events_str evs
  | "batch" ->
    flushed_pieces := false;
    (* the batch id is chosen by the implementation (snowflake): an input of the model *)
    let id = match obs with Some o -> obs_head o | None -> "1" in
    s.batch <- Some (new_batch (f.(2) = "1") (n_of_string id)); id
  | "bput" ->
    let (((d, b), e), evs) = batch_put (get_db s) (get_batch s) (tok_bytes f.(2)) (tok_bytes f.(3)) in
    s.db <- Some d; s.batch <- Some b;
    (match e with None -> "ok" | Some e -> "err " ^ eerr_name e) ^ events_str evs
  | "bracers" ->
    (* two concurrent Puts of one fresh key with one value, then a Delete of it through the batch: put, put, delete *)
    let pre = tok_bytes f.(2) and n = int_of_string f.(3) and v = tok_bytes f.(4) in
    let all = ref [] and err = ref None in
    for i = 0 to n - 1 do
      let k = pre @ [n_of_int (i lsr 8); n_of_int (i land 255)] in
      let step r = (match r with (((d, b), e), evs) ->
        s.db <- Some d; s.batch <- Some b; all := !all @ evs;
        (match e, !err with Some x, None -> err := Some x | _ -> ())) in
      step (batch_put (get_db s) (get_batch s) k v);
      step (batch_put (get_db s) (get_batch s) k v);
      step (batch_delete (get_db s) (get_batch s) k)
    done;
    (match !err with None -> "ok" | Some e -> "err " ^ eerr_name e) ^ events_str !all
  | "bputsyncfail" ->
    let o = match obs with Some o -> obs_head o | None -> "ok" in
    if String.length o >= 6 && String.sub o 0 6 = "err io" then
      let had = (get_batch s).b_staged <> [] in   (* a flush of nothing leaves nothing that a finished-record would owe *)
      (match batch_put_sync_refused (get_db s) (get_batch s) (tok_bytes f.(2)) (tok_bytes f.(3)) with
       | Some ((d, b), _) -> s.db <- Some d; s.batch <- Some b; if had then flushed_pieces := true; "err io"
       | None -> "ok # the model sees no flush due")
    else begin
      let (((d, b), e), _) = batch_put (get_db s) (get_batch s) (tok_bytes f.(2)) (tok_bytes f.(3)) in
      s.db <- Some d; s.batch <- Some b;
      (match e with None -> "ok" | Some e -> "err " ^ eerr_name e)
    end
  | "bputfail" ->
    (* a Batch.Put during which the operating system refuses the first write (the write of an overflow flush).  Whether a
       write happened at all is observed; when it did, the model must agree that a flush was due *)
    let o = match obs with Some o -> obs_head o | None -> "ok" in
    if String.length o >= 6 && String.sub o 0 6 = "err io" then
      (match batch_put_refused (get_db s) (get_batch s) (tok_bytes f.(2)) (tok_bytes f.(3)) with
       | Some (d, _) -> s.db <- Some d; "err io"
       | None -> "ok # the model sees no flush due")
    else begin
      let (((d, b), e), _) = batch_put (get_db s) (get_batch s) (tok_bytes f.(2)) (tok_bytes f.(3)) in
      s.db <- Some d; s.batch <- Some b;
      (match e with None -> "ok" | Some e -> "err " ^ eerr_name e)
    end
  | "bgetrace" ->
    (* n Puts of one key through the batch, the values alternating between len bytes 'A' and len bytes 'B' (a reader races
       with them in the implementation; reads change nothing) *)
    let k = tok_bytes f.(2) and n = int_of_string f.(3) and ln = int_of_string f.(4) in
    let pat c = List.init ln (fun _ -> n_of_int (Char.code c)) in
    let pa = pat 'A' and pb = pat 'B' in
    let all = ref [] and err = ref None in
    (* the harness reads the key through the batch once before the race begins (under memory-mapped I/O a read of a file that
       Backup cut back to its logical size maps it again) *)
    (match batch_get (get_db s) (get_batch s) k with ((d, _), evs) -> s.db <- Some d; all := evs);
    for i = 0 to n - 1 do
      (match batch_put (get_db s) (get_batch s) k (if i mod 2 = 0 then pa else pb) with
       | (((d, b), e), evs) ->
         s.db <- Some d; s.batch <- Some b; all := !all @ evs;
         (match e, !err with Some x, None -> err := Some x | _ -> ()))
    done;
    (match !err with None -> "ok" | Some e -> "err " ^ eerr_name e) ^ events_str !all
  | "bdel" ->
    let (((d, b), e), evs) = batch_delete (get_db s) (get_batch s) (tok_bytes f.(2)) in
    s.db <- Some d; s.batch <- Some b;
    (match e with None -> "ok" | Some e -> "err " ^ eerr_name e) ^ events_str evs
  | "bget" ->
    let ((d, r), evs) = batch_get (get_db s) (get_batch s) (tok_bytes f.(2)) in
    s.db <- Some d;
    (match r with Inl v -> "ok " ^ obs_bytes v | Inr e -> "err " ^ eerr_name e) ^ events_str evs
  | "holebatch" | "orphanbatch" ->
    (* an experiment on a database of its own, judged by the harness against the property's words (all or nothing);
       nothing of the scenario's database is touched *)
    (match obs with Some o -> obs_head o | None -> "ok")
  | "commitfail" ->
    (* a Commit whose write the operating system refused: it reports the error, the batch is finished and nothing
       of it happened (the harness injects the fault only when nothing of the batch was flushed before and no
       rotation precedes the write; otherwise the operation is skipped) *)
    (match obs with
     | Some o when String.length o >= 4 && String.sub o 0 4 = "skip" -> "skip"
     | _ ->
       s.batch <- Some (batch_refuse (get_batch s)); "err io")
  | "commit" ->
    let b0 = get_batch s in
    let (((d, b), e), evs) =
      if !flushed_pieces && b0.b_staged = [] && not b0.b_committed then batch_commit_flushed (get_db s) b0
      else batch_commit (get_db s) b0 in
    flushed_pieces := false;
    s.db <- Some d; s.batch <- Some b;
    (match e with None -> "ok" | Some e -> "err " ^ eerr_name e) ^ events_str evs
  | "merge" | "mergebusy" | "mergeget" ->
    (* the iteration order over the map of older files is observed from the implementation *)
    let o = match obs with Some o -> obs_head o | None -> "ok order" in
    let order_s = match split_first o "order" with (_, r) -> String.trim r in
    let order = if order_s = "" then [] else List.map n_of_string (String.split_on_char ',' order_s) in
    (* hypothesis of the merge theorems (order_ok): the scan order covers every data file *)
    let d0 = get_db s in
    let ids = d0.d_active_id :: List.map fst d0.d_older in
    let missing = List.filter (fun id -> not (List.mem id order)) ids in
    let (((d, k), e), evs) = db_merge (get_db s) s.disk order in
    s.db <- Some d; s.disk <- k;
    if missing <> [] && e = None then
      "err scan-order-does-not-cover-file-" ^ string_of_n (List.hd missing) ^ " (hypothesis order_ok of the merge theorems)"
    else
    (match e with None -> "ok" | Some e -> "err " ^ eerr_name e) ^ " order " ^ order_s ^ events_str evs
  | "mergei" ->
    let o = match obs with Some o -> obs_head o | None -> "ok order" in
    let order_s = match split_first o "order" with (_, r) -> String.trim r in
    let order = if order_s = "" then [] else List.map n_of_string (String.split_on_char ',' order_s) in
    let parse_ops (spec : string) : mop list =
      if spec = "-" || spec = "" then [] else
      List.map (fun o -> match String.split_on_char ',' o with
        | ["p"; k; v] -> MPut (tok_bytes k, tok_bytes v)
        | ["d"; k] -> MDel (tok_bytes k)
        | _ -> failwith "bad racing op") (String.split_on_char ';' spec) in
    let parts = String.split_on_char '|' f.(2) in
    let pro = parse_ops (List.hd parts) in
    let sched = List.map parse_ops (List.tl parts) in
    let d0 = get_db s in
    let ids = d0.d_active_id :: List.map fst d0.d_older in
    let missing = List.filter (fun id -> not (List.mem id order)) ids in
    let (((d, k), e), evs) = db_merge_i d0 s.disk order pro sched in
    s.db <- Some d; s.disk <- k;
    if missing <> [] && e = None then
      "err scan-order-does-not-cover-file-" ^ string_of_n (List.hd missing)
    else
    (match e with None -> "ok" | Some e -> "err " ^ eerr_name e) ^ " order " ^ order_s ^ events_str evs
  | "mergew" ->
    (* E mergew <pro>|<w1>|<w2>...: racing calls that ran when Merge wrote its 1st, 2nd ... rewritten record,
       i.e. after that record's liveness check.  For the engine that is the slot before the next record is
       looked up; the harness reports the slots as they fell ("eff ...") and the calls that ran after the
       last lookup ("post ...") - inputs of the model like the scan order. *)
    let o = match obs with Some o -> obs_head o | None -> "ok order eff - post -" in
    let (head, rest) = split_first o " eff " in
    let (eff_s, post_s) = split_first rest " post " in
    let order_s = match split_first head "order" with (_, r) -> String.trim r in
    let order = if order_s = "" then [] else List.map n_of_string (String.split_on_char ',' order_s) in
    let parse_ops (spec : string) : mop list =
      let spec = String.trim spec in
      if spec = "-" || spec = "" then [] else
      List.map (fun o -> match String.split_on_char ',' o with
        | ["p"; k; v] -> MPut (tok_bytes k, tok_bytes v)
        | ["d"; k] -> MDel (tok_bytes k)
        | _ -> failwith "bad racing op") (String.split_on_char ';' spec) in
    let parts = String.split_on_char '|' (String.trim eff_s) in
    let pro = parse_ops (List.hd parts) in
    let sched = List.map parse_ops (List.tl parts) in
    let post = parse_ops post_s in
    let d0 = get_db s in
    let ids = d0.d_active_id :: List.map fst d0.d_older in
    let missing = List.filter (fun id -> not (List.mem id order)) ids in
    let (((d, k), e), evs) = db_merge_i d0 s.disk order pro sched in
    let d = List.fold_left (fun d op -> match op with
      | MPut (kk, v) -> let ((d, _), _) = db_put d kk v in d
      | MDel kk -> let ((d, _), _) = db_delete d kk in d) d post in
    s.db <- Some d; s.disk <- k;
    if missing <> [] && e = None then
      "err scan-order-does-not-cover-file-" ^ string_of_n (List.hd missing)
    else
    (match e with None -> "ok" | Some e -> "err " ^ eerr_name e) ^ " order " ^ order_s
    ^ " eff " ^ String.trim eff_s ^ " post " ^ String.trim post_s ^ events_str evs
  | "backup" | "backupget" ->
    let ((d, k), evs) = db_backup (get_db s) s.disk in
    (* Backup makes the destination a copy of the data directory (stale data and hint files of an
       earlier backup are removed) and removes a merge directory left beside the destination *)
    let k = { k with k_merge = None } in
    s.db <- Some d; Hashtbl.replace s.disks f.(2) k;
    if f.(1) = "backupget" then begin
      (* the keys the probing Gets asked for (observed); they read after the backup has let go of the lock *)
      let o = match obs with Some o -> obs_head o | None -> "ok keys=" in
      (match split_first o "keys=" with
       | (_, ks) when String.trim ks <> "" ->
         List.iter (fun kt ->
           let ((d, _), _) = db_get (get_db s) (tok_bytes kt) in s.db <- Some d)
           (String.split_on_char ',' (String.trim ks))
       | _ -> ());
      o
    end else
    "ok" ^ events_str ~sorted:true evs
  | "pos" ->
    (match idx_get (get_db s).d_index (tok_bytes f.(2)) with
     | None -> "none"
     | Some p -> Printf.sprintf "%s %s %s %s" (string_of_n p.p_fid) (string_of_n p.p_bid)
                   (string_of_n p.p_off) (string_of_n p.p_size))
  | "files" -> listing s
  | "flipsweep" -> "done"
  | "hintcheck" ->
    (match s.disk.k_merge with
     | Some { m_marker = Some _; m_hint = Some h; _ } ->
       let b = Buffer.create 64 in
       List.iter (fun (k, p) ->
         Buffer.add_string b (Printf.sprintf "%s %s %s %s %s;" (obs_bytes k) (string_of_n p.p_fid) (string_of_n p.p_bid)
                                (string_of_n p.p_off) (string_of_n p.p_size))) h.hf_recs;
       Printf.sprintf "%d %s" (List.length h.hf_recs) (md5hex (Buffer.contents b))
     | Some { m_marker = Some _; m_hint = None; _ } -> "nohint"
     | _ -> "none")
  | "rmdir" ->
    (* the closed data directory is deleted; a merge directory beside it stays *)
    (match s.db with
     | Some _ -> "skip"
     | None -> s.disk <- { empty_disk with k_merge = s.disk.k_merge }; "")
  | "straylock" -> ""
  | "linkdir" -> ""
  | "linkfile" -> ""
  | "zerotail" ->
    (* the tail of the newest data file zeroed from a record boundary on: the records behind the cut are gone, the
       file keeps its length and ends in bytes that are no record (the model of a torn tail) *)
    (match obs with
     | Some o when String.length o >= 2 && String.sub o 0 2 = "ok" ->
       let cut = n_of_string (List.nth (String.split_on_char ' ' (obs_head o)) 1) in
       (match List.rev s.disk.k_data with
        | (id, f) :: rest ->
          let g = lf_crash f cut in
          let g = { g with lf_size = f.lf_size; lf_phys = f.lf_phys; lf_torn = true } in
          s.disk <- { s.disk with k_data = List.rev ((id, g) :: rest) };
          obs_head o
        | [] -> obs_head o)
     | _ -> "skip")
  | "putfail" ->
    (* a Put whose write the operating system refused: it reports the error and nothing changed (the harness
       injects the fault only when no rotation precedes the write; otherwise the operation is skipped) *)
    (match obs with Some o when String.length o >= 4 && String.sub o 0 4 = "skip" -> "skip" | _ -> "err io")
  | "hostileget" ->
    (* concurrent readers of the first three live keys: for the model, reads of those keys *)
    (match s.db with
     | None -> "ok"
     | Some d ->
       let rec take n l = if n = 0 then [] else match l with [] -> [] | x :: r -> x :: take (n - 1) r in
       let d' = List.fold_left (fun d k -> let ((d1, _), _) = db_get d k in d1) d (take 3 (db_list_keys d)) in
       s.db <- Some d'; "ok")
  | "shardcount" ->
    (* the request may exceed OCaml's int: parsed as a Coq integer *)
    let a = f.(2) in
    let zv = if String.length a > 0 && a.[0] = '-'
      then (match z_of_n (n_of_string (String.sub a 1 (String.length a - 1))) with Zpos p -> Zneg p | z -> z)
      else z_of_n (n_of_string a) in
    Printf.sprintf "ok %d" (int_of_z (next_power_of_two zv))
  | "shards" -> Printf.sprintf "ok %d" (Iter_driver.next_pow2 !Iter_driver.shards)
  | op when String.length op >= 2 && String.sub op 0 2 = "it" ->
    Iter_driver.exec (fun () -> get_db s) (fun d -> s.db <- Some d) (fun () -> s.iter) (fun i -> s.iter <- i) f
  | op -> "err unknown-op-" ^ op
