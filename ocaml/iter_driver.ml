(* iter_driver.ml — iterator ops ("E it...") on the extracted Index model.  Glue only. *)
open Model
open Util

type t = dbit

(* set by the engine driver from the last "open" line: index type (1 btree, 2 skip list, 3 hash map)
   and the requested shard count *)
let kind = ref 1
let shards = ref 1

let rec nat_of_int (i : int) : nat = if i <= 0 then O else S (nat_of_int (i - 1))

(* the shard count NewShardedIndex derives from the requested one: the model's next_power_of_two *)
let next_pow2 (n : int) : int = int_of_z (next_power_of_two (z_of_int n))

(* the assignment of keys to shards: any function will do (theorem C10 holds for every one); the
   implementation uses xxhash *)
let shf (k : n list) : nat =
  nat_of_int (List.fold_left (fun a b -> (a * 31 + int_of_n b) land 0xff) 7 k)

let kind_of = function 1 -> KBTree | 2 -> KSkipList | _ -> KHashMap

let obs get_db set_db (it : dbit) : string =
  if not (di_valid it) then "v=0" else
  match di_cur it with
  | Some (k, p) ->
    let ((d, r), _) = db_read (get_db ()) p in
    set_db d;
    "v=1 k=" ^ obs_bytes k ^ " val=" ^ (match r with Inl v -> obs_bytes v | Inr _ -> "err")
  | None -> "v=1 k=?"

let exec get_db set_db get_it set_it (f : string array) : string =
  let the_it () = match get_it () with Some i -> i | None -> failwith "no iterator" in
  match f.(1) with
  | "itnew" ->
    let rev = f.(2) = "1" in
    let prefix = tok_bytes f.(3) in
    let d = get_db () in
    let n = next_pow2 !shards in
    let it = di_new (kind_of !kind) rev prefix (shards_of shf (nat_of_int n) rev d.d_index) in
    set_it (Some it); obs get_db set_db it
  | "itrewind" -> let it = di_rewind (the_it ()) in set_it (Some it); obs get_db set_db it
  | "itseek" -> let it = di_seek (the_it ()) (tok_bytes f.(2)) in set_it (Some it); obs get_db set_db it
  | "itnext" -> let it = di_next (the_it ()) in set_it (Some it); obs get_db set_db it
  | "itobs" -> obs get_db set_db (the_it ())
  | "itclose" -> set_it None; "ok"
  | op -> "err unknown-op-" ^ op
