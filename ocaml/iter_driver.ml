(* iter_driver.ml - iterator ops glue (filled in with the Index model) *)
type t = unit
let exec _ _ _ _ (_ : string array) : string = "err iter-not-built"
