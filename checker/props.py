"""Per-property wiring: which generator/runner/projection decides each property, the verdict
logic shared by all, evidence and replay files."""
import glob
import hashlib
import json
import os
import re
import shutil
import time

from . import core

VH = os.path.join(core.BUILD, "vh")
RUN = os.path.join(core.BUILD, "run")


def _rundir(pid):
    d = os.path.join(RUN, pid)
    shutil.rmtree(d, ignore_errors=True)
    os.makedirs(d)
    return d


def split_scenarios(lines):
    scen, cur = [], []
    for l in lines:
        if l.startswith("S "):
            if cur:
                scen.append(cur)
            cur = []
        cur.append(l)
    if cur:
        scen.append(cur)
    return scen


def read_lines(path):
    with open(path) as f:
        return [l.rstrip("\n") for l in f if l.strip()]


def corpus_scenarios(pid):
    out = []
    for p in sorted(glob.glob(os.path.join(core.VERIF, "corpus", pid, "*.ops"))):
        out.extend(split_scenarios(read_lines(p)))
    return out


def run_scripts(pid, rundir, scenarios, vh=VH, shards=16, verbose=False, driver=True, timeout=3000, dflags=""):
    """Execute scenarios on the implementation (vh run) and, if driver, on the model.
    Returns dict(traces=[paths], checked, mismatches=[text], oracle=[text], impl_errors)."""
    shards = max(1, min(shards, len(scenarios)))
    parts = [[] for _ in range(shards)]
    for i, s in enumerate(scenarios):
        parts[i % shards].append(s)
    cmds, traces = [], []
    for i, part in enumerate(parts):
        sp = os.path.join(rundir, "script_%02d.txt" % i)
        tp = os.path.join(rundir, "trace_%02d.txt" % i)
        with open(sp, "w") as f:
            for s in part:
                f.write("\n".join(s) + "\n")
        c = "%s run -in %s -out %s %s" % (vh, sp, tp, "-v" if verbose else "")
        if driver:
            c += " && (ulimit -s unlimited 2>/dev/null || ulimit -s 1000000; %s %s %s %s)" % (
                os.path.join(core.BUILD, "driver"), "-v" if verbose else "", dflags, tp)
        cmds.append(c)
        traces.append(tp)
    env_prefix = "export GOFLAGS=-mod=mod GOPROXY=off; "
    results = core.run_parallel([env_prefix + c for c in cmds], timeout=timeout)
    checked, mism, oracle, errors = 0, [], [], []
    for (rc, out), tp in zip(results, traces):
        races = re.findall(r"WARNING: DATA RACE\n(.*?)\n==================", out, re.S)
        m = re.search(r"CHECKED (\d+) MISMATCHES (\d+)", out)
        if m:
            checked += int(m.group(1))
        elif driver and rc in (0, 1) and not races and "err stuck" not in "".join(read_lines(tp)[-3:] if os.path.exists(tp) else []):
            errors.append(out[-2000:])
        mism.extend(re.findall(r"MISMATCH .*\n  impl : .*\n  model: .*", out))
        if os.path.exists(tp):
            for l in read_lines(tp):
                if l.startswith("X "):
                    oracle.append(l)
        for rep in races[:3]:
            frames = [l.strip() for l in rep.splitlines() if "github.com/XiXi-2024/xixi-kv" in l and "()" in l]
            where = "; ".join(dict.fromkeys(frames[:4])) or rep.splitlines()[1].strip()
            last = None
            if os.path.exists(tp):
                for l in read_lines(tp):
                    if l.startswith("# begin S "):
                        last = l.split()[3]
            oracle.append("X C09 scenario=%s data race reported by the Go race detector: %s" % (last or "?", where[:300]))
        if races and rc == 66:
            rc = 1
        if rc == 7:
            rc = 1  # the harness stopped after a stuck concurrent operation; its X line says so
        if rc not in (0, 1):
            died = re.search(r"(fatal error: [^\n]*|unexpected signal[^\n]*|SIGBUS[^\n]*|signal: [^\n]*)", out)
            last = None
            if os.path.exists(tp):
                for l in read_lines(tp):
                    if l.startswith("# begin S "):
                        last = l.split()[3]
            if died and last is not None:
                oracle.append("X %s scenario=%s the engine killed the process: %s" % (pid, last, died.group(1)))
            else:
                errors.append("rc=%d %s" % (rc, out[-2000:]))
    return {"traces": traces, "checked": checked, "mismatches": mism, "oracle": oracle, "errors": errors}


def scenario_of_mismatch(scenarios_by_id, text):
    m = re.search(r"scenario=(\S+)", text)
    if m and m.group(1) in scenarios_by_id:
        return scenarios_by_id[m.group(1)]
    return None


def gen_scripts(kind, seed, n, rundir, extra=""):
    sp = os.path.join(rundir, "gen_%s.txt" % kind)
    hp = os.path.join(rundir, "hist_%s.json" % kind)
    rc, out, _ = core.sh("%s %s -seed %d -n %d -out %s -hist %s %s" % (VH, kind, seed, n, sp, hp, extra), env=core.GOENV, timeout=600)
    if rc != 0:
        raise core.BuildError("gen-" + kind, out)
    hist = json.load(open(hp)) if os.path.exists(hp) else {}
    return split_scenarios(read_lines(sp)), hist


def nontrivial_count(scenarios, pred):
    seen = set()
    for s in scenarios:
        if pred(s):
            seen.add(hashlib.md5("\n".join(s[1:]).encode()).hexdigest())
    return len(seen)


# ---------------------------------------------------------------------------
# correspondence functions: each returns
#   dict(evaluations, distinct_nontrivial, rule, samples, hist, mismatches, oracle, errors, scen_index)
# ---------------------------------------------------------------------------

def corr_file_layer(pid, tier, seed, kinds):
    rundir = _rundir(pid)
    scen = corpus_scenarios(pid)
    hist = {}
    for kind, nq, nt in kinds:
        s, h = gen_scripts(kind, seed, nq if tier == "quick" else nt, rundir, extra="-kind %s" % tier)
        scen.extend(s)
        for k, v in h.items():
            hist[k] = hist.get(k, 0) + v
    # renumber scenarios so that mismatch messages are unambiguous
    for i, s in enumerate(scen):
        s[0] = "S %d" % i
    r = run_scripts(pid, rundir, scen)
    idx = {str(i): s for i, s in enumerate(scen)}
    nontriv = nontrivial_count(scen, lambda s: any("@" in l for l in s))
    sample = scen[len(scen) // 2] if scen else []
    return {"evaluations": len(scen), "distinct_nontrivial": nontriv,
            "rule": "scenarios generated from VERIF_SEED by harness/vh (see hist); non-trivial = contains at least one generated multi-byte value; distinct by md5 of the op lines",
            "samples": [sample[:12]], "hist": hist, "observations_compared": r["checked"],
            "mismatches": r["mismatches"], "oracle": r["oracle"], "errors": r["errors"], "scen_index": idx}


def corr_engine(pid, tier, seed, feat, nq, nt, ops=30, dflags="", oracle_props=None, io=None, extra="", offset=0):
    """Engine-layer correspondence: generated scenarios run on the real engine and on the model."""
    rundir = _rundir(pid)
    scen = corpus_scenarios(pid)
    n = nq if tier == "quick" else nt
    args = "-feat %s -ops %d %s" % (feat, ops, extra)
    if io is not None:
        args += " -io %d" % io
    s, hist = gen_scripts("enginegen", seed, n, rundir, extra=args)
    scen.extend(s)
    if "-variants" not in extra:
        for i, sc in enumerate(scen):
            sc[0] = "S %d" % (i + offset)
    r = run_scripts(pid, rundir, scen, dflags=dflags)
    idx = {sc[0].split()[1]: sc for sc in scen}
    props_ = oracle_props or [pid]
    if "-variants" in extra:
        r["oracle"].extend(cross_variant_oracle(r["traces"]))
    oracle = [o for o in r["oracle"] if o.split()[1] in props_]
    nontriv = nontrivial_count(scen, lambda sc: sum(1 for l in sc if l.startswith("E put") or l.startswith("E bput")) >= 3)
    sample = scen[len(scen) // 2] if scen else []
    return {"evaluations": len(scen), "distinct_nontrivial": nontriv,
            "rule": "engine scenarios generated from VERIF_SEED by harness/vh enginegen (features: %s; see input_distribution); non-trivial = at least three mutations; distinct by md5 of the op lines; every line is executed on the real engine (built from /repo with -tags verif) and on the extracted model and compared (%s)" % (feat, dflags or "results and I/O events"),
            "samples": [sample[:25]], "hist": hist, "observations_compared": r["checked"],
            "mismatches": r["mismatches"], "oracle": oracle, "errors": r["errors"], "scen_index": idx,
            "extra_oracle_lines_other_properties": len(r["oracle"]) - len(oracle)}


def cross_variant_oracle(traces, pid="C14"):
    """Lock-step variants "S n.a", "S n.b", ... ran the same operations under different
    configurations: their results (events, sizes, layouts aside) must be identical."""
    groups = {}
    for tp in traces:
        if not os.path.exists(tp):
            continue
        cur = None
        for l in read_lines(tp):
            if l.startswith("S "):
                cur = l.split()[1]
                groups.setdefault(cur.split(".")[0], {})[cur] = []
                continue
            if cur is None or not l.startswith("E ") or " => " not in l:
                continue
            f = l.split()
            if f[1] in ("open", "close", "stat", "files", "pos", "batch", "merge", "backup", "dir", "hintcheck"):
                continue
            res = l.split(" => ", 1)[1].split(" ;; ")[0].split(" # ")[0].strip()  # " # ..." is a remark of the harness, not a result
            groups[cur.split(".")[0]][cur].append((f[1], res))
    out = []
    for g, variants in groups.items():
        names = sorted(variants)
        for other in names[1:]:
            a, b = variants[names[0]], variants[other]
            if len(a) != len(b):
                out.append("X %s scenario=%s transcript lengths differ from variant %s: %d vs %d" % (pid, names[0], other, len(a), len(b)))
                continue
            for i, (x, y) in enumerate(zip(a, b)):
                if x != y:
                    out.append("X %s scenario=%s result %d differs between configurations (%s): %s %s vs %s" % (pid, names[0], i, other, x[0], x[1], y[1]))
                    break
    return out


def corr_crash(pid, tier, seed, feats, nq, nt, oracle_props=None):
    """Crash correspondence: short workloads, every I/O boundary a crash point, images cut
    (none / durable / byte cuts), opened by the real engine and by the model."""
    rundir = _rundir(pid)
    scen = corpus_scenarios(pid)
    hist = {}
    n = nq if tier == "quick" else nt
    for feat in feats:
        s, h = gen_scripts("crashgen", seed, max(1, n // len(feats)), rundir, extra="-feat %s" % feat)
        # gen_scripts writes gen_crashgen.txt each time: rename scenarios
        scen.extend(s)
        for k, v in h.items():
            hist[k] = hist.get(k, 0) + v
    for i, sc in enumerate(scen):
        sc[0] = "S %d" % i
    os.environ["VERIF_TIER"] = tier
    r = run_scripts(pid, rundir, scen)
    idx = {str(i): sc for i, sc in enumerate(scen)}
    props_ = oracle_props or [pid]
    oracle = [o for o in r["oracle"] if o.split()[1] in props_]
    crash_points = 0
    for tp in r["traces"]:
        if os.path.exists(tp):
            crash_points += sum(1 for l in read_lines(tp) if l.startswith("E crashat"))
    sample = scen[len(scen) // 2] if scen else []
    return {"evaluations": len(scen), "distinct_nontrivial": nontrivial_count(scen, lambda sc: any("crashscan" in l for l in sc)),
            "rule": "crash scenarios from VERIF_SEED (harness/vh crashgen: %s); every I/O event boundary after the mark is a crash point (thinned to 40 per scan in quick, 400 in thorough), each with no cut, the durable cut and byte-granular cuts of the unsynced tail; every image is opened twice by the real engine and by the model (Crash.v) and the dumps compared; non-trivial = contains a crash scan; distinct by md5" % ",".join(feats),
            "samples": [sample[:30]], "hist": hist, "observations_compared": r["checked"],
            "mismatches": r["mismatches"], "oracle": oracle, "errors": r["errors"], "scen_index": idx,
            "extra_crash_points": crash_points}


def corr_damage(pid, tier, seed):
    """C12: damaged files.  File layer: model and implementation read the same damaged bytes
    (exhaustive single-bit sweeps of small files; random flips, truncations, garbage in larger ones);
    engine level: every bit of every byte of small databases flipped, real Open / Get / Fold judged."""
    rundir = _rundir(pid)
    scen = corpus_scenarios(pid)
    hist = {}
    q = tier == "quick"
    for kind, n, extra in (("damagegen", 6 if q else 60, "-mode sweep"), ("damagegen", 40 if q else 1500, "-mode random"),
                           ("damagegen", 8 if q else 200, "-mode zerotail"),
                           ("flipgen", 16 if q else 300, "-maxflips %d" % (2500 if q else 40000))):
        s, h = gen_scripts(kind, seed, n, rundir, extra=extra)
        scen.extend(s)
        for k, v in h.items():
            hist[k] = hist.get(k, 0) + v
    for i, sc in enumerate(scen):
        sc[0] = "S %d" % i
    r = run_scripts(pid, rundir, scen, dflags="-noevents")
    idx = {str(i): sc for i, sc in enumerate(scen)}
    flips = 0
    for tp in r["traces"]:
        if os.path.exists(tp):
            for l in read_lines(tp):
                m = re.search(r"flipsweep .*# flips=(\d+) bytes=(\d+) opened=(\d+) open_errors=(\d+) get_errors=(\d+) older_value_served=(\d+)", l)
                if m:
                    flips += int(m.group(1))
                    for k, g in zip(("engine_flips", "engine_bytes", "engine_opened", "engine_open_errors", "engine_get_errors", "engine_older_value_served"), m.groups()):
                        hist[k] = hist.get(k, 0) + int(g)
    # the zero-tail scenarios go on writing after the damage: a later Get that returns another key's value shows in the
    # reference-map oracle (C01 / C02 lines)
    oracle = [o for o in r["oracle"] if o.split()[1] in ("C12", "C01", "C02")]
    sample = scen[len(scen) // 2] if scen else []
    return {"evaluations": len(scen), "distinct_nontrivial": nontrivial_count(scen, lambda sc: any(("flip" in l or "trunc" in l or "load" in l) for l in sc)),
            "rule": "file layer: harness/vh damagegen (sweep: every bit of every byte of small files; random: flips, block-start header flips, truncations, garbage and zero files on files with multi-block records), each damage followed by a scan and a read of every written position on the real reader and on the model, results compared; engine level: harness/vh flipgen + flipsweep (all bits of all bytes of the data and hint files of small databases; real Open, ListKeys, Get, Fold judged by the oracle); non-trivial = contains a damage operation; distinct by md5",
            "samples": [sample[:14]], "hist": hist, "observations_compared": r["checked"],
            "mismatches": r["mismatches"], "oracle": oracle, "errors": r["errors"], "scen_index": idx,
            "extra_engine_flips": flips}


def corr_simple(pid, tier, seed, gen, nq, nt, oracle_props, rule, dflags="-noevents", extra=""):
    rundir = _rundir(pid)
    scen = corpus_scenarios(pid)
    s, hist = gen_scripts(gen, seed, nq if tier == "quick" else nt, rundir, extra=extra)
    scen.extend(s)
    for i, sc in enumerate(scen):
        sc[0] = "S %d" % i
    r = run_scripts(pid, rundir, scen, dflags=dflags)
    idx = {str(i): sc for i, sc in enumerate(scen)}
    oracle = [o for o in r["oracle"] if o.split()[1] in oracle_props]
    sample = scen[len(scen) // 2] if scen else []
    return {"evaluations": len(scen), "distinct_nontrivial": nontrivial_count(scen, lambda sc: len(sc) > 6),
            "rule": rule + "; non-trivial = more than six operations; distinct by md5",
            "samples": [sample[:30]], "hist": hist, "observations_compared": r["checked"],
            "mismatches": r["mismatches"], "oracle": oracle, "errors": r["errors"], "scen_index": idx}


def corr_race(pid, tier, seed):
    """C09: every kind of call at once, under the Go race detector (vh-race), plus the C08 scenarios."""
    core.build_vh_race()
    rundir = _rundir(pid)
    scen = corpus_scenarios(pid)
    q = tier == "quick"
    hist = {}
    s, h = gen_scripts("concgen", seed, 24 if q else 600, rundir, extra="-mix")
    scen.extend(s)
    hist.update(h)
    s2, h2 = gen_scripts("concgen", seed + 1, 16 if q else 400, rundir, extra="-stress 2")
    scen.extend(s2)
    for k, v in h2.items():
        hist[k] = hist.get(k, 0) + v
    for i, sc in enumerate(scen):
        sc[0] = "S %d" % i
    r = run_scripts(pid, rundir, scen, vh=os.path.join(core.BUILD, "vh-race"), dflags="-noevents")
    idx = {str(i): sc for i, sc in enumerate(scen)}
    oracle = [o for o in r["oracle"] if o.split()[1] in ("C09", "C08")]
    calls = 0
    for tp in r["traces"]:
        if os.path.exists(tp):
            for l in read_lines(tp):
                m = re.search(r"conc(?:mix|stress) .*# calls=(\d+)", l)
                if m:
                    calls += int(m.group(1))
    hist["concurrent_calls_under_race_detector"] = calls
    sample = scen[len(scen) // 2] if scen else []
    return {"evaluations": len(scen), "distinct_nontrivial": nontrivial_count(scen, lambda sc: any("conc" in l for l in sc)),
            "rule": "harness/vh concgen -mix (2-16 goroutines issuing a random mix of Put, Get, Delete, ListKeys, Fold, iterator walks in both directions, Stat, Sync, batches (Sync and not) and Merge on six keys, every index type and shard count, file limits of 700 B - 40 KiB forcing rotations) and the C08 scenarios, all executed by a binary built with the Go race detector; findings: race reports, recovered panics, runtime fatal errors, a watchdog for stuck clients, errors returned by individually valid calls, unordered or duplicated ListKeys / Fold / iterator output, live mapping != mapping after restart; non-trivial = contains a concurrent operation; distinct by md5",
            "samples": [sample[:20]], "hist": hist, "observations_compared": r["checked"],
            "mismatches": r["mismatches"], "oracle": oracle, "errors": r["errors"], "scen_index": idx}


def corr_iter(pid, tier, seed):
    rundir = _rundir(pid)
    scen = corpus_scenarios(pid)
    s, hist = gen_scripts("itergen", seed, 150 if tier == "quick" else 6000, rundir)
    scen.extend(s)
    for i, sc in enumerate(scen):
        sc[0] = "S %d" % i
    r = run_scripts(pid, rundir, scen, dflags="-noevents")
    idx = {str(i): sc for i, sc in enumerate(scen)}
    oracle = [o for o in r["oracle"] if o.split()[1] in ("C10", "C01", "C14", "C09")]
    sample = scen[len(scen) // 2] if scen else []
    return {"evaluations": len(scen), "distinct_nontrivial": nontrivial_count(scen, lambda sc: sum(1 for l in sc if l.startswith("E itseek") or l.startswith("E itnext")) >= 3),
            "rule": "harness/vh itergen: key sets of 0-40 keys over a three-letter alphabet, all index types and shard counts (drawn with the configuration), both directions, prefixes of length 0-3, legal call sequences (the generator simulates the cursor: every Seek target at or ahead of it), writes interleaved after creation, several iterators per scenario, ListKeys and Fold; (Valid, Key, Value) after every call compared between the real engine, the model and the reference iterator of the oracle; non-trivial = at least three Seek/Next calls; distinct by md5",
            "samples": [sample[:30]], "hist": hist, "observations_compared": r["checked"],
            "mismatches": r["mismatches"], "oracle": oracle, "errors": r["errors"], "scen_index": idx}


def corr_merge_results(a, b):
    """Two correspondence runs of one property: add up the counts, concatenate the findings."""
    out = dict(a)
    for k in ("evaluations", "distinct_nontrivial", "observations_compared"):
        out[k] = a.get(k, 0) + b.get(k, 0)
    for k in ("mismatches", "oracle", "errors"):
        out[k] = list(a.get(k, [])) + list(b.get(k, []))
    out["rule"] = a["rule"] + " || second part: " + b["rule"]
    out["samples"] = a.get("samples", []) + b.get("samples", [])
    h = dict(a.get("hist", {}))
    for k, v in b.get("hist", {}).items():
        h[k] = h.get(k, 0) + v
    out["hist"] = h
    idx = dict(a.get("scen_index", {}))
    for k, v in b.get("scen_index", {}).items():
        idx[k if k not in idx else "it" + k] = v
    out["scen_index"] = idx
    return out


NOEV = "-noevents -skip files,stat,pos"

REGISTRY = {
    "C01": {
        "corr": lambda tier, seed: corr_merge_results(
            corr_engine("C01", tier, seed, "batches,merges,bigvals,backups,hostilesome", 120, 3000, ops=40,
                        dflags=NOEV, oracle_props=["C01", "C10"]),
            # "at every moment": a few stepped schedules of concurrent writers and readers of one key, judged against the map
            corr_simple("C01", tier, seed + 17, "concgen", 24, 400, ["C01", "C08"],
                        "harness/vh concgen (as in the C08 check): stepped schedules of 2-4 clients on overlapping keys, parked writers, free-running stress with a restart comparison")),
        "assumptions": ["theorems are about the record-level engine model (coq/model/Engine.v, Script.v); its tie to db.go/batch.go/merge.go is the differential run of this check",
                        "index type and shard count are abstracted to one ordered map (C10/C14 treat the sharded index)",
                        "file-system calls do not fail"],
    },
    "C02": {
        "corr": lambda tier, seed: corr_engine("C02", tier, seed, "restarts,batches,merges,bigvals", 120, 3000, ops=25,
                                               dflags=NOEV, oracle_props=["C02", "C06"]),
        "assumptions": ["theorems are about the record-level engine model; the byte-level reader/writer round trip they rest on is C11",
                        "C02_restart_preserves_mapping_with_merges / C02_restart_from_any_reachable_state cover histories with merges (finished, abandoned, adopted) through the invariant G of C06; C02_close_open and C02_open_replays_log describe the merge-free mechanism",
                        "batch ids non-zero (snowflake ids are positive); file-system calls do not fail"],
    },
    "C06": {
        "corr": lambda tier, seed: corr_merge_results(
            corr_engine("C06", tier, seed, "mergeheavy,racingmerge,batches,bigvals", 120, 3000, ops=30,
                        dflags="-noevents -skip stat,pos", oracle_props=["C06", "C02", "C01", "C05", "C07"]),
            # "not after the restart that adopts the merged files, and not after any later restart" - also when the adopting
            # restart is interrupted and run again: crash scans of Merge and of the adopting Open
            corr_crash("C06", tier, seed + 23, ["merge"], 16, 400, oracle_props=["C07", "C06", "C03"])),
        "assumptions": ["the order in which Merge scans its input files is an input of the model, observed from the implementation (hook H5); the theorems need it to cover every data file, which the driver checks for every observed order (Go ranges over the map of all older files)",
                        "merges run between operations (Merge holds the engine lock while it scans: C09); interleavings with concurrent writers are not part of this model",
                        "file listings (ids, logical sizes, merge directory presence) after every merge, close and open are compared between model and implementation; batch ids non-zero; file-system calls do not fail"],
    },
    "C18": {
        "corr": lambda tier, seed: corr_merge_results(
            corr_engine("C18", tier, seed, "mergeheavy,racingmerge,batches,bigvals", 100, 2500, ops=30,
                        dflags="-noevents -skip stat", oracle_props=["C18", "C06", "C02", "C01"]),
            corr_crash("C18", tier, seed + 9, ["merge"], 20, 400, oracle_props=["C18", "C07", "C03"])),
        "assumptions": ["after every successful merge the harness decodes the hint file and the rewritten files with the package's own readers and compares them entry by entry (implementation-side oracle), and the digest of the hint entries with the model's hint file; positions and sizes of all keys are compared with the model after the adopting Open (hint path) and after the next Open (scan path)",
                        "hint records are framed and CRC-protected like data records (C11); the varint encoding of a hint record is compared through the byte counts of the hint-file writes and the decoded entries"],
    },
    "C19": {
        "corr": lambda tier, seed: corr_simple("C19", tier, seed, "dtgen", 400, 12000, ["C19", "C02", "C06", "C01"],
                                               "harness/vh dtgen (commands of all five types on 1-5 keys incl. the empty key, members/fields of 0-3 bytes, values incl. varint-hostile byte runs, strings with ttl 0 / already expired / one hour, deletions and re-creations with another type, wrong-type attempts, restarts with an independently drawn configuration, merges, full dumps of the store) plus corpus/C19; every command runs through datatype.DataTypeService on the real engine and through DataTypeRun.run_cmd on the engine model; reply, the key's stored record (byte for byte) and all I/O events compared; the abstract-type reference (Go, harness/vh/dtops.go) checks every reply of the implementation",
                                               dflags=""),
        "assumptions": ["clock readings (time.Now of a command, the version a created key gets, a string's absolute expiry) and the snowflake batch id are inputs of the model, observed from the implementation (version and expiry from the key's stored record, batch id through hook H7)",
                        "ttl classes: none, already expired when the next command runs (1 ns, -1 h), and not expiring during the run (1 h); the moment of expiry itself is not sampled",
                        "scores are canonical decimal strings (what strconv.FormatFloat(f,'f',-1,64) prints); -0 and NaN are not generated",
                        "an empty value and no value are one observation (the engine returns nil for both)",
                        "commands of another type on a key holding an expired string are not judged by the reference (the layer replies WRONGTYPE; see DESIGN.md)",
                        "the refinement theorems assume distinct versions for distinct incarnations of a key and that no user key equals an internal element key (both rest on nanosecond clock readings); the sorted-set collision D22, which needs neither, is a known finding"],
    },
    "C07": {
        "corr": lambda tier, seed: corr_merge_results(
            corr_crash("C07", tier, seed, ["merge"], 60, 1200, oracle_props=["C07", "C03", "C04"]),
            corr_engine("C07", tier, seed + 11, "mergeheavy,racingmerge,batches", 30, 800, ops=25,
                        dflags="-noevents -skip stat,pos", oracle_props=["C07", "C06", "C02"], offset=100000)),
        "assumptions": ["crash model: the process dies between two file-system calls (write, rename, remove, remove-all, create, truncate, sync); each call is atomic; nothing already written is lost",
                        "the theorems describe the directory states an interrupted Merge / adoption can leave (marker absent: anything in the merge directory; marker present: rewritten files j..n-1 still to move, hint moved or not); that the event-level crash images of the model (Crash.v) and of the real engine at every single event are such states is established by running both on every image (this run), not by a theorem",
                        "every image is opened twice by the real engine (second Open = retry after recovery / second adoption attempt) and by the model; a crash during the retry is covered by the theorem's quantification over all states of the family"],
    },
    "C20": {
        "corr": lambda tier, seed: corr_engine("C20", tier, seed, "backups,backupcycle,restarts,batches,merges,bigvals", 120, 3000, ops=35,
                                               dflags="-noevents -skip stat,pos", oracle_props=["C20", "C02", "C01", "C06"]),
        "assumptions": ["the theorems are about Backup into a fresh directory; refreshing an existing backup directory (files overwritten, others kept) is driver glue compared with the implementation and judged by the reference oracle only",
                        "CopyDir copies the bytes the files have at that moment (their physical size: C20_physical_size_invariant says it is the logical size under standard I/O; under MMap Backup cuts the files back first)",
                        "the directory lock is not part of the engine model (C16); the generated scenarios open every copy (while the source directory exists) under an independently chosen configuration and write to it",
                        "file-system calls do not fail"],
    },
    "C08": {
        "corr": lambda tier, seed: corr_simple("C08", tier, seed, "concgen", 60, 1500, ["C08", "C09", "C01", "C02", "C07"],
                                               "harness/vh concgen: (a) stepped schedules - 2 to 4 clients (real goroutines) on overlapping keys, every interleaving position drawn at random, Get split at the schedule point between index lookup and file read (hook H6), results of every completed call compared with the Conc model run on the same schedule and with a reference fixed at each call's linearization point; (b) a writer parked inside its critical section (hooks put.appended / delete.checked / delete.appended) while a second client calls Put / Delete / Get: a writer must stay blocked; (c) free-running stress of 2-8 goroutines (every fourth scenario, half of them with a concurrent Merge): call/return order and results checked for per-key linearizability, live mapping = final reads = mapping after a restart"),
        "assumptions": ["the decomposition of calls into atomic actions (Put and Delete: one critical section of the engine lock containing append and index update; Get: index lookup, then file read) is extracted from db.go by translator T2 and checked by a theorem on every run; sync.RWMutex, the shard locks and the Go memory model are trusted",
                        "ListKeys, Fold, iterators, batches and Merge running concurrently are exercised by the stress part (and Merge with racing writers by C06's mergei scenarios), not covered by the linearizability theorem"],
    },
    "C09": {
        "corr": lambda tier, seed: corr_race("C09", tier, seed),
        "assumptions": ["freedom from panics and from races below the lockset abstraction is a property of the running program: it is searched for with the Go race detector, recover, a watchdog and error classification on generated concurrent mixes; the theorems cover the lock protocol: lock ordering (no deadlock) and the lockset discipline over the access table extracted from the source on every run (translator T2c: gen/GenAccess.v; its path enumeration, object provenance and the DB.isMerging token are trusted)",
                        "the race detector sees the accesses that actually happen in a run; accesses through the memory-mapped region are invisible to it"],
    },
    "C10": {
        "corr": lambda tier, seed: corr_iter("C10", tier, seed),
        "assumptions": ["container/heap is abstracted by its contract (items[0] is a minimum of the live cursors after Init/Push/Pop), google/btree, huandu/skiplist and the sorted slice of the hash-map iterator by their ordered-set contracts",
                        "the assignment of keys to shards is an arbitrary function in the theorem (xxhash in the implementation, another function in the driver: the observables do not depend on it)",
                        "every Seek target lies at or ahead of the cursor in iteration order, as the property requires; backward seeks are not generated"],
    },
    "C15": {
        "corr": lambda tier, seed: corr_engine("C15", tier, seed, "hostile,restarts,batches,merges,bigvals", 120, 3000, ops=35,
                                               dflags=NOEV, oracle_props=["C15", "C01", "C05", "C02"]),
        "assumptions": ["the theorems are about the copy-at-the-boundary discipline on an explicit heap (model/RefHeap.v): an engine that stores copies and returns copies is immune to a hostile caller; whether the Go code follows the discipline cannot be proved without a semantics of Go slices and is decided by execution: every generated scenario is run by a hostile caller (one key buffer and one value buffer reused for every Put / Delete / Get / Batch.Put / Batch.Delete / Batch.Get and overwritten after each return, every returned value overwritten by the caller and watched for later modification) against the value-semantic engine model, for all index types",
                        "file-system calls do not fail"],
    },
    "C16": {
        "corr": lambda tier, seed: corr_simple("C16", tier, seed, "lockgen", 12, 300, ["C16", "C02", "C01"],
                                               "harness/vh lockgen: second Opens of an open directory from the same process and from child processes (different configurations), Opens made to fail by a corrupt data file followed by a regular Open, races of 2-5 child processes on fresh and used directories (an owner-marker file detects two simultaneous holders), byte-level snapshot of the directory before and after every rejected Open; results compared with the lock-table model"),
        "assumptions": ["flock(2) through gofrs/flock: an exclusive advisory lock per open file description, released when the descriptor is closed or the process dies (OS contract)",
                        "the lock-table model abstracts Open to: lock attempt, initialisation that may fail, Close; that every exit path of the real Open releases or keeps the lock accordingly is checked on the paths extracted from the source by translator T3 (gen/GenOpenPaths.v) by a theorem evaluated on every run",
                        "interleavings of processes are exercised by the race scenarios, not enumerated"],
    },
    "C12": {
        "corr": lambda tier, seed: corr_damage("C12", tier, seed),
        "assumptions": ["theorems: no panic and termination of all readers on arbitrary bytes; every accepted chunk carries the checksum of its own bytes; every accepted record is exactly its bytes; a damaged checksum field is always detected; a damaged type/payload byte is detected for every checksum function that separates strings differing in one byte (true of CRC-32, assumed); a damaged length field re-delimits the chunk and is covered by the exhaustive sweeps only",
                        "oracle at engine level: after any single-bit flip a Get may fail, or may return an OLDER value of the key (a damaged last record is indistinguishable from a torn tail and is dropped: counted in the evidence as older_value_served), but never bytes that were not written for that key, never a key that was not written, never a panic",
                        "the engine-level sweep has no model counterpart (the engine model is record level); the byte-level reader model is compared with the real reader on every damaged file of the file-layer part"],
    },
    "C13": {
        "corr": lambda tier, seed: corr_merge_results(
            corr_engine("C13", tier, seed, "restarts,batches,merges,bigvals", 160, 4000, ops=30,
                        dflags="", oracle_props=["C13"]),
            corr_simple("C13", tier, seed + 5, "concgen", 12, 300, ["C13"],
                        "second part: free-running writers (2-8 goroutines, some with a concurrent Merge) under SyncStrategy Always; the file hook numbers the writes, a flush announced on a file covers the writes announced before it, and every Put / Delete that returns must find its own write covered",
                        extra="-stress 1 -always")),
        "assumptions": ["a Sync event (fsync / msync) makes the bytes written so far durable: the OS contract, not modelled further",
                        "the I/O event sequence of every call (kind, file, byte count, order) is compared between the real engine (hook H1/H2) and the model; the oracle recomputes written/synced bytes per file from the real events",
                        "C13_sync_invariant_every_step covers merge-free histories, C13_sync_invariant_with_merges / C13_step_with_merges histories with merges, adopting restarts and later restarts (invariant SyncG: the files of a finished merge waiting in the side directory are closed and flushed)"],
    },
    "C14": {
        "corr": lambda tier, seed: corr_merge_results(
            corr_engine("C14", tier, seed, "restarts,batches,merges,bigvals,hostilesome", 60, 1500, ops=25,
                        dflags=NOEV, oracle_props=["C14", "C09", "C15", "C01"], extra="-variants 3"),
            corr_merge_results(corr_iter("C14", tier, seed),
                               # recovery after the process died must not depend on the I/O type either (a memory-mapped
                               # file keeps its pre-allocated size): crash scenarios under both back-ends, file limits
                               # above the pre-allocation included
                               corr_crash("C14", tier, seed + 5, ["plain"], 14, 300, oracle_props=["C03", "C14"]))),
        "assumptions": ["the engine model has no index type / shard count parameter: every real configuration is compared with the same model run, and the lock-step variants with each other",
                        "byte-identical file layout across sync strategy / I/O type is not proved; layouts are compared with the model (positions, file sizes) in the C17/C11 checks"],
    },
    "C17": {
        "corr": lambda tier, seed: corr_merge_results(
            corr_engine("C17", tier, seed, "restarts,batches,merges,bigvals", 120, 3000, ops=30,
                        dflags="-noevents", oracle_props=["C17"]),
            corr_crash("C17", tier, seed + 3, ["batch"], 16, 400, oracle_props=["C17"])),
        "assumptions": ["the size equation is proved for merge-free histories with restarts and for histories with merges without restart; the adopting restart (hint path) and the file-size limit are covered by the correspondence run (Stat, positions and file sizes compared with the model at every step) and the oracle",
                        "oracle on the implementation: Stat.KeyNum = live keys, 0 <= Reclaimable <= DiskSize, DiskSize - Reclaimable = sum of the sizes of the live positions, DataFileNum = open files"],
    },
    "C03": {
        "corr": lambda tier, seed: corr_crash("C03", tier, seed, ["plain", "batch", "merge"], 75, 1500, oracle_props=["C03", "C04", "C07"]),
        "assumptions": ["crash model: the process dies between two I/O calls; a power failure additionally cuts any not-yet-synced tail at any byte; the surviving prefix is intact; directory operations are atomic and durable",
                        "theorems cover crash images of operation-boundary states with arbitrary cuts (merge-free histories); images at the I/O events inside an operation are compared between model and real engine by this run",
                        "memory-mapped files: only process crashes are compared (a power-failure cut inside a mapped file leaves a partial record followed by zeros, which Open rejects with a CRC error: known limitation recorded in DESIGN.md)"],
    },
    "C04": {
        "corr": lambda tier, seed: corr_merge_results(
            corr_crash("C04", tier, seed, ["batch"], 50, 1000, oracle_props=["C04", "C03"]),
            corr_engine("C04", tier, seed + 7, "mergeheavy,batches,bigvals", 40, 1000, ops=30,
                        dflags="-noevents -skip stat,pos", oracle_props=["C04", "C02", "C06", "C05"], offset=100000)),
        "assumptions": ["second part of the run: committed batches (also spanning several files) followed by merges, the adopting restart and further restarts - a committed batch stays applied as a whole through every one of them (mapping compared with the reference map and the model after every restart)",
                        "as C03; batch ids are the snowflake ids observed from the implementation (an input of the model); distinctness of the ids of a crashed (unsealed) batch and of later batches is assumed"],
    },
    "C05": {
        "corr": lambda tier, seed: corr_engine("C05", tier, seed, "batches,restarts,bigvals,hostilesome,collide", 120, 3000, ops=30,
                                               dflags=NOEV, oracle_props=["C05"]),
        "assumptions": ["theorems are about the record-level engine model; the hash index of the staging area is abstracted to a key lookup (any hash function gives the same result)",
                        "a double Commit is a rejected call in the model; the absence of a double unlock is observed by the correspondence run only"],
    },
    "C11": {
        "corr": lambda tier, seed: corr_file_layer("C11", tier, seed, [("filegen", 160, 4000)]),
        "design_ref": "DESIGN.md section 4 C11",
        "assumptions": ["crc is an arbitrary function in every theorem (Section variable); CRC-32 itself is exercised only by the correspondence run",
                        "record and chunk lengths below 2^32 (Go uint32 conversions do not wrap)"],
    },
}


# ---------------------------------------------------------------------------
# generic run / verdict
# ---------------------------------------------------------------------------

def run_property(pid, spec, tier, seed, build_fail, build_log):
    res = {"build_fail": None, "proof": None, "corr": None}
    if build_fail is not None:
        res["build_fail"] = {"stage": build_fail.stage, "log": build_fail.log[-4000:]}
    res["grep"] = core.grep_gate()
    res["proof"] = core.proof_gate(pid)
    if tier == "thorough" and res["proof"].get("ok"):
        res["coqchk"] = core.coqchk_gate(pid)
    if build_fail is None or build_fail.stage not in ("go-build", "ocaml-build", "extract"):
        try:
            res["corr"] = spec["corr"](tier, seed)
        except core.BuildError as e:
            res["corr_error"] = {"stage": e.stage, "log": e.log[-4000:]}
    if res["corr"] is None and build_fail is not None and build_fail.stage != "go-build":
        # the model could not be built: still search the implementation with the oracle alone
        try:
            res["corr"] = spec["corr"](tier, seed)
        except Exception as e:  # noqa
            res["corr_error"] = {"stage": "corr", "log": str(e)}
    return res


def conclude(pid, spec, tier, seed, res):
    proof = res["proof"] or {}
    corr = res["corr"] or {}
    kf = core.load_known_findings()
    findings = [f for f in kf.get("findings", []) if f.get("property") == pid]
    problems = []
    if res.get("build_fail"):
        problems.append("build failed at stage %s" % res["build_fail"]["stage"])
    if res.get("grep"):
        problems.append("grep gate: %s" % res["grep"][:5])
    if not proof.get("ok"):
        problems.append("proof gate: props/%s.v does not check" % pid)
    if res.get("coqchk") is not None and not res["coqchk"].get("ok"):
        problems.append("coqchk does not accept props/%s.vo: %s" % (pid, res["coqchk"].get("summary", "")[-600:]))
    if res.get("corr_error"):
        problems.append("correspondence could not run: %s" % res["corr_error"]["stage"])
    if corr.get("errors"):
        problems.append("harness errors: %s" % corr["errors"][:2])
    mism = corr.get("mismatches", [])
    oracle = corr.get("oracle", [])
    # known findings: oracle lines matching a listed finding are reported, not alarmed
    known_lines, new_oracle = [], []
    for o in oracle:
        hit = None
        for f in findings:
            if re.search(f["match"], o):
                hit = f
                break
        if hit:
            known_lines.append((hit, o))
        else:
            new_oracle.append(o)
    for f in findings:
        hits = [o for (g, o) in known_lines if g is f]
        if hits or f.get("always_report"):
            print("KNOWN-FINDING: property=%s %s" % (pid, f["what"]))
    violations = 0
    replay_path = None
    tail = ""
    if new_oracle:
        violations = len(new_oracle)
        scen = None
        m = re.search(r"scenario=(\S+)", new_oracle[0])
        if m:
            scen = corr.get("scen_index", {}).get(m.group(1))
        replay_path = core.write_replay(pid, {"property": pid, "tier": tier, "seed": seed,
                                              "kind": "implementation-violates-property",
                                              "oracle": new_oracle[:20], "script": scen,
                                              "problems": problems})
    elif mism or problems:
        violations = max(1, len(mism))
        scen = None
        if mism:
            m = re.search(r"scenario=(\S+)", mism[0])
            if m:
                scen = corr.get("scen_index", {}).get(m.group(1))
        what = []
        if not proof.get("ok"):
            what.append("theorems of props/%s.v (%s)" % (pid, proof.get("failed_statement") or ", ".join(proof.get("theorems", [])) or "not compiled"))
        if mism:
            what.append("model/implementation correspondence")
        replay_path = core.write_replay(pid, {"property": pid, "tier": tier, "seed": seed,
                                              "kind": "no-failing-input-found",
                                              "no_longer_checks": what, "problems": problems,
                                              "first_mismatches": mism[:10], "script": scen,
                                              "proof_log_tail": (proof.get("log") or "")[-3000:],
                                              "build": res.get("build_fail")})
        tail = " no-failing-input-found"
    wall = res.get("wall", 0.0)
    cov = {
        "obligations": proof.get("obligations", 0),
        "discharged": proof.get("obligations", 0) if proof.get("ok") else 0,
        "checker_cmd": "coq_makefile -f coq/_CoqProject && make (full .vo build, Coq 8.16.1); coqc props/%s.v; Print Assumptions under every theorem%s" % (pid, "; coqchk -silent -o KV.%s" % pid if tier == "thorough" else ""),
        "trusted_base": core.TRUSTED_BASE,
        "theorems": proof.get("theorems", []),
        "print_assumptions": proof.get("assumptions", []) or ["Closed under the global context"],
        "proof_files": proof.get("files", []),
        "coqchk": (res.get("coqchk") or {}).get("fields", "not run (thorough tier only)"),
        "evaluations": corr.get("evaluations", 0),
        "distinct_nontrivial": corr.get("distinct_nontrivial", 0),
        "rule": corr.get("rule", ""),
        "samples": corr.get("samples", []),
        "observations_compared_with_model": corr.get("observations_compared", 0),
        "input_distribution": corr.get("hist", {}),
        "model_impl_mismatches": len(mism),
        "oracle_failures": len(oracle),
        "known_findings_seen": len(known_lines),
    }
    for k, v in corr.items():
        if k.startswith("extra_"):
            cov[k[6:]] = v
    core.write_evidence(pid, tier, seed, "proof", cov, spec.get("assumptions", []), wall, violations)
    if violations:
        for p in problems:
            print("problem:", p)
        for m in mism[:3]:
            print(m)
        for o in new_oracle[:3]:
            print(o)
        print("VIOLATION property=%s replay=%s%s" % (pid, replay_path, tail))
        return 1
    print("OK property=%s tier=%s theorems=%d obligations=%d scenarios=%d observations=%d wall=%.1fs" % (
        pid, tier, len(proof.get("theorems", [])), proof.get("obligations", 0),
        corr.get("evaluations", 0), corr.get("observations_compared", 0), wall))
    return 0


def replay(payload):
    pid = payload.get("property", "C00")
    scen = payload.get("script")
    if not scen:
        print("replay file has no script; it names what no longer checks:", payload.get("no_longer_checks"))
        spec = REGISTRY.get(pid)
        return 1
    rundir = _rundir("replay")
    r = run_scripts(pid, rundir, [scen], shards=1, verbose=True)
    for tp in r["traces"]:
        print(open(tp).read())
    for m in r["mismatches"]:
        print(m)
    for o in r["oracle"]:
        print(o)
    bad = bool(r["mismatches"] or r["oracle"] or r["errors"])
    print("REPLAY %s" % ("reproduces" if bad else "passes"))
    return 1 if bad else 0
