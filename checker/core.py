"""Orchestrator core for /verif checks: build steps, proof gate, correspondence gate,
verdict, evidence.  Python stdlib only."""
import glob
import hashlib
import json
import os
import re
import subprocess
import tempfile
import sys
import time

VERIF = os.path.dirname(os.path.dirname(os.path.abspath(__file__)))
REPO = os.environ.get("VERIF_REPO", "/repo")
BUILD = os.path.join(VERIF, "build")
COQ = os.path.join(VERIF, "coq")
GOENV = dict(os.environ, GOFLAGS="-mod=mod", GOPROXY="off", GOSUMDB="off", GOTOOLCHAIN="local",
             CGO_ENABLED=os.environ.get("CGO_ENABLED", "1"))

TRUSTED_BASE = [
    "Coq 8.16.1 kernel (coqc, full .vo build; vm_compute used for finite tables and refuted witnesses; no native_compute)",
    "no axioms declared by the development; Print Assumptions output of each property theorem recorded in this file",
    "extraction: ExtrOcamlBasic only (bool/option/list/prod/unit/sumbool), N/positive/nat kept as Coq inductives; OCaml 4.13.1 ocamlfind ocamlopt",
    "hand-written OCaml driver (parsing, printing, int<->N, native CRC-32 cross-checked against the Gallina crc32 at start-up)",
    "Go correspondence harness (generators, runner, verif-tagged hooks in /repo) and this orchestrator",
    "translators T1 (constants), T2 (lock/append/index sequence of Put and Delete), T2b (lock-event paths of every exported call), T2c (lockset table: every field access of DB/Batch/DataFile/MMap and every index-shard use on every path, with the locks held), T3 (exit paths of Open and Close) regenerate coq/gen/*.v from the Go source on every run",
    "modelled, not verified: Go runtime, sync.RWMutex, os/file-system semantics (durability model: a synced prefix survives, metadata operations atomic and durable), flock(2), mmap(2), third-party containers (google/btree, huandu/skiplist, container/heap), xxhash, snowflake ids, CRC-32 collision freedom",
]


def sh(cmd, cwd=None, env=None, timeout=None, check=False, capture=True):
    t0 = time.time()
    p = subprocess.run(cmd, shell=isinstance(cmd, str), cwd=cwd, env=env, timeout=timeout,
                       stdout=subprocess.PIPE if capture else None,
                       stderr=subprocess.STDOUT if capture else None, text=True)
    if check and p.returncode != 0:
        raise RuntimeError("command failed (%d): %s\n%s" % (p.returncode, cmd, (p.stdout or "")[-4000:]))
    return p.returncode, p.stdout or "", time.time() - t0


class BuildError(Exception):
    def __init__(self, stage, log):
        super().__init__(stage)
        self.stage = stage
        self.log = log


def coq_files():
    with open(os.path.join(COQ, "_CoqProject")) as f:
        return [l.strip() for l in f if l.strip().endswith(".v")]


def build_vh():
    """Rebuild the Go harness from /repo's current working tree with the verif tag."""
    os.makedirs(BUILD, exist_ok=True)
    hdir = os.path.join(VERIF, "harness")
    gosum = os.path.join(REPO, "go.sum")
    rc, out, _ = sh("go build -tags verif -o %s ./cmd/vh" % os.path.join(BUILD, "vh"), cwd=hdir, env=GOENV, timeout=600)
    if rc != 0:
        raise BuildError("go-build", out)
    return out


def build_vh_race():
    hdir = os.path.join(VERIF, "harness")
    rc, out, _ = sh("go build -race -tags verif -o %s ./cmd/vh" % os.path.join(BUILD, "vh-race"), cwd=hdir, env=GOENV, timeout=900)
    if rc != 0:
        raise BuildError("go-build-race", out)
    return out


def translate():
    rc, out, _ = sh([os.path.join(BUILD, "vh"), "translate", "-repo", REPO, "-out", os.path.join(COQ, "gen")],
                    env=GOENV, timeout=300)
    if rc != 0:
        raise BuildError("translate", out)


def coq_make(targets=None, clean=False):
    """Full .vo build (never -vos/-vok).  Returns (ok, log)."""
    if clean:
        sh("rm -f Makefile Makefile.conf .Makefile.d; find . -name '*.vo' -o -name '*.vok' -o -name '*.vos' -o -name '*.glob' -o -name '.*.aux' | xargs rm -f", cwd=COQ)
    if not os.path.exists(os.path.join(COQ, "Makefile")) or \
            os.path.getmtime(os.path.join(COQ, "Makefile")) < os.path.getmtime(os.path.join(COQ, "_CoqProject")):
        rc, out, _ = sh("coq_makefile -f _CoqProject -o Makefile", cwd=COQ, timeout=120)
        if rc != 0:
            return False, out
    tgt = " ".join(targets) if targets else ""
    rc, out, _ = sh("timeout 3000 make -j16 %s" % tgt, cwd=COQ, timeout=3100)
    return rc == 0, out


def coq_make_keep_going():
    """make -k: a broken proof must not stop the model (and the other properties) from building."""
    if not os.path.exists(os.path.join(COQ, "Makefile")) or \
            os.path.getmtime(os.path.join(COQ, "Makefile")) < os.path.getmtime(os.path.join(COQ, "_CoqProject")):
        rc, out, _ = sh("coq_makefile -f _CoqProject -o Makefile", cwd=COQ, timeout=120)
        if rc != 0:
            return False, out
    rc, out, _ = sh("timeout 3000 make -k -j16", cwd=COQ, timeout=3100)
    return rc == 0, out


def build_driver():
    """Extract (done by coq_make through extract/Extract.v) and compile the OCaml driver."""
    obuild = os.path.join(BUILD, "ocaml")
    os.makedirs(obuild, exist_ok=True)
    srcs = [os.path.join(COQ, "model.ml"), os.path.join(COQ, "model.mli")] + \
        sorted(glob.glob(os.path.join(VERIF, "ocaml", "*.ml")))
    stamp = hashlib.md5()
    for s in srcs:
        if not os.path.exists(s):
            raise BuildError("extract", "missing " + s)
        stamp.update(open(s, "rb").read())
    stamp_file = os.path.join(obuild, "stamp")
    drv = os.path.join(BUILD, "driver")
    if os.path.exists(drv) and os.path.exists(stamp_file) and open(stamp_file).read() == stamp.hexdigest():
        return
    for s in srcs:
        sh(["cp", s, obuild])
    order = ["model.mli", "model.ml", "util.ml", "iter_driver.ml", "engine_driver.ml", "driver.ml"]
    rc, out, _ = sh("ocamlfind ocamlopt -O3 -w -a %s -o %s" % (" ".join(order), drv), cwd=obuild, timeout=600)
    if rc != 0:
        raise BuildError("ocaml-build", out)
    open(stamp_file, "w").write(stamp.hexdigest())


GREP_BAD = re.compile(r"\b(Admitted|admit|Axiom|Axioms|Parameter|Parameters|Conjecture|Conjectures|Abort All)\b|Unset Guard|bypass_check|type-in-type|impredicative-set|Admit Obligations|Unset Universe Checking|Unset Positivity")


def strip_coq_comments(src):
    out, depth, i = [], 0, 0
    while i < len(src):
        if src.startswith("(*", i):
            depth += 1
            i += 2
        elif src.startswith("*)", i) and depth > 0:
            depth -= 1
            i += 2
        else:
            if depth == 0:
                out.append(src[i])
            i += 1
    return "".join(out)


def grep_gate():
    """No Admitted/admit/Axiom/Parameter/... anywhere in the development (comments excluded),
    no Variable/Hypothesis outside a Section."""
    bad = []
    for f in coq_files():
        src = strip_coq_comments(open(os.path.join(COQ, f)).read())
        for m in GREP_BAD.finditer(src):
            bad.append("%s: %s" % (f, m.group(0)))
        depth = 0
        for line in src.splitlines():
            s = line.strip()
            if re.match(r"Section\s+\w+", s):
                depth += 1
            elif re.match(r"End\s+\w+", s) and depth > 0:
                depth -= 1
            elif depth == 0 and re.match(r"(Variable|Variables|Hypothesis|Hypotheses|Context)\b", s):
                bad.append("%s: %s outside a section" % (f, s.split()[0]))
    return bad


ALLOWED_AXIOMS = {
    # standard-library axioms that may appear (each is named in the evidence when it does)
    "functional_extensionality_dep", "proof_irrelevance", "classic", "JMeq_eq", "Eqdep.Eq_rect_eq.eq_rect_eq",
    "eq_rect_eq", "propositional_extensionality",
}


def proof_gate(prop_id):
    """Compile props/<id>.v on its own and read the Print Assumptions output.
    Returns dict(ok, theorems, assumptions, log, obligations)."""
    vfile = os.path.join(COQ, "props", prop_id + ".v")
    res = {"ok": False, "theorems": [], "assumptions": [], "log": "", "obligations": 0, "files": []}
    if not os.path.exists(vfile):
        res["log"] = "props/%s.v does not exist" % prop_id
        return res
    args = "-Q gen KV -Q model KV -Q proofs KV -Q props KV -Q extract KV"
    rc, out, _ = sh("timeout 1200 coqc %s props/%s.v" % (args, prop_id), cwd=COQ, timeout=1300)
    res["log"] = out
    if rc != 0:
        # name the statement the kernel rejected: the nearest Theorem / Lemma / Example above the reported line
        m = re.search(r'File "([^"]+)", line (\d+)', out)
        if m:
            fn = m.group(1)
            fn = fn if os.path.isabs(fn) else os.path.join(COQ, fn)
            try:
                lines = open(fn).read().splitlines()[:int(m.group(2))]
                for l in reversed(lines):
                    mm = re.match(r"\s*(Theorem|Lemma|Example|Corollary|Definition)\s+(\w+)", l)
                    if mm:
                        res["failed_statement"] = "%s %s (%s, line %s)" % (mm.group(1), mm.group(2), os.path.relpath(fn, COQ), m.group(2))
                        break
            except OSError:
                pass
        rep = os.path.join(COQ, "gen", "access_report.txt")
        if prop_id in ("C09", "C08") and os.path.exists(rep) and os.path.getsize(rep) > 0:
            res["log"] += "\nlockset table (translator T2c), unprotected pairs:\n" + open(rep).read()[:6000]
        return res
    src = strip_coq_comments(open(vfile).read())
    res["theorems"] = re.findall(r"^\s*(?:Theorem|Corollary)\s+(\w+)", src, re.M)
    # Print Assumptions output: "Closed under the global context" or "Axioms:" followed by names
    axioms = []
    for block in re.split(r"(?=Closed under the global context|Axioms:)", out):
        if block.startswith("Axioms:"):
            for line in block.splitlines()[1:]:
                m = re.match(r"^(\S+)\s*:", line)
                if m:
                    axioms.append(m.group(1))
                elif line.strip() == "" or not line.startswith(" "):
                    if not re.match(r"^\s", line):
                        break
    n_closed = out.count("Closed under the global context")
    n_axblocks = out.count("Axioms:")
    res["assumptions"] = sorted(set(axioms))
    res["print_assumptions_blocks"] = n_closed + n_axblocks
    bad = [a for a in axioms if a.split(".")[-1] not in ALLOWED_AXIOMS and a not in ALLOWED_AXIOMS]
    if bad:
        res["log"] += "\nnon-standard-library assumptions: %s" % bad
        return res
    if n_closed + n_axblocks < len(res["theorems"]):
        res["log"] += "\nfewer Print Assumptions than theorems"
        return res
    # obligations: every Theorem/Lemma/Corollary/Example/Fact in the dependency closure of the props file
    files = dep_closure("props/%s.v" % prop_id)
    res["files"] = files
    n = 0
    for f in files:
        s = strip_coq_comments(open(os.path.join(COQ, f)).read())
        n += len(re.findall(r"^\s*(?:Theorem|Lemma|Corollary|Example|Fact|Proposition|Remark)\s+\w+", s, re.M))
    res["obligations"] = n
    res["ok"] = len(res["theorems"]) > 0
    return res


def coqchk_gate(prop_id):
    """Thorough tier: re-check props/<id>.vo and everything it depends on with the independent checker
    coqchk, and read its context summary (axioms, type-in-type, unsafe fixpoints, assumed positivity)."""
    args = "-Q gen KV -Q model KV -Q proofs KV -Q props KV"
    rc, out, _ = sh("timeout 5400 coqchk -silent -o %s KV.%s" % (args, prop_id), cwd=COQ, timeout=5500)
    res = {"ok": False, "summary": out[-1500:], "rc": rc}
    if rc != 0:
        return res
    fields = dict(re.findall(r"\* (Axioms|Constants/Inductives relying on type-in-type|Constants/Inductives relying on unsafe \(co\)fixpoints|Inductives whose positivity is assumed): (.*)", out))
    res["fields"] = fields
    res["ok"] = len(fields) == 4 and all(v.strip() == "<none>" for v in fields.values())
    return res


_dep_cache = {}


def dep_closure(vfile):
    """Transitive dependencies of a .v file inside the project (via coqdep)."""
    if not _dep_cache:
        rc, out, _ = sh("coqdep -f _CoqProject", cwd=COQ, timeout=120)
        for line in out.splitlines():
            if ":" not in line:
                continue
            lhs, rhs = line.split(":", 1)
            tgt = [t for t in lhs.split() if t.endswith(".vo")]
            if not tgt:
                continue
            src = tgt[0][:-1]
            deps = [d[:-1] for d in rhs.split() if d.endswith(".vo")]
            _dep_cache[src] = deps
    seen, todo = [], [vfile]
    while todo:
        f = todo.pop()
        if f in seen:
            continue
        seen.append(f)
        todo.extend(_dep_cache.get(f, []))
    return sorted(seen)


def run_driver(trace, verbose=False, timeout=3000):
    cmd = "ulimit -s unlimited 2>/dev/null || ulimit -s 1000000; %s %s %s" % (
        os.path.join(BUILD, "driver"), "-v" if verbose else "", trace)
    rc, out, _ = sh(["bash", "-c", cmd], timeout=timeout)
    return rc, out


def run_parallel(cmds, timeout=3000):
    """Run shell commands concurrently (at most 16), return list of (rc, out)."""
    procs, results = [], [None] * len(cmds)
    pending = list(enumerate(cmds))
    running = []
    t_end = time.time() + timeout
    while pending or running:
        while pending and len(running) < 16:
            i, c = pending.pop(0)
            # output goes to an unnamed temporary file: a pipe would block a process that prints
            # more than the pipe buffer (a run with many mismatches) until the time limit
            out = tempfile.TemporaryFile(mode="w+")
            p = subprocess.Popen(["bash", "-c", c], stdout=out, stderr=subprocess.STDOUT, text=True)
            p._out = out
            running.append((i, p))
        still = []
        for i, p in running:
            if p.poll() is None:
                if time.time() > t_end:
                    p.kill()
                    subprocess.call("pkill -9 -P %d" % p.pid, shell=True)
                    results[i] = (124, "timeout")
                    p._out.close()
                else:
                    still.append((i, p))
            else:
                p._out.seek(0)
                results[i] = (p.returncode, p._out.read(20_000_000))
                p._out.close()
        running = still
        if running:
            time.sleep(0.05)
    return results


def write_evidence(prop_id, tier, seed, level, coverage, assumptions, wall, violations):
    os.makedirs(os.path.join(VERIF, "evidence"), exist_ok=True)
    ev = {"property_id": prop_id, "tier": tier, "seed": int(seed), "level": level,
          "coverage": coverage, "assumptions": assumptions, "wall_s": round(wall, 2),
          "violations": int(violations)}
    with open(os.path.join(VERIF, "evidence", prop_id + ".json"), "w") as f:
        json.dump(ev, f, indent=1)
    return ev


def write_replay(prop_id, payload):
    os.makedirs(os.path.join(VERIF, "replays"), exist_ok=True)
    h = hashlib.md5(json.dumps(payload, sort_keys=True).encode()).hexdigest()[:10]
    path = os.path.join(VERIF, "replays", "%s-%s.json" % (prop_id, h))
    with open(path, "w") as f:
        json.dump(payload, f, indent=1)
    return os.path.relpath(path, VERIF)


def load_known_findings():
    p = os.path.join(VERIF, "known_findings.json")
    if not os.path.exists(p):
        return {"findings": [], "fixed": []}
    return json.load(open(p))
