"""check entry point:  check setup | check <Cnn> --tier quick|thorough | check replay <file>"""
import json
import os
import sys
import time
import traceback

from . import core
from . import props


def ensure_built(need_race=False):
    """Rebuild everything a check needs from the current /repo working tree (incremental)."""
    core.build_vh()
    core.translate()
    ok, log = core.coq_make_keep_going()
    core.build_driver()
    if need_race:
        core.build_vh_race()
    return ok, log


def cmd_setup():
    t0 = time.time()
    os.makedirs(core.BUILD, exist_ok=True)
    core.build_vh()
    core.translate()
    ok, log = core.coq_make(clean=True)
    if not ok:
        print(log[-6000:])
        print("setup: coq build failed")
        return 1
    core.build_driver()
    try:
        core.build_vh_race()
    except core.BuildError as e:
        print("setup: race build failed (continuing):", e.log[-2000:])
    bad = core.grep_gate()
    if bad:
        print("setup: grep gate:", bad)
        return 1
    print("setup ok in %.1fs" % (time.time() - t0))
    return 0


def cmd_check(pid, tier, seed):
    t0 = time.time()
    spec = props.REGISTRY.get(pid)
    if spec is None:
        print("unknown property", pid)
        return 2
    build_log = ""
    build_fail = None
    try:
        _, build_log = ensure_built(need_race=spec.get("race", False))
    except core.BuildError as e:
        build_fail = e
    result = props.run_property(pid, spec, tier, seed, build_fail, build_log)
    result["wall"] = time.time() - t0
    return props.conclude(pid, spec, tier, seed, result)


def cmd_replay(path):
    payload = json.load(open(path if os.path.isabs(path) else os.path.join(core.VERIF, path)))
    try:
        ensure_built(need_race=payload.get("race", False))
    except core.BuildError as e:
        print("build failed at", e.stage)
        print(e.log[-3000:])
        return 2
    return props.replay(payload)


def main(argv):
    if len(argv) < 2:
        print(__doc__)
        return 2
    if argv[1] == "setup":
        return cmd_setup()
    if argv[1] == "replay":
        return cmd_replay(argv[2])
    pid = argv[1]
    tier = os.environ.get("VERIF_TIER", "quick")
    if "--tier" in argv:
        tier = argv[argv.index("--tier") + 1]
    seed = int(os.environ.get("VERIF_SEED", "1") or 1)
    try:
        return cmd_check(pid, tier, seed)
    except Exception:
        traceback.print_exc()
        return 2


if __name__ == "__main__":
    sys.exit(main(sys.argv))
