(* C04 — A batch is all-or-nothing and, once committed, durable. *)
From KV Require Import Bytes GenConsts Chunk Record Engine Script AMapLemmas EngineFiles EngineInv EngineBatch
  EngineRefine EngineLog EngineRecover EngineSync EngineCrash Crc FileProofs ZeroProofs.
From Coq Require Import List.
Import ListNotations.
Open Scope N_scope.

(* What a batch adds to the log - its records, tagged with the batch id, in whatever pieces and
   across whatever files they were flushed, followed by one batch-finished record - is atomic:
   replaying ANY prefix of it leaves the map as it was before the batch, and replaying all of it
   yields the map with the whole batch applied.  There is no third outcome. *)
Theorem C04_batch_log_is_atomic :
  forall m id st key, id <> 0 -> Forall ok_type st ->
  (forall Q, is_prefix Q (map (tag id) st ++ [mkRec rt_BatchFinished key [] id]) ->
     fst (sreplay m [] Q) = m \/ fst (sreplay m [] Q) = s_apply_recs m st) /\
  sreplay m [] (map (tag id) st ++ [mkRec rt_BatchFinished key [] id]) = (s_apply_recs m st, []).
Proof. exact atomic_batch. Qed.
Print Assumptions C04_batch_log_is_atomic.

(* every operation of every history - a batch of any size, flushed in any number of pieces,
   included - extends the log by a chunk with that all-or-nothing property *)
Theorem C04_every_operation_is_atomic_in_the_log :
  forall d k m o d' k' r evs,
  LogInv d m -> k_merge k = None -> op_ok o -> step (d, k) o = ((d', k'), r, evs) ->
  exists X, log d' = log d ++ X /\
    (forall Q, is_prefix Q X -> fst (sreplay m [] Q) = m \/ fst (sreplay m [] Q) = fst (sstep m o)) /\
    sreplay m [] X = (fst (sstep m o), []).
Proof.
  intros d k m o d' k' r evs HL Hnm Hok Hst.
  destruct (step_chunk _ _ _ _ _ _ _ _ HL Hnm Hok Hst) as (X & HX & Hat & Hfull). exists X. auto.
Qed.
Print Assumptions C04_every_operation_is_atomic_in_the_log.

(* hence after ANY crash (any cut of the active file) the recovered mapping is the state after a
   whole number of operations: either every put and delete of a batch is visible or none is *)
Theorem C04_crash_never_splits_a_batch :
  forall c ops d k evs0 s' rs evs cuts cutA c',
  Forall op_ok ops ->
  db_open c empty_disk = (OpenOk d k, evs0) ->
  run (d, k) ops = (s', rs, evs) ->
  (forall id f, In (id, f) (d_older (fst s')) -> lf_size f <= cuts id f) ->
  exists d' k' evs' j, db_open c' (crash_disk_of (fst s') cuts cutA) = (OpenOk d' k', evs') /\
    (j <= length ops)%nat /\ R d' (nth j (states [] ops) []).
Proof.
  intros c ops d k evs0 s' rs evs cuts cutA c' Hok Hopen Hrun Hcuts.
  destruct (open_empty_log c) as (d0 & k0 & e0 & Ho & HL & Hnm). rewrite Hopen in Ho. injection Ho as -> -> _.
  assert (Hlog0 : log d0 = []).
  { assert (Hdok : disk_ok empty_disk) by (split; [reflexivity|split; [exact I|constructor]]).
    destruct (db_open_spec c empty_disk Hdok) as (d1 & k1 & e1 & Ho1 & _ & Hl & _). rewrite Hopen in Ho1.
    injection Ho1 as <- _ _. exact Hl. }
  destruct (crash_prefix ops d0 k0 [] s' rs evs cuts cutA c' HL Hnm Hok Hrun Hcuts) as (d' & k' & evs' & j & A & B & C & _).
  { rewrite Hlog0. apply is_prefix_nil. }
  exists d', k', evs', j. auto.
Qed.
Print Assumptions C04_crash_never_splits_a_batch.

(* once Commit has returned, the batch is visible in the live database and after every later
   clean restart (C02), and - created with Sync - flushed including its sealing record (C13) *)
Theorem C04_committed_batch_survives_restart :
  forall d k m sync id bops d1 k1 rs e ev1 c k2 ev2,
  LogInv d m -> k_merge k = None -> id <> 0 ->
  step (d, k) (OpBatch sync id bops) = ((d1, k1), RBatch rs e, ev1) ->
  db_close d1 k1 = (k2, ev2) ->
  exists d' k3 ev3, db_open c k2 = (OpenOk d' k3, ev3) /\ LogInv d' (fst (s_bops m bops)).
Proof.
  intros d k m sync id bops d1 k1 rs e ev1 c k2 ev2 HL Hnm Hid Hst Hc.
  destruct (step_log d k m (OpBatch sync id bops) d1 k1 _ ev1 HL Hnm Hid Hst) as (HL1 & Hnm1 & _). cbn [sstep] in HL1.
  destruct (s_bops m bops) as [mf rsf]. cbn [fst] in *.
  destruct (restart_spec d1 k1 mf c k2 ev2 HL1 Hnm1 Hc) as (d' & k3 & ev3 & Ho & HL' & _). eauto.
Qed.
Print Assumptions C04_committed_batch_survives_restart.

Theorem C04_sync_batch_is_flushed :
  forall d b d' b' e evs, Inv d -> SyncInv d -> b_id b <> 0 -> b_committed b = false ->
  batch_commit d b = (d', b', e, evs) ->
  SyncInv d' /\ (b_sync b = true -> b_staged b <> [] -> flushed (d_active d') /\ older_flushed d').
Proof. exact batch_commit_sync. Qed.
Print Assumptions C04_sync_batch_is_flushed.

(* A power failure may lose unsynced pages in any order.  Byte level (model/Chunk.v, the reader of Open and Merge): a file
   written from empty by any sequence of records; where the next record would begin (behind the block-tail padding when
   the writer pads) a lost block reads back as zeros; behind those zeros ANY bytes - the later records of a batch and its
   batch-finished record included.  The scan delivers exactly the records in front of the hole and ends as a torn tail:
   a batch with a hole in it never meets its batch-finished record, so recovery shows none of it (the record-level
   theorems above then apply to the log cut at the hole).  crc [0;0;0] <> 0 holds for CRC-32 (example below). *)
Theorem C04_nothing_behind_a_lost_block_is_replayed :
  forall crc, (forall b, crc b < 4294967296) -> crc [0; 0; 0] <> 0 ->
  forall ds fid bs ps bid' bsz' behind,
  Forall nonempty ds ->
  write_all_buf crc fid 0 0 ds = (bs, ps, bid', bsz') ->
  scan crc (bs ++ zeros (pad_len bsz') ++ z7 ++ behind) fid = (combine ds ps, STorn).
Proof. exact scan_stops_at_hole. Qed.
Print Assumptions C04_nothing_behind_a_lost_block_is_replayed.

(* the hypothesis about the checksum holds for the checksum the engine uses, and the statement is not vacuous: one
   record, a hole, then a complete valid record behind it - which the scan does not deliver *)
Example C04_hole_nonvacuous :
  crc32 [0; 0; 0] <> 0 /\
  (let f1 := fst (df_write crc32 (df_open 0 []) [1; 2; 3]) in
   let behind := zeros (32768 - 10 - 7) ++ df_bytes (fst (df_write crc32 (df_open 0 []) [4; 5])) in
   match scan crc32 (df_bytes f1 ++ z7 ++ behind) 0 with
   | ([(d, _)], STorn) => bytes_eqb d [1; 2; 3]
   | _ => false
   end = true).
Proof. split; [vm_compute; discriminate|vm_compute; reflexivity]. Qed.

Example C04_nonvacuous : (7 : N) <> 0 /\ Forall ok_type [mkRec rt_Normal [1] [2] 0; mkRec rt_Deleted [3] [] 0].
Proof. split; [discriminate|repeat constructor]. Qed.
