(* C03 — Crash recovery exposes a prefix of the acknowledged history.
   Crash model: the process dies with the directory as it is; a power failure additionally
   cuts the not-yet-synced tail of a file at ANY byte length.  Rotated files are flushed before
   the engine leaves them (C13), so only the active file can lose a tail.  At record level a
   byte cut keeps exactly the records that end at or before it (lf_crash; the byte-level reader
   reports a torn tail as the end of the file: C11/C12).
   The theorems are about crash images of states at operation boundaries with an arbitrary cut;
   the images at every intermediate I/O event (inside Put, inside Commit, inside rotation) are
   compared between the model (Crash.v: file system as a function of the events) and the real
   engine by the correspondence run of this check. *)
From KV Require Import Bytes GenConsts Chunk Record Engine Script AMapLemmas EngineFiles EngineInv EngineBatch
  EngineRefine EngineLog EngineRecover EngineSync EngineCrash.
Open Scope N_scope.

(* For every history (Put/Delete/Get/.../batches/restarts, any configurations), every cut length
   of the active file and any survival of the flushed rotated files, and every configuration of
   the recovering Open: Open succeeds and exposes the mapping produced by the first j operations
   of the history for some j; nothing is lost when nothing is cut (process-only crash). *)
Theorem C03_crash_exposes_prefix :
  forall c ops d k evs0 s' rs evs cuts cutA c',
  Forall op_ok ops ->
  db_open c empty_disk = (OpenOk d k, evs0) ->
  run (d, k) ops = (s', rs, evs) ->
  (forall id f, In (id, f) (d_older (fst s')) -> lf_size f <= cuts id f) ->
  exists d' k' evs' j, db_open c' (crash_disk_of (fst s') cuts cutA) = (OpenOk d' k', evs') /\
    (j <= length ops)%nat /\ R d' (nth j (states [] ops) []) /\ Inv d' /\
    (lf_size (d_active (fst s')) <= cutA -> R d' (final_state [] ops)).
Proof.
  intros c ops d k evs0 s' rs evs cuts cutA c' Hok Hopen Hrun Hcuts.
  destruct (open_empty_log c) as (d0 & k0 & e0 & Ho & HL & Hnm). rewrite Hopen in Ho. injection Ho as -> -> _.
  assert (Hlog0 : log d0 = []).
  { assert (Hdok : disk_ok empty_disk) by (split; [reflexivity|split; [exact I|constructor]]).
    destruct (db_open_spec c empty_disk Hdok) as (d1 & k1 & e1 & Ho1 & _ & Hl & _). rewrite Hopen in Ho1.
    injection Ho1 as <- _ _. exact Hl. }
  apply (crash_prefix ops d0 k0 [] s' rs evs cuts cutA c' HL Hnm Hok Hrun Hcuts).
  rewrite Hlog0. apply is_prefix_nil.
Qed.
Print Assumptions C03_crash_exposes_prefix.

(* the prefix contains every operation whose records survive: if the log after the first part
   [a] of the history lies within the surviving part, the recovered state is a state reached
   after [a] (durable, or acknowledged before a process-only crash, means included) *)
Theorem C03_surviving_operations_are_included :
  forall c a b d k evs0 s1 r1 e1 s' r2 e2 cuts cutA c',
  Forall op_ok a -> Forall op_ok b ->
  db_open c empty_disk = (OpenOk d k, evs0) ->
  run (d, k) a = (s1, r1, e1) -> run s1 b = (s', r2, e2) ->
  (forall id f, In (id, f) (d_older (fst s')) -> lf_size f <= cuts id f) ->
  is_prefix (log (fst s1)) (surviving_log (fst s') cutA) ->
  exists d' k' evs' j, db_open c' (crash_disk_of (fst s') cuts cutA) = (OpenOk d' k', evs') /\
    (j <= length b)%nat /\ R d' (nth j (states (final_state [] a) b) (final_state [] a)).
Proof.
  intros c a b d k evs0 s1 r1 e1 s' r2 e2 cuts cutA c' Hoka Hokb Hopen Hra Hrb Hcuts Hpre.
  destruct (open_empty_log c) as (d0 & k0 & e0 & Ho & HL & Hnm). rewrite Hopen in Ho. injection Ho as -> -> _.
  destruct (run_log_final _ _ _ _ _ _ _ HL Hnm Hoka Hra) as [HL1 Hnm1]. destruct s1 as [d1 k1]. cbn [fst snd] in *.
  destruct (crash_prefix b d1 k1 _ s' r2 e2 cuts cutA c' HL1 Hnm1 Hokb Hrb Hcuts Hpre) as (d' & k' & evs' & j & A & B & C & _).
  exists d', k', evs', j. auto.
Qed.
Print Assumptions C03_surviving_operations_are_included.

(* the replay core: any prefix of the log denotes the state after a prefix of the operations *)
Theorem C03_log_prefix_is_history_prefix :
  forall ops d k m s' rs evs,
  LogInv d m -> k_merge k = None -> Forall op_ok ops -> run (d, k) ops = (s', rs, evs) ->
  forall P, is_prefix P (log (fst s')) -> is_prefix (log d) P ->
  exists j, (j <= length ops)%nat /\ fst (sreplay [] [] P) = nth j (states m ops) m.
Proof. exact prefix_recovery. Qed.
Print Assumptions C03_log_prefix_is_history_prefix.

Example C03_nonvacuous :
  let ops := [OpPut [1] [2]; OpDel [1]; OpBatch false 4 [BPut [5] [6]]; OpPut [7] [8]] in
  Forall op_ok ops /\ length (states [] ops) = 5%nat.
Proof. split; [repeat constructor; discriminate|reflexivity]. Qed.
