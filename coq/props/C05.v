(* C05 — Batch staging semantics: read-your-writes, in-order application, rejection after Commit. *)
From KV Require Import Bytes GenConsts Chunk Record Engine Script AMapLemmas EngineInv EngineBatch EngineRefine.
Open Scope N_scope.

(* A whole batch, on any database state (values in the active file or in any rotated file,
   any configuration), for any sequence of batch Put / Delete / Get (repeated operations on
   one key, overflow of DataFileSize in the middle of the batch): every Batch.Get returns
   what a private copy of the map would return (the batch's own latest staged put, not-found
   for a key it deleted, otherwise the database value wherever it lives), Commit succeeds, and
   the database afterwards is the map obtained by applying the operations one by one in issue
   order. *)
Theorem C05_batch_is_private_copy_installed_at_commit :
  forall d k m sync id bops d' k' rs e evs,
  Inv d -> R d m ->
  step (d, k) (OpBatch sync id bops) = ((d', k'), RBatch rs e, evs) ->
  e = None /\ rs = snd (s_bops m bops) /\ R d' (fst (s_bops m bops)) /\ Inv d'.
Proof.
  intros d k m sync id bops d' k' rs e evs HI HR Hst. cbn [step] in Hst.
  destruct (run_bops d (new_batch sync id) bops) as [[[d1 b1] rs1] ev1] eqn:Hr.
  destruct (batch_commit d1 b1) as [[[d2 b2] e2] ev2] eqn:Hc.
  injection Hst as <- <- <- <- <-.
  destruct (run_bops_spec _ _ _ _ _ _ _ _ HI (BRel_start d m sync id HI HR) Hr) as (HI1 & HB1 & Hrs & _).
  destruct (batch_commit_view _ _ _ _ _ _ _ HI1 HB1 Hc) as (HI2 & HR2 & He & _).
  auto.
Qed.
Print Assumptions C05_batch_is_private_copy_installed_at_commit.

(* in-order application: put, delete, put of one key ends with the key present *)
Theorem C05_put_delete_put_ends_present :
  forall m k v1 v2, len k <> 0 ->
  amap_get (fst (s_bops m [BPut k v1; BDel k; BPut k v2])) k = Some v2.
Proof.
  intros m k v1 v2 Hk. cbn [s_bops]. unfold s_put, s_del.
  destruct (len k =? 0) eqn:E; [apply N.eqb_eq in E; contradiction|]. cbn [fst snd].
  apply amap_get_put_same.
Qed.
Print Assumptions C05_put_delete_put_ends_present.

(* a committed batch rejects further use and does not change the database *)
Theorem C05_committed_batch_rejects :
  forall d b k v, b_committed b = true -> len k <> 0 ->
  batch_put d b k v = (d, b, Some EBatchCommitted, []) /\
  batch_delete d b k = (d, b, Some EBatchCommitted, []) /\
  batch_get d b k = (d, inr EBatchCommitted, []) /\
  batch_commit d b = (d, b, Some EBatchCommitted, []).
Proof.
  intros d b k v Hc Hk. unfold batch_put, batch_delete, batch_get, batch_commit. rewrite Hc.
  destruct (len k =? 0) eqn:E; [apply N.eqb_eq in E; contradiction|]. auto.
Qed.
Print Assumptions C05_committed_batch_rejects.

(* Commit marks the batch committed *)
Theorem C05_commit_marks_committed :
  forall d m b d' b' e evs, Inv d -> R d m -> b_committed b = false ->
  batch_commit d b = (d', b', e, evs) -> b_committed b' = true.
Proof. intros d m b d' b' e evs HI HR Hnc Hc.
  exact (proj1 (proj2 (proj2 (proj2 (batch_commit_spec _ _ _ _ _ _ _ HI HR Hnc Hc))))). Qed.
Print Assumptions C05_commit_marks_committed.

Example C05_nonvacuous :
  snd (s_bops [([107], [1])] [BGet [107]; BDel [107]; BGet [107]; BPut [107] [5]; BGet [107]])
  = [RVal (inl [1]); RErr None; RVal (inr EKeyNotFound); RErr None; RVal (inl [5])].
Proof. vm_compute. reflexivity. Qed.
