(* C06 — Merge preserves every key's value and actually reclaims the garbage.
   Property theorems only; proofs are in proofs/EngineMerge*.v, EngineAdopt.v, EngineOpen.v. *)
From KV Require Import Bytes GenConsts Chunk Record Engine Script AMapLemmas EngineInv EngineRefine EngineLog EngineRecover
  EngineCrash EngineOpen EngineAdopt EngineMerge EngineKeep EngineMergeRun EngineMergeRace.
Open Scope N_scope.

(* For every configuration and every history on a fresh database - Put, Delete, Get, ListKeys, Fold,
   Stat, Sync, batches, any number of merges (each scanning its input files in any order that covers
   them), restarts anywhere under independently chosen configurations, hence also the restart that
   adopts a merge, later restarts, and merges that were abandoned with an error - every result is the
   result of the same operations on a plain map on which Merge and Restart are the identity. *)
Theorem C06_merge_never_changes_the_mapping :
  forall c ops d k ev0 s' rs evs,
    db_open c empty_disk = (OpenOk d k, ev0) ->
    ops_ok (d, k) ops ->
    run (d, k) ops = (s', rs, evs) ->
    map proj rs = map proj (srun [] ops).
Proof.
  intros c ops d k ev0 s' rs evs Ho Hok Hrun.
  destruct (open_empty_G c) as (d0 & k0 & e0 & Ho' & HG). rewrite Ho in Ho'. injection Ho' as <- <- _.
  exact (proj1 (run_G ops d k [] s' rs evs HG Hok Hrun)).
Qed.
Print Assumptions C06_merge_never_changes_the_mapping.

(* One step, from any reachable state: in particular a Merge returns leaving every key's value as it
   was (whether it succeeded or reported an error), and so does the Restart that adopts it. *)
Theorem C06_step :
  forall d k M o d' k' r evs,
    G d k M -> gop_ok d o -> step (d, k) o = ((d', k'), r, evs) ->
    G d' k' (fst (sstep M o)) /\ proj r = proj (snd (sstep M o)).
Proof. exact step_G. Qed.
Print Assumptions C06_step.

(* What a successful Merge leaves behind: rewritten files 0..n-1 (n at most the id of the first file
   that did not take part) holding only plain live records - one per live key with its current value:
   replaying them yields exactly the mapping of the database - a hint file listing them in order, and
   the marker; the data directory itself is untouched. *)
Theorem C06_merge_output :
  forall d k M order d' k' evs,
    LogInv d M -> order_ok d order -> db_merge d k order = (d', k', None, evs) ->
    k_data k' = k_data k /\
    exists md, k_merge k' = Some md /\ merge_dir_ok md (d_active_id d') M.
Proof.
  intros d k M order d' k' evs HL Hord Hm.
  destruct (db_merge_out d k M order d' k' None evs HL (fun _ => Hord) Hm) as (_ & Hd & _ & _ & _ & He). auto.
Qed.
Print Assumptions C06_merge_output.

(* The adopting Open: afterwards the directory holds the rewritten files (ids below n), nothing with
   an id from n up to the marker id, the files written after the merge, and the merge directory is
   gone. *)
Theorem C06_adoption_reclaims :
  forall k md mid n h,
    k_merge k = Some md -> m_marker md = Some mid -> 0 < mid -> m_hint md = Some h ->
    merged_ok (m_files md) n -> 0 < n -> n <= mid ->
    asc (k_data k) -> Forall file_ok (k_data k) ->
    exists data2 ev, load_merge_files k = (mkDisk data2 (Some h) None, mid, ev) /\
      below n data2 = m_files md /\ from_ mid data2 = from_ mid (k_data k) /\
      (forall id f, In (id, f) data2 -> id < n \/ mid <= id).
Proof.
  intros k md mid n h H1 H2 H3 H4 H5 H6 H7 H8 H9.
  destruct (load_merge_adopt k md mid n h H1 H2 H3 H4 H5 H6 H7 H8 H9) as (data2 & ev & A & _ & _ & B & C & D).
  exists data2, ev. auto.
Qed.
Print Assumptions C06_adoption_reclaims.

(* Writers racing with the merge scan.  Merge releases the engine lock once it has rotated the active
   file and listed its input files; Put and Delete calls of other clients then run between any two steps
   of the scan (db_merge_i: [pro] before the scan starts, one slot of [sched] before each scanned record;
   each call is one critical section, the scan consults the index once per record).  For EVERY such
   interleaving, from every reachable state: the database afterwards holds the mapping obtained by
   applying the racing calls, in the order they ran, to the mapping before the merge - they are kept with
   their final live outcome - and the state is again in the invariant G: the rewritten files together with
   everything written since the merge started replay to exactly that mapping, so the adopting restart and
   every later operation behave as C06_step says.  The merged files need not denote the mapping of any
   single instant (see the example below). *)
Theorem C06_merge_with_racing_writers :
  forall d k M order pro sched d' k' e evs,
    G d k M -> Forall (fun x => x <= d_active_id d) order -> (e = None -> order_ok d order) ->
    db_merge_i d k order pro sched = (d', k', e, evs) ->
    exists n, G d' k' (s_mops M (pro ++ concat (firstn n sched))).
Proof. exact db_merge_i_G. Qed.
Print Assumptions C06_merge_with_racing_writers.

(* Non-vacuity: a concrete history with overwrites, a delete, a batch, a merge, a write after the
   merge and two restarts runs through the model, satisfies the side conditions, and the second
   restart finds the merge directory gone. *)
Definition c06_cfg : cfg := mkCfg 200 0 0 0.
Definition c06_ops : list op :=
  [OpPut [1] [10]; OpPut [2] [20]; OpPut [1] [11]; OpDel [2]; OpBatch false 7 [BPut [3] [30]; BPut [4] [40]];
   OpMerge [0; 1; 2; 3]; OpPut [5] [50]; OpRestart c06_cfg; OpGet [1]; OpGet [3]; OpRestart c06_cfg; OpGet [5]; OpList].
Example c06_history_runs :
  match db_open c06_cfg empty_disk with
  | (OpenOk d k, _) =>
      let '(s', rs, _) := run (d, k) c06_ops in
      map proj rs = map proj (srun [] c06_ops) /\ k_merge (snd s') = None /\
      nth 8 rs (RErr None) = RVal (inl [11]) /\ nth 11 rs (RErr None) = RVal (inl [50])
  | _ => False
  end.
Proof. vm_compute. repeat split; reflexivity. Qed.

(* a merge with racing writers: key 2 is deleted before the scan reaches its record, key 3 is overwritten
   and key 6 deleted and re-put while the scan runs, key 4 is new; the rewritten files hold only key 1,
   and the live database, the adopting restart and the restart after it all expose the final mapping *)
Example c06_racing_merge_runs :
  match db_open c06_cfg empty_disk with
  | (OpenOk d k, _) =>
    let '(s1, _, _) := run (d, k) [OpPut [1] [10]; OpPut [2] [20]; OpPut [3] [30]; OpPut [1] [11]; OpPut [6] [60]] in
    let '(d2, k2, e, _) := db_merge_i (fst s1) (snd s1) [0] [MPut [4] [40]]
                             [[MDel [2]]; []; [MPut [3] [31]]; [MDel [6]]; [MPut [6] [61]]] in
    let '(s3, rs, _) := run (d2, k2) [OpGet [3]; OpRestart c06_cfg; OpGet [1]; OpGet [2]; OpGet [3]; OpGet [4]; OpGet [6];
                                      OpList; OpRestart c06_cfg; OpList] in
    d_active_id (fst s1) = 0 /\ e = None /\
    match k_merge k2 with Some md => map fst (recs_of (m_files md)) = [mkRec 0 [1] [11] 0] | None => False end /\
    map proj rs = [RVal (inl [31]); RErr None; RVal (inl [11]); RVal (inr EKeyNotFound); RVal (inl [31]);
                   RVal (inl [40]); RVal (inl [61]); RKeys [[1]; [3]; [4]; [6]]; RErr None; RKeys [[1]; [3]; [4]; [6]]]
  | _ => False
  end.
Proof. vm_compute. repeat split; reflexivity. Qed.
