(* C07 — A crash during merge or during merge adoption never loses or resurrects data.
   Property theorems only; proofs in proofs/EngineMergeCrash.v, EngineMergeRun.v, EngineAdopt.v. *)
From KV Require Import Bytes GenConsts Chunk Record Engine Script Crash AMapLemmas EngineInv EngineRefine EngineLog EngineRecover
  EngineCrash EngineOpen EngineAdopt EngineMerge EngineKeep EngineMergeRun EngineMergeCrash EngineSync EngineSyncMerge EngineMergeDurable.
Open Scope N_scope.

(* While Merge is running the marker does not exist yet.  Whatever the merge directory holds at the
   instant of the crash (any files, any hint file, no marker or an unreadable one), and for every
   state d of the database reachable by any history, the image of the data directory (rotated files
   intact, the active file cut at cutA) opens under any configuration; the merge directory is ignored;
   when nothing was cut (the process died) the database holds exactly the mapping M again. *)
Theorem C07_crash_during_merge :
  forall d M cuts cutA c hint md,
    LogInv d M -> (forall id f, In (id, f) (d_older d) -> lf_size f <= cuts id f) -> ignored md ->
    exists d' k' evs, db_open c (mkDisk (crash_files d cuts cutA) hint (Some md)) = (OpenOk d' k', evs) /\
      LogOK d' (fst (sreplay [] [] (surviving_log d cutA))) /\
      (lf_size (d_active d) <= cutA -> LogInv d' M) /\
      (exists md', k_merge k' = Some md' /\ ignored md').
Proof. exact crash_during_merge. Qed.
Print Assumptions C07_crash_during_merge.

(* Merge begins by removing a left-over merge directory - possibly a FINISHED one that no Open has adopted yet.
   It removes the finished-marker first and the directory afterwards: os.RemoveAll unlinks entry by entry in an
   order the file system chooses, so a process that dies inside it leaves ANY subset of the entries.  Whatever
   subset is gone, what is left carries no marker: it is a directory of the family C07_crash_during_merge
   quantifies over (ignored by every later Open), and the data directory and its hint file are untouched. *)
Theorem C07_interrupted_removal_of_a_merge_directory_is_ignored :
  (forall d k order md, k_merge k = Some md ->
     exists pre post, snd (db_merge d k order) = pre ++ [EvRemove MMarker; EvRemoveAllMerge; EvMkdirMerge] ++ post /\
                      pre = snd (db_rotate d)) /\
  (forall s, fs_marker (fs_apply s (EvRemove MMarker)) = None) /\
  (forall s gone m, fs_marker s = None ->
     match k_merge (fs_to_disk (fs_partial_rm s gone) m) with Some md => ignored md | None => True end) /\
  (forall s gone m, k_data (fs_to_disk (fs_partial_rm s gone) m) = k_data (fs_to_disk s m) /\
                    k_hint (fs_to_disk (fs_partial_rm s gone) m) = k_hint (fs_to_disk s m)).
Proof.
  split; [exact merge_removes_marker_first|]. split; [exact remove_marker_clears|].
  split; [exact partial_removal_is_ignored|exact partial_removal_keeps_data].
Qed.
Print Assumptions C07_interrupted_removal_of_a_merge_directory_is_ignored.

(* The process dies after Merge has written its marker (the merge is finished but not adopted),
   possibly many operations later: the image opens, adopts the merge, and holds exactly M. *)
Theorem C07_crash_with_finished_merge :
  forall d k M cuts cutA c,
    G d k M -> (forall id f, In (id, f) (d_older d) -> lf_size f <= cuts id f) -> lf_size (d_active d) <= cutA ->
    forall md, k_merge k = Some md -> ~ ignored md ->
    exists d' k' evs, db_open c (mkDisk (crash_files d cuts cutA) (k_hint k) (Some md)) = (OpenOk d' k', evs) /\
      LogInv d' M /\ k_merge k' = None.
Proof. exact crash_with_finished_merge. Qed.
Print Assumptions C07_crash_with_finished_merge.

(* The adoption step of Open is interrupted at any point and run again.  The directory states an
   interrupted adoption leaves: the merge directory still holds the rewritten files j .. n-1 (files
   below j were already renamed into the data directory: j = 0 nothing moved yet, j = n all moved);
   once a file was moved every original from n up to the marker id is gone, before that any of them
   may or may not have been removed (no constraint); the data files below n that were not yet replaced
   are arbitrary; the hint file is still in the merge directory, or (only when j = n) already moved.
   From EVERY such state Open finishes the adoption and the database holds exactly the mapping M that
   the rewritten files (M0) and the files written after the merge (PL) denote - the same as the
   uninterrupted adoption; the merge directory is gone.  A second crash during the retry leaves a
   state of the same family. *)
Theorem C07_interrupted_adoption_resumes :
  forall c k md mid n j h MFull M0 PL M,
    k_merge k = Some md -> m_marker md = Some mid -> 0 < mid -> 0 < n -> n <= mid -> j <= n ->
    merged_ok MFull n -> m_files md = from_ j MFull ->
    asc (k_data k) -> Forall file_ok (k_data k) ->
    (forall x, x < j -> older_get (k_data k) x = older_get MFull x) ->
    (0 < j -> forall x, n <= x -> x < mid -> older_get (k_data k) x = None) ->
    (m_hint md = Some h \/ (m_hint md = None /\ k_hint k = Some h /\ j = n)) ->
    hf_recs h = hint_of (recs_of MFull) -> Forall (fun rp => plain_live (fst rp)) (recs_of MFull) ->
    s_apply_recs [] (files_log MFull) = M0 ->
    files_log (from_ mid (k_data k)) = PL -> sreplay M0 [] PL = (M, []) ->
    exists d' k' evs, db_open c k = (OpenOk d' k', evs) /\ LogInv d' M /\ k_merge k' = None /\
      log d' = files_log MFull ++ PL /\ d_cfg d' = c.
Proof. exact open_pending. Qed.
Print Assumptions C07_interrupted_adoption_resumes.

(* ... and the data directory the resumed adoption produces is the one the uninterrupted adoption
   produces: the rewritten files, nothing from n up to the marker id, the later files untouched. *)
Theorem C07_resumed_adoption_layout :
  forall k md mid n j h MFull,
    k_merge k = Some md -> m_marker md = Some mid -> 0 < mid -> 0 < n -> n <= mid -> j <= n ->
    merged_ok MFull n -> m_files md = from_ j MFull ->
    asc (k_data k) -> Forall file_ok (k_data k) ->
    (forall x, x < j -> older_get (k_data k) x = older_get MFull x) ->
    (0 < j -> forall x, n <= x -> x < mid -> older_get (k_data k) x = None) ->
    (m_hint md = Some h \/ (m_hint md = None /\ k_hint k = Some h /\ j = n)) ->
    exists data2 ev, load_merge_files k = (mkDisk data2 (Some h) None, mid, ev) /\
      below n data2 = MFull /\ from_ mid data2 = from_ mid (k_data k) /\
      (forall id f, In (id, f) data2 -> id < n \/ mid <= id).
Proof.
  intros k md mid n j h MFull H1 H2 H3 H4 H5 H6 H7 H8 H9 H10 H11 H12 H13.
  destruct (load_merge_resume k md mid n j h MFull H1 H2 H3 H4 H5 H6 H7 H8 H9 H10 H11 H12 H13) as (data2 & ev & A & _ & _ & B & C & D).
  exists data2, ev. auto.
Qed.
Print Assumptions C07_resumed_adoption_layout.

(* After the recovering Open the invariant of C06 holds again: any later Open (a finished merge is
   adopted once: the merge directory is gone) returns the same mapping. *)
Theorem C07_later_opens_agree :
  forall d k M c s1 r1 e1,
    G d k M -> step (d, k) (OpRestart c) = (s1, r1, e1) -> G (fst s1) (snd s1) M.
Proof.
  intros d k M c [d1 k1] r1 e1 HG H1. exact (proj1 (step_G d k M (OpRestart c) d1 k1 r1 e1 HG I H1)).
Qed.
Print Assumptions C07_later_opens_agree.

(* A finished merge is adoptable only over durable data.  When Merge has written its marker - also when
   Put and Delete calls of other clients ran between the steps of its scan (any calls, any slots) - every
   data file of the database is flushed: the files rotated away meanwhile were flushed at rotation and
   Merge flushes the active file right before it writes the marker.  So every record whose index entry
   made the scan drop an older version is durable at the moment the older version becomes droppable,
   and no power loss after the marker can take the newer version away while the adopted merge output no
   longer holds the older one.  (A batch holds the engine lock from NewBatch to Commit; the flush needs
   that lock, so it also waits for an open batch to commit - a merge never becomes adoptable while it
   has seen the index entries of an uncommitted batch.  Defect D29/D30 of the unrepaired tree.) *)
Theorem C07_finished_merge_leaves_every_data_file_flushed :
  forall d k M order pro sched d' k' evs,
  LogInv d M -> SyncInv d -> db_merge_i d k order pro sched = (d', k', None, evs) ->
  flushed (d_active d') /\ older_flushed d'.
Proof. exact db_merge_i_durable. Qed.
Print Assumptions C07_finished_merge_leaves_every_data_file_flushed.

Theorem C07_finished_merge_leaves_every_data_file_flushed_sequential :
  forall d k order d' k' evs,
  InvF d -> SyncInv d -> db_merge d k order = (d', k', None, evs) ->
  flushed (d_active d') /\ older_flushed d'.
Proof. exact db_merge_durable. Qed.
Print Assumptions C07_finished_merge_leaves_every_data_file_flushed_sequential.

(* Non-vacuity, on the event-level crash model (Crash.v) that the correspondence run compares with
   the real engine: a history with a merge whose output has several files; the process dies after
   each single file-system event of Merge, of Close and of the adopting Open; every one of these
   images opens to the mapping before the merge. *)
Definition c07_cfg : cfg := mkCfg 64 0 0 0.
Definition c07_mut : list op :=
  [OpPut [1] [10;10;10;10;10;10;10;10;10;10;10;10;10;10;10;10;10;10;10;10]; OpPut [2] [20]; OpPut [1] [11;11;11;11;11;11;11;11;11;11;11;11;11;11;11;11;11;11;11;11;11;11];
   OpPut [3] [30;30;30;30;30;30;30;30;30;30;30;30;30;30;30;30;30;30;30;30;30;30;30;30]; OpDel [2]; OpPut [4] [40]; OpPut [5] [50]].
Definition c07_tail : list op := [OpMerge [0; 1; 2; 3; 4; 5; 6; 7; 8]; OpRestart c07_cfg].
Definition dump_of (d : db) : list (bytes * bytes) :=
  map (fun k => (k, match snd (fst (db_get d k)) with inl v => 1 :: v | inr _ => [0] end)) (db_list_keys d).
Fixpoint dumps_eqb (a b : list (bytes * bytes)) : bool :=
  match a, b with
  | [], [] => true
  | (k1, v1) :: a', (k2, v2) :: b' => bytes_eqb k1 k2 && bytes_eqb v1 v2 && dumps_eqb a' b'
  | _, _ => false
  end.
Example c07_every_crash_point_recovers :
  match db_open c07_cfg empty_disk with
  | (OpenOk d k, ev0) =>
      let '(s1, _, ev1) := run (d, k) c07_mut in
      let '(s2, _, ev2) := run s1 c07_tail in
      let evs := ev0 ++ ev1 ++ ev2 in
      let k0 := length (ev0 ++ ev1) in
      (20 < length ev2)%nat /\
      forallb (fun i => match crash_open c07_cfg evs (k0 + i) CutNone with
                        | (OpenOk d' _, _) => dumps_eqb (dump_of d') (dump_of (fst s1)) && (3 <=? len (dump_of d'))
                        | _ => false
                        end) (seq 0 (S (length ev2))) = true
  | _ => False
  end.
Proof. vm_compute. split; [repeat constructor|reflexivity]. Qed.
