(* C15 — Caller buffers are never retained or modified; returned values never change.
   Property theorems only.  Model: model/RefHeap.v - the API boundary with explicit memory cells. *)
From Coq Require Import List NArith Bool.
From KV Require Import Bytes RefHeap RefHeapProofs.
Import ListNotations.

(* For every sequence of Put / Delete / Get calls by a caller that passes the SAME key buffer and the
   SAME value buffer to every call, overwrites both with arbitrary bytes after every return, and writes
   arbitrary bytes into every slice Get returned: each result and the final contents of the engine are
   exactly those of the value-semantic run in which nothing is ever overwritten - for every choice of
   the overwriting bytes. *)
Theorem C15_hostile_caller_cannot_affect_the_engine :
  forall ops w' rs, hrun w_init ops = (w', rs) ->
    rs = snd (vrun [] ops) /\ w_abs w' = fst (vrun [] ops).
Proof.
  intros ops w' rs H. destruct (hrun_refines ops w_init w' rs w_init_inv H) as (_ & A & B). auto.
Qed.
Print Assumptions C15_hostile_caller_cannot_affect_the_engine.

(* Every memory cell other than the caller's two buffers keeps its content through every later call:
   the engine never writes into a slice it returned earlier (what the caller wrote there stays), nor
   into anything else that already exists. *)
Theorem C15_returned_slices_are_never_modified :
  forall ops w w' rs a, WInv w -> hrun w ops = (w', rs) ->
    a < length (w_heap w) -> a <> w_kbuf w -> a <> w_vbuf w ->
    deref (w_heap w') a = deref (w_heap w) a.
Proof. exact hrun_keeps_cells. Qed.
Print Assumptions C15_returned_slices_are_never_modified.

(* Non-vacuity: one buffer pair reused, scribbled with 0xEE / 0xDD, a returned slice poisoned. *)
Example c15_run :
  let ops := [HPut [107] [1; 2] [238] [221; 221]; HGet [107] [238] [255; 255]; HPut [107] [3] [238] [221];
              HGet [107] [238] [0]; HDel [107] [238]; HGet [107] [238] []]%N in
  snd (hrun w_init ops) = [None; Some [1; 2]; None; Some [3]; None; None]%N /\
  deref (w_heap (fst (hrun w_init ops))) 4 = [255; 255]%N.
Proof. vm_compute. split; reflexivity. Qed.
