(* C14 — Behaviour is independent of index type, shard count, I/O type and limits. *)
From KV Require Import Bytes GenConsts Chunk Record Engine Script AMapLemmas EngineInv EngineBatch
  EngineRefine EngineLog EngineRecover.
Open Scope N_scope.

(* two scripts that differ only in the configurations their restarts reopen with *)
Definition erase (o : op) : op :=
  match o with OpRestart _ => OpRestart (mkCfg 0 0 0 0) | _ => o end.

Lemma sstep_erase m o : sstep m (erase o) = sstep m o.
Proof. destruct o; reflexivity. Qed.
Lemma srun_erase : forall ops m, srun m (map erase ops) = srun m ops.
Proof. induction ops as [|o ops IH]; intros m; cbn [map srun]; [reflexivity|].
  rewrite sstep_erase. destruct (sstep m o) as [m' r]. rewrite IH. reflexivity. Qed.
Lemma op_ok_erase o : op_ok o -> op_ok (erase o).
Proof. destruct o; auto. Qed.

(* Any two runs of the same operation sequence - started under ANY two configurations
   (file-size limit, sync strategy, bytes-per-sync, I/O type) and reopened at the same points
   with ANY, independently chosen, configurations - return the same results: every value,
   every error, every key list (hence every iteration order), every recovered mapping.
   The index type and the shard count do not occur in the engine model at all: the engine sees
   one ordered map (that the sharded index of every type refines it is the subject of C10). *)
Theorem C14_results_independent_of_configuration :
  forall c1 c2 ops1 ops2 d1 k1 e1 d2 k2 e2 s1 rs1 ev1 s2 rs2 ev2,
  Forall op_ok ops1 -> Forall op_ok ops2 -> map erase ops1 = map erase ops2 ->
  db_open c1 empty_disk = (OpenOk d1 k1, e1) -> db_open c2 empty_disk = (OpenOk d2 k2, e2) ->
  run (d1, k1) ops1 = (s1, rs1, ev1) -> run (d2, k2) ops2 = (s2, rs2, ev2) ->
  map proj rs1 = map proj rs2.
Proof.
  intros c1 c2 ops1 ops2 d1 k1 e1 d2 k2 e2 s1 rs1 ev1 s2 rs2 ev2 Hok1 Hok2 Hsame Ho1 Ho2 Hr1 Hr2.
  destruct (open_empty_log c1) as (d10 & k10 & e10 & Ho10 & HL1 & Hnm1).
  destruct (open_empty_log c2) as (d20 & k20 & e20 & Ho20 & HL2 & Hnm2).
  rewrite Ho1 in Ho10. injection Ho10 as -> -> _. rewrite Ho2 in Ho20. injection Ho20 as -> -> _.
  rewrite (proj1 (run_log ops1 _ _ [] _ _ _ HL1 Hnm1 Hok1 Hr1)).
  rewrite (proj1 (run_log ops2 _ _ [] _ _ _ HL2 Hnm2 Hok2 Hr2)).
  rewrite <- (srun_erase ops1), <- (srun_erase ops2), Hsame. reflexivity.
Qed.
Print Assumptions C14_results_independent_of_configuration.

(* the same for scripts with merges (and no restart): results do not depend on the configuration *)
Theorem C14_results_independent_with_merges :
  forall c1 c2 ops d1 k1 e1 d2 k2 e2 s1 rs1 ev1 s2 rs2 ev2,
  Forall no_restart ops ->
  db_open c1 empty_disk = (OpenOk d1 k1, e1) -> db_open c2 empty_disk = (OpenOk d2 k2, e2) ->
  run (d1, k1) ops = (s1, rs1, ev1) -> run (d2, k2) ops = (s2, rs2, ev2) ->
  map proj rs1 = map proj rs2.
Proof.
  intros c1 c2 ops d1 k1 e1 d2 k2 e2 s1 rs1 ev1 s2 rs2 ev2 Hnr Ho1 Ho2 Hr1 Hr2.
  destruct (open_empty c1) as (d10 & k10 & e10 & Ho10 & HI1 & HR1).
  destruct (open_empty c2) as (d20 & k20 & e20 & Ho20 & HI2 & HR2).
  rewrite Ho1 in Ho10. injection Ho10 as -> -> _. rewrite Ho2 in Ho20. injection Ho20 as -> -> _.
  rewrite (proj1 (run_refines ops _ _ [] _ _ _ HI1 HR1 Hnr Hr1)).
  rewrite (proj1 (run_refines ops _ _ [] _ _ _ HI2 HR2 Hnr Hr2)). reflexivity.
Qed.
Print Assumptions C14_results_independent_with_merges.

Example C14_nonvacuous :
  map erase [OpPut [1] [2]; OpRestart (mkCfg 64 1 0 1); OpGet [1]]
  = map erase [OpPut [1] [2]; OpRestart (mkCfg 4096 0 0 0); OpGet [1]].
Proof. reflexivity. Qed.
