(* C14 — Behaviour is independent of index type, shard count, I/O type and limits. *)
From KV Require Import Bytes GenConsts Chunk Record Engine Script AMapLemmas EngineInv EngineBatch
  EngineRefine EngineLog EngineRecover EngineCrash EngineOpen EngineAdopt EngineMerge EngineKeep EngineMergeRun Index IndexProofs ShardProofs.
From Coq Require Import ZArith.
Open Scope N_scope.

(* two scripts that differ only in the configurations their restarts reopen with *)
Definition erase (o : op) : op :=
  match o with OpRestart _ => OpRestart (mkCfg 0 0 0 0) | _ => o end.

Lemma sstep_erase m o : sstep m (erase o) = sstep m o.
Proof. destruct o; reflexivity. Qed.
Lemma srun_erase : forall ops m, srun m (map erase ops) = srun m ops.
Proof. induction ops as [|o ops IH]; intros m; cbn [map srun]; [reflexivity|].
  rewrite sstep_erase. destruct (sstep m o) as [m' r]. rewrite IH. reflexivity. Qed.
Lemma op_ok_erase o : op_ok o -> op_ok (erase o).
Proof. destruct o; auto. Qed.

(* Any two runs of the same operation sequence - started under ANY two configurations
   (file-size limit, sync strategy, bytes-per-sync, I/O type) and reopened at the same points
   with ANY, independently chosen, configurations - return the same results: every value,
   every error, every key list (hence every iteration order), every recovered mapping.
   The index type and the shard count do not occur in the engine model at all: the engine sees
   one ordered map (that the sharded index of every type refines it is the subject of C10). *)
Theorem C14_results_independent_of_configuration :
  forall c1 c2 ops1 ops2 d1 k1 e1 d2 k2 e2 s1 rs1 ev1 s2 rs2 ev2,
  Forall op_ok ops1 -> Forall op_ok ops2 -> map erase ops1 = map erase ops2 ->
  db_open c1 empty_disk = (OpenOk d1 k1, e1) -> db_open c2 empty_disk = (OpenOk d2 k2, e2) ->
  run (d1, k1) ops1 = (s1, rs1, ev1) -> run (d2, k2) ops2 = (s2, rs2, ev2) ->
  map proj rs1 = map proj rs2.
Proof.
  intros c1 c2 ops1 ops2 d1 k1 e1 d2 k2 e2 s1 rs1 ev1 s2 rs2 ev2 Hok1 Hok2 Hsame Ho1 Ho2 Hr1 Hr2.
  destruct (open_empty_log c1) as (d10 & k10 & e10 & Ho10 & HL1 & Hnm1).
  destruct (open_empty_log c2) as (d20 & k20 & e20 & Ho20 & HL2 & Hnm2).
  rewrite Ho1 in Ho10. injection Ho10 as -> -> _. rewrite Ho2 in Ho20. injection Ho20 as -> -> _.
  rewrite (proj1 (run_log ops1 _ _ [] _ _ _ HL1 Hnm1 Hok1 Hr1)).
  rewrite (proj1 (run_log ops2 _ _ [] _ _ _ HL2 Hnm2 Hok2 Hr2)).
  rewrite <- (srun_erase ops1), <- (srun_erase ops2), Hsame. reflexivity.
Qed.
Print Assumptions C14_results_independent_of_configuration.

(* the same for scripts with merges (and no restart): results do not depend on the configuration *)
Theorem C14_results_independent_with_merges :
  forall c1 c2 ops d1 k1 e1 d2 k2 e2 s1 rs1 ev1 s2 rs2 ev2,
  Forall no_restart ops ->
  db_open c1 empty_disk = (OpenOk d1 k1, e1) -> db_open c2 empty_disk = (OpenOk d2 k2, e2) ->
  run (d1, k1) ops = (s1, rs1, ev1) -> run (d2, k2) ops = (s2, rs2, ev2) ->
  map proj rs1 = map proj rs2.
Proof.
  intros c1 c2 ops d1 k1 e1 d2 k2 e2 s1 rs1 ev1 s2 rs2 ev2 Hnr Ho1 Ho2 Hr1 Hr2.
  destruct (open_empty c1) as (d10 & k10 & e10 & Ho10 & HI1 & HR1).
  destruct (open_empty c2) as (d20 & k20 & e20 & Ho20 & HI2 & HR2).
  rewrite Ho1 in Ho10. injection Ho10 as -> -> _. rewrite Ho2 in Ho20. injection Ho20 as -> -> _.
  rewrite (proj1 (run_refines ops _ _ [] _ _ _ HI1 HR1 Hnr Hr1)).
  rewrite (proj1 (run_refines ops _ _ [] _ _ _ HI2 HR2 Hnr Hr2)). reflexivity.
Qed.
Print Assumptions C14_results_independent_with_merges.

(* The same with merges AND restarts anywhere: two runs that issue the same calls - under any configurations,
   reopening under any configurations, each Merge scanning its input files in whatever order (the engine
   ranges over a Go map) - return the same results.  Corollary of the invariant G of C06. *)
Definition erase2 (o : op) : op :=
  match o with OpRestart _ => OpRestart (mkCfg 0 0 0 0) | OpMerge _ => OpMerge [] | _ => o end.
Lemma sstep_erase2 m o : sstep m (erase2 o) = sstep m o.
Proof. destruct o; reflexivity. Qed.
Lemma srun_erase2 : forall ops m, srun m (map erase2 ops) = srun m ops.
Proof. induction ops as [|o ops IH]; intros m; cbn [map srun]; [reflexivity|].
  rewrite sstep_erase2. destruct (sstep m o) as [m' r]. rewrite IH. reflexivity. Qed.

Theorem C14_results_independent_with_merges_and_restarts :
  forall c1 c2 ops1 ops2 d1 k1 e1 d2 k2 e2 s1 rs1 ev1 s2 rs2 ev2,
  map erase2 ops1 = map erase2 ops2 ->
  db_open c1 empty_disk = (OpenOk d1 k1, e1) -> db_open c2 empty_disk = (OpenOk d2 k2, e2) ->
  ops_ok (d1, k1) ops1 -> ops_ok (d2, k2) ops2 ->
  run (d1, k1) ops1 = (s1, rs1, ev1) -> run (d2, k2) ops2 = (s2, rs2, ev2) ->
  map proj rs1 = map proj rs2.
Proof.
  intros c1 c2 ops1 ops2 d1 k1 e1 d2 k2 e2 s1 rs1 ev1 s2 rs2 ev2 Hsame Ho1 Ho2 Hok1 Hok2 Hr1 Hr2.
  destruct (open_empty_G c1) as (d10 & k10 & e10 & Ho10 & HG1).
  destruct (open_empty_G c2) as (d20 & k20 & e20 & Ho20 & HG2).
  rewrite Ho1 in Ho10. injection Ho10 as <- <- _. rewrite Ho2 in Ho20. injection Ho20 as <- <- _.
  rewrite (proj1 (run_G ops1 _ _ [] _ _ _ HG1 Hok1 Hr1)).
  rewrite (proj1 (run_G ops2 _ _ [] _ _ _ HG2 Hok2 Hr2)).
  rewrite <- (srun_erase2 ops1), <- (srun_erase2 ops2), Hsame. reflexivity.
Qed.
Print Assumptions C14_results_independent_with_merges_and_restarts.

(* Index type and shard count: for the same index content, ANY two assignments of keys to shards, any two
   shard counts and any two kinds of shard iterator (B-tree, skip list, hash map) give an iterator with the
   same observations after every legal call sequence - both equal the reference iterator of C10. *)
Theorem C14_iteration_independent_of_index_type_and_sharding :
  forall shf1 n1 kind1 shf2 n2 kind2, (0 < n1)%nat -> (0 < n2)%nat ->
  forall rev prefix ix, sorted ix -> forall ops,
    legal rev (refF rev prefix ix) CAll ops ->
    let a := di_new kind1 rev prefix (shards_of shf1 n1 rev ix) in
    let b := di_new kind2 rev prefix (shards_of shf2 n2 rev ix) in
    di_obs a = di_obs b /\ di_run a ops = di_run b ops.
Proof.
  intros shf1 n1 kind1 shf2 n2 kind2 H1 H2 rev prefix ix Hix ops Hl.
  destruct (iterator_refines shf1 n1 H1 kind1 rev prefix ix Hix ops Hl) as [A1 A2].
  destruct (iterator_refines shf2 n2 H2 kind2 rev prefix ix Hix ops Hl) as [B1 B2].
  cbv zeta. split; congruence.
Qed.
Print Assumptions C14_iteration_independent_of_index_type_and_sharding.

(* Shard count: for EVERY requested ShardNum (Go int: zero, negative, beyond the maximum included)
   NewShardedIndex runs with 2^k shards, k <= 10, at least as many as requested unless the maximum of 1024
   is reached, and the shard that locateShard computes for any hash (hash & (n-1)) exists. *)
Theorem C14_every_requested_shard_count_gives_a_usable_index :
  forall cap : Z,
  let n := next_power_of_two cap in
  (exists k, (0 <= k <= 10)%Z /\ n = (2 ^ k)%Z) /\ (cap <= n \/ n = 1024)%Z /\
  forall hash : N, (0 <= shard_of_hash n hash < n)%Z.
Proof. exact shard_count_spec. Qed.
Print Assumptions C14_every_requested_shard_count_gives_a_usable_index.

(* Point operations: for the same index content, ANY two assignments of keys to shards and ANY two requested
   shard counts, every sequence of Put / Get / Delete / Size on the sharded index returns the same results -
   those of the one ordered map the engine model uses - and leaves the shards of the same map. *)
Theorem C14_index_operations_independent_of_sharding :
  forall shf1 cap1 shf2 cap2 ix ops, AMapLemmas.sorted ix ->
  let n1 := Z.to_nat (next_power_of_two cap1) in let n2 := Z.to_nat (next_power_of_two cap2) in
  sh_run shf1 n1 (shards_of shf1 n1 false ix) ops = (shards_of shf1 n1 false (fst (flat_run ix ops)), snd (flat_run ix ops)) /\
  sh_run shf2 n2 (shards_of shf2 n2 false ix) ops = (shards_of shf2 n2 false (fst (flat_run ix ops)), snd (flat_run ix ops)).
Proof.
  intros shf1 cap1 shf2 cap2 ix ops Hs. cbv zeta. split.
  - exact (sharded_refines_flat shf1 _ (shard_count_positive cap1) ops ix Hs).
  - exact (sharded_refines_flat shf2 _ (shard_count_positive cap2) ops ix Hs).
Qed.
Print Assumptions C14_index_operations_independent_of_sharding.

Example C14_shard_counts :
  map next_power_of_two [0; -1; -1099511627776; 1; 2; 3; 16; 17; 1000; 1024; 1025; 5000; 1099511627776]%Z
  = [1; 1; 1; 1; 2; 4; 16; 32; 1024; 1024; 1024; 1024; 1024]%Z.
Proof. vm_compute. reflexivity. Qed.

Example C14_nonvacuous :
  map erase [OpPut [1] [2]; OpRestart (mkCfg 64 1 0 1); OpGet [1]]
  = map erase [OpPut [1] [2]; OpRestart (mkCfg 4096 0 0 0); OpGet [1]].
Proof. reflexivity. Qed.
