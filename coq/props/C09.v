(* C09 — placeholder while the lock-order development is being built *)
From KV Require Import GenAtomic.
Theorem C09_placeholder : True. Proof. exact I. Qed.
Print Assumptions C09_placeholder.
