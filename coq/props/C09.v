(* C09 — The public API is free of data races, panics and deadlocks under concurrent use.
   Property theorems only: the deadlock part.  Model: model/LockOrder.v; gen/GenLockPaths.v is
   regenerated from the engine's exported calls on every run (translator T2b).  Data races and panics
   are searched for at run time (race detector, recover, watchdog): see the check. *)
From Coq Require Import List Arith Bool.
From KV Require Import LockOrder LockOrderProofs GenLockPaths.
Import ListNotations.

(* Lock-ordering discipline: a thread takes a lock only if it ranks above every lock it holds (hence
   never one it already holds - Go's RWMutex is not reentrant), releases only what it holds and ends
   holding nothing.  For ANY number of threads and ANY schedule: a state in which every thread follows
   the discipline is not a deadlock, every step keeps the discipline, so no reachable state is one. *)
Theorem C09_lock_ordering_excludes_deadlock :
  forall B s sched, Disc s -> Bounded B s -> ~ deadlocked (sys_run s sched).
Proof. exact never_deadlocked. Qed.
Print Assumptions C09_lock_ordering_excludes_deadlock.

(* a client that issues any sequence of calls each of which follows the discipline follows it too *)
Theorem C09_clients_compose :
  forall calls, Forall (fun c => ordered_b [] c = true) calls -> ordered_b [] (concat calls) = true.
Proof. exact client_follows_discipline. Qed.
Print Assumptions C09_clients_compose.

(* Every branch-free path of every exported call of the engine (Put, Get, Delete, ListKeys, Fold, Stat,
   Sync, Merge, Backup, Close, the iterator calls, and a whole batch session NewBatch .. Commit), as
   extracted from the current source: follows the discipline with ranks DB.mu < Batch.mu < shard lock. *)
Theorem C09_engine_calls_follow_the_discipline :
  forallb (ordered_b []) api_paths = true /\
  forallb (fun p => forallb (fun e => match e with Acq l | Rel l => Nat.ltb (rank l) 4 end) p) api_paths = true /\
  length api_paths = api_path_count /\ 30 <= api_path_count.
Proof. vm_compute. repeat split; try reflexivity. repeat constructor. Qed.
Print Assumptions C09_engine_calls_follow_the_discipline.

(* hence: any number of clients, each issuing any sequence of these calls, never deadlock on the
   engine's locks, under any schedule *)
Theorem C09_engine_clients_never_deadlock :
  forall (clients : list (list (list ev))) sched,
    (forall calls, In calls clients -> forall c, In c calls -> In c api_paths) ->
    ~ deadlocked (sys_run (map (fun calls => mkThr [] (concat calls)) clients) sched).
Proof.
  intros clients sched Hall. destruct C09_engine_calls_follow_the_discipline as (Hord & Hbound & _).
  rewrite forallb_forall in Hord, Hbound.
  apply (never_deadlocked 4).
  - apply Forall_forall. intros t Ht. apply in_map_iff in Ht. destruct Ht as (calls & <- & Hc). cbn [t_held t_rest].
    apply client_follows_discipline. apply Forall_forall. intros c Hcc. apply Hord. exact (Hall calls Hc c Hcc).
  - intros t Ht. apply in_map_iff in Ht. destruct Ht as (calls & <- & Hc). cbn [t_held t_rest]. split; [intros l []|].
    intros l Hl. apply in_concat in Hl. destruct Hl as (c & Hcc & Hlc).
    pose proof (Hbound c (Hall calls Hc c Hcc)) as Hb. rewrite forallb_forall in Hb. specialize (Hb _ Hlc). cbn in Hb.
    apply Nat.ltb_lt. exact Hb.
Qed.
Print Assumptions C09_engine_clients_never_deadlock.

(* Non-vacuity: the discipline rejects a call that re-acquires the engine lock (what calling
   getValueByPosition from inside a batch would do) and a lock-order inversion. *)
Example c09_rejects :
  ordered_b [] [Acq (1, 0); Acq (1, 0); Rel (1, 0); Rel (1, 0)] = false /\
  ordered_b [] [Acq (3, 0); Acq (1, 0); Rel (1, 0); Rel (3, 0)] = false /\
  ordered_b [] [Acq (1, 0); Acq (3, 0); Rel (3, 0); Rel (1, 0)] = true.
Proof. vm_compute. repeat split; reflexivity. Qed.
