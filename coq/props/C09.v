(* C09 — The public API is free of data races, panics and deadlocks under concurrent use.
   Property theorems only: the deadlock part (model/LockOrder.v; gen/GenLockPaths.v is regenerated
   from the engine's exported calls on every run by translator T2b) and the data-race part at the
   level of locksets (model/LockSet.v; gen/GenAccess.v is regenerated on every run by translator
   T2c: every read and write of a field of DB, Batch, DataFile, MMap and of an index shard on every
   path of every exported call, with the locks held there).  Panics, and races the lockset
   abstraction cannot see, are searched for at run time (race detector, recover, watchdog): see the check. *)
From Coq Require Import List Arith Bool.
From KV Require Import LockOrder LockOrderProofs GenLockPaths LockSet LockSetProofs GenAccess.
Import ListNotations.

(* Lock-ordering discipline: a thread takes a lock only if it ranks above every lock it holds (hence
   never one it already holds - Go's RWMutex is not reentrant), releases only what it holds and ends
   holding nothing.  For ANY number of threads and ANY schedule: a state in which every thread follows
   the discipline is not a deadlock, every step keeps the discipline, so no reachable state is one. *)
Theorem C09_lock_ordering_excludes_deadlock :
  forall B s sched, Disc s -> Bounded B s -> ~ deadlocked (sys_run s sched).
Proof. exact never_deadlocked. Qed.
Print Assumptions C09_lock_ordering_excludes_deadlock.

(* a client that issues any sequence of calls each of which follows the discipline follows it too *)
Theorem C09_clients_compose :
  forall calls, Forall (fun c => ordered_b [] c = true) calls -> ordered_b [] (concat calls) = true.
Proof. exact client_follows_discipline. Qed.
Print Assumptions C09_clients_compose.

(* Every branch-free path of every exported call of the engine (Put, Get, Delete, ListKeys, Fold, Stat,
   Sync, Merge, Backup, Close, the iterator calls, and a whole batch session NewBatch .. Commit), as
   extracted from the current source: follows the discipline with ranks DB.mu < Batch.mu < shard lock. *)
Theorem C09_engine_calls_follow_the_discipline :
  forallb (ordered_b []) api_paths = true /\
  forallb (fun p => forallb (fun e => match e with Acq l | Rel l => Nat.ltb (rank l) 4 end) p) api_paths = true /\
  length api_paths = api_path_count /\ 30 <= api_path_count.
Proof. vm_compute. repeat split; try reflexivity. repeat constructor. Qed.
Print Assumptions C09_engine_calls_follow_the_discipline.

(* hence: any number of clients, each issuing any sequence of these calls, never deadlock on the
   engine's locks, under any schedule *)
Theorem C09_engine_clients_never_deadlock :
  forall (clients : list (list (list ev))) sched,
    (forall calls, In calls clients -> forall c, In c calls -> In c api_paths) ->
    ~ deadlocked (sys_run (map (fun calls => mkThr [] (concat calls)) clients) sched).
Proof.
  intros clients sched Hall. destruct C09_engine_calls_follow_the_discipline as (Hord & Hbound & _).
  rewrite forallb_forall in Hord, Hbound.
  apply (never_deadlocked 4).
  - apply Forall_forall. intros t Ht. apply in_map_iff in Ht. destruct Ht as (calls & <- & Hc). cbn [t_held t_rest].
    apply client_follows_discipline. apply Forall_forall. intros c Hcc. apply Hord. exact (Hall calls Hc c Hcc).
  - intros t Ht. apply in_map_iff in Ht. destruct Ht as (calls & <- & Hc). cbn [t_held t_rest]. split; [intros l []|].
    intros l Hl. apply in_concat in Hl. destruct Hl as (c & Hcc & Hlc).
    pose proof (Hbound c (Hall calls Hc c Hcc)) as Hb. rewrite forallb_forall in Hb. specialize (Hb _ Hlc). cbn in Hb.
    apply Nat.ltb_lt. exact Hb.
Qed.
Print Assumptions C09_engine_clients_never_deadlock.

(* Lockset discipline: if every two entries of a table that may touch the same memory, one of them
   writing (and not both atomically), hold a common lock, one of them exclusively, then threads whose
   accesses are entries of the table performed with the listed locks held never reach a state in which
   two of them are about to perform conflicting accesses - ANY number of threads, ANY programs, ANY
   schedule of sync.RWMutex-style locks. *)
Theorem C09_lockset_discipline_excludes_data_races :
  forall tbl progs sched,
    lockset_ok tbl = true -> Forall (annotated tbl []) progs -> ~ race (arun (map (mkAThr []) progs) sched).
Proof. exact lockset_discipline_excludes_races. Qed.
Print Assumptions C09_lockset_discipline_excludes_data_races.

(* The table extracted from the current source follows the discipline; the extraction was complete
   (no path set was cut, no lock operation was found unbalanced) and is not trivial. *)
Theorem C09_engine_accesses_follow_the_lockset_discipline :
  lockset_ok gen_accesses = true /\ gen_truncated = false /\ gen_note_count = 0 /\
  length gen_accesses = gen_access_count /\ Nat.leb 100 gen_access_count = true /\ Nat.leb 30 gen_write_count = true /\ Nat.leb 20 gen_entry_count = true.
Proof. vm_compute. repeat split; reflexivity. Qed.
Print Assumptions C09_engine_accesses_follow_the_lockset_discipline.

(* hence: clients whose accesses are those of the table never race *)
Theorem C09_engine_clients_never_race :
  forall progs sched,
    Forall (annotated gen_accesses []) progs -> ~ race (arun (map (mkAThr []) progs) sched).
Proof.
  intros progs sched H. apply (lockset_discipline_excludes_races gen_accesses); [|exact H].
  exact (proj1 C09_engine_accesses_follow_the_lockset_discipline).
Qed.
Print Assumptions C09_engine_clients_never_race.

(* Non-vacuity of the lockset part: what the discipline rejects and accepts, and a two-thread program
   over the extracted table that is annotated faithfully (a Put-like writer and a Stat-like reader). *)
Example c09_lockset_nonvacuous :
  lockset_ok [mkAcc 0 0 true false [(0, false)]] = false /\
  lockset_ok [mkAcc 0 0 true false [(0, true)]; mkAcc 0 0 false false []] = false /\
  lockset_ok [mkAcc 0 0 true false [(0, true)]; mkAcc 0 0 false false [(0, false)]] = true /\
  exists a b, In a gen_accesses /\ In b gen_accesses /\ conflict a b = true /\
    annotated gen_accesses [] [LAcq 0 true; Touch a; LRel 0] /\ annotated gen_accesses [] [LAcq 0 false; Touch b; LRel 0].
Proof.
  split; [reflexivity|]. split; [reflexivity|]. split; [reflexivity|].
  pose (w := existsb (fun a => existsb (fun b => conflict a b && forallb (fun lx => Nat.eqb (fst lx) 0 && Bool.eqb (snd lx) true && Nat.eqb (length (a_held a)) 1) (a_held a)
                       && forallb (fun lx => Nat.eqb (fst lx) 0 && Bool.eqb (snd lx) false && Nat.eqb (length (a_held b)) 1) (a_held b)
                       && negb (Nat.eqb (length (a_held a)) 0) && negb (Nat.eqb (length (a_held b)) 0)) gen_accesses) gen_accesses).
  assert (Hw : w = true) by (vm_compute; reflexivity).
  unfold w in Hw. apply existsb_exists in Hw. destruct Hw as (a & Ha & Hw). apply existsb_exists in Hw. destruct Hw as (b & Hb & Hw).
  do 4 (apply andb_true_iff in Hw; destruct Hw as [Hw ?]).
  exists a, b. split; [exact Ha|]. split; [exact Hb|]. split; [exact Hw|].
  assert (Hone : forall (x : access) m, forallb (fun lx => Nat.eqb (fst lx) 0 && Bool.eqb (snd lx) m && Nat.eqb (length (a_held x)) 1) (a_held x) = true ->
                 forall lx, In lx (a_held x) -> In lx [(0, m)]).
  { intros x m Hf lx Hin. rewrite forallb_forall in Hf. specialize (Hf lx Hin).
    apply andb_true_iff in Hf. destruct Hf as [Hf _]. apply andb_true_iff in Hf. destruct Hf as [E1 E2].
    apply Nat.eqb_eq in E1. apply Bool.eqb_prop in E2. destruct lx as [l x']. cbn in E1, E2. subst. left. reflexivity. }
  split; cbn [annotated drop_lock]; (split; [assumption|]); (split; [|exact I]); eapply Hone; eassumption.
Qed.

(* Non-vacuity: the discipline rejects a call that re-acquires the engine lock (what calling
   getValueByPosition from inside a batch would do) and a lock-order inversion. *)
Example c09_rejects :
  ordered_b [] [Acq (1, 0); Acq (1, 0); Rel (1, 0); Rel (1, 0)] = false /\
  ordered_b [] [Acq (3, 0); Acq (1, 0); Rel (1, 0); Rel (3, 0)] = false /\
  ordered_b [] [Acq (1, 0); Acq (3, 0); Rel (3, 0); Rel (1, 0)] = true.
Proof. vm_compute. repeat split; reflexivity. Qed.
