(* C18 — Hint files faithfully index the merged data files.  Property theorems only. *)
From KV Require Import Bytes GenConsts Chunk Record Engine Script AMapLemmas EngineInv EngineRefine EngineLog EngineRecover
  EngineOpen EngineAdopt EngineMerge EngineMergeRun EngineHint.
Open Scope N_scope.

(* After every successful Merge (any database state reachable by any history, any scan order covering
   the files, any file-size limit hence any number of output files, keys of any length and content):
   the hint file has exactly one entry per record of the rewritten files, in the same order, naming
   that record's key; every entry's location is a location at which the rewritten file with the
   entry's file id holds a plain, live (not deleted, not batch-tagged) record with exactly that key. *)
Theorem C18_hint_entries_name_their_records :
  forall d k M order d' k' evs,
    LogInv d M -> order_ok d order -> db_merge d k order = (d', k', None, evs) ->
    exists md h, k_merge k' = Some md /\ m_hint md = Some h /\
      map fst (hf_recs h) = map r_key (files_log (m_files md)) /\
      forall key p, In (key, p) (hf_recs h) ->
        exists f r, older_get (m_files md) (p_fid p) = Some f /\
                    lf_lookup (lf_recs f) (p_bid p) (p_off p) = Some r /\ r_key r = key /\ plain_live r.
Proof.
  intros d k M order d' k' evs HL Hord Hm.
  destruct (db_merge_out d k M order d' k' None evs HL (fun _ => Hord) Hm) as (_ & _ & _ & _ & _ & md & Hk & Hmd).
  pose proof Hmd as (n & h & _ & Hh & _). exists md, h. split; [exact Hk|]. split; [exact Hh|].
  exact (hint_entries_faithful md _ M h Hmd Hh).
Qed.
Print Assumptions C18_hint_entries_name_their_records.

(* Loading the index from the hint entries and then scanning only the files written after the merge
   builds the same index - the same keys with the same positions and sizes - as scanning every file
   of the directory record by record. *)
Theorem C18_hint_load_equals_scan :
  forall c aid af older files n mid tot rc,
    files = below n files ++ from_ mid files ->
    Forall (fun rp => plain_live (fst rp)) (recs_of (below n files)) ->
    d_index (fst (replay_files (mkDb c aid af older (hint_index (hint_of (recs_of (below n files))) []) 0 tot rc) []
                               (from_ mid files) 0)) =
    d_index (fst (replay_files (mkDb c aid af older [] 0 0 0) [] files 0)).
Proof. exact hint_index_equals_scan_index. Qed.
Print Assumptions C18_hint_load_equals_scan.

(* the index a hint file loads is the index the hint entries describe: load_hint = hint_index *)
Theorem C18_load_hint_index :
  forall H d x, d_index (fst (load_hint d H x)) = hint_index H (d_index d).
Proof. exact load_hint_index. Qed.
Print Assumptions C18_load_hint_index.

(* Open through the hint (the adopting restart) and every later Open (which scans) return the same
   values for every key: both are the mapping before the restart (C06_step, OpRestart case). *)
Theorem C18_hint_open_then_scan_open :
  forall d k M c1 c2 s1 r1 e1 s2 r2 e2,
    G d k M ->
    step (d, k) (OpRestart c1) = (s1, r1, e1) -> step s1 (OpRestart c2) = (s2, r2, e2) ->
    G (fst s1) (snd s1) M /\ G (fst s2) (snd s2) M.
Proof.
  intros d k M c1 c2 [d1 k1] r1 e1 [d2 k2] r2 e2 HG H1 H2.
  destruct (step_G d k M (OpRestart c1) d1 k1 r1 e1 HG I H1) as [HG1 _].
  destruct (step_G d1 k1 M (OpRestart c2) d2 k2 r2 e2 HG1 I H2) as [HG2 _]. auto.
Qed.
Print Assumptions C18_hint_open_then_scan_open.

(* Non-vacuity: a merge whose output needs three files; the hint lists the five live keys. *)
Definition c18_cfg : cfg := mkCfg 64 0 0 0.
Definition c18_ops : list op :=
  [OpPut [1] [10;10;10;10;10;10;10;10;10;10;10;10;10;10;10;10;10;10;10;10]; OpPut [2] [20]; OpPut [1] [11;11;11;11;11;11;11;11;11;11;11;11;11;11;11;11;11;11;11;11;11;11];
   OpPut [3] [30;30;30;30;30;30;30;30;30;30;30;30;30;30;30;30;30;30;30;30;30;30;30;30]; OpDel [2]; OpPut [4] [40]; OpPut [5] [50]; OpPut [6] [60]].
(* Merge encodes the records it rewrites and the hint entries it writes through two scratch buffers of the engine
   (the record-header buffer, the hint-position buffer) while other clients write: every use of those buffers, as
   extracted from the current source with the locks held (translator T2c), follows the lockset discipline - the merge
   works on buffers no concurrent Put / Delete / batch touches (its temporary engine has a header buffer of its own;
   the hint buffer is used by the one running merge only). *)
From KV Require LockSet GenAccess.
Theorem C18_merge_encodes_through_private_buffers :
  let sel := fun a => Nat.eqb (LockSet.a_loc a) GenAccess.loc_db_header_scratch || Nat.eqb (LockSet.a_loc a) GenAccess.loc_db_hint_scratch in
  LockSet.lockset_ok (filter sel GenAccess.gen_accesses) = true /\
  Nat.leb 2 (length (filter sel GenAccess.gen_accesses)) = true /\ GenAccess.gen_truncated = false.
Proof. vm_compute. repeat split; reflexivity. Qed.
Print Assumptions C18_merge_encodes_through_private_buffers.

Example c18_hint_nonempty :
  match db_open c18_cfg empty_disk with
  | (OpenOk d k, _) =>
      let '(s', _, _) := run (d, k) c18_ops in
      let '(d', k', e, _) := db_merge (fst s') (snd s') [0; 1; 2; 3; 4; 5; 6; 7; 8; 9] in
      e = None /\
      match k_merge k' with
      | Some md => match m_hint md with
                   | Some h => map fst (hf_recs h) = [[1]; [3]; [4]; [5]; [6]] /\ (1 < len (m_files md))
                   | None => False end
      | None => False end
  | _ => False
  end.
Proof. vm_compute. repeat split; reflexivity. Qed.
