(* C01 — Reads return the latest acknowledged write (last-write-wins map semantics).
   Only statements, each closed by a lemma of proofs/, each followed by Print Assumptions. *)
From KV Require Import Bytes GenConsts Chunk Record Engine Script AMapLemmas EngineInv EngineBatch EngineRefine.
Open Scope N_scope.

(* For EVERY configuration (file-size limit, sync strategy, bytes-per-sync, I/O type; index type
   and shard count do not enter the engine model, see C14/C10) and EVERY finite script over
   Put / Get / Delete / ListKeys / Fold / Stat / Sync / batches (NewBatch; any Put/Delete/Get;
   Commit) / Merge, run on a freshly created database: the results - every returned value,
   key-not-found exactly for keys never written or last deleted, every error, the key lists,
   Stat.KeyNum - are those of the same script on a plain ordered map.  Values and keys are
   arbitrary byte strings of any length (records larger than the file limit, multi-block
   records: positions come from the chunk arithmetic proved in C11); rotations happen
   wherever the size estimate says so. *)
Theorem C01_reads_return_latest_write :
  forall c ops d k evs0 s' rs evs,
  Forall no_restart ops ->
  db_open c empty_disk = (OpenOk d k, evs0) ->
  run (d, k) ops = (s', rs, evs) ->
  map proj rs = map proj (srun [] ops).
Proof.
  intros c ops d k evs0 s' rs evs Hnr Hopen Hrun.
  destruct (open_empty c) as (d0 & k0 & e0 & Ho & HI & HR).
  rewrite Hopen in Ho. injection Ho as -> -> _.
  exact (proj1 (run_refines ops d0 k0 [] s' rs evs HI HR Hnr Hrun)).
Qed.
Print Assumptions C01_reads_return_latest_write.

(* The same from any reachable state: one step preserves the invariant and the abstraction. *)
Theorem C01_step_refines :
  forall d k m o d' k' r evs,
  Inv d -> R d m -> no_restart o -> step (d, k) o = ((d', k'), r, evs) ->
  Inv d' /\ R d' (fst (sstep m o)) /\ proj r = proj (snd (sstep m o)).
Proof. exact step_refines. Qed.
Print Assumptions C01_step_refines.

(* Non-vacuity: a concrete script with an overwrite, a delete, a batch and a merge meets the
   hypotheses, and its results are computed by the model. *)
(* "At every moment": the refinement above is about one step at a time; it carries over to several goroutines because
   the engine performs the log append and the matching index update of a Put, and the existence check, the append and the
   index removal of a Delete, inside ONE critical section of the engine lock - read off db.go on every run by translator
   T2 (gen/GenAtomic.v; 1 Lock, 2 deferred Unlock, 3 Unlock, 4 append, 5 index put, 6 index delete, 7 index get).
   (The interleaving theorem built on it is C08_linearizable.) *)
From KV Require GenAtomic.
Theorem C01_every_write_is_one_step_of_the_map :
  GenAtomic.lockseq_Put = [1; 2; 4; 5] /\ GenAtomic.lockseq_Delete = [1; 2; 7; 4; 6].
Proof. vm_compute. split; reflexivity. Qed.
Print Assumptions C01_every_write_is_one_step_of_the_map.

Example C01_nonvacuous :
  let ops := [OpPut [107] [1; 2]; OpPut [107] [3]; OpGet [107]; OpDel [107]; OpGet [107];
              OpBatch false 7 [BPut [97] [9]; BDel [97]; BPut [97] [8]; BGet [97]]; OpMerge [0]; OpGet [97]; OpList] in
  Forall no_restart ops /\
  map proj (srun [] ops) =
    [RErr None; RErr None; RVal (inl [3]); RErr None; RVal (inr EKeyNotFound);
     RBatch [RErr None; RErr None; RErr None; RVal (inl [8])] None; RMerge None; RVal (inl [8]); RKeys [[97]]].
Proof. split; [repeat constructor|vm_compute; reflexivity]. Qed.
