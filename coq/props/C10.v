(* C10 — placeholder while the refinement proof is being built *)
From KV Require Import Bytes GenConsts Chunk Record Engine Index.
Open Scope N_scope.
Example c10_smoke : True. Proof. exact I. Qed.
Theorem C10_placeholder : True. Proof. exact I. Qed.
Print Assumptions C10_placeholder.
