(* C10 — Iterators, ListKeys and Fold enumerate a sorted, complete, stable snapshot.
   Property theorems only; the model is model/Index.v, the proofs are in proofs/IndexProofs.v. *)
From Coq Require Import Sorting.Sorted.
From KV Require Import Bytes GenConsts Chunk Record Engine Index AMapLemmas IndexProofs.
From KV Require EngineInv.
Open Scope N_scope.

(* For every index content [ix] (the ordered map of the engine model), EVERY assignment of keys to
   shards [shf] and every shard count n > 0, each of the three kinds of shard iterator, both
   directions, every prefix, and every call sequence over Rewind / Seek t / Next in which each Seek
   target lies at or ahead of the cursor in iteration order ([legal]; no condition once the iterator is
   exhausted): (Valid, Key, position of Value) at creation and after every call are those of the
   reference iterator - a cut into [refF]: the snapshot in iteration order restricted to the keys
   with the prefix, where Rewind = everything, Next = everything after the current key, Seek t =
   everything at or after t. *)
Theorem C10_iterator_refines_reference :
  forall shf n, (0 < n)%nat -> forall kind rev prefix ix, sorted ix -> forall ops,
    legal rev (refF rev prefix ix) CAll ops ->
    let d0 := di_new kind rev prefix (shards_of shf n rev ix) in
    di_obs d0 = r_obs rev (refF rev prefix ix) CAll /\
    di_run d0 ops = rrun rev (refF rev prefix ix) CAll ops.
Proof. intros shf n Hn kind rev prefix ix Hix ops. exact (iterator_refines shf n Hn kind rev prefix ix Hix ops). Qed.
Print Assumptions C10_iterator_refines_reference.

(* What the reference yields: after k calls of Next a fresh (or rewound) iterator stands on the k-th
   element of the ordered, prefix-filtered snapshot - every key once, ascending (descending when
   reversed), nothing else, then exhausted ... *)
Theorem C10_every_key_once_in_order :
  forall rev L, ordered rev L -> forall k, robs rev L (cut_after rev L CAll (nexts k)) = nth_error L k.
Proof. exact traversal. Qed.
Print Assumptions C10_every_key_once_in_order.

(* ... and Seek t on a fresh or rewound iterator positions it on the first key >= t (<= t reversed). *)
Theorem C10_seek_positions_at_first_key_at_or_after :
  forall rev L t, robs rev L (CGe t) = hd_error (filter (fun x => at_or_after rev t (fst x)) L).
Proof. exact seek_first. Qed.
Print Assumptions C10_seek_positions_at_first_key_at_or_after.

(* the snapshot an iterator walks is ordered: the premise of the two theorems above *)
Theorem C10_snapshot_is_ordered :
  forall rev prefix ix, sorted ix -> ordered rev (refF rev prefix ix).
Proof. intros rev prefix ix H. unfold refF. apply ordered_filter. exact (ordered_of_sorted rev ix H). Qed.
Print Assumptions C10_snapshot_is_ordered.

(* ListKeys (and Fold, which reads the value of every key of the same walk) visit the same complete
   ordered snapshot: the forward snapshot without prefix is the index itself *)
Theorem C10_listkeys_is_the_forward_snapshot :
  forall d, db_list_keys d = map fst (refF false [] (d_index d)).
Proof.
  intros d. unfold db_list_keys, refF, snap. f_equal. symmetry.
  induction (d_index d) as [|x l IH]; [reflexivity|]. cbn [filter has_prefix]. f_equal. exact IH.
Qed.
Print Assumptions C10_listkeys_is_the_forward_snapshot.

(* Fold whose callback stops it after n items delivered exactly the first n pairs of the mapping, in ascending key
   order - for every database state that satisfies the engine invariant and every n (beyond the number of keys: all). *)
Theorem C10_fold_stopped_by_its_callback_visits_a_prefix :
  forall d m n, EngineInv.Inv d -> EngineInv.R d m ->
  exists d' evs, db_fold_n d n = (d', inl (firstn n m), evs) /\ EngineInv.Inv d' /\ EngineInv.R d' m.
Proof.
  intros d m n HI HR. destruct (EngineInv.db_fold_n_spec d m n HI HR) as (d' & evs & A & B & C & _).
  exists d', evs. auto.
Qed.
Print Assumptions C10_fold_stopped_by_its_callback_visits_a_prefix.

(* Non-vacuity: seven keys in four shards, a descending iterator with prefix "a", a legal sequence with
   two Seeks in a row, a Seek after Next and a Rewind after exhaustion. *)
Definition p0 : pos := mkPos 0 0 0 1.
Definition c10_ix : list (bytes * pos) :=
  [([97], p0); ([97; 97], p0); ([97; 98], p0); ([97; 98; 99], p0); ([98], p0); ([98; 97], p0); ([99], p0)].
Definition c10_shf (k : bytes) : nat := N.to_nat (fold_left N.add k 0).
Definition c10_ops : list iop := [INext; ISeek [97; 98]; ISeek [97; 97; 122]; INext; INext; INext; IRewind; INext].
Example c10_runs :
  let L := refF true [97] c10_ix in
  legal true L CAll c10_ops /\
  di_run (di_new KBTree true [97] (shards_of c10_shf 4 true c10_ix)) c10_ops = rrun true L CAll c10_ops /\
  map (fun o => option_map fst (snd o)) (rrun true L CAll c10_ops) =
    [Some [97; 98]; Some [97; 98]; Some [97; 97]; Some [97]; None; None; Some [97; 98; 99]; Some [97; 98]].
Proof. vm_compute. repeat split; try reflexivity; intros x H; try discriminate H; injection H as <-; reflexivity. Qed.
