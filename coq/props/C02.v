(* C02 — Clean restart preserves the exact key-value mapping, under any configuration. *)
From KV Require Import Bytes GenConsts Chunk Record Engine Script AMapLemmas EngineInv EngineBatch
  EngineRefine EngineLog EngineRecover EngineCrash EngineOpen EngineAdopt EngineMerge EngineKeep EngineMergeRun.
Open Scope N_scope.

(* For EVERY history over Put / Get / Delete / ListKeys / Fold / Stat / Sync / batches (non-zero
   batch ids) and restarts (Close; Open c') placed anywhere and any number of times, each with
   an arbitrary configuration c' (file-size limit, sync strategy, I/O type - writer and reader
   configurations are independent), on a freshly created database: every result equals that of
   the same script on a plain ordered map on which a restart is the identity.  In particular
   every Open after a Close succeeds (its result is "no error"), deleted keys stay deleted,
   committed batches stay applied (atomically: the batch-finished record seals exactly the
   records of its batch, across file boundaries).
   Histories containing Merge: the next theorem. *)
Theorem C02_restart_preserves_mapping :
  forall c ops d k evs0 s' rs evs,
  Forall op_ok ops ->
  db_open c empty_disk = (OpenOk d k, evs0) ->
  run (d, k) ops = (s', rs, evs) ->
  map proj rs = map proj (srun [] ops).
Proof.
  intros c ops d k evs0 s' rs evs Hok Hopen Hrun.
  destruct (open_empty_log c) as (d0 & k0 & e0 & Ho & HL & Hnm).
  rewrite Hopen in Ho. injection Ho as -> -> _.
  exact (proj1 (run_log ops d0 k0 [] s' rs evs HL Hnm Hok Hrun)).
Qed.
Print Assumptions C02_restart_preserves_mapping.

(* The same with merges anywhere in the history (each scanning its input files in any order that covers
   them): restarts after a merge that finished (the restart adopts it), after one that was abandoned,
   after an adopted one, with further writes in between - the mapping is never changed by a restart.
   This is the invariant G of C06 specialised to Restart: from EVERY reachable state, Close; Open c
   succeeds and yields a state in the invariant for the same mapping. *)
Theorem C02_restart_preserves_mapping_with_merges :
  forall c ops d k ev0 s' rs evs,
    db_open c empty_disk = (OpenOk d k, ev0) ->
    ops_ok (d, k) ops ->
    run (d, k) ops = (s', rs, evs) ->
    map proj rs = map proj (srun [] ops).
Proof.
  intros c ops d k ev0 s' rs evs Ho Hok Hrun.
  destruct (open_empty_G c) as (d0 & k0 & e0 & Ho' & HG). rewrite Ho in Ho'. injection Ho' as <- <- _.
  exact (proj1 (run_G ops d k [] s' rs evs HG Hok Hrun)).
Qed.
Print Assumptions C02_restart_preserves_mapping_with_merges.

Theorem C02_restart_from_any_reachable_state :
  forall d k M c d' k' r evs,
    G d k M -> step (d, k) (OpRestart c) = ((d', k'), r, evs) -> G d' k' M /\ r = RErr None.
Proof. exact G_restart. Qed.
Print Assumptions C02_restart_from_any_reachable_state.

(* The mechanism: after Close, Open with ANY configuration rebuilds, by replaying the data files
   in ascending id order with per-batch buffering, a database that denotes the same map and
   whose log is the same. *)
Theorem C02_close_open :
  forall d k m c k1 ev1,
  LogInv d m -> k_merge k = None -> db_close d k = (k1, ev1) ->
  exists d' k2 ev2, db_open c k1 = (OpenOk d' k2, ev2) /\ LogInv d' m /\ k_merge k2 = None /\ d_cfg d' = c.
Proof. exact restart_spec. Qed.
Print Assumptions C02_close_open.

(* Recovery computes what the log denotes: the index built by Open resolves to the map obtained
   by replaying the records of all data files (plain records at once, tagged records when the
   batch-finished record of their batch is read). *)
Theorem C02_open_replays_log :
  forall c k, disk_ok k ->
  exists d k' evs, db_open c k = (OpenOk d k', evs) /\
    LogOK d (fst (sreplay [] [] (files_log (k_data k)))) /\
    log d = files_log (k_data k) /\ d_cfg d = c /\ k_merge k' = None.
Proof. exact db_open_spec. Qed.
Print Assumptions C02_open_replays_log.

Example C02_nonvacuous :
  let c1 := mkCfg 200 0 0 0 in let c2 := mkCfg 64 1 0 1 in
  let ops := [OpPut [107] [1]; OpBatch true 5 [BPut [97] [2]; BDel [107]]; OpRestart c2; OpGet [107]; OpGet [97];
              OpRestart c1; OpList] in
  Forall op_ok ops /\
  map proj (srun [] ops) = [RErr None; RBatch [RErr None; RErr None] None; RErr None;
                            RVal (inr EKeyNotFound); RVal (inl [2]); RErr None; RKeys [[97]]].
Proof. split; [repeat constructor; discriminate|vm_compute; reflexivity]. Qed.
