(* C19 — Redis-style data structures behave like their abstract types and survive restart.
   Only statements, each closed by a lemma of proofs/, each followed by Print Assumptions. *)
From Coq Require Import List NArith Lia.
From KV Require Import Bytes GenConsts BytesLemmas Record Engine Script DataType DataTypeRun DataTypeSpec.
From KV Require Import AMapLemmas EngineInv EngineRefine EngineRecover EngineMergeRun.
From KV Require Import DataTypeCodec DataTypeSim DataTypeRefine DataTypeEngine.
Import ListNotations.
Open Scope N_scope.

(* The reference is DataTypeSpec.a_cmd: strings with expiry, hashes and sorted sets as maps, sets, lists
   with both ends, one value per key, wrong-type replies, "absent" as one reply (canon), Del.
   The system is DataTypeRun.run_cmd on the engine model: the command's reads through db_get, its
   writes through db_put / db_delete / one batch, exactly the byte encodings of datatype/meta.go
   (the correspondence run compares every stored metadata record byte for byte).

   For EVERY history of commands of all five types on the keys of U, interleaved with restarts under
   any configuration, merges, syncs and reads of the engine, from EVERY reachable engine state (G) that
   represents an abstract state (Rel): every reply equals the reference's reply, the engine state stays
   reachable and keeps representing the reference's state.  In particular a restart or a merge changes
   nothing (the reference ignores them), a deleted key starts empty when it is created again (KDel maps
   the key to "absent" in the reference, and the theorem says the implementation agrees from then on),
   and the element records of the old incarnation are never seen again.
   Hypotheses, all about inputs the implementation draws from the clock:
   - versions (time.Now().UnixNano() when a key is created) are below 2^63 and never repeat;
   - Sep1 / Sep2: no user key equals an internal key key|version|element, and internal keys of two
     user keys differ (true when all user keys have one length: same_length_sep below; otherwise it
     rests on the versions being clock readings the keys do not contain);
   - ZSep: no sorted-set member equals <score><member'><4-byte length of member'> — without it the
     property is FALSE of the code: C19_zset_collision below, known finding D22;
   - fewer than 2^63 commands (sizes are uint32 in the code: the model does not wrap them, so the
     statement is about histories shorter than 2^32 commands on one key). *)
Theorem C19_histories_refine_abstract_types :
  forall (U : bytes -> Prop) (V : N -> Prop) (ZM ZS : bytes -> Prop),
  (forall k, U k -> len k <> 0) ->
  (forall v, V v -> v < 2 ^ 63) ->
  (forall k k' v y, U k -> U k' -> V v -> k' <> ikey k v y) ->
  (forall k k' v v' y y', U k -> U k' -> V v -> V v' -> ikey k v y = ikey k' v' y' -> k = k') ->
  (forall m m' s, ZM m -> ZM m' -> ZS s -> m <> s ++ m' ++ le32 (len m')) ->
  forall h d k M A n used,
  G d k M -> Rel U V ZM ZS n used M A -> n + len h < 2 ^ 63 -> dok U V ZM ZS (d, k) used h ->
  Forall2 same_reply (snd (drun (d, k) h)) (snd (arun A h)) /\
  exists M' n' used', G (fst (fst (drun (d, k) h))) (snd (fst (drun (d, k) h))) M' /\
                      Rel U V ZM ZS n' used' M' (fst (arun A h)).
Proof. exact drun_refines. Qed.
Print Assumptions C19_histories_refine_abstract_types.

(* the same from a freshly created database under any configuration *)
Theorem C19_from_empty_database :
  forall (U : bytes -> Prop) (V : N -> Prop) (ZM ZS : bytes -> Prop),
  (forall k, U k -> len k <> 0) ->
  (forall v, V v -> v < 2 ^ 63) ->
  (forall k k' v y, U k -> U k' -> V v -> k' <> ikey k v y) ->
  (forall k k' v v' y y', U k -> U k' -> V v -> V v' -> ikey k v y = ikey k' v' y' -> k = k') ->
  (forall m m' s, ZM m -> ZM m' -> ZS s -> m <> s ++ m' ++ le32 (len m')) ->
  forall c h,
  exists d k evs, db_open c empty_disk = (OpenOk d k, evs) /\
  (len h < 2 ^ 63 -> dok U V ZM ZS (d, k) [] h ->
   Forall2 same_reply (snd (drun (d, k) h)) (snd (arun (fun _ => None) h))).
Proof. exact drun_refines_from_empty. Qed.
Print Assumptions C19_from_empty_database.

(* one command on the ordered map (the engine's specification): reply and next state *)
Theorem C19_command_refines :
  forall (U : bytes -> Prop) (V : N -> Prop) (ZM ZS : bytes -> Prop),
  (forall k, U k -> len k <> 0) ->
  (forall v, V v -> v < 2 ^ 63) ->
  (forall k k' v y, U k -> U k' -> V v -> k' <> ikey k v y) ->
  (forall k k' v v' y y', U k -> U k' -> V v -> V v' -> ikey k v y = ikey k' v' y' -> k = k') ->
  (forall m m' s, ZM m -> ZM m' -> ZS s -> m <> s ++ m' ++ le32 (len m')) ->
  forall n used M A c ver now,
  Rel U V ZM ZS n used M A -> U (cmd_key c) -> V ver -> ~ In ver used -> n + 1 < 2 ^ 63 -> cmd_ok ZM ZS c ->
  exists r, snd (m_cmd M c ver now) = OReply r /\ canon r = snd (a_cmd A c now) /\
            Rel U V ZM ZS (n + 1) (ver :: used) (fst (m_cmd M c ver now)) (fst (a_cmd A c now)).
Proof. exact step_refines. Qed.
Print Assumptions C19_command_refines.

(* a command on the engine model, in any reachable state, is the command on the ordered map *)
Theorem C19_engine_runs_the_map_command :
  forall kd d M c ver now bid d' out evs,
  G d kd M -> bid <> 0 -> run_cmd d c ver now bid = (d', out, evs) ->
  G d' kd (fst (m_cmd M c ver now)) /\ out = snd (m_cmd M c ver now).
Proof. exact run_cmd_G. Qed.
Print Assumptions C19_engine_runs_the_map_command.

(* the metadata record: decode (encode m) = m for every well-formed m (all integer widths of the code) *)
Theorem C19_metadata_round_trip : forall m, wf_meta m -> dec_meta (enc_meta m) = Some m.
Proof. exact dec_enc_meta. Qed.
Print Assumptions C19_metadata_round_trip.

(* the reference: a deleted key is absent for every type, whatever it held *)
Theorem C19_deleted_key_is_absent : forall A k now, fst (a_cmd A (KDel k) now) k = None.
Proof. intros A k now. cbn [a_cmd fst]. unfold aupd. rewrite bytes_eqb_refl. reflexivity. Qed.
Print Assumptions C19_deleted_key_is_absent.

(* ---- the separation hypotheses are satisfiable, and needed ------------------------------------------------- *)
Theorem C19_same_length_keys_are_separated :
  forall (U : bytes -> Prop) (V : N -> Prop) (L : nat),
  (forall k, U k -> length k = L) ->
  (forall k k' v y, U k -> U k' -> V v -> k' <> ikey k v y) /\
  (forall k k' v v' y y', U k -> U k' -> V v -> V v' -> ikey k v y = ikey k' v' y' -> k = k').
Proof. exact same_length_sep. Qed.
Print Assumptions C19_same_length_keys_are_separated.

(* members of at most three bytes never collide with a score-order key *)
Theorem C19_short_members_are_separated :
  forall m m' s : bytes, (length m <= 3)%nat -> m <> s ++ m' ++ le32 (len m').
Proof.
  intros m m' s Hm He. apply (f_equal (@length _)) in He. rewrite !app_length in He. cbn [length le32] in He. lia.
Qed.
Print Assumptions C19_short_members_are_separated.

(* D22 (known finding): the member record of member <score><m><le32 |m|> IS the score-order record of
   (score, m); the layer then replies "score 0" (an empty stored score) for a member that was never added.
   Executed on the ordered map with the layer's own command functions: *)
Theorem C19_zset_collision :
  (forall k ver score m, zmember_key k ver (score ++ m ++ le32 (len m)) = zscore_key k ver score m) /\
  let z := [122] in let m := [109] in let one := [49] in
  let M1 := fst (m_cmd [] (KZAdd z one m) 5 0) in
  let A1 := fst (a_cmd (fun _ => None) (KZAdd z one m) 0) in
  snd (m_cmd M1 (KZScore z (one ++ m ++ le32 1)) 6 0) = OReply (DScore []) /\
  snd (a_cmd A1 (KZScore z (one ++ m ++ le32 1)) 0) = DNil.
Proof. split; [exact zset_keys_collide|]. vm_compute. split; reflexivity. Qed.
Print Assumptions C19_zset_collision.

(* ---- non-vacuity ------------------------------------------------------------------------------------------------ *)
(* a history on the engine model from an empty database: all five types on one key, a wrong-type attempt,
   a deletion and re-creation with another type, an expired string, restarts; the side conditions hold
   and the replies are computed by the model *)
Definition ex_hist : list dop :=
  [DCmd (KHSet [107] [102] [1]) 11 10 7; DCmd (KHSet [107] [102] [2]) 12 10 7; DCmd (KHGet [107] [102]) 13 10 7;
   DCmd (KSAdd [107] [9]) 14 10 7; DEng (OpRestart (mkCfg 64 0 0 0)); DCmd (KHGet [107] [102]) 15 10 7;
   DCmd (KDel [107]) 16 10 7; DCmd (KPush [107] [5] true) 17 10 7; DCmd (KPush [107] [6] false) 18 10 7;
   DEng (OpRestart (mkCfg 200 0 0 0)); DCmd (KPop [107] true) 19 10 7; DCmd (KPop [107] true) 20 10 7; DCmd (KPop [107] true) 21 10 7;
   DCmd (KDel [107]) 22 10 7; DCmd (KZAdd [107] [49] [109]) 23 10 7; DCmd (KZScore [107] [109]) 24 10 7;
   DCmd (KDel [107]) 25 10 7; DCmd (KSet [107] [118] 5) 26 10 7; DCmd (KGet [107]) 27 10 7; DCmd (KSet [107] [118] 0) 28 10 7; DCmd (KGet [107]) 29 10 7].

Example C19_nonvacuous :
  let U := fun k : bytes => length k = 1%nat in
  let V := fun v : N => v < 2 ^ 63 in
  let ZM := fun m : bytes => (length m <= 3)%nat in
  let ZS := fun _ : bytes => True in
  match db_open (mkCfg 1024 0 0 0) empty_disk with
  | (OpenOk d k, _) =>
    dok U V ZM ZS (d, k) [] ex_hist /\
    snd (drun (d, k) ex_hist) =
      [Some (OReply (DBool true)); Some (OReply (DBool false)); Some (OReply (DBytes [2]));
       Some (OReply DWrongType); None; Some (OReply (DBytes [2]));
       Some (OReply DOk); Some (OReply (DSize 1)); Some (OReply (DSize 2));
       None; Some (OReply (DBytes [5])); Some (OReply (DBytes [6])); Some (OReply DNil);
       Some (OReply DOk); Some (OReply (DBool true)); Some (OReply (DScore [49]));
       Some (OReply DOk); Some (OReply DOk); Some (OReply DNil); Some (OReply DOk); Some (OReply (DBytes [118]))] /\
    snd (arun (fun _ => None) ex_hist) =
      [Some (DBool true); Some (DBool false); Some (DBytes [2]); Some DWrongType; None; Some (DBytes [2]);
       Some DOk; Some (DSize 1); Some (DSize 2); None; Some (DBytes [5]); Some (DBytes [6]); Some DNil;
       Some DOk; Some (DBool true); Some (DScore [49]); Some DOk; Some DOk; Some DNil; Some DOk; Some (DBytes [118])]
  | _ => False
  end.
Proof.
  vm_compute. split; [|split; reflexivity].
  repeat split; try reflexivity; try (intros H; repeat destruct H as [H|H]; try discriminate H; try contradiction);
  try discriminate; try (apply le_n_S; apply le_0_n).
Qed.
