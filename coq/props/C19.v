(* placeholder while the theorems are written *)
From KV Require Import DataType DataTypeRun.
