(* C16 — A data directory has at most one open database at a time.  Property theorems only.
   Model: model/LockTable.v (the lock protocol of Open / Close); gen/GenOpenPaths.v is regenerated
   from func Open of db.go on every run (translator T3). *)
From Coq Require Import List NArith Bool.
From KV Require Import LockTable GenOpenPaths LockProofs.
Import ListNotations.
Open Scope N_scope.

(* For every sequence of Open attempts (by any number of handles - goroutines or processes - on any
   directories, each either completing or failing during initialisation) and Closes: no directory ever
   has two holders. *)
Theorem C16_at_most_one_open_database_per_directory :
  forall ops t rs dir h1 h2, lrun [] ops = (t, rs) -> In (dir, h1) t -> In (dir, h2) t -> h1 = h2.
Proof. exact at_most_one_holder. Qed.
Print Assumptions C16_at_most_one_open_database_per_directory.

(* While a directory is held, every other Open of it returns the in-use error and changes nothing;
   an Open of a free directory either takes the lock or, when it fails for another reason, leaves
   the directory free. *)
Theorem C16_open_outcomes :
  forall t h dir fails,
    match holder t dir with
    | Some _ => lstep t (LOpen h dir fails) = (t, LInUse)
    | None => if fails then lstep t (LOpen h dir fails) = (t, LFailed)
              else lstep t (LOpen h dir fails) = ((dir, h) :: t, LOk) /\ holder ((dir, h) :: t) dir = Some h
    end.
Proof. exact open_outcomes. Qed.
Print Assumptions C16_open_outcomes.

(* Close releases exactly the directories its handle held. *)
Theorem C16_close_releases :
  forall t h dir, LInv t -> holds t h = true ->
    lstep t (LClose h) = (release t h, LOk) /\
    (holder t dir = Some h -> holder (release t h) dir = None) /\
    (forall h', h' <> h -> holder t dir = Some h' -> holder (release t h) dir = Some h').
Proof. exact close_releases. Qed.
Print Assumptions C16_close_releases.

(* The model's "a failed Open leaves the directory free" is what the source does on EVERY exit path of
   func Open: the paths extracted from the current source (line, after the lock was taken?, returns the
   database?, was "opened = true" executed?) and the presence of the deferred "Unlock unless opened"
   right after the lock is taken satisfy: no success before the lock; after the lock a success has
   opened = true (the lock is kept), a failure has opened = false under the deferred Unlock. *)
Theorem C16_every_exit_path_of_Open_handles_the_lock :
  forallb (exit_ok open_defer_guard) open_exits = true /\ (0 < length open_exits)%nat /\
  existsb (fun e => e_after_lock e && e_success e) open_exits = true /\
  existsb (fun e => e_after_lock e && negb (e_success e)) open_exits = true.
Proof. vm_compute. repeat split; reflexivity || (repeat constructor). Qed.
Print Assumptions C16_every_exit_path_of_Open_handles_the_lock.

(* The model's "Close releases the lock" is what the source does on EVERY exit path of DB.Close,
   also on those that report an I/O error of a data file: on each return statement extracted from the
   current source the release is guaranteed (a deferred function registered earlier calls
   fileLock.Unlock, or an explicit Unlock precedes the return in an enclosing block).  The check
   additionally makes a Close fail for real (the descriptor of a data file is replaced, so its fsync
   fails) and lets another process open the directory afterwards. *)
Theorem C16_every_exit_path_of_Close_releases_the_lock :
  forallb ce_released close_exits = true /\ (0 < length close_exits)%nat.
Proof. vm_compute. split; [reflexivity|repeat constructor]. Qed.
Print Assumptions C16_every_exit_path_of_Close_releases_the_lock.

(* Non-vacuity: two directories, a rejected second Open, a failed Open, reopen after Close. *)
(* Close takes the engine lock before it releases the directory: it can do so only if no call leaves the engine lock
   behind.  Every branch-free path of every exported call, extracted from the current source by translator T2b
   (gen/GenLockPaths.v), releases every lock it takes and ends holding nothing (the discipline of C09: a path that
   returns with the engine lock held is rejected). *)
From KV Require LockOrder GenLockPaths.
Theorem C16_no_call_returns_with_the_engine_lock_held :
  forallb (LockOrder.ordered_b []) GenLockPaths.api_paths = true /\ Nat.leb 30 (length GenLockPaths.api_paths) = true.
Proof. vm_compute. split; reflexivity. Qed.
Print Assumptions C16_no_call_returns_with_the_engine_lock_held.

Example c16_run :
  snd (lrun [] [LOpen 1 0 false; LOpen 2 0 false; LOpen 3 1 true; LOpen 4 1 false; LClose 1; LOpen 5 0 false; LClose 9])
  = [LOk; LInUse; LFailed; LOk; LOk; LOk; LNotOpen].
Proof. reflexivity. Qed.
