(* C12 — Damaged bytes are detected or harmless, never served as data and never a panic.
   Property theorems only (about the byte-level reader model of datafile/data_file.go and
   log_record.go; [crc] is any function, with 32-bit results where stated). *)
From KV Require Import Bytes GenConsts Chunk Record BytesLemmas ChunkProofs FramingProofs DamageProofs.
Open Scope N_scope.

(* No panic, whatever the bytes: every Go slice / index expression of DecodeChunk, DataReader.next,
   the scan loop of Open and Merge, and the random read readToBuf is a checked access in the model
   (out of range = the outcome Panic); on ARBITRARY file contents - altered, truncated, garbage -
   at ANY reader position none of them reaches it. *)
Theorem C12_readers_never_panic :
  forall crc (f : bytes) fid bid off,
    reader_next crc f fid bid off <> Panic /\ snd (scan crc f fid) <> SPanic /\
    forall df, read_at crc df bid off <> Panic.
Proof.
  intros. split; [apply reader_next_no_panic|]. split; [apply scan_no_panic|]. intros. apply read_at_no_panic.
Qed.
Print Assumptions C12_readers_never_panic.

(* No hang, whatever the bytes: the loops end within the bound the model gives them (one block per
   iteration of next/readToBuf; at least one chunk header per record of the scan). *)
Theorem C12_readers_terminate :
  forall crc (f : bytes) fid bid off,
    reader_next crc f fid bid off <> OutOfFuel /\ snd (scan crc f fid) <> SFuel /\
    forall df, read_at crc df bid off <> OutOfFuel.
Proof.
  intros. split; [apply reader_next_terminates|]. split; [apply scan_terminates|]. intros. apply read_at_terminates.
Qed.
Print Assumptions C12_readers_terminate.

(* Never served unchecked: a chunk is accepted only if its first four bytes are the checksum of the
   length field, type byte and payload that follow, and the payload handed on is exactly the covered
   payload.  (Every byte a reader returns went through this test, chunk by chunk: Chunk.read_chunk is
   the only source of data in reader_next / read_at.) *)
Theorem C12_accepted_chunks_carry_their_checksum :
  forall crc c d ty,
    decode_chunk crc c = Ok (d, ty) ->
    exists sum lenb rest, c = sum ++ lenb ++ [ty] ++ d ++ rest /\ len sum = 4 /\ len lenb = 2 /\
      rd16 lenb = len d /\ rd32 sum = crc (lenb ++ [ty] ++ d).
Proof. exact decode_chunk_sound. Qed.
Print Assumptions C12_accepted_chunks_carry_their_checksum.

(* ... and a record is accepted only if the key and value lengths in its header add up to exactly the
   bytes present; the key and value returned are those bytes. *)
Theorem C12_accepted_records_are_their_bytes :
  forall d r, decode_record d = Some r ->
    exists hdr, d = hdr ++ r_key r ++ r_value r /\ hd 0 hdr = r_type r /\ 0 < len hdr.
Proof. exact decode_record_sound. Qed.
Print Assumptions C12_accepted_records_are_their_bytes.

(* Detected: a chunk as written whose checksum field was replaced by any other four bytes is
   rejected with the checksum error ... *)
Theorem C12_damaged_checksum_is_detected :
  forall crc, (forall b, crc b < 4294967296) ->
  forall ty (p rest sum' : bytes),
    len p < 65536 -> len sum' = 4 -> Forall (fun x => x < 256) sum' ->
    sum' <> le32 (crc (chunk_body ty p)) ->
    decode_chunk crc (sum' ++ le16 (len p) ++ [ty] ++ p ++ rest) = Err InvalidCRC.
Proof. exact damaged_checksum_rejected. Qed.
Print Assumptions C12_damaged_checksum_is_detected.

(* ... and so is a chunk as written with any one byte of its type-and-payload part changed (bit flips
   included), for every checksum function that tells apart two strings differing in one byte - a
   property of CRC-32 (all error bursts of at most 32 bits are detected) that is assumed, not proved,
   here.  A change of the two length bytes re-delimits the chunk; it is then accepted only if the
   re-delimited bytes carry their checksum (first theorem above), which no theorem about an arbitrary
   32-bit checksum can exclude: that part is covered by the exhaustive single-bit sweep of the check. *)
Theorem C12_damaged_payload_is_detected :
  forall crc, (forall b, crc b < 4294967296) ->
  forall ty (p rest a b : bytes) x y,
    detects_one_byte crc -> len p < 65536 -> ty :: p = a ++ x :: b -> x <> y ->
    exists ty' p', ty' :: p' = a ++ y :: b /\
      decode_chunk crc (le32 (crc (chunk_body ty p)) ++ le16 (len p) ++ [ty'] ++ p' ++ rest) = Err InvalidCRC.
Proof. exact damaged_body_rejected. Qed.
Print Assumptions C12_damaged_payload_is_detected.

(* Non-vacuity (the real CRC-32 of the model, Crc.crc32): a written chunk decodes; with one payload bit
   flipped, with one checksum bit flipped, and cut short it is rejected. *)
(* What the per-chunk checksum does NOT give (known finding D37; the full statement of the property fails here).
   A record of four chunks is written at the start of an empty file with the real CRC-32; block 1 of the file is
   then overwritten by a copy of block 2 (both hold one full Middle chunk, each with a valid checksum of its own).
   The positional read of the record succeeds and returns bytes that differ from what was written: nothing ties a
   chunk to its position.  Computed inside Coq on the executable model; the same file is replayed against package
   datafile on every run (corpus/C12/00_d37_block_transplant.ops), where the check reports it as a known finding. *)
From KV Require Import Crc.
Fixpoint c12_fill (n : nat) (b : N) : bytes := match n with O => [] | S m => b :: c12_fill m b end.
Definition c12_payload : bytes :=
  c12_fill (N.to_nat 32761) 1 ++ c12_fill (N.to_nat 32761) 2 ++ c12_fill (N.to_nat 32761) 3 ++ c12_fill 100 4.
Definition c12_file : bytes := df_bytes (fst (df_write crc32 (df_open 0 []) c12_payload)).
Definition c12_transplanted : bytes :=
  take 32768 c12_file ++ take 32768 (drop 65536 c12_file) ++ take 32768 (drop 65536 c12_file) ++ drop 98304 c12_file.
Theorem C12_block_transplant_is_not_detected :
  len c12_transplanted = len c12_file /\
  bytes_eqb c12_transplanted c12_file = false /\
  (match read_at crc32 (df_open 0 c12_file) 0 0 with Ok v => bytes_eqb v c12_payload | _ => false end) = true /\
  (match read_at crc32 (df_open 0 c12_transplanted) 0 0 with
   | Ok v => negb (bytes_eqb v c12_payload) && (len v =? len c12_payload)
   | _ => false end) = true.
Proof. vm_compute. repeat split; reflexivity. Qed.
Print Assumptions C12_block_transplant_is_not_detected.

From KV Require Import Crc.
Example c12_examples :
  let c := enc_chunk crc32 (0, [107; 49; 1; 2; 3]) in
  decode_chunk crc32 c = Ok ([107; 49; 1; 2; 3], 0) /\
  decode_chunk crc32 (take 9 c ++ [3] ++ drop 10 c) = Err InvalidCRC /\
  decode_chunk crc32 ([N.lxor (hd 0 c) 1] ++ drop 1 c) = Err InvalidCRC /\
  decode_chunk crc32 (take 11 c) = Err UnexpectedEOF.
Proof. vm_compute. repeat split; reflexivity. Qed.
