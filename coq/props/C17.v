(* C17 — Stat and space accounting are exact. *)
From KV Require Import Bytes GenConsts Chunk Record Engine Script AMapLemmas EngineInv EngineBatch
  EngineRefine EngineLog EngineRecover EngineAcc.
Open Scope N_scope.

(* what Stat reports, in terms of the state *)
Theorem C17_stat_reports_counters :
  forall d, db_stat d = (len (d_index d), len (d_older d) + 1, d_reclaim d, d_total d).
Proof. reflexivity. Qed.
Print Assumptions C17_stat_reports_counters.

(* At every step of every history of Put / Delete / overwrites / batches / rotations / Sync and
   restarts under arbitrary configurations (a history is any prefix of a script), live and right
   after a restart alike:  DiskSize = ReclaimableSize + the bytes occupied by the live records
   (the sizes of the positions the index holds), hence 0 <= ReclaimableSize <= DiskSize and
   DiskSize - ReclaimableSize is exactly the live bytes: the operand of mergeCheck never drifts. *)
Theorem C17_size_equation :
  forall c ops d k evs0 s' rs evs,
  Forall op_ok ops ->
  db_open c empty_disk = (OpenOk d k, evs0) ->
  run (d, k) ops = (s', rs, evs) ->
  d_total (fst s') = d_reclaim (fst s') + live_sum (d_index (fst s')).
Proof.
  intros c ops d k evs0 s' rs evs Hok Hopen Hrun.
  destruct (open_empty_log c) as (d0 & k0 & e0 & Ho & HL & Hnm). rewrite Hopen in Ho. injection Ho as -> -> _.
  assert (HA0 : Acc d0) by (eapply db_open_acc; [|exact Hopen]; reflexivity).
  exact (run_acc ops d0 k0 s' rs evs HA0 Hnm Hok Hrun).
Qed.
Print Assumptions C17_size_equation.

(* the same with merges running (no restart): Merge never touches the counters *)
Theorem C17_size_equation_with_merges :
  forall c ops d k evs0 s' rs evs,
  Forall no_restart ops ->
  db_open c empty_disk = (OpenOk d k, evs0) ->
  run (d, k) ops = (s', rs, evs) ->
  d_total (fst s') = d_reclaim (fst s') + live_sum (d_index (fst s')).
Proof.
  intros c ops d k evs0 s' rs evs Hok Hopen Hrun.
  assert (HA0 : Acc d) by (eapply db_open_acc; [|exact Hopen]; reflexivity).
  exact (run_acc_live ops d k s' rs evs HA0 Hok Hrun).
Qed.
Print Assumptions C17_size_equation_with_merges.

(* KeyNum is the number of live keys of the specification map *)
Theorem C17_keynum_exact :
  forall c ops d k evs0 s' rs evs,
  Forall op_ok ops ->
  db_open c empty_disk = (OpenOk d k, evs0) ->
  run (d, k) ops = (s', rs, evs) ->
  exists m, R (fst s') m /\ len (d_index (fst s')) = len m /\ fst (sreplay [] [] (log (fst s'))) = m.
Proof.
  intros c ops d k evs0 s' rs evs Hok Hopen Hrun.
  destruct (open_empty_log c) as (d0 & k0 & e0 & Ho & HL & Hnm). rewrite Hopen in Ho. injection Ho as -> -> _.
  destruct (proj2 (run_log ops d0 k0 [] s' rs evs HL Hnm Hok Hrun)) as [m [(HI & HO & HP & HR & Hm) Ht]].
  exists m. split; [exact HR|]. split; [apply (db_keynum_spec _ _ HR)|exact Hm].
Qed.
Print Assumptions C17_keynum_exact.

Example C17_nonvacuous :
  let ops := [OpPut [107] [1; 2; 3]; OpPut [107] [4]; OpDel [107]; OpBatch false 9 [BPut [97] [5]; BDel [97]]; OpRestart (mkCfg 64 0 0 0); OpStat] in
  Forall op_ok ops.
Proof. repeat constructor; discriminate. Qed.
