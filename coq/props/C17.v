(* C17 — Stat and space accounting are exact. *)
From KV Require Import Bytes GenConsts Chunk Record Engine Script AMapLemmas EngineInv EngineBatch
  EngineRefine EngineLog EngineRecover EngineAcc.
From KV Require EngineLimit.
Open Scope N_scope.

(* what Stat reports, in terms of the state *)
Theorem C17_stat_reports_counters :
  forall d, db_stat d = (len (d_index d), len (d_older d) + 1, d_reclaim d, d_total d).
Proof. reflexivity. Qed.
Print Assumptions C17_stat_reports_counters.

(* At every step of every history of Put / Delete / overwrites / batches / rotations / Sync and
   restarts under arbitrary configurations (a history is any prefix of a script), live and right
   after a restart alike:  DiskSize = ReclaimableSize + the bytes occupied by the live records
   (the sizes of the positions the index holds), hence 0 <= ReclaimableSize <= DiskSize and
   DiskSize - ReclaimableSize is exactly the live bytes: the operand of mergeCheck never drifts. *)
Theorem C17_size_equation :
  forall c ops d k evs0 s' rs evs,
  Forall op_ok ops ->
  db_open c empty_disk = (OpenOk d k, evs0) ->
  run (d, k) ops = (s', rs, evs) ->
  d_total (fst s') = d_reclaim (fst s') + live_sum (d_index (fst s')).
Proof.
  intros c ops d k evs0 s' rs evs Hok Hopen Hrun.
  destruct (open_empty_log c) as (d0 & k0 & e0 & Ho & HL & Hnm). rewrite Hopen in Ho. injection Ho as -> -> _.
  assert (HA0 : Acc d0) by (eapply db_open_acc; [|exact Hopen]; reflexivity).
  exact (run_acc ops d0 k0 s' rs evs HA0 Hnm Hok Hrun).
Qed.
Print Assumptions C17_size_equation.

(* the same with merges running (no restart): Merge never touches the counters *)
Theorem C17_size_equation_with_merges :
  forall c ops d k evs0 s' rs evs,
  Forall no_restart ops ->
  db_open c empty_disk = (OpenOk d k, evs0) ->
  run (d, k) ops = (s', rs, evs) ->
  d_total (fst s') = d_reclaim (fst s') + live_sum (d_index (fst s')).
Proof.
  intros c ops d k evs0 s' rs evs Hok Hopen Hrun.
  assert (HA0 : Acc d) by (eapply db_open_acc; [|exact Hopen]; reflexivity).
  exact (run_acc_live ops d k s' rs evs HA0 Hok Hrun).
Qed.
Print Assumptions C17_size_equation_with_merges.

(* KeyNum is the number of live keys of the specification map *)
Theorem C17_keynum_exact :
  forall c ops d k evs0 s' rs evs,
  Forall op_ok ops ->
  db_open c empty_disk = (OpenOk d k, evs0) ->
  run (d, k) ops = (s', rs, evs) ->
  exists m, R (fst s') m /\ len (d_index (fst s')) = len m /\ fst (sreplay [] [] (log (fst s'))) = m.
Proof.
  intros c ops d k evs0 s' rs evs Hok Hopen Hrun.
  destruct (open_empty_log c) as (d0 & k0 & e0 & Ho & HL & Hnm). rewrite Hopen in Ho. injection Ho as -> -> _.
  destruct (proj2 (run_log ops d0 k0 [] s' rs evs HL Hnm Hok Hrun)) as [m [(HI & HO & HP & HR & Hm) Ht]].
  exists m. split; [exact HR|]. split; [apply (db_keynum_spec _ _ HR)|exact Hm].
Qed.
Print Assumptions C17_keynum_exact.

(* Data files respect the size limit.  From an empty directory, under ANY configuration, at every step of every
   history of Put / Delete / Get / ListKeys / Fold / Stat / Sync / Merge and batches of any length (keys and values
   of up to 128 MiB together per record, 64-bit batch ids; no restart, which may change the limit): every data file -
   the active one and every rotated one - is no longer than DataFileSize, or holds a single record (plus, for a
   batch, its sealing record).  The heart is estimate_covers: what writeToBuf appends for a record - block-tail
   padding, one 7-byte header per chunk, the encoded record - never exceeds GetLogRecordDiskSize, at any offset
   (the estimate counts one header per 32768 bytes, the writer needs one per 32761: the bound on the record length
   is what makes it true, and it is explicit). *)
Theorem C17_data_files_respect_the_size_limit :
  forall c ops d0 k0 e0 d k rs evs,
  db_open c empty_disk = (OpenOk d0 k0, e0) -> Forall EngineLimit.op_small ops -> run (d0, k0) ops = ((d, k), rs, evs) ->
  (lf_size (d_active d) <= c_fsize c \/ EngineLimit.single (d_active d)) /\
  (forall i f, In (i, f) (d_older d) -> lf_size f <= c_fsize c \/ EngineLimit.single f).
Proof. exact EngineLimit.limit_from_empty. Qed.
Print Assumptions C17_data_files_respect_the_size_limit.

(* ... and across restarts: every history of the same operations (no Merge) and of restarts that reopen under any
   configuration whose DataFileSize is at least the one before (a restart that lowers the limit may find older files
   above it): every data file respects the limit of the configuration the database currently runs with, or holds a
   single record (plus a sealing record). *)
Theorem C17_data_files_respect_the_size_limit_across_restarts :
  forall c ops d0 k0 e0 d k rs evs,
  db_open c empty_disk = (OpenOk d0 k0, e0) -> EngineLimit.ops_small_r (c_fsize c) ops -> run (d0, k0) ops = ((d, k), rs, evs) ->
  (lf_size (d_active d) <= c_fsize (d_cfg d) \/ EngineLimit.single (d_active d)) /\
  (forall i f, In (i, f) (d_older d) -> lf_size f <= c_fsize (d_cfg d) \/ EngineLimit.single f).
Proof. exact EngineLimit.limit_from_empty_with_restarts. Qed.
Print Assumptions C17_data_files_respect_the_size_limit_across_restarts.

(* ... and the files a Merge rewrites (they become data files when the next Open adopts them): whenever a Merge of a
   database reached by such a history finishes, every file of its output is no longer than DataFileSize or holds a
   single record. *)
Theorem C17_rewritten_files_respect_the_size_limit :
  forall c ops d0 k0 e0 d k rs evs order d' k' evs',
  db_open c empty_disk = (OpenOk d0 k0, e0) -> Forall EngineLimit.op_small ops -> run (d0, k0) ops = ((d, k), rs, evs) ->
  db_merge d k order = (d', k', None, evs') ->
  exists md, k_merge k' = Some md /\
    forall i f, In (i, f) (m_files md) -> lf_size f <= c_fsize c \/ EngineLimit.single f.
Proof.
  intros c ops d0 k0 e0 d k rs evs order d' k' evs' Ho Hs Hr Hm.
  destruct (EngineLimit.open_empty_FL _ _ _ _ Ho) as [HF Hc].
  destruct (EngineLimit.files_respect_the_limit _ _ _ _ _ _ _ HF Hs Hr) as [HF' Hc'].
  destruct (EngineLimit.merge_output_respects_the_limit _ _ _ _ _ _ HF' Hm) as (md & A & B).
  exists md. split; [exact A|]. rewrite Hc', Hc in B. exact B.
Qed.
Print Assumptions C17_rewritten_files_respect_the_size_limit.

(* the estimate covers the growth of the file, for every writer position and every record *)
Theorem C17_estimate_covers_every_append :
  forall io nm fid f r f' p evs, EngineLimit.rec_small r -> lf_append io nm fid f r = (f', p, evs) ->
  lf_size f <= lf_size f' /\ lf_size f' <= lf_size f + disk_size_estimate (len (r_key r)) (len (r_value r)).
Proof.
  intros io nm fid f r f' p evs Hs Ha. destruct (EngineLimit.lf_append_growth _ _ _ _ _ _ _ _ Hs Ha) as (A & B & _).
  split; [exact A|exact B].
Qed.
Print Assumptions C17_estimate_covers_every_append.

(* non-vacuity: with a limit of 64 bytes a 100-byte value sits alone in its file (which exceeds the limit), the
   files around it respect the limit, and a batch whose single record exceeds the limit shares its file with
   nothing but its sealing record *)
Example C17_limit_nonvacuous :
  let c := mkCfg 64 0 0 0 in
  let ops := [OpPut [107] [1; 2; 3]; OpPut [108] (repeat 7 100); OpPut [109] [4]; OpBatch false 9 [BPut [97] (repeat 8 90)]; OpPut [110] [5]] in
  Forall EngineLimit.op_small ops /\
  match db_open c empty_disk with
  | (OpenOk d0 k0, _) =>
    let '((d, _), _, _) := run (d0, k0) ops in
    map (fun x => (lf_size (snd x) <=? 64, length (lf_recs (snd x)))) (d_older d) = [(true, 1%nat); (false, 1%nat); (true, 1%nat); (true, 0%nat); (false, 2%nat)]
  | _ => False
  end.
Proof.
  split.
  - repeat constructor; unfold EngineLimit.kv_small, EngineLimit.kv_max; vm_compute; try discriminate; try reflexivity.
  - vm_compute. reflexivity.
Qed.

Example C17_nonvacuous :
  let ops := [OpPut [107] [1; 2; 3]; OpPut [107] [4]; OpDel [107]; OpBatch false 9 [BPut [97] [5]; BDel [97]]; OpRestart (mkCfg 64 0 0 0); OpStat] in
  Forall op_ok ops.
Proof. repeat constructor; discriminate. Qed.
