(* C20 — A backup taken at any time opens to the state at the time of the backup.  Property theorems only. *)
From KV Require Import Bytes GenConsts Chunk Record Engine Script AMapLemmas EngineInv EngineRefine EngineLog EngineRecover
  EngineCrash EngineOpen EngineAdopt EngineMerge EngineKeep EngineMergeRun EnginePhys EngineBackup.
Open Scope N_scope.

(* For every configuration c of the source (either I/O type), every history on a fresh database -
   rotations, batches, merges, adopted merges with their hint file, restarts - and every
   configuration cb used to open the copy: the directory Backup produces opens as a database holding
   exactly the mapping the source had when Backup was called (and satisfies the invariants from which
   all further behaviour of the copy follows: C06_step applies to it); the source still holds that
   mapping, keeps its relation to a pending merge, and goes on (C06_step applies to it as well). *)
Theorem C20_backup_opens_to_the_mapping_at_backup_time :
  forall c cb ops d k ev0 s' rs evs d' kb evb,
    db_open c empty_disk = (OpenOk d k, ev0) -> ops_ok (d, k) ops -> run (d, k) ops = (s', rs, evs) ->
    db_backup (fst s') (snd s') = (d', kb, evb) ->
    (exists dd k2 ev2, db_open cb kb = (OpenOk dd k2, ev2) /\ G dd k2 (final_state [] ops) /\ PhysInv dd /\ d_cfg dd = cb) /\
    G d' (snd s') (final_state [] ops) /\ PhysInv d'.
Proof. exact backup_after_history. Qed.
Print Assumptions C20_backup_opens_to_the_mapping_at_backup_time.

(* One Backup from any state satisfying the invariants (so: repeated backups during continued
   writing): the copy holds the whole log of the source, has no merge directory, carries the hint
   file along, and the source's files keep their records - memory-mapped files are cut back to their
   logical size (and re-extended by the next write: Engine.h_remap). *)
Theorem C20_backup_step :
  forall d k M c d' kb evs,
    LogInv d M -> PhysInv d -> db_backup d k = (d', kb, evs) ->
    LogInv d' M /\ PhysInv d' /\ d_cfg d' = d_cfg d /\ log d' = log d /\
    k_merge kb = None /\ k_hint kb = k_hint k /\ files_log (k_data kb) = log d /\
    exists dd k2 ev2, db_open c kb = (OpenOk dd k2, ev2) /\ LogInv dd M /\ d_cfg dd = c /\ k_merge k2 = None.
Proof. exact db_backup_spec. Qed.
Print Assumptions C20_backup_step.

(* the physical-size invariant the copy relies on holds in every reachable state *)
Theorem C20_physical_size_invariant :
  forall c ops d k ev0 s' rs evs,
    db_open c empty_disk = (OpenOk d k, ev0) -> run (d, k) ops = (s', rs, evs) -> PhysInv (fst s').
Proof.
  intros c ops d k ev0 s' rs evs Ho Hrun. exact (run_phys ops d k s' rs evs (proj1 (db_open_phys _ _ _ _ _ Ho)) Hrun).
Qed.
Print Assumptions C20_physical_size_invariant.

(* Non-vacuity: a memory-mapped source with rotated files, a batch and an adopted merge; the copy is
   opened with standard I/O and returns the source's values; the source continues. *)
Definition c20_src : cfg := mkCfg 200 0 0 1.
Definition c20_dst : cfg := mkCfg 4096 0 0 0.
Definition c20_ops : list op :=
  [OpPut [1] [10]; OpPut [2] [20]; OpPut [1] [11]; OpDel [2]; OpBatch false 7 [BPut [3] [30]; BPut [4] [40]];
   OpMerge [0; 1; 2; 3]; OpPut [5] [50]; OpRestart c20_src; OpPut [6] [60]].
Example c20_backup_runs :
  match db_open c20_src empty_disk with
  | (OpenOk d k, _) =>
      let '(s', _, _) := run (d, k) c20_ops in
      let '(d', kb, _) := db_backup (fst s') (snd s') in
      match db_open c20_dst kb with
      | (OpenOk dd _, _) =>
          db_list_keys dd = [[1]; [3]; [4]; [5]; [6]] /\ snd (fst (db_get dd [1])) = inl [11] /\
          snd (fst (db_get d' [6])) = inl [60] /\ k_hint kb <> None
      | _ => False
      end
  | _ => False
  end.
Proof. vm_compute. repeat split; try reflexivity. discriminate. Qed.
