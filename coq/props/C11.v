(* C11 — Block/chunk framing round-trips every record at every offset.
   Only statements, each closed by [exact] of a lemma proved in proofs/, each followed by
   Print Assumptions.  [crc] is an arbitrary function with 32-bit results. *)
From KV Require Import Bytes GenConsts Chunk BytesLemmas ChunkProofs FramingProofs FileProofs FileShift.
Open Scope N_scope.

Definition crc_ok (crc : bytes -> N) : Prop := forall b, crc b < 4294967296.

(* Any history of one data file - single writes, multi-record flushes issued as one Write
   call, close-and-reopen, Write calls the back-end refuses (FRefused: the staged records are
   dropped with the failed call and are not part of what was written) - of records of ANY non-zero length, hence starting at every
   block offset and spanning any number of blocks:
   - the logical size equals the physical size,
   - a sequential scan returns exactly the records written, in order, each with the very
     position (file, block, offset, size) reported at write time, then a clean EOF wherever
     in a block the file ends,
   - every reported position reads back its record by random access. *)
Theorem C11_datafile_roundtrip :
  forall crc, crc_ok crc -> forall fid ops,
  Forall fop_ok ops ->
  let f := fst (df_run crc (df_open fid []) ops) in
  let out := snd (df_run crc (df_open fid []) ops) in
  df_size f = len (df_bytes f) /\
  scan crc (df_bytes f) (df_id f) = (out, SEof) /\
  (forall d p, In (d, p) out -> read_at crc f (p_bid p) (p_off p) = Ok d).
Proof. exact datafile_roundtrip. Qed.
Print Assumptions C11_datafile_roundtrip.

(* One record written at ANY writer state (block, offset < 32768), after any prefix and
   before any suffix: the reported size is exactly the bytes occupied (block-tail padding
   excluded), the new logical end is the physical end, the start position is where the
   reader stands after skipping an unusable block tail, and both readers return the data. *)
Theorem C11_record_at_every_offset :
  forall crc, crc_ok crc ->
  forall fid bid bsz pre (data : bytes) post p bid' bsz',
  bsz < blockSize -> len pre = bid * blockSize + bsz -> 0 < len data ->
  frame fid bid bsz (len data) = (p, bid', bsz') ->
  let f := pre ++ frame_bytes crc bsz data ++ post in
  len (pre ++ frame_bytes crc bsz data) = bid' * blockSize + bsz' /\
  bsz' < blockSize /\
  (p_bid p, p_off p) = norm bid bsz /\ p_fid p = fid /\
  len (frame_bytes crc bsz data) = pad_len bsz + p_size p /\
  reader_next crc f fid (p_bid p) (p_off p) = Ok (data, p, fst (norm bid' bsz'), snd (norm bid' bsz')) /\
  read_at_fuel crc (blocks_fuel (len f)) f (len f) (p_bid p) (p_off p) [] = Ok data.
Proof. exact record_roundtrip. Qed.
Print Assumptions C11_record_at_every_offset.

(* A multi-record flush (one Write call) stores the same bytes at the same positions as
   the same records written one by one. *)
Theorem C11_flush_eq_singles :
  forall crc a b fid bid bsz,
  write_all_buf crc fid bid bsz (a ++ b) =
    let '(bs1, ps1, bid1, bsz1) := write_all_buf crc fid bid bsz a in
    let '(bs2, ps2, bid2, bsz2) := write_all_buf crc fid bid1 bsz1 b in
    (bs1 ++ bs2, ps1 ++ ps2, bid2, bsz2).
Proof. exact write_all_app. Qed.
Print Assumptions C11_flush_eq_singles.

(* The writer does not depend on how many whole blocks precede it: a data file found with k
   blocks of content (k any natural number - 131072 blocks are 4 GiB) answers every history of
   writes, flushes and reopens exactly as the empty file does, with every block id shifted by k,
   the bytes appended being the same.  (The harness runs such histories on a file that begins
   with a sparse region of 4, 8 or 12 GiB and compares them with the model run at offset 0;
   reads at those positions are covered by C11_record_at_every_offset, which holds for any
   prefix.) *)
Theorem C11_whole_blocks_before_do_not_matter :
  forall crc k pre fid ops, len pre = k * blockSize ->
  df_run crc (df_open fid pre) ops =
    (shift_df k pre (fst (df_run crc (df_open fid []) ops)),
     shift_out k (snd (df_run crc (df_open fid []) ops))).
Proof. exact df_run_far. Qed.
Print Assumptions C11_whole_blocks_before_do_not_matter.
Example C11_shift_nonvacuous : len (zeros 32768) = 1 * blockSize.
Proof. vm_compute. reflexivity. Qed.

(* The chunk decoder never panics, whatever bytes it is given. *)
Theorem C11_decode_chunk_total :
  forall crc, crc_ok crc -> forall c, decode_chunk crc c <> Panic /\ decode_chunk crc c <> OutOfFuel.
Proof. exact decode_chunk_no_panic. Qed.
Print Assumptions C11_decode_chunk_total.

(* Non-vacuity: a concrete two-record history, the first record ending 3 bytes before a
   block boundary (so the second one starts after padding), meets the hypotheses. *)
Example C11_nonvacuous :
  Forall fop_ok [FWrite (zeros 32758); FStage [1; 2; 3]; FFlush; FReopen; FWrite [9]; FStage [4]; FRefused; FStage [5]; FFlush] /\
  (32758 : N) < blockSize.
Proof. split; [repeat constructor|reflexivity]. Qed.
