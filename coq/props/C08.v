(* C08 — Concurrent Put/Get/Delete are linearizable and agree with restart recovery.
   Property theorems only.  Model: model/Conc.v; gen/GenAtomic.v is regenerated from db.go (T2). *)
From Coq Require Import List NArith Bool.
From KV Require Import Bytes GenConsts Chunk Record Engine Script Conc AMapLemmas EngineInv EngineRefine EngineLog EngineRecover
  ConcProofs GenAtomic.
From KV Require LockSet LockSetProofs GenAccess.
Import ListNotations.
Open Scope N_scope.

(* For any number of clients, any programs over Put / Delete / Get, and EVERY schedule of their
   atomic actions, started in any state of the database reachable by any history (LogInv d0 M0):
   - every completed call returned what the sequential specification returns at the call's
     linearization point - the stamp is the position, among all linearization points, of one of the
     call's own actions (the single action of Put / Delete, the index lookup of Get), hence lies
     between its invocation and its return;
   - every Get that has looked up the index but not yet read the file will return that result too,
     whatever the other clients do in between (records are never moved or overwritten);
   - the live state is the specification state after all linearization points so far, and the log
     replays to it: LogInv - so a restart at quiescence recovers exactly the live mapping, racing
     writes winning in the order in which they reached the log. *)
Theorem C08_linearizable :
  forall d0 M0 threads sched,
    LogInv d0 M0 -> Forall (fun t => match t with TIdle _ => True | _ => False end) threads ->
    let s := crun (mkC d0 threads [] []) sched in
    LogInv (c_db s) (fst (lin_run M0 (c_lins s))) /\
    Forall (fun x => res_at M0 (c_lins s) (fst (done_res x)) = Some (snd (done_res x))) (c_hist s) /\
    Forall (pending_ok (c_db s) M0 (c_lins s)) (c_threads s).
Proof.
  intros d0 M0 threads sched HL Hidle.
  assert (H0 : CInv M0 (mkC d0 threads [] [])).
  { split; [exact HL|]. split; [|constructor]. cbn [c_threads]. eapply Forall_impl; [|exact Hidle].
    intros t Ht. destruct t; [exact I|contradiction]. }
  destruct (crun_inv M0 sched _ H0) as (A & B & C). auto.
Qed.
Print Assumptions C08_linearizable.

(* one atomic action preserves the invariant (so the theorem also holds from any intermediate state) *)
Theorem C08_step : forall M0 s tid, CInv M0 s -> CInv M0 (cstep s tid).
Proof. exact cstep_inv. Qed.
Print Assumptions C08_step.

(* The live mapping at any instant without a pending merge is what Close + Open recovers. *)
Theorem C08_restart_recovers_the_live_mapping :
  forall d0 M0 threads sched k c k1 ev1,
    LogInv d0 M0 -> Forall (fun t => match t with TIdle _ => True | _ => False end) threads ->
    let s := crun (mkC d0 threads [] []) sched in
    k_merge k = None -> db_close (c_db s) k = (k1, ev1) ->
    exists d' k2 ev2, db_open c k1 = (OpenOk d' k2, ev2) /\ LogInv d' (fst (lin_run M0 (c_lins s))).
Proof.
  intros d0 M0 threads sched k c k1 ev1 HL Hidle s Hnm Hc.
  destruct (C08_linearizable d0 M0 threads sched HL Hidle) as (HLs & _).
  destruct (restart_spec (c_db s) k _ c k1 ev1 HLs Hnm Hc) as (d' & k2 & ev2 & Ho & HL' & _). eauto.
Qed.
Print Assumptions C08_restart_recovers_the_live_mapping.

(* The decomposition into atomic actions is what the source does: in Put and Delete the engine lock
   is taken first, its release is deferred, and the log append and the index update (for Delete also
   the existence check) follow inside that one critical section; the lock is never released
   explicitly in between.  Evaluated on the sequences extracted from the current db.go. *)
Definition crit_ok (seq : list N) : bool :=
  match seq with
  | 1 :: 2 :: rest =>
      forallb (fun c => negb (c =? 3) && negb (c =? 1)) rest && existsb (fun c => c =? 4) rest &&
      existsb (fun c => (c =? 5) || (c =? 6)) rest
  | _ => false
  end.
Theorem C08_append_and_index_update_are_one_critical_section :
  crit_ok lockseq_Put = true /\ crit_ok lockseq_Delete = true /\
  (* Delete: check, then append, then index delete *)
  lockseq_Delete = [1; 2; 7; 4; 6] /\ lockseq_Put = [1; 2; 4; 5].
Proof. vm_compute. repeat split; reflexivity. Qed.
Print Assumptions C08_append_and_index_update_are_one_critical_section.

(* Non-vacuity: two clients racing on one key, Get interleaved with the writes; the schedule lets
   client 1 look up the index before client 0 overwrites and read the file afterwards. *)
Definition c08_cfg : cfg := mkCfg 4096 0 0 0.
(* The atomic actions of the linearizability theorem are what the code's locks make atomic: every use of an index
   shard anywhere in the engine (Put / Get / Delete of the sharded index, sizes, snapshots for iterators) and every
   access to the engine's active-file pointer and file set, as extracted from the current source by translator T2c
   with the locks held there, follows the lockset discipline - an index operation runs under the lock of its own
   shard (exclusively when it changes the shard), the shard table itself is never changed after construction, the file set
   is read under the engine lock and changed under it exclusively.  (The full table is the subject of C09.) *)
Theorem C08_index_and_file_set_operations_are_atomic :
  let sel := fun a => Nat.eqb (LockSet.a_loc a) GenAccess.loc_shard_index || Nat.eqb (LockSet.a_loc a) GenAccess.loc_db_active_file
                      || Nat.eqb (LockSet.a_loc a) GenAccess.loc_db_older_files
                      || existsb (Nat.eqb (LockSet.a_loc a)) GenAccess.locs_sharded_index_fields in
  LockSet.lockset_ok (filter sel GenAccess.gen_accesses) = true /\
  Nat.leb 6 (length (filter (fun a => Nat.eqb (LockSet.a_loc a) GenAccess.loc_shard_index) GenAccess.gen_accesses)) = true /\
  existsb (fun a => Nat.eqb (LockSet.a_loc a) GenAccess.loc_shard_index && LockSet.a_write a) GenAccess.gen_accesses = true /\
  GenAccess.gen_truncated = false.
Proof. vm_compute. repeat split; reflexivity. Qed.
Print Assumptions C08_index_and_file_set_operations_are_atomic.

Example c08_run :
  match db_open c08_cfg empty_disk with
  | (OpenOk d _, _) =>
      let threads := [TIdle [CPut [1] [10]; CPut [1] [11]; CDel [1]]; TIdle [CGet [1]; CGet [1]; CGet [1]]] in
      let s := crun (mkC d threads [] []) [0; 1; 0; 1; 1; 0; 1; 1; 1]%nat in
      map (fun x => snd (done_res x)) (c_hist s) =
        [inl None; inl None; inr (inl [10]); inl None; inr (inl [11]); inr (inr EKeyNotFound)] /\
      snd (lin_run [] (c_lins s)) = [inl None; inr (inl [10]); inl None; inr (inl [11]); inl None; inr (inr EKeyNotFound)]
  | _ => False
  end.
Proof. vm_compute. split; reflexivity. Qed.
