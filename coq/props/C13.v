(* C13 — Sync policy is honoured: acknowledged means flushed when the options say so.
   "flushed f" = the durable length of f (moved only by Sync events: fsync / msync) is its size.
   That an fsync / msync makes the bytes durable is the OS contract (not modelled further). *)
From KV Require Import Bytes GenConsts Chunk Record Engine Script AMapLemmas EngineFiles EngineInv EngineBatch
  EngineRefine EngineLog EngineRecover EngineSync EngineCrash EngineOpen EngineAdopt EngineMerge EngineKeep EngineMergeRun EngineSyncMerge.
Open Scope N_scope.

(* The sync invariant holds at every return of every public call of every history (Put, Delete,
   Get, ListKeys, Fold, Stat, Sync, batches, restarts under any configuration):
   - every rotated (older) file is flushed: the engine never rotates away from an unflushed file;
   - the bytes of acknowledged Puts/Deletes that lie beyond the durable length of the active file
     are at most bytesWrite (the running counter the Threshold strategy compares). *)
Theorem C13_sync_invariant_every_step :
  forall c ops d k evs0 s' rs evs,
  Forall op_ok ops ->
  db_open c empty_disk = (OpenOk d k, evs0) ->
  run (d, k) ops = (s', rs, evs) ->
  SyncInv (fst s').
Proof.
  intros c ops d k evs0 s' rs evs Hok Hopen Hrun.
  destruct (open_empty_log c) as (d0 & k0 & e0 & Ho & HL & Hnm). rewrite Hopen in Ho. injection Ho as -> -> _.
  exact (run_sync ops d0 k0 [] s' rs evs HL (open_empty_sync c d0 k0 evs0 Hopen) Hnm Hok Hrun).
Qed.
Print Assumptions C13_sync_invariant_every_step.

(* The same for histories with merges anywhere (each scanning its files in any covering order), restarts that
   adopt a finished merge, ignore an abandoned one, or follow an adopted one: Merge flushes the file it
   rotates away from, only reads its input files, and closes - hence flushes - every rewritten file before
   the marker is written; the adopting Open installs closed, flushed files.  SyncG adds to the invariant
   that the files of a finished merge waiting in the side directory are closed and flushed. *)
Theorem C13_sync_invariant_with_merges :
  forall c ops d k evs0 s' rs evs,
  db_open c empty_disk = (OpenOk d k, evs0) ->
  ops_ok (d, k) ops ->
  run (d, k) ops = (s', rs, evs) ->
  SyncInv (fst s').
Proof.
  intros c ops d k evs0 s' rs evs Hopen Hok Hrun.
  destruct (open_empty_G c) as (d0 & k0 & e0 & Ho & HG). rewrite Hopen in Ho. injection Ho as <- <- _.
  destruct (open_empty_log c) as (d1 & k1 & e1 & Ho1 & _ & Hnm). rewrite Hopen in Ho1. injection Ho1 as <- <- _.
  assert (HS : SyncG d k).
  { split; [exact (open_empty_sync c d k evs0 Hopen)|]. unfold MergeFlushed. rewrite Hnm. exact I. }
  exact (proj1 (run_sync_G ops d k [] s' rs evs HG HS Hok Hrun)).
Qed.
Print Assumptions C13_sync_invariant_with_merges.

Theorem C13_step_with_merges :
  forall d k M o d' k' r evs,
  G d k M -> SyncG d k -> gop_ok d o -> step (d, k) o = ((d', k'), r, evs) -> SyncG d' k'.
Proof. exact step_sync_G. Qed.
Print Assumptions C13_step_with_merges.

(* Always: a successful Put returns with the active file flushed (and every older file flushed).
   Threshold (BytesPerSync > 0): it returns with fewer than BytesPerSync unflushed bytes of
   acknowledged Puts/Deletes. *)
Theorem C13_put :
  forall d k v d' evs, InvF d -> SyncInv d -> db_put d k v = (d', None, evs) ->
  SyncInv d' /\
  (c_sync (d_cfg d) = sync_Always -> flushed (d_active d') /\ older_flushed d') /\
  (c_sync (d_cfg d) = sync_Threshold -> 0 < c_bps (d_cfg d) -> unflushed_plain d' < c_bps (d_cfg d)).
Proof. exact db_put_sync. Qed.
Print Assumptions C13_put.

Theorem C13_delete :
  forall d k d' evs, InvF d -> SyncInv d -> db_delete d k = (d', None, evs) ->
  SyncInv d' /\
  (idx_get (d_index d) k <> None -> len k <> 0 -> c_sync (d_cfg d) = sync_Always -> flushed (d_active d') /\ older_flushed d') /\
  (c_sync (d_cfg d) = sync_Threshold -> 0 < c_bps (d_cfg d) -> d_bytes_write d < c_bps (d_cfg d) -> unflushed_plain d' < c_bps (d_cfg d)).
Proof. exact db_delete_sync. Qed.
Print Assumptions C13_delete.

(* a batch created with Sync is flushed, including its sealing record, when Commit returns; its
   earlier pieces live in rotated files, which are flushed *)
Theorem C13_sync_batch :
  forall d b d' b' e evs, Inv d -> SyncInv d -> b_id b <> 0 -> b_committed b = false ->
  batch_commit d b = (d', b', e, evs) ->
  SyncInv d' /\ (b_sync b = true -> b_staged b <> [] -> flushed (d_active d') /\ older_flushed d').
Proof. exact batch_commit_sync. Qed.
Print Assumptions C13_sync_batch.

(* Sync() flushes the active file; Close() flushes every file *)
Theorem C13_sync_flushes : forall d d' evs, db_sync d = (d', evs) -> flushed (d_active d').
Proof. exact db_sync_flushes. Qed.
Print Assumptions C13_sync_flushes.
Theorem C13_close_flushes :
  forall d k k' evs, db_close d k = (k', evs) -> Forall (fun x => flushed (snd x)) (k_data k').
Proof. exact db_close_flushes. Qed.
Print Assumptions C13_close_flushes.

(* a file is flushed before the engine rotates away from it *)
Theorem C13_rotation_flushes :
  forall d d' evs, older_flushed d -> db_rotate d = (d', evs) -> older_flushed d' /\ flushed (d_active d').
Proof. intros d d' evs Ho Hr. destruct (db_rotate_sync d d' evs Ho Hr) as ((_ & _ & H1) & H2 & _). auto. Qed.
Print Assumptions C13_rotation_flushes.

Example C13_nonvacuous :
  let ops := [OpPut [1] [2]; OpBatch true 3 [BPut [4] [5]]; OpSync; OpRestart (mkCfg 64 2 10 1); OpDel [1]] in
  Forall op_ok ops.
Proof. repeat constructor; discriminate. Qed.
