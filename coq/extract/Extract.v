(* Extraction of the executable model.  ExtrOcamlBasic only: bool, option, list, prod,
   unit, sumbool map to OCaml's; N, positive, nat stay Coq inductives. *)
From KV Require Import Bytes Crc Chunk Record Engine Script Crash Index LockTable Conc DataType DataTypeRun.
Require Import ExtrOcamlBasic.
Extraction Language OCaml.
Extraction "model.ml"
  crc32 take drop len zeros
  df_open df_size df_write df_stage df_flush df_refuse scan read_at reader_next
  encode_record decode_record decode_value encode_hint decode_hint
  encode_marker decode_marker disk_size_estimate encoded_len frame df_run
  check_options db_open db_close db_put db_get db_delete db_list_keys db_fold db_fold_n db_stat db_sync
  new_batch batch_put batch_get batch_delete batch_commit batch_refuse batch_put_refused batch_put_sync_refused batch_commit_flushed db_merge db_backup db_files
  lf_crash idx_get mkCfg mkDisk lf_empty step run crash_open crash_open_rm crash_disk fs_replay fs_empty
  db_read di_new di_rewind di_seek di_next di_valid di_cur shards_of next_power_of_two shard_of_hash sh_run flat_run
  lstep lrun holder db_merge_i crun run_cmd dec_meta load_merge_files.
