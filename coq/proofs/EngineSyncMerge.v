(* EngineSyncMerge.v — the sync invariant (C13) through Merge and through the restart that adopts a merge:
   Merge flushes the file it rotates away from, touches its input files only by reading, and closes
   (hence flushes) every rewritten file before it writes the marker; the adopting Open installs closed,
   flushed files. *)
From Coq Require Import ZArith Lia ZifyN ZifyNat ZifyBool Sorting.Sorted.
From KV Require Import Bytes GenConsts Chunk Record Engine Script BytesLemmas AMapLemmas
  EngineFiles EngineInv EngineBatch EngineRefine EngineLog EngineRecover EngineSync EngineCrash
  EngineOpen EngineAdopt EngineMerge EngineKeep EngineMergeRun.
Open Scope N_scope.

Definition closedf (x : N * lfile) : Prop := flushed (snd x) /\ lf_phys (snd x) = lf_size (snd x).

(* the files of a finished merge (marker present and non-zero) are closed and flushed *)
Definition MergeFlushed (k : disk) : Prop :=
  match k_merge k with
  | Some md => (exists mid, m_marker md = Some mid /\ mid <> 0) -> Forall closedf (m_files md)
  | None => True
  end.

(* ---- Merge ------------------------------------------------------------------------------------------------ *)
Lemma older_set_flushed_touch o fid f f' :
  Forall (fun x => flushed (snd x)) o -> older_get o fid = Some f -> lf_durable f' = lf_durable f -> lf_size f' = lf_size f ->
  Forall (fun x => flushed (snd x)) (older_set o fid f').
Proof.
  intros Ho Hg Hd Hs. apply older_set_flushed; [exact Ho|].
  assert (Hf : flushed f).
  { clear - Ho Hg. induction o as [|[i g] o IH]; cbn [older_get] in Hg; [discriminate|].
    destruct (i =? fid); [injection Hg as <-; exact (Forall_inv Ho)|apply IH; [exact (Forall_inv_tail Ho)|exact Hg]]. }
  unfold flushed in *. congruence.
Qed.

Lemma scan_touch_dur io nm f : lf_durable (fst (scan_touch io nm f)) = lf_durable f.
Proof. unfold scan_touch. destruct (lf_size f =? 0); [reflexivity|apply h_read_dur]. Qed.

Lemma merge_files_sync c nm : forall order d m d' res evs,
  SyncInv d -> merge_files c d order nm m = (d', res, evs) -> SyncInv d'.
Proof.
  induction order as [|fid order IH]; intros d m d' res evs HS Hm; cbn [merge_files] in Hm.
  - injection Hm as <- _ _. exact HS.
  - destruct (older_get (d_older d) fid) as [f|] eqn:Hg; [|eapply IH; eassumption].
    pose proof (scan_touch_same (c_io c) (FData fid) f) as [_ Hs]. pose proof (scan_touch_dur (c_io c) (FData fid) f) as Hd.
    destruct (scan_touch (c_io c) (FData fid) f) as [f' ev0]. cbn [fst] in *.
    set (d1 := set_older d (older_set (d_older d) fid f')) in *.
    assert (HS1 : SyncInv d1).
    { destruct HS as (A & B & C). unfold SyncInv, unflushed_plain, older_flushed, d1. cbn [set_older d_active d_older d_bytes_write].
      split; [exact A|]. split; [exact B|]. eapply older_set_flushed_touch; eassumption. }
    destruct (merge_file c (d_index d1) fid nm m (lf_recs f')) as [res1 ev1].
    destruct res1 as [m'|e m'].
    + destruct (merge_files c d1 order nm m') as [[d2 res2] ev2] eqn:Hrest. injection Hm as <- _ _. eapply IH; eassumption.
    + injection Hm as <- _ _. exact HS1.
Qed.

Lemma ms_close_older_closed io : forall files, Forall closedf (fst (ms_close_older io files)).
Proof.
  induction files as [|[id f] files IH]; cbn [ms_close_older fst]; [constructor|].
  pose proof (h_close_flushed io (MData id) f) as Hf. destruct (h_close_spec io (MData id) f) as (_ & H2 & H3).
  destruct (h_close io (MData id) f) as [f' ev1]. destruct (ms_close_older io files) as [rest ev2]. cbn [fst] in *.
  constructor; [split; [exact Hf|cbn [snd]; congruence]|exact IH].
Qed.

Lemma older_set_closed o id f : Forall closedf o -> closedf (id, f) -> Forall closedf (older_set o id f).
Proof.
  intros Ho Hf. induction o as [|[i g] o IH]; cbn [older_set]; [constructor; [exact Hf|constructor]|].
  pose proof (Forall_inv Ho) as H1. pose proof (Forall_inv_tail Ho) as H2.
  destruct (i =? id); [constructor; assumption|]. destruct (id <? i); [constructor; [exact Hf|exact Ho]|].
  constructor; [exact H1|apply IH; exact H2].
Qed.

Theorem db_merge_sync d k order d' k' e evs :
  InvF d -> SyncInv d -> db_merge d k order = (d', k', e, evs) -> SyncInv d' /\ MergeFlushed k'.
Proof.
  intros HF HS Hm. unfold db_merge in Hm.
  destruct (db_rotate d) as [d1 ev1] eqn:Hrot.
  destruct (db_rotate_spec d d1 ev1 HF Hrot) as (HF1 & _).
  destruct (db_rotate_sync _ _ _ (proj2 (proj2 HS)) Hrot) as (HS1 & _ & _).
  destruct (h_open (c_io (d_cfg d)) (MData 0) false lf_empty) as [a0 ev3].
  destruct (hf_open_new (c_io (d_cfg d))) as [h0 ev4].
  destruct (merge_files (d_cfg d) d1 order (d_active_id d1) (mkMs 0 a0 [] h0)) as [[d2 res] ev5] eqn:Hmf.
  destruct (merge_files_spec _ _ _ _ _ _ _ _ HF1 Hmf) as (HF2 & _).
  pose proof (merge_files_sync _ _ _ _ _ _ _ _ HS1 Hmf) as HS2.
  destruct res as [m|er m].
  - destruct (hf_close (c_io (d_cfg d)) (ms_hint m)) as [h1 ev6].
    pose proof (h_close_flushed (c_io (d_cfg d)) (MData (ms_active_id m)) (ms_active m)) as Hfa.
    destruct (h_close_spec (c_io (d_cfg d)) (MData (ms_active_id m)) (ms_active m)) as (_ & A2 & A3).
    destruct (h_close (c_io (d_cfg d)) (MData (ms_active_id m)) (ms_active m)) as [a1 ev7]. cbn [fst] in *.
    pose proof (ms_close_older_closed (c_io (d_cfg d)) (ms_older m)) as Hcl.
    destruct (ms_close_older (c_io (d_cfg d)) (ms_older m)) as [o1 ev8]. cbn [fst] in Hcl.
    destruct (db_sync d2) as [d3 evS] eqn:Hsy.
    pose proof (db_sync_sync _ _ _ HF2 HS2 Hsy) as HS3.
    injection Hm as <- <- _ _. split; [exact HS3|]. unfold MergeFlushed. cbn [k_merge m_files]. intros _.
    apply older_set_closed; [exact Hcl|]. split; [exact Hfa|cbn [snd]; congruence].
  - injection Hm as <- <- _ _. split; [exact HS2|]. unfold MergeFlushed. cbn [k_merge m_marker].
    intros (mid & Hc & _). discriminate.
Qed.

(* ---- the files Open installs ---------------------------------------------------------------------------- *)
Lemma files_del_in fs id x : In x (files_del fs id) -> In x fs.
Proof.
  induction fs as [|[i g] fs IH]; cbn [files_del]; [auto|]. destruct (i =? id); [intros H; right; exact H|].
  intros [<-|H]; [left; reflexivity|right; auto].
Qed.
Lemma older_set_in o id f x : In x (older_set o id f) -> x = (id, f) \/ In x o.
Proof.
  induction o as [|[i g] o IH]; cbn [older_set]; [intros [<-|[]]; auto|].
  destruct (i =? id); [intros [<-|H]; [left; reflexivity|right; right; exact H]|].
  destruct (id <? i); [intros [<-|H]; [left; reflexivity|right; exact H]|].
  intros [<-|H]; [right; left; reflexivity|]. destruct (IH H) as [->|H']; [left; reflexivity|right; right; exact H'].
Qed.
Lemma older_get_in o id f : older_get o id = Some f -> In (id, f) o.
Proof.
  induction o as [|[i g] o IH]; cbn [older_get]; [discriminate|]. destruct (i =? id) eqn:E.
  - intros [= <-]. left. f_equal. lia.
  - intros H. right. auto.
Qed.

Lemma remove_originals_in : forall fuel data id mid x, In x (fst (remove_originals data fuel id mid)) -> In x data.
Proof.
  induction fuel as [|fuel IH]; intros data id mid x; cbn [remove_originals]; [auto|].
  destruct (mid <=? id); [auto|].
  specialize (IH (files_del data id) (id + 1) mid x).
  destruct (remove_originals (files_del data id) fuel (id + 1) mid) as [d' evs]. cbn [fst] in *.
  intros H. eapply files_del_in. apply IH. exact H.
Qed.
Lemma rename_rewritten_in : forall fuel data mf id n x,
  In x (fst (fst (rename_rewritten data mf fuel id n))) -> In x data \/ In x mf.
Proof.
  induction fuel as [|fuel IH]; intros data mf id n x; cbn [rename_rewritten]; [auto|].
  destruct (n <=? id); [auto|].
  rewrite files_get_eq.
  destruct (older_get mf id) as [g|] eqn:Hg.
  - specialize (IH (older_set data id g) (files_del mf id) (id + 1) n x).
    destruct (rename_rewritten (older_set data id g) (files_del mf id) fuel (id + 1) n) as [[d' m'] evs]. cbn [fst] in *.
    intros H. destruct (IH H) as [H1|H1].
    + destruct (older_set_in _ _ _ _ H1) as [->|H2]; [right; apply older_get_in; exact Hg|left; exact H2].
    + right. eapply files_del_in. exact H1.
  - apply IH.
Qed.

Lemma load_merge_files_in k k1 mid ev x :
  load_merge_files k = (k1, mid, ev) -> In x (k_data k1) ->
  In x (k_data k) \/ exists md, k_merge k = Some md /\ m_marker md = Some mid /\ mid <> 0 /\ In x (m_files md).
Proof.
  unfold load_merge_files. destruct (k_merge k) as [m|] eqn:Ekm; [|intros [= <- _ _] H; left; exact H].
  set (mid0 := match m_marker m with Some x => x | None => 0 end).
  destruct (mid0 =? 0) eqn:E0; [intros [= <- _ _] H; left; exact H|].
  set (fuel := S (N.to_nat mid0)). set (n := count_rewritten (m_files m) fuel 0 mid0 0).
  destruct (if 0 <? n then remove_originals (k_data k) fuel n mid0 else (k_data k, [])) as [data1 ev1] eqn:E1.
  destruct (if 0 <? n then rename_rewritten data1 (m_files m) fuel 0 n else (data1, m_files m, [])) as [[data2 mf2] ev2] eqn:E2.
  destruct (match m_hint m with Some h => (Some h, [EvRename MHint FHint]) | None => (k_hint k, []) end) as [hint' ev3].
  intros [= <- <- _] H. cbn [k_data] in H.
  assert (Hmk : m_marker m = Some mid0 /\ mid0 <> 0).
  { unfold mid0 in *. destruct (m_marker m) as [y|]; [split; [reflexivity|lia]|discriminate]. }
  assert (H2 : In x data1 \/ In x (m_files m)).
  { destruct (0 <? n).
    - pose proof (rename_rewritten_in fuel data1 (m_files m) 0 n x) as Hr. rewrite E2 in Hr. cbn [fst] in Hr. auto.
    - injection E2 as <- _ _. left. exact H. }
  destruct H2 as [H2|H2].
  - left. destruct (0 <? n).
    + pose proof (remove_originals_in fuel (k_data k) n mid0 x) as Hr. rewrite E1 in Hr. cbn [fst] in Hr. auto.
    + injection E1 as <- _. exact H2.
  - right. exists m. destruct Hmk. auto.
Qed.

(* ---- Open in general: the database it builds has everything flushed -------------------------------------- *)
Lemma db_open_flushed_gen c k k1 mid ev1 d k' evs :
  load_merge_files k = (k1, mid, ev1) -> Forall closedf (k_data k1) ->
  db_open c k = (OpenOk d k', evs) ->
  flushed (d_active d) /\ older_flushed d /\ d_bytes_write d = 0.
Proof.
  intros Hload Hfl H. unfold db_open in H. rewrite Hload in H.
  pose proof (open_files_flushed (c_io c) (k_data k1) Hfl) as Hof.
  destruct (open_all (c_io c) (k_data k1)) as [files ev2]. cbn [fst] in Hof.
  destruct (if 0 <? mid then _ else ([], k1, [])) as [[hintrecs k2] ev3].
  destruct (load_hint (mkDb c 0 lf_empty [] [] 0 0 0) hintrecs 0) as [dh hinted].
  set (from := if 0 <? mid then (if hinted <? mid then hinted else mid) else 0) in *.
  destruct (split_last files) as [[older [aid af]]|] eqn:Esl.
  - destruct (split_last_forall _ _ _ _ Hof Esl) as [Ho Ha]. cbn [snd] in Ha.
    destruct (replay_files_files files (mkDb c aid af older (d_index dh) 0 (d_total dh) (d_reclaim dh)) [] from) as (G2 & G3 & G4).
    destruct (replay_files (mkDb c aid af older (d_index dh) 0 (d_total dh) (d_reclaim dh)) [] files from) as [d3 t3].
    cbn [fst d_active d_older d_bytes_write] in *.
    destruct ((from <=? aid) && lf_torn af).
    + destruct (db_rotate d3) as [d4 ev5] eqn:Hrot. injection H as <- _ _.
      assert (Hof3 : older_flushed d3) by (unfold older_flushed; rewrite G3; exact Ho).
      destruct (db_rotate_sync _ _ _ Hof3 Hrot) as ((_ & _ & Hof4) & Hfl4 & _).
      split; [exact Hfl4|]. split; [exact Hof4|].
      unfold db_rotate in Hrot. destruct (h_sync _ _). destruct (h_open _ _ _ _). injection Hrot as <- _. reflexivity.
    + injection H as <- _ _. unfold older_flushed. rewrite G2, G3, G4. auto.
  - pose proof (h_open_new_dur (c_io c) (FData 0)) as Hn.
    destruct (h_open (c_io c) (FData 0) false lf_empty) as [n ev].  cbn [fst] in Hn.
    destruct (replay_files_files files (mkDb c 0 n [] (d_index dh) 0 (d_total dh) (d_reclaim dh)) [] from) as (G2 & G3 & G4).
    destruct (replay_files (mkDb c 0 n [] (d_index dh) 0 (d_total dh) (d_reclaim dh)) [] files from) as [d3 t3].
    cbn [fst andb d_active d_older d_bytes_write] in *.
    injection H as <- _ _. unfold older_flushed. rewrite G2, G3, G4. split; [exact Hn|]. split; [constructor|reflexivity].
Qed.

(* ---- every operation, merges and restarts included ---------------------------------------------------------- *)
Definition SyncG (d : db) (k : disk) : Prop := SyncInv d /\ MergeFlushed k.

Lemma load_merge_files_flushed k k1 mid ev : load_merge_files k = (k1, mid, ev) -> MergeFlushed k -> MergeFlushed k1.
Proof.
  unfold load_merge_files, MergeFlushed. destruct (k_merge k) as [m|] eqn:Ekm; [|intros [= <- _ _] H; rewrite Ekm; exact I].
  set (mid0 := match m_marker m with Some x => x | None => 0 end).
  destruct (mid0 =? 0) eqn:E0.
  - intros [= <- _ _] _. cbn [k_merge m_marker]. intros (x & [= <-] & Hx). apply N.eqb_eq in E0. contradiction.
  - destruct (if 0 <? _ then remove_originals _ _ _ _ else _) as [data1 ev1].
    destruct (if 0 <? _ then rename_rewritten _ _ _ _ _ else _) as [[data2 mf2] ev2].
    destruct (match m_hint m with Some h => _ | None => _ end) as [hint' ev3].
    intros [= <- _ _] _. exact I.
Qed.

Lemma db_open_merge c k k1 mid ev1 d k' evs :
  load_merge_files k = (k1, mid, ev1) -> db_open c k = (OpenOk d k', evs) -> k_merge k' = k_merge k1.
Proof.
  intros Hload H. unfold db_open in H. rewrite Hload in H.
  destruct (open_all (c_io c) (k_data k1)) as [files ev2].
  destruct (0 <? mid); [destruct (c_io c =? io_MMap)|]; cbv beta iota zeta in H;
  (destruct (load_hint _ _ 0) as [dh hinted]; destruct (split_last files) as [[older [aid af]]|];
   [destruct (replay_files _ _ _ _) as [d3 t3]; destruct (_ && _); [destruct (db_rotate d3)|]; injection H as _ <- _; reflexivity
   |destruct (h_open _ _ _ _); destruct (replay_files _ _ _ _); cbn [andb] in H; injection H as _ <- _; reflexivity]).
Qed.

Lemma step_sync_plain d k M o d' k' r evs :
  plain_op o -> G d k M -> SyncG d k -> step (d, k) o = ((d', k'), r, evs) -> SyncG d' k'.
Proof.
  intros Hp HG [HS HF] Hst. pose proof HG as [HL HM].
  destruct (step_keep 0 d k M o d' k' r evs HL Hp Hst) as [_ ->]. split; [|exact HF].
  apply (step_sync d (mkDisk (k_data k) (k_hint k) None) M o d' (mkDisk (k_data k) (k_hint k) None) r evs HL HS eq_refl
           (plain_op_ok o Hp)).
  apply (step_plain_k d k o d' k r evs); assumption.
Qed.

Theorem step_sync_G d k M o d' k' r evs :
  G d k M -> SyncG d k -> gop_ok d o -> step (d, k) o = ((d', k'), r, evs) -> SyncG d' k'.
Proof.
  intros HG HSG Hok Hst. pose proof HG as [HL HM]. pose proof HSG as [HS HF].
  destruct o as [key v|key|key| | | | |sync id bops|order|c].
  1-8: (eapply step_sync_plain; [|exact HG|exact HSG|exact Hst]; (exact Hok || exact I)).
  - (* Merge *)
    cbn [step] in Hst. destruct (db_merge d k order) as [[[d1 k1] e] ev] eqn:Hm. injection Hst as <- <- _ _.
    exact (db_merge_sync d k order d1 k1 e ev (proj1 (proj1 (proj1 HL))) HS Hm).
  - (* Restart: the adopting Open installs closed files *)
    destruct (G_restart d k M c d' k' r evs HG Hst) as [[HL' _] _].
    cbn [step] in Hst. destruct (db_close d k) as [k1 ev1] eqn:Hc.
    destruct (db_close_gen d k M k1 ev1 HL Hc) as (Hasc & Hfok & _ & Hm1 & _ & _).
    pose proof (db_close_flushes d k k1 ev1 Hc) as Hfl.
    destruct (load_merge_files k1) as [[k1' mid] evl] eqn:Hload.
    destruct (db_open c k1) as [[d1 k2|er k2] ev2] eqn:Ho.
    2: { (* G says the Open succeeds; if it did not, nothing changed *)
         injection Hst as <- <- _ _. split; [exact HS|].
         unfold db_open in Ho. rewrite Hload in Ho. destruct (open_all _ _) as [files e2].
         destruct (if 0 <? mid then _ else _) as [[hr k2'] e3]. destruct (load_hint _ _ _) as [dh hinted].
         destruct (split_last files) as [[older [aid af]]|].
         - destruct (replay_files _ _ _ _) as [d3 t3]. destruct (_ && _); [destruct (db_rotate d3)|]; discriminate.
         - destruct (h_open _ _ _ _). destruct (replay_files _ _ _ _). cbn [andb] in Ho. discriminate. }
    injection Hst as <- <- _ _.
    assert (HF1 : MergeFlushed k1) by (unfold MergeFlushed in *; rewrite Hm1; exact HF).
    assert (Hcl : Forall closedf (k_data k1')).
    { apply Forall_forall. intros x Hx.
      destruct (load_merge_files_in k1 k1' mid evl x Hload Hx) as [Hin|(md & Hkm & Hmk & Hne & Hin)].
      - rewrite Forall_forall in Hfl, Hfok. split; [apply Hfl; exact Hin|exact (proj2 (proj2 (Hfok x Hin)))].
      - unfold MergeFlushed in HF1. rewrite Hkm in HF1. specialize (HF1 (ex_intro _ mid (conj Hmk Hne))).
        rewrite Forall_forall in HF1. apply HF1. exact Hin. }
    destruct (db_open_flushed_gen c k1 k1' mid evl d1 k2 ev2 Hload Hcl Ho) as (Ha & Hof & Hbw).
    split.
    + destruct HL' as [(HI' & _) _]. destruct HI' as [[Hact _] _].
      unfold SyncInv, unflushed_plain. unfold flushed in Ha. split; [lia|]. split; [|exact Hof].
      rewrite (plain_beyond_flushed (lf_recs (d_active d1)) (lf_size (d_active d1))); [lia| |lia].
      intros r0 p0 Hin. apply (Hact r0 p0). exact Hin.
    + pose proof (load_merge_files_flushed k1 k1' mid evl Hload HF1) as HF2.
      unfold MergeFlushed in *. rewrite (db_open_merge c k1 k1' mid evl d1 k2 ev2 Hload Ho). exact HF2.
Qed.

Theorem run_sync_G : forall ops d k M s' rs evs,
  G d k M -> SyncG d k -> ops_ok (d, k) ops -> run (d, k) ops = (s', rs, evs) -> SyncG (fst s') (snd s').
Proof.
  induction ops as [|o ops IH]; intros d k M s' rs evs HG HS Hok Hrun; cbn [run] in Hrun.
  - injection Hrun as <- _ _. exact HS.
  - destruct Hok as [Ho Hrest].
    destruct (step (d, k) o) as [[[d1 k1] r] ev1] eqn:Hst. cbn [fst] in Hrest.
    destruct (run (d1, k1) ops) as [[s2 rs2] ev2] eqn:Hr2. injection Hrun as <- _ _.
    destruct (step_G _ _ _ _ _ _ _ _ HG Ho Hst) as (HG1 & _).
    pose proof (step_sync_G _ _ _ _ _ _ _ _ HG HS Ho Hst) as HS1.
    eapply IH; eassumption.
Qed.
