(* ZeroProofs.v — a lost block (C04, C03): where a record should begin the reader finds zeros.  The scan ends
   there as a torn tail, whatever lies behind: nothing behind a hole is ever replayed. *)
From Coq Require Import List ZArith Lia ZifyN ZifyNat ZifyBool.
From KV Require Import Bytes GenConsts Chunk BytesLemmas ChunkProofs FramingProofs FileProofs.
Import ListNotations.
Open Scope N_scope.
Ltac Zify.zify_post_hook ::= Z.div_mod_to_equations.

Section WithCrc.
Variable crc : bytes -> N.
Hypothesis crc_u32 : forall b, crc b < 4294967296.
(* the checksum of a zero length field and a zero type byte is not zero (true of CRC-32: props/C04.v) *)
Hypothesis crc_zero_header : crc [0; 0; 0] <> 0.

Lemma take_drop_mid (a m r : bytes) i k : i = len a -> k = len m -> take k (drop i (a ++ m ++ r)) = m.
Proof. intros -> ->. rewrite drop_app_exact by reflexivity. apply take_app_exact. reflexivity. Qed.

Lemma decode_zero_header (rest : bytes) :
  decode_chunk crc (0 :: 0 :: 0 :: 0 :: 0 :: 0 :: 0 :: rest) = Err InvalidCRC.
Proof.
  remember ((0 :: 0 :: 0 :: 0 :: 0 :: 0 :: 0 :: rest) : bytes) as c eqn:Hc.
  assert (Hlen : len c = len rest + 7) by (rewrite Hc, !len_cons; lia).
  unfold decode_chunk. rewrite chunkHeaderSize_val.
  destruct (len c <? 7) eqn:E1; [lia|].
  rewrite (gslice_ok 4 6 c) by lia.
  replace (take (6 - 4) (drop 4 c)) with [0; 0]
    by (rewrite Hc; symmetry; apply (take_drop_mid [0; 0; 0; 0] [0; 0] (0 :: rest)); reflexivity).
  cbn [rd16]. replace (7 + (0 + 256 * 0)) with 7 by lia.
  destruct (len c <? 7) eqn:E2; [lia|].
  rewrite (gslice_ok 4 7 c) by lia. rewrite (gslice_ok 0 4 c) by lia. assert (H77 : 7 <= len c) by lia. assert (H7 : (7:N) <= 7) by lia. destruct (gslice_some 7 7 c H7 H77) as [pl Hpl]. rewrite Hpl.
  replace (take (7 - 4) (drop 4 c)) with [0; 0; 0]
    by (rewrite Hc; symmetry; apply (take_drop_mid [0; 0; 0; 0] [0; 0; 0] rest); reflexivity).
  replace (take (4 - 0) (drop 0 c)) with [0; 0; 0; 0]
    by (rewrite Hc; symmetry; apply (take_drop_mid [] [0; 0; 0; 0] (0 :: 0 :: 0 :: rest)); reflexivity).
  replace (gindex 6 c) with (Some 0) by (rewrite Hc; reflexivity).
  cbn [rd32]. replace (0 + 256 * 0 + 65536 * 0 + 16777216 * 0) with 0 by lia.
  destruct (0 =? crc [0; 0; 0]) eqn:E3; [lia|reflexivity].
Qed.

Definition z7 : bytes := [0; 0; 0; 0; 0; 0; 0].

(* where a chunk should begin there are seven zero bytes: the chunk is reported as the torn end of the file *)
Lemma read_chunk_zero (pre rest : bytes) bid off :
  len pre = bid * blockSize + off -> off + 7 <= blockSize ->
  read_chunk crc (pre ++ z7 ++ rest) (len (pre ++ z7 ++ rest)) bid off = CErr UnexpectedEOF.
Proof.
  intros Hpre Hoff. unfold read_chunk. rewrite blockSize_val in *.
  set (f := pre ++ z7 ++ rest).
  assert (Hf : len f = len pre + 7 + len rest) by (unfold f; rewrite !len_app; change (len z7) with 7; lia).
  destruct (len f <=? bid * 32768) eqn:E1; [lia|].
  set (size := if len f - bid * 32768 <=? 32768 then len f - bid * 32768 else 32768).
  assert (Hsize : off + 7 <= size /\ size <= 32768 /\ bid * 32768 + size <= len f).
  { unfold size. destruct (len f - bid * 32768 <=? 32768) eqn:E2; lia. }
  destruct (size <=? off) eqn:E3; [lia|].
  rewrite slice_eq.
  replace (bid * 32768 + size - (bid * 32768 + off)) with (7 + (size - off - 7)) by lia.
  replace (bid * 32768 + off) with (len pre) by lia.
  unfold f. rewrite drop_app_exact by reflexivity.
  rewrite take_add. rewrite (take_app_exact z7 rest 7) by reflexivity.
  rewrite (drop_app_exact z7 rest 7) by reflexivity.
  change (z7 ++ take (size - off - 7) rest) with (0 :: 0 :: 0 :: 0 :: 0 :: 0 :: 0 :: take (size - off - 7) rest).
  rewrite decode_zero_header. unfold chunk_error. rewrite chunkHeaderSize_val.
  match goal with |- context[all_zero ?t] =>
    replace t with z7 by (symmetry; apply (take_app_exact z7 (take (size - off - 7) rest) 7); reflexivity) end.
  match goal with |- context[7 <=? ?l] =>
    assert (Hlc : 7 <= l) by (rewrite !len_cons; lia); destruct (7 <=? l) eqn:E4; [|lia] end.
  reflexivity.
Qed.

Lemma reader_next_zero (pre rest : bytes) fid bid off :
  len pre = bid * blockSize + off -> off + 7 <= blockSize ->
  reader_next crc (pre ++ z7 ++ rest) fid bid off = Err UnexpectedEOF.
Proof.
  intros Hpre Hoff. unfold reader_next, blocks_fuel. cbn [reader_next_fuel].
  rewrite read_chunk_zero by assumption. reflexivity.
Qed.

(* C04 / C03: a file written from empty, then - where the next record would begin (after the block-tail padding, if
   the writer would pad) - seven zero bytes (a block that never reached the disk reads back as zeros), then ANY bytes:
   the scan returns exactly the records written before the hole and ends as a torn tail.  Nothing behind the hole -
   later records of a batch, its batch-finished record - is ever delivered to recovery or to a merge. *)
Theorem scan_stops_at_hole : forall ds fid bs ps bid' bsz' behind,
  Forall nonempty ds ->
  write_all_buf crc fid 0 0 ds = (bs, ps, bid', bsz') ->
  scan crc (bs ++ zeros (pad_len bsz') ++ z7 ++ behind) fid = (combine ds ps, STorn).
Proof.
  intros ds fid bs ps bid' bsz' behind Hne Hw.
  assert (H0 : 0 < blockSize) by (rewrite blockSize_val; lia).
  destruct (write_all_state crc crc_u32 ds fid 0 0 [] bs ps bid' bsz' H0 eq_refl Hne Hw) as (Hlen & Hwf & Hps & Hbytes).
  cbn [app] in Hlen.
  set (F := bs ++ zeros (pad_len bsz') ++ z7 ++ behind).
  unfold scan. rewrite chunkHeaderSize_val.
  assert (HF : len F = len bs + pad_len bsz' + 7 + len behind).
  { unfold F. rewrite !len_app, len_zeros. change (len z7) with 7. lia. }
  assert (Hfuel : exists k, S (N.to_nat (len F / 7)) = (length ds + S k)%nat).
  { exists (N.to_nat (len F / 7) - length ds)%nat. lia. }
  destruct Hfuel as [k ->].
  pose proof (scan_written crc crc_u32 ds fid 0 0 [] (zeros (pad_len bsz') ++ z7 ++ behind) bs ps bid' bsz' (S k) H0 eq_refl Hne Hw) as HS.
  change (norm 0 0) with (0, 0) in HS. cbn [fst snd app] in HS. fold F in HS. rewrite HS.
  assert (Hrd : reader_next crc F fid (fst (norm bid' bsz')) (snd (norm bid' bsz')) = Err UnexpectedEOF).
  { unfold F. rewrite app_assoc.
    destruct (norm_cases bid' bsz' Hwf) as [(Hp & Hn & Hlt)|(Hp & Hn & Hge)]; rewrite Hn; cbn [fst snd];
      apply reader_next_zero; rewrite ?len_app, ?len_zeros, ?Hp, ?Hlen; rewrite blockSize_val, chunkHeaderSize_val in *; lia. }
  cbn [scan_fuel]. rewrite Hrd. cbn [fst snd]. rewrite app_nil_r. reflexivity.
Qed.
End WithCrc.
