(* EngineHint.v — loading the index from the hint file equals scanning the rewritten files (C18). *)
From Coq Require Import ZArith Lia ZifyN ZifyNat ZifyBool Sorting.Sorted.
From KV Require Import Bytes GenConsts Chunk Record Engine Script BytesLemmas AMapLemmas
  EngineFiles EngineInv EngineBatch EngineRefine EngineLog EngineRecover EngineOpen EngineAdopt EngineMerge.
Open Scope N_scope.

(* the index (and the pending batches) produced by a replay depend only on the index it starts from *)
Lemma apply_staged_index_only : forall RL a b, d_index a = d_index b -> d_index (apply_staged a RL) = d_index (apply_staged b RL).
Proof.
  induction RL as [|[r p] RL IH]; intros a b Hab; [exact Hab|]. rewrite !apply_staged_cons. apply IH.
  rewrite !index_step_index, Hab. reflexivity.
Qed.

Lemma replay_recs_index_only : forall rs a b t, d_index a = d_index b ->
  d_index (fst (replay_recs a t rs)) = d_index (fst (replay_recs b t rs)) /\
  snd (replay_recs a t rs) = snd (replay_recs b t rs).
Proof.
  induction rs as [|[r p] rs IH]; intros a b t Hab; cbn [replay_recs]; [auto|].
  destruct (r_batch r =? 0).
  - apply IH. rewrite !update_index_eq, !index_step_index, Hab. reflexivity.
  - destruct (r_type r =? rt_BatchFinished).
    + apply IH. rewrite !fold_update_index. apply apply_staged_index_only. exact Hab.
    + apply IH. exact Hab.
Qed.

Lemma replay_files_index_only : forall fs a b t from, d_index a = d_index b ->
  d_index (fst (replay_files a t fs from)) = d_index (fst (replay_files b t fs from)).
Proof.
  induction fs as [|[i g] fs IH]; intros a b t from Hab; cbn [replay_files]; [exact Hab|].
  destruct (i <? from); [apply IH; exact Hab|].
  destruct (replay_recs_index_only (lf_recs g) a b t Hab) as [H1 H2].
  destruct (replay_recs a t (lf_recs g)) as [a' ta]. destruct (replay_recs b t (lf_recs g)) as [b' tb]. cbn [fst snd] in *.
  subst tb. apply IH. exact H1.
Qed.

(* scanning plain records is flushStaged's index update, record by record *)
Lemma replay_recs_plain : forall rs d t, Forall (fun rp : record * pos => r_batch (fst rp) = 0) rs ->
  replay_recs d t rs = (apply_staged d rs, t).
Proof.
  induction rs as [|[r p] rs IH]; intros d t H; [reflexivity|]. cbn [replay_recs].
  pose proof (Forall_inv H) as H1. cbn [fst] in H1. rewrite H1, N.eqb_refl, update_index_eq, apply_staged_cons.
  apply IH. exact (Forall_inv_tail H).
Qed.

Lemma apply_staged_app : forall a b d, apply_staged d (a ++ b) = apply_staged (apply_staged d a) b.
Proof. induction a as [|[r p] a IH]; intros b d; [reflexivity|]. cbn [app]. rewrite !apply_staged_cons. apply IH. Qed.

Lemma replay_files_plain : forall fs d t, Forall (fun rp : record * pos => r_batch (fst rp) = 0) (recs_of fs) ->
  replay_files d t fs 0 = (apply_staged d (recs_of fs), t).
Proof.
  induction fs as [|[i g] fs IH]; intros d t H; [reflexivity|]. cbn [replay_files].
  destruct (i <? 0) eqn:E; [lia|]. unfold recs_of in H. cbn [map concat snd] in H. apply Forall_app in H. destruct H as [H1 H2].
  rewrite (replay_recs_plain _ d t H1). rewrite (IH _ t H2). unfold recs_of. cbn [map concat snd]. rewrite apply_staged_app. reflexivity.
Qed.

Lemma replay_files_app : forall a b d t,
  replay_files d t (a ++ b) 0 = replay_files (fst (replay_files d t a 0)) (snd (replay_files d t a 0)) b 0.
Proof.
  induction a as [|[i g] a IH]; intros b d t; [reflexivity|]. cbn [app replay_files]. destruct (i <? 0) eqn:E; [lia|].
  destruct (replay_recs d t (lf_recs g)) as [d' t']. apply IH.
Qed.

(* Open through the hint file (load the hint entries, then scan only the files written after the
   merge) builds the same index as scanning every file: same keys, same positions, same sizes *)
Theorem hint_index_equals_scan_index c aid af older files n mid tot rc :
  files = below n files ++ from_ mid files ->
  Forall (fun rp => plain_live (fst rp)) (recs_of (below n files)) ->
  d_index (fst (replay_files (mkDb c aid af older (hint_index (hint_of (recs_of (below n files))) []) 0 tot rc) []
                             (from_ mid files) 0)) =
  d_index (fst (replay_files (mkDb c aid af older [] 0 0 0) [] files 0)).
Proof.
  intros Hsplit Hpl. rewrite Hsplit at 3. rewrite replay_files_app.
  assert (Hb : Forall (fun rp : record * pos => r_batch (fst rp) = 0) (recs_of (below n files))).
  { eapply Forall_impl; [|exact Hpl]. intros rp [H _]. exact H. }
  assert (Hd : Forall (fun rp : record * pos => (r_type (fst rp) =? rt_Deleted) = false) (recs_of (below n files))).
  { eapply Forall_impl; [|exact Hpl]. intros rp [_ H]. exact H. }
  rewrite (replay_files_plain _ _ [] Hb). cbn [fst snd].
  apply replay_files_index_only. rewrite (apply_staged_index _ _ Hd). reflexivity.
Qed.

(* what the hint file says about the rewritten files *)
Theorem hint_entries_faithful md mid M h :
  merge_dir_ok md mid M -> m_hint md = Some h ->
  map fst (hf_recs h) = map r_key (files_log (m_files md)) /\
  forall key p, In (key, p) (hf_recs h) ->
    exists f r, older_get (m_files md) (p_fid p) = Some f /\
                lf_lookup (lf_recs f) (p_bid p) (p_off p) = Some r /\ r_key r = key /\ plain_live r.
Proof.
  intros (n & h' & _ & Hh' & _ & _ & (Hasc & Hok & _) & Hhint & Hpl & _) Hh. rewrite Hh in Hh'. injection Hh' as <-.
  split.
  - rewrite Hhint, files_log_recs. unfold hint_of. rewrite !map_map. reflexivity.
  - intros key p Hin. rewrite Hhint in Hin. unfold hint_of in Hin. apply in_map_iff in Hin.
    destruct Hin as ([r p0] & Heq & Hin). cbn [fst snd] in Heq. injection Heq as <- <-.
    destruct (recs_of_in _ _ _ Hin) as (id & f & Hf & Hrp).
    rewrite Forall_forall in Hok. destruct (Hok _ Hf) as (_ & Hpo & _). cbn [fst snd] in Hpo.
    destruct (Hpo r p0 Hrp) as [Hfid Hlk].
    exists f, r. split; [rewrite Hfid; apply asc_get_in; assumption|]. split; [exact Hlk|]. split; [reflexivity|].
    rewrite Forall_forall in Hpl. exact (Hpl _ Hin).
Qed.
