(* EngineKeep.v — no operation other than the adoption step of Open touches the records of a data
   file whose id is below the id of the active file: the files that took part in a merge keep
   their content until the merge is adopted. *)
From Coq Require Import ZArith Lia ZifyN ZifyNat ZifyBool Sorting.Sorted.
From KV Require Import Bytes GenConsts Chunk Record Engine Script BytesLemmas AMapLemmas
  EngineFiles EngineInv EngineBatch EngineRefine EngineLog EngineRecover EngineOpen EngineAdopt.
Open Scope N_scope.

Definition orecs (fs : list (N * lfile)) (x : N) : list record :=
  match older_get fs x with Some f => file_log f | None => [] end.

(* the files below [mid] keep their records, and the active id stays at or above [mid] *)
Definition Keep (mid : N) (d d' : db) : Prop :=
  mid <= d_active_id d -> mid <= d_active_id d' /\ forall x, x < mid -> orecs (d_older d') x = orecs (d_older d) x.

Lemma Keep_refl mid d : Keep mid d d.
Proof. intros H. auto. Qed.
Lemma Keep_trans mid a b c : Keep mid a b -> Keep mid b c -> Keep mid a c.
Proof. intros H1 H2 Ha. destruct (H1 Ha) as [Hb E1]. destruct (H2 Hb) as [Hc E2]. split; [exact Hc|].
  intros x Hx. rewrite E2, E1 by exact Hx. reflexivity. Qed.
Lemma Keep_ext mid d d' : d_active_id d' = d_active_id d -> d_older d' = d_older d -> Keep mid d d'.
Proof. intros H1 H2 Ha. rewrite H1, H2. auto. Qed.

Lemma orecs_set_other o id f x : x <> id -> orecs (older_set o id f) x = orecs o x.
Proof. intros H. unfold orecs. rewrite older_get_set. destruct (x =? id) eqn:E; [lia|reflexivity]. Qed.
Lemma orecs_set_same o id f g x : older_get o id = Some g -> lf_recs f = lf_recs g -> orecs (older_set o id f) x = orecs o x.
Proof. intros Hg Hr. unfold orecs. rewrite older_get_set. destruct (x =? id) eqn:E; [|reflexivity].
  assert (x = id) by lia. subst x. rewrite Hg. unfold file_log. rewrite Hr. reflexivity. Qed.

Lemma db_rotate_keep mid d d' evs : db_rotate d = (d', evs) -> Keep mid d d'.
Proof.
  unfold db_rotate. destruct (h_sync _ _) as [a e1]. destruct (h_open _ _ _ _) as [n e2].
  intros [= <- _] Ha. cbn [d_active_id d_older]. split; [lia|]. intros x Hx. apply orecs_set_other. lia.
Qed.

Lemma db_append_keep mid d r d' p evs : db_append d r = (d', p, evs) -> Keep mid d d'.
Proof.
  intros Happ. unfold db_append in Happ.
  destruct (if c_fsize (d_cfg d) <? _ then db_rotate d else (d, [])) as [d1 ev1] eqn:Hrot.
  assert (K1 : Keep mid d d1).
  { destruct (c_fsize (d_cfg d) <? _); [eapply db_rotate_keep; exact Hrot|injection Hrot as <- _; apply Keep_refl]. }
  destruct (lf_append _ _ _ _ r) as [[a p0] ev2].
  eapply Keep_trans; [exact K1|].
  destruct (_ || _); [destruct (h_sync _ a) as [a' ev3]|]; injection Happ as <- _ _; apply Keep_ext; reflexivity.
Qed.

Lemma db_put_keep mid d k v d' e evs : db_put d k v = (d', e, evs) -> Keep mid d d'.
Proof.
  unfold db_put. destruct (len k =? 0); [intros [= <- _ _]; apply Keep_refl|].
  destruct (db_append d _) as [[d1 p] ev1] eqn:Happ. destruct (idx_put _ _ _) as [ix old].
  intros [= <- _ _]. eapply Keep_trans; [eapply db_append_keep; exact Happ|apply Keep_ext; reflexivity].
Qed.

Lemma db_delete_keep mid d k d' e evs : db_delete d k = (d', e, evs) -> Keep mid d d'.
Proof.
  unfold db_delete. destruct (len k =? 0); [intros [= <- _ _]; apply Keep_refl|].
  destruct (idx_get (d_index d) k); [|intros [= <- _ _]; apply Keep_refl].
  destruct (db_append d _) as [[d1 p1] ev1] eqn:Happ. destruct (idx_del _ _) as [ix old].
  intros H. eapply Keep_trans; [eapply db_append_keep; exact Happ|].
  destruct old; injection H as <- _ _; apply Keep_ext; reflexivity.
Qed.

Lemma same_files_keep mid d d' : same_files d d' -> Keep mid d d'.
Proof.
  intros (H1 & _ & H3) Ha. rewrite H1. split; [exact Ha|]. intros x _. unfold orecs.
  clear - H3. induction H3 as [|[i f] [j g] a b [Hi Hr] _ IH]; [reflexivity|]. cbn [fst snd older_get] in *. subst j.
  destruct (i =? x); [unfold file_log; rewrite Hr; reflexivity|exact IH].
Qed.

Lemma batch_flush_keep mid d b d' b' evs : batch_flush d b = (d', b', evs) -> Keep mid d d'.
Proof.
  intros Hfl. unfold batch_flush in Hfl.
  destruct (if _ && _ then db_rotate d else (d, [])) as [d1 ev1] eqn:Hrot.
  assert (K1 : Keep mid d d1).
  { destruct (_ && _); [eapply db_rotate_keep; exact Hrot|injection Hrot as <- _; apply Keep_refl]. }
  destruct (lf_append_all _ _ _ _ _) as [[a ps] ev2].
  destruct (if b_sync b then _ else _) as [a' ev3]. injection Hfl as <- _ _.
  eapply Keep_trans; [exact K1|].
  match goal with |- Keep mid d1 (apply_staged ?dd ?l) => destruct (apply_staged_files l dd) as (F1 & _ & F3) end.
  apply Keep_ext; [rewrite F1|rewrite F3]; reflexivity.
Qed.

Lemma batch_flush_rotate_keep mid d b d' b' evs : batch_flush_rotate d b = (d', b', evs) -> Keep mid d d'.
Proof.
  unfold batch_flush_rotate. destruct (batch_flush d b) as [[d1 b1] ev1] eqn:Hfl.
  destruct (db_rotate d1) as [d2 ev2] eqn:Hrot. intros [= <- _ _].
  eapply Keep_trans; [eapply batch_flush_keep; exact Hfl|eapply db_rotate_keep; exact Hrot].
Qed.

Lemma batch_put_keep mid d b k v d' b' e evs : batch_put d b k v = (d', b', e, evs) -> Keep mid d d'.
Proof.
  unfold batch_put. destruct (len k =? 0); [intros [= <- _ _ _]; apply Keep_refl|].
  destruct (b_committed b); [intros [= <- _ _ _]; apply Keep_refl|].
  destruct (staged_find (b_staged b) k) as [r|].
  - destruct (_ <? _).
    + destruct (batch_flush_rotate d b) as [[d1 b1] ev1] eqn:Hfl. intros [= <- _ _ _]. eapply batch_flush_rotate_keep; exact Hfl.
    + intros [= <- _ _ _]. apply Keep_refl.
  - destruct (_ <? _).
    + destruct (batch_flush_rotate d b) as [[d1 b1] ev1] eqn:Hfl. intros [= <- _ _ _]. eapply batch_flush_rotate_keep; exact Hfl.
    + intros [= <- _ _ _]. apply Keep_refl.
Qed.

Lemma batch_delete_keep mid d b k d' b' e evs : batch_delete d b k = (d', b', e, evs) -> Keep mid d d'.
Proof.
  unfold batch_delete. destruct (len k =? 0); [intros [= <- _ _ _]; apply Keep_refl|].
  destruct (b_committed b); [intros [= <- _ _ _]; apply Keep_refl|].
  destruct (staged_find (b_staged b) k) as [r|]; [intros [= <- _ _ _]; apply Keep_refl|].
  destruct (idx_get (d_index d) k); [|intros [= <- _ _ _]; apply Keep_refl].
  destruct (_ <? _).
  - destruct (batch_flush_rotate d b) as [[d1 b1] ev1] eqn:Hfl. intros [= <- _ _ _]. eapply batch_flush_rotate_keep; exact Hfl.
  - intros [= <- _ _ _]. apply Keep_refl.
Qed.

Lemma batch_get_keep mid d b k d' r evs : InvO d -> batch_get d b k = (d', r, evs) -> Keep mid d d'.
Proof.
  intros HO. unfold batch_get. destruct (len k =? 0); [intros [= <- _ _]; apply Keep_refl|].
  destruct (b_committed b); [intros [= <- _ _]; apply Keep_refl|].
  destruct (staged_find (b_staged b) k) as [r0|]; [destruct (r_type r0 =? rt_Deleted); intros [= <- _ _]; apply Keep_refl|].
  destruct (idx_get (d_index d) k) as [p|]; [|intros [= <- _ _]; apply Keep_refl].
  intros H. apply same_files_keep. eapply db_read_files; eassumption.
Qed.

Lemma batch_commit_keep mid d b d' b' e evs : batch_commit d b = (d', b', e, evs) -> Keep mid d d'.
Proof.
  unfold batch_commit. destruct (b_committed b); [intros [= <- _ _ _]; apply Keep_refl|].
  destruct (b_staged b) as [|r0 rs]; [intros [= <- _ _ _]; apply Keep_refl|].
  destruct (batch_flush d _) as [[d1 b1] ev1] eqn:Hfl.
  destruct (lf_append _ _ _ _ _) as [[a p] ev2]. destruct (if b_sync b then _ else _) as [a' ev3].
  intros [= <- _ _ _]. eapply Keep_trans; [eapply batch_flush_keep; exact Hfl|apply Keep_ext; reflexivity].
Qed.

Lemma run_bops_keep mid : forall bops d b m0 fl d' b' rs evs,
  Inv d -> (exists mc, BRel d b mc) -> BL d b m0 fl -> run_bops d b bops = (d', b', rs, evs) -> Keep mid d d'.
Proof.
  induction bops as [|o bops IH]; intros d b m0 fl d' b' rs evs HI [mc HB] HL Hrun; cbn [run_bops] in Hrun.
  - injection Hrun as <- _ _ _. apply Keep_refl.
  - destruct o as [k v|k|k].
    + destruct (batch_put d b k v) as [[[d1 b1] e] ev1] eqn:Hp.
      destruct (run_bops d1 b1 bops) as [[[d2 b2] rs2] ev2] eqn:Hr. injection Hrun as <- _ _ _.
      destruct (batch_put_spec _ _ _ _ _ _ _ _ _ HI HB Hp) as (HI1 & _ & HB1 & _).
      destruct (BL_put _ _ _ _ _ _ _ _ _ _ HI HL Hp) as [fl1 HL1].
      eapply Keep_trans; [eapply batch_put_keep; exact Hp|eapply IH; eauto].
    + destruct (batch_delete d b k) as [[[d1 b1] e] ev1] eqn:Hp.
      destruct (run_bops d1 b1 bops) as [[[d2 b2] rs2] ev2] eqn:Hr. injection Hrun as <- _ _ _.
      destruct (batch_delete_spec _ _ _ _ _ _ _ _ HI HB Hp) as (HI1 & _ & HB1 & _).
      destruct (BL_delete _ _ _ _ _ _ _ _ _ HI HL Hp) as [fl1 HL1].
      eapply Keep_trans; [eapply batch_delete_keep; exact Hp|eapply IH; eauto].
    + destruct (batch_get d b k) as [[d1 v] ev1] eqn:Hg.
      destruct (run_bops d1 b bops) as [[[d2 b2] rs2] ev2] eqn:Hr. injection Hrun as <- _ _ _.
      destruct (batch_get_spec d b mc k HI HB) as (d1' & ev1' & Hg' & HI1 & HB1 & _).
      rewrite Hg in Hg'. injection Hg' as -> _ _.
      pose proof (BL_get _ _ _ _ _ _ _ _ HI HL Hg) as HL1.
      eapply Keep_trans; [eapply batch_get_keep; [exact (proj1 HL)|exact Hg]|eapply IH; eauto].
Qed.

(* every operation but Merge (which rotates first: see db_merge_out) and Restart *)
Definition plain_op (o : op) : Prop :=
  match o with OpMerge _ => False | OpRestart _ => False | OpBatch _ id _ => id <> 0 | _ => True end.

Theorem step_keep mid d k m o d' k' r evs :
  LogInv d m -> plain_op o -> step (d, k) o = ((d', k'), r, evs) -> Keep mid d d' /\ k' = k.
Proof.
  intros HL Hok Hst. pose proof HL as [(HI & HO & HP & HR & Hm) Ht].
  destruct o as [key v|key|key| | | | |sync id bops|order|c]; cbn [step plain_op] in *; try (exfalso; exact Hok).
  - destruct (db_put d key v) as [[d1 e] ev1] eqn:Hp. injection Hst as <- <- _ _. split; [eapply db_put_keep; exact Hp|reflexivity].
  - destruct (db_get d key) as [[d1 vv] ev1] eqn:Hg. injection Hst as <- <- _ _.
    split; [apply same_files_keep; eapply db_get_files; eassumption|reflexivity].
  - destruct (db_delete d key) as [[d1 e] ev1] eqn:Hp. injection Hst as <- <- _ _. split; [eapply db_delete_keep; exact Hp|reflexivity].
  - injection Hst as <- <- _ _. split; [apply Keep_refl|reflexivity].
  - destruct (db_fold d) as [[d1 rr] ev1] eqn:Hf. injection Hst as <- <- _ _.
    split; [apply same_files_keep; eapply db_fold_aux_files; eassumption|reflexivity].
  - destruct (db_stat d) as [[[kn fn] rc] tot]. injection Hst as <- <- _ _. split; [apply Keep_refl|reflexivity].
  - destruct (db_sync d) as [d1 ev1] eqn:Hs. injection Hst as <- <- _ _.
    split; [apply same_files_keep; eapply db_sync_files; exact Hs|reflexivity].
  - destruct (run_bops d (new_batch sync id) bops) as [[[d1 b1] rs] ev1] eqn:Hr.
    destruct (batch_commit d1 b1) as [[[d2 b2] e] ev2] eqn:Hc. injection Hst as <- <- _ _.
    pose proof (BRel_start d m sync id HI HR) as HB0.
    split; [|reflexivity]. eapply Keep_trans.
    + eapply run_bops_keep; [exact HI|exists m; exact HB0|apply BL_start; [exact HL|exact Hok]|exact Hr].
    + eapply batch_commit_keep; exact Hc.
Qed.
