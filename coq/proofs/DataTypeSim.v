(* DataTypeSim.v — the commands do not depend on the store they run on: two stores whose Get agree
   give the same reply and the same plan.  With the engine theorems (step_G: every operation of the
   engine refines the ordered map, in every reachable state incl. pending merges) this carries a command
   on the engine model to the same command on the map. *)
From Coq Require Import List NArith Lia Bool.
From KV Require Import Bytes GenConsts Record Engine Script DataType DataTypeRun DataTypeSpec.
From KV Require Import AMapLemmas EngineInv EngineRecover EngineMergeRun.
Import ListNotations.
Open Scope N_scope.

Section Sim.
Variables (S1 S2 : Type).
Variable get1 : S1 -> bytes -> S1 * option bytes.
Variable get2 : S2 -> bytes -> S2 * option bytes.
Variable Q : S1 -> S2 -> Prop.
Hypothesis Hget : forall s1 s2 k, Q s1 s2 -> Q (fst (get1 s1 k)) (fst (get2 s2 k)) /\ snd (get1 s1 k) = snd (get2 s2 k).

Ltac sim_get :=
  match goal with
  | HQ : Q ?a ?b |- context [get1 ?a ?k] =>
    let H := fresh "Hg" in pose proof (Hget a b k HQ) as H;
    destruct (get1 a k) as [? ?]; destruct (get2 b k) as [? ?]; cbn [fst snd] in H;
    let H1 := fresh "HQ" in let H2 := fresh "He" in destruct H as [H1 H2]; subst
  end.
Ltac sim_step :=
  first [ sim_get
        | match goal with |- context [if ?x then _ else _] => destruct x end
        | match goal with |- context [match ?x with _ => _ end] => destruct x end ].

Lemma dt_cmd_sim c ver now s1 s2 : Q s1 s2 ->
  Q (fst (fst (dt_cmd S1 get1 s1 c ver now))) (fst (fst (dt_cmd S2 get2 s2 c ver now))) /\
  snd (fst (dt_cmd S1 get1 s1 c ver now)) = snd (fst (dt_cmd S2 get2 s2 c ver now)) /\
  snd (dt_cmd S1 get1 s1 c ver now) = snd (dt_cmd S2 get2 s2 c ver now).
Proof.
  intros HQ. destruct c; cbn [dt_cmd];
  unfold dt_set, dt_get, dt_del, dt_type, dt_hset, dt_hget, dt_hdel, dt_sadd, dt_sismember, dt_srem, dt_push, dt_pop, dt_zadd, dt_zscore, find;
  repeat sim_step; cbn [fst snd]; auto.
Qed.
End Sim.

(* ---- the engine against the map ------------------------------------------------------------------------- *)
Lemma stage_run_bops : forall ws d b evs0,
  stage d b ws evs0 =
  (fst (fst (fst (run_bops d b (map bop_of ws)))), snd (fst (fst (run_bops d b (map bop_of ws)))),
   evs0 ++ snd (run_bops d b (map bop_of ws))).
Proof.
  induction ws as [|w ws IH]; intros d b evs0; cbn [stage map run_bops].
  - cbn [fst snd]. rewrite app_nil_r. reflexivity.
  - destruct w as [k v|k]; cbn [bop_of].
    + destruct (batch_put d b k v) as [[[d1 b1] e] ev1]. rewrite IH.
      destruct (run_bops d1 b1 (map bop_of ws)) as [[[d2 b2] rs] ev2]. cbn [fst snd]. rewrite app_assoc. reflexivity.
    + destruct (batch_delete d b k) as [[[d1 b1] e] ev1]. rewrite IH.
      destruct (run_bops d1 b1 (map bop_of ws)) as [[[d2 b2] rs] ev2]. cbn [fst snd]. rewrite app_assoc. reflexivity.
Qed.

Section Engine.
Variable kd : disk.
Definition QE (s : est) (M : smap) : Prop := G (fst s) kd M.

Lemma e_get_m_get s M key : QE s M ->
  QE (fst (e_get s key)) (fst (m_get M key)) /\ snd (e_get s key) = snd (m_get M key).
Proof.
  intros HG. destruct s as [d evs]. unfold QE in *. cbn [fst] in HG. unfold e_get, m_get.
  destruct (db_get d key) as [[d1 r] ev] eqn:Eg. cbn [fst snd].
  assert (Hst : step (d, kd) (OpGet key) = ((d1, kd), RVal r, ev)) by (cbn [step]; rewrite Eg; reflexivity).
  destruct (step_G d kd M (OpGet key) d1 kd (RVal r) ev HG I Hst) as [HG1 Hp].
  cbn [sstep fst snd proj] in HG1, Hp. injection Hp as ->. split; [exact HG1|reflexivity].
Qed.

Lemma apply_plan_m_apply s M p bid : QE s M -> bid <> 0 ->
  QE (fst (apply_plan s p bid)) (fst (m_apply M p)) /\ snd (apply_plan s p bid) = snd (m_apply M p).
Proof.
  intros HG Hb. destruct s as [d evs]. unfold QE in *. cbn [fst] in HG. destruct p as [|k v|k|ws]; cbn [apply_plan m_apply].
  - cbn [fst snd]. auto.
  - destruct (db_put d k v) as [[d1 e] ev] eqn:E. cbn [fst snd].
    assert (Hst : step (d, kd) (OpPut k v) = ((d1, kd), RErr e, ev)) by (cbn [step]; rewrite E; reflexivity).
    destruct (step_G d kd M (OpPut k v) d1 kd (RErr e) ev HG I Hst) as [HG1 Hp].
    cbn [sstep] in HG1, Hp. destruct (s_put M k v) as [M' e']. cbn [fst snd proj] in *. injection Hp as ->. auto.
  - destruct (db_delete d k) as [[d1 e] ev] eqn:E. cbn [fst snd].
    assert (Hst : step (d, kd) (OpDel k) = ((d1, kd), RErr e, ev)) by (cbn [step]; rewrite E; reflexivity).
    destruct (step_G d kd M (OpDel k) d1 kd (RErr e) ev HG I Hst) as [HG1 Hp].
    cbn [sstep] in HG1, Hp. destruct (s_del M k) as [M' e']. cbn [fst snd proj] in *. injection Hp as ->. auto.
  - rewrite stage_run_bops.
    destruct (run_bops d (new_batch false bid) (map bop_of ws)) as [[[d1 b1] rs] ev1] eqn:Er. cbn [fst snd].
    destruct (batch_commit d1 b1) as [[[d2 b2] e2] ev2] eqn:Ec. cbn [fst snd].
    assert (Hst : step (d, kd) (OpBatch false bid (map bop_of ws)) = ((d2, kd), RBatch rs e2, ev1 ++ ev2)).
    { cbn [step]. rewrite Er, Ec. reflexivity. }
    destruct (step_G d kd M (OpBatch false bid (map bop_of ws)) d2 kd _ _ HG Hb Hst) as [HG1 Hp].
    cbn [sstep] in HG1, Hp. destruct (s_bops M (map bop_of ws)) as [mf rs']. cbn [fst snd proj] in *.
    injection Hp as _ ->. auto.
Qed.

(* a command on the engine, from any reachable state (rotated files, pending or adopted merges ...),
   is the command on the map *)
Theorem run_cmd_G d M c ver now bid d' out evs :
  G d kd M -> bid <> 0 -> run_cmd d c ver now bid = (d', out, evs) ->
  G d' kd (fst (m_cmd M c ver now)) /\ out = snd (m_cmd M c ver now).
Proof.
  intros HG Hb Hr. unfold run_cmd, m_cmd in *.
  assert (HQ : QE (d, []) M) by exact HG.
  pose proof (dt_cmd_sim est smap e_get m_get QE e_get_m_get c ver now (d, []) M HQ) as (H1 & H2 & H3).
  destruct (dt_cmd est e_get (d, []) c ver now) as [[s1 r] p].
  destruct (dt_cmd smap m_get M c ver now) as [[M1 r'] p']. cbn [fst snd] in H1, H2, H3. subst r' p'.
  pose proof (apply_plan_m_apply s1 M1 p bid H1 Hb) as (H4 & H5).
  destruct (apply_plan s1 p bid) as [s2 e]. destruct (m_apply M1 p) as [M2 e']. cbn [fst snd] in *. subst e'.
  injection Hr as <- <- _. split; [exact H4|reflexivity].
Qed.
End Engine.
