(* EngineCrash.v — recovery from a crash image: a surviving prefix of the log denotes the state
   after a prefix of the acknowledged mutations; a batch is all-or-nothing (C03, C04). *)
From Coq Require Import ZArith Lia ZifyN ZifyNat ZifyBool.
From KV Require Import Bytes GenConsts Chunk Record Engine Script BytesLemmas AMapLemmas
  EngineFiles EngineInv EngineBatch EngineRefine EngineLog EngineRecover EngineSync.
Open Scope N_scope.

Definition is_prefix {A} (p l : list A) : Prop := exists s, l = p ++ s.

Lemma is_prefix_refl {A} (l : list A) : is_prefix l l.
Proof. exists []. rewrite app_nil_r. reflexivity. Qed.
Lemma is_prefix_app {A} (l s : list A) : is_prefix l (l ++ s).
Proof. exists s. reflexivity. Qed.
Lemma is_prefix_nil {A} (l : list A) : is_prefix [] l.
Proof. exists l. reflexivity. Qed.

(* two prefixes of one list are comparable *)
Lemma prefix_cases {A} : forall (p q l : list A), is_prefix p l -> is_prefix q l ->
  (exists s, q = p ++ s) \/ (exists s, p = q ++ s).
Proof.
  induction p as [|x p IH]; intros q l Hp Hq.
  - left. exists q. reflexivity.
  - destruct q as [|y q]; [right; exists (x :: p); reflexivity|].
    destruct Hp as [s1 H1]. destruct Hq as [s2 H2]. subst l. injection H2 as <- H2.
    destruct (IH q (p ++ s1) (is_prefix_app _ _) (ex_intro _ s2 H2)) as [[s Hs]|[s Hs]].
    + left. exists s. rewrite Hs. reflexivity.
    + right. exists s. rewrite Hs. reflexivity.
Qed.

(* ---- the log chunk of one operation is atomic -------------------------------------------------- *)
(* [atomic_chunk m X m']: replaying any prefix of X from state (m, no pending batch) yields m
   or m' (and the whole of X yields m') *)
Definition atomic_chunk (m : smap) (X : list record) (m' : smap) : Prop :=
  (forall Q, is_prefix Q X -> fst (sreplay m [] Q) = m \/ fst (sreplay m [] Q) = m') /\
  sreplay m [] X = (m', []).

Lemma atomic_nil m : atomic_chunk m [] m.
Proof. split; [|reflexivity]. intros Q [s Hs]. destruct Q; [left; reflexivity|discriminate]. Qed.

Lemma atomic_single m r : r_batch r = 0 -> atomic_chunk m [r] (rec_apply m r).
Proof.
  intros Hb. split.
  - intros Q [s Hs]. destruct Q as [|x Q]; [left; reflexivity|].
    destruct Q; [|destruct Q; discriminate]. injection Hs as <- _. right. cbn [sreplay fst]. rewrite Hb. reflexivity.
  - cbn [sreplay]. rewrite Hb. reflexivity.
Qed.

(* a batch: tagged records, then the sealing record *)
Lemma prefix_of_snoc {A} (Q l : list A) x : is_prefix Q (l ++ [x]) -> is_prefix Q l \/ Q = l ++ [x].
Proof.
  intros [s Hs]. destruct s as [|y s].
  - right. rewrite app_nil_r in Hs. congruence.
  - left. assert (Hl : exists s', l = Q ++ s').
    { revert Q Hs. induction l as [|a l IH]; intros Q Hs.
      - destruct Q as [|q Q]; [exists []; reflexivity|].
        cbn in Hs. injection Hs as _ Hs. destruct Q; discriminate.
      - destruct Q as [|q Q]; [exists (a :: l); reflexivity|].
        cbn in Hs. injection Hs as <- Hs. destruct (IH Q Hs) as [s' Hs']. exists s'. rewrite Hs'. reflexivity. }
    exact Hl.
Qed.
Lemma prefix_map {A B} (f : A -> B) Q l : is_prefix Q (map f l) -> exists l', Q = map f l' /\ is_prefix l' l.
Proof.
  revert Q. induction l as [|a l IH]; intros Q [s Hs].
  - destruct Q; [exists []; split; [reflexivity|apply is_prefix_nil]|discriminate].
  - destruct Q as [|q Q]; [exists []; split; [reflexivity|apply is_prefix_nil]|].
    cbn in Hs. injection Hs as <- Hs. destruct (IH Q (ex_intro _ s Hs)) as (l' & -> & [s' Hs']).
    exists (a :: l'). split; [reflexivity|]. exists s'. rewrite Hs'. reflexivity.
Qed.
Lemma Forall_prefix {A} (P : A -> Prop) Q l : Forall P l -> is_prefix Q l -> Forall P Q.
Proof. intros H [s ->]. apply Forall_app in H. exact (proj1 H). Qed.

Lemma atomic_batch m id st key : id <> 0 -> Forall ok_type st ->
  atomic_chunk m (map (tag id) st ++ [mkRec rt_BatchFinished key [] id]) (s_apply_recs m st).
Proof.
  intros Hid Hty. split.
  - intros Q HQ. destruct (prefix_of_snoc _ _ _ HQ) as [Hpre| ->].
    + left. destruct (prefix_map _ _ _ Hpre) as (st' & -> & Hst').
      change (@nil (N * list record)) with (pend id []).
      rewrite (sreplay_tagged id Hid st' [] m (Forall_prefix _ _ _ Hty Hst')). reflexivity.
    + right. rewrite sreplay_app. change (@nil (N * list record)) with (pend id []).
      rewrite (sreplay_tagged id Hid st [] m Hty). cbn [fst snd app].
      rewrite (sreplay_seal id st m key Hid). reflexivity.
  - rewrite sreplay_app. change (@nil (N * list record)) with (pend id []).
    rewrite (sreplay_tagged id Hid st [] m Hty). cbn [fst snd app]. apply sreplay_seal. exact Hid.
Qed.

(* ---- a surviving prefix of the log denotes a prefix of the history ----------------------------- *)
(* the specification states after 0, 1, ..., n operations *)
Fixpoint states (m : smap) (ops : list op) : list smap :=
  match ops with [] => [m] | o :: rest => m :: states (fst (sstep m o)) rest end.

(* what a step adds to the log *)
Definition step_chunk_ok (d : db) (m : smap) (o : op) (d' : db) : Prop :=
  exists X, log d' = log d ++ X /\ atomic_chunk m X (fst (sstep m o)).

Lemma LogInv_sreplay d m : LogInv d m -> sreplay [] [] (log d) = (m, []).
Proof. intros [(_ & _ & _ & _ & Hm) Ht]. destruct (sreplay [] [] (log d)) as [a b]. cbn in *. subst. reflexivity. Qed.

Theorem step_chunk d k m o d' k' r evs :
  LogInv d m -> k_merge k = None -> op_ok o -> step (d, k) o = ((d', k'), r, evs) ->
  step_chunk_ok d m o d'.
Proof.
  intros HL Hnm Hok Hst. pose proof HL as [(HI & HO & HP & HR & Hm) Ht].
  assert (Hsame : forall dd, log dd = log d -> fst (sstep m o) = m -> step_chunk_ok d m o dd).
  { intros dd Hl Hs. exists []. rewrite app_nil_r, Hs. split; [exact Hl|apply atomic_nil]. }
  destruct o as [key v|key|key| | | | |sync id bops|order|c]; cbn [step] in Hst.
  - (* Put *)
    destruct (db_put d key v) as [[d1 e] ev1] eqn:Hp. injection Hst as <- _ _ _.
    unfold db_put in Hp. cbn [sstep]. unfold s_put. destruct (len key =? 0) eqn:Ek.
    + injection Hp as <- _ _. apply Hsame; [reflexivity|cbn [sstep]; unfold s_put; rewrite Ek; reflexivity].
    + destruct (db_append d (mkRec rt_Normal key v 0)) as [[d2 p] ev2] eqn:Happ.
      destruct (db_append_grows _ _ _ _ _ (proj1 HI) HO HP Happ) as (_ & _ & _ & Hlog1).
      destruct (idx_put (d_index d2) key p) as [ix old]. injection Hp as <- _ _.
      exists [mkRec rt_Normal key v 0]. split.
      * rewrite <- Hlog1. apply log_same; reflexivity.
      * cbn [sstep fst]. unfold s_put. rewrite Ek. cbn [fst].
        change (fst (amap_put m key v)) with (rec_apply m (mkRec rt_Normal key v 0)). apply atomic_single. reflexivity.
  - destruct (db_get d key) as [[d1 vv] ev1] eqn:Hg. injection Hst as <- _ _ _.
    apply Hsame; [exact (proj1 (same_files_props _ _ (db_get_files _ _ _ _ _ HO Hg)))|reflexivity].
  - (* Delete *)
    destruct (db_delete d key) as [[d1 e] ev1] eqn:Hp. injection Hst as <- _ _ _.
    unfold db_delete in Hp. destruct (len key =? 0) eqn:Ek.
    + injection Hp as <- _ _. apply Hsame; [reflexivity|cbn [sstep]; unfold s_del; rewrite Ek; reflexivity].
    + pose proof (R_get d m key HR) as Hg. destruct (idx_get (d_index d) key) as [p0|] eqn:Eg.
      * destruct (db_append d (mkRec rt_Deleted key [] 0)) as [[d2 p] ev2] eqn:Happ.
        destruct (db_append_grows _ _ _ _ _ (proj1 HI) HO HP Happ) as (_ & _ & _ & Hlog1).
        cbn [add_reclaim set_counters d_index] in Hp. destruct (idx_del (d_index d2) key) as [ix old].
        exists [mkRec rt_Deleted key [] 0]. split.
        -- rewrite <- Hlog1. destruct old; injection Hp as <- _ _; apply log_same; reflexivity.
        -- cbn [sstep fst]. unfold s_del. rewrite Ek. cbn [fst].
           change (fst (amap_del m key)) with (rec_apply m (mkRec rt_Deleted key [] 0)). apply atomic_single. reflexivity.
      * injection Hp as <- _ _. apply Hsame; [reflexivity|].
        cbn [sstep]. unfold s_del. rewrite Ek. cbn [fst]. apply amap_del_absent. exact Hg.
  - injection Hst as <- _ _ _. apply Hsame; reflexivity.
  - destruct (db_fold d) as [[d1 rr] ev1] eqn:Hf. injection Hst as <- _ _ _.
    apply Hsame; [exact (proj1 (same_files_props _ _ (db_fold_aux_files _ _ _ _ _ HO Hf)))|reflexivity].
  - unfold db_stat in Hst. injection Hst as <- _ _ _. apply Hsame; reflexivity.
  - destruct (db_sync d) as [d1 ev1] eqn:Hs. injection Hst as <- _ _ _.
    apply Hsame; [exact (proj1 (same_files_props _ _ (db_sync_files _ _ _ Hs)))|reflexivity].
  - (* a batch *)
    destruct (run_bops d (new_batch sync id) bops) as [[[d1 b1] rs] ev1] eqn:Hr.
    destruct (batch_commit d1 b1) as [[[d2 b2] e] ev2] eqn:Hc. injection Hst as <- _ _ _.
    pose proof (BRel_start d m sync id HI HR) as HB0.
    destruct (run_bops_spec _ _ _ _ _ _ _ _ HI HB0 Hr) as (HI1 & HB1 & _ & _).
    assert (HG0 : BLog d (new_batch sync id) (log d) []) by (split; [cbn [map]; rewrite app_nil_r; reflexivity|constructor]).
    destruct (run_bops_BLog _ _ _ _ _ _ _ _ _ _ HI (ex_intro _ m HB0) (BL_start d m sync id HL Hok) HG0 Hr) as (fl1 & HL1 & HG1 & Hid1).
    cbn [new_batch b_id] in Hid1.
    destruct (batch_commit_chunk _ _ _ _ _ _ _ _ _ _ HI1 HB1 HL1 HG1 Hc) as [(Hnil & Hlog & Hmc)|(Hlog & Hmc & Hty)].
    + exists []. rewrite app_nil_r. split; [exact Hlog|]. cbn [sstep]. destruct (s_bops m bops) as [mf rsf]. cbn [fst] in *.
      subst mf. apply atomic_nil.
    + eexists. split; [exact Hlog|]. cbn [sstep]. destruct (s_bops m bops) as [mf rsf]. cbn [fst] in *. subst mf.
      rewrite Hid1. apply atomic_batch; [exact Hok|exact Hty].
  - destruct Hok.
  - destruct (db_close d k) as [k1 ev1] eqn:Hc.
    destruct (db_close_spec _ _ _ _ _ HL Hnm Hc) as (Hdok & Hlog).
    destruct (db_open_spec c k1 Hdok) as (d1 & k2 & ev2 & Ho & _ & Hlog' & _).
    rewrite Ho in Hst. injection Hst as <- _ _ _. apply Hsame; [congruence|reflexivity].
Qed.

(* C03/C04 core: any surviving prefix of the final log that contains the initial log replays to
   the specification state after some prefix of the operations: no partial operation, no partial batch *)
Theorem prefix_recovery : forall ops d k m s' rs evs,
  LogInv d m -> k_merge k = None -> Forall op_ok ops -> run (d, k) ops = (s', rs, evs) ->
  forall P, is_prefix P (log (fst s')) -> is_prefix (log d) P ->
  exists j, (j <= length ops)%nat /\ fst (sreplay [] [] P) = nth j (states m ops) m.
Proof.
  induction ops as [|o ops IH]; intros d k m s' rs evs HL Hnm Hok Hrun P HP1 HP2; cbn [run] in Hrun.
  - injection Hrun as <- _ _. cbn [fst] in HP1. exists 0%nat. split; [lia|]. cbn [states nth].
    destruct HP1 as [s1 H1]. destruct HP2 as [s2 H2]. rewrite H2 in H1. rewrite <- app_assoc in H1.
    assert (s2 ++ s1 = []) by (apply (app_inv_head (log d)); rewrite app_nil_r; symmetry; exact H1).
    apply app_eq_nil in H. destruct H as [-> _]. rewrite app_nil_r in H2. subst P.
    rewrite (LogInv_sreplay _ _ HL). reflexivity.
  - inversion Hok as [|? ? Ho Hrest]; subst.
    destruct (step (d, k) o) as [[[d1 k1] r] ev1] eqn:Hst.
    destruct (run (d1, k1) ops) as [[s2 rs2] ev2] eqn:Hr2. injection Hrun as <- _ _.
    destruct (step_log _ _ _ _ _ _ _ _ HL Hnm Ho Hst) as (HL1 & Hnm1 & _).
    destruct (step_chunk _ _ _ _ _ _ _ _ HL Hnm Ho Hst) as (X & HX & [Hat Hfull]).
    (* the final log extends log d1 *)
    assert (Hext : is_prefix (log d1) (log (fst s2))).
    { clear - HL1 Hnm1 Hrest Hr2. revert d1 k1 s2 rs2 ev2 HL1 Hnm1 Hr2 Hrest.
      generalize (fst (sstep m o)) as mm.
      induction ops as [|o2 ops IH]; intros mm d1 k1 s2 rs2 ev2 HL1 Hnm1 Hr2 Hrest; cbn [run] in Hr2.
      - injection Hr2 as <- _ _. apply is_prefix_refl.
      - inversion Hrest as [|? ? Ho2 Hrest2]; subst.
        destruct (step (d1, k1) o2) as [[[d2 k2] r2] e2] eqn:Hst2.
        destruct (run (d2, k2) ops) as [[s3 rs3] e3] eqn:Hr3. injection Hr2 as <- _ _.
        destruct (step_log _ _ _ _ _ _ _ _ HL1 Hnm1 Ho2 Hst2) as (HL2 & Hnm2 & _).
        destruct (step_chunk _ _ _ _ _ _ _ _ HL1 Hnm1 Ho2 Hst2) as (X2 & HX2 & _).
        destruct (IH _ _ _ _ _ _ HL2 Hnm2 Hr3 Hrest2) as [s Hs]. exists (X2 ++ s). rewrite Hs, HX2, app_assoc. reflexivity. }
    destruct (prefix_cases P (log d1) (log (fst s2)) HP1 Hext) as [[s Hs]|[s Hs]].
    + (* P lies inside this operation's chunk *)
      destruct HP2 as [q Hq]. rewrite Hq, HX in Hs. rewrite <- app_assoc in Hs. apply app_inv_head in Hs.
      assert (HQ : is_prefix q X) by (exists s; exact Hs).
      rewrite Hq, sreplay_app, (LogInv_sreplay _ _ HL). cbn [fst snd].
      destruct (Hat q HQ) as [H|H].
      * exists 0%nat. split; [cbn; lia|]. cbn [states nth]. exact H.
      * exists 1%nat. split; [cbn; lia|]. cbn [states nth]. destruct ops; cbn [states nth]; exact H.
    + (* P extends the log after this operation *)
      destruct (IH d1 k1 (fst (sstep m o)) s2 rs2 ev2 HL1 Hnm1 Hrest Hr2 P HP1 (ex_intro _ s Hs)) as (j & Hj & Hrep).
      exists (S j). split; [cbn; lia|]. cbn [states nth]. rewrite Hrep.
      apply nth_indep. clear - Hj. revert j Hj. generalize (fst (sstep m o)) as mm.
      induction ops as [|o2 ops IH]; intros mm j Hj; cbn [states length] in *; [lia|].
      destruct j; cbn [length]; [lia|]. specialize (IH (fst (sstep mm o2)) j ltac:(lia)). lia.
Qed.

(* ---- Open on the crash image of a reachable state ------------------------------------------------------- *)
Lemma recs_upto_prefix rs cut : exists rest, rs = recs_upto rs cut ++ rest.
Proof.
  induction rs as [|[r p] rs IH]; cbn [recs_upto]; [exists []; reflexivity|].
  destruct (pos_end p <=? cut); [|exists ((r, p) :: rs); reflexivity].
  destruct IH as [rest Hr]. exists rest. cbn [app]. rewrite <- Hr. reflexivity.
Qed.
Lemma recs_upto_end rs cut r p : In (r, p) (recs_upto rs cut) -> pos_end p <= cut.
Proof.
  induction rs as [|[r0 p0] rs IH]; cbn [recs_upto]; [intros []|].
  destruct (pos_end p0 <=? cut) eqn:E; [|intros []]. intros [Heq|Hin]; [injection Heq as <- <-; lia|exact (IH Hin)].
Qed.
Lemma recs_upto_all rs cut : (forall r p, In (r, p) rs -> pos_end p <= cut) -> recs_upto rs cut = rs.
Proof.
  induction rs as [|[r p] rs IH]; intros H; cbn [recs_upto]; [reflexivity|].
  pose proof (H r p (or_introl eq_refl)) as Hp. destruct (pos_end p <=? cut) eqn:E; [|lia].
  rewrite IH; [reflexivity|]. intros r0 p0 Hin. apply (H r0 p0). right. exact Hin.
Qed.

Lemma lookup_in_some rs r p : In (r, p) rs -> lf_lookup rs (p_bid p) (p_off p) <> None.
Proof.
  induction rs as [|[r0 p0] rs IH]; [intros []|]. cbn [lf_lookup]. intros [Heq|Hin].
  - injection Heq as <- <-. rewrite !N.eqb_refl. discriminate.
  - destruct ((p_bid p0 =? p_bid p) && (p_off p0 =? p_off p)); [discriminate|auto].
Qed.

Lemma crash_file_ok id f cut :
  wf_lfile f -> pos_ok id f -> file_ok (id, lf_crash f cut).
Proof.
  intros Hwf Hpo. unfold file_ok, lf_crash. cbv zeta. cbn [fst snd lf_recs lf_size lf_phys].
  destruct (recs_upto_prefix (lf_recs f) cut) as [rest Hrest].
  split; [|split; [|reflexivity]].
  - intros r p Hin. pose proof (recs_upto_end _ _ _ _ Hin) as He. unfold pos_end in He.
    assert (Hin' : In (r, p) (lf_recs f)) by (rewrite Hrest; apply in_or_app; left; exact Hin).
    destruct (Hwf r p Hin') as (H1 & H2 & H3 & H4). unfold pstart in *. cbn [lf_size]. repeat split; try assumption; lia.
  - intros r p Hin. cbn [lf_recs] in *.
    assert (Hin' : In (r, p) (lf_recs f)) by (rewrite Hrest; apply in_or_app; left; exact Hin).
    destruct (Hpo r p Hin') as [Hfid Hlk]. split; [exact Hfid|].
    rewrite Hrest, EngineBatch.lookup_app_gen in Hlk.
    destruct (lf_lookup (recs_upto (lf_recs f) cut) (p_bid p) (p_off p)) eqn:E; [exact Hlk|].
    exfalso. exact (lookup_in_some _ _ _ Hin E).
Qed.

Lemma crash_older_log cuts : forall l,
  (forall id f, In (id, f) l -> forall r p, In (r, p) (lf_recs f) -> pos_end p <= cuts id f) ->
  files_log (map (fun x => (fst x, lf_crash (snd x) (cuts (fst x) (snd x)))) l) = files_log l.
Proof.
  induction l as [|[i g] l IH]; intros H; [reflexivity|]. cbn [map fst snd].
  change (files_log ((i, lf_crash g (cuts i g)) :: map (fun x => (fst x, lf_crash (snd x) (cuts (fst x) (snd x)))) l))
    with (file_log (lf_crash g (cuts i g)) ++ files_log (map (fun x => (fst x, lf_crash (snd x) (cuts (fst x) (snd x)))) l)).
  change (files_log ((i, g) :: l)) with (file_log g ++ files_log l).
  rewrite IH by (intros id f Hx; apply H; right; exact Hx). f_equal.
  unfold file_log, lf_crash. cbv zeta. cbn [lf_recs]. f_equal. apply recs_upto_all.
  intros r p Hrp. exact (H i g (or_introl eq_refl) r p Hrp).
Qed.

(* the directory after a crash of the open database d: every rotated file survives at least up
   to its size (it was flushed), the active file is cut at any length cutA *)
Definition crash_disk_of (d : db) (cuts : N -> lfile -> N) (cutA : N) : disk :=
  mkDisk (map (fun x => (fst x, lf_crash (snd x) (cuts (fst x) (snd x)))) (d_older d)
          ++ [(d_active_id d, lf_crash (d_active d) cutA)]) None None.

Definition surviving_log (d : db) (cutA : N) : list record :=
  files_log (d_older d) ++ map fst (recs_upto (lf_recs (d_active d)) cutA).

Lemma surviving_prefix d cutA : is_prefix (surviving_log d cutA) (log d).
Proof.
  unfold surviving_log, log, file_log. destruct (recs_upto_prefix (lf_recs (d_active d)) cutA) as [rest Hr].
  exists (map fst rest). rewrite <- app_assoc, <- map_app, <- Hr. reflexivity.
Qed.

Theorem crash_recovers d m cuts cutA c :
  LogInv d m ->
  (forall id f, In (id, f) (d_older d) -> lf_size f <= cuts id f) ->
  exists d' k' evs, db_open c (crash_disk_of d cuts cutA) = (OpenOk d' k', evs) /\
    LogOK d' (fst (sreplay [] [] (surviving_log d cutA))) /\ d_cfg d' = c.
Proof.
  intros [(HI & HO & HP & HR & Hm) Ht] Hcuts.
  destruct HI as [[Hact Hold] _]. destruct HP as [Hpa Hpo]. unfold InvO in HO.
  assert (Hin : forall id f, In (id, f) (d_older d) -> older_get (d_older d) id = Some f).
  { intros id f H. apply asc_get_in; [|exact H].
    clear - HO. induction (d_older d) as [|[i g] l IH]; cbn in *; [auto|]. destruct HO as (_ & H2 & H3). auto. }
  set (olderc := map (fun x => (fst x, lf_crash (snd x) (cuts (fst x) (snd x)))) (d_older d)).
  assert (Hids : ids_below olderc (d_active_id d)).
  { unfold olderc. clear - HO. induction (d_older d) as [|[i g] l IH]; cbn [map ids_below fst snd] in *; [exact I|].
    destruct HO as (H1 & H2 & H3). split; [exact H1|]. split; [|apply IH; exact H3].
    clear - H2. induction l as [|[j h] l IH]; cbn [map ids_above fst snd] in *; [exact I|]. destruct H2. auto. }
  assert (Hlogc : files_log olderc = files_log (d_older d)).
  { unfold olderc. apply crash_older_log. intros id f Hx r p Hrp.
    pose proof (Hin id f Hx) as Hg. destruct (Hold _ _ Hg) as [Hwf _].
    destruct (Hwf r p Hrp) as (_ & _ & H3 & _). pose proof (Hcuts id f Hx). unfold pos_end, pstart in *. lia. }
  assert (Hok : disk_ok (crash_disk_of d cuts cutA)).
  { unfold crash_disk_of. fold olderc. split; [reflexivity|]. cbn [k_data]. split.
    - apply ids_below_asc_app. exact Hids.
    - apply Forall_app. split.
      + unfold olderc. rewrite Forall_forall. intros [i g] Hx. apply in_map_iff in Hx. destruct Hx as ([i0 g0] & Heq & Hx).
        cbn [fst snd] in Heq. injection Heq as <- <-. pose proof (Hin _ _ Hx) as Hg.
        apply crash_file_ok; [exact (proj1 (Hold _ _ Hg))|exact (Hpo _ _ Hg)].
      + constructor; [|constructor]. apply crash_file_ok; assumption. }
  destruct (db_open_spec c _ Hok) as (d' & k' & evs & Ho & HLO & _ & Hcfg & _).
  exists d', k', evs. split; [exact Ho|]. split; [|exact Hcfg].
  unfold crash_disk_of in HLO. fold olderc in HLO. cbn [k_data] in HLO.
  rewrite files_log_app, files_log_single, Hlogc in HLO. exact HLO.
Qed.

(* ---- composition of runs ----------------------------------------------------------------------------------- *)
Lemma run_app : forall a b s,
  run s (a ++ b) =
    let '(s1, r1, e1) := run s a in let '(s2, r2, e2) := run s1 b in (s2, r1 ++ r2, e1 ++ e2).
Proof.
  induction a as [|o a IH]; intros b s; cbn [app run].
  - destruct (run s b) as [[s2 r2] e2]. reflexivity.
  - destruct (step s o) as [[s1 r] e1]. rewrite IH.
    destruct (run s1 a) as [[s2 r2] e2]. destruct (run s2 b) as [[s3 r3] e3].
    cbn [app]. rewrite <- app_assoc. reflexivity.
Qed.

Definition final_state (m : smap) (ops : list op) : smap := fold_left (fun m o => fst (sstep m o)) ops m.

Lemma states_nth_final : forall ops m, nth (length ops) (states m ops) m = final_state m ops.
Proof.
  induction ops as [|o ops IH]; intros m; cbn [states length nth]; [reflexivity|].
  unfold final_state. cbn [fold_left]. fold (final_state (fst (sstep m o)) ops).
  rewrite <- IH. apply nth_indep. clear. generalize (fst (sstep m o)) as mm. revert ops.
  induction ops as [|o2 ops IH]; intros mm; cbn [states length]; [lia|]. specialize (IH (fst (sstep mm o2))). lia.
Qed.
Lemma states_length ops : forall m, length (states m ops) = S (length ops).
Proof. induction ops as [|o ops IH]; intros m; cbn [states length]; [reflexivity|]. rewrite IH. reflexivity. Qed.
Lemma states_app_nth : forall a b m j, (j <= length b)%nat ->
  nth (length a + j) (states m (a ++ b)) m = nth j (states (final_state m a) b) (final_state m a).
Proof.
  induction a as [|o a IH]; intros b m j Hj; cbn [app length Nat.add states nth]; [reflexivity|].
  unfold final_state. cbn [fold_left]. fold (final_state (fst (sstep m o)) a).
  rewrite <- IH by exact Hj. apply nth_indep. rewrite states_length, app_length. lia.
Qed.

Theorem run_log_final : forall ops d k m s' rs evs,
  LogInv d m -> k_merge k = None -> Forall op_ok ops -> run (d, k) ops = (s', rs, evs) ->
  LogInv (fst s') (final_state m ops) /\ k_merge (snd s') = None.
Proof.
  induction ops as [|o ops IH]; intros d k m s' rs evs HL Hnm Hok Hrun; cbn [run final_state fold_left] in *.
  - injection Hrun as <- _ _. auto.
  - inversion Hok as [|? ? Ho Hrest]; subst.
    destruct (step (d, k) o) as [[[d1 k1] r] ev1] eqn:Hst.
    destruct (run (d1, k1) ops) as [[s2 rs2] ev2] eqn:Hr2. injection Hrun as <- _ _.
    destruct (step_log _ _ _ _ _ _ _ _ HL Hnm Ho Hst) as (HL1 & Hnm1 & _).
    exact (IH _ _ _ _ _ _ HL1 Hnm1 Hrest Hr2).
Qed.

(* C03: the crash image of any reachable state, with the active file cut anywhere, opens (under
   any configuration) to the specification state after some prefix of the history; the prefix
   includes every operation whose records lie wholly below the cut; a process-only crash (nothing
   cut) loses nothing *)
Theorem crash_prefix : forall ops d k m s' rs evs cuts cutA c,
  LogInv d m -> k_merge k = None -> Forall op_ok ops -> run (d, k) ops = (s', rs, evs) ->
  (forall id f, In (id, f) (d_older (fst s')) -> lf_size f <= cuts id f) ->
  is_prefix (log d) (surviving_log (fst s') cutA) ->
  exists d' k' evs' j, db_open c (crash_disk_of (fst s') cuts cutA) = (OpenOk d' k', evs') /\
    (j <= length ops)%nat /\ R d' (nth j (states m ops) m) /\ Inv d' /\
    (lf_size (d_active (fst s')) <= cutA -> R d' (final_state m ops)).
Proof.
  intros ops d k m s' rs evs cuts cutA c HL Hnm Hok Hrun Hcuts Hpre.
  destruct (run_log_final _ _ _ _ _ _ _ HL Hnm Hok Hrun) as [HL' _].
  destruct (crash_recovers (fst s') _ cuts cutA c HL' Hcuts) as (d' & k' & evs' & Ho & (HI' & _ & _ & HR' & _) & _).
  destruct (prefix_recovery _ _ _ _ _ _ _ HL Hnm Hok Hrun (surviving_log (fst s') cutA) (surviving_prefix _ _) Hpre)
    as (j & Hj & Hrep).
  exists d', k', evs', j. split; [exact Ho|]. split; [exact Hj|]. split; [rewrite <- Hrep; exact HR'|]. split; [exact HI'|].
  intros Hfull.
  assert (Hall : surviving_log (fst s') cutA = log (fst s')).
  { unfold surviving_log, log, file_log. f_equal. f_equal. apply recs_upto_all.
    intros r p Hin. destruct HL' as [(((Hact & _) & _) & _) _].
    destruct (Hact r p Hin) as (_ & _ & H3 & _). unfold pos_end, pstart in *. lia. }
  rewrite Hall, (LogInv_sreplay _ _ HL') in HR'. exact HR'.
Qed.
