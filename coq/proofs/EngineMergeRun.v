(* EngineMergeRun.v — histories with merges: Merge keeps every key's value in the live database,
   across the restart that adopts the merged files and across every later restart (C06); a merge
   that reported an error is ignored by every later Open. *)
From Coq Require Import ZArith Lia ZifyN ZifyNat ZifyBool Sorting.Sorted.
From KV Require Import Bytes GenConsts Chunk Record Engine Script BytesLemmas AMapLemmas
  EngineFiles EngineInv EngineBatch EngineRefine EngineLog EngineRecover EngineSync EngineCrash
  EngineOpen EngineAdopt EngineMerge EngineKeep.
Open Scope N_scope.

(* ---- the log of the files below an id, by lookup ---------------------------------------------------- *)
Definition lo_lookup (fs : list (N * lfile)) (n : nat) : list record :=
  concat (map (fun i => orecs fs (N.of_nat i)) (seq 0 n)).

Lemma lo_lookup_ext a b n : (forall x, x < N.of_nat n -> orecs a x = orecs b x) -> lo_lookup a n = lo_lookup b n.
Proof. intros H. unfold lo_lookup. f_equal. apply map_ext_in. intros i Hi. apply in_seq in Hi. apply H. lia. Qed.

Lemma below_above fs lo m : ids_above fs lo -> m <= lo + 1 -> below m fs = [].
Proof.
  induction fs as [|[i g] fs IH]; cbn [ids_above below filter fst]; [reflexivity|]. intros [H1 H2] Hm.
  destruct (i <? m) eqn:E; [lia|]. apply IH; assumption.
Qed.

Lemma below_succ fs n : asc fs ->
  below (n + 1) fs = below n fs ++ match older_get fs n with Some f => [(n, f)] | None => [] end.
Proof.
  induction fs as [|[i g] fs IH]; cbn [asc]; [reflexivity|]. intros [H1 H2]. cbn [below filter fst older_get].
  fold (below (n + 1) fs). fold (below n fs).
  destruct (N.lt_trichotomy i n) as [Hlt|[Heq|Hgt]].
  - destruct (i <? n + 1) eqn:E1; [|lia]. destruct (i <? n) eqn:E2; [|lia]. destruct (i =? n) eqn:E3; [lia|].
    cbn [app]. f_equal. apply IH. exact H2.
  - subst i. destruct (n <? n + 1) eqn:E1; [|lia]. destruct (n <? n) eqn:E2; [lia|]. rewrite N.eqb_refl.
    rewrite (below_above fs n (n + 1) H1), (below_above fs n n H1) by lia. reflexivity.
  - destruct (i <? n + 1) eqn:E1; [lia|]. destruct (i <? n) eqn:E2; [lia|]. destruct (i =? n) eqn:E3; [lia|].
    rewrite (below_above fs i (n + 1) H1), (below_above fs i n H1), (ids_above_none fs i n H1) by lia. reflexivity.
Qed.

Lemma below_lookup fs : asc fs -> forall n, files_log (below (N.of_nat n) fs) = lo_lookup fs n.
Proof.
  intros Ha. induction n as [|n IH].
  - cbn [N.of_nat]. rewrite below_zero. reflexivity.
  - replace (N.of_nat (S n)) with (N.of_nat n + 1) by lia. rewrite (below_succ fs _ Ha), files_log_app, IH.
    unfold lo_lookup. rewrite seq_S, map_app, concat_app. cbn [plus map concat]. rewrite app_nil_r. f_equal.
    unfold orecs. destruct (older_get fs (N.of_nat n)) as [f|]; [apply files_log_single|reflexivity].
Qed.

Lemma ids_below_asc o b : ids_below o b -> asc o.
Proof. induction o as [|[i g] o IH]; cbn [ids_below asc]; [auto|]. intros (_ & H2 & H3). auto. Qed.
Lemma below_all o b : ids_below o b -> below b o = o.
Proof.
  induction o as [|[i g] o IH]; cbn [ids_below below filter fst]; [reflexivity|]. intros (H1 & _ & H3).
  destruct (i <? b) eqn:E; [|lia]. f_equal. apply IH. exact H3.
Qed.

(* ---- plain operations do not look at the disk component ------------------------------------------- *)
Lemma step_plain_k d k o d' k' r evs k0 :
  plain_op o -> step (d, k) o = ((d', k'), r, evs) -> step (d, k0) o = ((d', k0), r, evs).
Proof.
  intros Hok Hst. destruct o as [key v|key|key| | | | |sync id bops|order|c]; cbn [step plain_op] in *; try (exfalso; exact Hok).
  - destruct (db_put d key v) as [[d1 e] ev1]. injection Hst as <- _ <- <-. reflexivity.
  - destruct (db_get d key) as [[d1 vv] ev1]. injection Hst as <- _ <- <-. reflexivity.
  - destruct (db_delete d key) as [[d1 e] ev1]. injection Hst as <- _ <- <-. reflexivity.
  - injection Hst as <- _ <- <-. reflexivity.
  - destruct (db_fold d) as [[d1 rr] ev1]. injection Hst as <- _ <- <-. reflexivity.
  - destruct (db_stat d) as [[[kn fn] rc] tot]. injection Hst as <- _ <- <-. reflexivity.
  - destruct (db_sync d) as [d1 ev1]. injection Hst as <- _ <- <-. reflexivity.
  - destruct (run_bops d (new_batch sync id) bops) as [[[d1 b1] rs] ev1].
    destruct (batch_commit d1 b1) as [[[d2 b2] e] ev2]. injection Hst as <- _ <- <-. reflexivity.
Qed.

Lemma plain_op_ok o : plain_op o -> op_ok o.
Proof. destruct o; cbn; auto. Qed.

(* ---- Close, whatever the merge directory holds ------------------------------------------------------- *)
Lemma closed_orecs a b x : Forall2 closed_of a b -> orecs a x = orecs b x.
Proof.
  unfold orecs. induction 1 as [|[i f] [j g] a b (Hi & Hr & _) _ IH]; [reflexivity|]. cbn [fst snd older_get] in *. subst j.
  destruct (i =? x); [unfold file_log; rewrite Hr; reflexivity|exact IH].
Qed.

Lemma db_close_gen d k M k' evs :
  LogInv d M -> db_close d k = (k', evs) ->
  asc (k_data k') /\ Forall file_ok (k_data k') /\ files_log (k_data k') = log d /\
  k_merge k' = k_merge k /\ k_hint k' = k_hint k /\
  (forall mid x, mid <= d_active_id d -> x < mid -> orecs (k_data k') x = orecs (d_older d) x).
Proof.
  intros HL Hc.
  assert (Hc0 : db_close d (mkDisk (k_data k) (k_hint k) None) = (mkDisk (k_data k') (k_hint k) None, evs) /\
                k_merge k' = k_merge k /\ k_hint k' = k_hint k /\
                exists o a, k_data k' = older_set o (d_active_id d) a /\ Forall2 closed_of o (d_older d)).
  { unfold db_close in *. destruct (h_close _ _ _) as [a e1].
    pose proof (close_all_spec (io_of d) (d_older d)) as Hcl.
    destruct (close_all _ _) as [o e2]. cbn [fst] in Hcl. injection Hc as <- <-. cbn. eauto 10. }
  destruct Hc0 as (Hc0 & Hm & Hh & o & a & Hdata & Hcl).
  destruct (db_close_spec d (mkDisk (k_data k) (k_hint k) None) M _ evs HL eq_refl Hc0) as ((_ & Hasc & Hok) & Hlog). cbn [k_data] in *.
  split; [exact Hasc|]. split; [exact Hok|]. split; [exact Hlog|]. split; [exact Hm|]. split; [exact Hh|].
  intros mid x Hmid Hx. rewrite Hdata, orecs_set_other by lia. apply closed_orecs. exact Hcl.
Qed.

(* ---- the state of the merge directory relative to the open database ------------------------------- *)
Definition ignored (md : mdir) : Prop := m_marker md = None \/ m_marker md = Some 0.

Definition MergeState (d : db) (k : disk) (M : smap) : Prop :=
  match k_merge k with
  | None => True
  | Some md =>
    ignored md \/
    exists mid M0 OL PL, merge_dir_ok md mid M0 /\ 0 < mid /\ mid <= d_active_id d /\
      log d = OL ++ PL /\ lo_lookup (d_older d) (N.to_nat mid) = OL /\ sreplay M0 [] PL = (M, [])
  end.

Definition G (d : db) (k : disk) (M : smap) : Prop := LogInv d M /\ MergeState d k M.

(* side conditions of an operation: batch ids are non-zero; the scan order of a Merge that succeeds
   covers every data file (a Merge that is abandoned with an error stops scanning early) *)
Definition merge_result (d : db) (order : list N) : option eerr :=
  snd (fst (db_merge d (mkDisk [] None None) order)).
Definition gop_ok (d : db) (o : op) : Prop :=
  match o with
  | OpMerge order => merge_result d order = None -> order_ok d order
  | OpBatch _ id _ => id <> 0
  | _ => True
  end.

Lemma db_merge_result d k order : snd (fst (db_merge d k order)) = merge_result d order.
Proof.
  unfold merge_result, db_merge. destruct (db_rotate d) as [d1 ev1].
  destruct (h_open _ _ _ _) as [a0 ev3]. destruct (hf_open_new _) as [h0 ev4].
  destruct (merge_files _ _ _ _ _) as [[d2 res] ev5]. destruct res as [m|er m]; [|reflexivity].
  destruct (hf_close _ _) as [h1 ev6]. destruct (h_close _ _ _) as [a1 ev7]. destruct (ms_close_older _ _) as [o1 ev8].
  reflexivity.
Qed.

(* ---- one operation ------------------------------------------------------------------------------------ *)
Lemma G_plain d k M o d' k' r evs :
  G d k M -> plain_op o -> step (d, k) o = ((d', k'), r, evs) ->
  G d' k' (fst (sstep M o)) /\ proj r = proj (snd (sstep M o)).
Proof.
  intros [HL HM] Hok Hst.
  destruct (step_keep 0 d k M o d' k' r evs HL Hok Hst) as [_ ->].
  set (k0 := mkDisk (k_data k) (k_hint k) None).
  pose proof (step_plain_k d k o d' k r evs k0 Hok Hst) as Hst0.
  destruct (step_log d k0 M o d' k0 r evs HL eq_refl (plain_op_ok o Hok) Hst0) as (HL' & _ & Hpr).
  destruct (step_chunk d k0 M o d' k0 r evs HL eq_refl (plain_op_ok o Hok) Hst0) as (X & HX & [_ Hat]).
  split; [split; [exact HL'|]|exact Hpr].
  unfold MergeState in *. destruct (k_merge k) as [md|]; [|exact I].
  destruct HM as [Hig|(mid & M0 & OL & PL & Hmd & Hpos & Hle & Hlog & Hlo & Hsr)]; [left; exact Hig|right].
  destruct (step_keep mid d k M o d' k r evs HL Hok Hst) as [HK _]. destruct (HK Hle) as [Hle' Hor].
  exists mid, M0, OL, (PL ++ X). split; [exact Hmd|]. split; [exact Hpos|]. split; [exact Hle'|].
  split; [rewrite HX, Hlog, app_assoc; reflexivity|]. split.
  - rewrite <- Hlo. apply lo_lookup_ext. intros x Hx. apply Hor. lia.
  - rewrite sreplay_app, Hsr. cbn [fst snd]. exact Hat.
Qed.

Lemma G_merge d k M order d' k' r evs :
  G d k M -> (merge_result d order = None -> order_ok d order) -> step (d, k) (OpMerge order) = ((d', k'), r, evs) ->
  G d' k' M /\ proj r = RMerge None.
Proof.
  intros [HL HM] Hord Hst. cbn [step] in Hst.
  pose proof (db_merge_result d k order) as Hres.
  destruct (db_merge d k order) as [[[d1 k1] e] ev] eqn:Hm. injection Hst as <- <- <- _. cbn [fst snd] in Hres.
  destruct (db_merge_out d k M order d1 k1 e ev HL ltac:(intros ->; apply Hord; symmetry; exact Hres) Hm)
    as (HL' & Hdata & Hhint & Haid & Hemp & He).
  split; [split; [exact HL'|]|reflexivity].
  unfold MergeState. destruct e as [er|]; destruct He as (md & -> & Hmd).
  - left. left. exact Hmd.
  - right. exists (d_active_id d1), M, (log d1), []. split; [exact Hmd|]. split; [lia|]. split; [lia|].
    split; [rewrite app_nil_r; reflexivity|]. split; [|reflexivity].
    destruct HL' as [(_ & HO1 & _) _].
    rewrite <- (below_lookup (d_older d1) (ids_below_asc _ _ HO1)), N2Nat.id, (below_all _ _ HO1).
    unfold log, file_log. rewrite Hemp. cbn [map]. rewrite app_nil_r. reflexivity.
Qed.

Lemma plain_batch0 L : Forall (fun rp : record * pos => plain_live (fst rp)) L -> Forall (fun r => r_batch r = 0) (map fst L).
Proof. intros H. rewrite Forall_map. eapply Forall_impl; [|exact H]. intros rp [Hb _]. exact Hb. Qed.

Lemma from_zero fs : from_ 0 fs = fs.
Proof. unfold from_. induction fs as [|[i g] fs IH]; [reflexivity|]. cbn [filter fst]. destruct (0 <=? i) eqn:E; [|lia]. f_equal. exact IH. Qed.

(* Open on a directory with a finished merge whose adoption has not started, or was interrupted at
   any point (see load_merge_resume): the merge is adopted and the database holds the mapping the
   rewritten files denote, updated by the files written after the merge *)
Lemma open_pending c k md mid n j h MFull M0 PL M :
  k_merge k = Some md -> m_marker md = Some mid -> 0 < mid -> 0 < n -> n <= mid -> j <= n ->
  merged_ok MFull n -> m_files md = from_ j MFull ->
  asc (k_data k) -> Forall file_ok (k_data k) ->
  (forall x, x < j -> older_get (k_data k) x = older_get MFull x) ->
  (0 < j -> forall x, n <= x -> x < mid -> older_get (k_data k) x = None) ->
  (m_hint md = Some h \/ (m_hint md = None /\ k_hint k = Some h /\ j = n)) ->
  hf_recs h = hint_of (recs_of MFull) -> Forall (fun rp => plain_live (fst rp)) (recs_of MFull) ->
  s_apply_recs [] (files_log MFull) = M0 ->
  files_log (from_ mid (k_data k)) = PL -> sreplay M0 [] PL = (M, []) ->
  exists d' k' evs, db_open c k = (OpenOk d' k', evs) /\ LogInv d' M /\ k_merge k' = None /\
    log d' = files_log MFull ++ PL /\ d_cfg d' = c.
Proof.
  intros Hm Hmk Hpos Hn0 Hn Hj Hmok Hmf Hasc Hok Hinst Hrem Hhloc Hhint Hpl Hden HPL Hsr.
  destruct (load_merge_resume k md mid n j h MFull Hm Hmk Hpos Hn0 Hn Hj Hmok Hmf Hasc Hok Hinst Hrem Hhloc)
    as (data2 & ev & Hload & A2 & B2 & Hbel & Hfrom & Hpart).
  destruct (db_open_general c k (mkDisk data2 (Some h) None) mid ev Hload A2 B2) as (d1 & k2 & ev2 & Ho & HLO & Hlog' & Hcfg & Hk2).
  { right. split; [exact Hpos|]. exists h, n. cbn [k_hint k_data]. rewrite Hbel. auto. }
  cbn [k_data k_merge] in *.
  assert (Hfl : files_log data2 = files_log MFull ++ PL).
  { rewrite (split_at data2 n mid A2 Hn Hpart) at 1. rewrite files_log_app, Hbel, Hfrom, HPL. reflexivity. }
  assert (Hsem : sreplay [] [] (files_log data2) = (M, [])).
  { rewrite Hfl, sreplay_app, files_log_recs, (sreplay_plain _ [] [] (plain_batch0 _ Hpl)). cbn [fst snd].
    rewrite <- files_log_recs, Hden. exact Hsr. }
  rewrite Hsem in HLO. cbn [fst] in HLO.
  exists d1, k2, ev2. split; [exact Ho|]. split; [split; [exact HLO|rewrite Hlog', Hsem; reflexivity]|].
  split; [exact Hk2|]. split; [rewrite Hlog', Hfl; reflexivity|exact Hcfg].
Qed.

Lemma G_restart d k M c d' k' r evs :
  G d k M -> step (d, k) (OpRestart c) = ((d', k'), r, evs) -> G d' k' M /\ r = RErr None.
Proof.
  intros [HL HM] Hst. cbn [step] in Hst.
  destruct (db_close d k) as [k1 ev1] eqn:Hc.
  destruct (db_close_gen d k M k1 ev1 HL Hc) as (Hasc & Hok & Hlog & Hm1 & Hh1 & Hor).
  pose proof HL as [(_ & _ & _ & _ & HMm) HMt].
  unfold MergeState in HM. destruct (k_merge k) as [md|] eqn:Ekm.
  2: { destruct (restart_spec d k M c k1 ev1 HL Ekm Hc) as (d1 & k2 & ev2 & Ho & HL1 & Hnm2 & _).
       rewrite Ho in Hst. injection Hst as <- <- <- _.
       split; [split; [exact HL1|unfold MergeState; rewrite Hnm2; exact I]|reflexivity]. }
  destruct HM as [Hig|(mid & M0 & OL & PL & Hmd & Hpos & Hle & Hlogd & Hlo & Hsr)].
  - (* an unfinished merge: ignored, the directory stays *)
    assert (Hload : exists k1' ev, load_merge_files k1 = (k1', 0, ev) /\ k_data k1' = k_data k1 /\
                      exists md', k_merge k1' = Some md' /\ ignored md').
    { unfold load_merge_files. rewrite Hm1.
      destruct Hig as [Hn|Hz]; [rewrite Hn|rewrite Hz]; change (0 =? 0) with true; cbv iota;
        eexists _, _; (split; [reflexivity|]); (split; [reflexivity|]); eexists; (split; [reflexivity|right; reflexivity]). }
    destruct Hload as (k1' & ev & Hload & Hd & md' & Hk1' & Hig').
    destruct (db_open_general c k1 k1' 0 ev Hload) as (d1 & k2 & ev2 & Ho & HLO & Hlog' & Hcfg & Hk2);
      [rewrite Hd; exact Hasc|rewrite Hd; exact Hok|left; reflexivity|].
    rewrite Ho in Hst. injection Hst as <- <- <- _. rewrite Hd, Hlog in HLO, Hlog'. rewrite HMm in HLO.
    split; [split; [split; [exact HLO|rewrite Hlog'; exact HMt]|]|reflexivity].
    unfold MergeState. rewrite Hk2, Hk1'. left. exact Hig'.
  - (* a finished merge: adopted *)
    destruct Hmd as (n & h & Hmk & Hh & Hn0 & Hn & Hmok & Hhint & Hpl & Hden).
    assert (HPL : files_log (from_ mid (k_data k1)) = PL).
    { pose proof (split_at (k_data k1) mid mid Hasc ltac:(lia) ltac:(intros; lia)) as Hsp.
      pose proof Hlog as Hl. rewrite Hsp, files_log_app, Hlogd in Hl.
      rewrite <- (N2Nat.id mid) in Hl at 1. rewrite (below_lookup _ Hasc) in Hl.
      rewrite (lo_lookup_ext (k_data k1) (d_older d)) in Hl.
      - rewrite Hlo in Hl. apply app_inv_head in Hl. exact Hl.
      - intros x Hx. apply (Hor mid); lia. }
    destruct (open_pending c k1 md mid n 0 h (m_files md) M0 PL M Hm1 Hmk Hpos Hn0 Hn ltac:(lia) Hmok
                ltac:(rewrite from_zero; reflexivity) Hasc Hok ltac:(intros; lia) ltac:(intros; lia) (or_introl Hh)
                Hhint Hpl Hden HPL Hsr) as (d1 & k2 & ev2 & Ho & HL1 & Hk2 & _).
    rewrite Ho in Hst. injection Hst as <- <- <- _.
    split; [split; [exact HL1|]|reflexivity]. unfold MergeState. rewrite Hk2. exact I.
Qed.

Theorem step_G d k M o d' k' r evs :
  G d k M -> gop_ok d o -> step (d, k) o = ((d', k'), r, evs) ->
  G d' k' (fst (sstep M o)) /\ proj r = proj (snd (sstep M o)).
Proof.
  intros HG Hok Hst. destruct o as [key v|key|key| | | | |sync id bops|order|c].
  all: try (apply (G_plain d k M _ d' k' r evs HG); [exact Hok|exact Hst]).
  - destruct (G_merge d k M order d' k' r evs HG Hok Hst) as [H1 H2]. split; [exact H1|exact H2].
  - destruct (G_restart d k M c d' k' r evs HG Hst) as [H1 ->]. split; [exact H1|reflexivity].
Qed.

(* every history: Put / Delete / Get / ListKeys / Fold / Stat / Sync / batches / merges / restarts *)
Fixpoint ops_ok (s : state) (ops : list op) : Prop :=
  match ops with
  | [] => True
  | o :: rest => gop_ok (fst s) o /\ ops_ok (fst (fst (step s o))) rest
  end.

Theorem run_G : forall ops d k M s' rs evs,
  G d k M -> ops_ok (d, k) ops -> run (d, k) ops = (s', rs, evs) ->
  map proj rs = map proj (srun M ops) /\ G (fst s') (snd s') (final_state M ops).
Proof.
  induction ops as [|o ops IH]; intros d k M s' rs evs HG Hok Hrun; cbn [run srun final_state fold_left] in *.
  - injection Hrun as <- <- <-. split; [reflexivity|exact HG].
  - destruct Hok as [Ho Hrest].
    destruct (step (d, k) o) as [[[d1 k1] r] ev1] eqn:Hst. cbn [fst] in Hrest.
    destruct (run (d1, k1) ops) as [[s2 rs2] ev2] eqn:Hr2. injection Hrun as <- <- <-.
    destruct (step_G _ _ _ _ _ _ _ _ HG Ho Hst) as (HG1 & Hpr).
    destruct (sstep M o) as [m1 r1]. cbn [fst snd] in *.
    destruct (IH _ _ _ _ _ _ HG1 Hrest Hr2) as (Hrs & HG2).
    cbn [map]. rewrite Hpr, Hrs. auto.
Qed.

Lemma open_empty_G c : exists d k evs, db_open c empty_disk = (OpenOk d k, evs) /\ G d k [].
Proof.
  destruct (open_empty_log c) as (d & k & evs & Ho & HL & Hnm). exists d, k, evs. split; [exact Ho|].
  split; [exact HL|]. unfold MergeState. rewrite Hnm. exact I.
Qed.
