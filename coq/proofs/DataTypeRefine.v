(* DataTypeRefine.v — the commands on the ordered map refine the abstract types (C19).
   Rel ties a map M to an abstract state A: per user key, the key's record is the encoding of the value's
   metadata and the elements sit at the internal keys key|version|element; everything else in the map is
   garbage of earlier incarnations (other versions).  Every command keeps Rel and replies as the abstract
   type does. *)
From Coq Require Import List NArith Lia Bool.
From Coq Require Import ZArith ZifyN ZifyBool.
From KV Require Import Bytes GenConsts BytesLemmas Record Engine Script DataType DataTypeRun DataTypeSpec.
From KV Require Import AMapLemmas DataTypeCodec.
Import ListNotations.
Open Scope N_scope.

Definition lk (M : smap) (x : bytes) : option bytes := amap_get M x.

Lemma m_get_lk M k : len k <> 0 -> m_get M k = (M, lk M k).
Proof.
  intros H. unfold m_get, s_get, lk. destruct (len k =? 0) eqn:E; [apply N.eqb_eq in E; contradiction|].
  destruct (amap_get M k); reflexivity.
Qed.

(* ---- writes, pointwise ------------------------------------------------------------------------------------ *)
Definition upd (L : bytes -> option bytes) (k : bytes) (o : option bytes) : bytes -> option bytes :=
  fun x => if bytes_eqb x k then o else L x.
Fixpoint wapply (L : bytes -> option bytes) (ws : list wop) : bytes -> option bytes :=
  match ws with
  | [] => L
  | WPut k v :: r => wapply (upd L k (Some v)) r
  | WDel k :: r => wapply (upd L k None) r
  end.
Definition wkey (w : wop) : bytes := match w with WPut k _ => k | WDel k => k end.

Lemma lk_put M k v x : len k <> 0 -> lk (fst (s_put M k v)) x = upd (lk M) k (Some v) x.
Proof.
  intros H. unfold s_put, lk, upd. destruct (len k =? 0) eqn:E; [apply N.eqb_eq in E; contradiction|]. cbn [fst].
  apply amap_get_put.
Qed.
Lemma lk_del M k x : sorted M -> len k <> 0 -> lk (fst (s_del M k)) x = upd (lk M) k None x.
Proof.
  intros Hs H. unfold s_del, lk, upd. destruct (len k =? 0) eqn:E; [apply N.eqb_eq in E; contradiction|]. cbn [fst].
  apply amap_get_del. exact Hs.
Qed.
Lemma sorted_put M k v : sorted M -> sorted (fst (s_put M k v)).
Proof. intros Hs. unfold s_put. destruct (len k =? 0); [exact Hs|]. cbn [fst]. apply amap_put_sorted. exact Hs. Qed.
Lemma sorted_del M k : sorted M -> sorted (fst (s_del M k)).
Proof. intros Hs. unfold s_del. destruct (len k =? 0); [exact Hs|]. cbn [fst]. apply amap_del_sorted. exact Hs. Qed.

Lemma wapply_ext : forall ws L L', (forall x, L x = L' x) -> forall x, wapply L ws x = wapply L' ws x.
Proof.
  induction ws as [|[k v|k] ws IH]; intros L L' H x; cbn [wapply]; [apply H| |];
  apply IH; intros y; unfold upd; rewrite H; reflexivity.
Qed.

Lemma s_bops_batch : forall ws M, sorted M -> Forall (fun w => len (wkey w) <> 0) ws ->
  sorted (fst (s_bops M (map bop_of ws))) /\ forall x, lk (fst (s_bops M (map bop_of ws))) x = wapply (lk M) ws x.
Proof.
  induction ws as [|w ws IH]; intros M Hs Hk; cbn [map s_bops wapply].
  - cbn [fst]. auto.
  - pose proof (Forall_inv Hk) as Hk1. pose proof (Forall_inv_tail Hk) as Hk2. destruct w as [k v|k]; cbn [bop_of wkey] in *.
    + destruct (s_put M k v) as [M1 e] eqn:E1.
      assert (HM1 : M1 = fst (s_put M k v)) by (rewrite E1; reflexivity).
      destruct (IH M1 ltac:(subst M1; apply sorted_put; exact Hs) Hk2) as [Hs2 Hl2].
      destruct (s_bops M1 (map bop_of ws)) as [mf rs]. cbn [fst] in *. split; [exact Hs2|].
      intros x. rewrite Hl2. apply wapply_ext. intros y. subst M1. apply lk_put. exact Hk1.
    + destruct (s_del M k) as [M1 e] eqn:E1.
      assert (HM1 : M1 = fst (s_del M k)) by (rewrite E1; reflexivity).
      destruct (IH M1 ltac:(subst M1; apply sorted_del; exact Hs) Hk2) as [Hs2 Hl2].
      destruct (s_bops M1 (map bop_of ws)) as [mf rs]. cbn [fst] in *. split; [exact Hs2|].
      intros x. rewrite Hl2. apply wapply_ext. intros y. subst M1. apply lk_del; assumption.
Qed.

(* the keys a plan writes *)
Definition plan_ws (p : plan) : list wop :=
  match p with PNone => [] | PPut k v => [WPut k v] | PDelete k => [WDel k] | PBatch ws => ws end.

Lemma m_apply_spec M p : sorted M -> Forall (fun w => len (wkey w) <> 0) (plan_ws p) ->
  snd (m_apply M p) = None /\ sorted (fst (m_apply M p)) /\ forall x, lk (fst (m_apply M p)) x = wapply (lk M) (plan_ws p) x.
Proof.
  intros Hs Hk. destruct p as [|k v|k|ws]; cbn [m_apply plan_ws wapply] in *.
  - cbn [fst snd]. auto.
  - pose proof (Forall_inv Hk) as H1. cbn [wkey] in H1. split; [|split].
    + unfold s_put. destruct (len k =? 0) eqn:E; [apply N.eqb_eq in E; contradiction|reflexivity].
    + apply sorted_put. exact Hs.
    + intros x. apply lk_put. exact H1.
  - pose proof (Forall_inv Hk) as H1. cbn [wkey] in H1. split; [|split].
    + unfold s_del. destruct (len k =? 0) eqn:E; [apply N.eqb_eq in E; contradiction|reflexivity].
    + apply sorted_del. exact Hs.
    + intros x. apply lk_del; assumption.
  - cbn [fst snd]. split; [reflexivity|]. apply s_bops_batch; assumption.
Qed.

(* ---- amap: sizes ------------------------------------------------------------------------------------------ *)
Lemma amap_put_len {V} (m : amap V) k v : sorted m ->
  len (fst (amap_put m k v)) = match amap_get m k with Some _ => len m | None => len m + 1 end.
Proof.
  induction m as [|[k' v'] m IH]; intros Hs; cbn [amap_put amap_get fst].
  - reflexivity.
  - destruct (sorted_inv _ _ Hs) as [Hs' Hlt].
    destruct (bytes_eqb k k') eqn:E; cbn [fst].
    + rewrite !len_cons. reflexivity.
    + destruct (bytes_ltb k k') eqn:El; cbn [fst].
      * rewrite (len_cons (k, v)).
        assert (Hn : amap_get m k = None).
        { apply get_none_of_lt; [exact Hs'|]. eapply Forall_impl; [|exact Hlt]. intros e He. unfold key_lt in He. cbn [fst] in He.
          eapply bytes_ltb_trans; eassumption. }
        rewrite Hn. reflexivity.
      * specialize (IH Hs'). destruct (amap_put m k v) as [r o]. cbn [fst] in *. rewrite !len_cons. rewrite IH.
        destruct (amap_get m k); reflexivity.
Qed.
Lemma amap_del_len {V} (m : amap V) k :
  len (fst (amap_del m k)) = match amap_get m k with Some _ => len m - 1 | None => len m end.
Proof.
  induction m as [|[k' v'] m IH]; cbn [amap_del amap_get fst].
  - reflexivity.
  - destruct (bytes_eqb k k') eqn:E; cbn [fst].
    + rewrite len_cons. lia.
    + destruct (amap_del m k) as [r o]. cbn [fst] in *. rewrite !len_cons. rewrite IH.
      destruct (amap_get m k) eqn:Eg; [|reflexivity].
      assert (0 < len m). { destruct m; [discriminate|]. rewrite len_cons. lia. } lia.
Qed.
Lemma amap_get_some_len {V} (m : amap V) k v : amap_get m k = Some v -> 0 < len m.
Proof. destruct m; [discriminate|]. intros _. rewrite len_cons. lia. Qed.
Lemma amap_len0_get {V} (m : amap V) k : len m = 0 -> amap_get m k = None.
Proof. intros H. apply len_0_nil in H. subst. reflexivity. Qed.
Lemma sorted_single {V} k (v : V) : sorted [(k, v)].
Proof. constructor; [constructor|constructor]. Qed.

Lemma wapply_other : forall ws L x, (forall w, In w ws -> wkey w <> x) -> wapply L ws x = L x.
Proof.
  induction ws as [|w ws IH]; intros L x H; cbn [wapply]; [reflexivity|].
  assert (Hw : wkey w <> x) by (apply H; left; reflexivity).
  assert (E : bytes_eqb x (wkey w) = false) by (apply bytes_eqb_neq; congruence).
  destruct w as [k v|k]; cbn [wkey] in *; rewrite IH by (intros w' Hw'; apply H; right; exact Hw'); unfold upd; rewrite E; reflexivity.
Qed.
Lemma wapply_some : forall ws L x, wapply L ws x <> None -> L x <> None \/ exists w, In w ws /\ wkey w = x.
Proof.
  induction ws as [|w ws IH]; intros L x H; cbn [wapply] in H; [left; exact H|].
  destruct w as [k v|k]; destruct (IH _ _ H) as [H1|(w' & Hi & He)].
  - unfold upd in H1. destruct (bytes_eqb x k) eqn:E; [right; exists (WPut k v); split; [left; reflexivity|apply bytes_eqb_eq in E; cbn; congruence]|left; exact H1].
  - right. exists w'. split; [right; exact Hi|exact He].
  - unfold upd in H1. destruct (bytes_eqb x k) eqn:E; [contradiction|left; exact H1].
  - right. exists w'. split; [right; exact Hi|exact He].
Qed.

Section Refine.
Variable U : bytes -> Prop.       (* the user keys *)
Variable V : N -> Prop.           (* the versions (clock readings) that occur *)
Variable ZM : bytes -> Prop.      (* sorted-set members that occur *)
Variable ZS : bytes -> Prop.      (* sorted-set scores (as strings) that occur *)
Hypothesis U_nonempty : forall k, U k -> len k <> 0.
Hypothesis V_bound : forall v, V v -> v < 2 ^ 63.
(* no user key is an internal key, and internal keys of different user keys differ *)
Hypothesis Sep1 : forall k k' v y, U k -> U k' -> V v -> k' <> ikey k v y.
Hypothesis Sep2 : forall k k' v v' y y', U k -> U k' -> V v -> V v' -> ikey k v y = ikey k' v' y' -> k = k'.
(* no member is <score><member><length of member> (the collision D22) *)
Hypothesis ZSep : forall m m' s, ZM m -> ZM m' -> ZS s -> m <> s ++ m' ++ le32 (len m').

Definition elems (M : smap) (k : bytes) (m : meta) (a : aval) : Prop :=
  match a with
  | AStr _ _ => False
  | AHash h => sorted h /\ m_size m = len h /\ forall f, lk M (ikey k (m_version m) f) = amap_get h f
  | ASet s => sorted s /\ m_size m = len s /\ (forall x v, amap_get s x = Some v -> v = []) /\
              forall x, lk M (ikey k (m_version m) (x ++ le32 (len x))) = amap_get s x
  | AList l => m_size m = len l /\ m_tail m = wrap64 (m_head m + len l) /\
               forall i, i < len l -> lk M (ikey k (m_version m) (le64 (wrap64 (m_head m + i)))) = nth_error l (N.to_nat i)
  | AZSet z => sorted z /\ m_size m = len z /\ (forall x sc, amap_get z x = Some sc -> ZM x /\ ZS sc) /\
               forall x, ZM x -> lk M (ikey k (m_version m) x) = amap_get z x
  end.

Definition RelK (n : N) (used : list N) (M : smap) (k : bytes) (oa : option aval) : Prop :=
  match oa with
  | None => lk M k = None
  | Some (AStr v ex) => lk M k = Some (enc_string v ex) /\ ex < 2 ^ 63
  | Some a => exists m, lk M k = Some (enc_meta m) /\ wf_meta m /\ m_type m = kind a /\ m_expire m = 0 /\
                        In (m_version m) used /\ m_size m <= n /\ elems M k m a
  end.

Definition Ghost (used : list N) (M : smap) : Prop :=
  forall x, lk M x <> None -> U x \/ exists k v y, U k /\ In v used /\ x = ikey k v y.

Definition Rel (n : N) (used : list N) (M : smap) (A : astate) : Prop :=
  sorted M /\ (forall v, In v used -> V v) /\ (forall k, U k -> RelK n used M k (A k)) /\ Ghost used M.

(* ---- frame ------------------------------------------------------------------------------------------------ *)
Lemma RelK_frame n n' used used' M M' k oa :
  RelK n used M k oa -> lk M' k = lk M k -> (forall v y, In v used -> lk M' (ikey k v y) = lk M (ikey k v y)) ->
  n <= n' -> incl used used' -> RelK n' used' M' k oa.
Proof.
  intros HR Hk Hi Hn Hu. destruct oa as [a|]; cbn [RelK] in *; [|congruence].
  destruct a as [v ex|h|s|l|z]; [rewrite Hk; exact HR| | | |];
  (destruct HR as (m & H1 & H2 & H3 & H4 & H5 & H6 & H7); exists m; rewrite Hk;
   split; [exact H1|]; split; [exact H2|]; split; [exact H3|]; split; [exact H4|]; split; [apply Hu; exact H5|]; split; [lia|]);
  cbn [elems] in *.
  - destruct H7 as (Ha & Hb & Hc). split; [exact Ha|]. split; [exact Hb|]. intros f. rewrite Hi by exact H5. apply Hc.
  - destruct H7 as (Ha & Hb & Hc & Hd). split; [exact Ha|]. split; [exact Hb|]. split; [exact Hc|]. intros x. rewrite Hi by exact H5. apply Hd.
  - destruct H7 as (Ha & Hb & Hc). split; [exact Ha|]. split; [exact Hb|]. intros i Hlt. rewrite Hi by exact H5. apply Hc. exact Hlt.
  - destruct H7 as (Ha & Hb & Hc & Hd). split; [exact Ha|]. split; [exact Hb|]. split; [exact Hc|]. intros x Hx. rewrite Hi by exact H5. apply Hd. exact Hx.
Qed.

Definition confined (k : bytes) (vs : N -> Prop) (ws : list wop) : Prop :=
  Forall (fun w => wkey w = k \/ exists v y, vs v /\ wkey w = ikey k v y) ws.

Lemma confined_nonempty k vs ws : U k -> confined k vs ws -> Forall (fun w => len (wkey w) <> 0) ws.
Proof.
  intros Hk Hc. eapply Forall_impl; [|exact Hc]. intros w [->|(v & y & _ & ->)]; [apply U_nonempty; exact Hk|apply ikey_len].
Qed.

(* a command on key k that writes only k and internal keys of k (under the new or a known version)
   keeps the relation of every other key and the garbage invariant *)
Lemma rel_step n used M A k ver p oa' A' :
  Rel n used M A -> U k -> V ver ->
  confined k (fun v => v = ver \/ In v used) (plan_ws p) ->
  (forall x, A' x = if bytes_eqb x k then oa' else A x) ->
  RelK (n + 1) (ver :: used) (fst (m_apply M p)) k oa' ->
  snd (m_apply M p) = None /\ Rel (n + 1) (ver :: used) (fst (m_apply M p)) A'.
Proof.
  intros (Hs & HV & HK & HG) Hk Hver Hc HA' Hnew.
  pose proof (confined_nonempty _ _ _ Hk Hc) as Hne.
  destruct (m_apply_spec M p Hs Hne) as (He & Hs' & Hl). split; [exact He|].
  assert (HVs : forall v, (v = ver \/ In v used) -> V v) by (intros v [->|Hv]; auto).
  split; [exact Hs'|]. split; [intros v [<-|Hv]; auto|]. split.
  - intros k' Hk'. rewrite HA'. destruct (bytes_eqb k' k) eqn:E.
    + apply bytes_eqb_eq in E. subst k'. exact Hnew.
    + apply bytes_eqb_neq in E. apply (RelK_frame n (n + 1) used (ver :: used) M _ k' (A k') (HK k' Hk')).
      * rewrite Hl. apply wapply_other. intros w Hw Heq. unfold confined in Hc. rewrite Forall_forall in Hc.
        destruct (Hc w Hw) as [Hw1|(v & y & Hv & Hw1)]; [congruence|].
        rewrite Hw1 in Heq. apply (Sep1 k k' v y Hk Hk' (HVs v Hv)). congruence.
      * intros v' y' Hv'. rewrite Hl. apply wapply_other. intros w Hw Heq. unfold confined in Hc. rewrite Forall_forall in Hc.
        destruct (Hc w Hw) as [Hw1|(v & y & Hv & Hw1)].
        -- rewrite Hw1 in Heq. apply (Sep1 k' k v' y' Hk' Hk (HV v' Hv')). exact Heq.
        -- rewrite Hw1 in Heq. apply E. symmetry. apply (Sep2 k k' v v' y y' Hk Hk' (HVs v Hv) (HV v' Hv')). exact Heq.
      * lia.
      * intros v Hv. right. exact Hv.
  - intros x Hx. rewrite Hl in Hx. destruct (wapply_some _ _ _ Hx) as [H1|(w & Hw & Heq)].
    + destruct (HG x H1) as [Hu|(k0 & v & y & Hk0 & Hv & ->)]; [left; exact Hu|].
      right. exists k0, v, y. split; [exact Hk0|]. split; [right; exact Hv|reflexivity].
    + unfold confined in Hc. rewrite Forall_forall in Hc. destruct (Hc w Hw) as [Hw1|(v & y & Hv & Hw1)].
      * left. rewrite <- Heq, Hw1. exact Hk.
      * right. exists k, v, y. split; [exact Hk|]. split; [destruct Hv as [->|Hv]; [left; reflexivity|right; exact Hv]|congruence].
Qed.

(* nothing lives under a version that was never handed out *)
Lemma fresh_empty used M k ver y : Ghost used M -> U k -> V ver -> (forall v, In v used -> V v) -> ~ In ver used ->
  lk M (ikey k ver y) = None.
Proof.
  intros HG Hk Hv HV Hf. destruct (lk M (ikey k ver y)) eqn:E; [|reflexivity]. exfalso.
  destruct (HG (ikey k ver y)) as [Hu|(k0 & v & y0 & Hk0 & Hv0 & Heq)]; [congruence| |].
  - exact (Sep1 k _ ver y Hk Hu Hv eq_refl).
  - pose proof (Sep2 k k0 ver v y y0 Hk Hk0 Hv (HV v Hv0) Heq) as <-.
    apply ikey_inj in Heq; [|pose proof (V_bound ver Hv); assert (2 ^ 63 < 2 ^ 64) by reflexivity; lia
                             |pose proof (V_bound v (HV v Hv0)); assert (2 ^ 63 < 2 ^ 64) by reflexivity; lia].
    destruct Heq as [-> _]. contradiction.
Qed.

Lemma V64 v : V v -> v < 2 ^ 64.
Proof. intros H. pose proof (V_bound v H). assert (2 ^ 63 < 2 ^ 64) by reflexivity. lia. Qed.

(* ---- findMetadata ----------------------------------------------------------------------------------------- *)
Lemma find_fresh M k dt ver now : len k <> 0 -> lk M k = None ->
  find smap m_get M k dt ver now = (M, FmMeta (fresh_meta dt ver) false).
Proof.
  intros Hk Hl. unfold find. destruct (len k =? 0) eqn:E; [apply N.eqb_eq in E; contradiction|].
  rewrite m_get_lk by exact Hk. rewrite Hl. reflexivity.
Qed.
Lemma find_hit M k m dt ver now : len k <> 0 -> lk M k = Some (enc_meta m) -> wf_meta m -> m_expire m = 0 -> m_type m = dt ->
  find smap m_get M k dt ver now = (M, FmMeta m true).
Proof.
  intros Hk Hl Hw He <-. unfold find. destruct (len k =? 0) eqn:E; [apply N.eqb_eq in E; contradiction|].
  rewrite m_get_lk by exact Hk. rewrite Hl. unfold find_meta_raw.
  destruct (enc_meta_head m) as [r Hr]. rewrite Hr. rewrite N.eqb_refl. cbn [negb]. rewrite <- Hr.
  rewrite dec_enc_meta by exact Hw. rewrite He. reflexivity.
Qed.
Lemma find_wrong n used M k a dt ver now : len k <> 0 -> RelK n used M k (Some a) -> kind a <> dt ->
  find smap m_get M k dt ver now = (M, FmWrong).
Proof.
  intros Hk HR Hd. unfold find. destruct (len k =? 0) eqn:E; [apply N.eqb_eq in E; contradiction|].
  rewrite m_get_lk by exact Hk.
  assert (Hraw : exists r, lk M k = Some (kind a :: r)).
  { destruct a; cbn [RelK] in HR.
    1: { destruct HR as [-> _]. eexists. reflexivity. }
    all: destruct HR as (m & -> & _ & <- & _); destruct (enc_meta_head m) as [r ->]; eexists; reflexivity. }
  destruct Hraw as [r ->]. unfold find_meta_raw.
  destruct (kind a =? dt) eqn:E2; [apply N.eqb_eq in E2; contradiction|]. reflexivity.
Qed.

(* the type a structure command works on *)
Definition cmd_dt (c : cmd) : option N :=
  match c with
  | KHSet _ _ _ | KHGet _ _ | KHDel _ _ => Some ty_Hash
  | KSAdd _ _ | KSIsMember _ _ | KSRem _ _ => Some ty_Set
  | KPush _ _ _ | KPop _ _ => Some ty_List
  | KZAdd _ _ _ | KZScore _ _ => Some ty_ZSet
  | _ => None
  end.

Lemma cmd_wrong_type n used M A c a dt ver now :
  cmd_dt c = Some dt -> len (cmd_key c) <> 0 -> A (cmd_key c) = Some a -> RelK n used M (cmd_key c) (Some a) -> kind a <> dt ->
  dt_cmd smap m_get M c ver now = (M, DWrongType, PNone) /\ a_cmd A c now = (A, DWrongType).
Proof.
  intros Hd Hk HA HR Hne.
  destruct c; cbn [cmd_dt] in Hd; try discriminate; injection Hd as <-; cbn [cmd_key] in *; cbn [dt_cmd a_cmd];
  unfold dt_hset, dt_hget, dt_hdel, dt_sadd, dt_sismember, dt_srem, dt_push, dt_pop, dt_zadd, dt_zscore;
  rewrite (find_wrong n used M _ a _ ver now Hk HR Hne); rewrite HA; (split; [reflexivity|]);
  destruct a; cbn [kind] in Hne; try reflexivity; exfalso; apply Hne; reflexivity.
Qed.

(* ---- key comparisons -------------------------------------------------------------------------------------- *)
Lemma beq_ikey k v y y' : bytes_eqb (ikey k v y) (ikey k v y') = bytes_eqb y y'.
Proof.
  destruct (bytes_eqb y y') eqn:E.
  - apply bytes_eqb_eq in E. subst. apply bytes_eqb_refl.
  - apply bytes_eqb_neq. apply bytes_eqb_neq in E. intros H. apply E. unfold ikey in H.
    apply app_inv_head in H. apply app_inv_head in H. exact H.
Qed.
Lemma beq_ikey_self k v y : bytes_eqb (ikey k v y) k = false.
Proof. apply bytes_eqb_neq. apply ikey_neq_self. Qed.
Lemma beq_self_ikey k v y : bytes_eqb k (ikey k v y) = false.
Proof. apply bytes_eqb_neq. intros H. symmetry in H. exact (ikey_neq_self _ _ _ H). Qed.
Lemma beq_suffix x x' : bytes_eqb (x ++ le32 (len x)) (x' ++ le32 (len x')) = bytes_eqb x x'.
Proof.
  destruct (bytes_eqb x x') eqn:E.
  - apply bytes_eqb_eq in E. subst. apply bytes_eqb_refl.
  - apply bytes_eqb_neq. apply bytes_eqb_neq in E. intros H. apply E. apply suffix_len_inj. exact H.
Qed.
Lemma beq_le64 a b : a < 2 ^ 64 -> b < 2 ^ 64 -> bytes_eqb (le64 a) (le64 b) = (a =? b).
Proof.
  intros Ha Hb. destruct (a =? b) eqn:E.
  - apply N.eqb_eq in E. subst. apply bytes_eqb_refl.
  - apply bytes_eqb_neq. apply N.eqb_neq in E. intros H. apply E. apply le64_inj; assumption.
Qed.

Lemma RelK_raw_head n used M k a : RelK n used M k (Some a) -> exists r, lk M k = Some (kind a :: r).
Proof.
  intros HR. destruct a; cbn [RelK] in HR.
  1: { destruct HR as [-> _]. eexists. reflexivity. }
  all: destruct HR as (m & -> & _ & <- & _); destruct (enc_meta_head m) as [r ->]; eexists; reflexivity.
Qed.

(* ---- one command: what has to be shown --------------------------------------------------------------------- *)
Definition step_ok (n : N) (used : list N) (M : smap) (A : astate) (c : cmd) (ver now : N) : Prop :=
  exists r, snd (m_cmd M c ver now) = OReply r /\ canon r = snd (a_cmd A c now) /\ Rel (n + 1) (ver :: used) (fst (m_cmd M c ver now)) (fst (a_cmd A c now)).

Lemma step_from n used M A c ver now r p oa' :
  Rel n used M A -> U (cmd_key c) -> V ver ->
  dt_cmd smap m_get M c ver now = (M, r, p) ->
  confined (cmd_key c) (fun v => v = ver \/ In v used) (plan_ws p) ->
  (forall x, fst (a_cmd A c now) x = if bytes_eqb x (cmd_key c) then oa' else A x) ->
  canon r = snd (a_cmd A c now) ->
  (forall M', (forall x, lk M' x = wapply (lk M) (plan_ws p) x) -> RelK (n + 1) (ver :: used) M' (cmd_key c) oa') ->
  step_ok n used M A c ver now.
Proof.
  intros HR Hk Hv Hdt Hc HA Hcan Hnew. unfold step_ok, m_cmd. rewrite Hdt.
  pose proof HR as (Hs & _).
  destruct (m_apply_spec M p Hs (confined_nonempty _ _ _ Hk Hc)) as (_ & _ & Hl).
  destruct (rel_step n used M A (cmd_key c) ver p oa' (fst (a_cmd A c now)) HR Hk Hv Hc HA (Hnew _ Hl)) as [He HR'].
  destruct (m_apply M p) as [M2 e]. cbn [fst snd] in *. subst e. exists r. auto.
Qed.

(* a command that writes nothing and leaves the abstract state alone *)
Lemma step_read n used M A c ver now r :
  Rel n used M A -> U (cmd_key c) -> V ver ->
  dt_cmd smap m_get M c ver now = (M, r, PNone) ->
  (forall x, fst (a_cmd A c now) x = A x) -> canon r = snd (a_cmd A c now) ->
  step_ok n used M A c ver now.
Proof.
  intros HR Hk Hv Hdt HA Hcan.
  apply (step_from n used M A c ver now r PNone (A (cmd_key c))); auto.
  - constructor.
  - intros x. rewrite HA. destruct (bytes_eqb x (cmd_key c)) eqn:E; [apply bytes_eqb_eq in E; subst; reflexivity|reflexivity].
  - intros M' HM'. cbn [plan_ws wapply] in HM'. destruct HR as (_ & _ & HK & _).
    apply (RelK_frame n (n + 1) used (ver :: used) M M' _ _ (HK _ Hk)); [apply HM'|intros; apply HM'|lia|intros v Hv'; right; exact Hv'].
Qed.

Lemma aupd_spec A k o : forall x, aupd A k o x = if bytes_eqb x k then o else A x.
Proof. reflexivity. Qed.

(* ---- strings, Del, Type ------------------------------------------------------------------------------------- *)
Lemma step_set n used M A k v ex ver now :
  Rel n used M A -> U k -> V ver -> ex < 2 ^ 63 -> step_ok n used M A (KSet k v ex) ver now.
Proof.
  intros HR Hk Hv Hex.
  apply (step_from n used M A (KSet k v ex) ver now DOk (PPut k (enc_string v ex)) (Some (AStr v ex))); auto.
  - constructor; [left; reflexivity|constructor].
  - intros M' HM'. cbn [RelK]. split; [|exact Hex]. rewrite HM'. cbn [plan_ws wapply]. unfold upd. rewrite bytes_eqb_refl. reflexivity.
Qed.

Lemma step_del n used M A k ver now :
  Rel n used M A -> U k -> V ver -> step_ok n used M A (KDel k) ver now.
Proof.
  intros HR Hk Hv.
  apply (step_from n used M A (KDel k) ver now DOk (PDelete k) None); auto.
  - constructor; [left; reflexivity|constructor].
  - intros M' HM'. cbn [RelK]. rewrite HM'. cbn [plan_ws wapply]. unfold upd. rewrite bytes_eqb_refl. reflexivity.
Qed.

Lemma step_get n used M A k ver now :
  Rel n used M A -> U k -> V ver -> step_ok n used M A (KGet k) ver now.
Proof.
  intros HR Hk Hv. pose proof (U_nonempty k Hk) as Hne. pose proof HR as (_ & _ & HK & _). specialize (HK k Hk).
  assert (E0 : (len k =? 0) = false) by (apply N.eqb_neq; exact Hne).
  destruct (A k) as [a|] eqn:EA.
  - destruct a as [v ex|h|s|l|z].
    + cbn [RelK] in HK. destruct HK as [Hl Hex].
      destruct (enc_string_dec v ex Hex) as (nn & Hd1 & Hd2).
      apply (step_read n used M A (KGet k) ver now (if (0 <? ex) && (ex <=? now) then DNil else DBytes v)); auto.
      * cbn [dt_cmd]. unfold dt_get. rewrite E0. rewrite m_get_lk by exact Hne. rewrite Hl. unfold enc_string. cbn [app].
        change (ty_String =? ty_String) with true. cbn [negb]. rewrite Hd1, Hd2. reflexivity.
      * cbn [a_cmd cmd_key snd]. rewrite EA. destruct ((0 <? ex) && (ex <=? now)); reflexivity.
    + destruct (RelK_raw_head _ _ _ _ _ HK) as [r Hr].
      apply (step_read n used M A (KGet k) ver now DWrongType); auto.
      * cbn [dt_cmd]. unfold dt_get. rewrite E0. rewrite m_get_lk by exact Hne. rewrite Hr. reflexivity.
      * cbn [a_cmd cmd_key snd]. rewrite EA. reflexivity.
    + destruct (RelK_raw_head _ _ _ _ _ HK) as [r Hr].
      apply (step_read n used M A (KGet k) ver now DWrongType); auto.
      * cbn [dt_cmd]. unfold dt_get. rewrite E0. rewrite m_get_lk by exact Hne. rewrite Hr. reflexivity.
      * cbn [a_cmd cmd_key snd]. rewrite EA. reflexivity.
    + destruct (RelK_raw_head _ _ _ _ _ HK) as [r Hr].
      apply (step_read n used M A (KGet k) ver now DWrongType); auto.
      * cbn [dt_cmd]. unfold dt_get. rewrite E0. rewrite m_get_lk by exact Hne. rewrite Hr. reflexivity.
      * cbn [a_cmd cmd_key snd]. rewrite EA. reflexivity.
    + destruct (RelK_raw_head _ _ _ _ _ HK) as [r Hr].
      apply (step_read n used M A (KGet k) ver now DWrongType); auto.
      * cbn [dt_cmd]. unfold dt_get. rewrite E0. rewrite m_get_lk by exact Hne. rewrite Hr. reflexivity.
      * cbn [a_cmd cmd_key snd]. rewrite EA. reflexivity.
  - cbn [RelK] in HK.
    apply (step_read n used M A (KGet k) ver now DNotFound); auto.
    + cbn [dt_cmd]. unfold dt_get. rewrite E0. rewrite m_get_lk by exact Hne. rewrite HK. reflexivity.
    + cbn [a_cmd cmd_key snd]. rewrite EA. reflexivity.
Qed.

Lemma step_type n used M A k ver now :
  Rel n used M A -> U k -> V ver -> step_ok n used M A (KType k) ver now.
Proof.
  intros HR Hk Hv. pose proof (U_nonempty k Hk) as Hne. pose proof HR as (_ & _ & HK & _). specialize (HK k Hk).
  assert (E0 : (len k =? 0) = false) by (apply N.eqb_neq; exact Hne).
  destruct (A k) as [a|] eqn:EA.
  - destruct (RelK_raw_head _ _ _ _ _ HK) as [r Hr].
    apply (step_read n used M A (KType k) ver now (DType (kind a))); auto.
    + cbn [dt_cmd]. unfold dt_type. rewrite E0. rewrite m_get_lk by exact Hne. rewrite Hr. reflexivity.
    + cbn [a_cmd cmd_key snd]. rewrite EA. reflexivity.
  - cbn [RelK] in HK.
    apply (step_read n used M A (KType k) ver now DNotFound); auto.
    + cbn [dt_cmd]. unfold dt_type. rewrite E0. rewrite m_get_lk by exact Hne. rewrite HK. reflexivity.
    + cbn [a_cmd cmd_key snd]. rewrite EA. reflexivity.
Qed.

Lemma step_wrong n used M A c a dt ver now :
  Rel n used M A -> U (cmd_key c) -> V ver -> cmd_dt c = Some dt -> A (cmd_key c) = Some a -> kind a <> dt ->
  step_ok n used M A c ver now.
Proof.
  intros HR Hk Hv Hd HA Hne. pose proof HR as (_ & _ & HK & _). specialize (HK _ Hk). rewrite HA in HK.
  destruct (cmd_wrong_type n used M A c a dt ver now Hd (U_nonempty _ Hk) HA HK Hne) as [H1 H2].
  apply (step_read n used M A c ver now DWrongType); auto; rewrite H2; reflexivity.
Qed.

(* ---- hashes ---------------------------------------------------------------------------------------------------- *)
Lemma wf_fresh dt ver : V ver -> wf_meta (fresh_meta dt ver).
Proof.
  intros Hv. pose proof (V_bound ver Hv). unfold fresh_meta, wf_meta, initialListMark.
  destruct (dt =? ty_List) eqn:E; cbn [m_expire m_version m_size m_head m_tail m_type].
  - apply N.eqb_eq in E. repeat split; try lia; try reflexivity; try contradiction.
  - repeat split; try lia; reflexivity.
Qed.
Lemma wf_with_size m s : wf_meta m -> s < 2 ^ 63 -> wf_meta (with_size m s).
Proof. intros (H1 & H2 & H3 & H4 & H5 & H6) Hs. unfold wf_meta, with_size. cbn. repeat split; auto; apply H6; assumption. Qed.

Lemma step_hset n used M A k f v ver now :
  Rel n used M A -> U k -> V ver -> ~ In ver used -> n + 1 < 2 ^ 63 -> step_ok n used M A (KHSet k f v) ver now.
Proof.
  intros HR Hk Hv Hfr Hn. pose proof (U_nonempty k Hk) as Hne. pose proof HR as (Hs & HV & HK & HG). specialize (HK k Hk).
  destruct (A k) as [a|] eqn:EA.
  - destruct a as [sv ex|h|s|l|z];
      try (apply (step_wrong n used M A (KHSet k f v) _ ty_Hash ver now HR Hk Hv eq_refl EA); cbn [kind]; discriminate).
    cbn [RelK] in HK. destruct HK as (m & Hl & Hw & Ht & He & Hu & Hsz & Hsh & Hlen & Hel). cbn [kind] in Ht.
    destruct (amap_get h f) as [old|] eqn:Eg.
    + (* existing field: overwritten, size unchanged *)
      apply (step_from n used M A (KHSet k f v) ver now (DBool false) (PBatch [WPut (ikey k (m_version m) f) v])
               (Some (AHash (fst (amap_put h f v))))); auto.
      * cbn [dt_cmd]. unfold dt_hset. rewrite (find_hit M k m ty_Hash ver now Hne Hl Hw He Ht).
        change (hash_key k (m_version m) f) with (ikey k (m_version m) f).
        rewrite m_get_lk by apply ikey_len. rewrite Hel, Eg. reflexivity.
      * constructor; [right; exists (m_version m), f; split; [right; exact Hu|reflexivity]|constructor].
      * intros x. cbn [a_cmd fst cmd_key]. rewrite EA. reflexivity.
      * cbn [a_cmd snd]. rewrite EA. unfold mem. rewrite Eg. reflexivity.
      * intros M' HM'. cbn [RelK plan_ws cmd_key]. exists m.
        assert (Hlk : forall x, lk M' x = if bytes_eqb x (ikey k (m_version m) f) then Some v else lk M x).
        { intros x. rewrite HM'. reflexivity. }
        split; [rewrite Hlk, beq_self_ikey; exact Hl|]. split; [exact Hw|]. split; [exact Ht|]. split; [exact He|].
        split; [right; exact Hu|]. split; [lia|]. cbn [elems].
        split; [apply amap_put_sorted; exact Hsh|]. split; [rewrite amap_put_len by exact Hsh; rewrite Eg; exact Hlen|].
        intros f'. rewrite Hlk, beq_ikey, amap_get_put. destruct (bytes_eqb f' f); [reflexivity|apply Hel].
    + (* new field *)
      set (m' := with_size m (m_size m + 1)).
      apply (step_from n used M A (KHSet k f v) ver now (DBool true)
               (PBatch [WPut k (enc_meta m'); WPut (ikey k (m_version m) f) v]) (Some (AHash (fst (amap_put h f v))))); auto.
      * cbn [dt_cmd]. unfold dt_hset. rewrite (find_hit M k m ty_Hash ver now Hne Hl Hw He Ht).
        change (hash_key k (m_version m) f) with (ikey k (m_version m) f).
        rewrite m_get_lk by apply ikey_len. rewrite Hel, Eg. reflexivity.
      * constructor; [left; reflexivity|]. constructor; [right; exists (m_version m), f; split; [right; exact Hu|reflexivity]|constructor].
      * intros x. cbn [a_cmd fst cmd_key]. rewrite EA. reflexivity.
      * cbn [a_cmd snd]. rewrite EA. unfold mem. rewrite Eg. reflexivity.
      * intros M' HM'. cbn [RelK plan_ws cmd_key]. exists m'.
        assert (Hlk : forall x, lk M' x = if bytes_eqb x (ikey k (m_version m) f) then Some v else if bytes_eqb x k then Some (enc_meta m') else lk M x).
        { intros x. rewrite HM'. reflexivity. }
        split; [rewrite Hlk, beq_self_ikey, bytes_eqb_refl; reflexivity|].
        split; [apply wf_with_size; [exact Hw|lia]|]. split; [exact Ht|]. split; [exact He|].
        split; [right; exact Hu|]. split; [cbn; lia|]. cbn [elems].
        split; [apply amap_put_sorted; exact Hsh|]. split; [rewrite amap_put_len by exact Hsh; rewrite Eg; cbn; lia|].
        intros f'. change (m_version m') with (m_version m). rewrite Hlk, beq_ikey, beq_ikey_self, amap_get_put.
        destruct (bytes_eqb f' f); [reflexivity|apply Hel].
  - (* the key does not exist: created under the fresh version *)
    cbn [RelK] in HK.
    set (m' := with_size (fresh_meta ty_Hash ver) 1).
    assert (Hfe : forall y, lk M (ikey k ver y) = None) by (intros y; apply (fresh_empty used M k ver y HG Hk Hv HV Hfr)).
    apply (step_from n used M A (KHSet k f v) ver now (DBool true)
             (PBatch [WPut k (enc_meta m'); WPut (ikey k ver f) v]) (Some (AHash [(f, v)]))); auto.
    + cbn [dt_cmd]. unfold dt_hset. rewrite (find_fresh M k ty_Hash ver now Hne HK).
      change (hash_key k (m_version (fresh_meta ty_Hash ver)) f) with (ikey k ver f).
      rewrite m_get_lk by apply ikey_len. rewrite Hfe. reflexivity.
    + constructor; [left; reflexivity|]. constructor; [right; exists ver, f; split; [left; reflexivity|reflexivity]|constructor].
    + intros x. cbn [a_cmd fst cmd_key]. rewrite EA. reflexivity.
    + cbn [a_cmd snd]. rewrite EA. reflexivity.
    + intros M' HM'. cbn [RelK plan_ws cmd_key]. exists m'.
      assert (Hlk : forall x, lk M' x = if bytes_eqb x (ikey k ver f) then Some v else if bytes_eqb x k then Some (enc_meta m') else lk M x).
      { intros x. rewrite HM'. reflexivity. }
      split; [rewrite Hlk, beq_self_ikey, bytes_eqb_refl; reflexivity|].
      split; [apply wf_with_size; [apply wf_fresh; exact Hv|lia]|]. split; [reflexivity|]. split; [reflexivity|].
      split; [left; reflexivity|]. split; [cbn; lia|]. cbn [elems].
      split; [apply sorted_single|]. split; [reflexivity|].
      intros f'. change (m_version m') with ver. rewrite Hlk, beq_ikey, beq_ikey_self. cbn [amap_get].
      destruct (bytes_eqb f' f); [reflexivity|apply Hfe].
Qed.

Lemma amap_del_absent {W} (h : amap W) f : amap_get h f = None -> fst (amap_del h f) = h.
Proof.
  induction h as [|[k' v'] h IH]; cbn [amap_get amap_del]; [reflexivity|].
  destruct (bytes_eqb f k'); [discriminate|]. intros H. specialize (IH H). destruct (amap_del h f) as [r o]. cbn [fst] in *. rewrite IH. reflexivity.
Qed.

Lemma aupd_same A k a : A k = Some a -> forall x, aupd A k (Some a) x = A x.
Proof. intros H x. unfold aupd. destruct (bytes_eqb x k) eqn:E; [apply bytes_eqb_eq in E; subst; symmetry; exact H|reflexivity]. Qed.

Lemma step_hget n used M A k f ver now :
  Rel n used M A -> U k -> V ver -> step_ok n used M A (KHGet k f) ver now.
Proof.
  intros HR Hk Hv. pose proof (U_nonempty k Hk) as Hne. pose proof HR as (Hs & HV & HK & HG). specialize (HK k Hk).
  destruct (A k) as [a|] eqn:EA.
  - destruct a as [sv ex|h|s|l|z];
      try (apply (step_wrong n used M A (KHGet k f) _ ty_Hash ver now HR Hk Hv eq_refl EA); cbn [kind]; discriminate).
    cbn [RelK] in HK. destruct HK as (m & Hl & Hw & Ht & He & Hu & Hsz & Hsh & Hlen & Hel). cbn [kind] in Ht.
    destruct (m_size m =? 0) eqn:E0.
    + apply N.eqb_eq in E0. assert (Hnone : amap_get h f = None) by (apply amap_len0_get; lia).
      apply (step_read n used M A (KHGet k f) ver now DNil); auto.
      * cbn [dt_cmd]. unfold dt_hget. rewrite (find_hit M k m ty_Hash ver now Hne Hl Hw He Ht).
        assert (E1 : (m_size m =? 0) = true) by (apply N.eqb_eq; exact E0). rewrite E1. reflexivity.
      * cbn [a_cmd snd]. rewrite EA, Hnone. reflexivity.
    + apply (step_read n used M A (KHGet k f) ver now (match amap_get h f with Some x => DBytes x | None => DNotFound end)); auto.
      * cbn [dt_cmd]. unfold dt_hget. rewrite (find_hit M k m ty_Hash ver now Hne Hl Hw He Ht). rewrite E0.
        change (hash_key k (m_version m) f) with (ikey k (m_version m) f).
        rewrite m_get_lk by apply ikey_len. rewrite Hel. reflexivity.
      * cbn [a_cmd snd]. rewrite EA. destruct (amap_get h f); reflexivity.
  - cbn [RelK] in HK.
    apply (step_read n used M A (KHGet k f) ver now DNil); auto.
    + cbn [dt_cmd]. unfold dt_hget. rewrite (find_fresh M k ty_Hash ver now Hne HK). reflexivity.
    + cbn [a_cmd snd]. rewrite EA. reflexivity.
Qed.

Lemma step_hdel n used M A k f ver now :
  Rel n used M A -> U k -> V ver -> step_ok n used M A (KHDel k f) ver now.
Proof.
  intros HR Hk Hv. pose proof (U_nonempty k Hk) as Hne. pose proof HR as (Hs & HV & HK & HG). specialize (HK k Hk).
  destruct (A k) as [a|] eqn:EA.
  - destruct a as [sv ex|h|s|l|z];
      try (apply (step_wrong n used M A (KHDel k f) _ ty_Hash ver now HR Hk Hv eq_refl EA); cbn [kind]; discriminate).
    cbn [RelK] in HK. destruct HK as (m & Hl & Hw & Ht & He & Hu & Hsz & Hsh & Hlen & Hel). cbn [kind] in Ht.
    destruct (amap_get h f) as [old|] eqn:Eg.
    + (* present *)
      assert (Hpos : 0 < m_size m) by (rewrite Hlen; eapply amap_get_some_len; exact Eg).
      assert (E0 : (m_size m =? 0) = false) by (apply N.eqb_neq; lia).
      set (m' := with_size m (m_size m - 1)).
      apply (step_from n used M A (KHDel k f) ver now (DBool true)
               (PBatch [WPut k (enc_meta m'); WDel (ikey k (m_version m) f)]) (Some (AHash (fst (amap_del h f))))); auto.
      * cbn [dt_cmd]. unfold dt_hdel. rewrite (find_hit M k m ty_Hash ver now Hne Hl Hw He Ht). rewrite E0.
        change (hash_key k (m_version m) f) with (ikey k (m_version m) f).
        rewrite m_get_lk by apply ikey_len. rewrite Hel, Eg. reflexivity.
      * constructor; [left; reflexivity|]. constructor; [right; exists (m_version m), f; split; [right; exact Hu|reflexivity]|constructor].
      * intros x. cbn [a_cmd fst cmd_key]. rewrite EA. reflexivity.
      * cbn [a_cmd snd]. rewrite EA. unfold mem. rewrite Eg. reflexivity.
      * intros M' HM'. cbn [RelK plan_ws cmd_key]. exists m'.
        assert (Hlk : forall x, lk M' x = if bytes_eqb x (ikey k (m_version m) f) then None else if bytes_eqb x k then Some (enc_meta m') else lk M x).
        { intros x. rewrite HM'. reflexivity. }
        split; [rewrite Hlk, beq_self_ikey, bytes_eqb_refl; reflexivity|].
        split; [apply wf_with_size; [exact Hw|destruct Hw as (_ & _ & Hw3 & _); lia]|]. split; [exact Ht|]. split; [exact He|].
        split; [right; exact Hu|]. split; [cbn; lia|]. cbn [elems].
        split; [apply amap_del_sorted; exact Hsh|]. split; [rewrite amap_del_len; rewrite Eg; cbn; lia|].
        intros f'. change (m_version m') with (m_version m). rewrite Hlk, beq_ikey, beq_ikey_self, amap_get_del by exact Hsh.
        destruct (bytes_eqb f' f); [reflexivity|apply Hel].
    + (* absent: nothing happens *)
      apply (step_read n used M A (KHDel k f) ver now (DBool false)); auto.
      * cbn [dt_cmd]. unfold dt_hdel. rewrite (find_hit M k m ty_Hash ver now Hne Hl Hw He Ht).
        destruct (m_size m =? 0); [reflexivity|].
        change (hash_key k (m_version m) f) with (ikey k (m_version m) f).
        rewrite m_get_lk by apply ikey_len. rewrite Hel, Eg. reflexivity.
      * cbn [a_cmd fst]. rewrite EA. cbn [fst]. rewrite (amap_del_absent h f Eg). apply aupd_same. exact EA.
      * cbn [a_cmd snd]. rewrite EA. unfold mem. rewrite Eg. reflexivity.
  - cbn [RelK] in HK.
    apply (step_read n used M A (KHDel k f) ver now (DBool false)); auto.
    + cbn [dt_cmd]. unfold dt_hdel. rewrite (find_fresh M k ty_Hash ver now Hne HK). reflexivity.
    + cbn [a_cmd fst]. rewrite EA. reflexivity.
    + cbn [a_cmd snd]. rewrite EA. reflexivity.
Qed.

(* ---- sets -------------------------------------------------------------------------------------------------------- *)
Lemma amap_put_same_val {W} (h : amap W) x v : sorted h -> amap_get h x = Some v -> fst (amap_put h x v) = h.
Proof.
  induction h as [|[k' v'] h IH]; intros Hs; cbn [amap_get amap_put]; [discriminate|].
  destruct (sorted_inv _ _ Hs) as [Hs' Hlt].
  destruct (bytes_eqb x k') eqn:E.
  - intros [= ->]. apply bytes_eqb_eq in E. subst. reflexivity.
  - intros Hg. destruct (bytes_ltb x k') eqn:El.
    + exfalso. assert (Hn : amap_get h x = None).
      { apply get_none_of_lt; [exact Hs'|]. eapply Forall_impl; [|exact Hlt]. intros e He. unfold key_lt in He. cbn [fst] in He.
        eapply bytes_ltb_trans; eassumption. }
      congruence.
    + specialize (IH Hs' Hg). destruct (amap_put h x v) as [r o]. cbn [fst] in *. rewrite IH. reflexivity.
Qed.

Definition skey (k : bytes) (ver : N) (x : bytes) : bytes := ikey k ver (x ++ le32 (len x)).
Lemma beq_skey k v x x' : bytes_eqb (skey k v x) (skey k v x') = bytes_eqb x x'.
Proof. unfold skey. rewrite beq_ikey. apply beq_suffix. Qed.

Lemma step_sadd n used M A k x ver now :
  Rel n used M A -> U k -> V ver -> ~ In ver used -> n + 1 < 2 ^ 63 -> step_ok n used M A (KSAdd k x) ver now.
Proof.
  intros HR Hk Hv Hfr Hn. pose proof (U_nonempty k Hk) as Hne. pose proof HR as (Hs & HV & HK & HG). specialize (HK k Hk).
  destruct (A k) as [a|] eqn:EA.
  - destruct a as [sv ex|h|s|l|z];
      try (apply (step_wrong n used M A (KSAdd k x) _ ty_Set ver now HR Hk Hv eq_refl EA); cbn [kind]; discriminate).
    cbn [RelK] in HK. destruct HK as (m & Hl & Hw & Ht & He & Hu & Hsz & Hsh & Hlen & Hval & Hel). cbn [kind] in Ht.
    destruct (amap_get s x) as [old|] eqn:Eg.
    + (* already a member *)
      pose proof (Hval x old Eg) as ->.
      apply (step_read n used M A (KSAdd k x) ver now (DBool false)); auto.
      * cbn [dt_cmd]. unfold dt_sadd. rewrite (find_hit M k m ty_Set ver now Hne Hl Hw He Ht).
        change (set_key k (m_version m) x) with (skey k (m_version m) x).
        rewrite m_get_lk by apply ikey_len. unfold skey. rewrite Hel, Eg. reflexivity.
      * cbn [a_cmd fst]. rewrite EA. cbn [fst]. rewrite (amap_put_same_val s x [] Hsh Eg). apply aupd_same. exact EA.
      * cbn [a_cmd snd]. rewrite EA. unfold mem. rewrite Eg. reflexivity.
    + set (m' := with_size m (m_size m + 1)).
      apply (step_from n used M A (KSAdd k x) ver now (DBool true)
               (PBatch [WPut k (enc_meta m'); WPut (skey k (m_version m) x) []]) (Some (ASet (fst (amap_put s x []))))); auto.
      * cbn [dt_cmd]. unfold dt_sadd. rewrite (find_hit M k m ty_Set ver now Hne Hl Hw He Ht).
        change (set_key k (m_version m) x) with (skey k (m_version m) x).
        rewrite m_get_lk by apply ikey_len. unfold skey. rewrite Hel, Eg. reflexivity.
      * constructor; [left; reflexivity|]. constructor; [right; exists (m_version m), (x ++ le32 (len x)); split; [right; exact Hu|reflexivity]|constructor].
      * intros y. cbn [a_cmd fst cmd_key]. rewrite EA. reflexivity.
      * cbn [a_cmd snd]. rewrite EA. unfold mem. rewrite Eg. reflexivity.
      * intros M' HM'. cbn [RelK plan_ws cmd_key]. exists m'.
        assert (Hlk : forall y, lk M' y = if bytes_eqb y (skey k (m_version m) x) then Some [] else if bytes_eqb y k then Some (enc_meta m') else lk M y).
        { intros y. rewrite HM'. reflexivity. }
        split; [rewrite Hlk; unfold skey; rewrite beq_self_ikey, bytes_eqb_refl; reflexivity|].
        split; [apply wf_with_size; [exact Hw|lia]|]. split; [exact Ht|]. split; [exact He|].
        split; [right; exact Hu|]. split; [cbn; lia|]. cbn [elems].
        split; [apply amap_put_sorted; exact Hsh|]. split; [rewrite amap_put_len by exact Hsh; rewrite Eg; cbn; lia|].
        split.
        { intros y w. rewrite amap_get_put. destruct (bytes_eqb y x); [intros [= <-]; reflexivity|apply Hval]. }
        intros y. change (m_version m') with (m_version m). change (ikey k (m_version m) (y ++ le32 (len y))) with (skey k (m_version m) y).
        rewrite Hlk, beq_skey. unfold skey at 1. rewrite beq_ikey_self, amap_get_put.
        destruct (bytes_eqb y x); [reflexivity|apply Hel].
  - cbn [RelK] in HK.
    set (m' := with_size (fresh_meta ty_Set ver) 1).
    assert (Hfe : forall y, lk M (ikey k ver y) = None) by (intros y; apply (fresh_empty used M k ver y HG Hk Hv HV Hfr)).
    apply (step_from n used M A (KSAdd k x) ver now (DBool true)
             (PBatch [WPut k (enc_meta m'); WPut (skey k ver x) []]) (Some (ASet [(x, [])]))); auto.
    + cbn [dt_cmd]. unfold dt_sadd. rewrite (find_fresh M k ty_Set ver now Hne HK).
      change (set_key k (m_version (fresh_meta ty_Set ver)) x) with (skey k ver x).
      rewrite m_get_lk by apply ikey_len. unfold skey. rewrite Hfe. reflexivity.
    + constructor; [left; reflexivity|]. constructor; [right; exists ver, (x ++ le32 (len x)); split; [left; reflexivity|reflexivity]|constructor].
    + intros y. cbn [a_cmd fst cmd_key]. rewrite EA. reflexivity.
    + cbn [a_cmd snd]. rewrite EA. reflexivity.
    + intros M' HM'. cbn [RelK plan_ws cmd_key]. exists m'.
      assert (Hlk : forall y, lk M' y = if bytes_eqb y (skey k ver x) then Some [] else if bytes_eqb y k then Some (enc_meta m') else lk M y).
      { intros y. rewrite HM'. reflexivity. }
      split; [rewrite Hlk; unfold skey; rewrite beq_self_ikey, bytes_eqb_refl; reflexivity|].
      split; [apply wf_with_size; [apply wf_fresh; exact Hv|lia]|]. split; [reflexivity|]. split; [reflexivity|].
      split; [left; reflexivity|]. split; [cbn; lia|]. cbn [elems].
      split; [apply sorted_single|]. split; [reflexivity|].
      split.
      { intros y w. cbn [amap_get]. destruct (bytes_eqb y x); [intros [= <-]; reflexivity|discriminate]. }
      intros y. change (m_version m') with ver. change (ikey k ver (y ++ le32 (len y))) with (skey k ver y).
      rewrite Hlk, beq_skey. unfold skey at 1. rewrite beq_ikey_self. cbn [amap_get].
      destruct (bytes_eqb y x); [reflexivity|apply Hfe].
Qed.

Lemma step_sismember n used M A k x ver now :
  Rel n used M A -> U k -> V ver -> step_ok n used M A (KSIsMember k x) ver now.
Proof.
  intros HR Hk Hv. pose proof (U_nonempty k Hk) as Hne. pose proof HR as (Hs & HV & HK & HG). specialize (HK k Hk).
  destruct (A k) as [a|] eqn:EA.
  - destruct a as [sv ex|h|s|l|z];
      try (apply (step_wrong n used M A (KSIsMember k x) _ ty_Set ver now HR Hk Hv eq_refl EA); cbn [kind]; discriminate).
    cbn [RelK] in HK. destruct HK as (m & Hl & Hw & Ht & He & Hu & Hsz & Hsh & Hlen & Hval & Hel). cbn [kind] in Ht.
    apply (step_read n used M A (KSIsMember k x) ver now (DBool (mem s x))); auto.
    + cbn [dt_cmd]. unfold dt_sismember. rewrite (find_hit M k m ty_Set ver now Hne Hl Hw He Ht).
      destruct (m_size m =? 0) eqn:E0.
      * apply N.eqb_eq in E0. unfold mem. rewrite (amap_len0_get s x) by lia. reflexivity.
      * change (set_key k (m_version m) x) with (skey k (m_version m) x).
        rewrite m_get_lk by apply ikey_len. unfold skey. rewrite Hel. unfold mem. destruct (amap_get s x); reflexivity.
    + cbn [a_cmd snd]. rewrite EA. reflexivity.
  - cbn [RelK] in HK.
    apply (step_read n used M A (KSIsMember k x) ver now (DBool false)); auto.
    + cbn [dt_cmd]. unfold dt_sismember. rewrite (find_fresh M k ty_Set ver now Hne HK). reflexivity.
    + cbn [a_cmd snd]. rewrite EA. reflexivity.
Qed.

Lemma step_srem n used M A k x ver now :
  Rel n used M A -> U k -> V ver -> step_ok n used M A (KSRem k x) ver now.
Proof.
  intros HR Hk Hv. pose proof (U_nonempty k Hk) as Hne. pose proof HR as (Hs & HV & HK & HG). specialize (HK k Hk).
  destruct (A k) as [a|] eqn:EA.
  - destruct a as [sv ex|h|s|l|z];
      try (apply (step_wrong n used M A (KSRem k x) _ ty_Set ver now HR Hk Hv eq_refl EA); cbn [kind]; discriminate).
    cbn [RelK] in HK. destruct HK as (m & Hl & Hw & Ht & He & Hu & Hsz & Hsh & Hlen & Hval & Hel). cbn [kind] in Ht.
    destruct (amap_get s x) as [old|] eqn:Eg.
    + assert (Hpos : 0 < m_size m) by (rewrite Hlen; eapply amap_get_some_len; exact Eg).
      assert (E0 : (m_size m =? 0) = false) by (apply N.eqb_neq; lia).
      set (m' := with_size m (m_size m - 1)).
      apply (step_from n used M A (KSRem k x) ver now (DBool true)
               (PBatch [WPut k (enc_meta m'); WDel (skey k (m_version m) x)]) (Some (ASet (fst (amap_del s x))))); auto.
      * cbn [dt_cmd]. unfold dt_srem. rewrite (find_hit M k m ty_Set ver now Hne Hl Hw He Ht). rewrite E0.
        change (set_key k (m_version m) x) with (skey k (m_version m) x).
        rewrite m_get_lk by apply ikey_len. unfold skey. rewrite Hel, Eg. reflexivity.
      * constructor; [left; reflexivity|]. constructor; [right; exists (m_version m), (x ++ le32 (len x)); split; [right; exact Hu|reflexivity]|constructor].
      * intros y. cbn [a_cmd fst cmd_key]. rewrite EA. reflexivity.
      * cbn [a_cmd snd]. rewrite EA. unfold mem. rewrite Eg. reflexivity.
      * intros M' HM'. cbn [RelK plan_ws cmd_key]. exists m'.
        assert (Hlk : forall y, lk M' y = if bytes_eqb y (skey k (m_version m) x) then None else if bytes_eqb y k then Some (enc_meta m') else lk M y).
        { intros y. rewrite HM'. reflexivity. }
        split; [rewrite Hlk; unfold skey; rewrite beq_self_ikey, bytes_eqb_refl; reflexivity|].
        split; [apply wf_with_size; [exact Hw|destruct Hw as (_ & _ & Hw3 & _); lia]|]. split; [exact Ht|]. split; [exact He|].
        split; [right; exact Hu|]. split; [cbn; lia|]. cbn [elems].
        split; [apply amap_del_sorted; exact Hsh|]. split; [rewrite amap_del_len; rewrite Eg; cbn; lia|].
        split.
        { intros y w. rewrite amap_get_del by exact Hsh. destruct (bytes_eqb y x); [discriminate|apply Hval]. }
        intros y. change (m_version m') with (m_version m). change (ikey k (m_version m) (y ++ le32 (len y))) with (skey k (m_version m) y).
        rewrite Hlk, beq_skey. unfold skey at 1. rewrite beq_ikey_self, amap_get_del by exact Hsh.
        destruct (bytes_eqb y x); [reflexivity|apply Hel].
    + apply (step_read n used M A (KSRem k x) ver now (DBool false)); auto.
      * cbn [dt_cmd]. unfold dt_srem. rewrite (find_hit M k m ty_Set ver now Hne Hl Hw He Ht).
        destruct (m_size m =? 0); [reflexivity|].
        change (set_key k (m_version m) x) with (skey k (m_version m) x).
        rewrite m_get_lk by apply ikey_len. unfold skey. rewrite Hel, Eg. reflexivity.
      * cbn [a_cmd fst]. rewrite EA. cbn [fst]. rewrite (amap_del_absent s x Eg). apply aupd_same. exact EA.
      * cbn [a_cmd snd]. rewrite EA. unfold mem. rewrite Eg. reflexivity.
  - cbn [RelK] in HK.
    apply (step_read n used M A (KSRem k x) ver now (DBool false)); auto.
    + cbn [dt_cmd]. unfold dt_srem. rewrite (find_fresh M k ty_Set ver now Hne HK). reflexivity.
    + cbn [a_cmd fst]. rewrite EA. reflexivity.
    + cbn [a_cmd snd]. rewrite EA. reflexivity.
Qed.

(* ---- lists -------------------------------------------------------------------------------------------------------- *)
Ltac Zify.zify_post_hook ::= Z.div_mod_to_equations.

Definition lkey (k : bytes) (ver : N) (i : N) : bytes := ikey k ver (le64 i).
Lemma wrap64_lt x : wrap64 x < 2 ^ 64.
Proof. unfold wrap64. change (2 ^ 64) with 18446744073709551616. apply N.mod_lt. lia. Qed.
Lemma beq_lkey k v a b : a < 2 ^ 64 -> b < 2 ^ 64 -> bytes_eqb (lkey k v a) (lkey k v b) = (a =? b).
Proof. intros Ha Hb. unfold lkey. rewrite beq_ikey. apply beq_le64; assumption. Qed.

Lemma nth_error_len {T} (l : list T) i : len l <= i -> nth_error l (N.to_nat i) = None.
Proof. intros H. apply nth_error_None. rewrite len_length in H. lia. Qed.

(* the common part of LPush / RPush on the current list l held under metadata m *)
Lemma push_core n used M A k e lft ver now m l b :
  Rel n used M A -> U k -> V ver -> n + 1 < 2 ^ 63 ->
  find smap m_get M k ty_List ver now = (M, FmMeta m b) ->
  wf_meta m -> m_type m = ty_List -> m_expire m = 0 -> (m_version m = ver \/ In (m_version m) used) -> m_size m <= n ->
  elems M k m (AList l) ->
  ((A k = None /\ l = []) \/ A k = Some (AList l)) ->
  step_ok n used M A (KPush k e lft) ver now.
Proof.
  intros HR Hk Hv Hn Hfind Hw Ht He Hu Hsz (Hlen & Htail & Hel) HA.
  pose proof (U_nonempty k Hk) as Hne.
  destruct Hw as (Hw1 & Hw2 & Hw3 & Hw4 & Hw5 & Hw6).
  set (idx := if lft then wrap64 (m_head m + 18446744073709551615) else m_tail m).
  set (m' := if lft then mkMeta (m_type m) (m_expire m) (m_version m) (m_size m + 1) idx (m_tail m)
             else mkMeta (m_type m) (m_expire m) (m_version m) (m_size m + 1) (m_head m) (wrap64 (m_tail m + 1))).
  set (l' := if lft then e :: l else l ++ [e]).
  assert (Hidx : idx < 2 ^ 64) by (unfold idx; destruct lft; [apply wrap64_lt|exact Hw5]).
  apply (step_from n used M A (KPush k e lft) ver now (DSize (m_size m + 1))
           (PBatch [WPut k (enc_meta m'); WPut (lkey k (m_version m) idx) e]) (Some (AList l'))); auto.
  - cbn [dt_cmd]. unfold dt_push. rewrite Hfind. reflexivity.
  - constructor; [left; reflexivity|]. constructor; [right; exists (m_version m), (le64 idx); split; [exact Hu|reflexivity]|constructor].
  - intros x. cbn [a_cmd fst cmd_key]. destruct HA as [[HA ->]|HA]; rewrite HA; unfold l'; destruct lft; reflexivity.
  - cbn [a_cmd snd canon]. destruct HA as [[HA ->]|HA]; rewrite HA; cbn [snd]; rewrite Hlen; reflexivity.
  - intros M' HM'. cbn [RelK plan_ws cmd_key]. exists m'.
    assert (Hlk : forall x, lk M' x = if bytes_eqb x (lkey k (m_version m) idx) then Some e else if bytes_eqb x k then Some (enc_meta m') else lk M x).
    { intros x. rewrite HM'. reflexivity. }
    assert (Hv' : m_version m' = m_version m) by (unfold m'; destruct lft; reflexivity).
    assert (Hsz' : m_size m' = m_size m + 1) by (unfold m'; destruct lft; reflexivity).
    assert (Hl' : len l' = len l + 1) by (unfold l'; destruct lft; [rewrite len_cons|rewrite len_app]; reflexivity).
    split; [rewrite Hlk; unfold lkey; rewrite beq_self_ikey, bytes_eqb_refl; reflexivity|].
    split.
    { unfold m', wf_meta. destruct lft; cbn [m_expire m_version m_size m_head m_tail m_type];
      (repeat split; try assumption; try lia; try apply wrap64_lt); intros Hc; contradiction. }
    split; [unfold m'; destruct lft; exact Ht|]. split; [unfold m'; destruct lft; exact He|].
    split; [rewrite Hv'; destruct Hu as [->|Hu]; [left; reflexivity|right; exact Hu]|]. split; [lia|].
    cbn [elems]. rewrite Hv'. split; [lia|].
    assert (Hlt : len l < 2 ^ 63) by lia.
    assert (P64 : 2 ^ 64 = 18446744073709551616) by reflexivity. assert (P63 : 2 ^ 63 = 9223372036854775808) by reflexivity.
    split.
    { unfold m', idx. destruct lft; cbn [m_head m_tail]; rewrite Hl', Htail; unfold wrap64; lia. }
    intros i Hi. change (ikey k (m_version m) (le64 (wrap64 (m_head m' + i)))) with (lkey k (m_version m) (wrap64 (m_head m' + i))).
    rewrite Hlk. rewrite beq_lkey by (try apply wrap64_lt; exact Hidx). unfold lkey at 1. rewrite beq_ikey_self.
    unfold m', idx, l' in *. destruct lft; cbn [m_head m_tail] in *.
    + destruct (i =? 0) eqn:Ei.
      * apply N.eqb_eq in Ei. subst i. rewrite N.add_0_r.
        assert (E : (wrap64 (wrap64 (m_head m + 18446744073709551615)) =? wrap64 (m_head m + 18446744073709551615)) = true).
        { apply N.eqb_eq. unfold wrap64. rewrite N.mod_mod by lia. reflexivity. }
        rewrite E. reflexivity.
      * apply N.eqb_neq in Ei.
        assert (E : (wrap64 (wrap64 (m_head m + 18446744073709551615) + i) =? wrap64 (m_head m + 18446744073709551615)) = false).
        { apply N.eqb_neq. unfold wrap64. lia. }
        rewrite E.
        assert (E2 : wrap64 (wrap64 (m_head m + 18446744073709551615) + i) = wrap64 (m_head m + (i - 1))) by (unfold wrap64; lia).
        rewrite E2. change (ikey k (m_version m) (le64 (wrap64 (m_head m + (i - 1))))) with (lkey k (m_version m) (wrap64 (m_head m + (i - 1)))).
        unfold lkey. rewrite Hel by lia.
        replace (N.to_nat i) with (S (N.to_nat (i - 1))) by lia. reflexivity.
    + destruct (i =? len l) eqn:Ei.
      * apply N.eqb_eq in Ei. subst i. rewrite <- Htail.
        assert (E : (m_tail m =? m_tail m) = true) by apply N.eqb_refl. rewrite E.
        rewrite nth_error_app2 by (rewrite len_length; lia). rewrite len_length.
        replace (N.to_nat (N.of_nat (length l)) - length l)%nat with 0%nat by lia. reflexivity.
      * apply N.eqb_neq in Ei.
        assert (E : (wrap64 (m_head m + i) =? m_tail m) = false).
        { apply N.eqb_neq. rewrite Htail. unfold wrap64. lia. }
        rewrite E. unfold lkey. rewrite Hel by lia.
        assert (Hi' : (N.to_nat i < length l)%nat) by (rewrite Hl' in Hi; rewrite len_length in Hi, Ei; clear - Hi Ei; lia).
        rewrite nth_error_app1 by exact Hi'. reflexivity.
Qed.

Lemma step_push n used M A k e lft ver now :
  Rel n used M A -> U k -> V ver -> ~ In ver used -> n + 1 < 2 ^ 63 -> step_ok n used M A (KPush k e lft) ver now.
Proof.
  intros HR Hk Hv Hfr Hn. pose proof (U_nonempty k Hk) as Hne. pose proof HR as (Hs & HV & HK & HG). specialize (HK k Hk).
  destruct (A k) as [a|] eqn:EA.
  - destruct a as [sv ex|h|s|l|z];
      try (apply (step_wrong n used M A (KPush k e lft) _ ty_List ver now HR Hk Hv eq_refl EA); cbn [kind]; discriminate).
    cbn [RelK] in HK. destruct HK as (m & Hl & Hw & Ht & He & Hu & Hsz & Hel). cbn [kind] in Ht.
    apply (push_core n used M A k e lft ver now m l true); auto.
    apply find_hit; assumption.
  - cbn [RelK] in HK.
    apply (push_core n used M A k e lft ver now (fresh_meta ty_List ver) [] false); auto.
    + apply find_fresh; assumption.
    + apply wf_fresh. exact Hv.
    + change (m_size (fresh_meta ty_List ver)) with 0. lia.
    + cbn [elems]. split; [reflexivity|]. split; [reflexivity|]. intros i Hi. change (len (@nil bytes)) with 0 in Hi. lia.
Qed.

Lemma step_pop n used M A k lft ver now :
  Rel n used M A -> U k -> V ver -> n + 1 < 2 ^ 63 -> step_ok n used M A (KPop k lft) ver now.
Proof.
  intros HR Hk Hv Hn. pose proof (U_nonempty k Hk) as Hne. pose proof HR as (Hs & HV & HK & HG). specialize (HK k Hk).
  destruct (A k) as [a|] eqn:EA.
  - destruct a as [sv ex|h|s|l|z];
      try (apply (step_wrong n used M A (KPop k lft) _ ty_List ver now HR Hk Hv eq_refl EA); cbn [kind]; discriminate).
    cbn [RelK] in HK. destruct HK as (m & Hl & Hw & Ht & He & Hu & Hsz & Hlen & Htail & Hel). cbn [kind] in Ht.
    pose proof Hw as (Hw1 & Hw2 & Hw3 & Hw4 & Hw5 & Hw6).
    assert (P64 : 2 ^ 64 = 18446744073709551616) by reflexivity. assert (P63 : 2 ^ 63 = 9223372036854775808) by reflexivity.
    destruct l as [|x r].
    + apply (step_read n used M A (KPop k lft) ver now DNil); auto.
      * cbn [dt_cmd]. unfold dt_pop. rewrite (find_hit M k m ty_List ver now Hne Hl Hw He Ht).
        assert (E1 : (m_size m =? 0) = true) by (apply N.eqb_eq; exact Hlen). rewrite E1. reflexivity.
      * cbn [a_cmd fst]. rewrite EA. reflexivity.
      * cbn [a_cmd snd]. rewrite EA. reflexivity.
    + set (l := x :: r) in *.
      assert (Hpos : 0 < len l) by (unfold l; rewrite len_cons; lia).
      assert (E0 : (m_size m =? 0) = false) by (apply N.eqb_neq; lia).
      set (idx := if lft then m_head m else wrap64 (m_tail m + 18446744073709551615)).
      set (m' := if lft then mkMeta (m_type m) (m_expire m) (m_version m) (m_size m - 1) (wrap64 (m_head m + 1)) (m_tail m)
                 else mkMeta (m_type m) (m_expire m) (m_version m) (m_size m - 1) (m_head m) idx).
      set (l' := if lft then r else removelast l).
      set (out := if lft then x else last l []).
      assert (Hsplit : l = removelast l ++ [last l []]) by (apply app_removelast_last; unfold l; discriminate).
      assert (Hrl : len (removelast l) = len l - 1).
      { apply (f_equal (@len _)) in Hsplit. rewrite len_app in Hsplit. change (len [last l []]) with 1 in Hsplit. lia. }
      assert (Hidx : lk M (lkey k (m_version m) idx) = Some out).
      { unfold idx, out. destruct lft.
        - pose proof (Hel 0 Hpos) as H0. rewrite N.add_0_r in H0. unfold wrap64 in H0. rewrite N.mod_small in H0 by lia. exact H0.
        - pose proof (Hel (len l - 1) ltac:(lia)) as H0.
          assert (E : wrap64 (m_head m + (len l - 1)) = wrap64 (m_tail m + 18446744073709551615)) by (rewrite Htail; unfold wrap64; lia).
          rewrite E in H0. unfold lkey. rewrite H0. rewrite Hsplit at 1.
          rewrite nth_error_app2 by (rewrite len_length in Hrl; lia).
          replace (N.to_nat (len l - 1) - length (removelast l))%nat with 0%nat by (rewrite len_length in Hrl; lia). reflexivity. }
      apply (step_from n used M A (KPop k lft) ver now (DBytes out) (PPut k (enc_meta m')) (Some (AList l'))); auto.
      * cbn [dt_cmd]. unfold dt_pop. rewrite (find_hit M k m ty_List ver now Hne Hl Hw He Ht). rewrite E0.
        change (list_key k (m_version m) (if lft then m_head m else wrap64 (m_tail m + 18446744073709551615))) with (lkey k (m_version m) idx).
        rewrite m_get_lk by apply ikey_len. rewrite Hidx. reflexivity.
      * constructor; [left; reflexivity|constructor].
      * intros y. cbn [a_cmd fst cmd_key]. rewrite EA. unfold l', l. destruct lft; reflexivity.
      * cbn [a_cmd snd]. rewrite EA. unfold out, l. destruct lft; reflexivity.
      * intros M' HM'. cbn [RelK plan_ws cmd_key]. exists m'.
        assert (Hlk : forall y, lk M' y = if bytes_eqb y k then Some (enc_meta m') else lk M y).
        { intros y. rewrite HM'. reflexivity. }
        assert (Hv' : m_version m' = m_version m) by (unfold m'; destruct lft; reflexivity).
        assert (Hl' : len l' = len l - 1) by (unfold l'; destruct lft; [unfold l; rewrite len_cons; lia|exact Hrl]).
        split; [rewrite Hlk, bytes_eqb_refl; reflexivity|].
        split.
        { unfold m', idx, wf_meta. destruct lft; cbn [m_expire m_version m_size m_head m_tail m_type];
          (repeat split; try assumption; try lia; try apply wrap64_lt); intros Hc; contradiction. }
        split; [unfold m'; destruct lft; exact Ht|]. split; [unfold m'; destruct lft; exact He|].
        split; [rewrite Hv'; right; exact Hu|]. split; [unfold m'; destruct lft; cbn [m_size]; lia|].
        cbn [elems]. rewrite Hv'. split; [unfold m'; destruct lft; cbn [m_size]; lia|].
        split.
        { unfold m', idx. destruct lft; cbn [m_head m_tail]; rewrite Hl', Htail; unfold wrap64; lia. }
        intros i Hi. rewrite Hlk, beq_ikey_self.
        unfold m', l' in *. destruct lft; cbn [m_head m_tail] in *.
        -- assert (E2 : wrap64 (wrap64 (m_head m + 1) + i) = wrap64 (m_head m + (i + 1))) by (unfold wrap64; lia).
           rewrite E2. rewrite Hel by lia. replace (N.to_nat (i + 1)) with (S (N.to_nat i)) by lia. reflexivity.
        -- rewrite Hel by lia. rewrite Hsplit at 1.
           rewrite nth_error_app1 by (rewrite len_length in Hrl, Hi; lia). reflexivity.
  - cbn [RelK] in HK.
    apply (step_read n used M A (KPop k lft) ver now DNil); auto.
    + cbn [dt_cmd]. unfold dt_pop. rewrite (find_fresh M k ty_List ver now Hne HK). reflexivity.
    + cbn [a_cmd fst]. rewrite EA. reflexivity.
    + cbn [a_cmd snd]. rewrite EA. reflexivity.
Qed.

(* ---- sorted sets ---------------------------------------------------------------------------------------------------- *)
Definition zkey (k : bytes) (ver : N) (sc x : bytes) : bytes := ikey k ver (sc ++ x ++ le32 (len x)).
Lemma beq_member_score k v x' sc x : ZM x' -> ZM x -> ZS sc -> bytes_eqb (ikey k v x') (zkey k v sc x) = false.
Proof.
  intros H1 H2 H3. unfold zkey. rewrite beq_ikey. apply bytes_eqb_neq. apply ZSep; assumption.
Qed.

Lemma step_zadd n used M A k sc x ver now :
  Rel n used M A -> U k -> V ver -> ~ In ver used -> n + 1 < 2 ^ 63 -> ZM x -> ZS sc ->
  step_ok n used M A (KZAdd k sc x) ver now.
Proof.
  intros HR Hk Hv Hfr Hn Hzx Hzs. pose proof (U_nonempty k Hk) as Hne. pose proof HR as (Hs & HV & HK & HG). specialize (HK k Hk).
  destruct (A k) as [a|] eqn:EA.
  - destruct a as [sv ex|h|s|l|z];
      try (apply (step_wrong n used M A (KZAdd k sc x) _ ty_ZSet ver now HR Hk Hv eq_refl EA); cbn [kind]; discriminate).
    cbn [RelK] in HK. destruct HK as (m & Hl & Hw & Ht & He & Hu & Hsz & Hsh & Hlen & Hdom & Hel). cbn [kind] in Ht.
    destruct (amap_get z x) as [old|] eqn:Eg.
    + destruct (Hdom x old Eg) as [_ Hzold].
      destruct (bytes_eqb old sc) eqn:Eo.
      * (* same score: nothing happens *)
        apply bytes_eqb_eq in Eo. subst old.
        apply (step_read n used M A (KZAdd k sc x) ver now (DBool false)); auto.
        -- cbn [dt_cmd]. unfold dt_zadd. rewrite (find_hit M k m ty_ZSet ver now Hne Hl Hw He Ht).
           change (zmember_key k (m_version m) x) with (ikey k (m_version m) x).
           rewrite m_get_lk by apply ikey_len. rewrite (Hel x Hzx), Eg. rewrite bytes_eqb_refl. reflexivity.
        -- cbn [a_cmd fst]. rewrite EA. cbn [fst]. rewrite (amap_put_same_val z x sc Hsh Eg). apply aupd_same. exact EA.
        -- cbn [a_cmd snd]. rewrite EA. unfold mem. rewrite Eg. reflexivity.
      * (* new score for an existing member *)
        apply (step_from n used M A (KZAdd k sc x) ver now (DBool false)
                 (PBatch [WDel (zkey k (m_version m) old x); WPut (ikey k (m_version m) x) sc; WPut (zkey k (m_version m) sc x) []])
                 (Some (AZSet (fst (amap_put z x sc))))); auto.
        -- cbn [dt_cmd]. unfold dt_zadd. rewrite (find_hit M k m ty_ZSet ver now Hne Hl Hw He Ht).
           change (zmember_key k (m_version m) x) with (ikey k (m_version m) x).
           rewrite m_get_lk by apply ikey_len. rewrite (Hel x Hzx), Eg. rewrite Eo. reflexivity.
        -- constructor; [right; exists (m_version m), (old ++ x ++ le32 (len x)); split; [right; exact Hu|reflexivity]|].
           constructor; [right; exists (m_version m), x; split; [right; exact Hu|reflexivity]|].
           constructor; [right; exists (m_version m), (sc ++ x ++ le32 (len x)); split; [right; exact Hu|reflexivity]|constructor].
        -- intros y. cbn [a_cmd fst cmd_key]. rewrite EA. reflexivity.
        -- cbn [a_cmd snd]. rewrite EA. unfold mem. rewrite Eg. reflexivity.
        -- intros M' HM'. cbn [RelK plan_ws cmd_key]. exists m.
           assert (Hlk : forall y, lk M' y = if bytes_eqb y (zkey k (m_version m) sc x) then Some []
                                             else if bytes_eqb y (ikey k (m_version m) x) then Some sc
                                             else if bytes_eqb y (zkey k (m_version m) old x) then None else lk M y).
           { intros y. rewrite HM'. reflexivity. }
           split; [rewrite Hlk; unfold zkey; rewrite !beq_self_ikey; exact Hl|]. split; [exact Hw|]. split; [exact Ht|]. split; [exact He|].
           split; [right; exact Hu|]. split; [lia|]. cbn [elems].
           split; [apply amap_put_sorted; exact Hsh|]. split; [rewrite amap_put_len by exact Hsh; rewrite Eg; exact Hlen|].
           split.
           { intros y w. rewrite amap_get_put. destruct (bytes_eqb y x) eqn:Ey; [apply bytes_eqb_eq in Ey; subst y; intros [= <-]; auto|apply Hdom]. }
           intros y Hy. rewrite Hlk. rewrite (beq_member_score k _ y sc x Hy Hzx Hzs), (beq_member_score k _ y old x Hy Hzx Hzold).
           rewrite beq_ikey, amap_get_put. destruct (bytes_eqb y x); [reflexivity|apply Hel; exact Hy].
    + (* new member *)
      set (m' := with_size m (m_size m + 1)).
      apply (step_from n used M A (KZAdd k sc x) ver now (DBool true)
               (PBatch [WPut k (enc_meta m'); WPut (ikey k (m_version m) x) sc; WPut (zkey k (m_version m) sc x) []])
               (Some (AZSet (fst (amap_put z x sc))))); auto.
      * cbn [dt_cmd]. unfold dt_zadd. rewrite (find_hit M k m ty_ZSet ver now Hne Hl Hw He Ht).
        change (zmember_key k (m_version m) x) with (ikey k (m_version m) x).
        rewrite m_get_lk by apply ikey_len. rewrite (Hel x Hzx), Eg. reflexivity.
      * constructor; [left; reflexivity|].
        constructor; [right; exists (m_version m), x; split; [right; exact Hu|reflexivity]|].
        constructor; [right; exists (m_version m), (sc ++ x ++ le32 (len x)); split; [right; exact Hu|reflexivity]|constructor].
      * intros y. cbn [a_cmd fst cmd_key]. rewrite EA. reflexivity.
      * cbn [a_cmd snd]. rewrite EA. unfold mem. rewrite Eg. reflexivity.
      * intros M' HM'. cbn [RelK plan_ws cmd_key]. exists m'.
        assert (Hlk : forall y, lk M' y = if bytes_eqb y (zkey k (m_version m) sc x) then Some []
                                          else if bytes_eqb y (ikey k (m_version m) x) then Some sc
                                          else if bytes_eqb y k then Some (enc_meta m') else lk M y).
        { intros y. rewrite HM'. reflexivity. }
        split; [rewrite Hlk; unfold zkey; rewrite !beq_self_ikey, bytes_eqb_refl; reflexivity|].
        split; [apply wf_with_size; [exact Hw|lia]|]. split; [exact Ht|]. split; [exact He|].
        split; [right; exact Hu|]. split; [cbn; lia|]. cbn [elems].
        split; [apply amap_put_sorted; exact Hsh|]. split; [rewrite amap_put_len by exact Hsh; rewrite Eg; cbn; lia|].
        split.
        { intros y w. rewrite amap_get_put. destruct (bytes_eqb y x) eqn:Ey; [apply bytes_eqb_eq in Ey; subst y; intros [= <-]; auto|apply Hdom]. }
        intros y Hy. change (m_version m') with (m_version m). rewrite Hlk. rewrite (beq_member_score k _ y sc x Hy Hzx Hzs).
        rewrite beq_ikey, beq_ikey_self, amap_get_put. destruct (bytes_eqb y x); [reflexivity|apply Hel; exact Hy].
  - cbn [RelK] in HK.
    set (m' := with_size (fresh_meta ty_ZSet ver) 1).
    assert (Hfe : forall y, lk M (ikey k ver y) = None) by (intros y; apply (fresh_empty used M k ver y HG Hk Hv HV Hfr)).
    apply (step_from n used M A (KZAdd k sc x) ver now (DBool true)
             (PBatch [WPut k (enc_meta m'); WPut (ikey k ver x) sc; WPut (zkey k ver sc x) []]) (Some (AZSet [(x, sc)]))); auto.
    + cbn [dt_cmd]. unfold dt_zadd. rewrite (find_fresh M k ty_ZSet ver now Hne HK).
      change (zmember_key k (m_version (fresh_meta ty_ZSet ver)) x) with (ikey k ver x).
      rewrite m_get_lk by apply ikey_len. rewrite Hfe. reflexivity.
    + constructor; [left; reflexivity|].
      constructor; [right; exists ver, x; split; [left; reflexivity|reflexivity]|].
      constructor; [right; exists ver, (sc ++ x ++ le32 (len x)); split; [left; reflexivity|reflexivity]|constructor].
    + intros y. cbn [a_cmd fst cmd_key]. rewrite EA. reflexivity.
    + cbn [a_cmd snd]. rewrite EA. reflexivity.
    + intros M' HM'. cbn [RelK plan_ws cmd_key]. exists m'.
      assert (Hlk : forall y, lk M' y = if bytes_eqb y (zkey k ver sc x) then Some []
                                        else if bytes_eqb y (ikey k ver x) then Some sc
                                        else if bytes_eqb y k then Some (enc_meta m') else lk M y).
      { intros y. rewrite HM'. reflexivity. }
      split; [rewrite Hlk; unfold zkey; rewrite !beq_self_ikey, bytes_eqb_refl; reflexivity|].
      split; [apply wf_with_size; [apply wf_fresh; exact Hv|lia]|]. split; [reflexivity|]. split; [reflexivity|].
      split; [left; reflexivity|]. split; [cbn; lia|]. cbn [elems].
      split; [apply sorted_single|]. split; [reflexivity|].
      split.
      { intros y w. cbn [amap_get]. destruct (bytes_eqb y x) eqn:Ey; [apply bytes_eqb_eq in Ey; subst y; intros [= <-]; auto|discriminate]. }
      intros y Hy. change (m_version m') with ver. rewrite Hlk. rewrite (beq_member_score k _ y sc x Hy Hzx Hzs).
      rewrite beq_ikey, beq_ikey_self. cbn [amap_get]. destruct (bytes_eqb y x); [reflexivity|apply Hfe].
Qed.

Lemma step_zscore n used M A k x ver now :
  Rel n used M A -> U k -> V ver -> ZM x -> step_ok n used M A (KZScore k x) ver now.
Proof.
  intros HR Hk Hv Hzx. pose proof (U_nonempty k Hk) as Hne. pose proof HR as (Hs & HV & HK & HG). specialize (HK k Hk).
  destruct (A k) as [a|] eqn:EA.
  - destruct a as [sv ex|h|s|l|z];
      try (apply (step_wrong n used M A (KZScore k x) _ ty_ZSet ver now HR Hk Hv eq_refl EA); cbn [kind]; discriminate).
    cbn [RelK] in HK. destruct HK as (m & Hl & Hw & Ht & He & Hu & Hsz & Hsh & Hlen & Hdom & Hel). cbn [kind] in Ht.
    destruct (m_size m =? 0) eqn:E0.
    + apply N.eqb_eq in E0. assert (Hnone : amap_get z x = None) by (apply amap_len0_get; lia).
      apply (step_read n used M A (KZScore k x) ver now DNoScore); auto.
      * cbn [dt_cmd]. unfold dt_zscore. rewrite (find_hit M k m ty_ZSet ver now Hne Hl Hw He Ht).
        assert (E1 : (m_size m =? 0) = true) by (apply N.eqb_eq; exact E0). rewrite E1. reflexivity.
      * cbn [a_cmd snd]. rewrite EA, Hnone. reflexivity.
    + apply (step_read n used M A (KZScore k x) ver now (match amap_get z x with Some s => DScore s | None => DNotFound end)); auto.
      * cbn [dt_cmd]. unfold dt_zscore. rewrite (find_hit M k m ty_ZSet ver now Hne Hl Hw He Ht). rewrite E0.
        change (zmember_key k (m_version m) x) with (ikey k (m_version m) x).
        rewrite m_get_lk by apply ikey_len. rewrite (Hel x Hzx). reflexivity.
      * cbn [a_cmd snd]. rewrite EA. destruct (amap_get z x); reflexivity.
  - cbn [RelK] in HK.
    apply (step_read n used M A (KZScore k x) ver now DNoScore); auto.
    + cbn [dt_cmd]. unfold dt_zscore. rewrite (find_fresh M k ty_ZSet ver now Hne HK). reflexivity.
    + cbn [a_cmd snd]. rewrite EA. reflexivity.
Qed.

(* ---- every command ------------------------------------------------------------------------------------------------- *)
Definition cmd_ok (c : cmd) : Prop :=
  match c with
  | KSet _ _ ex => ex < 2 ^ 63
  | KZAdd _ sc x => ZM x /\ ZS sc
  | KZScore _ x => ZM x
  | _ => True
  end.

Theorem step_refines n used M A c ver now :
  Rel n used M A -> U (cmd_key c) -> V ver -> ~ In ver used -> n + 1 < 2 ^ 63 -> cmd_ok c ->
  step_ok n used M A c ver now.
Proof.
  intros HR Hk Hv Hfr Hn Hok. destruct c; cbn [cmd_key cmd_ok] in *.
  - apply step_set; assumption.
  - apply step_get; assumption.
  - apply step_del; assumption.
  - apply step_type; assumption.
  - apply step_hset; assumption.
  - apply step_hget; assumption.
  - apply step_hdel; assumption.
  - apply step_sadd; assumption.
  - apply step_sismember; assumption.
  - apply step_srem; assumption.
  - apply step_push; assumption.
  - apply step_pop; assumption.
  - destruct Hok. apply step_zadd; assumption.
  - apply step_zscore; assumption.
Qed.

Lemma Rel_init : Rel 0 [] [] (fun _ => None).
Proof.
  split; [apply sorted_nil|]. split; [intros v []|]. split; [intros k _; reflexivity|].
  intros x Hx. exfalso. apply Hx. reflexivity.
Qed.
End Refine.
