(* LockOrderProofs.v — the lock-ordering discipline excludes deadlock (C09). *)
From Coq Require Import List Arith Bool Lia.
From KV Require Import LockOrder.
Import ListNotations.

Definition Disc (s : list thr) : Prop := Forall (fun t => ordered_b (t_held t) (t_rest t) = true) s.

Lemma holds_lock_in h l : holds_lock h l = true -> exists x, In x h /\ rank x = rank l.
Proof.
  unfold holds_lock. intros H. apply existsb_exists in H. destruct H as (x & Hx & He).
  unfold lock_eqb in He. apply andb_true_iff in He. destruct He as [A _]. apply Nat.eqb_eq in A.
  exists x. split; [exact Hx|unfold rank; symmetry; exact A].
Qed.

(* a thread that holds something is not finished, and a waiting thread waits for a lock ranked above
   everything it holds *)
Lemma disc_holder_unfinished t l : ordered_b (t_held t) (t_rest t) = true -> holds_lock (t_held t) l = true -> t_rest t <> [].
Proof.
  intros Ho Hh E. rewrite E in Ho. cbn in Ho. destruct (t_held t); [discriminate|discriminate].
Qed.
Lemma disc_next_rank t l r x : ordered_b (t_held t) (t_rest t) = true -> t_rest t = Acq l :: r -> In x (t_held t) -> rank x < rank l.
Proof.
  intros Ho Hr Hx. rewrite Hr in Ho. cbn in Ho. apply andb_true_iff in Ho. destruct Ho as [A _].
  rewrite forallb_forall in A. apply Nat.ltb_lt. apply A. exact Hx.
Qed.

(* in a deadlocked state that follows the discipline, locks of arbitrarily high rank are waited for *)
Lemma deadlock_chain s : Disc s -> deadlocked s -> forall n, exists l, sys_holds s l /\ n <= rank l.
Proof.
  intros HD [(t0 & Ht0 & Hne0) Hall]. induction n as [|n IH].
  - destruct (Hall t0 Ht0 Hne0) as (l & r & _ & Hh). exists l. split; [exact Hh|lia].
  - destruct IH as (l & (t & Ht & Hh) & Hn).
    unfold Disc in HD. rewrite Forall_forall in HD. pose proof (HD t Ht) as Ho.
    pose proof (disc_holder_unfinished t l Ho Hh) as Hne.
    destruct (Hall t Ht Hne) as (l' & r & Hr & Hh').
    destruct (holds_lock_in _ _ Hh) as (x & Hx & Hrx).
    pose proof (disc_next_rank t l' r x Ho Hr Hx) as Hlt.
    exists l'. split; [exact Hh'|lia].
Qed.

(* ranks are bounded: no state that follows the discipline is deadlocked *)
Theorem discipline_excludes_deadlock s B :
  Disc s -> (forall l, sys_holds s l -> rank l < B) -> ~ deadlocked s.
Proof.
  intros HD Hb Hdl. destruct (deadlock_chain s HD Hdl B) as (l & Hh & Hr). pose proof (Hb l Hh). lia.
Qed.

(* the discipline is kept by every step, so it holds in every reachable state *)
Lemma Forall_set_thr (P : thr -> Prop) : forall s i t, Forall P s -> P t -> Forall P (set_thr s i t).
Proof.
  induction s as [|x s IH]; intros i t Hs Ht; destruct i; cbn [set_thr]; auto.
  - constructor; [exact Ht|exact (Forall_inv_tail Hs)].
  - constructor; [exact (Forall_inv Hs)|apply IH; [exact (Forall_inv_tail Hs)|exact Ht]].
Qed.
Theorem step_keeps_discipline s i s' : Disc s -> sys_step s i = Some s' -> Disc s'.
Proof.
  intros HD Hs. unfold sys_step in Hs. destruct (nth_error s i) as [[h es]|] eqn:En; [|discriminate].
  assert (Ho : ordered_b h es = true).
  { unfold Disc in HD. rewrite Forall_forall in HD. apply (HD (mkThr h es)). eapply nth_error_In. exact En. }
  destruct es as [|[l|l] r]; [discriminate| |].
  - destruct (sys_free s l); [|discriminate]. injection Hs as <-. apply Forall_set_thr; [exact HD|].
    cbn in Ho. apply andb_true_iff in Ho. exact (proj2 Ho).
  - injection Hs as <-. apply Forall_set_thr; [exact HD|]. cbn in Ho. apply andb_true_iff in Ho. exact (proj2 Ho).
Qed.

(* calls that follow the discipline from "holding nothing" compose: a client that issues any sequence
   of such calls follows it too *)
Lemma ordered_concat : forall a h b, ordered_b h a = true -> ordered_b [] b = true -> ordered_b h (a ++ b) = true.
Proof.
  induction a as [|[l|l] a IH]; intros h b Ha Hb; cbn [app ordered_b] in *.
  - destruct h; [exact Hb|discriminate].
  - apply andb_true_iff in Ha. destruct Ha as [A B]. rewrite A. cbn [andb]. apply IH; assumption.
  - apply andb_true_iff in Ha. destruct Ha as [A B]. rewrite A. cbn [andb]. apply IH; assumption.
Qed.
Theorem client_follows_discipline (calls : list (list ev)) :
  Forall (fun c => ordered_b [] c = true) calls -> ordered_b [] (concat calls) = true.
Proof.
  induction 1 as [|c cs Hc _ IH]; [reflexivity|]. cbn [concat]. apply ordered_concat; assumption.
Qed.

(* ---- every reachable state of clients that issue calls following the discipline ------------------ *)
Definition Bounded (B : nat) (s : list thr) : Prop :=
  forall t, In t s -> (forall l, In l (t_held t) -> rank l < B) /\ (forall l, In (Acq l) (t_rest t) -> rank l < B).

Lemma remove_lock_sub l h x : In x (remove_lock l h) -> In x h.
Proof.
  induction h as [|y h IH]; cbn [remove_lock]; [intros []|]. destruct (lock_eqb y l); [intros H; right; exact H|].
  intros [<-|H]; [left; reflexivity|right; auto].
Qed.
Lemma in_set_thr s i t x : In x (set_thr s i t) -> x = t \/ In x s.
Proof.
  revert i. induction s as [|y s IH]; intros i; destruct i; cbn [set_thr].
  - intros Hf; destruct Hf.
  - intros Hf; destruct Hf.
  - intros [<-|Hx]; [left; reflexivity|right; right; exact Hx].
  - intros [<-|Hx]; [right; left; reflexivity|]. destruct (IH _ Hx) as [A|A]; [left; exact A|right; right; exact A].
Qed.

Theorem step_keeps_bound B s i s' : Bounded B s -> sys_step s i = Some s' -> Bounded B s'.
Proof.
  intros HB Hs. unfold sys_step in Hs. destruct (nth_error s i) as [[h es]|] eqn:En; [|discriminate].
  pose proof (nth_error_In _ _ En) as Hin. destruct (HB _ Hin) as [Hh Hr]. cbn [t_held t_rest] in *.
  destruct es as [|[l|l] r]; [discriminate| |].
  - destruct (sys_free s l); [|discriminate]. injection Hs as <-. intros t Ht. destruct (in_set_thr _ _ _ _ Ht) as [->|Ht'].
    + cbn [t_held t_rest]. split.
      * intros x [<-|Hx]; [apply Hr; left; reflexivity|apply Hh; exact Hx].
      * intros x Hx. apply Hr. right. exact Hx.
    + apply HB. exact Ht'.
  - injection Hs as <-. intros t Ht. destruct (in_set_thr _ _ _ _ Ht) as [->|Ht'].
    + cbn [t_held t_rest]. split.
      * intros x Hx. apply Hh. eapply remove_lock_sub. exact Hx.
      * intros x Hx. apply Hr. right. exact Hx.
    + apply HB. exact Ht'.
Qed.

Fixpoint sys_run (s : list thr) (sched : list nat) : list thr :=
  match sched with
  | [] => s
  | i :: r => match sys_step s i with Some s' => sys_run s' r | None => sys_run s r end
  end.

Lemma holds_lock_In h l : holds_lock h l = true -> exists x, In x h /\ rank x = rank l.
Proof. apply holds_lock_in. Qed.

Theorem never_deadlocked B s sched :
  Disc s -> Bounded B s -> ~ deadlocked (sys_run s sched).
Proof.
  revert s. induction sched as [|i sched IH]; intros s HD HB; cbn [sys_run].
  - apply (discipline_excludes_deadlock s B HD). intros l (t & Ht & Hh).
    destruct (holds_lock_in _ _ Hh) as (x & Hx & Hrx). rewrite <- Hrx. apply (proj1 (HB t Ht)). exact Hx.
  - destruct (sys_step s i) as [s'|] eqn:E; [|apply IH; assumption].
    apply IH; [eapply step_keeps_discipline; eassumption|eapply step_keeps_bound; eassumption].
Qed.
