(* EngineSync.v — what has been flushed: the durable length of every file (C13). *)
From Coq Require Import ZArith Lia ZifyN ZifyNat ZifyBool.
From KV Require Import Bytes GenConsts Chunk Record Engine Script BytesLemmas AMapLemmas
  EngineFiles EngineInv EngineBatch EngineRefine EngineLog EngineRecover.
Open Scope N_scope.

(* a file is flushed when its durable length is its size *)
Definition flushed (f : lfile) : Prop := lf_durable f = lf_size f.
Definition older_flushed (d : db) : Prop := Forall (fun x => flushed (snd x)) (d_older d).

(* bytes of plain (Put / Delete) records of the active file that start at or beyond the durable
   length: what a power failure may take away from acknowledged Puts and Deletes *)
Fixpoint plain_beyond (rs : list (record * pos)) (dur : N) : N :=
  match rs with
  | [] => 0
  | (r, p) :: rest =>
    (if (r_batch r =? 0) && (dur <=? pstart p) then p_size p else 0) + plain_beyond rest dur
  end.
Definition unflushed_plain (d : db) : N := plain_beyond (lf_recs (d_active d)) (lf_durable (d_active d)).

Lemma plain_beyond_app a b dur : plain_beyond (a ++ b) dur = plain_beyond a dur + plain_beyond b dur.
Proof. induction a as [|[r p] a IH]; cbn [app plain_beyond]; [lia|]. rewrite IH. lia. Qed.
Lemma plain_beyond_flushed rs sz dur :
  (forall r p, In (r, p) rs -> pstart p < sz) -> sz <= dur -> plain_beyond rs dur = 0.
Proof.
  intros Hwf Hle. induction rs as [|[r p] rs IH]; cbn [plain_beyond]; [reflexivity|].
  pose proof (Hwf r p (or_introl eq_refl)) as H1.
  destruct (r_batch r =? 0); cbn [andb].
  - destruct (dur <=? pstart p) eqn:E; [lia|]. rewrite IH; [lia|]. intros r0 p0 Hin. apply (Hwf r0 p0). right. exact Hin.
  - rewrite IH; [lia|]. intros r0 p0 Hin. apply (Hwf r0 p0). right. exact Hin.
Qed.
Lemma plain_beyond_tagged id rs ps dur : id <> 0 -> plain_beyond (combine (map (tag id) rs) ps) dur = 0.
Proof.
  intros Hid. revert ps. induction rs as [|r rs IH]; intros [|p ps]; cbn [map combine plain_beyond]; try reflexivity.
  cbn [tag r_batch]. destruct (id =? 0) eqn:E; [lia|]. cbn [andb]. rewrite IH. reflexivity.
Qed.

(* the sync invariant *)
Definition SyncInv (d : db) : Prop :=
  lf_durable (d_active d) <= lf_size (d_active d) /\
  unflushed_plain d <= d_bytes_write d /\
  older_flushed d.

(* ---- handle operations and durability -------------------------------------------------------------- *)
Lemma h_remap_dur nm f base n : lf_durable (fst (h_remap nm f base n)) = lf_durable f.
Proof. unfold h_remap. destruct (_ <=? _); [reflexivity|]. destruct (_ <? _); reflexivity. Qed.
Lemma h_write_dur io nm f rs n : lf_durable (fst (h_write io nm f rs n)) = lf_durable f.
Proof. unfold h_write. destruct (io =? io_MMap); [|reflexivity].
  pose proof (h_remap_dur nm f (lf_size f) n). destruct (h_remap nm f (lf_size f) n). cbn [fst] in *. exact H. Qed.
Lemma h_read_dur io nm f off n : lf_durable (fst (h_read io nm f off n)) = lf_durable f.
Proof. unfold h_read. destruct (io =? io_MMap); [apply h_remap_dur|reflexivity]. Qed.
Lemma h_sync_dur nm f : flushed (fst (h_sync nm f)).
Proof. reflexivity. Qed.
Lemma h_open_new_dur io nm : flushed (fst (h_open io nm false lf_empty)).
Proof.
  unfold h_open, flushed. destruct (io =? io_MMap); [|reflexivity].
  set (f0 := mkLf _ _ _ _ _ _).
  pose proof (h_remap_dur nm f0 (lf_phys lf_empty) mmapBlockSize) as Hd.
  pose proof (h_remap_same nm f0 (lf_phys lf_empty) mmapBlockSize) as [_ Hs].
  destruct (h_remap nm f0 (lf_phys lf_empty) mmapBlockSize). cbn [fst] in *. rewrite Hd, Hs. reflexivity.
Qed.

Lemma older_set_flushed o id f : Forall (fun x => flushed (snd x)) o -> flushed f ->
  Forall (fun x => flushed (snd x)) (older_set o id f).
Proof.
  intros Ho Hf. induction o as [|[i g] o IH]; cbn [older_set]; [constructor; [exact Hf|constructor]|].
  pose proof (Forall_inv Ho) as H1. pose proof (Forall_inv_tail Ho) as H2.
  destruct (i =? id); [constructor; assumption|]. destruct (id <? i); [constructor; [exact Hf|exact Ho]|].
  constructor; [exact H1|apply IH; exact H2].
Qed.

(* ---- rotation: the file left behind is flushed ------------------------------------------------------ *)
Lemma db_rotate_sync d d' evs : older_flushed d -> db_rotate d = (d', evs) ->
  SyncInv d' /\ flushed (d_active d') /\ lf_recs (d_active d') = [].
Proof.
  intros Hof Hrot. unfold db_rotate in Hrot.
  destruct (h_sync (FData (d_active_id d)) (d_active d)) as [a ev1] eqn:Hs.
  pose proof (h_sync_dur (FData (d_active_id d)) (d_active d)) as Ha. rewrite Hs in Ha. cbn [fst] in Ha.
  pose proof (h_open_new_dur (io_of d) (FData (d_active_id d + 1))) as Hn.
  pose proof (h_open_new (io_of d) (FData (d_active_id d + 1))) as [Hr _].
  destruct (h_open (io_of d) (FData (d_active_id d + 1)) false lf_empty) as [n ev2]. cbn [fst] in *.
  injection Hrot as <- _. unfold SyncInv, unflushed_plain, older_flushed. cbn [d_active d_older d_bytes_write].
  rewrite Hr. cbn [plain_beyond]. unfold flushed in Hn. split; [|split; [exact Hn|reflexivity]].
  split; [lia|]. split; [lia|]. apply older_set_flushed; assumption.
Qed.

(* ---- appendLogRecord and the sync strategy ------------------------------------------------------------ *)
Lemma db_append_sync d r d' p evs :
  InvF d -> SyncInv d -> r_batch r = 0 -> db_append d r = (d', p, evs) ->
  SyncInv d' /\
  (c_sync (d_cfg d) = sync_Always -> flushed (d_active d')) /\
  (c_sync (d_cfg d) = sync_Threshold -> 0 < c_bps (d_cfg d) -> d_bytes_write d' < c_bps (d_cfg d)) /\
  d_cfg d' = d_cfg d.
Proof.
  intros HF HS Hplain Happ. unfold db_append in Happ.
  set (est := disk_size_estimate (len (r_key r)) (len (r_value r))) in *.
  destruct (if c_fsize (d_cfg d) <? lf_size (d_active d) + est then db_rotate d else (d, [])) as [d1 ev1] eqn:Hrot.
  assert (H1 : InvF d1 /\ SyncInv d1 /\ d_cfg d1 = d_cfg d).
  { destruct (c_fsize (d_cfg d) <? lf_size (d_active d) + est).
    - destruct (db_rotate_spec _ _ _ HF Hrot) as (A & _ & _ & C & _).
      destruct (db_rotate_sync _ _ _ (proj2 (proj2 HS)) Hrot) as (B & _). auto.
    - injection Hrot as <- <-. auto. }
  destruct H1 as ([Hact1 Hold1] & (Hle1 & Hti1 & Hof1) & Hcfg1).
  destruct (lf_append (io_of d1) (FData (d_active_id d1)) (d_active_id d1) (d_active d1) r) as [[a p0] ev2] eqn:Hla.
  destruct (lf_append_spec _ _ _ _ _ _ _ _ Hact1 Hla) as (Hwfa & Hrecs & Hfid & Hge & Hoff & Hsz & Hpsz & Hnone).
  assert (Hdura : lf_durable a = lf_durable (d_active d1)).
  { unfold lf_append in Hla. destruct (frame _ _ _ _) as [[pp bb] ss].
    pose proof (h_write_dur (io_of d1) (FData (d_active_id d1)) (d_active d1) [(r, pp)] (bb * blockSize + ss - lf_size (d_active d1))) as Hd.
    destruct (h_write _ _ _ _ _) as [f1 e1]. cbn [fst] in Hd. injection Hla as <- _ _. exact Hd. }
  assert (Hpb : plain_beyond (lf_recs a) (lf_durable a) = unflushed_plain d1 + p_size p0).
  { rewrite Hrecs, plain_beyond_app, Hdura. unfold unflushed_plain. cbn [plain_beyond]. rewrite Hplain.
    replace (0 =? 0) with true by reflexivity. cbn [andb].
    destruct (lf_durable (d_active d1) <=? pstart p0) eqn:E; lia. }
  rewrite <- Hcfg1.
  destruct ((c_sync (d_cfg d1) =? sync_Always) || ((c_sync (d_cfg d1) =? sync_Threshold) && (c_bps (d_cfg d1) <=? d_bytes_write d1 + p_size p0))) eqn:Esync.
  - destruct (h_sync (FData (d_active_id d1)) a) as [a' ev3] eqn:Hs.
    pose proof (h_sync_same (FData (d_active_id d1)) a) as [Hr' Hs']. rewrite Hs in Hr', Hs'. cbn [fst] in *.
    pose proof (h_sync_dur (FData (d_active_id d1)) a) as Hfl. rewrite Hs in Hfl. cbn [fst] in Hfl. unfold flushed in Hfl.
    injection Happ as <- <- _.
    split; [|split; [|split; [|reflexivity]]].
    + unfold SyncInv, unflushed_plain, older_flushed. cbn [set_counters set_active d_active d_older d_bytes_write].
      split; [lia|]. split; [|exact Hof1].
      rewrite (plain_beyond_flushed (lf_recs a') (lf_size a')); [lia| |lia].
      intros r1 p1 Hin. rewrite Hr' in Hin. rewrite Hs'. apply (Hwfa r1 p1). exact Hin.
    + intros _. cbn [set_counters set_active d_active]. exact Hfl.
    + intros _ Hb. cbn [set_counters d_bytes_write]. exact Hb.
  - injection Happ as <- <- _.
    split; [|split; [|split; [|reflexivity]]].
    + unfold SyncInv, unflushed_plain, older_flushed. cbn [set_counters set_active d_active d_older d_bytes_write].
      split; [lia|]. split; [lia|exact Hof1].
    + intros HA. rewrite HA in Esync. replace (sync_Always =? sync_Always) with true in Esync by reflexivity. discriminate.
    + intros HT Hb. cbn [set_counters d_bytes_write]. rewrite HT in Esync.
      replace (sync_Threshold =? sync_Always) with false in Esync by reflexivity.
      replace (sync_Threshold =? sync_Threshold) with true in Esync by reflexivity. cbn [orb andb] in Esync. lia.
Qed.

(* setters that do not touch files or the write counter *)
Lemma SyncInv_ext d d' : d_active d' = d_active d -> d_older d' = d_older d -> d_bytes_write d' = d_bytes_write d ->
  SyncInv d -> SyncInv d'.
Proof. intros H1 H2 H3 H. unfold SyncInv, unflushed_plain, older_flushed in *. rewrite H1, H2, H3. exact H. Qed.

(* C13, Always: every Put has been flushed before it returns; Threshold: fewer than
   BytesPerSync bytes of acknowledged Puts/Deletes are unflushed *)
Theorem db_put_sync d k v d' evs :
  InvF d -> SyncInv d -> db_put d k v = (d', None, evs) ->
  SyncInv d' /\
  (c_sync (d_cfg d) = sync_Always -> flushed (d_active d') /\ older_flushed d') /\
  (c_sync (d_cfg d) = sync_Threshold -> 0 < c_bps (d_cfg d) -> unflushed_plain d' < c_bps (d_cfg d)).
Proof.
  intros HF HS Hput. unfold db_put in Hput. destruct (len k =? 0); [discriminate|].
  destruct (db_append d (mkRec rt_Normal k v 0)) as [[d1 p] ev1] eqn:Happ.
  destruct (db_append_sync d (mkRec rt_Normal k v 0) d1 p ev1 HF HS eq_refl Happ) as (HS1 & HA & HT & _).
  destruct (idx_put (d_index d1) k p) as [ix old]. injection Hput as <- _.
  assert (HS' : SyncInv (add_reclaim (set_index d1 ix) (opt_size old))) by (eapply SyncInv_ext; [| | |exact HS1]; reflexivity).
  split; [exact HS'|]. split.
  - intros H. split; [exact (HA H)|exact (proj2 (proj2 HS'))].
  - intros H Hb. destruct HS' as (_ & Hle & _). specialize (HT H Hb).
    change (d_bytes_write (add_reclaim (set_index d1 ix) (opt_size old))) with (d_bytes_write d1) in Hle. lia.
Qed.

Theorem db_delete_sync d k d' evs :
  InvF d -> SyncInv d -> db_delete d k = (d', None, evs) ->
  SyncInv d' /\
  (idx_get (d_index d) k <> None -> len k <> 0 -> c_sync (d_cfg d) = sync_Always -> flushed (d_active d') /\ older_flushed d') /\
  (c_sync (d_cfg d) = sync_Threshold -> 0 < c_bps (d_cfg d) -> d_bytes_write d < c_bps (d_cfg d) -> unflushed_plain d' < c_bps (d_cfg d)).
Proof.
  intros HF HS Hdel. unfold db_delete in Hdel. destruct (len k =? 0) eqn:Ek; [discriminate|].
  destruct (idx_get (d_index d) k) as [p0|] eqn:Eg.
  - destruct (db_append d (mkRec rt_Deleted k [] 0)) as [[d1 p] ev1] eqn:Happ.
    destruct (db_append_sync d (mkRec rt_Deleted k [] 0) d1 p ev1 HF HS eq_refl Happ) as (HS1 & HA & HT & _).
    cbn [add_reclaim set_counters d_index] in Hdel.
    destruct (idx_del (d_index d1) k) as [ix old]. destruct old as [o|]; [|discriminate]. injection Hdel as <- _.
    set (d2 := add_reclaim (set_index (add_reclaim d1 (p_size p)) ix) (p_size o)).
    assert (HS' : SyncInv d2) by (eapply SyncInv_ext; [| | |exact HS1]; reflexivity).
    split; [exact HS'|]. split.
    + intros _ _ H. split; [exact (HA H)|exact (proj2 (proj2 HS'))].
    + intros H Hb _. destruct HS' as (_ & Hle & _). specialize (HT H Hb).
      change (d_bytes_write d2) with (d_bytes_write d1) in Hle. lia.
  - injection Hdel as <- _. split; [exact HS|]. split; [intros H; contradiction|].
    intros _ _ Hb. destruct HS as (_ & Hle & _). lia.
Qed.

(* Sync() flushes the active file; Close flushes every file *)
Theorem db_sync_flushes d d' evs : db_sync d = (d', evs) -> flushed (d_active d').
Proof. unfold db_sync. destruct (h_sync _ _) as [a ev] eqn:E. intros [= <- _].
  pose proof (h_sync_dur (FData (d_active_id d)) (d_active d)) as H. rewrite E in H. exact H. Qed.

Lemma h_close_flushed io nm f : flushed (fst (h_close io nm f)).
Proof. unfold h_close, flushed. destruct (io =? io_MMap); reflexivity. Qed.
Lemma close_all_flushed io : forall files, Forall (fun x => flushed (snd x)) (fst (close_all io files)).
Proof.
  induction files as [|[id f] files IH]; cbn [close_all fst]; [constructor|].
  pose proof (h_close_flushed io (FData id) f) as H.
  destruct (h_close io (FData id) f) as [f' e1]. destruct (close_all io files) as [rest e2]. cbn [fst] in *.
  constructor; assumption.
Qed.
Theorem db_close_flushes d k k' evs : db_close d k = (k', evs) -> Forall (fun x => flushed (snd x)) (k_data k').
Proof.
  unfold db_close. pose proof (h_close_flushed (io_of d) (FData (d_active_id d)) (d_active d)) as Ha.
  destruct (h_close _ _ _) as [a e1]. pose proof (close_all_flushed (io_of d) (d_older d)) as Ho.
  destruct (close_all _ _) as [o e2]. cbn [fst] in *. intros [= <- _]. cbn [k_data].
  apply older_set_flushed; assumption.
Qed.

(* ---- batches ---------------------------------------------------------------------------------------------- *)
Lemma lf_append_all_dur io nm fid f rs f' ps evs :
  lf_append_all io nm fid f rs = (f', ps, evs) -> lf_durable f' = lf_durable f /\ lf_size f <= lf_size f'.
Proof.
  unfold lf_append_all. destruct (frame_all _ _ _ _) as [[out b'] s'].
  pose proof (h_write_dur io nm f out (b' * blockSize + s' - lf_size f)) as Hd.
  pose proof (h_write_spec io nm f out (b' * blockSize + s' - lf_size f)) as [_ Hs].
  destruct (h_write _ _ _ _ _) as [f1 e1]. cbn [fst] in *. intros [= <- _ _]. split; [exact Hd|lia].
Qed.

Lemma apply_staged_bw : forall l dd, d_bytes_write (apply_staged dd l) = d_bytes_write dd.
Proof.
  induction l as [|[r p] l IH]; intros dd; [reflexivity|]. rewrite apply_staged_cons, IH.
  unfold index_step, idx_del, idx_put. destruct (r_type r =? rt_Deleted).
  - destruct (amap_del _ _); reflexivity.
  - destruct (amap_put _ _ _); reflexivity.
Qed.

Lemma batch_flush_sync d b d' b' evs :
  InvF d -> SyncInv d -> b_id b <> 0 -> batch_flush d b = (d', b', evs) ->
  SyncInv d' /\ (b_sync b = true -> flushed (d_active d')).
Proof.
  intros HF HS Hid Hfl. unfold batch_flush in Hfl.
  set (sz := lf_size (d_active d)) in *.
  destruct (if (0 <? sz) && (c_fsize (d_cfg d) <? sz + b_cached b + maxFinRecord) then db_rotate d else (d, []))
    as [d1 ev1] eqn:Hrot.
  assert (H1 : InvF d1 /\ SyncInv d1).
  { destruct ((0 <? sz) && (c_fsize (d_cfg d) <? sz + b_cached b + maxFinRecord)).
    - destruct (db_rotate_spec _ _ _ HF Hrot) as (A & _).
      destruct (db_rotate_sync _ _ _ (proj2 (proj2 HS)) Hrot) as (B & _). auto.
    - injection Hrot as <- <-. auto. }
  destruct H1 as ([Hact1 Hold1] & (Hle1 & Hti1 & Hof1)).
  fold (tag (b_id b)) in Hfl. set (tagged := map (tag (b_id b)) (b_staged b)) in *.
  destruct (lf_append_all (io_of d1) (FData (d_active_id d1)) (d_active_id d1) (d_active d1) tagged) as [[a ps] ev2] eqn:Hla.
  destruct (lf_append_all_spec _ _ _ _ _ _ _ _ Hact1 Hla) as (out & Hrecs & Hmapf & Hmaps & Hwfa & _ & _).
  destruct (lf_append_all_dur _ _ _ _ _ _ _ _ Hla) as [Hdura Hsza].
  assert (Hcomb : out = combine tagged ps) by (rewrite <- Hmapf, <- Hmaps; symmetry; apply nth_error_combine_fst).
  assert (Hpb : plain_beyond (lf_recs a) (lf_durable a) = unflushed_plain d1).
  { rewrite Hrecs, plain_beyond_app, Hdura, Hcomb. unfold tagged. rewrite (plain_beyond_tagged _ _ _ _ Hid). unfold unflushed_plain. lia. }
  destruct (if b_sync b then h_sync (FData (d_active_id d1)) a else (a, [])) as [a' ev3] eqn:Hsy.
  injection Hfl as <- _ _.
  destruct (apply_staged_files (combine tagged ps) (set_active d1 (d_active_id d1) a')) as (F1 & F2 & F3).
  assert (Hbw : d_bytes_write (apply_staged (set_active d1 (d_active_id d1) a') (combine tagged ps)) = d_bytes_write d1).
  { rewrite apply_staged_bw. reflexivity. }
  unfold SyncInv, unflushed_plain, older_flushed. rewrite F2, F3, Hbw. cbn [set_active d_active d_older].
  destruct (b_sync b).
  - pose proof (h_sync_same (FData (d_active_id d1)) a) as [Hr' Hs']. rewrite Hsy in Hr', Hs'. cbn [fst] in *.
    pose proof (h_sync_dur (FData (d_active_id d1)) a) as Hfla. rewrite Hsy in Hfla. cbn [fst] in Hfla. unfold flushed in Hfla.
    split; [|intros _; exact Hfla]. split; [lia|]. split; [|exact Hof1].
    rewrite (plain_beyond_flushed (lf_recs a') (lf_size a')); [lia| |lia].
    intros r1 p1 Hin. rewrite Hr' in Hin. rewrite Hs'. apply (Hwfa r1 p1). exact Hin.
  - injection Hsy as <- _. split; [|intros H; discriminate]. split; [lia|]. split; [lia|exact Hof1].
Qed.

(* Commit of a Sync batch: flushed including its sealing record *)
Theorem batch_commit_sync d b d' b' e evs :
  Inv d -> SyncInv d -> b_id b <> 0 -> b_committed b = false ->
  batch_commit d b = (d', b', e, evs) ->
  SyncInv d' /\ (b_sync b = true -> b_staged b <> [] -> flushed (d_active d') /\ older_flushed d').
Proof.
  intros HI HS Hid Hnc Hc. pose proof (proj1 HI) as HF. unfold batch_commit in Hc. rewrite Hnc in Hc.
  destruct (b_staged b) as [|r0 rs] eqn:Est.
  - injection Hc as <- _ _ _. split; [exact HS|]. intros _ H. contradiction.
  - set (bc := mkBatch (r0 :: rs) (b_cached b) true (b_sync b) (b_id b)) in *.
    destruct (batch_flush d bc) as [[d1 b1] ev1] eqn:Hfl.
    destruct (batch_flush_sync d bc d1 b1 ev1 HF HS Hid Hfl) as [(Hle1 & Hti1 & Hof1) _].
    assert (HF1 : InvF d1).
    { destruct (R_exists d HI) as [m HRm].
      exact (proj1 (proj1 (batch_flush_spec d m bc d1 b1 ev1 HI HRm Hfl))). }
    set (seal := mkRec rt_BatchFinished (dec_digits (b_id b)) [] (b_id b)) in *.
    destruct (lf_append (io_of d1) (FData (d_active_id d1)) (d_active_id d1) (d_active d1) seal) as [[a p] ev2] eqn:Hla.
    destruct (lf_append_spec _ _ _ _ _ _ _ _ (proj1 HF1) Hla) as (Hwfa & Hrecs & Hfid & Hge & Hoff & Hsz & Hpsz & Hnone).
    assert (Hdura : lf_durable a = lf_durable (d_active d1)).
    { unfold lf_append in Hla. destruct (frame _ _ _ _) as [[pp bb] ss].
      pose proof (h_write_dur (io_of d1) (FData (d_active_id d1)) (d_active d1) [(seal, pp)] (bb * blockSize + ss - lf_size (d_active d1))) as Hd.
      destruct (h_write _ _ _ _ _) as [f1 e1]. cbn [fst] in Hd. injection Hla as <- _ _. exact Hd. }
    assert (Hpb : plain_beyond (lf_recs a) (lf_durable a) = unflushed_plain d1).
    { rewrite Hrecs, plain_beyond_app, Hdura. unfold unflushed_plain. cbn [plain_beyond seal r_batch].
      destruct (b_id b =? 0) eqn:E; [lia|]. cbn [andb]. lia. }
    destruct (if b_sync b then h_sync (FData (d_active_id d1)) a else (a, [])) as [a' ev3] eqn:Hsy.
    injection Hc as <- _ _ _.
    unfold SyncInv, unflushed_plain, older_flushed. cbn [set_active d_active d_older d_bytes_write].
    destruct (b_sync b).
    + pose proof (h_sync_same (FData (d_active_id d1)) a) as [Hr' Hs']. rewrite Hsy in Hr', Hs'. cbn [fst] in *.
      pose proof (h_sync_dur (FData (d_active_id d1)) a) as Hfla. rewrite Hsy in Hfla. cbn [fst] in Hfla. unfold flushed in Hfla.
      split; [|intros _ _; split; [exact Hfla|exact Hof1]]. split; [lia|]. split; [|exact Hof1].
      rewrite (plain_beyond_flushed (lf_recs a') (lf_size a')); [lia| |lia].
      intros r1 p1 Hin. rewrite Hr' in Hin. rewrite Hs'. apply (Hwfa r1 p1). exact Hin.
    + injection Hsy as <- _. split; [|intros H; discriminate]. split; [lia|]. split; [lia|exact Hof1].
Qed.

(* ---- the sync invariant holds at every step ----------------------------------------------------------- *)
Lemma batch_flush_rotate_sync d m b d' b' evs :
  Inv d -> R d m -> SyncInv d -> b_id b <> 0 -> batch_flush_rotate d b = (d', b', evs) -> SyncInv d'.
Proof.
  intros HI HR HS Hid H. unfold batch_flush_rotate in H.
  destruct (batch_flush d b) as [[d1 b1] ev1] eqn:Hfl. destruct (db_rotate d1) as [d2 ev2] eqn:Hrot.
  injection H as <- _ _.
  destruct (batch_flush_sync _ _ _ _ _ (proj1 HI) HS Hid Hfl) as [HS1 _].
  exact (proj1 (db_rotate_sync _ _ _ (proj2 (proj2 HS1)) Hrot)).
Qed.

Lemma db_read_sync d p d' r evs : SyncInv d -> db_read d p = (d', r, evs) -> SyncInv d'.
Proof.
  intros (Hle & Hti & Hof) H. unfold db_read in H. destruct (p_fid p =? d_active_id d).
  - set (sp := read_span (d_active d) p) in *.
    pose proof (h_read_same (io_of d) (FData (d_active_id d)) (d_active d) (fst sp) (snd sp)) as [Hr Hs].
    pose proof (h_read_dur (io_of d) (FData (d_active_id d)) (d_active d) (fst sp) (snd sp)) as Hd.
    destruct (h_read _ _ _ _ _) as [a ev]. cbn [fst] in *.
    assert (HS' : SyncInv (set_active d (d_active_id d) a)).
    { unfold SyncInv, unflushed_plain, older_flushed. cbn [set_active d_active d_older d_bytes_write]. rewrite Hr, Hs, Hd. auto. }
    destruct (lf_lookup _ _ _); injection H as <- _ _; exact HS'.
  - destruct (older_get (d_older d) (p_fid p)) as [f|] eqn:Eo; [|injection H as <- _ _; split; auto].
    set (sp := read_span f p) in *.
    pose proof (h_read_same (io_of d) (FData (p_fid p)) f (fst sp) (snd sp)) as [Hr Hs].
    pose proof (h_read_dur (io_of d) (FData (p_fid p)) f (fst sp) (snd sp)) as Hd.
    destruct (h_read _ _ _ _ _) as [f' ev]. cbn [fst] in *.
    assert (Hf : flushed f).
    { unfold older_flushed in Hof. rewrite Forall_forall in Hof. exact (Hof (p_fid p, f) (older_get_some_in _ _ _ Eo)). }
    assert (HS' : SyncInv (set_older d (older_set (d_older d) (p_fid p) f'))).
    { unfold SyncInv, unflushed_plain, older_flushed. cbn [set_older d_active d_older d_bytes_write].
      split; [exact Hle|]. split; [exact Hti|]. apply older_set_flushed; [exact Hof|]. unfold flushed in *. congruence. }
    destruct (lf_lookup _ _ _); injection H as <- _ _; exact HS'.
Qed.
Lemma db_get_sync d k d' r evs : SyncInv d -> db_get d k = (d', r, evs) -> SyncInv d'.
Proof. intros HS H. unfold db_get in H. destruct (len k =? 0); [injection H as <- _ _; exact HS|].
  destruct (idx_get _ _); [eapply db_read_sync; eassumption|injection H as <- _ _; exact HS]. Qed.
Lemma db_fold_aux_sync : forall ix d d' r evs, SyncInv d -> db_fold_aux d ix = (d', r, evs) -> SyncInv d'.
Proof.
  induction ix as [|[k p] ix IH]; intros d d' r evs HS H; cbn [db_fold_aux] in H; [injection H as <- _ _; exact HS|].
  destruct (db_read d p) as [[d1 v] ev1] eqn:Hrd. pose proof (db_read_sync _ _ _ _ _ HS Hrd) as HS1.
  destruct v as [val|e]; [|injection H as <- _ _; exact HS1].
  destruct (db_fold_aux d1 ix) as [[d2 rest] ev2] eqn:Hf. pose proof (IH _ _ _ _ HS1 Hf) as HS2.
  destruct rest; injection H as <- _ _; exact HS2.
Qed.
Lemma db_sync_sync d d' evs : InvF d -> SyncInv d -> db_sync d = (d', evs) -> SyncInv d'.
Proof.
  intros [Hact _] (Hle & Hti & Hof) H. unfold db_sync in H.
  pose proof (h_sync_same (FData (d_active_id d)) (d_active d)) as [Hr Hs].
  pose proof (h_sync_dur (FData (d_active_id d)) (d_active d)) as Hd. unfold flushed in Hd.
  destruct (h_sync _ _) as [a ev]. cbn [fst] in *. injection H as <- _.
  unfold SyncInv, unflushed_plain, older_flushed. cbn [set_active d_active d_older d_bytes_write].
  split; [lia|]. split; [|exact Hof].
  rewrite (plain_beyond_flushed (lf_recs a) (lf_size a)); [lia| |lia].
  intros r p Hin. rewrite Hr in Hin. rewrite Hs. apply (Hact r p). exact Hin.
Qed.

Lemma batch_put_sync d b mcur k v d' b' e evs :
  Inv d -> BRel d b mcur -> SyncInv d -> b_id b <> 0 -> batch_put d b k v = (d', b', e, evs) -> SyncInv d' /\ b_id b' = b_id b.
Proof.
  intros HI (md & HR & _) HS Hid H. unfold batch_put in H. destruct (len k =? 0); [injection H as <- <- _ _; auto|].
  destruct (b_committed b); [injection H as <- <- _ _; auto|].
  destruct (staged_find (b_staged b) k).
  - destruct (c_fsize (d_cfg d) <? _); [|injection H as <- <- _ _; auto].
    destruct (batch_flush_rotate d b) as [[d1 b1] ev1] eqn:Hfl. injection H as <- <- _ _.
    split; [eapply batch_flush_rotate_sync; eassumption|].
    destruct (batch_flush_rotate_spec _ _ _ _ _ _ HI HR Hfl) as (_ & _ & _ & ->). reflexivity.
  - destruct (c_fsize (d_cfg d) <? _); [|injection H as <- <- _ _; auto].
    destruct (batch_flush_rotate d b) as [[d1 b1] ev1] eqn:Hfl. injection H as <- <- _ _.
    split; [eapply batch_flush_rotate_sync; eassumption|].
    destruct (batch_flush_rotate_spec _ _ _ _ _ _ HI HR Hfl) as (_ & _ & _ & ->). reflexivity.
Qed.
Lemma batch_delete_sync d b mcur k d' b' e evs :
  Inv d -> BRel d b mcur -> SyncInv d -> b_id b <> 0 -> batch_delete d b k = (d', b', e, evs) -> SyncInv d' /\ b_id b' = b_id b.
Proof.
  intros HI (md & HR & _) HS Hid H. unfold batch_delete in H. destruct (len k =? 0); [injection H as <- <- _ _; auto|].
  destruct (b_committed b); [injection H as <- <- _ _; auto|].
  destruct (staged_find (b_staged b) k); [injection H as <- <- _ _; auto|].
  destruct (idx_get (d_index d) k); [|injection H as <- <- _ _; auto].
  destruct (c_fsize (d_cfg d) <? _); [|injection H as <- <- _ _; auto].
  destruct (batch_flush_rotate d b) as [[d1 b1] ev1] eqn:Hfl. injection H as <- <- _ _.
  split; [eapply batch_flush_rotate_sync; eassumption|].
  destruct (batch_flush_rotate_spec _ _ _ _ _ _ HI HR Hfl) as (_ & _ & _ & ->). reflexivity.
Qed.
Lemma batch_get_sync d b k d' r evs : SyncInv d -> batch_get d b k = (d', r, evs) -> SyncInv d'.
Proof.
  intros HS H. unfold batch_get in H. destruct (len k =? 0); [injection H as <- _ _; exact HS|].
  destruct (b_committed b); [injection H as <- _ _; exact HS|].
  destruct (staged_find (b_staged b) k) as [r0|]; [destruct (r_type r0 =? rt_Deleted); injection H as <- _ _; exact HS|].
  destruct (idx_get (d_index d) k); [eapply db_read_sync; eassumption|injection H as <- _ _; exact HS].
Qed.
Lemma run_bops_sync : forall bops d b mcur d' b' rs evs,
  Inv d -> BRel d b mcur -> SyncInv d -> b_id b <> 0 -> run_bops d b bops = (d', b', rs, evs) ->
  SyncInv d' /\ b_id b' = b_id b.
Proof.
  induction bops as [|o bops IH]; intros d b mcur d' b' rs evs HI HB HS Hid H; cbn [run_bops] in H; [injection H as <- <- _ _; auto|].
  destruct o as [k v|k|k].
  - destruct (batch_put d b k v) as [[[d1 b1] e] ev1] eqn:Hp. destruct (run_bops d1 b1 bops) as [[[d2 b2] rs2] ev2] eqn:Hr.
    injection H as <- <- _ _.
    destruct (batch_put_spec _ _ _ _ _ _ _ _ _ HI HB Hp) as (HI1 & _ & HB1 & _).
    destruct (batch_put_sync _ _ _ _ _ _ _ _ _ HI HB HS Hid Hp) as [HS1 Hid1].
    destruct (IH _ _ _ _ _ _ _ HI1 HB1 HS1 ltac:(congruence) Hr) as [HS2 Hid2]. split; [exact HS2|congruence].
  - destruct (batch_delete d b k) as [[[d1 b1] e] ev1] eqn:Hp. destruct (run_bops d1 b1 bops) as [[[d2 b2] rs2] ev2] eqn:Hr.
    injection H as <- <- _ _.
    destruct (batch_delete_spec _ _ _ _ _ _ _ _ HI HB Hp) as (HI1 & _ & HB1 & _).
    destruct (batch_delete_sync _ _ _ _ _ _ _ _ HI HB HS Hid Hp) as [HS1 Hid1].
    destruct (IH _ _ _ _ _ _ _ HI1 HB1 HS1 ltac:(congruence) Hr) as [HS2 Hid2]. split; [exact HS2|congruence].
  - destruct (batch_get d b k) as [[d1 v] ev1] eqn:Hp. destruct (run_bops d1 b bops) as [[[d2 b2] rs2] ev2] eqn:Hr.
    injection H as <- <- _ _.
    destruct (batch_get_spec d b mcur k HI HB) as (d1' & ev1' & Hg' & HI1 & HB1 & _). rewrite Hp in Hg'. injection Hg' as -> _ _.
    pose proof (batch_get_sync _ _ _ _ _ _ HS Hp) as HS1.
    exact (IH _ _ _ _ _ _ _ HI1 HB1 HS1 Hid Hr).
Qed.

Lemma open_files_flushed io : forall files, Forall (fun x => flushed (snd x) /\ lf_phys (snd x) = lf_size (snd x)) files ->
  Forall (fun x => flushed (snd x)) (fst (open_all io files)).
Proof.
  induction files as [|[id f] files IH]; intros H; cbn [open_all fst]; [constructor|].
  pose proof (Forall_inv H) as [Hf Hp]. cbn [snd] in *.
  assert (Hf' : flushed (fst (h_open io (FData id) true f))).
  { unfold h_open, flushed in *. destruct (io =? io_MMap).
    - set (f0 := mkLf _ _ _ _ _ _).
      pose proof (h_remap_dur (FData id) f0 (lf_phys f) mmapBlockSize) as Hd.
      pose proof (h_remap_same (FData id) f0 (lf_phys f) mmapBlockSize) as [_ Hs].
      destruct (h_remap _ f0 _ _). cbn [fst] in *. rewrite Hd, Hs. cbn. congruence.
    - cbn. congruence. }
  destruct (h_open io (FData id) true f) as [f' e1]. specialize (IH (Forall_inv_tail H)).
  destruct (open_all io files) as [rest e2]. cbn [fst] in *. constructor; assumption.
Qed.

Lemma replay_recs_bw : forall rps d te, d_bytes_write (fst (replay_recs d te rps)) = d_bytes_write d.
Proof.
  induction rps as [|[r p] rps IH]; intros d te; cbn [replay_recs fst]; [reflexivity|].
  destruct (r_batch r =? 0).
  - rewrite IH, update_index_eq. change (index_step d r p) with (apply_staged d [(r, p)]). apply apply_staged_bw.
  - destruct (r_type r =? rt_BatchFinished); [|apply IH]. rewrite IH, fold_update_index. apply apply_staged_bw.
Qed.
Lemma replay_files_files : forall files d te from,
  d_active (fst (replay_files d te files from)) = d_active d /\ d_older (fst (replay_files d te files from)) = d_older d /\
  d_bytes_write (fst (replay_files d te files from)) = d_bytes_write d.
Proof.
  induction files as [|[id f] files IH]; intros d te from; cbn [replay_files fst]; [auto|].
  destruct (id <? from); [apply IH|].
  destruct (replay_recs_files (lf_recs f) d te) as (_ & F2 & F3). pose proof (replay_recs_bw (lf_recs f) d te) as F4.
  destruct (replay_recs d te (lf_recs f)) as [d1 t1]. cbn [fst] in *.
  destruct (IH d1 t1 from) as (G2 & G3 & G4). split; [congruence|]. split; congruence.
Qed.

Lemma split_last_forall {A} (P : A -> Prop) (l : list A) i z :
  Forall P l -> split_last l = Some (i, z) -> Forall P i /\ P z.
Proof.
  intros H Hs. pose proof (split_last_spec l) as Hsp. rewrite Hs in Hsp. subst l.
  apply Forall_app in H. destruct H as [H1 H2]. split; [exact H1|exact (Forall_inv H2)].
Qed.

Lemma db_open_flushed c k d k' evs :
  k_merge k = None -> Forall (fun x => flushed (snd x) /\ lf_phys (snd x) = lf_size (snd x)) (k_data k) ->
  db_open c k = (OpenOk d k', evs) ->
  flushed (d_active d) /\ older_flushed d /\ d_bytes_write d = 0.
Proof.
  intros Hnm Hfl H. unfold db_open, load_merge_files in H. rewrite Hnm in H.
  pose proof (open_files_flushed (c_io c) (k_data k) Hfl) as Hof.
  destruct (open_all (c_io c) (k_data k)) as [files ev2]. cbn [fst] in Hof.
  change (0 <? 0) with false in H. cbn -[h_open db_rotate replay_files split_last] in H.
  destruct (split_last files) as [[older [aid af]]|] eqn:Esl.
  - destruct (split_last_forall _ _ _ _ Hof Esl) as [Ho Ha]. cbn [snd] in Ha.
    destruct (replay_files_files files (mkDb c aid af older [] 0 0 0) [] 0) as (G2 & G3 & G4).
    destruct (replay_files (mkDb c aid af older [] 0 0 0) [] files 0) as [d3 t3]. cbn [fst d_active d_older d_bytes_write] in *.
    destruct ((0 <=? aid) && lf_torn af).
    + destruct (db_rotate d3) as [d4 ev5] eqn:Hrot. injection H as <- _ _.
      assert (Hof3 : older_flushed d3) by (unfold older_flushed; rewrite G3; exact Ho).
      destruct (db_rotate_sync _ _ _ Hof3 Hrot) as ((_ & _ & Hof4) & Hfl4 & _).
      split; [exact Hfl4|]. split; [exact Hof4|].
      unfold db_rotate in Hrot. destruct (h_sync _ _). destruct (h_open _ _ _ _). injection Hrot as <- _. reflexivity.
    + injection H as <- _ _. unfold older_flushed. rewrite G2, G3, G4. auto.
  - pose proof (h_open_new_dur (c_io c) (FData 0)) as Hn.
    destruct (h_open (c_io c) (FData 0) false lf_empty) as [n ev]. cbn [fst] in Hn.
    destruct (replay_files_files files (mkDb c 0 n [] [] 0 0 0) [] 0) as (G2 & G3 & G4).
    destruct (replay_files (mkDb c 0 n [] [] 0 0 0) [] files 0) as [d3 t3]. cbn [fst andb d_active d_older d_bytes_write] in *.
    injection H as <- _ _. unfold older_flushed. rewrite G2, G3, G4. split; [exact Hn|]. split; [constructor|reflexivity].
Qed.

Lemma restart_sync d k m c k1 ev1 d' k2 ev2 :
  LogInv d m -> k_merge k = None -> db_close d k = (k1, ev1) -> db_open c k1 = (OpenOk d' k2, ev2) -> SyncInv d'.
Proof.
  intros HL Hnm Hc Ho.
  destruct (restart_spec d k m c k1 ev1 HL Hnm Hc) as (d0 & k0 & e0 & Ho0 & HL' & _).
  rewrite Ho in Ho0. injection Ho0 as <- _ _.
  assert (Hk1 : k_merge k1 = None /\ Forall (fun x => flushed (snd x) /\ lf_phys (snd x) = lf_size (snd x)) (k_data k1)).
  { destruct (db_close_spec _ _ _ _ _ HL Hnm Hc) as ((Hnm1 & _ & Hok) & _).
    pose proof (db_close_flushes _ _ _ _ Hc) as Hfl. split; [exact Hnm1|].
    rewrite Forall_forall in *. intros x Hin. split; [apply Hfl; exact Hin|]. exact (proj2 (proj2 (Hok x Hin))). }
  destruct Hk1 as [Hnm1 Hfl1].
  destruct (db_open_flushed c k1 d' k2 ev2 Hnm1 Hfl1 Ho) as (Ha & Hof & Hbw).
  destruct HL' as [(HI' & _) _]. destruct HI' as [[Hact _] _].
  unfold SyncInv, unflushed_plain. unfold flushed in Ha. split; [lia|]. split; [|exact Hof].
  rewrite (plain_beyond_flushed (lf_recs (d_active d')) (lf_size (d_active d'))); [lia| |lia].
  intros r p Hin. apply (Hact r p). exact Hin.
Qed.

(* every step of every merge-free script keeps the sync invariant *)
Theorem step_sync d k m o d' k' r evs :
  LogInv d m -> SyncInv d -> k_merge k = None -> op_ok o -> step (d, k) o = ((d', k'), r, evs) -> SyncInv d'.
Proof.
  intros HL HS Hnm Hok H. pose proof HL as [(HI & HO & HP & HR & Hm) Ht].
  destruct o as [key v|key|key| | | | |sync id bops|order|c]; cbn [step] in H.
  - destruct (db_put d key v) as [[d1 e] ev1] eqn:Hp. injection H as <- _ _ _.
    destruct e as [e|]; [|exact (proj1 (db_put_sync _ _ _ _ _ (proj1 HI) HS Hp))].
    unfold db_put in Hp. destruct (len key =? 0); [injection Hp as <- _ _; exact HS|].
    destruct (db_append _ _) as [[dd pp] ee]. destruct (idx_put _ _ _). discriminate.
  - destruct (db_get d key) as [[d1 v] ev1] eqn:Hg. injection H as <- _ _ _. eapply db_get_sync; eassumption.
  - destruct (db_delete d key) as [[d1 e] ev1] eqn:Hp. injection H as <- _ _ _.
    destruct (db_delete_spec _ _ _ _ _ _ HI HR Hp) as (_ & He & _).
    destruct e as [e|]; [|exact (proj1 (db_delete_sync _ _ _ _ (proj1 HI) HS Hp))].
    unfold s_del in He. unfold db_delete in Hp. destruct (len key =? 0); [injection Hp as <- _ _; exact HS|]. cbn in He. discriminate.
  - injection H as <- _ _ _. exact HS.
  - destruct (db_fold d) as [[d1 rr] ev1] eqn:Hf. injection H as <- _ _ _. eapply db_fold_aux_sync; eassumption.
  - unfold db_stat in H. injection H as <- _ _ _. exact HS.
  - destruct (db_sync d) as [d1 ev1] eqn:Hs. injection H as <- _ _ _. eapply db_sync_sync; [exact (proj1 HI)|exact HS|exact Hs].
  - destruct (run_bops d (new_batch sync id) bops) as [[[d1 b1] rs] ev1] eqn:Hr.
    destruct (batch_commit d1 b1) as [[[d2 b2] e] ev2] eqn:Hc. injection H as <- _ _ _.
    pose proof (BRel_start d m sync id HI HR) as HB0.
    destruct (run_bops_spec _ _ _ _ _ _ _ _ HI HB0 Hr) as (HI1 & HB1 & _ & _).
    destruct (run_bops_sync _ _ _ _ _ _ _ _ HI HB0 HS Hok Hr) as [HS1 Hid1]. cbn [new_batch b_id] in Hid1.
    destruct HB1 as (md & _ & _ & _ & _ & Hnc).
    exact (proj1 (batch_commit_sync _ _ _ _ _ _ HI1 HS1 ltac:(rewrite Hid1; exact Hok) Hnc Hc)).
  - destruct Hok.
  - destruct (db_close d k) as [k1 ev1] eqn:Hc.
    destruct (restart_spec d k m c k1 ev1 HL Hnm Hc) as (d1 & k2 & ev2 & Ho & _).
    rewrite Ho in H. injection H as <- _ _ _. eapply restart_sync; eassumption.
Qed.

Theorem run_sync : forall ops d k m s' rs evs,
  LogInv d m -> SyncInv d -> k_merge k = None -> Forall op_ok ops -> run (d, k) ops = (s', rs, evs) ->
  SyncInv (fst s').
Proof.
  induction ops as [|o ops IH]; intros d k m s' rs evs HL HS Hnm Hok Hrun; cbn [run] in Hrun.
  - injection Hrun as <- _ _. exact HS.
  - inversion Hok as [|? ? Ho Hrest]; subst.
    destruct (step (d, k) o) as [[[d1 k1] r] ev1] eqn:Hst.
    destruct (run (d1, k1) ops) as [[s2 rs2] ev2] eqn:Hr2. injection Hrun as <- _ _.
    destruct (step_log _ _ _ _ _ _ _ _ HL Hnm Ho Hst) as (HL1 & Hnm1 & _).
    pose proof (step_sync _ _ _ _ _ _ _ _ HL HS Hnm Ho Hst) as HS1.
    eapply IH; eassumption.
Qed.

Lemma open_empty_sync c d k evs : db_open c empty_disk = (OpenOk d k, evs) -> SyncInv d.
Proof.
  intros Ho. destruct (db_open_flushed c empty_disk d k evs eq_refl (Forall_nil _) Ho) as (Ha & Hof & Hbw).
  destruct (open_empty_log c) as (d0 & k0 & e0 & Ho0 & HL & _). rewrite Ho in Ho0. injection Ho0 as <- _ _.
  destruct HL as [(HI & _) _]. destruct HI as [[Hact _] _].
  unfold SyncInv, unflushed_plain. unfold flushed in Ha. split; [lia|]. split; [|exact Hof].
  rewrite (plain_beyond_flushed (lf_recs (d_active d)) (lf_size (d_active d))); [lia| |lia].
  intros r p Hin. apply (Hact r p). exact Hin.
Qed.
