(* ChunkProofs.v — the framing layer: a chunk decodes to what was encoded, never panics. *)
From Coq Require Import ZArith Lia ZifyN ZifyNat ZifyBool.
From KV Require Import Bytes GenConsts Chunk BytesLemmas.
Open Scope N_scope.
Ltac Zify.zify_post_hook ::= Z.div_mod_to_equations.

(* tie to the regenerated constants: these break when the source constants change *)
Lemma blockSize_val : blockSize = 32768. Proof. reflexivity. Qed.
Lemma chunkHeaderSize_val : chunkHeaderSize = 7. Proof. reflexivity. Qed.
Lemma ct_vals : ct_Full = 0 /\ ct_First = 1 /\ ct_Middle = 2 /\ ct_Last = 3.
Proof. repeat split; reflexivity. Qed.

Lemma gslice_ok i j (l : bytes) : i <= j -> j <= len l -> gslice i j l = Some (take (j - i) (drop i l)).
Proof. intros H1 H2. unfold gslice. rewrite slice_eq.
  destruct (i <=? j) eqn:E1; [|lia]. destruct (j <=? len l) eqn:E2; [|lia]. reflexivity. Qed.
Lemma gslice_some i j (l : bytes) : i <= j -> j <= len l -> exists s, gslice i j l = Some s.
Proof. intros. eexists. apply gslice_ok; assumption. Qed.
Lemma gindex_ok i (l : bytes) : i < len l -> exists x, gindex i l = Some x.
Proof. intros H. unfold gindex. rewrite fdrop_eq.
  destruct (drop i l) as [|x r] eqn:E; [|eauto].
  assert (len (drop i l) = 0) by (rewrite E; reflexivity). rewrite len_drop in H0. lia. Qed.
Lemma gindex_app_exact (a : bytes) x b : gindex (len a) (a ++ x :: b) = Some x.
Proof. unfold gindex. rewrite fdrop_eq, drop_app_exact by reflexivity. reflexivity. Qed.

Section WithCrc.
Variable crc : bytes -> N.
Hypothesis crc_u32 : forall b, crc b < 4294967296.

Notation chunk_header := (chunk_header crc).
Notation enc_chunk := (enc_chunk crc).
Notation decode_chunk := (decode_chunk crc).

Lemma len_chunk_header ty p : len (chunk_header ty p) = 7.
Proof. unfold Chunk.chunk_header. rewrite !len_app, len_le32, len_le16, len_cons, len_nil. reflexivity. Qed.
Lemma len_enc_chunk c : len (enc_chunk c) = 7 + len (snd c).
Proof. unfold Chunk.enc_chunk. rewrite len_app, len_chunk_header. reflexivity. Qed.

(* DecodeChunk never panics, whatever the bytes *)
Lemma decode_chunk_no_panic c : decode_chunk c <> Panic /\ decode_chunk c <> OutOfFuel.
Proof.
  unfold Chunk.decode_chunk. rewrite chunkHeaderSize_val.
  destruct (len c <? 7) eqn:E1; [split; discriminate|].
  destruct (gslice_some 4 6 c) as [lb Hlb]; [lia|lia|]. rewrite Hlb.
  destruct (len c <? 7 + rd16 lb) eqn:E2; [split; discriminate|].
  destruct (gslice_some 4 (7 + rd16 lb) c) as [b Hb]; [lia|lia|]. rewrite Hb.
  destruct (gslice_some 0 4 c) as [s Hs]; [lia|lia|]. rewrite Hs.
  destruct (gslice_some 7 (7 + rd16 lb) c) as [pl Hpl]; [lia|lia|]. rewrite Hpl.
  destruct (gindex_ok 6 c) as [t Ht]; [lia|]. rewrite Ht.
  destruct (rd32 s =? crc b); split; discriminate.
Qed.

(* a decoded payload is never longer than what the chunk holds *)
Lemma decode_chunk_len c d ty : decode_chunk c = Ok (d, ty) -> 7 + len d <= len c.
Proof.
  unfold Chunk.decode_chunk. rewrite chunkHeaderSize_val.
  destruct (len c <? 7) eqn:E1; [discriminate|].
  rewrite (gslice_ok 4 6 c) by lia.
  set (l := rd16 (take (6 - 4) (drop 4 c))).
  destruct (len c <? 7 + l) eqn:E2; [discriminate|].
  rewrite (gslice_ok 4 (7 + l) c), (gslice_ok 0 4 c), (gslice_ok 7 (7 + l) c) by lia.
  destruct (gindex 6 c); [|discriminate].
  destruct (_ =? _); [|discriminate]. intros [= <- <-].
  assert (Hl : 7 + l - 7 <= len (drop 7 c)) by (rewrite len_drop; lia).
  rewrite (len_take_le _ _ Hl). lia.
Qed.

(* decoding an encoded chunk returns its payload and type, whatever follows it *)
Lemma decode_enc ty p rest :
  len p < 65536 -> decode_chunk (enc_chunk (ty, p) ++ rest) = Ok (p, ty).
Proof.
  intros Hp. unfold Chunk.decode_chunk, Chunk.enc_chunk. cbn [fst snd].
  rewrite chunkHeaderSize_val.
  set (c := (chunk_header ty p ++ p) ++ rest).
  assert (Hc : len c = 7 + len p + len rest) by (unfold c; rewrite !len_app, len_chunk_header; lia).
  destruct (len c <? 7) eqn:E1; [lia|].
  assert (Hexp : c = le32 (crc (chunk_body ty p)) ++ (le16 (len p) ++ [ty]) ++ p ++ rest).
  { unfold c, Chunk.chunk_header. rewrite <- !app_assoc. reflexivity. }
  assert (Hd4 : drop 4 c = (le16 (len p) ++ [ty]) ++ p ++ rest).
  { rewrite Hexp. apply drop_app_exact. reflexivity. }
  rewrite (gslice_ok 4 6 c) by lia.
  assert (Hl : rd16 (take (6 - 4) (drop 4 c)) = len p).
  { rewrite Hd4. rewrite <- app_assoc. rewrite take_app_exact by reflexivity.
    rewrite <- (app_nil_r (le16 (len p))). apply rd16_le16; exact Hp. }
  rewrite Hl.
  destruct (len c <? 7 + len p) eqn:E2; [lia|].
  rewrite (gslice_ok 4 (7 + len p) c), (gslice_ok 0 4 c), (gslice_ok 7 (7 + len p) c) by lia.
  assert (Hi : gindex 6 c = Some ty).
  { rewrite Hexp. replace (le32 (crc (chunk_body ty p)) ++ (le16 (len p) ++ [ty]) ++ p ++ rest)
      with ((le32 (crc (chunk_body ty p)) ++ le16 (len p)) ++ ty :: p ++ rest)
      by (rewrite <- !app_assoc; reflexivity).
    apply (gindex_app_exact (le32 (crc (chunk_body ty p)) ++ le16 (len p))). }
  rewrite Hi.
  assert (Hbody : take (7 + len p - 4) (drop 4 c) = chunk_body ty p).
  { rewrite Hd4. rewrite app_assoc. apply take_app_exact. unfold chunk_body.
    rewrite !len_app, len_le16, len_cons, len_nil. lia. }
  rewrite Hbody.
  assert (Hsum : rd32 (take (4 - 0) (drop 0 c)) = crc (chunk_body ty p)).
  { rewrite drop_0, Hexp. rewrite take_app_exact by reflexivity.
    rewrite <- (app_nil_r (le32 _)). apply rd32_le32. apply crc_u32. }
  rewrite Hsum, N.eqb_refl.
  assert (Hpay : take (7 + len p - 7) (drop 7 c) = p).
  { replace (drop 7 c) with (drop 3 (drop 4 c)) by (rewrite drop_drop; reflexivity). rewrite Hd4.
    rewrite drop_app_exact by reflexivity.
    apply take_app_exact. lia. }
  rewrite Hpay. reflexivity.
Qed.

End WithCrc.
