(* EngineMerge.v — what Merge writes: the rewritten files hold, as plain records, exactly the
   records the index points to (one per live key, with its current value), the hint file lists
   their keys and new positions in the same order (C18), and replaying the rewritten files yields
   the mapping of the database at the time of the merge (C06). *)
From Coq Require Import ZArith Lia ZifyN ZifyNat ZifyBool Sorting.Sorted.
From KV Require Import Bytes GenConsts Chunk Record Engine Script BytesLemmas AMapLemmas
  EngineFiles EngineInv EngineBatch EngineRefine EngineLog EngineRecover EngineOpen EngineAdopt.
Open Scope N_scope.

(* ---- the output side: mergeDB ------------------------------------------------------------------------ *)
Definition ms_recs (m : mstate) : list (record * pos) := recs_of (ms_older m) ++ lf_recs (ms_active m).

(* files part of the invariant of the merge output *)
Definition MF (m : mstate) : Prop :=
  wf_lfile (ms_active m) /\ pos_ok (ms_active_id m) (ms_active m) /\
  ids_below (ms_older m) (ms_active_id m) /\
  Forall (fun x => wf_lfile (snd x) /\ pos_ok (fst x) (snd x)) (ms_older m) /\
  (forall x, x < ms_active_id m -> older_get (ms_older m) x <> None).
(* hint part: one hint entry per rewritten record, same order; only plain live records *)
Definition MH (m : mstate) : Prop :=
  hf_recs (ms_hint m) = hint_of (ms_recs m) /\ Forall (fun rp => plain_live (fst rp)) (ms_recs m).

Lemma recs_of_single id f : recs_of [(id, f)] = lf_recs f.
Proof. unfold recs_of. cbn [map concat snd]. apply app_nil_r. Qed.

Lemma older_get_app_last o id f x : ids_below o id ->
  older_get (o ++ [(id, f)]) x = if x =? id then Some f else older_get o x.
Proof. intros H. rewrite <- (older_set_append o id f H). apply older_get_set. Qed.

Lemma ms_append_spec c m r m' p evs :
  MF m -> ms_append c m r = (m', p, evs) ->
  MF m' /\ ms_recs m' = ms_recs m ++ [(r, p)] /\ ms_hint m' = ms_hint m /\ ms_active_id m <= ms_active_id m'.
Proof.
  intros (Hwf & Hpo & Hbel & Hall & Hpres) Happ. unfold ms_append in Happ.
  set (est := disk_size_estimate (len (r_key r)) (len (r_value r))) in *.
  destruct (if c_fsize c <? lf_size (ms_active m) + est then _ else (m, [])) as [m1 ev1] eqn:Hrot.
  assert (H1 : MF m1 /\ ms_recs m1 = ms_recs m /\ ms_hint m1 = ms_hint m /\ ms_active_id m <= ms_active_id m1).
  { destruct (c_fsize c <? lf_size (ms_active m) + est).
    - pose proof (h_sync_same (MData (ms_active_id m)) (ms_active m)) as [Hs1 Hs2].
      destruct (h_sync (MData (ms_active_id m)) (ms_active m)) as [a e1]. cbn [fst] in *.
      pose proof (h_open_new (c_io c) (MData (ms_active_id m + 1))) as [Hn1 Hn2].
      destruct (h_open (c_io c) (MData (ms_active_id m + 1)) false lf_empty) as [n e2]. cbn [fst] in *.
      injection Hrot as <- <-. unfold MF, ms_recs. cbn [ms_active ms_active_id ms_older ms_hint].
      rewrite (older_set_append _ _ a Hbel), recs_of_app, recs_of_single, Hs1, Hn1, app_nil_r.
      split; [|split; [reflexivity|split; [reflexivity|lia]]].
      split; [intros r0 p0 Hin; rewrite Hn1 in Hin; destruct Hin|].
      split; [intros r0 p0 Hin; rewrite Hn1 in Hin; destruct Hin|].
      split; [apply ids_below_app; exact Hbel|].
      split.
      + apply Forall_app. split; [exact Hall|]. constructor; [|constructor]. cbn [fst snd]. split.
        * intros r0 p0 Hin. rewrite Hs1 in Hin. rewrite Hs2. apply (Hwf r0 p0). exact Hin.
        * eapply pos_ok_same; eassumption.
      + intros x Hx. rewrite (older_get_app_last _ _ _ _ Hbel). destruct (x =? ms_active_id m) eqn:E; [discriminate|].
        apply Hpres. lia.
    - injection Hrot as <- <-. split; [unfold MF; auto|]. split; [reflexivity|split; [reflexivity|lia]]. }
  destruct H1 as ((Hwf1 & Hpo1 & Hbel1 & Hall1 & Hpres1) & Hrecs1 & Hh1 & Hid1).
  destruct (lf_append (c_io c) (MData (ms_active_id m1)) (ms_active_id m1) (ms_active m1) r) as [[a p0] ev2] eqn:Hla.
  destruct (lf_append_spec _ _ _ _ _ _ _ _ Hwf1 Hla) as (Hwfa & Hra & Hfid & Hge & Hoff & Hsz & Hpsz & Hnone).
  injection Happ as <- <- <-. unfold MF, ms_recs in *. cbn [ms_active ms_active_id ms_older ms_hint].
  split; [|split; [rewrite Hra, app_assoc, Hrecs1; reflexivity|split; [exact Hh1|exact Hid1]]].
  split; [exact Hwfa|]. split; [eapply pos_ok_append; eassumption|]. auto.
Qed.

Lemma ms_hint_append_spec c m k p m' evs :
  ms_hint_append c m k p = (m', evs) ->
  ms_active_id m' = ms_active_id m /\ ms_active m' = ms_active m /\ ms_older m' = ms_older m /\
  hf_recs (ms_hint m') = hf_recs (ms_hint m) ++ [(k, p)].
Proof.
  unfold ms_hint_append.
  destruct (frame 0 (hf_size (ms_hint m) / blockSize) (hf_size (ms_hint m) mod blockSize) (hint_len k p)) as [[q b'] s'].
  intros [= <- _]. cbn. auto.
Qed.

(* ---- the scan of one input file ----------------------------------------------------------------------- *)
Definition plainify (r : record) : record := mkRec (r_type r) (r_key r) (r_value r) 0.
Definition live_in (ix : index) (fid : N) (rp : record * pos) : bool :=
  match idx_get ix (r_key (fst rp)) with
  | Some q => (p_fid q =? fid) && (p_off q =? p_off (snd rp)) && (p_bid q =? p_bid (snd rp))
  | None => false
  end.
Definition rewritten (ix : index) (fid : N) (rs : list (record * pos)) : list record :=
  map (fun rp => plainify (fst rp)) (filter (live_in ix fid) rs).

Lemma merge_file_spec c ix fid nm : forall rs m res evs,
  MF m -> MH m -> ms_active_id m < nm ->
  Forall (fun rp => live_in ix fid rp = true -> (r_type (fst rp) =? rt_Deleted) = false) rs ->
  merge_file c ix fid nm m rs = (res, evs) ->
  match res with
  | MsOk m' => MF m' /\ MH m' /\ ms_active_id m' < nm /\
               map fst (ms_recs m') = map fst (ms_recs m) ++ rewritten ix fid rs
  | MsErr _ _ => True
  end.
Proof.
  induction rs as [|[r p] rs IH]; intros m res evs HF HH Hlt Hty Hm; cbn [merge_file] in Hm.
  - injection Hm as <- <-. unfold rewritten. cbn [filter map]. rewrite app_nil_r. auto.
  - pose proof (Forall_inv Hty) as Hty1. pose proof (Forall_inv_tail Hty) as Hty2.
    unfold rewritten. cbn [filter]. unfold live_in at 1. cbn [fst snd] in *.
    unfold live_in in Hty1. cbn [fst snd] in Hty1.
    destruct (idx_get ix (r_key r)) as [q|]; [|apply (IH m res evs HF HH Hlt Hty2 Hm)].
    destruct ((p_fid q =? fid) && (p_off q =? p_off p) && (p_bid q =? p_bid p)); [|apply (IH m res evs HF HH Hlt Hty2 Hm)].
    destruct (ms_append c m (mkRec (r_type r) (r_key r) (r_value r) 0)) as [[m1 np] ev1] eqn:Happ.
    destruct (ms_append_spec _ _ _ _ _ _ HF Happ) as (HF1 & Hrecs1 & Hh1 & Hid1).
    destruct (nm <=? ms_active_id m1) eqn:Enm; [injection Hm as <- _; exact I|].
    destruct (ms_hint_append c m1 (r_key r) np) as [m2 ev2] eqn:Hha.
    destruct (ms_hint_append_spec _ _ _ _ _ _ Hha) as (A & B & C & D).
    destruct (merge_file c ix fid nm m2 rs) as [res3 ev3] eqn:Hrest. injection Hm as <- <-.
    assert (Hrecs2 : ms_recs m2 = ms_recs m ++ [(plainify r, np)]) by (unfold ms_recs; rewrite B, C; exact Hrecs1).
    assert (HF2 : MF m2) by (unfold MF; rewrite A, B, C; exact HF1).
    assert (HH2 : MH m2).
    { destruct HH as [Hh Hpl]. split.
      - rewrite D, Hh1, Hh, Hrecs2. unfold hint_of. rewrite map_app. reflexivity.
      - rewrite Hrecs2. apply Forall_app. split; [exact Hpl|]. constructor; [|constructor].
        split; [reflexivity|]. cbn [fst plainify r_type]. apply Hty1. reflexivity. }
    specialize (IH m2 res3 ev3 HF2 HH2 ltac:(rewrite A; lia) Hty2 Hrest).
    destruct res3 as [m'|]; [|exact I]. destruct IH as (I1 & I2 & I3 & I4).
    split; [exact I1|]. split; [exact I2|]. split; [exact I3|].
    rewrite I4, Hrecs2, map_app. cbn [map fst]. rewrite <- app_assoc. reflexivity.
Qed.

(* ---- the scan of all input files, in the order the implementation happened to use -------------------- *)
Definition frecs (d : db) (fid : N) : list (record * pos) :=
  match older_get (d_older d) fid with Some f => lf_recs f | None => [] end.
Definition merged_log (d : db) (order : list N) : list record :=
  concat (map (fun fid => rewritten (d_index d) fid (frecs d fid)) order).
Definition live_typed (d : db) : Prop :=
  forall fid rp, In rp (frecs d fid) -> live_in (d_index d) fid rp = true -> (r_type (fst rp) =? rt_Deleted) = false.

Lemma frecs_touch d fid f f' x : older_get (d_older d) fid = Some f -> lf_recs f' = lf_recs f ->
  frecs (set_older d (older_set (d_older d) fid f')) x = frecs d x.
Proof.
  intros Hg Hr. unfold frecs. cbn [set_older d_older]. rewrite older_get_set.
  destruct (x =? fid) eqn:E; [|reflexivity]. assert (x = fid) by lia. subst x. rewrite Hg. exact Hr.
Qed.

Lemma merge_files_out c nm : forall order d m d' res evs,
  InvF d -> MF m -> MH m -> ms_active_id m < nm -> live_typed d ->
  merge_files c d order nm m = (d', res, evs) ->
  match res with
  | MsOk m' => MF m' /\ MH m' /\ ms_active_id m' < nm /\
               map fst (ms_recs m') = map fst (ms_recs m) ++ merged_log d order
  | MsErr _ _ => True
  end.
Proof.
  induction order as [|fid order IH]; intros d m d' res evs HFd HF HH Hlt Hty Hm; cbn [merge_files] in Hm.
  - injection Hm as _ <- _. unfold merged_log. cbn [map concat]. rewrite app_nil_r. auto.
  - unfold merged_log. cbn [map concat]. fold (merged_log d order).
    unfold frecs at 1. destruct (older_get (d_older d) fid) as [f|] eqn:Hg.
    + pose proof (scan_touch_same (c_io c) (FData fid) f) as [Hr Hs].
      destruct (scan_touch (c_io c) (FData fid) f) as [f' ev0]. cbn [fst] in Hr, Hs.
      set (d1 := set_older d (older_set (d_older d) fid f')) in *.
      destruct (touch_older_spec d fid f f' HFd Hg Hr Hs) as [HFd1 _]. fold d1 in HFd1.
      destruct (merge_file c (d_index d1) fid nm m (lf_recs f')) as [res1 ev1] eqn:Hmf.
      assert (Hty1 : Forall (fun rp => live_in (d_index d) fid rp = true -> (r_type (fst rp) =? rt_Deleted) = false) (lf_recs f)).
      { apply Forall_forall. intros rp Hin. apply Hty. unfold frecs. rewrite Hg. exact Hin. }
      change (d_index d1) with (d_index d) in Hmf. rewrite Hr in Hmf.
      pose proof (merge_file_spec c (d_index d) fid nm (lf_recs f) m res1 ev1 HF HH Hlt Hty1 Hmf) as H1.
      destruct res1 as [m1|e1 m1]; [|injection Hm as _ <- _; exact I].
      destruct H1 as (HF1 & HH1 & Hlt1 & Hrecs1).
      destruct (merge_files c d1 order nm m1) as [[d2 res2] ev2] eqn:Hrest. injection Hm as _ <- _.
      assert (Hty' : live_typed d1).
      { intros x rp Hin. unfold d1 in Hin. rewrite (frecs_touch d fid f f' x Hg Hr) in Hin. apply Hty. exact Hin. }
      specialize (IH d1 m1 d2 res2 ev2 HFd1 HF1 HH1 Hlt1 Hty' Hrest).
      destruct res2 as [m2|]; [|exact I]. destruct IH as (I1 & I2 & I3 & I4).
      split; [exact I1|]. split; [exact I2|]. split; [exact I3|].
      rewrite I4, Hrecs1, <- app_assoc. f_equal. f_equal.
      unfold merged_log. change (d_index d1) with (d_index d). f_equal. apply map_ext. intros x.
      unfold d1. rewrite (frecs_touch d fid f f' x Hg Hr). reflexivity.
    + unfold rewritten. cbn [filter map app]. apply (IH d m d' res evs HFd HF HH Hlt Hty Hm).
Qed.

(* ---- what the rewritten records denote --------------------------------------------------------------- *)
Fixpoint lastv (L : list record) (k : bytes) (init : option bytes) : option bytes :=
  match L with
  | [] => init
  | r :: rest => lastv rest k (if bytes_eqb k (r_key r) then Some (r_value r) else init)
  end.

Lemma apply_puts_get : forall L m k, Forall (fun r => (r_type r =? rt_Deleted) = false) L ->
  amap_get (s_apply_recs m L) k = lastv L k (amap_get m k).
Proof.
  induction L as [|r L IH]; intros m k Hty; [reflexivity|]. cbn [s_apply_recs fold_left lastv].
  change (fold_left rec_apply L (rec_apply m r)) with (s_apply_recs (rec_apply m r) L).
  rewrite (IH _ _ (Forall_inv_tail Hty)). unfold rec_apply. rewrite (Forall_inv Hty), amap_get_put. reflexivity.
Qed.

Lemma lastv_cases : forall L k init,
  (lastv L k init = init /\ forall r, In r L -> r_key r <> k) \/
  (exists r, In r L /\ r_key r = k /\ lastv L k init = Some (r_value r)).
Proof.
  induction L as [|r L IH]; intros k init; cbn [lastv]; [left; split; [reflexivity|intros ? []]|].
  destruct (bytes_eqb k (r_key r)) eqn:E.
  - apply bytes_eqb_eq in E. destruct (IH k (Some (r_value r))) as [[H1 H2]|(r' & H1 & H2 & H3)].
    + right. exists r. split; [left; reflexivity|]. split; [symmetry; exact E|exact H1].
    + right. exists r'. split; [right; exact H1|auto].
  - apply bytes_eqb_neq in E. destruct (IH k init) as [[H1 H2]|(r' & H1 & H2 & H3)].
    + left. split; [exact H1|]. intros r0 [<-|Hin]; [congruence|auto].
    + right. exists r'. split; [right; exact H1|auto].
Qed.

Lemma s_apply_recs_sorted : forall L m, sorted m -> sorted (s_apply_recs m L).
Proof.
  induction L as [|r L IH]; intros m Hs; [exact Hs|]. cbn [s_apply_recs fold_left]. apply IH.
  unfold rec_apply. destruct (r_type r =? rt_Deleted); [apply amap_del_sorted|apply amap_put_sorted]; exact Hs.
Qed.

(* a list of live records that has, for every key of M, some record and only records with M's value
   for their key, denotes M *)
Lemma puts_denote L M : sorted M -> Forall (fun r => (r_type r =? rt_Deleted) = false) L ->
  (forall r, In r L -> amap_get M (r_key r) = Some (r_value r)) ->
  (forall k v, amap_get M k = Some v -> exists r, In r L /\ r_key r = k) ->
  s_apply_recs [] L = M.
Proof.
  intros HsM Hty H1 H2. apply sorted_ext; [apply s_apply_recs_sorted; constructor|exact HsM|].
  intros k. rewrite (apply_puts_get L [] k Hty). cbn [amap_get].
  destruct (lastv_cases L k None) as [[Ha Hb]|(r & Ha & Hb & Hc)].
  - rewrite Ha. destruct (amap_get M k) as [v|] eqn:E; [|reflexivity].
    destruct (H2 k v E) as (r & Hin & Hk). exfalso. exact (Hb r Hin Hk).
  - rewrite Hc. rewrite <- Hb. symmetry. apply H1. exact Ha.
Qed.

(* a record the scan finds live is the record its key's index entry points to *)
Lemma live_rec d fid f r p :
  Inv d -> InvP d -> older_get (d_older d) fid = Some f -> In (r, p) (lf_recs f) ->
  live_in (d_index d) fid (r, p) = true ->
  exists q, idx_get (d_index d) (r_key r) = Some q /\ rec_at d q = Some r /\ (r_type r =? rt_Deleted) = false.
Proof.
  intros [[_ Hold] [_ Hres]] [_ Hpo] Hg Hin Hlive. unfold live_in in Hlive. cbn [fst snd] in Hlive.
  destruct (idx_get (d_index d) (r_key r)) as [q|] eqn:Eq; [|discriminate].
  exists q. split; [reflexivity|].
  destruct (Hres _ _ (amap_get_in _ _ _ Eq)) as (r' & Hr' & Hk & Hty).
  assert (Hq : p_fid q = fid /\ p_off q = p_off p /\ p_bid q = p_bid p) by lia. destruct Hq as (Q1 & Q2 & Q3).
  destruct (Hold _ _ Hg) as [_ Hlt]. destruct (Hpo _ _ Hg r p Hin) as [_ Hlk].
  assert (Hrq : rec_at d q = Some r).
  { unfold rec_at, file_of. rewrite Q1. destruct (fid =? d_active_id d) eqn:E; [lia|]. rewrite Hg, Q2, Q3. exact Hlk. }
  rewrite Hrq in Hr'. injection Hr' as <-. auto.
Qed.

Theorem merged_log_denotes d M order :
  Inv d -> InvP d -> R d M -> lf_recs (d_active d) = [] ->
  (forall fid f, older_get (d_older d) fid = Some f -> In fid order) ->
  live_typed d /\ s_apply_recs [] (merged_log d order) = M /\
  Forall (fun r => r_batch r = 0) (merged_log d order).
Proof.
  intros HI HP HR Hempty Hall.
  assert (Hsel : forall r0, In r0 (merged_log d order) ->
            exists fid f r p, In fid order /\ older_get (d_older d) fid = Some f /\ In (r, p) (lf_recs f) /\
                              live_in (d_index d) fid (r, p) = true /\ r0 = plainify r).
  { intros r0 Hin. unfold merged_log in Hin. apply in_concat in Hin. destruct Hin as (l & Hl & Hr0).
    apply in_map_iff in Hl. destruct Hl as (fid & <- & Hfid). unfold rewritten in Hr0.
    apply in_map_iff in Hr0. destruct Hr0 as ([r p] & <- & Hf). apply filter_In in Hf. destruct Hf as [Hf1 Hf2].
    unfold frecs in Hf1. destruct (older_get (d_older d) fid) as [f|] eqn:Hg; [|destruct Hf1].
    exists fid, f, r, p. auto. }
  assert (Hty : live_typed d).
  { intros fid [r p] Hin Hlive. unfold frecs in Hin. destruct (older_get (d_older d) fid) as [f|] eqn:Hg; [|destruct Hin].
    destruct (live_rec d fid f r p HI HP Hg Hin Hlive) as (q & _ & _ & H). exact H. }
  split; [exact Hty|]. split.
  - apply puts_denote.
    + eapply R_sorted; eassumption.
    + apply Forall_forall. intros r0 Hin. destruct (Hsel r0 Hin) as (fid & f & r & p & _ & Hg & Hrp & Hlive & ->).
      destruct (live_rec d fid f r p HI HP Hg Hrp Hlive) as (q & _ & _ & H). exact H.
    + intros r0 Hin. destruct (Hsel r0 Hin) as (fid & f & r & p & _ & Hg & Hrp & Hlive & ->).
      destruct (live_rec d fid f r p HI HP Hg Hrp Hlive) as (q & Hq & Hrq & Hty0). cbn [plainify r_key r_value].
      pose proof (R_get d M (r_key r) HR) as HG. rewrite Hq in HG. destruct HG as (v & Hv & Hm).
      unfold val_at in Hv. rewrite Hrq, Hty0 in Hv. injection Hv as <-. exact Hm.
    + intros k v Hm. pose proof (R_get d M k HR) as HG.
      destruct (idx_get (d_index d) k) as [q|] eqn:Eq; [|rewrite HG in Hm; discriminate].
      destruct HI as [[_ Hold] [_ Hres]]. destruct (Hres _ _ (amap_get_in _ _ _ Eq)) as (r' & Hr' & Hk & Hty0).
      unfold rec_at, file_of in Hr'. destruct (p_fid q =? d_active_id d) eqn:Ea; [rewrite Hempty in Hr'; discriminate|].
      destruct (older_get (d_older d) (p_fid q)) as [f|] eqn:Hg; [|discriminate].
      destruct (lookup_in _ _ _ _ Hr') as (p & Hin & Hb & Ho).
      exists (plainify r'). split; [|exact Hk].
      unfold merged_log. apply in_concat. exists (rewritten (d_index d) (p_fid q) (frecs d (p_fid q))). split.
      * apply in_map_iff. exists (p_fid q). split; [reflexivity|exact (Hall _ _ Hg)].
      * unfold rewritten. apply in_map_iff. exists (r', p). split; [reflexivity|]. apply filter_In. split.
        -- unfold frecs. rewrite Hg. exact Hin.
        -- unfold live_in. cbn [fst snd]. rewrite Hk, Eq, Hb, Ho, !N.eqb_refl. reflexivity.
  - apply Forall_forall. intros r0 Hin. destruct (Hsel r0 Hin) as (_ & _ & r & _ & _ & _ & _ & _ & ->). reflexivity.
Qed.

(* ---- Merge as a whole ---------------------------------------------------------------------------------- *)
Lemma ms_close_older_spec io : forall files, Forall2 closed_of (fst (ms_close_older io files)) files.
Proof.
  induction files as [|[id f] files IH]; cbn [ms_close_older fst]; [constructor|].
  destruct (h_close_spec io (MData id) f) as (H1 & H2 & H3).
  destruct (h_close io (MData id) f) as [f' ev1]. destruct (ms_close_older io files) as [rest ev2]. cbn [fst] in *.
  constructor; [split; [reflexivity|auto]|exact IH].
Qed.
Lemma closed_recs_of a b : Forall2 closed_of a b -> recs_of a = recs_of b.
Proof. induction 1 as [|x y a b (_ & Hr & _) _ IH]; [reflexivity|]. unfold recs_of in *. cbn [map concat]. rewrite Hr, IH. reflexivity. Qed.
Lemma closed_get a b x : Forall2 closed_of a b -> (older_get a x = None <-> older_get b x = None).
Proof.
  induction 1 as [|[i f] [j g] a b (Hi & _) _ IH]; cbn [older_get]; [tauto|]. cbn in Hi. subst j.
  destruct (i =? x); [split; discriminate|exact IH].
Qed.

(* what a successful Merge leaves in the merge directory, relative to the mapping M of the database *)
Definition merge_dir_ok (md : mdir) (mid : N) (M : smap) : Prop :=
  exists n h, m_marker md = Some mid /\ m_hint md = Some h /\ 0 < n /\ n <= mid /\
    merged_ok (m_files md) n /\
    hf_recs h = hint_of (recs_of (m_files md)) /\
    Forall (fun rp => plain_live (fst rp)) (recs_of (m_files md)) /\
    s_apply_recs [] (files_log (m_files md)) = M.

(* the scan order observed from the implementation covers every data file of the database *)
Definition order_ok (d : db) (order : list N) : Prop :=
  forall fid, fid = d_active_id d \/ older_get (d_older d) fid <> None -> In fid order.

Lemma live_typed_holds d : Inv d -> InvP d -> live_typed d.
Proof.
  intros HI HP fid [r p] Hin Hlive. unfold frecs in Hin. destruct (older_get (d_older d) fid) as [f|] eqn:Hg; [|destruct Hin].
  destruct (live_rec d fid f r p HI HP Hg Hin Hlive) as (q & _ & _ & H). exact H.
Qed.

Theorem db_merge_out d k M order d' k' e evs :
  LogInv d M -> (e = None -> order_ok d order) -> db_merge d k order = (d', k', e, evs) ->
  LogInv d' M /\ k_data k' = k_data k /\ k_hint k' = k_hint k /\
  d_active_id d' = d_active_id d + 1 /\ lf_recs (d_active d') = [] /\
  match e with
  | None => exists md, k_merge k' = Some md /\ merge_dir_ok md (d_active_id d') M
  | Some _ => exists md, k_merge k' = Some md /\ m_marker md = None
  end.
Proof.
  intros HL Hord Hm. pose proof (db_merge_log _ _ _ _ _ _ _ _ HL Hm) as HL'.
  split; [exact HL'|]. pose proof HL as [(HI & HO & HP & HR & Hmm) Ht].
  unfold db_merge in Hm.
  destruct (db_rotate d) as [d1 ev1] eqn:Hrot.
  destruct (db_rotate_spec d d1 ev1 (proj1 HI) Hrot) as (HF1 & Hrec1 & Hix1 & Hcfg1 & _).
  assert (Hs1 : same_recs d d1) by (split; assumption).
  assert (HI1 : Inv d1) by (eapply Inv_same; eassumption).
  assert (HR1 : R d1 M) by (eapply R_same; eassumption).
  destruct (db_rotate_log _ _ _ (proj1 HI) HO HP Hrot) as (L1 & O1 & P1).
  assert (Hact1 : d_active_id d1 = d_active_id d + 1 /\ lf_recs (d_active d1) = [] /\
                  forall fid f, older_get (d_older d1) fid = Some f -> fid = d_active_id d \/ older_get (d_older d) fid <> None).
  { unfold db_rotate in Hrot.
    destruct (h_sync (FData (d_active_id d)) (d_active d)) as [a e1].
    pose proof (h_open_new (io_of d) (FData (d_active_id d + 1))) as [Hn _].
    destruct (h_open (io_of d) (FData (d_active_id d + 1)) false lf_empty) as [n e2]. cbn [fst] in Hn.
    injection Hrot as <- _. cbn [d_active_id d_active d_older]. split; [reflexivity|]. split; [exact Hn|].
    intros fid f Hg. rewrite older_get_set in Hg. destruct (fid =? d_active_id d) eqn:E; [left; lia|].
    right. rewrite Hg. discriminate. }
  destruct Hact1 as (Haid1 & Hemp1 & Hold1).
  pose proof (h_open_new (c_io (d_cfg d)) (MData 0)) as [Ha0 Ha0s].
  destruct (h_open (c_io (d_cfg d)) (MData 0) false lf_empty) as [a0 ev3]. cbn [fst] in Ha0, Ha0s.
  assert (Hh0 : hf_recs (fst (hf_open_new (c_io (d_cfg d)))) = []) by (unfold hf_open_new; destruct (_ =? _); reflexivity).
  destruct (hf_open_new (c_io (d_cfg d))) as [h0 ev4]. cbn [fst] in Hh0.
  set (m0 := mkMs 0 a0 [] h0) in *.
  assert (HF0 : MF m0).
  { unfold MF, m0. cbn [ms_active ms_active_id ms_older].
    split; [intros r p Hin; rewrite Ha0 in Hin; destruct Hin|].
    split; [intros r p Hin; rewrite Ha0 in Hin; destruct Hin|].
    split; [exact I|]. split; [constructor|]. intros x Hx. lia. }
  assert (HH0 : MH m0).
  { unfold MH, ms_recs, m0. cbn [ms_active ms_older ms_hint]. rewrite Ha0, Hh0. split; [reflexivity|constructor]. }
  pose proof (live_typed_holds d1 HI1 P1) as Hty.
  destruct (merge_files (d_cfg d) d1 order (d_active_id d1) m0) as [[d2 res] ev5] eqn:Hmf.
  pose proof (merge_files_out (d_cfg d) (d_active_id d1) order d1 m0 d2 res ev5 HF1 HF0 HH0
                ltac:(unfold m0; cbn [ms_active_id]; lia) Hty Hmf) as Hout.
  pose proof (merge_files_files _ _ _ _ _ _ _ _ O1 Hmf) as (Sf1 & Sf2 & _).
  destruct res as [m|er m].
  - destruct Hout as ((Hwf & Hpo & Hbel & Hall & Hpres) & (Hhint & Hpl) & Hlt & Hrecs).
    assert (Hh1 : hf_recs (fst (hf_close (c_io (d_cfg d)) (ms_hint m))) = hf_recs (ms_hint m))
      by (unfold hf_close; destruct (_ =? _); reflexivity).
    destruct (hf_close (c_io (d_cfg d)) (ms_hint m)) as [h1 ev6]. cbn [fst] in Hh1.
    destruct (h_close_spec (c_io (d_cfg d)) (MData (ms_active_id m)) (ms_active m)) as (A1 & A2 & A3).
    destruct (h_close (c_io (d_cfg d)) (MData (ms_active_id m)) (ms_active m)) as [a1 ev7]. cbn [fst] in *.
    pose proof (ms_close_older_spec (c_io (d_cfg d)) (ms_older m)) as Hcl.
    destruct (ms_close_older (c_io (d_cfg d)) (ms_older m)) as [o1 ev8]. cbn [fst] in Hcl.
    destruct (db_sync d2) as [d3 evS] eqn:Hsy.
    destruct (db_sync_files _ _ _ Hsy) as (Sg1 & Sg2 & _).
    rewrite <- Sg1 in Sf1. rewrite <- Sg2 in Sf2.
    injection Hm as <- <- <- _. cbn [k_data k_hint k_merge].
    destruct (merged_log_denotes d1 M order HI1 P1 HR1 Hemp1) as (_ & Hden & Hplain).
    { intros fid f Hg. apply (Hord eq_refl). exact (Hold1 _ _ Hg). }
    split; [reflexivity|]. split; [reflexivity|]. split; [congruence|]. split; [congruence|].
    eexists. split; [reflexivity|].
    pose proof (closed_ids_below _ _ _ Hcl Hbel) as Hbo.
    exists (ms_active_id m + 1), h1. cbn [m_marker m_hint m_files].
    rewrite (older_set_append o1 (ms_active_id m) a1 Hbo).
    assert (Hrecs_of : recs_of (o1 ++ [(ms_active_id m, a1)]) = ms_recs m).
    { rewrite recs_of_app, recs_of_single, (closed_recs_of _ _ Hcl), A1. reflexivity. }
    split; [rewrite Sf1; reflexivity|]. split; [reflexivity|]. split; [lia|]. split; [lia|].
    split; [|split; [|split]].
    + split; [apply ids_below_asc_app; exact Hbo|]. split.
      * apply Forall_app. split.
        -- apply (closed_file_ok _ _ Hcl). intros id f Hin. rewrite Forall_forall in Hall. exact (Hall _ Hin).
        -- constructor; [|constructor]. split; [|split]; cbn [fst snd].
           ++ intros r p Hrp. rewrite A1 in Hrp. rewrite A2. apply (Hwf r p). exact Hrp.
           ++ eapply pos_ok_same; eassumption.
           ++ congruence.
      * intros x. rewrite (older_get_app_last _ _ _ _ Hbo). destruct (x =? ms_active_id m) eqn:E.
        -- split; [lia|discriminate].
        -- split.
           ++ intros Hne. assert (Hx : x < ms_active_id m \/ ms_active_id m < x) by lia. destruct Hx as [Hx|Hx]; [lia|].
              exfalso. apply Hne. apply (closed_get _ _ x Hcl).
              clear - Hbel Hx. induction (ms_older m) as [|[i g] l IH]; cbn in *; [reflexivity|].
              destruct Hbel as (H1 & _ & H3). destruct (i =? x) eqn:E; [lia|auto].
           ++ intros Hx Hnone. apply (closed_get _ _ x Hcl) in Hnone. apply (Hpres x); [lia|exact Hnone].
    + rewrite Hrecs_of, Hh1. exact Hhint.
    + rewrite Hrecs_of. exact Hpl.
    + rewrite files_log_recs, Hrecs_of, Hrecs. unfold m0, ms_recs. cbn [ms_older ms_active recs_of map concat app].
      rewrite Ha0. cbn [map app]. exact Hden.
  - injection Hm as <- <- <- _. cbn [k_data k_hint k_merge].
    split; [reflexivity|]. split; [reflexivity|]. split; [congruence|]. split; [congruence|].
    eexists. split; reflexivity.
Qed.
