(* LockProofs.v — at most one open database per directory (C16). *)
From Coq Require Import List NArith Bool Lia.
From KV Require Import LockTable.
Import ListNotations.
Open Scope N_scope.

Definition LInv (t : ltable) : Prop := NoDup (map fst t).

Lemma holder_in t dir h : holder t dir = Some h -> In (dir, h) t.
Proof.
  induction t as [|[d h'] t IH]; cbn [holder]; [discriminate|]. destruct (d =? dir) eqn:E.
  - intros [= ->]. apply N.eqb_eq in E. subst. left. reflexivity.
  - intros H. right. auto.
Qed.
Lemma holder_none t dir : holder t dir = None <-> ~ In dir (map fst t).
Proof.
  induction t as [|[d h'] t IH]; cbn [holder map fst]; [split; [intros _ []|reflexivity]|].
  destruct (d =? dir) eqn:E.
  - apply N.eqb_eq in E. subst. split; [discriminate|intros H; exfalso; apply H; left; reflexivity].
  - apply N.eqb_neq in E. rewrite IH. split; [intros H [H1|H1]; [congruence|auto]|intros H H1; apply H; right; exact H1].
Qed.

Lemma release_sub t h : forall x, In x (release t h) -> In x t /\ snd x <> h.
Proof.
  induction t as [|[d h'] t IH]; cbn [release]; [intros x []|]. intros x. destruct (h' =? h) eqn:E.
  - intros H. destruct (IH x H). split; [right; assumption|assumption].
  - apply N.eqb_neq in E. intros [<-|H]; [split; [left; reflexivity|exact E]|]. destruct (IH x H). split; [right; assumption|assumption].
Qed.
Lemma release_keep t h x : In x t -> snd x <> h -> In x (release t h).
Proof.
  induction t as [|[d h'] t IH]; cbn [release]; [intros []|]. intros [<-|H] Hne.
  - cbn [snd] in Hne. destruct (h' =? h) eqn:E; [apply N.eqb_eq in E; contradiction|left; reflexivity].
  - destruct (h' =? h); [auto|right; auto].
Qed.
Lemma release_inv t h : LInv t -> LInv (release t h).
Proof.
  unfold LInv. induction t as [|[d h'] t IH]; cbn [release map fst]; [auto|]. intros H. inversion H; subst.
  destruct (h' =? h); [auto|]. cbn [map fst]. constructor; [|auto].
  intros Hin. apply H2. apply in_map_iff in Hin. destruct Hin as ([d2 h2] & Hd & Hx). cbn [fst] in Hd. subst d2.
  destruct (release_sub t h _ Hx) as [Hx' _]. apply in_map_iff. exists (d, h2). auto.
Qed.

Lemma fst_unique (t : ltable) dir a b : NoDup (map fst t) -> In (dir, a) t -> In (dir, b) t -> a = b.
Proof.
  induction t as [|[d0 h0] t IH]; intros Hnd Ha Hb; [destruct Ha|]. cbn [map fst] in Hnd. inversion Hnd as [|? ? Hnotin Hrest]; subst.
  destruct Ha as [Ea|Ha]; destruct Hb as [Eb|Hb].
  - congruence.
  - injection Ea as -> ->. exfalso. apply Hnotin. apply in_map_iff. exists (dir, b). auto.
  - injection Eb as -> ->. exfalso. apply Hnotin. apply in_map_iff. exists (dir, a). auto.
  - auto.
Qed.

Theorem lstep_inv t o t' r : LInv t -> lstep t o = (t', r) -> LInv t'.
Proof.
  intros HI. destruct o as [h dir fails|h]; cbn [lstep].
  - destruct (holder t dir) eqn:Eh; [intros [= <- _]; exact HI|]. destruct fails; intros [= <- _]; [exact HI|].
    unfold LInv. cbn [map fst]. constructor; [apply holder_none; exact Eh|exact HI].
  - destruct (holds t h); intros [= <- _]; [apply release_inv; exact HI|exact HI].
Qed.

Theorem lrun_inv : forall ops t t' rs, LInv t -> lrun t ops = (t', rs) -> LInv t'.
Proof.
  induction ops as [|o ops IH]; intros t t' rs HI H; cbn [lrun] in H; [injection H as <- _; exact HI|].
  destruct (lstep t o) as [t1 x] eqn:E1. destruct (lrun t1 ops) as [t2 xs] eqn:E2. injection H as <- _.
  exact (IH _ _ _ (lstep_inv _ _ _ _ HI E1) E2).
Qed.

(* While a directory is held every attempt to open it fails with "in use" and changes nothing; an
   attempt on a free directory takes the lock, or - when initialisation fails - leaves it free *)
Theorem open_outcomes t h dir fails :
  match holder t dir with
  | Some _ => lstep t (LOpen h dir fails) = (t, LInUse)
  | None => if fails then lstep t (LOpen h dir fails) = (t, LFailed)
            else lstep t (LOpen h dir fails) = ((dir, h) :: t, LOk) /\ holder ((dir, h) :: t) dir = Some h
  end.
Proof.
  cbn [lstep]. destruct (holder t dir) eqn:E; [reflexivity|]. destruct fails; [reflexivity|].
  split; [reflexivity|]. cbn [holder]. rewrite N.eqb_refl. reflexivity.
Qed.

(* Close releases: the directories the handle held are free again, nobody else's lock is touched *)
Theorem close_releases t h dir :
  LInv t -> holds t h = true ->
  lstep t (LClose h) = (release t h, LOk) /\
  (holder t dir = Some h -> holder (release t h) dir = None) /\
  (forall h', h' <> h -> holder t dir = Some h' -> holder (release t h) dir = Some h').
Proof.
  intros HI Hh. cbn [lstep]. rewrite Hh. split; [reflexivity|]. split.
  - intros Hd. apply holder_none. intros Hin. apply in_map_iff in Hin. destruct Hin as ([d2 h2] & Hd2 & Hx). cbn [fst] in Hd2. subst d2.
    destruct (release_sub t h _ Hx) as [Hx' Hne]. cbn [snd] in Hne.
    pose proof (holder_in _ _ _ Hd) as Hin1. pose proof (fst_unique t dir h2 h HI Hx' Hin1). contradiction.
  - intros h' Hne Hd. pose proof (holder_in _ _ _ Hd) as Hin1.
    pose proof (release_keep t h (dir, h') Hin1 Hne) as Hin2.
    pose proof (release_inv t h HI) as HI2.
    destruct (holder (release t h) dir) as [h2|] eqn:E.
    + pose proof (holder_in _ _ _ E) as Hin3. f_equal. exact (fst_unique _ dir h2 h' HI2 Hin3 Hin2).
    + exfalso. apply holder_none in E. apply E. apply in_map_iff. exists (dir, h'). auto.
Qed.

(* in every reachable state no directory has two holders *)
Theorem at_most_one_holder ops t rs dir h1 h2 :
  lrun [] ops = (t, rs) -> In (dir, h1) t -> In (dir, h2) t -> h1 = h2.
Proof.
  intros Hr Ha Hb. assert (HI : LInv t) by (apply (lrun_inv ops [] t rs); [unfold LInv; cbn; apply NoDup_nil|exact Hr]). exact (fst_unique t dir h1 h2 HI Ha Hb).
Qed.
