(* AMapLemmas.v — byte-string order and the ordered association map used for the index and
   for the specification. *)
From Coq Require Import ZArith Lia ZifyN ZifyNat ZifyBool Sorting.Sorted.
From KV Require Import Bytes Engine BytesLemmas.
Open Scope N_scope.

(* ---- equality and order on byte strings -------------------------------------------- *)
Lemma bytes_eqb_eq a b : bytes_eqb a b = true <-> a = b.
Proof.
  revert b; induction a as [|x a IH]; intros [|y b]; cbn [bytes_eqb]; split; intros H; try discriminate; auto.
  - apply andb_prop in H. destruct H as [H1 H2]. apply N.eqb_eq in H1. apply IH in H2. subst. reflexivity.
  - injection H as -> ->. rewrite N.eqb_refl. cbn. apply IH. reflexivity.
Qed.
Lemma bytes_eqb_refl a : bytes_eqb a a = true.
Proof. apply bytes_eqb_eq. reflexivity. Qed.
Lemma bytes_eqb_neq a b : bytes_eqb a b = false <-> a <> b.
Proof. split; intros H.
  - intros E. apply bytes_eqb_eq in E. congruence.
  - destruct (bytes_eqb a b) eqn:E; [apply bytes_eqb_eq in E; contradiction|reflexivity]. Qed.
Lemma bytes_eqb_sym a b : bytes_eqb a b = bytes_eqb b a.
Proof. destruct (bytes_eqb a b) eqn:E; symmetry.
  - apply bytes_eqb_eq in E. subst. apply bytes_eqb_refl.
  - apply bytes_eqb_neq in E. apply bytes_eqb_neq. congruence. Qed.

Lemma bytes_ltb_irrefl a : bytes_ltb a a = false.
Proof. induction a as [|x a IH]; cbn [bytes_ltb]; [reflexivity|].
  destruct (x <? x) eqn:E; [lia|exact IH]. Qed.
Lemma bytes_ltb_trans a b c : bytes_ltb a b = true -> bytes_ltb b c = true -> bytes_ltb a c = true.
Proof.
  revert b c; induction a as [|x a IH]; intros [|y b] [|z c]; cbn [bytes_ltb]; intros H1 H2; try discriminate; auto.
  destruct (x <? y) eqn:E1; destruct (y <? z) eqn:E2; destruct (x <? z) eqn:E3; try reflexivity; try lia.
  - destruct (z <? y) eqn:E4; [discriminate|]. lia.
  - destruct (y <? x) eqn:E4; [discriminate|]. lia.
  - destruct (y <? x) eqn:E4; [discriminate|]. destruct (z <? y) eqn:E5; [discriminate|].
    destruct (z <? x) eqn:E6; [lia|]. eapply IH; eassumption.
Qed.
Lemma bytes_ltb_total a b : bytes_ltb a b = false -> bytes_eqb a b = false -> bytes_ltb b a = true.
Proof.
  revert b; induction a as [|x a IH]; intros [|y b]; cbn [bytes_ltb bytes_eqb]; intros H1 H2; try discriminate; auto.
  destruct (x <? y) eqn:E1; [discriminate|]. destruct (y <? x) eqn:E2; [reflexivity|].
  assert (x = y) by lia. subst. rewrite N.eqb_refl in H2. cbn in H2. apply IH; assumption.
Qed.
Lemma bytes_ltb_neq a b : bytes_ltb a b = true -> a <> b.
Proof. intros H E. subst. rewrite bytes_ltb_irrefl in H. discriminate. Qed.

(* ---- ordered association maps ---------------------------------------------------------- *)
Section AMap.
Context {V : Type}.
Implicit Types m : amap V.

Definition key_lt (a b : bytes * V) : Prop := bytes_ltb (fst a) (fst b) = true.
Definition sorted m : Prop := StronglySorted key_lt m.

Lemma sorted_nil : sorted []. Proof. constructor. Qed.
Lemma sorted_inv x m : sorted (x :: m) -> sorted m /\ Forall (key_lt x) m.
Proof. intros H. inversion H; subst. auto. Qed.

Lemma get_none_of_lt m k : sorted m ->
  Forall (fun e => bytes_ltb k (fst e) = true) m -> amap_get m k = None.
Proof.
  induction m as [|[k0 v0] m IH]; intros Hs Hf; [reflexivity|].
  cbn [amap_get]. pose proof (Forall_inv Hf) as Hx. pose proof (Forall_inv_tail Hf) as Hm. cbn [fst] in *.
  destruct (bytes_eqb k k0) eqn:E.
  - apply bytes_eqb_eq in E. subst. rewrite bytes_ltb_irrefl in Hx. discriminate.
  - apply IH; [apply (sorted_inv _ _ Hs)| assumption].
Qed.

Lemma amap_get_put_same m k v : amap_get (fst (amap_put m k v)) k = Some v.
Proof.
  induction m as [|[k0 v0] m IH]; cbn [amap_put fst amap_get].
  - rewrite bytes_eqb_refl. reflexivity.
  - destruct (bytes_eqb k k0) eqn:E.
    + cbn [fst amap_get]. rewrite bytes_eqb_refl. reflexivity.
    + destruct (bytes_ltb k k0).
      * cbn [fst amap_get]. rewrite bytes_eqb_refl. reflexivity.
      * destruct (amap_put m k v) as [r o]. cbn [fst amap_get] in *. rewrite E. exact IH.
Qed.
Lemma amap_get_put_other m k v k' : k' <> k -> amap_get (fst (amap_put m k v)) k' = amap_get m k'.
Proof.
  intros Hne. induction m as [|[k0 v0] m IH]; cbn [amap_put fst amap_get].
  - apply bytes_eqb_neq in Hne. rewrite Hne. reflexivity.
  - destruct (bytes_eqb k k0) eqn:E.
    + apply bytes_eqb_eq in E. subst k0. cbn [fst amap_get].
      apply bytes_eqb_neq in Hne. rewrite Hne. reflexivity.
    + destruct (bytes_ltb k k0).
      * cbn [fst amap_get]. apply bytes_eqb_neq in Hne. rewrite Hne. reflexivity.
      * destruct (amap_put m k v) as [r o]. cbn [fst amap_get] in *. rewrite IH. reflexivity.
Qed.
Lemma amap_put_old m k v : sorted m -> snd (amap_put m k v) = amap_get m k.
Proof.
  induction m as [|[k0 v0] m IH]; intros Hs; cbn [amap_put snd amap_get]; [reflexivity|].
  destruct (sorted_inv _ _ Hs) as [Hs' Hf].
  destruct (bytes_eqb k k0) eqn:E; [reflexivity|].
  destruct (bytes_ltb k k0) eqn:L.
  - cbn [snd]. symmetry. apply get_none_of_lt; [assumption|].
    eapply Forall_impl; [|exact Hf]. intros e He. unfold key_lt in He. cbn [fst] in He.
    eapply bytes_ltb_trans; eassumption.
  - destruct (amap_put m k v) as [r o]. cbn [snd] in *. apply IH. assumption.
Qed.

Lemma amap_put_keys_lt m k v x : Forall (key_lt x) m -> bytes_ltb (fst x) k = true ->
  Forall (key_lt x) (fst (amap_put m k v)).
Proof.
  induction m as [|[k0 v0] m IH]; intros Hf Hk; cbn [amap_put fst].
  - constructor; [exact Hk|constructor].
  - pose proof (Forall_inv Hf) as Hx. pose proof (Forall_inv_tail Hf) as Hm.
    destruct (bytes_eqb k k0) eqn:E.
    + cbn [fst]. constructor; [exact Hk|exact Hm].
    + destruct (bytes_ltb k k0).
      * cbn [fst]. constructor; [exact Hk|]. constructor; [exact Hx|exact Hm].
      * specialize (IH Hm Hk). destruct (amap_put m k v) as [r o]. cbn [fst] in *.
        constructor; [exact Hx|exact IH].
Qed.
Lemma amap_put_sorted m k v : sorted m -> sorted (fst (amap_put m k v)).
Proof.
  induction m as [|[k0 v0] m IH]; intros Hs; cbn [amap_put fst].
  - constructor; constructor.
  - destruct (sorted_inv _ _ Hs) as [Hs' Hf].
    destruct (bytes_eqb k k0) eqn:E.
    + apply bytes_eqb_eq in E. subst k0. cbn [fst]. constructor; [assumption|].
      eapply Forall_impl; [|exact Hf]. intros e He. exact He.
    + destruct (bytes_ltb k k0) eqn:L.
      * cbn [fst]. constructor; [assumption|]. constructor; [exact L|].
        eapply Forall_impl; [|exact Hf]. intros e He. unfold key_lt in *. cbn [fst] in *.
        eapply bytes_ltb_trans; eassumption.
      * assert (Hk : bytes_ltb k0 k = true) by (apply bytes_ltb_total; assumption).
        pose proof (amap_put_keys_lt m k v (k0, v0) Hf Hk) as Hlt.
        specialize (IH Hs'). destruct (amap_put m k v) as [r o]. cbn [fst] in *.
        constructor; assumption.
Qed.

Lemma amap_get_del_other m k k' : k' <> k -> amap_get (fst (amap_del m k)) k' = amap_get m k'.
Proof.
  intros Hne. induction m as [|[k0 v0] m IH]; cbn [amap_del fst amap_get]; [reflexivity|].
  destruct (bytes_eqb k k0) eqn:E.
  - apply bytes_eqb_eq in E. subst k0. cbn [fst]. apply bytes_eqb_neq in Hne. rewrite Hne. reflexivity.
  - destruct (amap_del m k) as [r o]. cbn [fst amap_get] in *. rewrite IH. reflexivity.
Qed.
Lemma amap_del_old m k : snd (amap_del m k) = amap_get m k.
Proof.
  induction m as [|[k0 v0] m IH]; cbn [amap_del snd amap_get]; [reflexivity|].
  destruct (bytes_eqb k k0); [reflexivity|].
  destruct (amap_del m k) as [r o]. cbn [snd] in *. exact IH.
Qed.
Lemma amap_del_keys_lt m k x : Forall (key_lt x) m -> Forall (key_lt x) (fst (amap_del m k)).
Proof.
  induction m as [|[k0 v0] m IH]; intros Hf; cbn [amap_del fst]; [constructor|].
  pose proof (Forall_inv Hf) as Hx. pose proof (Forall_inv_tail Hf) as Hm.
  destruct (bytes_eqb k k0); [exact Hm|].
  specialize (IH Hm). destruct (amap_del m k) as [r o]. cbn [fst] in *. constructor; assumption.
Qed.
Lemma amap_del_sorted m k : sorted m -> sorted (fst (amap_del m k)).
Proof.
  induction m as [|[k0 v0] m IH]; intros Hs; cbn [amap_del fst]; [constructor|].
  destruct (sorted_inv _ _ Hs) as [Hs' Hf].
  destruct (bytes_eqb k k0); [exact Hs'|].
  pose proof (amap_del_keys_lt m k (k0, v0) Hf) as Hlt.
  specialize (IH Hs'). destruct (amap_del m k) as [r o]. cbn [fst] in *. constructor; assumption.
Qed.
Lemma amap_get_del_same m k : sorted m -> amap_get (fst (amap_del m k)) k = None.
Proof.
  induction m as [|[k0 v0] m IH]; intros Hs; cbn [amap_del fst amap_get]; [reflexivity|].
  destruct (sorted_inv _ _ Hs) as [Hs' Hf].
  destruct (bytes_eqb k k0) eqn:E.
  - apply bytes_eqb_eq in E. subst k0. cbn [fst]. apply get_none_of_lt; assumption.
  - specialize (IH Hs'). destruct (amap_del m k) as [r o]. cbn [fst amap_get] in *. rewrite E. exact IH.
Qed.

Lemma amap_get_in m k v : amap_get m k = Some v -> In (k, v) m.
Proof.
  induction m as [|[k0 v0] m IH]; cbn [amap_get]; [discriminate|].
  destruct (bytes_eqb k k0) eqn:E.
  - apply bytes_eqb_eq in E. intros [= ->]. subst. left. reflexivity.
  - intros H. right. apply IH. exact H.
Qed.
Lemma amap_in_get m k v : sorted m -> In (k, v) m -> amap_get m k = Some v.
Proof.
  induction m as [|[k0 v0] m IH]; intros Hs Hin; [destruct Hin|].
  destruct (sorted_inv _ _ Hs) as [Hs' Hf]. cbn [amap_get].
  destruct Hin as [Heq|Hin].
  - injection Heq as -> ->. rewrite bytes_eqb_refl. reflexivity.
  - destruct (bytes_eqb k k0) eqn:E.
    + apply bytes_eqb_eq in E. subst k0. exfalso.
      rewrite Forall_forall in Hf. specialize (Hf _ Hin). unfold key_lt in Hf. cbn [fst] in Hf.
      rewrite bytes_ltb_irrefl in Hf. discriminate.
    + apply IH; assumption.
Qed.
End AMap.

(* ---- two maps with the same keys and pointwise related values ------------------------- *)
Section Rel.
Context {A B : Type} (R : A -> B -> Prop).
Definition rel_entry (x : bytes * A) (y : bytes * B) : Prop := fst x = fst y /\ R (snd x) (snd y).
Definition amap_rel (ma : amap A) (mb : amap B) : Prop := Forall2 rel_entry ma mb.

Lemma amap_rel_keys ma mb : amap_rel ma mb -> map fst ma = map fst mb.
Proof. induction 1 as [|x y ma mb [Hk _] _ IH]; cbn [map]; [reflexivity|]. rewrite Hk, IH. reflexivity. Qed.
Lemma amap_rel_len ma mb : amap_rel ma mb -> len ma = len mb.
Proof. induction 1 as [|x y ma mb _ _ IH]; cbn [len]; [reflexivity|]. rewrite IH. reflexivity. Qed.

Lemma amap_rel_get ma mb k : amap_rel ma mb ->
  match amap_get ma k, amap_get mb k with
  | Some a, Some b => R a b
  | None, None => True
  | _, _ => False
  end.
Proof.
  induction 1 as [|[ka a] [kb b] ma mb [Hk Hr] _ IH]; cbn [amap_get]; [exact I|].
  cbn [fst snd] in *. subst kb. destruct (bytes_eqb k ka); [exact Hr|exact IH].
Qed.

Lemma amap_rel_put ma mb k a b : amap_rel ma mb -> R a b ->
  amap_rel (fst (amap_put ma k a)) (fst (amap_put mb k b)).
Proof.
  intros H Hr. induction H as [|[ka a0] [kb b0] ma mb [Hk Hr0] Hrest IH]; cbn [amap_put fst].
  - constructor; [split; auto|constructor].
  - cbn [fst snd] in *. subst kb.
    destruct (bytes_eqb k ka).
    + cbn [fst]. constructor; [split; auto|assumption].
    + destruct (bytes_ltb k ka).
      * cbn [fst]. constructor; [split; auto|]. constructor; [split; auto|assumption].
      * destruct (amap_put ma k a) as [ra oa]. destruct (amap_put mb k b) as [rb ob]. cbn [fst] in *.
        constructor; [split; auto|assumption].
Qed.
Lemma amap_rel_del ma mb k : amap_rel ma mb ->
  amap_rel (fst (amap_del ma k)) (fst (amap_del mb k)).
Proof.
  intros H. induction H as [|[ka a0] [kb b0] ma mb [Hk Hr0] Hrest IH]; cbn [amap_del fst].
  - constructor.
  - cbn [fst snd] in *. subst kb.
    destruct (bytes_eqb k ka); [exact Hrest|].
    destruct (amap_del ma k) as [ra oa]. destruct (amap_del mb k) as [rb ob]. cbn [fst] in *.
    constructor; [split; auto|assumption].
Qed.
End Rel.

Lemma amap_rel_impl {A B} (R R' : A -> B -> Prop) ma mb :
  (forall a b, R a b -> R' a b) -> amap_rel R ma mb -> amap_rel R' ma mb.
Proof. intros Himp H. induction H as [|x y ma mb [Hk Hr] _ IH]; constructor; [split; auto|assumption]. Qed.

(* ---- extensionality of sorted maps ---------------------------------------------------------- *)
Lemma sorted_head_get {V} (m : amap V) k v : sorted ((k, v) :: m) -> amap_get ((k, v) :: m) k = Some v.
Proof. intros _. cbn [amap_get]. rewrite bytes_eqb_refl. reflexivity. Qed.

Lemma sorted_get_lt_head {V} (m : amap V) k0 v0 k :
  sorted ((k0, v0) :: m) -> bytes_ltb k k0 = true -> amap_get ((k0, v0) :: m) k = None.
Proof.
  intros Hs Hlt. apply get_none_of_lt; [exact Hs|].
  constructor; [exact Hlt|]. destruct (sorted_inv _ _ Hs) as [_ Hf].
  eapply Forall_impl; [|exact Hf]. intros e He. unfold key_lt in He. cbn [fst] in He.
  eapply bytes_ltb_trans; eassumption.
Qed.

Lemma sorted_ext {V} (a b : amap V) : sorted a -> sorted b ->
  (forall k, amap_get a k = amap_get b k) -> a = b.
Proof.
  revert b; induction a as [|[ka va] a IH]; intros [|[kb vb] b] Ha Hb Hext.
  - reflexivity.
  - specialize (Hext kb). rewrite (sorted_head_get b kb vb Hb) in Hext. discriminate.
  - specialize (Hext ka). rewrite (sorted_head_get a ka va Ha) in Hext. discriminate.
  - assert (Hk : ka = kb).
    { destruct (bytes_eqb ka kb) eqn:E; [apply bytes_eqb_eq; exact E|]. exfalso.
      destruct (bytes_ltb ka kb) eqn:L.
      - pose proof (Hext ka) as H. rewrite (sorted_head_get a ka va Ha) in H.
        rewrite (sorted_get_lt_head b kb vb ka Hb L) in H. discriminate.
      - assert (L2 : bytes_ltb kb ka = true) by (apply bytes_ltb_total; assumption).
        pose proof (Hext kb) as H. rewrite (sorted_head_get b kb vb Hb) in H.
        rewrite (sorted_get_lt_head a ka va kb Ha L2) in H. discriminate. }
    subst kb.
    assert (Hv : va = vb).
    { pose proof (Hext ka) as H. rewrite (sorted_head_get a ka va Ha), (sorted_head_get b ka vb Hb) in H.
      congruence. }
    subst vb. f_equal.
    destruct (sorted_inv _ _ Ha) as [Ha' Hfa]. destruct (sorted_inv _ _ Hb) as [Hb' Hfb].
    apply IH; [assumption|assumption|].
    intros k. specialize (Hext k). cbn [amap_get] in Hext.
    destruct (bytes_eqb k ka) eqn:E; [|exact Hext].
    apply bytes_eqb_eq in E. subst k.
    rewrite (get_none_of_lt a ka Ha' Hfa), (get_none_of_lt b ka Hb' Hfb). reflexivity.
Qed.

Lemma amap_rel_sorted {A B} (R : A -> B -> Prop) ma mb : amap_rel R ma mb -> sorted ma -> sorted mb.
Proof.
  intros H. induction H as [|x y ma mb [Hk _] Hrest IH]; intros Hs; [constructor|].
  destruct (sorted_inv _ _ Hs) as [Hs' Hf]. constructor; [apply IH; exact Hs'|].
  clear IH Hs Hs'. induction Hrest as [|x' y' ma mb [Hk' _] _ IH2]; [constructor|].
  pose proof (Forall_inv Hf) as H1. pose proof (Forall_inv_tail Hf) as H2.
  constructor; [|apply IH2; exact H2]. unfold key_lt in *. rewrite <- Hk, <- Hk'. exact H1.
Qed.

(* pointwise characterisation of put / del on sorted maps *)
Lemma amap_get_put {V} (m : amap V) k v k' :
  amap_get (fst (amap_put m k v)) k' = if bytes_eqb k' k then Some v else amap_get m k'.
Proof.
  destruct (bytes_eqb k' k) eqn:E.
  - apply bytes_eqb_eq in E. subst. apply amap_get_put_same.
  - apply amap_get_put_other. apply bytes_eqb_neq. exact E.
Qed.
Lemma amap_get_del {V} (m : amap V) k k' : sorted m ->
  amap_get (fst (amap_del m k)) k' = if bytes_eqb k' k then None else amap_get m k'.
Proof.
  intros Hs. destruct (bytes_eqb k' k) eqn:E.
  - apply bytes_eqb_eq in E. subst. apply amap_get_del_same. exact Hs.
  - apply amap_get_del_other. apply bytes_eqb_neq. exact E.
Qed.
