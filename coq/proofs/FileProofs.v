(* FileProofs.v — one record, then sequences of records: write/scan/read round trip,
   exact sizes, logical = physical size, clean EOF at every end offset. *)
From Coq Require Import ZArith Lia ZifyN ZifyNat ZifyBool.
From KV Require Import Bytes GenConsts Chunk BytesLemmas ChunkProofs FramingProofs.
Open Scope N_scope.
Ltac Zify.zify_post_hook ::= Z.div_mod_to_equations.

Lemma norm_cases bid bsz : bsz < blockSize ->
  (pad_len bsz = 0 /\ norm bid bsz = (bid, bsz) /\ bsz + chunkHeaderSize < blockSize) \/
  (pad_len bsz = blockSize - bsz /\ norm bid bsz = (bid + 1, 0) /\ blockSize <= bsz + chunkHeaderSize).
Proof.
  unfold pad_len, norm. rewrite blockSize_val, chunkHeaderSize_val. intros H.
  destruct (32768 <=? bsz + 7) eqn:E1; destruct (bsz =? 32768) eqn:E2; cbn [andb negb]; try lia.
  - right. repeat split; lia.
  - left. repeat split; lia.
Qed.

Lemma frame_unfold fid bid bsz n : bsz < blockSize ->
  frame fid bid bsz n =
    (mkPos fid (fst (norm bid bsz)) (snd (norm bid bsz))
           (nchunks (blockSize - snd (norm bid bsz) - chunkHeaderSize) n * chunkHeaderSize + n),
     fst (norm bid bsz)
       + (snd (norm bid bsz) + (nchunks (blockSize - snd (norm bid bsz) - chunkHeaderSize) n * chunkHeaderSize + n)) / blockSize,
     (snd (norm bid bsz) + (nchunks (blockSize - snd (norm bid bsz) - chunkHeaderSize) n * chunkHeaderSize + n)) mod blockSize).
Proof.
  intros H. unfold frame.
  destruct (norm_cases bid bsz H) as [(Hp & Hn & _)|(Hp & Hn & _)]; rewrite Hp, Hn; cbn [fst snd].
  - reflexivity.
  - rewrite blockSize_val in *. destruct (32768 - bsz =? 0) eqn:E; [lia|]. reflexivity.
Qed.

Lemma frame_wf fid bid bsz n p bid' bsz' :
  frame fid bid bsz n = (p, bid', bsz') -> bsz' < blockSize.
Proof. unfold frame. intros [= <- <- <-]. rewrite blockSize_val. lia. Qed.

Section WithCrc.
Variable crc : bytes -> N.
Hypothesis crc_u32 : forall b, crc b < 4294967296.
Notation enc_all := (enc_all crc).

Lemma frame_bytes_unfold bsz (data : bytes) : bsz < blockSize ->
  frame_bytes crc bsz data =
    zeros (pad_len bsz)
    ++ enc_all (chunks (S (length data)) true (blockSize - snd (norm 0 bsz) - chunkHeaderSize) data).
Proof.
  intros H. unfold frame_bytes.
  destruct (norm_cases 0 bsz H) as [(Hp & Hn & _)|(Hp & Hn & _)]; rewrite Hp, Hn; cbn [fst snd].
  - reflexivity.
  - rewrite blockSize_val in *. destruct (32768 - bsz =? 0) eqn:E; [lia|]. reflexivity.
Qed.

Lemma snd_norm bid bid2 bsz : snd (norm bid bsz) = snd (norm bid2 bsz).
Proof. unfold norm. destruct (_ <=? _); reflexivity. Qed.

(* ---- one record ---------------------------------------------------------- *)
Theorem record_roundtrip : forall fid bid bsz pre (data : bytes) post p bid' bsz',
  bsz < blockSize -> len pre = bid * blockSize + bsz -> 0 < len data ->
  frame fid bid bsz (len data) = (p, bid', bsz') ->
  let f := pre ++ frame_bytes crc bsz data ++ post in
  len (pre ++ frame_bytes crc bsz data) = bid' * blockSize + bsz' /\
  bsz' < blockSize /\
  (p_bid p, p_off p) = norm bid bsz /\ p_fid p = fid /\
  len (frame_bytes crc bsz data) = pad_len bsz + p_size p /\
  reader_next crc f fid (p_bid p) (p_off p) = Ok (data, p, fst (norm bid' bsz'), snd (norm bid' bsz')) /\
  read_at_fuel crc (blocks_fuel (len f)) f (len f) (p_bid p) (p_off p) [] = Ok data.
Proof.
  intros fid bid bsz pre data post p bid' bsz' Hwf Hpre Hpos Hfr f.
  assert (Hwf' : bsz' < blockSize) by (eapply frame_wf; eassumption).
  rewrite frame_unfold in Hfr by assumption.
  set (b0 := fst (norm bid bsz)) in *. set (o0 := snd (norm bid bsz)) in *.
  set (cs := chunks (S (length data)) true (blockSize - o0 - chunkHeaderSize) data).
  assert (Ho0 : o0 + chunkHeaderSize < blockSize /\ bid * blockSize + bsz + pad_len bsz = b0 * blockSize + o0).
  { unfold b0, o0. destruct (norm_cases bid bsz Hwf) as [(Hp & Hn & Hlt)|(Hp & Hn & Hge)];
      rewrite Hp, Hn; cbn [fst snd]; rewrite blockSize_val, chunkHeaderSize_val in *; lia. }
  destruct Ho0 as [Ho0 Habs].
  assert (Hfuel : (length data < S (length data))%nat) by lia.
  assert (Hroom : 0 < blockSize - o0 - chunkHeaderSize) by (rewrite blockSize_val, chunkHeaderSize_val in *; lia).
  assert (Hncs : len cs = nchunks (blockSize - o0 - chunkHeaderSize) (len data)).
  { unfold cs. apply len_chunks; assumption. }
  assert (Hlen_enc : len (enc_all cs) = len cs * chunkHeaderSize + len data).
  { unfold cs. apply len_enc_all_chunks; assumption. }
  assert (Hfb : frame_bytes crc bsz data = zeros (pad_len bsz) ++ enc_all cs).
  { rewrite frame_bytes_unfold by assumption. unfold cs, o0. rewrite (snd_norm 0 bid). reflexivity. }
  set (pre' := pre ++ zeros (pad_len bsz)).
  assert (Hpre' : len pre' = b0 * blockSize + o0).
  { unfold pre'. rewrite len_app, len_zeros. lia. }
  assert (Hf : f = pre' ++ enc_all cs ++ post).
  { unfold f, pre'. rewrite Hfb, <- !app_assoc. reflexivity. }
  injection Hfr as Hp Hbid' Hbsz'. rewrite <- Hncs in *.
  set (size := len cs * chunkHeaderSize + len data) in *.
  assert (He : len pre' + len (enc_all cs) = b0 * blockSize + o0 + size) by (unfold size; lia).
  assert (Hediv : (len pre' + len (enc_all cs)) / blockSize = bid' /\ (len pre' + len (enc_all cs)) mod blockSize = bsz').
  { rewrite He, <- Hbid', <- Hbsz'. rewrite blockSize_val in *. split; lia. }
  destruct Hediv as [Hediv Hemod].
  assert (Hppos : p_bid p = b0 /\ p_off p = o0 /\ p_size p = size /\ p_fid p = fid) by (rewrite <- Hp; cbn; auto).
  destruct Hppos as (Hpb & Hpo & Hps & Hpf).
  repeat split.
  - rewrite Hfb, app_assoc, len_app. fold pre'. rewrite He, <- Hbid', <- Hbsz'.
    rewrite blockSize_val in *. lia.
  - exact Hwf'.
  - rewrite Hpb, Hpo. unfold b0, o0. destruct (norm bid bsz); reflexivity.
  - exact Hpf.
  - rewrite Hfb, len_app, len_zeros, Hps. unfold size. lia.
  - unfold reader_next. rewrite Hpb, Hpo, Hf.
    pose proof (reader_chunks crc crc_u32 (S (length data)) data true pre' post
               (blocks_fuel (len (pre' ++ enc_all cs ++ post))) fid b0 o0 b0 o0 0 [] Hfuel Hpos Hpre' Ho0) as HR.
    cbv zeta in HR. fold cs in HR. rewrite HR.
    + rewrite Hediv, Hemod. cbn [app].
      rewrite N.add_0_l. fold size. rewrite <- Hp. reflexivity.
    + unfold blocks_fuel. lia.
  - rewrite Hpb, Hpo, Hf.
    pose proof (read_at_chunks crc crc_u32 (S (length data)) data true pre' post
               (blocks_fuel (len (pre' ++ enc_all cs ++ post))) b0 o0 [] Hfuel Hpos Hpre' Ho0) as HR.
    fold cs in HR. apply HR. unfold blocks_fuel. lia.
Qed.

(* ---- sequences of records ---------------------------------------------------- *)
Definition nonempty (d : bytes) : Prop := 0 < len d.

Lemma write_all_cons fid bid bsz d r :
  write_all_buf crc fid bid bsz (d :: r) =
    let '(p, bid1, bsz1) := frame fid bid bsz (len d) in
    let '(bs, ps, bid2, bsz2) := write_all_buf crc fid bid1 bsz1 r in
    (frame_bytes crc bsz d ++ bs, p :: ps, bid2, bsz2).
Proof. reflexivity. Qed.

(* one Write call with several records = the same records written one by one *)
Lemma write_all_app : forall a b fid bid bsz,
  write_all_buf crc fid bid bsz (a ++ b) =
    let '(bs1, ps1, bid1, bsz1) := write_all_buf crc fid bid bsz a in
    let '(bs2, ps2, bid2, bsz2) := write_all_buf crc fid bid1 bsz1 b in
    (bs1 ++ bs2, ps1 ++ ps2, bid2, bsz2).
Proof.
  induction a as [|d a IH]; intros b fid bid bsz.
  - cbn [app write_all_buf]. destruct (write_all_buf crc fid bid bsz b) as [[[bs ps] b2] s2]. reflexivity.
  - cbn [app]. rewrite !write_all_cons.
    destruct (frame fid bid bsz (len d)) as [[p b1] s1].
    rewrite IH.
    destruct (write_all_buf crc fid b1 s1 a) as [[[bs1 ps1] b2] s2].
    destruct (write_all_buf crc fid b2 s2 b) as [[[bs2 ps2] b3] s3].
    rewrite <- app_assoc. reflexivity.
Qed.

Lemma write_all_state : forall ds fid bid bsz pre bs ps bid' bsz',
  bsz < blockSize -> len pre = bid * blockSize + bsz -> Forall nonempty ds ->
  write_all_buf crc fid bid bsz ds = (bs, ps, bid', bsz') ->
  len (pre ++ bs) = bid' * blockSize + bsz' /\ bsz' < blockSize /\ length ps = length ds /\
  8 * N.of_nat (length ds) <= len bs.
Proof.
  induction ds as [|d r IH]; intros fid bid bsz pre bs ps bid' bsz' Hwf Hpre Hne Hw.
  - cbn in Hw. injection Hw as <- <- <- <-. rewrite app_nil_r. cbn [length len]. repeat split; auto; lia.
  - rewrite write_all_cons in Hw.
    destruct (frame fid bid bsz (len d)) as [[p b1] s1] eqn:Hfr.
    destruct (write_all_buf crc fid b1 s1 r) as [[[bs1 ps1] b2] s2] eqn:Hr.
    injection Hw as <- <- <- <-.
    inversion Hne as [|? ? Hd Hr']; subst.
    destruct (record_roundtrip fid bid bsz pre d [] p b1 s1 Hwf Hpre Hd Hfr)
      as (Hlen & Hwf1 & Hpos & _ & Hsz & _ & _).
    destruct (IH fid b1 s1 (pre ++ frame_bytes crc bsz d) bs1 ps1 b2 s2 Hwf1 Hlen Hr' Hr)
      as (Hlen2 & Hwf2 & Hps & Hbytes).
    repeat split.
    + rewrite app_assoc. exact Hlen2.
    + exact Hwf2.
    + cbn [length]. lia.
    + rewrite len_app, Hsz. cbn [length].
      assert (Hp : 8 <= p_size p).
      { rewrite frame_unfold in Hfr by assumption. injection Hfr as <- _ _. cbn [p_size].
        rewrite nchunks_unfold. rewrite chunkHeaderSize_val.
        unfold nonempty in Hd.
        destruct (len d =? 0) eqn:E0; [lia|].
        destruct (len d <=? _) eqn:E1; lia. }
      lia.
Qed.

Lemma reader_eof f fid bid bsz :
  bsz < blockSize -> len f = bid * blockSize + bsz ->
  reader_next crc f fid (fst (norm bid bsz)) (snd (norm bid bsz)) = Err EOF.
Proof.
  intros Hwf Hlen. unfold reader_next, blocks_fuel. cbn [reader_next_fuel].
  assert (Hc : read_chunk crc f (len f) (fst (norm bid bsz)) (snd (norm bid bsz)) = CEnd).
  { unfold read_chunk. destruct (norm_cases bid bsz Hwf) as [(_ & Hn & Hlt)|(_ & Hn & Hge)];
      rewrite Hn; cbn [fst snd]; rewrite blockSize_val, chunkHeaderSize_val in *.
    - destruct (len f <=? bid * 32768) eqn:E1; [reflexivity|].
      destruct (len f - bid * 32768 <=? 32768) eqn:E2.
      + destruct (len f - bid * 32768 <=? bsz) eqn:E3; [reflexivity|lia].
      + lia.
    - destruct (len f <=? (bid + 1) * 32768) eqn:E1; [reflexivity|lia]. }
  rewrite Hc. reflexivity.
Qed.

Lemma scan_fuel_eof f fid bid bsz fuel :
  bsz < blockSize -> len f = bid * blockSize + bsz ->
  scan_fuel crc (S fuel) f fid (fst (norm bid bsz)) (snd (norm bid bsz)) = ([], SEof).
Proof. intros. cbn [scan_fuel]. rewrite reader_eof by assumption. reflexivity. Qed.

(* scanning a written sequence yields the records with the positions reported at write
   time, then continues with whatever follows *)
Lemma scan_written : forall ds fid bid bsz pre post bs ps bid' bsz' fuel,
  bsz < blockSize -> len pre = bid * blockSize + bsz -> Forall nonempty ds ->
  write_all_buf crc fid bid bsz ds = (bs, ps, bid', bsz') ->
  scan_fuel crc (length ds + fuel) (pre ++ bs ++ post) fid (fst (norm bid bsz)) (snd (norm bid bsz))
  = (combine ds ps ++ fst (scan_fuel crc fuel (pre ++ bs ++ post) fid (fst (norm bid' bsz')) (snd (norm bid' bsz'))),
     snd (scan_fuel crc fuel (pre ++ bs ++ post) fid (fst (norm bid' bsz')) (snd (norm bid' bsz')))).
Proof.
  induction ds as [|d r IH]; intros fid bid bsz pre post bs ps bid' bsz' fuel Hwf Hpre Hne Hw.
  - cbn in Hw. injection Hw as <- <- <- <-. cbn [length combine app Nat.add].
    destruct (scan_fuel _ _ _ _ _ _); reflexivity.
  - rewrite write_all_cons in Hw.
    destruct (frame fid bid bsz (len d)) as [[p b1] s1] eqn:Hfr.
    destruct (write_all_buf crc fid b1 s1 r) as [[[bs1 ps1] b2] s2] eqn:Hr.
    injection Hw as <- <- <- <-.
    inversion Hne as [|? ? Hd Hr']; subst.
    destruct (record_roundtrip fid bid bsz pre d (bs1 ++ post) p b1 s1 Hwf Hpre Hd Hfr)
      as (Hlen & Hwf1 & Hpos & _ & _ & Hrd & _).
    cbn [length Nat.add scan_fuel].
    assert (Hfeq : pre ++ (frame_bytes crc bsz d ++ bs1) ++ post
                   = pre ++ frame_bytes crc bsz d ++ bs1 ++ post) by (rewrite <- !app_assoc; reflexivity).
    rewrite Hfeq.
    assert (Hst : fst (norm bid bsz) = p_bid p /\ snd (norm bid bsz) = p_off p).
    { rewrite <- Hpos. split; reflexivity. }
    destruct Hst as [-> ->]. rewrite Hrd.
    assert (Hfeq2 : pre ++ frame_bytes crc bsz d ++ bs1 ++ post
                    = (pre ++ frame_bytes crc bsz d) ++ bs1 ++ post) by (rewrite <- !app_assoc; reflexivity).
    rewrite Hfeq2.
    rewrite (IH fid b1 s1 (pre ++ frame_bytes crc bsz d) post bs1 ps1 b2 s2 fuel Hwf1 Hlen Hr' Hr).
    cbn [combine app fst snd]. reflexivity.
Qed.

(* C11, sequential: a file written from empty scans back to exactly the records written, at
   exactly the positions reported, and ends with a clean EOF wherever the file ends *)
Theorem write_read_seq : forall ds fid bs ps bid' bsz',
  Forall nonempty ds ->
  write_all_buf crc fid 0 0 ds = (bs, ps, bid', bsz') ->
  scan crc bs fid = (combine ds ps, SEof) /\
  len bs = bid' * blockSize + bsz' /\ bsz' < blockSize.
Proof.
  intros ds fid bs ps bid' bsz' Hne Hw.
  assert (H0 : 0 < blockSize) by (rewrite blockSize_val; lia).
  destruct (write_all_state ds fid 0 0 [] bs ps bid' bsz' H0 eq_refl Hne Hw) as (Hlen & Hwf & Hps & Hbytes).
  cbn [app] in Hlen. split; [|split; assumption].
  unfold scan. rewrite chunkHeaderSize_val.
  assert (Hfuel : exists k, S (N.to_nat (len bs / 7)) = (length ds + S k)%nat).
  { exists (N.to_nat (len bs / 7) - length ds)%nat. lia. }
  destruct Hfuel as [k ->].
  assert (Hn0 : norm 0 0 = (0, 0)) by reflexivity.
  pose proof (scan_written ds fid 0 0 [] [] bs ps bid' bsz' (S k) H0 eq_refl Hne Hw) as HS.
  rewrite Hn0 in HS. cbn [fst snd app] in HS. rewrite app_nil_r in HS. rewrite HS.
  rewrite scan_fuel_eof by assumption. cbn [fst snd]. rewrite app_nil_r. reflexivity.
Qed.

(* C11, random: every position reported at write time reads back its record *)
Lemma read_written : forall ds fid bid bsz pre post bs ps bid' bsz' d p,
  bsz < blockSize -> len pre = bid * blockSize + bsz -> Forall nonempty ds ->
  write_all_buf crc fid bid bsz ds = (bs, ps, bid', bsz') ->
  In (d, p) (combine ds ps) ->
  read_at_fuel crc (blocks_fuel (len (pre ++ bs ++ post))) (pre ++ bs ++ post) (len (pre ++ bs ++ post))
               (p_bid p) (p_off p) [] = Ok d.
Proof.
  induction ds as [|d0 r IH]; intros fid bid bsz pre post bs ps bid' bsz' d p Hwf Hpre Hne Hw Hin.
  - cbn in Hw. injection Hw as <- <- <- <-. destruct Hin.
  - rewrite write_all_cons in Hw.
    destruct (frame fid bid bsz (len d0)) as [[p0 b1] s1] eqn:Hfr.
    destruct (write_all_buf crc fid b1 s1 r) as [[[bs1 ps1] b2] s2] eqn:Hr.
    injection Hw as <- <- <- <-.
    inversion Hne as [|? ? Hd Hr']; subst.
    destruct (record_roundtrip fid bid bsz pre d0 (bs1 ++ post) p0 b1 s1 Hwf Hpre Hd Hfr)
      as (Hlen & Hwf1 & _ & _ & _ & _ & Hra).
    assert (Hfeq : pre ++ (frame_bytes crc bsz d0 ++ bs1) ++ post
                   = pre ++ frame_bytes crc bsz d0 ++ bs1 ++ post) by (rewrite <- !app_assoc; reflexivity).
    rewrite Hfeq.
    cbn [combine] in Hin. destruct Hin as [Heq|Hin].
    + injection Heq as <- <-. exact Hra.
    + assert (Hfeq2 : pre ++ frame_bytes crc bsz d0 ++ bs1 ++ post
                      = (pre ++ frame_bytes crc bsz d0) ++ bs1 ++ post) by (rewrite <- !app_assoc; reflexivity).
      rewrite Hfeq2.
      exact (IH fid b1 s1 (pre ++ frame_bytes crc bsz d0) post bs1 ps1 b2 s2 d p Hwf1 Hlen Hr' Hr Hin).
Qed.


(* ---- any history of a DataFile --------------------------------------------------- *)
Definition fop_ok (o : fop) : Prop :=
  match o with FWrite d => nonempty d | FStage d => nonempty d | _ => True end.

Definition df_inv (f : dfile) (hist : list bytes) (ps : list pos) : Prop :=
  write_all_buf crc (df_id f) 0 0 hist = (df_bytes f, ps, df_bid f, df_bsz f) /\
  Forall nonempty hist /\ Forall nonempty (df_staged f).

Lemma df_inv_state f hist ps : df_inv f hist ps ->
  len (df_bytes f) = df_bid f * blockSize + df_bsz f /\ df_bsz f < blockSize /\ length ps = length hist.
Proof.
  intros (Hw & Hne & _).
  assert (H0 : 0 < blockSize) by (rewrite blockSize_val; lia).
  destruct (write_all_state hist (df_id f) 0 0 [] _ _ _ _ H0 eq_refl Hne Hw) as (H1 & H2 & H3 & _).
  cbn [app] in H1. auto.
Qed.

Lemma combine_app {A B} (a1 a2 : list A) (b1 b2 : list B) :
  length a1 = length b1 -> combine (a1 ++ a2) (b1 ++ b2) = combine a1 b1 ++ combine a2 b2.
Proof. revert b1; induction a1 as [|x a1 IH]; intros [|y b1] H; cbn in *; try discriminate; [reflexivity|].
  f_equal. apply IH. lia. Qed.

Lemma df_inv_empty fid : df_inv (df_open fid []) [] [].
Proof. unfold df_inv, df_open. cbn. repeat split; constructor. Qed.

Lemma df_run_spec : forall ops f hist ps,
  df_inv f hist ps -> Forall fop_ok ops ->
  exists hist' ps', df_inv (fst (df_run crc f ops)) hist' ps' /\
                   combine hist' ps' = combine hist ps ++ snd (df_run crc f ops).
Proof.
  induction ops as [|o ops IH]; intros f hist ps Hinv Hok.
  - exists hist, ps. cbn [df_run fst snd]. rewrite app_nil_r. auto.
  - inversion Hok as [|? ? Ho Hok']; subst.
    destruct (df_inv_state f hist ps Hinv) as (Hlen & Hwf & Hps).
    destruct Hinv as (Hw & Hne & Hst).
    destruct o as [d|d| | |]; cbn [df_run].
    + (* single write *)
      unfold df_write.
      destruct (frame (df_id f) (df_bid f) (df_bsz f) (len d)) as [[p b1] s1] eqn:Hfr.
      set (f1 := mkDf (df_id f) (df_bytes f ++ frame_bytes crc (df_bsz f) d) b1 s1 (df_staged f)).
      assert (Hinv1 : df_inv f1 (hist ++ [d]) (ps ++ [p])).
      { unfold df_inv, f1. cbn [df_id df_bytes df_bid df_bsz df_staged]. repeat split; auto.
        - rewrite write_all_app, Hw, write_all_cons, Hfr. cbn [write_all_buf].
          rewrite app_nil_r. reflexivity.
        - apply Forall_app; split; auto. }
      destruct (IH f1 _ _ Hinv1 Hok') as (h' & p' & Hi' & Hc').
      destruct (df_run crc f1 ops) as [f2 out] eqn:Hrun. cbn [fst snd] in *.
      exists h', p'. split; [exact Hi'|].
      rewrite Hc', combine_app by lia. cbn [combine]. rewrite <- app_assoc. reflexivity.
    + (* stage *)
      apply IH; auto. unfold df_inv, df_stage. cbn [df_id df_bytes df_bid df_bsz df_staged].
      repeat split; auto. apply Forall_app; split; auto.
    + (* flush: one Write call *)
      unfold df_flush.
      destruct (write_all_buf crc (df_id f) (df_bid f) (df_bsz f) (df_staged f)) as [[[bs ps2] b1] s1] eqn:Hfl.
      set (f1 := mkDf (df_id f) (df_bytes f ++ bs) b1 s1 []).
      assert (Hinv1 : df_inv f1 (hist ++ df_staged f) (ps ++ ps2)).
      { unfold df_inv, f1. cbn [df_id df_bytes df_bid df_bsz df_staged]. repeat split; auto.
        - rewrite write_all_app, Hw, Hfl. reflexivity.
        - apply Forall_app; split; auto. }
      destruct (IH f1 _ _ Hinv1 Hok') as (h' & p' & Hi' & Hc').
      destruct (df_run crc f1 ops) as [f2 out] eqn:Hrun. cbn [fst snd] in *.
      exists h', p'. split; [exact Hi'|].
      rewrite Hc', combine_app by lia. rewrite <- app_assoc. reflexivity.
    + (* close and reopen: the logical end is recomputed from the physical size *)
      apply IH; auto. unfold df_inv, df_open. cbn [df_id df_bytes df_bid df_bsz df_staged].
      repeat split; auto.
      replace (len (df_bytes f) / blockSize) with (df_bid f) by (rewrite Hlen, blockSize_val in *; lia).
      replace (len (df_bytes f) mod blockSize) with (df_bsz f) by (rewrite Hlen, blockSize_val in *; lia).
      exact Hw.
    + (* a refused write: the file is what it was, nothing is staged any more *)
      apply IH; auto. unfold df_inv, df_refuse. cbn [df_id df_bytes df_bid df_bsz df_staged].
      repeat split; auto.
Qed.

(* C11 for data files: after ANY history of single writes, staged writes flushed in one
   call, and reopenings, starting from an empty file: the logical size is the physical size,
   a scan returns every record written with the position reported at write time and then a
   clean EOF, and every reported position reads back its record. *)
Theorem datafile_roundtrip : forall fid ops,
  Forall fop_ok ops ->
  let f := fst (df_run crc (df_open fid []) ops) in
  let out := snd (df_run crc (df_open fid []) ops) in
  df_size f = len (df_bytes f) /\
  scan crc (df_bytes f) (df_id f) = (out, SEof) /\
  (forall d p, In (d, p) out -> read_at crc f (p_bid p) (p_off p) = Ok d).
Proof.
  intros fid ops Hok f out.
  destruct (df_run_spec ops (df_open fid []) [] [] (df_inv_empty fid) Hok) as (hist & ps & Hinv & Hc).
  cbn [combine app] in Hc. fold f in Hinv. fold out in Hc.
  destruct (df_inv_state f hist ps Hinv) as (Hlen & Hwf & Hps).
  destruct Hinv as (Hw & Hne & _).
  destruct (write_read_seq hist (df_id f) _ _ _ _ Hne Hw) as (Hscan & _ & _).
  split; [unfold df_size; lia|]. split; [rewrite Hscan, Hc; reflexivity|].
  intros d p Hin. rewrite <- Hc in Hin.
  assert (H0 : 0 < blockSize) by (rewrite blockSize_val; lia).
  pose proof (read_written hist (df_id f) 0 0 [] [] _ _ _ _ d p H0 eq_refl Hne Hw Hin) as HR.
  cbn [app] in HR. rewrite app_nil_r in HR.
  unfold read_at.
  assert (Hbid : p_bid p <= df_bid f).
  { (* a position that reads back successfully lies inside the file *)
    destruct (df_bid f <? p_bid p) eqn:E; [|lia]. exfalso.
    destruct (blocks_fuel (len (df_bytes f))) as [|fu] eqn:Hfu; [unfold blocks_fuel in Hfu; lia|].
    cbn [read_at_fuel] in HR. unfold read_chunk in HR.
    rewrite blockSize_val in *.
    destruct (len (df_bytes f) <=? p_bid p * 32768) eqn:E2; [discriminate|]. lia. }
  destruct (df_bid f <? p_bid p) eqn:E; [lia|].
  unfold df_size. rewrite <- Hlen. exact HR.
Qed.

End WithCrc.
