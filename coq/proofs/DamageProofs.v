(* DamageProofs.v — the readers on ARBITRARY bytes (C12): they never panic, they terminate, and
   whatever they return consists of chunks each of which carries the checksum of its own bytes. *)
From Coq Require Import ZArith Lia ZifyN ZifyNat ZifyBool.
From KV Require Import Bytes GenConsts Chunk BytesLemmas ChunkProofs FramingProofs.
Open Scope N_scope.
Ltac Zify.zify_post_hook ::= Z.div_mod_to_equations.

Section WithCrc.
Variable crc : bytes -> N.

Notation decode_chunk := (decode_chunk crc).
Notation read_chunk := (read_chunk crc).
Notation reader_next_fuel := (reader_next_fuel crc).
Notation reader_next := (reader_next crc).
Notation scan_fuel := (scan_fuel crc).
Notation scan := (scan crc).
Notation read_at_fuel := (read_at_fuel crc).
Notation read_at := (read_at crc).

(* ---- no panic -------------------------------------------------------------------------------------- *)
Lemma decode_chunk_total c : decode_chunk c <> Panic /\ decode_chunk c <> OutOfFuel.
Proof.
  unfold Chunk.decode_chunk. rewrite chunkHeaderSize_val.
  destruct (len c <? 7) eqn:E1; [split; discriminate|].
  destruct (gslice_some 4 6 c) as [lb Hlb]; [lia|lia|]. rewrite Hlb.
  destruct (len c <? 7 + rd16 lb) eqn:E2; [split; discriminate|].
  destruct (gslice_some 4 (7 + rd16 lb) c) as [b Hb]; [lia|lia|]. rewrite Hb.
  destruct (gslice_some 0 4 c) as [s Hs]; [lia|lia|]. rewrite Hs.
  destruct (gslice_some 7 (7 + rd16 lb) c) as [pl Hpl]; [lia|lia|]. rewrite Hpl.
  destruct (gindex_ok 6 c) as [t Ht]; [lia|]. rewrite Ht.
  destruct (rd32 s =? crc b); split; discriminate.
Qed.

Lemma read_chunk_no_panic f fsize bid off : read_chunk f fsize bid off <> CPanic.
Proof.
  unfold Chunk.read_chunk. destruct (fsize <=? bid * blockSize); [discriminate|].
  destruct (_ <=? off); [discriminate|].
  match goal with |- context [Chunk.decode_chunk crc ?c] => destruct (decode_chunk_total c) as [H1 H2]; destruct (Chunk.decode_chunk crc c) as [[d ty]|e| |] end;
    try discriminate; contradiction.
Qed.

Lemma reader_next_fuel_no_panic : forall fuel f fsize fid bid0 off0 bid off cnt acc,
  reader_next_fuel fuel f fsize fid bid0 off0 bid off cnt acc <> Panic.
Proof.
  induction fuel as [|fuel IH]; intros; cbn [Chunk.reader_next_fuel]; [discriminate|].
  pose proof (read_chunk_no_panic f fsize bid off) as Hn.
  destruct (read_chunk f fsize bid off) as [|e| |d ty]; try discriminate; [contradiction|].
  destruct (is_last ty); [destruct (_ <=? _); discriminate|apply IH].
Qed.

Theorem reader_next_no_panic f fid bid off : reader_next f fid bid off <> Panic.
Proof. apply reader_next_fuel_no_panic. Qed.

Lemma scan_fuel_no_panic : forall fuel f fid bid off, snd (scan_fuel fuel f fid bid off) <> SPanic.
Proof.
  induction fuel as [|fuel IH]; intros; cbn [Chunk.scan_fuel]; [discriminate|].
  pose proof (reader_next_no_panic f fid bid off) as Hn.
  destruct (reader_next f fid bid off) as [[[[d p] b'] o']|e| |]; try discriminate; [|destruct e; discriminate|contradiction].
  specialize (IH f fid b' o'). destruct (scan_fuel fuel f fid b' o') as [rs e]. exact IH.
Qed.
Theorem scan_no_panic f fid : snd (scan f fid) <> SPanic.
Proof. apply scan_fuel_no_panic. Qed.

Lemma read_at_fuel_no_panic : forall fuel f fsize bid off acc, read_at_fuel fuel f fsize bid off acc <> Panic.
Proof.
  induction fuel as [|fuel IH]; intros; cbn [Chunk.read_at_fuel]; [discriminate|].
  pose proof (read_chunk_no_panic f fsize bid off) as Hn.
  destruct (read_chunk f fsize bid off) as [|e| |d ty]; try discriminate; [contradiction|].
  destruct (is_last ty); [discriminate|apply IH].
Qed.
Theorem read_at_no_panic f bid off : read_at f bid off <> Panic.
Proof. unfold Chunk.read_at. destruct (_ <? _); [discriminate|apply read_at_fuel_no_panic]. Qed.

(* ---- termination: the loops end within the fuel the model gives them --------------------------------- *)
(* every iteration of DataReader.next / readToBuf moves to the next block; beyond the last block
   of the file read_chunk answers CEnd *)
Lemma read_chunk_end f fsize bid off : fsize <= bid * blockSize -> read_chunk f fsize bid off = CEnd.
Proof. intros H. unfold Chunk.read_chunk. destruct (fsize <=? bid * blockSize) eqn:E; [reflexivity|lia]. Qed.

Lemma reader_next_fuel_enough : forall fuel f fsize fid bid0 off0 bid off cnt acc,
  (N.to_nat (fsize / blockSize + 1 - bid) < fuel)%nat ->
  reader_next_fuel fuel f fsize fid bid0 off0 bid off cnt acc <> OutOfFuel.
Proof.
  induction fuel as [|fuel IH]; intros f fsize fid bid0 off0 bid off cnt acc Hf; [lia|]. cbn [Chunk.reader_next_fuel].
  destruct (fsize <=? bid * blockSize) eqn:E.
  - rewrite read_chunk_end by lia. cbv beta iota. discriminate.
  - destruct (read_chunk f fsize bid off) as [|e| |d ty]; try discriminate.
    destruct (is_last ty); [cbv zeta; match goal with |- (if ?b then _ else _) <> _ => destruct b end; discriminate|]. apply IH.
    assert (bid < fsize / blockSize + 1) by (rewrite blockSize_val in *; lia). lia.
Qed.
Theorem reader_next_terminates f fid bid off : reader_next f fid bid off <> OutOfFuel.
Proof. unfold Chunk.reader_next, blocks_fuel. apply reader_next_fuel_enough. generalize (len f / blockSize). intros q. lia. Qed.

Lemma read_at_fuel_enough : forall fuel f fsize bid off acc,
  (N.to_nat (fsize / blockSize + 1 - bid) < fuel)%nat -> read_at_fuel fuel f fsize bid off acc <> OutOfFuel.
Proof.
  induction fuel as [|fuel IH]; intros f fsize bid off acc Hf; [lia|]. cbn [Chunk.read_at_fuel].
  destruct (fsize <=? bid * blockSize) eqn:E.
  - rewrite read_chunk_end by lia. cbv beta iota. discriminate.
  - destruct (read_chunk f fsize bid off) as [|e| |d ty]; try discriminate.
    destruct (is_last ty); [discriminate|]. apply IH.
    assert (bid < fsize / blockSize + 1) by (rewrite blockSize_val in *; lia). lia.
Qed.
Theorem read_at_terminates f bid off : read_at f bid off <> OutOfFuel.
Proof. unfold Chunk.read_at. destruct (_ <? _); [discriminate|]. apply read_at_fuel_enough. unfold blocks_fuel. generalize (df_size f / blockSize). intros q. lia. Qed.

(* ---- integrity: what is accepted carries its checksum ---------------------------------------------- *)
(* a chunk is accepted only if its first four bytes are the checksum of the bytes that follow
   (length field, type byte, payload), and the payload returned is exactly the covered payload *)
Theorem decode_chunk_sound c d ty :
  decode_chunk c = Ok (d, ty) ->
  exists sum lenb rest, c = sum ++ lenb ++ [ty] ++ d ++ rest /\ len sum = 4 /\ len lenb = 2 /\
    rd16 lenb = len d /\ rd32 sum = crc (lenb ++ [ty] ++ d).
Proof.
  unfold Chunk.decode_chunk. rewrite chunkHeaderSize_val.
  destruct (len c <? 7) eqn:E1; [discriminate|].
  rewrite (gslice_ok 4 6 c) by lia.
  set (l := rd16 (take (6 - 4) (drop 4 c))).
  destruct (len c <? 7 + l) eqn:E2; [discriminate|].
  rewrite (gslice_ok 4 (7 + l) c), (gslice_ok 0 4 c), (gslice_ok 7 (7 + l) c) by lia.
  unfold gindex. rewrite fdrop_eq. destruct (drop 6 c) as [|t r6] eqn:E6; [discriminate|].
  destruct (_ =? _) eqn:Ecrc; [|discriminate]. intros [= <- <-].
  (* split c at 4, 6, 7, 7+l *)
  pose proof (take_drop 4 c) as S4. pose proof (take_drop 2 (drop 4 c)) as S2. rewrite drop_drop in S2.
  change (2 + 4) with 6 in S2. rewrite E6 in S2.
  pose proof (take_drop l r6) as S7.
  exists (take 4 c), (take 2 (drop 4 c)), (drop l r6).
  assert (Hd7 : drop 7 c = r6).
  { change 7 with (1 + 6). rewrite <- drop_drop, E6, drop_1. reflexivity. }
  assert (Hlr6 : l <= len r6) by (rewrite <- Hd7, len_drop; lia).
  rewrite Hd7. replace (7 + l - 7) with l by lia. rewrite drop_0 in Ecrc. change (4 - 0) with 4 in Ecrc. change (6 - 4) with 2 in *.
  split; [|split; [|split; [|split]]].
  - rewrite <- S4 at 1. f_equal. rewrite <- S2 at 1. f_equal. cbn [app]. f_equal. symmetry. exact S7.
  - apply len_take_le. clear - E1. unfold byte in *. lia.
  - apply len_take_le. rewrite len_drop. clear - E1. unfold byte in *. lia.
  - rewrite (len_take_le _ _ Hlr6). reflexivity.
  - apply N.eqb_eq in Ecrc. rewrite Ecrc. f_equal.
    replace (7 + l - 4) with (2 + (1 + l)) by lia. rewrite take_add. f_equal.
    rewrite drop_drop. change (2 + 4) with 6. rewrite E6. cbn [app].
    rewrite take_cons by lia. replace (1 + l - 1) with l by lia. reflexivity.
Qed.

End WithCrc.

Section Progress.
Variable crc : bytes -> N.
Notation read_chunk := (read_chunk crc).
Notation reader_next_fuel := (reader_next_fuel crc).
Notation reader_next := (reader_next crc).
Notation scan_fuel := (scan_fuel crc).
Notation scan := (scan crc).

(* a chunk that was read lies inside its block and inside the file *)
Lemma read_chunk_data f fsize bid off d ty :
  read_chunk f fsize bid off = CData d ty ->
  off + 7 + len d <= blockSize /\ bid * blockSize + off + 7 + len d <= fsize.
Proof.
  unfold Chunk.read_chunk. destruct (fsize <=? bid * blockSize) eqn:E1; [discriminate|].
  set (size := if fsize - bid * blockSize <=? blockSize then fsize - bid * blockSize else blockSize).
  destruct (size <=? off) eqn:E2; [discriminate|].
  destruct (Chunk.decode_chunk crc _) as [[d0 ty0]|e| |] eqn:Hd; try discriminate. intros [= <- <-].
  assert (Hl : 7 + len d0 <= len (slice (bid * blockSize + off) (bid * blockSize + size) f)).
  { destruct (decode_chunk_sound crc _ _ _ Hd) as (sm & lb & rest & Hc & L1 & L2 & _). rewrite Hc.
    unfold byte in *. rewrite !len_app, len_cons, len_nil. lia. }
  rewrite slice_eq, len_take, len_drop in Hl.
  assert (Hs : size <= blockSize /\ bid * blockSize + size <= fsize).
  { unfold size. rewrite blockSize_val in *. destruct (fsize - bid * 32768 <=? 32768) eqn:E3.
    - clear - E1 E3. split; lia.
    - clear - E1 E3. split; lia. }
  clearbody size. rewrite blockSize_val in *. unfold byte in *.
  match type of Hl with context [if ?b then _ else _] => destruct b eqn:E4 end; split; lia.
Qed.

(* DataReader.next succeeds only where a whole chunk header lies inside the file, and advances by
   at least one chunk header *)
Lemma reader_next_fuel_progress : forall fuel f fsize fid bid0 off0 bid off cnt acc d p bid' off',
  reader_next_fuel fuel f fsize fid bid0 off0 bid off cnt acc = Ok (d, p, bid', off') ->
  bid * blockSize + off + 7 <= fsize /\ bid * blockSize + off + 7 <= bid' * blockSize + off'.
Proof.
  induction fuel as [|fuel IH]; intros f fsize fid bid0 off0 bid off cnt acc d p bid' off' H; cbn [Chunk.reader_next_fuel] in H; [discriminate|].
  destruct (read_chunk f fsize bid off) as [|e| |dd ty] eqn:Hc; try discriminate.
  destruct (read_chunk_data _ _ _ _ _ _ Hc) as [H1 H2]. unfold byte in *.
  split; [lia|].
  destruct (is_last ty).
  - cbv zeta in H. rewrite chunkHeaderSize_val in H.
    match type of H with (if ?b then _ else _) = _ => destruct b eqn:E end; injection H as _ _ <- <-;
      rewrite blockSize_val in *; unfold byte in *; lia.
  - destruct (IH _ _ _ _ _ _ _ _ _ _ _ _ _ H) as [A B]. rewrite blockSize_val in *. lia.
Qed.

Lemma scan_fuel_S fuel f fid bid off :
  scan_fuel (S fuel) f fid bid off =
  match reader_next f fid bid off with
  | Ok (d, p, bid', off') => let '(rs, e) := scan_fuel fuel f fid bid' off' in ((d, p) :: rs, e)
  | Err EOF => ([], SEof)
  | Err UnexpectedEOF => ([], STorn)
  | Err e => ([], SErr e)
  | Panic => ([], SPanic)
  | OutOfFuel => ([], SFuel)
  end.
Proof. reflexivity. Qed.

(* the scan loop of Open / Merge ends within its fuel, whatever the bytes *)
Lemma scan_fuel_enough f fid : forall fuel bid off,
  len f < bid * blockSize + off + 7 * (N.of_nat fuel + 1) -> snd (scan_fuel (S fuel) f fid bid off) <> SFuel.
Proof.
  induction fuel as [|fuel IH]; intros bid off Hf; rewrite scan_fuel_S.
  - pose proof (reader_next_terminates crc f fid bid off) as Ht.
    destruct (reader_next f fid bid off) as [[[[d p] b'] o']|e| |] eqn:Hr; try discriminate; [|destruct e; discriminate|contradiction].
    exfalso. unfold Chunk.reader_next in Hr. destruct (reader_next_fuel_progress _ _ _ _ _ _ _ _ _ _ _ _ _ _ Hr) as [A _]. lia.
  - pose proof (reader_next_terminates crc f fid bid off) as Ht.
    destruct (reader_next f fid bid off) as [[[[d p] b'] o']|e| |] eqn:Hr; try discriminate; [|destruct e; discriminate|contradiction].
    unfold Chunk.reader_next in Hr. destruct (reader_next_fuel_progress _ _ _ _ _ _ _ _ _ _ _ _ _ _ Hr) as [A B].
    specialize (IH b' o' ltac:(lia)). destruct (scan_fuel (S fuel) f fid b' o') as [rs e]. exact IH.
Qed.
Theorem scan_terminates f fid : snd (scan f fid) <> SFuel.
Proof.
  unfold Chunk.scan. apply scan_fuel_enough. rewrite chunkHeaderSize_val, N2Nat.id.
  generalize (len f). intros n. lia.
Qed.
End Progress.

Section Detect.
Variable crc : bytes -> N.
Notation decode_chunk := (decode_chunk crc).

(* DecodeChunk on any bytes that have the shape of a chunk: the verdict is the checksum comparison *)
Lemma decode_raw (sum lenb : bytes) ty (d rest : bytes) :
  len sum = 4 -> len lenb = 2 -> rd16 lenb = len d ->
  decode_chunk (sum ++ lenb ++ [ty] ++ d ++ rest) =
    if rd32 sum =? crc (lenb ++ [ty] ++ d) then Ok (d, ty) else Err InvalidCRC.
Proof.
  intros L1 L2 L3. unfold Chunk.decode_chunk. rewrite chunkHeaderSize_val.
  set (c := sum ++ lenb ++ [ty] ++ d ++ rest).
  assert (Hc : len c = 7 + len d + len rest).
  { unfold c. unfold byte in *. rewrite !len_app, len_cons, len_nil. lia. }
  destruct (len c <? 7) eqn:E1; [unfold byte in *; lia|].
  assert (Hd4 : drop 4 c = lenb ++ [ty] ++ d ++ rest) by (unfold c; apply drop_app_exact; symmetry; exact L1).
  rewrite (gslice_ok 4 6 c) by (unfold byte in *; lia).
  assert (Hl : take (6 - 4) (drop 4 c) = lenb) by (rewrite Hd4; apply take_app_exact; symmetry; exact L2).
  rewrite Hl, L3.
  destruct (len c <? 7 + len d) eqn:E2; [unfold byte in *; lia|].
  rewrite (gslice_ok 4 (7 + len d) c), (gslice_ok 0 4 c), (gslice_ok 7 (7 + len d) c) by (unfold byte in *; lia).
  assert (Hi : gindex 6 c = Some ty).
  { unfold c. replace (sum ++ lenb ++ [ty] ++ d ++ rest) with ((sum ++ lenb) ++ ty :: d ++ rest) by (rewrite <- !app_assoc; reflexivity).
    replace 6 with (len (sum ++ lenb)) by (unfold byte in *; rewrite len_app; lia). apply gindex_app_exact. }
  rewrite Hi.
  assert (Hbody : take (7 + len d - 4) (drop 4 c) = lenb ++ [ty] ++ d).
  { rewrite Hd4. replace (lenb ++ [ty] ++ d ++ rest) with ((lenb ++ [ty] ++ d) ++ rest) by (rewrite <- !app_assoc; reflexivity).
    apply take_app_exact. unfold byte in *. rewrite !len_app, len_cons, len_nil. lia. }
  rewrite Hbody.
  assert (Hsum : take (4 - 0) (drop 0 c) = sum) by (rewrite drop_0; unfold c; apply take_app_exact; symmetry; exact L1).
  rewrite Hsum.
  assert (Hpay : take (7 + len d - 7) (drop 7 c) = d).
  { replace (drop 7 c) with (drop 3 (drop 4 c)) by (rewrite drop_drop; reflexivity). rewrite Hd4.
    replace (lenb ++ [ty] ++ d ++ rest) with ((lenb ++ [ty]) ++ d ++ rest) by (rewrite <- !app_assoc; reflexivity).
    rewrite drop_app_exact by (unfold byte in *; rewrite len_app, len_cons, len_nil; lia).
    apply take_app_exact. lia. }
  rewrite Hpay. reflexivity.
Qed.

Hypothesis crc_u32 : forall b, crc b < 4294967296.

(* four bytes are determined by the number they encode *)
Lemma rd32_inj a b : len a = 4 -> len b = 4 -> Forall (fun x => x < 256) a -> Forall (fun x => x < 256) b ->
  rd32 a = rd32 b -> a = b.
Proof.
  intros La Lb Fa Fb.
  destruct a as [|a0 [|a1 [|a2 [|a3 [|? ?]]]]]; try (cbn in La; unfold byte in *; lia).
  destruct b as [|b0 [|b1 [|b2 [|b3 [|? ?]]]]]; try (cbn in Lb; unfold byte in *; lia).
  all: try (exfalso; rewrite !len_cons in *; unfold byte in *; lia).
  repeat match goal with H : Forall _ (_ :: _) |- _ => inversion H; clear H; subst end.
  unfold rd32. intros H. assert (a0 = b0 /\ a1 = b1 /\ a2 = b2 /\ a3 = b3) by lia.
  destruct H0 as (-> & -> & -> & ->). reflexivity.
Qed.

(* a chunk as written, with its checksum field replaced by any other four bytes: rejected *)
Theorem damaged_checksum_rejected ty (p rest sum' : bytes) :
  len p < 65536 -> len sum' = 4 -> Forall (fun x => x < 256) sum' ->
  sum' <> le32 (crc (chunk_body ty p)) ->
  decode_chunk (sum' ++ le16 (len p) ++ [ty] ++ p ++ rest) = Err InvalidCRC.
Proof.
  intros Hp L F Hne. rewrite decode_raw; [|exact L|reflexivity|rewrite <- (app_nil_r (le16 (len p))); apply rd16_le16; exact Hp].
  match goal with |- (if ?bb then _ else _) = _ => destruct bb eqn:E end; [|reflexivity].
  exfalso. apply Hne. apply N.eqb_eq in E. apply rd32_inj; [exact L|reflexivity|exact F| |].
  - unfold le32. repeat constructor; lia.
  - rewrite E. unfold chunk_body. rewrite <- (app_nil_r (le32 _)). rewrite rd32_le32 by apply crc_u32. reflexivity.
Qed.

(* the error-detection property of the checksum that the next theorem rests on (true of CRC-32:
   every error burst of at most 32 bits is detected); not proved here *)
Definition detects_one_byte : Prop :=
  forall (a b : bytes) x y, x <> y -> crc (a ++ x :: b) <> crc (a ++ y :: b).

(* a chunk as written, with one byte of its type-and-payload part changed: rejected *)
Theorem damaged_body_rejected ty (p rest a b : bytes) x y :
  detects_one_byte -> len p < 65536 -> ty :: p = a ++ x :: b -> x <> y ->
  exists ty' p', ty' :: p' = a ++ y :: b /\
    decode_chunk (le32 (crc (chunk_body ty p)) ++ le16 (len p) ++ [ty'] ++ p' ++ rest) = Err InvalidCRC.
Proof.
  intros Hdet Hp Hsplit Hxy.
  assert (Hex : exists ty' p', ty' :: p' = a ++ y :: b /\ len p' = len p).
  { destruct a as [|a0 a]; cbn [app] in *.
    - injection Hsplit as -> ->. exists y, b. auto.
    - injection Hsplit as -> ->. exists a0, (a ++ y :: b). split; [reflexivity|].
      unfold byte in *. rewrite !len_app, !len_cons. reflexivity. }
  destruct Hex as (ty' & p' & Heq & Hlen). exists ty', p'. split; [exact Heq|].
  rewrite decode_raw; [|reflexivity|reflexivity|rewrite <- (app_nil_r (le16 (len p))), rd16_le16 by exact Hp; symmetry; exact Hlen].
  rewrite <- (app_nil_r (le32 _)) at 1. rewrite rd32_le32 by apply crc_u32.
  match goal with |- (if ?bb then _ else _) = _ => destruct bb eqn:E end; [|reflexivity]. exfalso. apply N.eqb_eq in E.
  unfold chunk_body in E. cbn [app] in E. change (ty :: p) with ([ty] ++ p) in Hsplit.
  assert (E' : crc (le16 (len p) ++ a ++ x :: b) = crc (le16 (len p) ++ a ++ y :: b)).
  { rewrite <- Hsplit, <- Heq. exact E. }
  rewrite !app_assoc in E'. exact (Hdet _ _ _ _ Hxy E').
Qed.

End Detect.

(* the record decoder (checkLogRecord + DecodeLogRecord): whatever it accepts is a header followed
   by exactly the key and the value it returns - lengths that do not add up are rejected *)
From KV Require Import Record.
Theorem decode_record_sound d r :
  decode_record d = Some r -> exists hdr, d = hdr ++ r_key r ++ r_value r /\ hd 0 hdr = r_type r /\ 0 < len hdr.
Proof.
  unfold decode_record. destruct d as [|ty d1]; [discriminate|].
  destruct (varint_nonneg d1) as [[ks n1]|]; [|discriminate].
  destruct (varint_nonneg (drop n1 d1)) as [[vs n2]|]; [|discriminate].
  destruct (uvarint (drop n2 (drop n1 d1))) as [[b n3]|]; [|discriminate].
  set (d4 := drop n3 (drop n2 (drop n1 d1))).
  destruct ((ks <=? len d4) && (vs =? len d4 - ks)); [|discriminate]. intros [= <-]. cbn [r_key r_value r_type].
  exists (ty :: take (n3 + n2 + n1) d1). split; [|split; [reflexivity|rewrite len_cons; lia]].
  cbn [app]. f_equal. rewrite take_drop. unfold d4. rewrite !drop_drop. symmetry. apply take_drop.
Qed.
