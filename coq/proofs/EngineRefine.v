(* EngineRefine.v — every script of Put / Get / Delete / ListKeys / Fold / Stat / Sync / batches /
   Merge behaves like the same script on a plain ordered map (C01, C05, live part of C06). *)
From Coq Require Import ZArith Lia ZifyN ZifyNat ZifyBool Sorting.Sorted.
From KV Require Import Bytes GenConsts Chunk Record Engine Script BytesLemmas AMapLemmas
  EngineFiles EngineInv EngineBatch.
Open Scope N_scope.

(* ---- Merge does not change the live database ------------------------------------------------- *)
Lemma scan_touch_same io nm f :
  lf_recs (fst (scan_touch io nm f)) = lf_recs f /\ lf_size (fst (scan_touch io nm f)) = lf_size f.
Proof. unfold scan_touch. destruct (lf_size f =? 0); [auto|apply h_read_same]. Qed.

Lemma touch_older_spec d fid f f' :
  InvF d -> older_get (d_older d) fid = Some f -> lf_recs f' = lf_recs f -> lf_size f' = lf_size f ->
  InvF (set_older d (older_set (d_older d) fid f')) /\ same_recs d (set_older d (older_set (d_older d) fid f')).
Proof.
  intros [Hact Hold] Hget Hr Hs. destruct (Hold _ _ Hget) as [Hwf Hlt].
  split; [split|split]; cbn [set_older d_active d_older d_active_id d_index]; auto.
  - intros id g Hg. rewrite older_get_set in Hg. destruct (id =? fid) eqn:E.
    + injection Hg as <-. assert (id = fid) by lia. subst id. split; [|exact Hlt].
      intros r p Hin. rewrite Hr in Hin. rewrite Hs. apply (Hwf r p). exact Hin.
    + apply Hold. exact Hg.
  - intros q. unfold rec_at, file_of. cbn [set_older d_active d_older d_active_id].
    destruct (p_fid q =? d_active_id d); [reflexivity|]. rewrite older_get_set.
    destruct (p_fid q =? fid) eqn:E; [|reflexivity].
    assert (p_fid q = fid) by lia. rewrite H, Hget, Hr. reflexivity.
Qed.

Lemma merge_files_spec c : forall order d non_merge m d' res evs,
  InvF d -> merge_files c d order non_merge m = (d', res, evs) ->
  InvF d' /\ same_recs d d' /\ d_cfg d' = d_cfg d.
Proof.
  induction order as [|fid order IH]; intros d non_merge m d' res evs HF Hm; cbn [merge_files] in Hm.
  - injection Hm as <- <- <-. split; [exact HF|]. split; [apply same_recs_refl|reflexivity].
  - destruct (older_get (d_older d) fid) as [f|] eqn:Eg; [|eapply IH; eassumption].
    pose proof (scan_touch_same (c_io c) (FData fid) f) as [Hr Hs].
    destruct (scan_touch (c_io c) (FData fid) f) as [f' ev0]. cbn [fst] in *.
    set (d1 := set_older d (older_set (d_older d) fid f')) in *.
    destruct (touch_older_spec d fid f f' HF Eg Hr Hs) as [HF1 Hs1]. fold d1 in HF1, Hs1.
    destruct (merge_file c (d_index d1) fid non_merge m (lf_recs f')) as [res1 ev1].
    destruct res1 as [m'|e m'].
    + destruct (merge_files c d1 order non_merge m') as [[d2 res2] ev2] eqn:Hrest.
      injection Hm as <- <- <-.
      destruct (IH _ _ _ _ _ _ HF1 Hrest) as (HF2 & Hs2 & Hc2).
      split; [exact HF2|]. split; [eapply same_recs_trans; eassumption|exact Hc2].
    + injection Hm as <- <- <-. split; [exact HF1|]. split; [exact Hs1|reflexivity].
Qed.

Theorem db_merge_live d k m order d' k' e evs :
  Inv d -> R d m -> db_merge d k order = (d', k', e, evs) ->
  Inv d' /\ R d' m /\ d_cfg d' = d_cfg d.
Proof.
  intros HI HR Hm. unfold db_merge in Hm.
  destruct (db_rotate d) as [d1 ev1] eqn:Hrot.
  destruct (db_rotate_spec d d1 ev1 (proj1 HI) Hrot) as (HF1 & Hrec1 & Hix1 & Hcfg1 & _).
  assert (Hs1 : same_recs d d1) by (split; assumption).
  destruct (h_open (c_io (d_cfg d)) (MData 0) false lf_empty) as [a0 ev3].
  destruct (hf_open_new (c_io (d_cfg d))) as [h0 ev4].
  destruct (merge_files (d_cfg d) d1 order (d_active_id d1) (mkMs 0 a0 [] h0)) as [[d2 res] ev5] eqn:Hmf.
  destruct (merge_files_spec _ _ _ _ _ _ _ _ HF1 Hmf) as (HF2 & Hs2 & Hcfg2).
  assert (Hs : same_recs d d2) by (eapply same_recs_trans; eassumption).
  assert (HI2 : Inv d2) by (eapply Inv_same; eassumption).
  assert (HR2 : R d2 m) by (eapply R_same; eassumption).
  destruct res as [ms|er ms].
  - destruct (hf_close (c_io (d_cfg d)) (ms_hint ms)) as [h1 ev6].
    destruct (h_close (c_io (d_cfg d)) (MData (ms_active_id ms)) (ms_active ms)) as [a1 ev7].
    destruct (ms_close_older (c_io (d_cfg d)) (ms_older ms)) as [o1 ev8].
    destruct (db_sync d2) as [d3 evS] eqn:Hsy.
    injection Hm as <- _ _ _.
    destruct (db_sync_spec _ _ _ _ HI2 HR2 Hsy) as (HI3 & HR3 & Hc3).
    split; [exact HI3|]. split; [exact HR3|congruence].
  - injection Hm as <- _ _ _. split; [exact HI2|]. split; [exact HR2|congruence].
Qed.

(* ---- one operation ------------------------------------------------------------------------------- *)
Definition no_restart (o : op) : Prop := match o with OpRestart _ => False | _ => True end.

Theorem step_refines d k m o d' k' r evs :
  Inv d -> R d m -> no_restart o -> step (d, k) o = ((d', k'), r, evs) ->
  Inv d' /\ R d' (fst (sstep m o)) /\ proj r = proj (snd (sstep m o)).
Proof.
  intros HI HR Hnr Hst. destruct o as [key v|key|key| | | | |sync id bops|order|c]; cbn [step sstep] in *.
  - (* Put *)
    destruct (db_put d key v) as [[d1 e] ev1] eqn:Hp. injection Hst as <- <- <- <-.
    destruct (db_put_spec _ _ _ _ _ _ _ HI HR Hp) as (HI1 & Hcase). unfold s_put.
    destruct (len key =? 0); cbn [fst snd].
    + destruct Hcase as (-> & -> & HR1). auto.
    + destruct Hcase as (-> & HR1). auto.
  - (* Get *)
    destruct (db_get_spec d m key HI HR) as (d1 & ev1 & Hg & HI1 & HR1 & _). rewrite Hg in Hst.
    injection Hst as <- <- <- <-. cbn [fst snd]. auto.
  - (* Delete *)
    destruct (db_delete d key) as [[d1 e] ev1] eqn:Hp. injection Hst as <- <- <- <-.
    destruct (db_delete_spec _ _ _ _ _ _ HI HR Hp) as (HI1 & -> & HR1 & _).
    destruct (s_del m key) as [m1 e1]. cbn [fst snd] in *. auto.
  - (* ListKeys *)
    injection Hst as <- <- <- <-. cbn [fst snd]. rewrite (db_list_keys_spec d m HR). auto.
  - (* Fold *)
    destruct (db_fold_spec d m HI HR) as (d1 & ev1 & Hf & HI1 & HR1 & _). rewrite Hf in Hst.
    injection Hst as <- <- <- <-. cbn [fst snd]. auto.
  - (* Stat *)
    unfold db_stat in Hst. injection Hst as <- <- <- <-. cbn [fst snd proj].
    rewrite (db_keynum_spec d m HR). auto.
  - (* Sync *)
    destruct (db_sync d) as [d1 ev1] eqn:Hs. injection Hst as <- <- <- <-.
    destruct (db_sync_spec _ _ _ _ HI HR Hs) as (HI1 & HR1 & _). cbn [fst snd]. auto.
  - (* a batch: NewBatch, the operations, Commit *)
    destruct (run_bops d (new_batch sync id) bops) as [[[d1 b1] rs] ev1] eqn:Hr.
    destruct (batch_commit d1 b1) as [[[d2 b2] e] ev2] eqn:Hc. injection Hst as <- <- <- <-.
    destruct (run_bops_spec _ _ _ _ _ _ _ _ HI (BRel_start d m sync id HI HR) Hr) as (HI1 & HB1 & Hrs & _).
    destruct (batch_commit_view _ _ _ _ _ _ _ HI1 HB1 Hc) as (HI2 & HR2 & -> & _).
    destruct (s_bops m bops) as [mf rsf]. cbn [fst snd] in *. subst rs. auto.
  - (* Merge *)
    destruct (db_merge d k order) as [[[d1 k1] e] ev1] eqn:Hm. injection Hst as <- <- <- <-.
    destruct (db_merge_live _ _ _ _ _ _ _ _ HI HR Hm) as (HI1 & HR1 & _). cbn [fst snd proj]. auto.
  - destruct Hnr.
Qed.

(* ---- every script --------------------------------------------------------------------------------- *)
Theorem run_refines : forall ops d k m s' rs evs,
  Inv d -> R d m -> Forall no_restart ops -> run (d, k) ops = (s', rs, evs) ->
  map proj rs = map proj (srun m ops) /\ Inv (fst s') /\ exists m', R (fst s') m'.
Proof.
  induction ops as [|o ops IH]; intros d k m s' rs evs HI HR Hnr Hrun; cbn [run srun] in *.
  - injection Hrun as <- <- <-. cbn [fst]. split; [reflexivity|]. split; [exact HI|]. exists m. exact HR.
  - inversion Hnr as [|? ? Ho Hrest]; subst.
    destruct (step (d, k) o) as [[[d1 k1] r] ev1] eqn:Hst.
    destruct (run (d1, k1) ops) as [[s2 rs2] ev2] eqn:Hr2. injection Hrun as <- <- <-.
    destruct (step_refines _ _ _ _ _ _ _ _ HI HR Ho Hst) as (HI1 & HR1 & Hpr).
    destruct (sstep m o) as [m1 r1]. cbn [fst snd] in *.
    destruct (IH _ _ _ _ _ _ HI1 HR1 Hrest Hr2) as (Hrs & HI2 & Hm2).
    cbn [map]. rewrite Hpr, Hrs. auto.
Qed.

(* ---- a freshly created database satisfies the hypotheses ------------------------------------------ *)
Definition empty_disk : disk := mkDisk [] None None.

Lemma open_empty c : exists d k evs, db_open c empty_disk = (OpenOk d k, evs) /\ Inv d /\ R d [].
Proof.
  unfold db_open, empty_disk. cbn [load_merge_files k_merge k_data open_all].
  cbn [N.ltb N.compare]. cbn -[h_open db_rotate].
  pose proof (h_open_new (c_io c) (FData 0)) as [Hr Hs].
  destruct (h_open (c_io c) (FData 0) false lf_empty) as [n ev] eqn:Ho. cbn [fst] in *.
  eexists _, _, _. split; [reflexivity|]. split.
  - split; [split|split]; cbn [d_active d_older d_index d_active_id].
    + intros r p Hin. rewrite Hr in Hin. destruct Hin.
    + intros id f H. discriminate.
    + constructor.
    + intros k p [].
  - constructor.
Qed.
