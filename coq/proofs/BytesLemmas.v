(* BytesLemmas.v — lemmas about take/drop/len, little-endian integers and varints. *)
From Coq Require Import ZArith Lia ZifyN ZifyNat ZifyBool.
From KV Require Import Bytes.
Open Scope N_scope.
Ltac Zify.zify_post_hook ::= Z.div_mod_to_equations.
#[global] Arguments N.add : simpl never.
#[global] Arguments N.sub : simpl never.
#[global] Arguments N.mul : simpl never.
#[global] Arguments N.div : simpl never.
#[global] Arguments N.modulo : simpl never.
#[global] Arguments N.ltb : simpl never.
#[global] Arguments N.leb : simpl never.
#[global] Arguments N.eqb : simpl never.
#[global] Arguments N.pow : simpl never.

Lemma len_nil {A} : len (@nil A) = 0. Proof. reflexivity. Qed.
Lemma len_cons {A} (x : A) l : len (x :: l) = len l + 1.
Proof. cbn [len]. lia. Qed.
Lemma len_app {A} (a b : list A) : len (a ++ b) = len a + len b.
Proof. induction a as [|x a IH]; cbn [app]; rewrite ?len_nil, ?len_cons, ?IH; lia. Qed.
Lemma len_length {A} (l : list A) : len l = N.of_nat (length l).
Proof. induction l as [|x l IH]; [reflexivity|]. rewrite len_cons, IH. cbn [length]. lia. Qed.
Lemma len_0_nil {A} (l : list A) : len l = 0 -> l = [].
Proof. destruct l; [reflexivity|]. rewrite len_cons. lia. Qed.

Lemma take_0 {A} (l : list A) : take 0 l = [].
Proof. destruct l; reflexivity. Qed.
Lemma drop_0 {A} (l : list A) : drop 0 l = l.
Proof. destruct l; reflexivity. Qed.
Lemma take_nil {A} n : take n (@nil A) = []. Proof. reflexivity. Qed.
Lemma drop_nil {A} n : drop n (@nil A) = []. Proof. reflexivity. Qed.
Lemma take_cons {A} n (x : A) l : 0 < n -> take n (x :: l) = x :: take (n - 1) l.
Proof. intros H. cbn [take]. destruct (n =? 0) eqn:E; [lia|reflexivity]. Qed.
Lemma drop_cons {A} n (x : A) l : 0 < n -> drop n (x :: l) = drop (n - 1) l.
Proof. intros H. cbn [drop]. destruct (n =? 0) eqn:E; [lia|reflexivity]. Qed.

Lemma take_drop {A} n (l : list A) : take n l ++ drop n l = l.
Proof. revert n; induction l as [|x r IH]; intros n; cbn [take drop]; [reflexivity|].
  destruct (n =? 0) eqn:E; cbn [app]; [reflexivity| now rewrite IH]. Qed.
Lemma len_take {A} n (l : list A) : len (take n l) = if n <=? len l then n else len l.
Proof. revert n; induction l as [|x r IH]; intros n; cbn [take].
  - rewrite len_nil. destruct (n <=? 0) eqn:E; lia.
  - destruct (n =? 0) eqn:E.
    + rewrite len_nil, len_cons. destruct (n <=? len r + 1) eqn:E2; lia.
    + rewrite !len_cons, IH. destruct (n - 1 <=? len r) eqn:E1; destruct (n <=? len r + 1) eqn:E2; lia. Qed.
Lemma len_take_le {A} n (l : list A) : n <= len l -> len (take n l) = n.
Proof. intros H. rewrite len_take. destruct (n <=? len l) eqn:E; lia. Qed.
Lemma len_drop {A} n (l : list A) : len (drop n l) = len l - n.
Proof. revert n; induction l as [|x r IH]; intros n; cbn [drop].
  - rewrite len_nil; lia.
  - destruct (n =? 0) eqn:E; [lia|]. rewrite len_cons, IH. lia. Qed.
Lemma drop_app_exact {A} (a b : list A) n : n = len a -> drop n (a ++ b) = b.
Proof. intros ->. induction a as [|x a IH]; cbn [app].
  - apply drop_0.
  - rewrite len_cons, drop_cons by lia. replace (len a + 1 - 1) with (len a) by lia. exact IH. Qed.
Lemma take_app_exact {A} (a b : list A) n : n = len a -> take n (a ++ b) = a.
Proof. intros ->. induction a as [|x a IH]; cbn [app].
  - apply take_0.
  - rewrite len_cons, take_cons by lia. replace (len a + 1 - 1) with (len a) by lia. now rewrite IH. Qed.
Lemma drop_drop {A} (l : list A) a b : drop a (drop b l) = drop (a + b) l.
Proof. revert a b; induction l as [|x r IH]; intros a b; cbn [drop]; [reflexivity|].
  destruct (b =? 0) eqn:Eb.
  - assert (b = 0) by lia; subst. rewrite N.add_0_r. reflexivity.
  - destruct (a + b =? 0) eqn:Eab; [lia|]. rewrite IH. f_equal; lia. Qed.
Lemma take_all {A} (l : list A) n : len l <= n -> take n l = l.
Proof. revert n; induction l as [|x r IH]; intros n H; cbn [take]; [reflexivity|].
  rewrite len_cons in H. destruct (n =? 0) eqn:E; [lia|]. rewrite IH by lia. reflexivity. Qed.
Lemma drop_all {A} (l : list A) n : len l <= n -> drop n l = [].
Proof. revert n; induction l as [|x r IH]; intros n H; cbn [drop]; [reflexivity|].
  rewrite len_cons in H. destruct (n =? 0) eqn:E; [lia|]. apply IH; lia. Qed.
Lemma take_app_le {A} (a b : list A) n : n <= len a -> take n (a ++ b) = take n a.
Proof. revert n; induction a as [|x a IH]; intros n H; cbn [app].
  - rewrite len_nil in H. assert (n = 0) by lia; subst. rewrite take_0. reflexivity.
  - rewrite len_cons in H. cbn [take]. destruct (n =? 0); [reflexivity|]. rewrite IH by lia. reflexivity. Qed.
Lemma drop_app_le {A} (a b : list A) n : n <= len a -> drop n (a ++ b) = drop n a ++ b.
Proof. revert n; induction a as [|x a IH]; intros n H; cbn [app].
  - rewrite len_nil in H. assert (n = 0) by lia; subst. rewrite drop_0. reflexivity.
  - rewrite len_cons in H. cbn [drop]. destruct (n =? 0); [reflexivity|]. apply IH; lia. Qed.
Lemma drop_app_ge {A} (a b : list A) n : len a <= n -> drop n (a ++ b) = drop (n - len a) b.
Proof. intros H. replace n with ((n - len a) + len a) at 1 by lia.
  rewrite <- drop_drop. rewrite (drop_app_exact a b (len a)) by reflexivity. reflexivity. Qed.
Lemma take_take {A} (l : list A) a b : a <= b -> take a (take b l) = take a l.
Proof. revert a b; induction l as [|x r IH]; intros a b H; cbn [take]; [reflexivity|].
  destruct (b =? 0) eqn:Eb.
  - assert (a = 0) by lia. subst. cbn [take]. rewrite N.eqb_refl. reflexivity.
  - cbn [take]. destruct (a =? 0); [reflexivity|]. rewrite IH by lia. reflexivity. Qed.
Lemma take_add {A} (l : list A) a b : take (a + b) l = take a l ++ take b (drop a l).
Proof. revert a b; induction l as [|x r IH]; intros a b; cbn [take drop]; [reflexivity|].
  destruct (a =? 0) eqn:Ea.
  - assert (a = 0) by lia; subst. rewrite N.add_0_l. cbn [app take]. reflexivity.
  - destruct (a + b =? 0) eqn:Eab; [lia|]. cbn [app]. f_equal.
    replace (a + b - 1) with ((a - 1) + b) by lia. apply IH. Qed.

(* fdrop is drop *)
Lemma drop_1 {A} (l : list A) : drop 1 l = tl l.
Proof. destruct l as [|x r]; [reflexivity|]. cbn [drop tl]. destruct (1 =? 0) eqn:E; [lia|]. apply drop_0. Qed.
Lemma drop_pos_eq {A} p (l : list A) : drop_pos p l = drop (Npos p) l.
Proof. revert l; induction p as [q IH|q IH|]; intros l; cbn [drop_pos].
  - rewrite !IH, drop_drop, <- drop_1, drop_drop. f_equal. lia.
  - rewrite !IH, drop_drop. f_equal. lia.
  - symmetry. apply drop_1. Qed.
Lemma fdrop_eq {A} n (l : list A) : fdrop n l = drop n l.
Proof. destruct n as [|p]; cbn [fdrop]; [symmetry; apply drop_0 | apply drop_pos_eq]. Qed.

Lemma slice_eq i j (l : bytes) : slice i j l = take (j - i) (drop i l).
Proof. unfold slice. rewrite fdrop_eq. reflexivity. Qed.

(* zeros *)
Lemma len_zeros_pos p : len (zeros_pos p) = Npos p.
Proof. induction p as [q IH|q IH|]; cbn [zeros_pos]; rewrite ?len_cons, ?len_app, ?IH, ?len_nil; lia. Qed.
Lemma len_zeros n : len (zeros n) = n.
Proof. destruct n; [reflexivity| apply len_zeros_pos]. Qed.
Lemma all_zero_app a b : all_zero (a ++ b) = all_zero a && all_zero b.
Proof. induction a as [|x a IH]; cbn [app all_zero]; [reflexivity|]. rewrite IH. destruct (x =? 0); reflexivity. Qed.
Lemma all_zero_zeros_pos p : all_zero (zeros_pos p) = true.
Proof. induction p as [q IH|q IH|]; cbn [zeros_pos all_zero]; rewrite ?all_zero_app, ?IH; reflexivity. Qed.
Lemma all_zero_zeros n : all_zero (zeros n) = true.
Proof. destruct n; [reflexivity| apply all_zero_zeros_pos]. Qed.

(* little-endian integers *)
Lemma rd16_le16 n rest : n < 65536 -> rd16 (le16 n ++ rest) = n.
Proof. intros H. unfold rd16, le16. cbn [app]. lia. Qed.
Lemma rd32_le32 n rest : n < 4294967296 -> rd32 (le32 n ++ rest) = n.
Proof. intros H. unfold rd32, le32. cbn [app]. lia. Qed.
Lemma len_le16 n : len (le16 n) = 2. Proof. reflexivity. Qed.
Lemma len_le32 n : len (le32 n) = 4. Proof. reflexivity. Qed.

Definition byte_ok (b : N) : Prop := b < 256.
Definition bytes_ok (l : bytes) : Prop := Forall byte_ok l.
