(* EngineOpen.v — Open in general: with no merge to adopt (none pending, or an unfinished one that
   is ignored) and with a finished merge whose rewritten files and hint file have just been moved
   into the data directory.  In both cases the opened database satisfies the log invariant with
   respect to the data files as they are after the adoption step. *)
From Coq Require Import ZArith Lia ZifyN ZifyNat ZifyBool Sorting.Sorted.
From KV Require Import Bytes GenConsts Chunk Record Engine Script BytesLemmas AMapLemmas
  EngineFiles EngineInv EngineBatch EngineRefine EngineLog EngineRecover.
Open Scope N_scope.

(* ---- plain live records: what Merge writes ------------------------------------------------------ *)
Definition plain_live (r : record) : Prop := r_batch r = 0 /\ (r_type r =? rt_Deleted) = false.

Lemma sreplay_plain : forall L m t, Forall (fun r => r_batch r = 0) L -> sreplay m t L = (s_apply_recs m L, t).
Proof.
  induction L as [|r L IH]; intros m t H; [reflexivity|].
  cbn [sreplay s_apply_recs fold_left]. rewrite (Forall_inv H), N.eqb_refl. apply IH. exact (Forall_inv_tail H).
Qed.

Definition recs_of (fs : list (N * lfile)) : list (record * pos) := concat (map (fun x => lf_recs (snd x)) fs).
Definition hint_of (rps : list (record * pos)) : list (bytes * pos) := map (fun rp => (r_key (fst rp), snd rp)) rps.

Lemma files_log_recs fs : files_log fs = map fst (recs_of fs).
Proof.
  unfold files_log, recs_of, file_log. induction fs as [|x fs IH]; [reflexivity|].
  cbn [map concat]. rewrite map_app, IH. reflexivity.
Qed.
Lemma recs_of_app a b : recs_of (a ++ b) = recs_of a ++ recs_of b.
Proof. unfold recs_of. rewrite map_app, concat_app. reflexivity. Qed.
Lemma recs_of_in fs r p : In (r, p) (recs_of fs) -> exists id f, In (id, f) fs /\ In (r, p) (lf_recs f).
Proof.
  unfold recs_of. induction fs as [|[id f] fs IH]; cbn [map concat snd]; [intros []|].
  intros H. apply in_app_or in H. destruct H as [H|H].
  - exists id, f. split; [left; reflexivity|exact H].
  - destruct (IH H) as (id' & f' & H1 & H2). exists id', f'. split; [right; exact H1|exact H2].
Qed.

(* ---- the index a hint file loads ------------------------------------------------------------------ *)
Lemma load_hint_files : forall H d x,
  d_active_id (fst (load_hint d H x)) = d_active_id d /\ d_active (fst (load_hint d H x)) = d_active d /\
  d_older (fst (load_hint d H x)) = d_older d /\ d_cfg (fst (load_hint d H x)) = d_cfg d.
Proof.
  induction H as [|[k p] H IH]; intros d x; cbn [load_hint fst]; [auto|].
  destruct (idx_put (d_index d) k p) as [ix old].
  match goal with |- context [load_hint ?dd H ?xx] => destruct (IH dd xx) as (A & B & C & D) end.
  rewrite A, B, C, D. auto.
Qed.

Definition hint_index (H : list (bytes * pos)) (ix : index) : index :=
  fold_left (fun ix kp => fst (amap_put ix (fst kp) (snd kp))) H ix.

Lemma load_hint_index : forall H d x, d_index (fst (load_hint d H x)) = hint_index H (d_index d).
Proof.
  induction H as [|[k p] H IH]; intros d x; cbn [load_hint fst hint_index fold_left snd]; [reflexivity|].
  unfold idx_put. destruct (amap_put (d_index d) k p) as [ix old] eqn:Hip.
  match goal with |- context [load_hint ?dd H ?xx] => rewrite (IH dd xx) end.
  cbn [set_counters set_index d_index fst]. reflexivity.
Qed.

Lemma apply_staged_index : forall RL d, Forall (fun rp => (r_type (fst rp) =? rt_Deleted) = false) RL ->
  d_index (apply_staged d RL) = hint_index (hint_of RL) (d_index d).
Proof.
  induction RL as [|[r p] RL IH]; intros d Hty; [reflexivity|].
  rewrite apply_staged_cons, (IH _ (Forall_inv_tail Hty)), index_step_index.
  pose proof (Forall_inv Hty) as H1. cbn [fst] in H1. rewrite H1. reflexivity.
Qed.

(* every hint entry raises the first unhinted id above its file id *)
Lemma load_hint_hinted : forall H d x, x <= snd (load_hint d H x) /\
  forall k p, In (k, p) H -> p_fid p + 1 <= snd (load_hint d H x).
Proof.
  induction H as [|[k p] H IH]; intros d x; cbn [load_hint snd]; [split; [lia|intros ? ? []]|].
  destruct (idx_put (d_index d) k p) as [ix old].
  match goal with |- context [load_hint ?dd H ?xx] => destruct (IH dd xx) as [A B] end.
  split.
  - destruct (x <? p_fid p + 1) eqn:E; lia.
  - intros k0 p0 [Heq|Hin]; [injection Heq as <- <-; destruct (x <? p_fid p + 1) eqn:E; lia|exact (B _ _ Hin)].
Qed.

(* ---- files with ids below / from a bound ---------------------------------------------------------- *)
Definition below (n : N) (fs : list (N * lfile)) := filter (fun x => fst x <? n) fs.
Definition from_ (n : N) (fs : list (N * lfile)) := filter (fun x => n <=? fst x) fs.

Lemma ids_above_all o lo id f : ids_above o lo -> In (id, f) o -> lo < id.
Proof. induction o as [|[j h] o IH]; cbn [ids_above]; [intros _ []|]. intros [H1 H2] [Heq|Hin]; [injection Heq as <- _; exact H1|auto]. Qed.

Lemma split_at fs n mid : asc fs -> n <= mid -> (forall id f, In (id, f) fs -> id < n \/ mid <= id) ->
  fs = below n fs ++ from_ mid fs.
Proof.
  intros Hasc Hn. induction fs as [|[i g] fs IH]; intros Hp; [reflexivity|].
  destruct Hasc as [Hab Hasc]. cbn [below from_ filter fst].
  assert (IH' : fs = below n fs ++ from_ mid fs) by (apply IH; [exact Hasc|intros id f Hin; apply (Hp id f); right; exact Hin]).
  destruct (Hp i g (or_introl eq_refl)) as [Hlt|Hge].
  - destruct (i <? n) eqn:E1; [|lia]. destruct (mid <=? i) eqn:E2; [lia|]. cbn [app]. f_equal. exact IH'.
  - destruct (i <? n) eqn:E1; [lia|]. destruct (mid <=? i) eqn:E2; [|lia].
    (* everything after i is also >= mid *)
    assert (Hb : below n fs = []).
    { clear - Hab Hge Hn. induction fs as [|[j h] fs IH]; [reflexivity|]. cbn [below filter fst]. destruct Hab as [H1 H2].
      destruct (j <? n) eqn:E; [lia|]. apply IH. exact H2. }
    fold (below n fs). fold (from_ mid fs). rewrite Hb. cbn [app]. f_equal. rewrite IH' at 1. rewrite Hb. reflexivity.
Qed.

Lemma replay_files_from d t mid from : forall files, from <= mid ->
  (forall id f, In (id, f) files -> from <= id -> id < mid -> lf_recs f = []) ->
  replay_files d t files from = replay_files d t (from_ mid files) 0.
Proof.
  intros files Hle. revert d t. induction files as [|[i g] files IH]; intros d t He; [reflexivity|].
  cbn [replay_files from_ filter fst].
  assert (IH' : forall d t, replay_files d t files from = replay_files d t (from_ mid files) 0).
  { intros d' t'. apply IH. intros id f Hin. apply He. right. exact Hin. }
  destruct (i <? from) eqn:E1.
  - destruct (mid <=? i) eqn:E2; [lia|]. apply IH'.
  - destruct (mid <=? i) eqn:E2.
    + cbn [replay_files]. destruct (i <? 0) eqn:E3; [lia|]. destruct (replay_recs d t (lf_recs g)) as [d' t']. apply IH'.
    + rewrite (He i g (or_introl eq_refl)) by lia. cbn [replay_recs]. apply IH'.
Qed.

(* ---- Open, in general ------------------------------------------------------------------------------ *)
(* what the adoption step leaves for the rest of Open when a merge was adopted: the hint file lists,
   in order, the records of the files below n (the rewritten files), which are plain live records;
   there is no file with an id from n up to the marker id *)
Definition HintOK (k1 : disk) (mid : N) : Prop :=
  exists h n, k_hint k1 = Some h /\ n <= mid /\
    hf_recs h = hint_of (recs_of (below n (k_data k1))) /\
    Forall (fun rp => plain_live (fst rp)) (recs_of (below n (k_data k1))) /\
    (forall id f, In (id, f) (k_data k1) -> id < n \/ mid <= id).

Lemma same_file_below n a b : Forall2 same_file a b -> Forall2 same_file (below n a) (below n b).
Proof.
  induction 1 as [|x y a b Hxy _ IH]; [constructor|]. cbn [below filter]. destruct Hxy as (Hi & Hr & Hs).
  rewrite Hi. destruct (fst y <? n); [constructor; [repeat split; assumption|exact IH]|exact IH].
Qed.
Lemma same_file_recs a b : Forall2 same_file a b -> recs_of a = recs_of b.
Proof. induction 1 as [|x y a b (_ & Hr & _) _ IH]; [reflexivity|]. unfold recs_of in *. cbn [map concat]. rewrite Hr, IH. reflexivity. Qed.
Lemma same_file_in a b id f : Forall2 same_file a b -> In (id, f) a -> exists g, In (id, g) b.
Proof.
  induction 1 as [|[i x] [j y] a b (Hi & _) _ IH]; [intros []|]. cbn in Hi. subst j.
  intros [Heq|Hin]; [injection Heq as -> _; exists y; left; reflexivity|].
  destruct (IH Hin) as [g Hg]. exists g. right. exact Hg.
Qed.

Lemma in_from_ mid fs id f : In (id, f) (from_ mid fs) -> In (id, f) fs.
Proof. unfold from_. intros H. apply filter_In in H. exact (proj1 H). Qed.
Lemma in_below n fs id f : In (id, f) (below n fs) -> In (id, f) fs /\ id < n.
Proof. unfold below. intros H. apply filter_In in H. cbn [fst] in H. split; [exact (proj1 H)|lia]. Qed.

Lemma Inv_ext d d' : d_active_id d' = d_active_id d -> d_active d' = d_active d -> d_older d' = d_older d ->
  d_index d' = d_index d -> Inv d -> Inv d'.
Proof.
  intros H1 H2 H3 H4 [[Ha Ho] [Hs Hr]]. split; [split; rewrite ?H1, ?H2, ?H3; assumption|].
  split; rewrite H4; [exact Hs|]. intros k p Hin. rewrite (rec_at_ext d d' H1 H2 H3). apply Hr. exact Hin.
Qed.
Lemma R_ext d d' m : d_active_id d' = d_active_id d -> d_active d' = d_active d -> d_older d' = d_older d ->
  d_index d' = d_index d -> R d m -> R d' m.
Proof.
  intros H1 H2 H3 H4 HR. unfold R in *. rewrite H4. eapply amap_rel_impl; [|exact HR].
  intros p v H. unfold val_at in *. rewrite (rec_at_ext d d' H1 H2 H3). exact H.
Qed.

Lemma below_zero fs : below 0 fs = [].
Proof. unfold below. induction fs as [|[i g] fs IH]; [reflexivity|]. cbn [filter fst]. destruct (i <? 0) eqn:E; [lia|exact IH]. Qed.

Theorem db_open_general c k k1 mid ev1 :
  load_merge_files k = (k1, mid, ev1) ->
  asc (k_data k1) -> Forall file_ok (k_data k1) ->
  (mid = 0 \/ (0 < mid /\ HintOK k1 mid)) ->
  exists d k' evs, db_open c k = (OpenOk d k', evs) /\
    LogOK d (fst (sreplay [] [] (files_log (k_data k1)))) /\
    log d = files_log (k_data k1) /\ d_cfg d = c /\ k_merge k' = k_merge k1.
Proof.
  intros Hload Hasc Hok Hmid. unfold db_open. rewrite Hload.
  pose proof (open_all_same (c_io c) (k_data k1) Hok) as Hsame.
  destruct (open_all (c_io c) (k_data k1)) as [files ev2]. cbn [fst] in Hsame.
  pose proof (same_files_log _ _ Hsame) as Hlog.
  pose proof (same_asc _ _ Hsame Hasc) as Hasc'.
  pose proof (same_file_ok _ _ Hsame Hok) as Hok'.
  (* the hint part *)
  destruct (if 0 <? mid then _ else ([], k1, [])) as [[hintrecs k2] ev3] eqn:HT.
  assert (HT' : exists RL n, hintrecs = hint_of RL /\ k_merge k2 = k_merge k1 /\
      RL = recs_of (below n files) /\ Forall (fun rp => plain_live (fst rp)) RL /\
      n <= mid /\ (forall id f, In (id, f) files -> id < n \/ mid <= id)).
  { destruct Hmid as [->|(Hpos & h & n & Hh & Hn & Hrecs & Hpl & Hpart)].
    - change (0 <? 0) with false in HT. injection HT as <- <- <-. exists [], 0. split; [reflexivity|]. split; [reflexivity|].
      split; [rewrite below_zero; reflexivity|]. split; [constructor|]. split; [lia|]. intros; lia.
    - destruct (0 <? mid) eqn:E; [|lia]. rewrite Hh in HT.
      rewrite <- (same_file_recs _ _ (same_file_below n _ _ Hsame)) in Hrecs, Hpl.
      assert (Hpart' : forall id f, In (id, f) files -> id < n \/ mid <= id).
      { intros id f Hin. destruct (same_file_in _ _ _ _ Hsame Hin) as [g Hg]. exact (Hpart _ _ Hg). }
      exists (recs_of (below n files)), n.
      destruct (c_io c =? io_MMap); injection HT as <- <- <-; (split; [exact Hrecs|]); (split; [reflexivity|]); auto. }
  destruct HT' as (RL & n & -> & Hk2 & HRL & Hpl & Hn & Hpart). clear HT.
  set (d0 := mkDb c 0 lf_empty [] [] 0 0 0).
  pose proof (load_hint_index (hint_of RL) d0 0) as Hix1.
  pose proof (load_hint_hinted (hint_of RL) d0 0) as [_ Hhinted].
  destruct (load_hint d0 (hint_of RL) 0) as [d1 hinted]. cbn [fst snd d0 d_index] in Hix1, Hhinted.
  set (from := if 0 <? mid then (if hinted <? mid then hinted else mid) else 0).
  assert (Hnd : Forall (fun rp : record * pos => (r_type (fst rp) =? rt_Deleted) = false) RL).
  { eapply Forall_impl; [|exact Hpl]. intros rp [_ H]. exact H. }
  assert (Hpb : Forall (fun r => r_batch r = 0) (map fst RL)).
  { rewrite Forall_map. eapply Forall_impl; [|exact Hpl]. intros rp [H _]. exact H. }
  assert (Hsplit : files = below n files ++ from_ mid files) by (apply split_at; assumption).
  assert (Hsem : fst (sreplay [] [] (files_log files)) = fst (sreplay (s_apply_recs [] (map fst RL)) [] (files_log (from_ mid files)))).
  { rewrite Hsplit at 1. rewrite files_log_app, sreplay_app, (files_log_recs (below n files)), <- HRL.
    rewrite (sreplay_plain _ [] [] Hpb). reflexivity. }
  pose proof (split_last_spec files) as Hsl.
  destruct (split_last files) as [[older [aid af]]|] eqn:Esl.
  - assert (Hfrom : from <= mid /\ forall id f, In (id, f) files -> from <= id -> id < mid -> lf_recs f = []).
    { split; [subst from; destruct (0 <? mid) eqn:E; [destruct (hinted <? mid) eqn:E2; lia|lia]|].
      intros id f Hin Hge Hlt. destruct (lf_recs f) as [|[r p] l] eqn:El; [reflexivity|exfalso].
      destruct (Hpart id f Hin) as [Hidn|Hidm]; [|lia].
      assert (Hrp : In (r, p) RL).
      { rewrite HRL. unfold recs_of. apply in_concat. exists (lf_recs f). split; [|rewrite El; left; reflexivity].
        apply in_map_iff. exists (id, f). split; [reflexivity|]. unfold below. apply filter_In. cbn [fst]. split; [exact Hin|lia]. }
      assert (Hh : In (r_key r, p) (hint_of RL)) by (unfold hint_of; apply in_map_iff; exists (r, p); auto).
      pose proof (Hhinted _ _ Hh) as Hhp.
      rewrite Forall_forall in Hok'. destruct (Hok' _ Hin) as [_ Hpo]. cbn [fst snd] in Hpo.
      destruct (Hpo r p) as [Hfid _]; [rewrite El; left; reflexivity|].
      subst from. destruct (0 <? mid) eqn:E; [|lia]. destruct (hinted <? mid) eqn:E2; lia. }
    destruct Hfrom as [Hfm Hempty].
    subst files. destruct (asc_app_last _ _ _ Hasc') as [Hbelow Hasco].
    set (d2 := mkDb c aid af older (d_index d1) 0 (d_total d1) (d_reclaim d1)).
    set (d2e := mkDb c aid af older [] 0 0 0).
    assert (Hfiles : forall id f, In (id, f) (older ++ [(aid, af)]) -> file_of d2e id = Some f).
    { intros id f Hin. unfold file_of, d2e. cbn [d_active_id d_active d_older].
      apply in_app_or in Hin. destruct Hin as [Hin|[Heq|[]]].
      - destruct (id =? aid) eqn:E.
        + exfalso. assert (id = aid) by lia. subst id. pose proof (asc_get_in _ _ _ Hasco Hin) as Hg.
          rewrite (older_get_none_below _ _ Hbelow) in Hg. discriminate.
        + apply asc_get_in; assumption.
      - injection Heq as -> ->. rewrite N.eqb_refl. reflexivity. }
    assert (Hwfall : forall id f, In (id, f) (older ++ [(aid, af)]) -> wf_lfile f /\ pos_ok id f).
    { intros id f Hin. rewrite Forall_forall in Hok'. exact (Hok' _ Hin). }
    assert (HI2e : Inv d2e).
    { split; [split|split]; unfold d2e; cbn [d_active d_older d_active_id d_index].
      - apply (Hwfall aid af). apply in_or_app. right. left. reflexivity.
      - intros id f Hg. pose proof (older_get_some_in _ _ _ Hg) as Hin. split.
        + apply (Hwfall id f). apply in_or_app. left. exact Hin.
        + clear - Hbelow Hin. induction older as [|[i g] o IH]; [destruct Hin|]. cbn in Hbelow.
          destruct Hbelow as (H1 & _ & H3). destruct Hin as [Heq|Hin]; [injection Heq as -> _; exact H1|auto].
      - constructor.
      - intros k0 p []. }
    assert (HR2e : R d2e []) by constructor.
    assert (Hres : forall id f r p, In (id, f) (older ++ [(aid, af)]) -> In (r, p) (lf_recs f) -> rec_at d2e p = Some r).
    { intros id f r p Hin Hrp. destruct (Hwfall id f Hin) as [_ Hpo]. destruct (Hpo r p Hrp) as [Hfid Hlk].
      unfold rec_at. rewrite Hfid, (Hfiles id f Hin). exact Hlk. }
    (* the index loaded from the hint file *)
    destruct (apply_staged_spec RL d2e [] HI2e HR2e) as (HIa & HRa & Hreca & _).
    { intros r p Hin. exists r. split; [|auto]. rewrite HRL in Hin. destruct (recs_of_in _ _ _ Hin) as (id & f & Hf & Hrp).
      apply in_below in Hf. eapply Hres; [exact (proj1 Hf)|exact Hrp]. }
    destruct (apply_staged_files RL d2e) as (Fa1 & Fa2 & Fa3).
    assert (Hixa : d_index d2 = d_index (apply_staged d2e RL)).
    { rewrite (apply_staged_index RL d2e Hnd). unfold d2, d2e. cbn [d_index]. exact Hix1. }
    assert (HI2 : Inv d2) by (apply (Inv_ext (apply_staged d2e RL)); auto).
    assert (HR2 : R d2 (s_apply_recs [] (map fst RL))) by (apply (R_ext (apply_staged d2e RL)); auto).
    assert (Hrec2 : forall q, rec_at d2 q = rec_at d2e q) by (apply rec_at_ext; reflexivity).
    rewrite (replay_files_from d2 [] mid from (older ++ [(aid, af)]) Hfm Hempty).
    destruct (replay_files_spec (from_ mid (older ++ [(aid, af)])) d2 [] _ [] HI2 HR2 (Forall2_nil _))
      as (HI3 & HR3 & G1 & G2 & G3 & G4 & _).
    { intros id f r p Hin Hrp. rewrite Hrec2. eapply Hres; [exact (in_from_ _ _ _ _ Hin)|exact Hrp]. }
    destruct (replay_files d2 [] (from_ mid (older ++ [(aid, af)])) 0) as [d3 t3]. cbn [fst snd] in *.
    assert (HO3 : InvO d3) by (unfold InvO; rewrite G1, G3; exact Hbelow).
    assert (HP3 : InvP d3).
    { split; [rewrite G1, G2; apply (Hwfall aid af); apply in_or_app; right; left; reflexivity|].
      rewrite G3. intros id f Hg. apply (Hwfall id f). apply in_or_app. left. apply older_get_some_in. exact Hg. }
    assert (Hlog3 : log d3 = files_log (older ++ [(aid, af)])).
    { unfold log. rewrite G2, G3, files_log_app, files_log_single. reflexivity. }
    rewrite <- Hlog, Hsem.
    destruct ((from <=? aid) && lf_torn af) eqn:Etorn.
    + destruct (db_rotate d3) as [d4 ev5] eqn:Hrot.
      destruct (db_rotate_spec d3 d4 ev5 (proj1 HI3) Hrot) as (HF4 & Hrec4 & Hix4 & Hcfg4 & _).
      destruct (db_rotate_grows d3 d4 ev5 Hrot) as [Hg4 Hpn4].
      destruct (grows_log d3 d4 [] HO3 Hg4) as [Hlog4 HO4]. cbn [map] in Hlog4. rewrite app_nil_r in Hlog4.
      assert (Hs4 : same_recs d3 d4) by (split; assumption).
      eexists _, _, _. split; [reflexivity|]. split; [|split; [congruence|split; [rewrite Hcfg4, G4; reflexivity|exact Hk2]]].
      split; [eapply Inv_same; eassumption|]. split; [exact HO4|].
      split; [exact (grows_InvP d3 d4 [] HO3 HP3 Hg4 (fun _ _ => I) Hpn4)|].
      split; [eapply R_same; eassumption|]. rewrite Hlog4, Hlog3. exact Hsem.
    + eexists _, _, _. split; [reflexivity|]. split; [|split; [exact Hlog3|split; [rewrite G4; reflexivity|exact Hk2]]].
      split; [exact HI3|]. split; [exact HO3|]. split; [exact HP3|]. split; [exact HR3|].
      rewrite Hlog3. exact Hsem.
  - (* an empty directory: a fresh active file *)
    subst files. inversion Hsame; subst.
    assert (HRL : recs_of (below n []) = []) by reflexivity. rewrite HRL in *. cbn [hint_of map hint_index fold_left] in Hix1.
    pose proof (h_open_new (c_io c) (FData 0)) as [Hr Hs].
    destruct (h_open (c_io c) (FData 0) false lf_empty) as [nf ev] eqn:Ho. cbn [fst] in *.
    cbn [replay_files fst snd andb].
    eexists _, _, _. split; [reflexivity|]. unfold LogOK, log, files_log. cbn [d_older d_active d_cfg map concat app k_data].
    unfold file_log. rewrite Hr, Hix1. cbn [map sreplay fst].
    split; [|split; [reflexivity|split; [reflexivity|exact Hk2]]].
    split; [|split; [exact I|split; [|split; [constructor|reflexivity]]]].
    + split; [split|split]; cbn [d_active d_older d_index d_active_id].
      * intros r p Hin. rewrite Hr in Hin. destruct Hin.
      * intros id f Hg. discriminate.
      * constructor.
      * intros k0 p [].
    + split; cbn [d_active d_older d_active_id].
      * intros r p Hin. rewrite Hr in Hin. destruct Hin.
      * intros id f Hg. discriminate.
Qed.
